/-
PyNum — the value algebra of the *generated* model (`BBGen/*`, written by
`tools/py2lean.py` from the Python sources of /repo on every run).

The translator is purely syntactic: every Python expression becomes an application of one
of the operations below to dynamically typed values `PV`.  All the semantics of Python
scalars and of NumPy (NEP 50 promotion, unsigned wrap-around, float64 rounding, NaN
comparisons) therefore lives in this one hand-written file, which is validated against the
real interpreter by the `pynum` correspondence suite (random operand pairs per operation).

Conventions
* `flt none` is NaN.  A division by zero with a non-zero numerator (±inf in NumPy,
  `ZeroDivisionError` in Python) is *outside the model*: it yields `err "div0"`, and
  every theorem that relates generated code to the hand-written model carries the
  hypothesis that excludes it.
* Python `float` and `np.float64` are not distinguished (same arithmetic).
* `err e` propagates through every operation (it stands for a raised exception).
-/
import BBModel.Bits
import BBModel.Fl
import BBModel.Width

namespace BB

inductive PV
  | int (i : Int)
  | bool (b : Bool)
  | flt (x : Option Rat)
  | uns (w : W) (n : Nat)
  | arr (w : W) (xs : List Nat)
  | barr (xs : List Bool)
  | str (s : String)
  | dtype (w : Option W)
  | pynone
  | err (e : String)
  /-- an object of a translated class: class name and (up to three) attribute values in the order of the class's attribute
  table (unused slots are `pynone`) -/
  | obj (cls : String) (a b c : PV)
  deriving DecidableEq, Repr, Inhabited

namespace PV

/-- scalar numbers after normalising `bool` to `int` -/
inductive Num
  | I (i : Int)
  | U (w : W) (n : Nat)
  | F (x : Option Rat)

def toNum : PV → Option Num
  | int i => some (.I i)
  | bool b => some (.I (if b then 1 else 0))
  | flt x => some (.F x)
  | uns w n => some (.U w n)
  | _ => none

/-- conversion to float64 (`none` = NaN) -/
def Num.toF : Num → Option Rat
  | .I i => some (rnd i)
  | .U _ n => some (rnd n)
  | .F x => x

def wmax (a b : W) : W := if a.bits ≤ b.bits then b else a

/-- value of an unsigned scalar of width `w` after an integer operation -/
def wrapInt (w : W) (z : Int) : Nat := (z % (2 ^ w.bits : Nat)).toNat

/-- `+`, `-`, `*` on scalars: Python ints stay ints, NumPy unsigned scalars wrap (a Python int
operand is "weak": it must fit the unsigned type), anything with a float is float64 -/
def arith (fi : Int → Int → Int) (ff : Rat → Rat → Rat) (a b : PV) : PV :=
  match a, b with
  | err e, _ => err e
  | _, err e => err e
  | _, _ =>
    match toNum a, toNum b with
    | some (.I x), some (.I y) => int (fi x y)
    | some (.U w x), some (.U v y) => uns (wmax w v) (wrapInt (wmax w v) (fi x y))
    | some (.U w x), some (.I y) =>
      if 0 ≤ y ∧ y < (2 ^ w.bits : Nat) then uns w (wrapInt w (fi x y)) else err "OverflowError"
    | some (.I x), some (.U w y) =>
      if 0 ≤ x ∧ x < (2 ^ w.bits : Nat) then uns w (wrapInt w (fi x y)) else err "OverflowError"
    | some x, some y =>
      match x.toF, y.toF with
      | some p, some q => flt (some (ff p q))
      | _, _ => flt none
    | _, _ => err "TypeError"

def add : PV → PV → PV := arith (· + ·) fadd
def sub : PV → PV → PV := arith (· - ·) fsub
def mul : PV → PV → PV := arith (· * ·) fmul

/-- `/`: always float64; `0/0` is NaN, `x/0` is outside the model -/
def truediv (a b : PV) : PV :=
  match a, b with
  | err e, _ => err e
  | _, err e => err e
  | _, _ =>
    match toNum a, toNum b with
    | some (.I x), some (.I y) =>
      if y = 0 then err "div0" else flt (some (rnd ((x : Rat) / (y : Rat))))
    | some x, some y =>
      match x.toF, y.toF with
      | some p, some q =>
        if q = 0 then (if p = 0 then flt none else err "div0") else flt (some (fdiv p q))
      | _, _ => flt none
    | _, _ => err "TypeError"

/-- `%` on Python ints (sign of the divisor; only non-negative divisors occur) -/
def mod (a b : PV) : PV :=
  match a, b with
  | err e, _ => err e
  | _, err e => err e
  | _, _ =>
    match toNum a, toNum b with
    | some (.I x), some (.I y) => if y = 0 then err "ZeroDivisionError" else int (Int.fmod x y)
    | _, _ => err "TypeError"

def neg : PV → PV
  | int i => int (-i)
  | bool b => int (if b then -1 else 0)
  | flt x => flt (x.map (fun r => -r))
  | uns w n => uns w (wrapInt w (-(n : Int)))
  | err e => err e
  | _ => err "TypeError"

/-- three-way comparison of two scalars; `none` when a NaN is involved -/
def cmpNum (x y : Num) : Option Ordering :=
  match x, y with
  | .I a, .I b => some (compare a b)
  | .I a, .U _ b => some (compare a (b : Int))
  | .U _ a, .I b => some (compare (a : Int) b)
  | .U _ a, .U _ b => some (compare a b)
  | _, _ =>
    match x.toF, y.toF with
    | some p, some q => some (if p < q then .lt else if p = q then .eq else .gt)
    | _, _ => none

def ordSat (r : Ordering → Bool) : Option Ordering → Bool
  | some o => r o
  | none => false

/-- a comparison operator: scalar/scalar gives `bool`, array/scalar gives a bool array -/
def rel (r : Ordering → Bool) (a b : PV) : PV :=
  match a, b with
  | err e, _ => err e
  | _, err e => err e
  | arr w xs, _ =>
    match toNum b with
    | some y => barr (xs.map (fun k => ordSat r (cmpNum (.U w k) y)))
    | none => err "TypeError"
  | _, _ =>
    match toNum a, toNum b with
    | some x, some y => bool (ordSat r (cmpNum x y))
    | _, _ => err "TypeError"

def lt : PV → PV → PV := rel (fun o => o == .lt)
def le : PV → PV → PV := rel (fun o => o != .gt)
def gt : PV → PV → PV := rel (fun o => o == .gt)
def ge : PV → PV → PV := rel (fun o => o != .lt)

/-- `==` (also on strings and `None`) -/
def eq (a b : PV) : PV :=
  match a, b with
  | err e, _ => err e
  | _, err e => err e
  | str s, str t => bool (s == t)
  | pynone, pynone => bool true
  | str _, _ => bool false
  | _, str _ => bool false
  | pynone, _ => bool false
  | _, pynone => bool false
  | _, _ => rel (fun o => o == .eq) a b

def truthy : PV → Bool
  | int i => i != 0
  | bool b => b
  | flt x => x != some 0
  | uns _ n => n != 0
  | arr .big xs => !xs.isEmpty          -- a Python list (NumPy arrays have no truth value here)
  | str s => s != ""
  | dtype _ => true
  | obj _ _ _ _ => true
  | _ => false

def not : PV → PV
  | err e => err e
  | a => bool (!truthy a)

/-- `!=` (`nan != x` is true) -/
def ne (a b : PV) : PV := not (eq a b)

def isNone : PV → PV
  | err e => err e
  | pynone => bool true
  | _ => bool false

/-- `a or b` / `a and b` return one of their operands -/
def or (a b : PV) : PV := match a with | err e => err e | _ => if truthy a then a else b
def and (a b : PV) : PV := match a with | err e => err e | _ => if truthy a then b else a

/-- `if c: t else: e` for functions returning a value -/
def ite (c t e : PV) : PV := match c with | err s => err s | _ => if truthy c then t else e

/-- `if c: t else: e` for functions returning a tuple / object / effect list -/
def iteL (c : PV) (t e : List PV) : List PV :=
  match c with | err s => [err s] | _ => if truthy c then t else e

/-- in a state-changing method: an exception raised while evaluating `v` leaves the state `st` reached so far -/
def guardL (v : PV) (st : List PV) (k : List PV) : List PV :=
  match v with | err e => err e :: st | _ => k

/-- `if c: t else: e` in a state-changing method (an exception in the test keeps the state `st`) -/
def iteLS (c : PV) (st : List PV) (t e : List PV) : List PV :=
  match c with | err s => err s :: st | _ => if truthy c then t else e

/-- Python's `max(a, b)`: `b` if `b > a` else `a` -/
def max2 (a b : PV) : PV := ite (gt b a) b a

/-- `int(x)`: truncation toward zero -/
def toInt : PV → PV
  | int i => int i
  | bool b => int (if b then 1 else 0)
  | uns _ n => int n
  | flt (some x) => int (Int.tdiv x.num x.den)
  | flt none => err "ValueError"
  | err e => err e
  | _ => err "TypeError"

/-- `np.exp(x)`: an uninterpreted function of the float argument -/
def exp (expf : Rat → Rat) (a : PV) : PV :=
  match a with
  | err e => err e
  | _ =>
    match toNum a with
    | some x => (match x.toF with | some p => flt (some (expf p)) | none => flt none)
    | none => err "TypeError"

def nan : PV := flt none

/-- `x.astype(np.uintN, copy=False)` -/
def astype (a : PV) (w : W) : PV :=
  match a with
  | arr _ xs => arr w (xs.map (wrap w))
  | err e => err e
  | _ => err "TypeError"

/-- `np.sum(x)` of an unsigned 1-D array: accumulated in uint64 -/
def npSum : PV → PV
  | arr _ xs => uns .u64 (xs.sum % 2 ^ 64)
  | err e => err e
  | _ => err "TypeError"

/-- `np.dot(x, y)` of two unsigned 1-D arrays: conserves the (common) dtype -/
def npDot (a b : PV) : PV :=
  match a, b with
  | err e, _ => err e
  | _, err e => err e
  | arr w xs, arr v ys =>
    if xs.length = ys.length then
      uns (wmax w v) (wrap (wmax w v) (List.zipWith (· * ·) xs ys).sum)
    else err "ValueError"
  | _, _ => err "TypeError"

/-- `np.add(x, y, dtype=np.uintN)` of two unsigned 1-D arrays of equal length -/
def npAdd (a b : PV) (w : W) : PV :=
  match a, b with
  | err e, _ => err e
  | _, err e => err e
  | arr _ xs, arr _ ys =>
    if xs.length = ys.length then arr w (List.zipWith (fun x y => wrap w (x + y)) xs ys)
    else err "ValueError"
  | _, _ => err "TypeError"

/-- `x.astype(dt, copy=False)` with a dtype VALUE (`min_safe_uint(n)`); the object dtype is outside the model -/
def astypeD (a d : PV) : PV :=
  match d with
  | dtype (some w) => astype a w
  | err e => err e
  | _ => err "TypeError"

/-- `np.add(x, y, dtype=dt)` with a dtype value -/
def npAddD (a b d : PV) : PV :=
  match d with
  | dtype (some w) => npAdd a b w
  | err e => err e
  | _ => err "TypeError"

/-- `x[:-1]` of a 1-D array (a view: same dtype) -/
def sliceInit : PV → PV
  | arr w xs => arr w xs.dropLast
  | err e => err e
  | _ => err "TypeError"

/-- `x[-1]`: the last element as a NumPy scalar of the array's dtype -/
def indexLast : PV → PV
  | arr w xs => (match xs.getLast? with | some v => uns w v | none => err "IndexError")
  | err e => err e
  | _ => err "TypeError"

/-- `len(x)` of an array or list -/
def len : PV → PV
  | arr _ xs => int xs.length
  | barr xs => int xs.length
  | err e => err e
  | _ => err "TypeError"

/-- `np.zeros((n,), dtype=np.uintN)`; also stands for `np.empty` whose elements are all assigned before they are read -/
def npZeros (n : PV) (w : W) : PV :=
  match n with
  | int i => if 0 ≤ i then arr w (List.replicate i.toNat 0) else err "ValueError"
  | err e => err e
  | _ => err "TypeError"

/-- `path / "name"` on path strings -/
def pathJoin (a b : PV) : PV :=
  match a, b with
  | err e, _ => err e
  | _, err e => err e
  | str x, str y => str (x ++ "/" ++ y)
  | _, _ => err "TypeError"

/-- `s + "literal"` on strings -/
def strCat (a b : PV) : PV :=
  match a, b with
  | err e, _ => err e
  | _, err e => err e
  | str x, str y => str (x ++ y)
  | _, _ => err "TypeError"

/-- `s.strip()` (ASCII white space) -/
def stripL (cs : List Char) : List Char :=
  let ws := fun (c : Char) => c == ' ' || c == '\n' || c == '\t' || c == '\r'
  ((cs.dropWhile ws).reverse.dropWhile ws).reverse

def strStrip : PV → PV
  | str s => str (String.ofList (stripL s.toList))
  | err e => err e
  | _ => err "AttributeError"

/-- value of a decimal literal `[+-]digits[.digits][(e|E)[+-]digits]` (at least one digit in the mantissa); `none` = not of
that form.  Python's `float()` accepts more (`inf`, `nan`, underscores): outside the model. -/
def parseDec (cs : List Char) : Option Rat :=
  let (neg, cs) := match cs with
    | '-' :: r => (true, r)
    | '+' :: r => (false, r)
    | _ => (false, cs)
  let isE := fun (c : Char) => c == 'e' || c == 'E'
  let mant := cs.takeWhile (fun c => !isE c)
  let ex := cs.dropWhile (fun c => !isE c)
  let ip := mant.takeWhile (· != '.')
  let fp := (mant.dropWhile (· != '.')).drop 1
  let val := fun (ds : List Char) => ds.foldl (fun a c => a * 10 + (c.toNat - 48)) 0
  if (ip.isEmpty && fp.isEmpty) || !(ip.all Char.isDigit) || !(fp.all Char.isDigit) then none
  else
    let e10 : Option Int := match ex with
      | [] => some 0
      | _ :: r =>
        let (eneg, r) := match r with
          | '-' :: t => (true, t)
          | '+' :: t => (false, t)
          | _ => (false, r)
        if r.isEmpty || !(r.all Char.isDigit) then none
        else some (if eneg then - (val r : Int) else (val r : Int))
    match e10 with
    | none => none
    | some e =>
      let k : Int := e - (fp.length : Int)
      let m : Rat := (val (ip ++ fp) : Nat)
      let v : Rat := if 0 ≤ k then m * (10 : Rat) ^ k.toNat else m / (10 : Rat) ^ (-k).toNat
      some (if neg then -v else v)

/-- `float(x)`: of a string, the nearest double of a decimal literal (surrounding white space allowed; anything else, and the
empty string, is a `ValueError`; exponents beyond ±300 are outside the model); of a number, its float -/
def floatOf : PV → PV
  | str s =>
    match parseDec (stripL s.toList) with
    | some v => if v = 0 ∨ ((1 : Rat) / 10 ^ 300 < (if v < 0 then -v else v) ∧ (if v < 0 then -v else v) < 10 ^ 300)
                then flt (some (rnd v)) else err "range"
    | none => err "ValueError"
  | int i => flt (some (rnd i))
  | flt x => flt x
  | err e => err e
  | _ => err "TypeError"

/-- `math.ceil(x)`: an int -/
def ceilF : PV → PV
  | flt (some x) => int (-((-x).floor))
  | flt none => err "ValueError"
  | int i => int i
  | err e => err e
  | _ => err "TypeError"

/-- `len(str(n))` of an int -/
def lenStr : PV → PV
  | int i => int (toString i).length
  | err e => err e
  | _ => err "TypeError"

/-- `str(n)` of an int -/
def strOf : PV → PV
  | int i => str (toString i)
  | err e => err e
  | _ => err "TypeError"

/-- `s.zfill(z)` for a string without sign -/
def zfill (a z : PV) : PV :=
  match a, z with
  | err e, _ => err e
  | _, err e => err e
  | str s, int z => str (String.ofList (List.replicate (z.toNat - s.length) '0') ++ s)
  | _, _ => err "TypeError"

/-- `a[i]` for an integer index into a list of ints -/
def getAt (a i : PV) : PV :=
  match a, i with
  | err e, _ => err e
  | _, err e => err e
  | arr _ xs, int i =>
    let j := if i < 0 then i + xs.length else i
    if 0 ≤ j then (match xs[j.toNat]? with | some v => int v | none => err "IndexError") else err "IndexError"
  | _, _ => err "TypeError"

/-- `for i, x in enumerate(xs): body` with the carried variables `(scalars, list)` -/
def forEnum (xs : PV) (init : List PV × List PV) (body : PV → PV → List PV × List PV → List PV × List PV) :
    List PV × List PV :=
  match xs with
  | arr _ l => l.zipIdx.foldl (fun st p => body (int p.2) (int p.1) st) init
  | err e => ([err e], [err e])
  | _ => ([err "TypeError"], [err "TypeError"])

/-- `np.arange(a, b)` -/
def arange (a b : PV) : PV :=
  match a, b with
  | err e, _ => err e
  | _, err e => err e
  | int a, int b => if 0 ≤ a then arr .big (List.range' a.toNat (b - a).toNat) else err "negative-arange"
  | _, _ => err "TypeError"

/-- `list(x)` of a list of ints -/
def toList : PV → PV
  | arr _ xs => arr .big xs
  | err e => err e
  | _ => err "TypeError"

/-- `x.item(-1)`: the last element as a Python int -/
def itemLast : PV → PV
  | arr _ xs => (match xs.getLast? with | some v => int v | none => err "IndexError")
  | err e => err e
  | _ => err "TypeError"

/-- `x[:-1] = y`: array assignment casts to the dtype of `x` (silent wrap-around); shapes must agree -/
def setInit (a b : PV) : PV :=
  match a, b with
  | err e, _ => err e
  | _, err e => err e
  | arr w xs, arr _ ys =>
    if ys.length + 1 = xs.length then arr w (ys.map (wrap w) ++ xs.drop ys.length) else err "ValueError"
  | _, _ => err "TypeError"

/-- `x[-1] = n` with a Python int: NumPy 2 raises `OverflowError` when the value does not fit -/
def setLast (a v : PV) : PV :=
  match a, v with
  | err e, _ => err e
  | _, err e => err e
  | arr w xs, int i =>
    if xs = [] then err "IndexError"
    else if 0 ≤ i ∧ i < (2 ^ w.bits : Nat) then arr w (xs.dropLast ++ [i.toNat]) else err "OverflowError"
  | _, _ => err "TypeError"

/-- `x[:-1] += y`: in-place addition keeps the dtype of `x` (unsigned → unsigned is a same-kind cast): wraps -/
def iaddInit (a b : PV) : PV :=
  match a, b with
  | err e, _ => err e
  | _, err e => err e
  | arr w xs, arr _ ys =>
    if ys.length + 1 = xs.length then
      arr w (List.zipWith (fun x y => wrap w (x + y)) xs.dropLast ys ++ xs.drop ys.length)
    else err "ValueError"
  | _, _ => err "TypeError"

/-- `list.extend` on lists of ints (`arr .big`) -/
def listExtend (a b : PV) : PV :=
  match a, b with
  | err e, _ => err e
  | _, err e => err e
  | arr w xs, arr _ ys => arr w (xs ++ ys)
  | _, _ => err "TypeError"

/-- `list.append(x)` on a list of ints (`arr .big`; also: of object handles) -/
def listAppend (a x : PV) : PV :=
  match a, x with
  | err e, _ => err e
  | _, err e => err e
  | arr w xs, int i => if 0 ≤ i then arr w (xs ++ [i.toNat]) else err "TypeError"
  | _, _ => err "TypeError"

/-- `a[i] = v` for an integer index (negative: from the end; out of range: `IndexError`) -/
def setAt (a i v : PV) : PV :=
  match a, i, v with
  | err e, _, _ => err e
  | _, err e, _ => err e
  | _, _, err e => err e
  | arr w xs, int i, int v =>
    let j := if i < 0 then i + xs.length else i
    if 0 ≤ j ∧ j < xs.length ∧ 0 ≤ v then arr w (xs.set j.toNat v.toNat) else
      if 0 ≤ v then err "IndexError" else err "TypeError"
  | _, _, _ => err "TypeError"

/-- `a[:k]` for `0 ≤ k` (rows of a buffer) -/
def takeN (a k : PV) : PV :=
  match a, k with
  | err e, _ => err e
  | _, err e => err e
  | arr w xs, int k => if 0 ≤ k then arr w (xs.take k.toNat) else err "negative-slice"
  | _, _ => err "TypeError"

/-- `list.index(x)`: first position of `x` (`ValueError` if absent) -/
def listIndex (a x : PV) : PV :=
  match a, x with
  | err e, _ => err e
  | _, err e => err e
  | arr _ xs, int i =>
    if 0 ≤ i then (match xs.idxOf? i.toNat with | some k => int k | none => err "ValueError") else err "ValueError"
  | _, _ => err "TypeError"

/-- build an object from the attribute list its `__init__` produced -/
def mkObj (cls : String) (attrs : List PV) : PV :=
  match attrs with
  | [err e] => err e
  | _ => obj cls (attrs.getD 0 pynone) (attrs.getD 1 pynone) (attrs.getD 2 pynone)

/-- `boolarray.view(np.uint8)` -/
def viewU8 : PV → PV
  | barr bs => arr .u8 (bs.map (fun b => if b then 1 else 0))
  | err e => err e
  | _ => err "TypeError"

/-- `np.packbits(x, axis=-1)` of a 1-D uint8 array -/
def packbits : PV → PV
  | arr .u8 xs => arr .u8 (pack (xs.map (fun k => k != 0)))
  | err e => err e
  | _ => err "TypeError"

/-- `np.min_scalar_type(n)` for a non-negative Python int -/
def minScalarType : PV → PV
  | int i => if i < 0 then err "unsupported-negative" else dtype (minSafe? i.toNat)
  | err e => err e
  | _ => err "TypeError"

/-- `dtype.hasobject` -/
def hasobject : PV → PV
  | dtype w => bool w.isNone
  | err e => err e
  | _ => err "TypeError"

end PV
end BB
