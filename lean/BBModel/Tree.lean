/-
L5 — the CF tree (`_BFSubcluster`, `_BFNode`, `_split_node`, `insert_bf_subcluster`),
parametric in its three decisions (`Policy`): which entry to descend into, whether a leaf
merge is accepted, and which entries of an over-full node move to the new sibling.

The tree is indexed by its height, so "all leaves at the same depth" holds by typing; the
tie to the code (whose nodes are pointer-linked and carry no such guarantee) is the
structure walk of the harness.  Search caches, counter widths, per-node capacities and
the leaf chain are explicit: that they are consistent is a theorem, not a definition.
-/
import BBModel.Merges

namespace BB

/-- `_BFSubcluster`: count, counter width, per-bit sums, member labels, cached centroid -/
structure Clu where
  n : Nat
  w : W
  ls : List Nat
  ids : List Nat
  cent : Row
  deriving Repr, Inhabited

def Clu.summary (c : Clu) : Summary := ⟨c.ls, c.n⟩

/-- `_BFSubcluster(linear_sum=fp, mol_indices=[idx])` -/
def Clu.ofRow (r : Row) (label : Nat) : Clu :=
  { n := 1, w := .u8, ls := rowToNat r, ids := [label], cent := r }

/-- `_BFSubcluster(buffer=buf, mol_indices=ids)`; the buffer keeps the dtype it came with -/
def Clu.ofBuffer (w : W) (ls : List Nat) (n : Nat) (ids : List Nat) : Clu :=
  { n := n, w := w, ls := ls, ids := ids, cent := centroidFromSum ls n }

/-- `_BFSubcluster(n_features=F)`: the empty tracking entry (centroid is a placeholder) -/
def Clu.empty : Clu := { n := 0, w := .u8, ls := [], ids := [], cent := [] }

/-- `update` = `add_to_n_samples_and_linear_sum` + `mol_indices.extend` -/
def Clu.update (c s : Clu) : Clu :=
  let n' := c.n + s.n
  let w' := minSafe n'
  let ls' := (addLs c.ls s.ls).map (wrap w')
  { n := n', w := w', ls := ls', ids := c.ids ++ s.ids, cent := centroidFromSum ls' n' }

/-- the candidate `(new_ls, new_n)` of `merge_subcluster` (`np.add(..., dtype=min_safe_uint(new_n))`) -/
def Clu.mergedSummary (c s : Clu) : Summary :=
  let n' := c.n + s.n
  ⟨(addLs c.ls s.ls).map (wrap (minSafe n')), n'⟩

/-- `replace_n_samples_and_linear_sum(new_n, new_ls)` + `mol_indices.extend` -/
def Clu.merge (c s : Clu) : Clu :=
  let m := c.mergedSummary s
  let w' := minSafe m.n
  { n := m.n, w := w', ls := m.ls.map (wrap w'), ids := c.ids ++ s.ids,
    cent := centroidFromSum m.ls m.n }

/-- the three decisions of the algorithm -/
structure Policy where
  /-- index of the entry to descend into / try to merge with, from the node's search cache -/
  route : List Row → Row → Nat
  /-- `merge_accept_fn` on (old entry, nominee) -/
  accept : Clu → Clu → Bool
  /-- split: `true` = the entry moves to the new sibling, from the node's search cache -/
  mask : List Row → List Bool

/-- a leaf node; `id` identifies it in the leaf chain -/
structure LeafN where
  id : Nat
  cap : Nat
  subs : List Clu
  cache : List Row
  deriving Repr, Inhabited

/-- an inner node over children of type `α` -/
structure InnerN (α : Type) where
  cap : Nat
  ents : List (Clu × α)
  cache : List Row

/-- trees of height `h` (a leaf node has height 0) -/
def Tree : Nat → Type
  | 0 => LeafN
  | h+1 => InnerN (Tree h)

/-- result of an insertion into a node -/
structure InsRes (α : Type) where
  node : α
  /-- the node now holds more entries than its capacity and must be split by the caller -/
  over : Bool
  /-- leaf-chain event `(new leaf id, inserted before this leaf id)` -/
  ev : Option (Nat × Nat)
  /-- next fresh leaf id -/
  next : Nat

/-- distribute `xs` by a mask: (`true` part, `false` part), order kept -/
def splitBy {α : Type} : List Bool → List α → List α × List α
  | m :: ms, x :: xs =>
    let (a, b) := splitBy ms xs
    if m then (x :: a, b) else (a, x :: b)
  | _, xs => ([], xs)

/-- the tracking entry rebuilt over a list of entries (`new_subcluster.update` in `_split_node`) -/
def trackOf (cs : List Clu) : Clu := cs.foldl Clu.update Clu.empty

variable (P : Policy)

/-- `insert_bf_subcluster` on a leaf node -/
def insertLeaf (l : LeafN) (s : Clu) (next : Nat) : InsRes LeafN :=
  if l.subs.isEmpty then
    ⟨{ l with subs := [s], cache := [s.cent] }, false, none, next⟩
  else
    let i := P.route l.cache s.cent
    match l.subs[i]? with
    | none => ⟨l, false, none, next⟩          -- unreachable for a valid policy
    | some c =>
      if P.accept c s then
        let c' := c.merge s
        ⟨{ l with subs := l.subs.set i c', cache := l.cache.set i c'.cent }, false, none, next⟩
      else
        let subs' := l.subs ++ [s]
        ⟨{ l with subs := subs', cache := l.cache ++ [s.cent] }, decide (l.cap < subs'.length), none, next⟩

/-- result of `_split_node`: (tracking entry, new node) and (tracking entry, old node) -/
structure SplitRes (α : Type) where
  c1 : Clu
  t1 : α
  c2 : Clu
  t2 : α
  ev : Option (Nat × Nat)
  next : Nat

/-- `_split_node` -/
def splitNode : (h : Nat) → Tree h → Nat → SplitRes (Tree h)
  | 0, (l : LeafN), next =>
    let m := P.mask l.cache
    let (a, b) := splitBy m l.subs
    let n1 : LeafN := { id := next, cap := l.cap, subs := a, cache := a.map (·.cent) }
    let n2 : LeafN := { id := l.id, cap := l.cap, subs := b, cache := b.map (·.cent) }
    ⟨trackOf a, n1, trackOf b, n2, some (next, l.id), next + 1⟩
  | _+1, (t : InnerN _), next =>
    let m := P.mask t.cache
    let (a, b) := splitBy m t.ents
    let n1 : InnerN _ := { cap := t.cap, ents := a, cache := a.map (·.1.cent) }
    let n2 : InnerN _ := { cap := t.cap, ents := b, cache := b.map (·.1.cent) }
    ⟨trackOf (a.map (·.1)), n1, trackOf (b.map (·.1)), n2, none, next⟩

/-- `insert_bf_subcluster` -/
def ins : (h : Nat) → Tree h → Clu → Nat → InsRes (Tree h)
  | 0, (l : LeafN), s, next => insertLeaf P l s next
  | h+1, (t : InnerN (Tree h)), s, next =>
    let i := P.route t.cache s.cent
    match t.ents[i]? with
    | none => ⟨t, false, none, next⟩            -- unreachable for a valid policy on a non-empty node
    | some (c, child) =>
      let r := ins h child s next
      if r.over then
        let sp := splitNode P h r.node r.next
        let ents' := t.ents.set i (sp.c1, sp.t1) ++ [(sp.c2, sp.t2)]
        let cache' := t.cache.set i sp.c1.cent ++ [sp.c2.cent]
        let ev := sp.ev.or r.ev
        ⟨({ cap := t.cap, ents := ents', cache := cache' } : InnerN (Tree h)),
          decide (t.cap < ents'.length), ev, sp.next⟩
      else
        let c' := c.update s
        ⟨({ cap := t.cap, ents := t.ents.set i (c', r.node), cache := t.cache.set i c'.cent } : InnerN (Tree h)),
          false, r.ev, r.next⟩

/-- all leaf nodes, left to right -/
def leavesOf : (h : Nat) → Tree h → List LeafN
  | 0, (l : LeafN) => [l]
  | h+1, (t : InnerN (Tree h)) => t.ents.flatMap (fun e => leavesOf h e.2)

end BB
