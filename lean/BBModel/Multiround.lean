/-
L8 — names, a name-indexed file system, and the multi-round workflow
(`bblean/multiround.py`): round 1 builds one tree per input file (labels = the file's global
index range), midsection rounds re-insert the previous round's buffer files in batches,
the final round builds one tree and writes the clusters.  Rounds communicate only through
files found again by `sorted(glob(...))`.

File contents are model values, not bytes (`.npy` / pickle encoding is trusted to
round-trip and is covered by correspondence only).
-/
import BBModel.Estimator

namespace BB.MR
open BB

/-! ### names -/

/-- `str(i).zfill(z)` -/
def zfill (z : Nat) (i : Nat) : String :=
  let s := toString i
  String.ofList (List.replicate (z - s.length) '0') ++ s

/-- `dtype.replace('8', '08')` on a uint dtype name -/
def wTag : W → String
  | .u8 => "uint08" | .u16 => "uint16" | .u32 => "uint32" | .u64 => "uint64" | w => w.name

/-- bit count parsed back by `_sort_batch` (`int(name.split("uint")[-1].split(".")[0])`) -/
def wBits : W → Nat
  | .u8 => 8 | .u16 => 16 | .u32 => 32 | .u64 => 64 | _ => 0

def suffixOf (label : String) (w : W) : String := s!".label-{label}-{wTag w}"
def bufName (r : Nat) (label : String) (w : W) : String := s!"round-{r}-bufs{suffixOf label w}.npy"
def idxName (r : Nat) (label : String) (w : W) : String := s!"round-{r}-idxs{suffixOf label w}.pkl"
def bufPrefix (r : Nat) : String := s!"round-{r}-bufs"
def idxPrefix (r : Nat) : String := s!"round-{r}-idxs"

/-! ### file system -/

inductive Content
  /-- a streamed `.npy` of buffers: dtype and rows `(linear_sum, n_samples)` -/
  | bufs (w : W) (rows : List (List Nat × Nat))
  /-- a pickled list of member lists -/
  | idxs (ids : List (List Nat))
  | clusters (cs : List (List Nat))
  | centroids (cs : List Row)
  /-- anything else that happens to be in the directory -/
  | other (tag : Nat)
  deriving Repr, Inhabited

/-- a directory: association list kept sorted by name, names unique -/
abbrev FS := List (String × Content)

def FS.write : FS → String → Content → FS
  | [], n, c => [(n, c)]
  | (m, d) :: fs, n, c =>
    if n < m then (n, c) :: (m, d) :: fs
    else if n = m then (n, c) :: fs
    else (m, d) :: FS.write fs n c

def FS.read (fs : FS) (n : String) : Option Content := (fs.find? (fun p => p.1 == n)).map (·.2)

def FS.remove (fs : FS) (p : String → Bool) : FS := fs.filter (fun x => !p x.1)

/-- `sorted(path.glob(prefix + "*" + ext))` -/
def FS.glob (fs : FS) (pre ext : String) : List String :=
  (fs.map (·.1)).filter (fun n => n.startsWith pre && n.endsWith ext)

def isRoundFile (n : String) : Bool := n.startsWith "round-" && (n.endsWith ".npy" || n.endsWith ".pkl")
def isFinalFile (n : String) : Bool := n == "clusters.pkl" || n == "cluster-centroids-packed.pkl" || n == "bitbirch.pkl"

/-! ### configuration -/

inductive RefineMode | none | split | full
  deriving DecidableEq, Repr

structure Cfg where
  bf : Nat
  thr : Rat
  thrChange : Rat
  tol : Rat
  initCrit : String
  midCrit : String
  finalCrit : String
  mode : RefineMode
  splitAfterMid : Bool
  binSize : Nat
  nMidRounds : Nat
  saveCentroids : Bool
  cleanup : Bool

/-- a task's output: files to write -/
abbrev Writes := List (String × Content)

def saveGroups (r : Nat) (label : String) (groups : List (W × List Clu)) : Writes :=
  groups.flatMap (fun g =>
    [(bufName r label g.1, Content.bufs g.1 (g.2.map (fun c => (c.ls, c.n)))),
     (idxName r label g.1, Content.idxs (g.2.map (·.ids)))])

def mkEst (bf : Nat) (thr : Rat) (crit : String) (tol : Option Rat) : Except Err Est :=
  construct thr bf (some (.name crit)) tol

/-- `_bf_to_np()` -/
def allGroups (e : Est) : List (W × List Clu) := groupByW e.st.sortedClus

variable (pol : BB.Cfg → Policy)

/-- `_InitialRound.__call__` on one file: `(label, rows, start)` -/
def initialTask (c : Cfg) (label : String) (rows : List Row) (start : Nat) : Except Err Writes := do
  let e0 ← mkEst c.bf c.thr c.initCrit none
  let (e1, err) := fit (pol e0.cfg) e0 rows (some (List.range' start rows.length))
  if let some x := err then throw x
  let (e1, err) := delInternal e1
  if let some x := err then throw x
  match c.mode with
  | .none => pure (saveGroups 1 label (allGroups e1))
  | .split =>
    let groups ← refineGroups e1.st.sortedClus 1 rows start
    pure (saveGroups 1 label groups)
  | .full =>
    let groups ← refineGroups e1.st.sortedClus 1 rows start
    let (e2, err) := setMerge e1.reset (some (.name c.midCrit)) (some c.tol) (some (fadd c.thr c.thrChange)) none
    if let some x := err then throw x
    let (e3, err) := refitGroups pol e2 groups
    if let some x := err then throw x
    let (e4, err) := delInternal e3
    if let some x := err then throw x
    pure (saveGroups 1 label (allGroups e4))

/-- the units of a (buffer file, index file) pair; `zip` stops at the shorter, and
`_BFSubcluster(buffer=…, mol_indices=…)` checks `len(mol_indices) == buffer[-1]` -/
def unitsOf (b i : Content) : Except Err (List Clu) :=
  match b, i with
  | .bufs w rows, .idxs ids =>
    (rows.zip ids).mapM (fun p =>
      if p.2.length = p.1.2 then .ok (Clu.ofBuffer w p.1.1 p.1.2 p.2) else .error .value)
  | _, _ => .error .value

/-- read and re-insert the given pairs, in order -/
def fitPairs (fs : FS) : Est → List (String × String) → Except Err Est
  | e, [] => .ok e
  | e, (bn, ix) :: rest => do
    let b ← (fs.read bn).elim (.error .value) .ok
    let i ← (fs.read ix).elim (.error .value) .ok
    let us ← unitsOf b i
    let (e', err) := fitBuffers (pol e.cfg) e us
    if let some x := err then throw x
    fitPairs fs e' rest

/-- `_bf_to_np_refine(all_fp_paths)`: as `refineGroups`, the exploded ids sorted ascending
(the file-sequence branch reads the rows in sorted index order) -/
def refineGroupsSorted (bfs : List Clu) (allRows : List Row) : Except Err (List (W × List Clu)) :=
  let groups0 := groupByW (bfs.drop 1)
  match (bfs.take 1).mapM (fun c => explode allRows 0 (c.ids.mergeSort (· ≤ ·))) with
  | none => .error .index
  | some us => .ok (if us.flatten.isEmpty then groups0 else addToU8 groups0 us.flatten)

/-- `_TreeMergingRound.__call__` on one batch -/
def mergingTask (c : Cfg) (allRows : List Row) (r : Nat) (fs : FS) (label : String)
    (pairs : List (String × String)) : Except Err Writes := do
  let e0 ← mkEst c.bf (fadd c.thr c.thrChange) c.midCrit (some c.tol)
  let e1 ← fitPairs pol fs e0 pairs
  let (e2, err) := delInternal e1
  if let some x := err then throw x
  if c.splitAfterMid then
    let groups ← refineGroupsSorted e2.st.sortedClus allRows
    pure (saveGroups r label groups)
  else pure (saveGroups r label (allGroups e2))

/-- `_FinalTreeMergingRound.__call__` -/
def finalTask (c : Cfg) (fs : FS) (pairs : List (String × String)) : Except Err Writes := do
  let e0 ← mkEst c.bf (fadd c.thr c.thrChange) c.finalCrit (some c.tol)
  let e1 ← fitPairs pol fs e0 pairs
  let (e2, err) := delInternal e1
  if let some x := err then throw x
  let cl := e2.st.sortedClus
  -- centroids first, the cluster file last: its presence marks a completed run
  pure ((if c.saveCentroids then [("cluster-centroids-packed.pkl", Content.centroids (cl.map (·.cent)))] else [])
    ++ [("clusters.pkl", Content.clusters (cl.map (·.ids)))])

/-- `_get_prev_round_buf_and_mol_idxs_files`: both listings sorted, zipped -/
def prevPairs (fs : FS) (r : Nat) : List (String × String) :=
  ((fs.glob (bufPrefix (r - 1)) ".npy").mergeSort (· ≤ ·)).zip ((fs.glob (idxPrefix (r - 1)) ".pkl").mergeSort (· ≤ ·))

def chunk {α : Type} (k : Nat) : List α → List (List α)
  | [] => []
  | x :: xs => if k = 0 then [x :: xs] else (x :: xs).take k :: chunk k ((x :: xs).drop k)
termination_by l => l.length
decreasing_by simp [List.length_drop]; omega

/-- bits of the dtype tag in a buffer-file name -/
def bitsOfName (n : String) : Nat :=
  match ((n.splitOn "uint").getLast?.getD "").splitOn "." with
  | b :: _ => b.toNat?.getD 0
  | [] => 0

/-- `_sort_batch`: stable, wider dtypes first -/
def sortBatch (b : List (String × String)) : List (String × String) :=
  b.mergeSort (fun x y => decide (bitsOfName y.1 ≤ bitsOfName x.1))

/-- `_chunk_file_pairs_in_batches` -/
def batches (pairs : List (String × String)) (binSize : Nat) : List (String × List (String × String)) :=
  let bs := chunk binSize pairs
  let z := (toString ((pairs.length + binSize - 1) / binSize)).length
  bs.zipIdx.map (fun (b, i) => (zfill z i, sortBatch b))

def writeAll (fs : FS) (ws : Writes) : FS := ws.foldl (fun fs w => fs.write w.1 w.2) fs

/-- run the tasks of a round one after the other in the given order; every task reads the
directory as it was at the start of the round (tasks of a round never read each other's output) -/
def execRound (fs : FS) (tasks : List (Except Err Writes)) : Except Err FS :=
  tasks.foldlM (fun acc t => t.map (writeAll acc)) fs

/-- `_get_files_range_tuples` -/
def fileTuples (files : List (List Row)) : List (String × List Row × Nat) :=
  let z := (toString files.length).length
  let starts := files.foldl (fun (acc : List Nat × Nat) f => (acc.1 ++ [acc.2], acc.2 + f.length)) ([], 0)
  (files.zip starts.1).zipIdx.map (fun ((f, s), i) => (zfill z i, f, s))

def midRounds (c : Cfg) (allRows : List Row) (sched : Nat → List Nat → List Nat) : Nat → Nat → FS → Except Err FS
  | 0, _, fs => .ok fs
  | k+1, r, fs => do
    let bs := batches (prevPairs fs r) c.binSize
    let tasks := bs.map (fun b => mergingTask pol c allRows r fs b.1 b.2)
    let order := sched r (List.range tasks.length)
    let fs' ← execRound fs (order.map (fun i => tasks.getD i (.error .value)))
    midRounds c allRows sched k (r + 1) fs'

/-- `run_multiround_bitbirch`; `sched r idxs` is the order in which the tasks of round `r` complete -/
def multiround (c : Cfg) (files : List (List Row)) (sched : Nat → List Nat → List Nat) (fs0 : FS) : Except Err FS := do
  -- leftovers of earlier (possibly interrupted) runs are removed first
  let fs := fs0.remove (fun n => isRoundFile n || isFinalFile n)
  let allRows := files.flatten
  let tasks1 := (fileTuples files).map (fun t => initialTask pol c t.1 t.2.1 t.2.2)
  let order := sched 1 (List.range tasks1.length)
  let fs1 ← execRound fs (order.map (fun i => tasks1.getD i (.error .value)))
  let fs2 ← midRounds pol c allRows sched c.nMidRounds 2 fs1
  let r := c.nMidRounds + 2
  let ws ← finalTask pol c fs2 (prevPairs fs2 r)
  let fs3 := writeAll fs2 ws
  pure (if c.cleanup then fs3.remove isRoundFile else fs3)

end BB.MR
