/-
L8 — names, a name-indexed file system, and the multi-round workflow
(`bblean/multiround.py`): round 1 builds one tree per input file (labels = the file's global
index range), midsection rounds re-insert the previous round's buffer files in batches,
the final round builds one tree and writes the clusters.  Rounds communicate only through
files found again by `sorted(glob(...))`.

File contents are model values, not bytes (`.npy` / pickle encoding is trusted to
round-trip and is covered by correspondence only).
-/
import BBModel.Estimator

namespace BB.MR
open BB

/-! ### names -/

/-- `str(i).zfill(z)` -/
def zfill (z : Nat) (i : Nat) : String :=
  let s := toString i
  String.ofList (List.replicate (z - s.length) '0') ++ s

/-- `dtype.replace('8', '08')` on a uint dtype name -/
def wTag : W → String
  | .u8 => "uint08" | .u16 => "uint16" | .u32 => "uint32" | .u64 => "uint64" | w => w.name

/-- bit count parsed back by `_sort_batch` (`int(name.split("uint")[-1].split(".")[0])`) -/
def wBits : W → Nat
  | .u8 => 8 | .u16 => 16 | .u32 => 32 | .u64 => 64 | _ => 0

def suffixOf (label : String) (w : W) : String := s!".label-{label}-{wTag w}"
def bufName (r : Nat) (label : String) (w : W) : String := s!"round-{r}-bufs{suffixOf label w}.npy"
def idxName (r : Nat) (label : String) (w : W) : String := s!"round-{r}-idxs{suffixOf label w}.pkl"
def bufPrefix (r : Nat) : String := s!"round-{r}-bufs"
def idxPrefix (r : Nat) : String := s!"round-{r}-idxs"

/-! ### file system -/

inductive Content
  /-- a streamed `.npy` of buffers: dtype and rows `(linear_sum, n_samples)` -/
  | bufs (w : W) (rows : List (List Nat × Nat))
  /-- a pickled list of member lists -/
  | idxs (ids : List (List Nat))
  | clusters (cs : List (List Nat))
  | centroids (cs : List Row)
  /-- anything else that happens to be in the directory -/
  | other (tag : Nat)
  deriving Repr, Inhabited

/-- a directory: association list kept sorted by name, names unique -/
abbrev FS := List (String × Content)

def FS.write : FS → String → Content → FS
  | [], n, c => [(n, c)]
  | (m, d) :: fs, n, c =>
    if n < m then (n, c) :: (m, d) :: fs
    else if n = m then (n, c) :: fs
    else (m, d) :: FS.write fs n c

def FS.read (fs : FS) (n : String) : Option Content := (fs.find? (fun p => p.1 == n)).map (·.2)

def FS.remove (fs : FS) (p : String → Bool) : FS := fs.filter (fun x => !p x.1)

/-- `sorted(path.glob(prefix + "*" + ext))` -/
def FS.glob (fs : FS) (pre ext : String) : List String :=
  (fs.map (·.1)).filter (fun n => n.startsWith pre && n.endsWith ext)

def isRoundFile (n : String) : Bool := n.startsWith "round-" && (n.endsWith ".npy" || n.endsWith ".pkl")
def isFinalFile (n : String) : Bool := n == "clusters.pkl" || n == "cluster-centroids-packed.pkl" || n == "bitbirch.pkl"

/-! ### configuration -/

inductive RefineMode | none | split | full
  deriving DecidableEq, Repr

structure Cfg where
  bf : Nat
  thr : Rat
  thrChange : Rat
  tol : Rat
  initCrit : String
  midCrit : String
  finalCrit : String
  mode : RefineMode
  splitAfterMid : Bool
  binSize : Nat
  nMidRounds : Nat
  saveCentroids : Bool
  cleanup : Bool

/-- a task's output: files to write -/
abbrev Writes := List (String × Content)

def saveGroups (r : Nat) (label : String) (groups : List (W × List Clu)) : Writes :=
  groups.flatMap (fun g =>
    [(bufName r label g.1, Content.bufs g.1 (g.2.map (fun c => (c.ls, c.n)))),
     (idxName r label g.1, Content.idxs (g.2.map (·.ids)))])

def mkEst (bf : Nat) (thr : Rat) (crit : String) (tol : Option Rat) : Except Err Est :=
  construct thr bf (some (.name crit)) tol

/-- `_bf_to_np()` -/
def allGroups (e : Est) : List (W × List Clu) := groupByW e.st.sortedClus

variable (pol : BB.Cfg → Policy)

/-- `_InitialRound.__call__` on one file, up to `_save_bufs_and_mol_idxs`: the groups to save
(every step that raises ends the task) -/
def initialGroups (c : Cfg) (rows : List Row) (start : Nat) : Except Err (List (W × List Clu)) :=
  match mkEst c.bf c.thr c.initCrit none with
  | .error x => .error x
  | .ok e0 =>
    match fit (pol e0.cfg) e0 rows (some (List.range' start rows.length)) with
    | (_, some x) => .error x
    | (e1, none) =>
      match delInternal e1 with
      | (_, some x) => .error x
      | (e1, none) =>
        match c.mode with
        | .none => .ok (allGroups e1)
        | .split => refineGroups e1.st.sortedClus 1 rows start
        | .full =>
          match refineGroups e1.st.sortedClus 1 rows start with
          | .error x => .error x
          | .ok groups =>
            match setMerge e1.reset (some (.name c.midCrit)) (some c.tol) (some (fadd c.thr c.thrChange)) none with
            | (_, some x) => .error x
            | (e2, none) =>
              match refitGroups pol e2 groups with
              | (_, some x) => .error x
              | (e3, none) =>
                match delInternal e3 with
                | (_, some x) => .error x
                | (e4, none) => .ok (allGroups e4)

/-- `_InitialRound.__call__` on one file: `(label, rows, start)` -/
def initialTask (c : Cfg) (label : String) (rows : List Row) (start : Nat) : Except Err Writes :=
  (initialGroups pol c rows start).map (saveGroups 1 label)

/-- the units of a (buffer file, index file) pair; `zip` stops at the shorter, and
`_BFSubcluster(buffer=…, mol_indices=…)` checks `len(mol_indices) == buffer[-1]` -/
def unitsOf (b i : Content) : Except Err (List Clu) :=
  match b, i with
  | .bufs w rows, .idxs ids =>
    (rows.zip ids).mapM (fun p =>
      if p.2.length = p.1.2 then .ok (Clu.ofBuffer w p.1.1 p.1.2 p.2) else .error .value)
  | _, _ => .error .value

/-- the units read back from one (buffer file, index file) pair of names -/
def pairUnits (fs : FS) (p : String × String) : Except Err (List Clu) :=
  match fs.read p.1, fs.read p.2 with
  | some b, some i => unitsOf b i
  | _, _ => .error .value

/-- read and re-insert the given pairs, in order -/
def fitPairs (fs : FS) : Est → List (String × String) → Except Err Est
  | e, [] => .ok e
  | e, p :: rest =>
    match pairUnits fs p with
    | .error x => .error x
    | .ok us =>
      match fitBuffers (pol e.cfg) e us with
      | (_, some x) => .error x
      | (e', none) => fitPairs fs e' rest

/-- `_bf_to_np_refine(all_fp_paths)`: as `refineGroups`, the exploded ids sorted ascending
(the file-sequence branch reads the rows in sorted index order) -/
def refineGroupsSorted (bfs : List Clu) (allRows : List Row) : Except Err (List (W × List Clu)) :=
  let groups0 := groupByW (bfs.drop 1)
  match (bfs.take 1).mapM (fun c => explode allRows 0 (c.ids.mergeSort (· ≤ ·))) with
  | none => .error .index
  | some us => .ok (if us.flatten.isEmpty then groups0 else addToU8 groups0 us.flatten)

/-- rebuild a tree from the given pairs and release its internal nodes
(the common part of `_TreeMergingRound.__call__` and `_FinalTreeMergingRound.__call__`) -/
def mergedEst (bf : Nat) (thr : Rat) (crit : String) (tol : Rat) (fs : FS) (pairs : List (String × String)) :
    Except Err Est :=
  match mkEst bf thr crit (some tol) with
  | .error x => .error x
  | .ok e0 =>
    match fitPairs pol fs e0 pairs with
    | .error x => .error x
    | .ok e1 =>
      match delInternal e1 with
      | (_, some x) => .error x
      | (e2, none) => .ok e2

/-- `_TreeMergingRound.__call__` on one batch, up to `_save_bufs_and_mol_idxs`: the groups to save -/
def mergingGroups (c : Cfg) (allRows : List Row) (fs : FS) (pairs : List (String × String)) :
    Except Err (List (W × List Clu)) :=
  match mergedEst pol c.bf (fadd c.thr c.thrChange) c.midCrit c.tol fs pairs with
  | .error x => .error x
  | .ok e2 =>
    if c.splitAfterMid then refineGroupsSorted e2.st.sortedClus allRows
    else .ok (allGroups e2)

/-- `_TreeMergingRound.__call__` on one batch -/
def mergingTask (c : Cfg) (allRows : List Row) (r : Nat) (fs : FS) (label : String)
    (pairs : List (String × String)) : Except Err Writes :=
  (mergingGroups pol c allRows fs pairs).map (saveGroups r label)

/-- `_FinalTreeMergingRound.__call__` up to the reports: the final sub-clusters, largest first -/
def finalClus (c : Cfg) (fs : FS) (pairs : List (String × String)) : Except Err (List Clu) :=
  match mergedEst pol c.bf (fadd c.thr c.thrChange) c.finalCrit c.tol fs pairs with
  | .error x => .error x
  | .ok e2 => .ok e2.st.sortedClus

/-- the final files: centroids first, the cluster file last (its presence marks a completed run) -/
def finalWrites (c : Cfg) (cl : List Clu) : Writes :=
  (if c.saveCentroids then [("cluster-centroids-packed.pkl", Content.centroids (cl.map (·.cent)))] else [])
    ++ [("clusters.pkl", Content.clusters (cl.map (·.ids)))]

/-- `_FinalTreeMergingRound.__call__` -/
def finalTask (c : Cfg) (fs : FS) (pairs : List (String × String)) : Except Err Writes :=
  (finalClus pol c fs pairs).map (finalWrites c)

/-- `_get_prev_round_buf_and_mol_idxs_files`: both listings sorted, zipped -/
def prevPairs (fs : FS) (r : Nat) : List (String × String) :=
  ((fs.glob (bufPrefix (r - 1)) ".npy").mergeSort (· ≤ ·)).zip ((fs.glob (idxPrefix (r - 1)) ".pkl").mergeSort (· ≤ ·))

def chunk {α : Type} (k : Nat) : List α → List (List α)
  | [] => []
  | x :: xs => if k = 0 then [x :: xs] else (x :: xs).take k :: chunk k ((x :: xs).drop k)
termination_by l => l.length
decreasing_by simp [List.length_drop]; omega

/-- bits of the dtype tag in a buffer-file name -/
def bitsOfName (n : String) : Nat :=
  match ((n.splitOn "uint").getLast?.getD "").splitOn "." with
  | b :: _ => b.toNat?.getD 0
  | [] => 0

/-- `_sort_batch`: stable, wider dtypes first -/
def sortBatch (b : List (String × String)) : List (String × String) :=
  b.mergeSort (fun x y => decide (bitsOfName y.1 ≤ bitsOfName x.1))

/-- `_chunk_file_pairs_in_batches` -/
def batches (pairs : List (String × String)) (binSize : Nat) : List (String × List (String × String)) :=
  let bs := chunk binSize pairs
  let z := (toString ((pairs.length + binSize - 1) / binSize)).length
  bs.zipIdx.map (fun (b, i) => (zfill z i, sortBatch b))

def writeAll (fs : FS) (ws : Writes) : FS := ws.foldl (fun fs w => fs.write w.1 w.2) fs

/-- run the tasks of a round one after the other in the given order; every task reads the
directory as it was at the start of the round (tasks of a round never read each other's output) -/
def execRound (fs : FS) (tasks : List (Except Err Writes)) : Except Err FS :=
  tasks.foldlM (fun acc t => t.map (writeAll acc)) fs

/-- `_get_files_range_tuples` -/
def fileTuples (files : List (List Row)) : List (String × List Row × Nat) :=
  let z := (toString files.length).length
  let starts := files.foldl (fun (acc : List Nat × Nat) f => (acc.1 ++ [acc.2], acc.2 + f.length)) ([], 0)
  (files.zip starts.1).zipIdx.map (fun ((f, s), i) => (zfill z i, f, s))

/-- the order in which the `n` tasks of round `r` are executed: `sched r` of the task indices;
a pool executes every task exactly once, so anything that is not a permutation of the indices
is ignored (the tasks then run in submission order) -/
def orderOf (sched : Nat → List Nat → List Nat) (r n : Nat) : List Nat :=
  let o := sched r (List.range n)
  if o.isPerm (List.range n) then o else List.range n

/-- execute the tasks of a round in the given order -/
def runTasks (fs : FS) (tasks : List (Except Err Writes)) (order : List Nat) : Except Err FS :=
  execRound fs (order.map (fun i => tasks.getD i (.error .value)))

/-- the tasks of midsection round `r` on the directory `fs` -/
def midTasks (c : Cfg) (allRows : List Row) (r : Nat) (fs : FS) : List (Except Err Writes) :=
  (batches (prevPairs fs r) c.binSize).map (fun b => mergingTask pol c allRows r fs b.1 b.2)

def midRounds (c : Cfg) (allRows : List Row) (sched : Nat → List Nat → List Nat) : Nat → Nat → FS → Except Err FS
  | 0, _, fs => .ok fs
  | k+1, r, fs => do
    let tasks := midTasks pol c allRows r fs
    let fs' ← runTasks fs tasks (orderOf sched r tasks.length)
    midRounds c allRows sched k (r + 1) fs'

/-- the tasks of the initial round -/
def initTasks (c : Cfg) (files : List (List Row)) : List (Except Err Writes) :=
  (fileTuples files).map (fun t => initialTask pol c t.1 t.2.1 t.2.2)

/-- `_remove_leftovers` -/
def purge (fs : FS) : FS := fs.remove (fun n => isRoundFile n || isFinalFile n)

/-- `run_multiround_bitbirch`; `sched r idxs` is the order in which the tasks of round `r` complete -/
def multiround (c : Cfg) (files : List (List Row)) (sched : Nat → List Nat → List Nat) (fs0 : FS) : Except Err FS := do
  -- leftovers of earlier (possibly interrupted) runs are removed first
  let fs := purge fs0
  let tasks1 := initTasks pol c files
  let fs1 ← runTasks fs tasks1 (orderOf sched 1 tasks1.length)
  let fs2 ← midRounds pol c files.flatten sched c.nMidRounds 2 fs1
  let r := c.nMidRounds + 2
  let ws ← finalTask pol c fs2 (prevPairs fs2 r)
  let fs3 := writeAll fs2 ws
  pure (if c.cleanup then fs3.remove isRoundFile else fs3)

/-! ### the same run, with every intermediate directory state

The trace lists the directory after the initial purge and after every single file write, in
execution order (and after the final cleanup, taken as one step); a run that is interrupted
leaves one of these states behind.  A failing run stops at the first task that raises. -/

/-- directory states after each single file write -/
def writeTrace (fs : FS) : Writes → List FS
  | [] => []
  | w :: ws => fs.write w.1 w.2 :: writeTrace (fs.write w.1 w.2) ws

/-- `execRound` with the states after every single write, up to the first failing task -/
def execRoundT (fs : FS) : List (Except Err Writes) → List FS × Except Err FS
  | [] => ([], .ok fs)
  | .error e :: _ => ([], .error e)
  | .ok ws :: ts =>
    let r := execRoundT (writeAll fs ws) ts
    (writeTrace fs ws ++ r.1, r.2)

def runTasksT (fs : FS) (tasks : List (Except Err Writes)) (order : List Nat) : List FS × Except Err FS :=
  execRoundT fs (order.map (fun i => tasks.getD i (.error .value)))

def midRoundsT (c : Cfg) (allRows : List Row) (sched : Nat → List Nat → List Nat) :
    Nat → Nat → FS → List FS × Except Err FS
  | 0, _, fs => ([], .ok fs)
  | k+1, r, fs =>
    let tasks := midTasks pol c allRows r fs
    match runTasksT fs tasks (orderOf sched r tasks.length) with
    | (tr, .error e) => (tr, .error e)
    | (tr, .ok fs') =>
      let r' := midRoundsT c allRows sched k (r + 1) fs'
      (tr ++ r'.1, r'.2)

/-- `multiround` with its trace of directory states -/
def multiroundTrace (c : Cfg) (files : List (List Row)) (sched : Nat → List Nat → List Nat) (fs0 : FS) :
    List FS × Except Err FS :=
  let fs := purge fs0
  let tasks1 := initTasks pol c files
  match runTasksT fs tasks1 (orderOf sched 1 tasks1.length) with
  | (t1, .error e) => (fs :: t1, .error e)
  | (t1, .ok fs1) =>
    match midRoundsT pol c files.flatten sched c.nMidRounds 2 fs1 with
    | (t2, .error e) => (fs :: t1 ++ t2, .error e)
    | (t2, .ok fs2) =>
      match finalTask pol c fs2 (prevPairs fs2 (c.nMidRounds + 2)) with
      | .error e => (fs :: t1 ++ t2, .error e)
      | .ok ws =>
        let fs3 := writeAll fs2 ws
        let t3 := writeTrace fs2 ws
        if c.cleanup then (fs :: t1 ++ t2 ++ t3 ++ [fs3.remove isRoundFile], .ok (fs3.remove isRoundFile))
        else (fs :: t1 ++ t2 ++ t3, .ok fs3)

end BB.MR
