/-
L9 — fingerprint-FILE utilities (`bblean/utils.py: batched`, `bblean/smiles.py`,
`bblean/fingerprints.py: fps_from_smiles, _FingerprintFileCreator, _FingerprintArrayFiller,
_get_fingerprints_from_file_seq`, `bblean/cli.py: fps-from-smiles, fps-split, fps-merge,
fps-shuffle`).

The fingerprint generator (RDKit) is an uninterpreted parameter `fp : String → Option Row`;
`none` stands for an invalid SMILES (`MolFromSmiles` returned `None` or `SanitizeMol` raised).
Everything is modelled with `skip_invalid = True` (with `skip_invalid = False` the first
invalid SMILES aborts the whole command).

A file is its name and its rows; a directory is a list of files.  `.npy` encoding, packing,
dtypes, shared memory and process pools are not modelled (the pool is modelled by the list
of tasks it receives; the theorems quantify over the order in which they are executed).
-/
import BBModel.Multiround

namespace BB.Files
open BB BB.MR

/-! ### batching (`utils.batched`, `smiles._iter_*_batches`) -/

/-- fuel-driven body of `batched`: `while batch := tuple(islice(it, n)): yield batch` -/
def batchedAux {α : Type} (n : Nat) : Nat → List α → List (List α)
  | 0, _ => []
  | fuel + 1, xs => if xs.isEmpty then [] else xs.take n :: batchedAux n fuel (xs.drop n)

/-- `utils.batched(iterable, n)` (= `itertools.batched`).  Python raises `ValueError` for
`n < 1` (when the generator is first advanced); the model returns no batch at all. -/
def batched {α : Type} (n : Nat) (xs : List α) : List (List α) :=
  if n = 0 then [] else batchedAux n xs.length xs

/-- the `start_idx` loop of `_iter_ranges_and_smiles_batches` -/
def rangesFrom {α : Type} (start : Nat) : List (List α) → List ((Nat × Nat) × List α)
  | [] => []
  | b :: bs => ((start, start + b.length), b) :: rangesFrom (start + b.length) bs

/-- `_iter_ranges_and_smiles_batches(paths, n)`: `((start, end), batch)` -/
def rangeBatches {α : Type} (n : Nat) (xs : List α) : List ((Nat × Nat) × List α) :=
  rangesFrom 0 (batched n xs)

/-- `_iter_idxs_and_smiles_batches(paths, n)` = `enumerate(batched(...))` -/
def idxBatches {α : Type} (n : Nat) (xs : List α) : List (Nat × List α) :=
  (batched n xs).zipIdx.map (fun p => (p.2, p.1))

/-! ### fingerprints of a list of SMILES -/

/-- the row written to position `i` of the `np.empty` / shared-memory array; `[]` stands for a
position that is never written (arbitrary content) -/
def slot (fp : String → Option Row) (s : String) : Row := (fp s).getD []

/-- positions of the invalid SMILES (`invalid_idxs.append(i)` in the `enumerate` loop) -/
def invalidIdxs (fp : String → Option Row) (smiles : List String) : List Nat :=
  (smiles.zipIdx.filter (fun p => (fp p.1).isNone)).map (·.2)

/-- `np.delete(rows, idxs, axis=0)` for in-range indices -/
def deleteIdxs {α : Type} (rows : List α) (idxs : List Nat) : List α :=
  (rows.zipIdx.filter (fun p => !idxs.contains p.2)).map (·.1)

/-- `np.delete(rows, mask, axis=0)` for a boolean mask -/
def deleteMask {α : Type} (rows : List α) (mask : List Bool) : List α :=
  ((rows.zip mask).filter (fun p => !p.2)).map (·.1)

/-- `mask.nonzero()[0]` -/
def nonzero (mask : List Bool) : List Nat := (mask.zipIdx.filter (·.1)).map (·.2)

/-- `fps_from_smiles(smiles, skip_invalid=True)`: the array is allocated for all SMILES, the
valid positions are filled, the invalid positions are deleted; returns `(fps, invalid_idxs)` -/
def fpsFromSmiles (fp : String → Option Row) (smiles : List String) : List Row × List Nat :=
  let invalid := invalidIdxs fp smiles
  (deleteIdxs (smiles.map (slot fp)) invalid, invalid)

/-! ### `bb fps-from-smiles` -/

/-- `math.ceil(a / b)` (true division; exact below 2^53).  Python raises `ZeroDivisionError`
for `b = 0`, the model yields `0`. -/
def ceilDiv (a b : Nat) : Nat := (a + b - 1) / b

/-- `parse_num_per_batch(smiles_num, parts, max_fps_per_file)`: `(parts, num_per_batch, digits)`,
`none` = `ValueError` (both options given) -/
def numPerBatch (total : Nat) (parts maxPer : Option Nat) : Option (Nat × Nat × Option Nat) :=
  match parts, maxPer with
  | some p, none => some (p, ceilDiv total p, some (toString p).length)
  | none, some m =>
    let p := ceilDiv total m
    some (p, m, some (toString p).length)
  | none, none => some (1, ceilDiv total 1, none)
  | some _, some _ => none

/-- `f"{out_name}.{str(file_idx).zfill(digits)}"`, or `out_name` when `digits is None` -/
def partName (outName : String) (digits : Option Nat) (i : Nat) : String :=
  match digits with
  | some d => outName ++ "." ++ zfill d i
  | none => outName

/-- `_FingerprintFileCreator.__call__((file_idx, batch))`: one file per batch, the invalid
positions of the batch deleted before saving -/
def createFile (fp : String → Option Row) (digits : Option Nat) (outName : String)
    (input : Nat × List String) : String × List Row :=
  (partName outName digits input.1, (fpsFromSmiles fp input.2).1)

/-- the multi-file branch: `pool.map(create_fp_file, _iter_idxs_and_smiles_batches(paths, per))`;
the files in task order -/
def partFiles (fp : String → Option Row) (smiles : List String) (per : Nat) (digits : Option Nat)
    (outName : String) : List (String × List Row) :=
  (idxBatches per smiles).map (createFile fp digits outName)

/-- the two shared-memory arrays -/
structure Shm where
  fps : List Row
  mask : List Bool
  deriving Repr

/-- `_FingerprintArrayFiller.__call__((idx0, idx1), batch)`:
`for i, smi in zip(range(idx0, idx1), batch)` -/
def fillRange (fp : String → Option Row) (st : Shm) (task : (Nat × Nat) × List String) : Shm :=
  ((List.range' task.1.1 (task.1.2 - task.1.1)).zip task.2).foldl (fun st w =>
    match fp w.2 with
    | none => { st with mask := st.mask.set w.1 true }
    | some row => { st with fps := st.fps.set w.1 row }) st

/-- the single-file branch for an arbitrary list of worker tasks executed in list order:
both arrays are allocated for `n` SMILES, every task fills its range, then
`np.delete(fps, mask)` and `mask.nonzero()` -/
def runTasks (fp : String → Option Row) (n : Nat) (tasks : List ((Nat × Nat) × List String)) :
    List Row × List Nat :=
  let st := tasks.foldl (fillRange fp) { fps := List.replicate n [], mask := List.replicate n false }
  (deleteMask st.fps st.mask, nonzero st.mask)

/-- the single-file (shared-memory) branch:
`pool.starmap(filler, _iter_ranges_and_smiles_batches(paths, per))` -/
def singleFile (fp : String → Option Row) (smiles : List String) (per : Nat) : List Row × List Nat :=
  runTasks fp smiles.length (rangeBatches per smiles)

/-! ### `bb fps-split`, `bb fps-merge`, `bb fps-shuffle` -/

/-- `bb fps-split`: batch `i` is saved as `f"{stem}.{str(i).zfill(digits)}.npy"` -/
def splitFile {α : Type} (rows : List α) (per : Nat) (digits : Nat) (stem : String) :
    List (String × List α) :=
  (batched per rows).zipIdx.map (fun p => (stem ++ "." ++ zfill digits p.2 ++ ".npy", p.1))

/-- `bb fps-merge`: `np.concatenate([np.load(f) for f in sorted(in_dir.glob("*.npy"))])`.
(The check that all names share the part before the first `.` is not modelled.) -/
def mergeFiles {α : Type} (files : List (String × List α)) : List α :=
  (files.mergeSort (fun a b => decide (a.1 ≤ b.1))).flatMap (·.2)

/-- `bb fps-shuffle`: `rng.shuffle(fps, axis=0)` with the permutation drawn by the generator
given as a list of source indices (anything else leaves the rows unchanged) -/
def shuffleRows {α : Type} [Inhabited α] (perm : List Nat) (rows : List α) : List α :=
  applyPerm rows perm

/-! ### `_get_fingerprints_from_file_seq` -/

/-- the bookkeeping of the first loop -/
structure SeqSt where
  /-- `local_file_idxs` -/
  localIdxs : List (List Nat)
  /-- `consumed_idxs` -/
  consumed : Nat
  /-- `running_count` -/
  running : Nat
  deriving Repr

/-- one iteration of `for f in files:` (the file is represented by its rows, `num = len`) -/
def seqStep (idxs : List Nat) (st : SeqSt) (f : List Row) : SeqSt :=
  let num := f.length
  -- `list(filter(lambda x: x < running_count + num, idxs[consumed_idxs:]))`
  let fileIdxs := (idxs.drop st.consumed).filter (fun x => decide (x < st.running + num))
  { -- `np.array(file_idxs, dtype=np.uint64) - running_count`
    localIdxs := st.localIdxs ++ [fileIdxs.map (· - st.running)],
    consumed := st.consumed + fileIdxs.length,
    running := st.running + num }

/-- `np.load(file)[local_idxs]` (`IndexError` for an index beyond the file) -/
def takeRows (f : List Row) (l : List Nat) : Except Err (List Row) :=
  if l.all (fun j => decide (j < f.length)) then .ok (l.map (fun j => f.getD j []))
  else .error .index

/-- the second loop, `for file, local_idxs in zip(files, local_file_idxs)`: the selected rows
of the files, concatenated -/
def gather : List (List Row) → List (List Nat) → Except Err (List Row)
  | f :: fs, l :: ls =>
    match takeRows f l, gather fs ls with
    | .ok a, .ok b => .ok (a ++ b)
    | .error e, _ => .error e
    | _, .error e => .error e
  | _, _ => .ok []

/-- `_get_fingerprints_from_file_seq(files, idxs)`.  The `n_features` consistency check is not
modelled (all rows are assumed to have the same width).  For `files = []` and `idxs = []`
Python fails with a `TypeError` (`n_features` is still `None`), the model returns no rows. -/
def fileSeqIndex (files : List (List Row)) (idxs : List Nat) : Except Err (List Row) :=
  -- `if sorted(idxs) != list(idxs): raise ValueError("idxs must be sorted")`
  if idxs.mergeSort (fun a b => decide (a ≤ b)) != idxs then .error .value
  else
    let st := files.foldl (seqStep idxs) { localIdxs := [], consumed := 0, running := 0 }
    -- `if len(idxs) != sum(arr.size for arr in local_file_idxs): raise ValueError(...)`
    if idxs.length != (st.localIdxs.map List.length).sum then .error .value
    else gather files st.localIdxs

end BB.Files
