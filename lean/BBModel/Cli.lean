/-
L9 — the command line (`bblean/cli.py`): `bb run` and `bb multiround` as drivers of the
API.  A command is (1) validation of the output directory, (2) a fixed history of API
calls determined by the options, (3) a fixed set of files written.

The options that only select an input representation (`--packed-input`, `--n-features`,
`--max-fps`), diagnostics (`--monitor-mem`, `-v`) and the debugging variants
(`--bb-variant`) are not part of the model: the model is the default ("lean") variant on
rows that have already been read.  The input files are given in the order `bb run` /
`bb multiround` process them, i.e. sorted by name.
-/
import BBModel.Multiround

namespace BB.Cli
open BB

/-! ### output directory -/

/-- `_validate_output_dir(out_dir, overwrite)` on the listing of the (existing) directory:
the listing after validation.  A non-empty directory is refused (`RuntimeError`, reported as
`Err.value`) unless `overwrite`, in which case it is emptied and the run continues. -/
def validateOutputDir (entries : List String) (overwrite : Bool) : Except Err (List String) :=
  if entries.isEmpty then .ok []
  else if overwrite then .ok []
  else .error .value

/-! ### `bb run` -/

/-- the options of `bb run` that determine the API history and the output files -/
structure RunOpts where
  /-- `--branching` -/
  bf : Nat
  /-- `--threshold` -/
  thr : Rat
  /-- `--refine-threshold-change` -/
  chg : Rat
  /-- `--tolerance` -/
  tol : Rat
  /-- `--set-merge` -/
  crit : String
  /-- `--set-refine-merge` -/
  refineCrit : String
  /-- `--refine-num` -/
  refineNum : Nat
  /-- `--refine-rounds` (hidden; `none` = not given) -/
  refineRounds : Option Nat
  /-- `--recluster-rounds` (hidden) -/
  reclusterRounds : Nat
  saveCentroids : Bool
  saveTree : Bool
  overwrite : Bool
  deriving Repr

/-- the normalised `(refine_rounds, refine_num)`:
`if refine_rounds is None: refine_rounds = 1 if refine_num > 0 else 0`,
`if refine_rounds > 0 and refine_num == 0: refine_num = 1` -/
def normRounds (o : RunOpts) : Nat × Nat :=
  let rr := match o.refineRounds with
    | none => if o.refineNum > 0 then 1 else 0
    | some r => r
  (rr, if rr > 0 && o.refineNum == 0 then 1 else o.refineNum)

/-- one `tree.fit(file)` per input file -/
def fitOps (files : List (List Row)) : List Op := files.map (fun f => Op.fit f none)

/-- `tree.set_merge(refine_merge_criterion, tolerance=tolerance, threshold=threshold + refine_threshold_change)` -/
def setMergeOp (o : RunOpts) : Op :=
  .setMerge (some (.name o.refineCrit)) (some o.tol) (some (fadd o.thr o.chg)) none

/-- `refine_rounds` × `tree.refine_inplace(input_files, n_largest=refine_num)`: the input is the
list of paths, so the data is the concatenation of all files, `initial_mol = 0`, and the exploded
rows are read in ascending index order -/
def refineOps (o : RunOpts) (files : List (List Row)) : List Op :=
  List.replicate (normRounds o).1 (.refine ((normRounds o).2 : Int) files.flatten 0 true)

/-- `recluster_rounds` × `tree.recluster_inplace(shuffle=recluster_shuffle)`: one iteration each, no
extra threshold, no early stop; the `j`-th call uses the `j`-th supplied shuffle (`none` = the
identity, also the case of `--no-recluster-shuffle`) -/
def reclusterOps (o : RunOpts) (perms : List (Option (List Nat))) : List Op :=
  (List.range o.reclusterRounds).map (fun j => .recluster 1 0 [perms.getD j none] false)

/-- the refinement section, executed only `if recluster_rounds != 0 or refine_rounds != 0` -/
def refineSection (o : RunOpts) (files : List (List Row)) (perms : List (Option (List Nat))) : List Op :=
  if (normRounds o).1 ≠ 0 ∨ o.reclusterRounds ≠ 0 then
    [setMergeOp o] ++ refineOps o files ++ reclusterOps o perms
  else []

/-- the API history of `bb run` after the constructor call -/
def runPlan (o : RunOpts) (files : List (List Row)) (perms : List (Option (List Nat))) : List Op :=
  fitOps files ++ refineSection o files perms ++ [.delInternal]

/-- a history that stops at the first call that raises -/
def runStrict (pol : Cfg → Policy) : Est → List Op → Except Err Est
  | e, [] => .ok e
  | e, op :: ops =>
    match stepWith pol e op with
    | (_, some x) => .error x
    | (e', none) => runStrict pol e' ops

/-- `bb run`: the estimator at the time the output files are written -/
def cliRun (pol : Cfg → Policy) (o : RunOpts) (files : List (List Row)) (perms : List (Option (List Nat))) :
    Except Err Est :=
  match construct o.thr o.bf (some (.name o.crit)) (some o.tol) with
  | .error x => .error x
  | .ok e => runStrict pol e (runPlan o files perms)

/-- names written into the output directory -/
def outputNames (o : RunOpts) : List String :=
  ["clusters.pkl"] ++ (if o.saveCentroids then ["cluster-centroids-packed.pkl"] else [])
    ++ (if o.saveTree then ["bitbirch.pkl"] else []) ++ ["config.json", "timings.json", "input-fps"]

/-- what `bb run` writes: the file names, the cluster list (`clusters.pkl`) and the centroid list
(`cluster-centroids-packed.pkl`, empty when centroids are not saved); both lists are projections
of `get_centroids_mol_ids()` / `get_cluster_mol_ids()` with the default `sort=True` -/
def runOutputs (e : Est) (o : RunOpts) : List String × List (List Nat) × List Row :=
  (outputNames o, e.clusters, if o.saveCentroids then e.st.sortedClus.map (·.cent) else [])

/-- the whole command on a directory listing: validation, the run, the listing afterwards -/
def cliRunDir (pol : Cfg → Policy) (o : RunOpts) (entries : List String) (files : List (List Row))
    (perms : List (Option (List Nat))) : Except Err (Est × List String) :=
  match validateOutputDir entries o.overwrite with
  | .error x => .error x
  | .ok dir =>
    match cliRun pol o files perms with
    | .error x => .error x
    | .ok e => .ok (e, dir ++ (runOutputs e o).1)

/-! ### `bb multiround` -/

/-- the options of `bb multiround` that reach `run_multiround_bitbirch` (the process counts only
through the sanity check; the schedule of the pools is a separate argument) -/
structure MultiOpts where
  /-- `--branching` -/
  bf : Nat
  /-- `--threshold` -/
  thr : Rat
  /-- `--mid-threshold-change` -/
  midChg : Rat
  /-- `--tolerance` -/
  tol : Rat
  /-- `--set-merge` -/
  initCrit : String
  /-- `--set-mid-merge` -/
  midCrit : String
  /-- `--initial-refine`: "full", "split" or "none" -/
  initialRefine : String
  /-- `--split-after-mid` -/
  splitAfterMid : Bool
  /-- `--bin-size` -/
  binSize : Nat
  /-- `--num-mid-rounds` -/
  nMidRounds : Nat
  /-- `--ps` -/
  ps : Nat
  /-- `--mid-ps` -/
  midPs : Option Nat
  saveCentroids : Bool
  saveTree : Bool
  cleanup : Bool
  overwrite : Bool
  deriving Repr

def parseMode : String → Option MR.RefineMode
  | "full" => some .full
  | "split" => some .split
  | "none" => some .none
  | _ => none

/-- the options mapped one-to-one; the CLI passes no final criterion, so it is the midsection one -/
def toMRCfg (o : MultiOpts) : MR.Cfg where
  bf := o.bf
  thr := o.thr
  thrChange := o.midChg
  tol := o.tol
  initCrit := o.initCrit
  midCrit := o.midCrit
  finalCrit := o.midCrit
  mode := (parseMode o.initialRefine).getD .full
  splitAfterMid := o.splitAfterMid
  binSize := o.binSize
  nMidRounds := o.nMidRounds
  saveCentroids := o.saveCentroids
  cleanup := o.cleanup

/-- the argument checks of `run_multiround_bitbirch` / `_InitialRound` (`ValueError`) -/
def multiArgsOk (o : MultiOpts) : Bool :=
  (match o.midPs with | none => true | some m => decide (m ≤ o.ps)) && (parseMode o.initialRefine).isSome

/-- the directory handed to the workflow: the entries that survive validation -/
def dirAfter (fs0 : MR.FS) (names : List String) : MR.FS := fs0.filter (fun p => names.contains p.1)

/-- `bb multiround`: validation of the output directory, then `run_multiround_bitbirch` -/
def cliMultiround (pol : Cfg → Policy) (o : MultiOpts) (files : List (List Row))
    (sched : Nat → List Nat → List Nat) (fs0 : MR.FS) : Except Err MR.FS :=
  match validateOutputDir (fs0.map (·.1)) o.overwrite with
  | .error x => .error x
  | .ok names =>
    if multiArgsOk o then MR.multiround pol (toMRCfg o) files sched (dirAfter fs0 names)
    else .error .value

/-! ### rendering of a plan (driver / correspondence harness) -/

def showRatC (r : Rat) : String := s!"{r.num}/{r.den}"

/-- one operation of a `bb run` plan; `FIT k` is the `k`-th input file, `RECLUSTER j` the call that
uses the `j`-th shuffle (fit and recluster indices are assigned by position) -/
def showPlanAux : List Op → Nat → Nat → List String
  | [], _, _ => []
  | .fit _ _ :: ops, k, j => s!"FIT {k}" :: showPlanAux ops (k + 1) j
  | .recluster _ _ _ _ :: ops, k, j => s!"RECLUSTER {j}" :: showPlanAux ops k (j + 1)
  | .setMerge c t th b :: ops, k, j =>
    let cs := match c with | some (.name s) => s | some (.obj m) => "obj:" ++ m.crit.name | none => "-"
    let ts := match t with | some t => showRatC t | none => "-"
    let ths := match th with | some t => showRatC t | none => "-"
    let bs := match b with | some b => toString b | none => "-"
    s!"SETMERGE crit={cs} tol={ts} thr={ths} bf={bs}" :: showPlanAux ops k j
  | .refine n _ _ srt :: ops, k, j => s!"REFINE n={n} srt={if srt then 1 else 0}" :: showPlanAux ops k j
  | .delInternal :: ops, k, j => "DELINT" :: showPlanAux ops k j
  | .setThr t :: ops, k, j => s!"SETTHR thr={showRatC t}" :: showPlanAux ops k j
  | .setBf b :: ops, k, j => s!"SETBF bf={b}" :: showPlanAux ops k j
  | .reset :: ops, k, j => "RESET" :: showPlanAux ops k j

def showPlan (ops : List Op) : String := " ; ".intercalate (showPlanAux ops 0 0)

end BB.Cli
