/-
L7 — the scikit-learn wrapper (`bblean/sklearn.py`): `fit` stores the unpacked centroids of
the size-sorted leaf clusters (`subcluster_centers_`) and `labels_ = get_assignments()`;
`predict` returns the label (1-based rank) of the nearest centroid in boolean Jaccard
distance, first on ties (`pairwise_distances_argmin`); `transform` returns the whole
distance matrix (`pairwise_distances`).
-/
import BBModel.Estimator

namespace BB

def xorRow (a b : Row) : Row := List.zipWith (fun x y => x != y) a b

/-- boolean Jaccard distance as scipy computes it: `|x XOR y| / |x OR y|` in one float64
division, 0 when both rows are empty -/
def jaccardDist (a b : Row) : Rat :=
  let u := popc (orRow a b)
  if u = 0 then 0 else fdiv (popc (xorRow a b) : Rat) (u : Rat)

/-- `transform(X)` = `pairwise_distances(X, centers, metric="jaccard")` -/
def skTransform (centers : List Row) (X : List Row) : List (List Rat) :=
  X.map (fun x => centers.map (jaccardDist x))

/-- `predict(X)` = `subcluster_labels_[pairwise_distances_argmin(X, centers, metric="jaccard")]`
with `subcluster_labels_ = 1..k` -/
def skPredict (centers : List Row) (X : List Row) : List Nat :=
  X.map (fun x => 1 + argminFirst (centers.map (jaccardDist x)))

/-- `subcluster_centers_` of a fitted estimator -/
def skCenters (e : Est) : List Row := e.st.sortedClus.map (·.cent)

/-- `labels_` of a fitted estimator -/
def skLabels (e : Est) : Except Err (List Nat) := assignments (e.clusters true) e.numFitted

end BB
