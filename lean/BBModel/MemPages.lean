/-
`_ArrayMemPagesManager` (bblean/_memory.py) together with the row loop of `BitBirch.fit`
(bblean/bitbirch.py): while the rows of a memory-mapped `.npy` file are consumed one by
one, the memory behind the read cursor is handed back to the kernel with
`madvise(addr, P, MADV_DONTNEED)` in steps of `P = 512 * PAGESIZE` bytes.

The manager is a counter machine.  Its state is the start address of the "current page";
the loop feeds it the running row count `arr_idx = 1, 2, …, nrows`:

    arr_idx += 1
    if mmanager.can_release and mmanager.should_release_curr_page(arr_idx):   # arr_idx % iters == 0
        mmanager.release_curr_page_and_update_addr()                          # madvise(addr, P); addr += P

Everything is a natural number (Python ints; no wrap-around).  The `isinstance(X, np.memmap)`
and `X.ndim == 2` tests are outside the model.  NOTE that the code tests `P % ncols` and
`offset < ncols` with `ncols = X.shape[1]` the number of ELEMENTS per row, not the number of
bytes per row (`ncols * itemsize`); the model keeps that.
-/
namespace BB.Pages

structure Params where
  /-- address of the start of the file mapping (`X.ctypes.data - X.offset`) -/
  base : Nat
  /-- byte offset of the array data inside the mapped file (the `.npy` header size) -/
  offset : Nat
  /-- elements per row (`X.shape[1]`) -/
  ncols : Nat
  /-- bytes per element -/
  itemsize : Nat
  /-- release granularity in bytes (`mmap.PAGESIZE * 512`) -/
  P : Nat
  /-- number of rows consumed by the loop -/
  nrows : Nat
  deriving Repr, DecidableEq, Inhabited

/-- bytes per row -/
def Params.rowBytes (p : Params) : Nat := p.ncols * p.itemsize

/-- size of the mapped file: header, then the rows -/
def Params.fileSize (p : Params) : Nat := p.offset + p.nrows * p.rowBytes

/-- `pagesizex % X.shape[1] == 0 and X.offset < X.shape[1]`.  `ncols != 0` stands for the
`ZeroDivisionError` that `P % 0` raises in Python (a zero-width array is never released). -/
def Params.canRelease (p : Params) : Bool :=
  p.ncols != 0 && p.P % p.ncols == 0 && p.offset < p.ncols

/-- `iters_per_pagex = int(pagesizex / X.shape[1])` (exact, the division has no remainder) -/
def Params.iters (p : Params) : Nat := p.P / p.ncols

/-- one `madvise(addr, len, MADV_DONTNEED)` call; `afterRow` = number of rows consumed when
the call is made -/
structure Release where
  addr : Nat
  len : Nat
  afterRow : Nat
  deriving Repr, DecidableEq, Inhabited

/-- The row loop with the manager inlined: `fuel` rows are still to come, `k` rows have been
consumed (`arr_idx`), `addr` is `_curr_page_start_addr`.  Returns the `madvise` calls made,
in order. -/
def loop (p : Params) : (fuel : Nat) → (k : Nat) → (addr : Nat) → List Release
  | 0, _, _ => []
  | fuel + 1, k, addr =>
    let k' := k + 1                                   -- arr_idx += 1
    if k' % p.iters == 0 then                         -- should_release_curr_page(arr_idx)
      ⟨addr, p.P, k'⟩ :: loop p fuel k' (addr + p.P)  -- release_curr_page_and_update_addr()
    else
      loop p fuel k' addr

/-- all `madvise` calls of one `fit` over rows `1..nrows`; none when `can_release` is false -/
def releases (p : Params) : List Release :=
  if p.canRelease then loop p p.nrows 0 p.base else []

end BB.Pages
