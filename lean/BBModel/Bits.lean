/-
L0 — bits, bytes, words.

`Row` is an unpacked fingerprint (one `Bool` per feature).  Bytes are `Nat`s below 256.
`pack` is `np.packbits(axis=-1)` (MSB first, zero padded to a whole byte) and
`unpack bytes F` is `np.unpackbits(count=F)`.

No Mathlib import in this directory: the driver is compiled to a native executable.
-/
namespace BB

abbrev Row := List Bool

/-- number of set bits of an unpacked row -/
def popc (r : Row) : Nat := r.count true

def andRow (a b : Row) : Row := List.zipWith (· && ·) a b
def orRow  (a b : Row) : Row := List.zipWith (· || ·) a b

/-- value of at most 8 bits, MSB first, padded with zeros on the right to 8 bits -/
def byteOfBits (bs : List Bool) : Nat :=
  (List.range 8).foldl (fun acc i => 2 * acc + (if bs.getD i false then 1 else 0)) 0

/-- `np.packbits` on one row -/
def pack : Row → List Nat
  | [] => []
  | b :: bs => byteOfBits ((b :: bs).take 8) :: pack ((b :: bs).drop 8)
termination_by r => r.length
decreasing_by simp [List.length_drop]; omega

/-- the 8 bits of a byte, MSB first -/
def bitsOfByte (b : Nat) : List Bool :=
  (List.range 8).map (fun i => (b / 2 ^ (7 - i)) % 2 = 1)

/-- `np.unpackbits(count=F)` on one row; pads with zeros when `F` exceeds the available bits -/
def unpack (bytes : List Nat) (F : Nat) : Row :=
  let bits := bytes.flatMap bitsOfByte
  (bits ++ List.replicate (F - bits.length) false).take F

/-- popcount of one byte -/
def popByte (b : Nat) : Nat := (bitsOfByte b).count true

/-- popcount of a packed row, byte by byte -/
def popBytes (bs : List Nat) : Nat := (bs.map popByte).sum

/-- little-endian 64-bit word of (up to) 8 bytes — the `view(np.uint64)` of the fallback -/
def wordOfBytes (bs : List Nat) : Nat :=
  bs.foldr (fun b acc => b + 256 * acc) 0

/-- popcount of a natural number (used for the word view) -/
def popNat : Nat → Nat
  | 0 => 0
  | n+1 => (n+1) % 2 + popNat ((n+1) / 2)
decreasing_by omega

/-- split a list in chunks of `k` -/
def chunks (k : Nat) : List Nat → List (List Nat)
  | [] => []
  | x :: xs => if k = 0 then [x :: xs] else (x :: xs).take k :: chunks k ((x :: xs).drop k)
termination_by l => l.length
decreasing_by simp [List.length_drop]; omega

/-- popcount through the uint64 view (only taken by the code when the byte count is a
multiple of 8) -/
def popWords (bs : List Nat) : Nat := ((chunks 8 bs).map (fun c => popNat (wordOfBytes c))).sum

def andBytes (a b : List Nat) : List Nat := List.zipWith (fun x y => Nat.land x y) a b

/-- pointwise sum of lists of naturals; the empty list is a unit (the "empty sub-cluster") -/
def addLs : List Nat → List Nat → List Nat
  | [], b => b
  | a, [] => a
  | x :: a, y :: b => (x + y) :: addLs a b

def rowToNat (r : Row) : List Nat := r.map (fun b => if b then 1 else 0)

/-- column sums of a list of rows -/
def colSum (rows : List Row) : List Nat := rows.foldl (fun acc r => addLs acc (rowToNat r)) []

/-- first index of a maximum (`np.argmax`); 0 on the empty list -/
def argmaxFirst [LT α] [DecidableLT α] : List α → Nat
  | [] => 0
  | x :: xs =>
    let rec go (best : α) (bi : Nat) (i : Nat) : List α → Nat
      | [] => bi
      | y :: ys => if best < y then go y i (i+1) ys else go best bi (i+1) ys
    go x 0 1 xs

/-- first index of a minimum (`np.argmin`); 0 on the empty list -/
def argminFirst [LT α] [DecidableLT α] : List α → Nat
  | [] => 0
  | x :: xs =>
    let rec go (best : α) (bi : Nat) (i : Nat) : List α → Nat
      | [] => bi
      | y :: ys => if y < best then go y i (i+1) ys else go best bi (i+1) ys
    go x 0 1 xs

end BB
