/-
L6 — cluster analysis and clustering-quality indices, transcribed from
`bblean/analysis.py` (`cluster_analysis`, `ClusterAnalysis`) and `bblean/metrics.py`
(`jt_isim_chi`, `jt_dbi`, `jt_isim_dunn`, all with the default `"centroid"` centrals).

Abstraction (deliberate): every Tanimoto similarity is the *rounded* float64 value
`jtBits`, every iSIM is the rounded value `isimFromSum`; the operations that *combine*
these values (`np.dot`, `np.sum`, `+=`, `1 - x`, `*`, `**2`, `/`) are exact in ℚ, because
NumPy does not specify its summation order.  `none : Option Rat` stands for NaN.

Division by zero: Python produces `inf`/`nan` (NumPy scalars, with a RuntimeWarning); here
it is Lean's `x / 0 = 0`.  The places where this can happen are listed at each definition.
-/
import BBModel.Similarity

namespace BB.Metrics

/-! ### `cluster_analysis` -/

/-- what `ClusterAnalysis` exposes of a run with fingerprints and without smiles -/
structure Analysis where
  /-- `ClusterAnalysis.sizes`: sizes of the selected clusters -/
  sizes : List Nat
  /-- `ClusterAnalysis.isims`: `jt_isim` of the selected clusters (`none` = NaN) -/
  isims : List (Option Rat)
  /-- `ClusterAnalysis.total_fps` -/
  total : Nat
  /-- `ClusterAnalysis.all_clusters_num` (count of *all* clusters; the number of selected
  clusters, `clusters_num`, is `sizes.length`) -/
  numClusters : Nat
  /-- `ClusterAnalysis.all_singletons_num` -/
  singletons : Nat
  deriving DecidableEq, Repr

/-- the selection loop
```
for i, c in enumerate(clusters):
    if all_cluster_sizes[i] < min_size: break
    if top is not None and i >= top: break
    _clusters.append(c)
```
started at index `i` -/
def selectGo (top : Option Nat) (minSize : Nat) : Nat → List (List Nat) → List (List Nat)
  | _, [] => []
  | i, c :: cs =>
    if c.length < minSize then []
    else if (match top with | some t => decide (t ≤ i) | none => false) then []
    else c :: selectGo top minSize (i + 1) cs

/-- the clusters `cluster_analysis` reports on (`assume_sorted=True`: the list is used in the
order given; with `assume_sorted=False` Python first sorts it stably by decreasing size) -/
def selectClusters (clusters : List (List Nat)) (top : Option Nat) (minSize : Nat) :
    List (List Nat) :=
  selectGo top minSize 0 clusters

/-- insertion of an id in a sorted list -/
def insertId (x : Nat) : List Nat → List Nat
  | [] => [x]
  | y :: ys => if x ≤ y then x :: y :: ys else y :: insertId x ys

/-- `sorted(c)` (insertion sort: structurally recursive, so that the kernel can evaluate it) -/
def sortIds (c : List Nat) : List Nat := c.foldr insertId []

/-- `fps_provider[sorted(c)]` for a provider `get` (array, memory-mapped file or file
sequence: all of them are "row `i` of the concatenation") -/
def fetch (get : Nat → Row) (c : List Nat) : List Row := (sortIds c).map get

/-- `sum(1 for c in sizes if p(c))` -/
def countIf (p : Nat → Bool) (sizes : List Nat) : Nat :=
  sizes.foldl (fun acc s => if p s then acc + 1 else acc) 0

/-- `cluster_analysis(clusters, fps, top=top, min_size=minSize)` over a row provider -/
def clusterAnalysisP (clusters : List (List Nat)) (get : Nat → Row) (top : Option Nat)
    (minSize : Nat) : Analysis :=
  let allSizes := clusters.map List.length
  let sel := selectClusters clusters top minSize
  { sizes := sel.map List.length
    isims := sel.map (fun c => isimRows (fetch get c))
    total := allSizes.foldl (· + ·) 0
    numClusters := allSizes.length
    singletons := countIf (· == 1) allSizes }

/-- the provider of an in-memory array of (unpacked) fingerprints.  An index outside the
array is an `IndexError` in Python; here it yields the empty row. -/
def rowsProvider (fps : List Row) : Nat → Row := fun i => fps.getD i []

/-- `cluster_analysis` on an array of fingerprints -/
def clusterAnalysis (clusters : List (List Nat)) (fps : List Row) (top : Option Nat)
    (minSize : Nat) : Analysis :=
  clusterAnalysisP clusters (rowsProvider fps) top minSize

/-- `cluster_analysis(..., input_is_packed=True, n_features=F)` on packed fingerprints -/
def clusterAnalysisPacked (clusters : List (List Nat)) (pfps : List (List Nat)) (F : Nat)
    (top : Option Nat) (minSize : Nat) : Analysis :=
  clusterAnalysis clusters (pfps.map (fun b => unpack b F)) top minSize

/-- `ClusterAnalysis.all_clusters_num_with_size_above(k)` -/
def numAbove (clusters : List (List Nat)) (k : Nat) : Nat :=
  countIf (fun s => decide (k < s)) (clusters.map List.length)

/-! ### pieces shared by the indices -/

/-- `centroid(c)`: majority-vote centroid of a cluster -/
def centroidOf (c : List Row) : Row := centroidFromSum (colSum c) c.length

/-- `1 - jt_sim_packed(clust, central)`: the distances of the rows to a central -/
def dists (c : List Row) (central : Row) : List Rat := (jtArrVec c central).map (fun s => 1 - s)

/-- number of fingerprints `sum(len(c) for c in cluster_fps)` -/
def numFps (clusters : List (List Row)) : Nat := (clusters.map List.length).foldl (· + ·) 0

/-- `sum(np.sum(c, axis=0) for c in unpacked_clusts)` -/
def totalSum (clusters : List (List Row)) : List Nat :=
  clusters.foldl (fun acc c => addLs acc (colSum c)) []

/-! ### Calinski–Harabasz (`jt_isim_chi`) -/

/-- `len(clust) * (1 - jt_sim_packed(all_fps_central, central).item()) ** 2` -/
def bcTerm (allCentral : Row) (c : List Row) : Rat :=
  let d := 1 - jtBits allCentral (centroidOf c)
  (c.length : Rat) * (d * d)

/-- `d = 1 - jt_sim_packed(clust, central); np.dot(d, d)` -/
def wcTerm (c : List Row) : Rat := ((dists c (centroidOf c)).map (fun d => d * d)).sum

/-- `jt_isim_chi(cluster_fps)`.  `0` for at most one cluster (Python crashes on the empty list
before reaching that test); `wcss * (k - 1) = 0` (all rows equal to their centroid) is a
division by zero: `inf`/`nan` in Python, `0` here. -/
def chi (clusters : List (List Row)) : Rat :=
  let N := numFps clusters
  let k := clusters.length
  let allCentral := centroidFromSum (totalSum clusters) N
  if k ≤ 1 then 0
  else
    let bcss := clusters.foldl (fun acc c => acc + bcTerm allCentral c) 0
    let wcss := clusters.foldl (fun acc c => acc + wcTerm c) 0
    bcss * ((N : Rat) - (k : Rat)) / (wcss * ((k : Rat) - 1))

/-! ### Davies–Bouldin (`jt_dbi`) -/

/-- Python's two-argument `max(a, b)`: `b` if `b > a`, else `a` -/
def pyMax (a b : Rat) : Rat := if b > a then b else a

/-- `np.sum(1 - jt_sim_packed(clust_fps, central)) / size` (an empty cluster gives `nan` in
Python, `0` here) -/
def spread (c : List Row) : Rat := (dists c (centroidOf c)).sum / (c.length : Rat)

/-- the inner loop for cluster `x = (S_i, central_i)` over the other clusters, in order:
`max_d = 0.0; for j ≠ i: max_d = max(max_d, (S[i] + S[j]) / (1 - jt(central_i, central_j)))`.
Equal centrals give a division by zero: `inf` in Python (`nan`, ignored by `max`, when both
spreads are zero), `0` here (ignored by `max` in all cases). -/
def dbiInner (x : Rat × Row) (others : List (Rat × Row)) : Rat :=
  others.foldl (fun m y => pyMax m ((x.1 + y.1) / (1 - jtBits x.2 y.2))) 0

/-- `jt_dbi(cluster_fps)`; "all `j ≠ i`, in order" is the list with index `i` erased -/
def dbi (clusters : List (List Row)) : Rat :=
  let N := numFps clusters
  let P := clusters.map (fun c => (spread c, centroidOf c))
  if N = 0 then 0
  else
    let numerator := (P.mapIdx (fun i x => dbiInner x (P.eraseIdx i))).foldl (· + ·) 0
    numerator / (N : Rat)

/-! ### Dunn (`jt_isim_dunn`) -/

/-- `a > b` on floats: false as soon as one side is NaN -/
def gtF : Option Rat → Option Rat → Bool
  | some x, some y => decide (x > y)
  | _, _ => false

/-- Python's `max(a, b)` on floats -/
def pyMaxF (a b : Option Rat) : Option Rat := if gtF b a then b else a

/-- Python's `min(a, b)` on floats: `b` if `b < a`, else `a` -/
def pyMinF (a b : Option Rat) : Option Rat := if gtF a b then b else a

/-- Python's `max(D)` of a list: a left fold with `>` from the first element; `None` for the
empty list (`ValueError`) -/
def pyMaxList : List (Option Rat) → Option (Option Rat)
  | [] => none
  | x :: xs => some (xs.foldl pyMaxF x)

/-- all pairs `(l[i], l[j])`, `i < j`, in the order of the double loop
`for i, c1 in enumerate(l[:-1]): for c2 in l[i+1:]` -/
def pairs : List α → List (α × α)
  | [] => []
  | x :: xs => xs.map (fun y => (x, y)) ++ pairs xs

/-- `1 - jt_isim_from_sum(np.sum(c1, axis=0) + np.sum(c2, axis=0), len(c1) + len(c2))` -/
def dunnDist (c1 c2 : List Row) : Option Rat :=
  (isimFromSum (addLs (colSum c1) (colSum c2)) (c1.length + c2.length)).map (fun s => 1 - s)

/-- float division `a / b` with NaN propagation (the divisor is never `0` where it is used) -/
def divF : Option Rat → Option Rat → Option Rat
  | some x, some y => some (x / y)
  | _, _ => none

/-- the body of `jt_isim_dunn` once the list `D` of the clusters' iSIMs is known -/
def dunnWith (D : List (Option Rat)) (clusters : List (List Row)) : Option Rat :=
  match pyMaxList D with
  | none => none
  | some maxD =>
    if maxD = some 0 then some 1
    else
      let minD := (pairs clusters).foldl (fun m p => pyMinF (dunnDist p.1 p.2) m) (some 1)
      divF minD maxD

/-- `jt_isim_dunn(cluster_fps)`.  `D[i]` is NaN for a cluster with fewer than two members, and
Python's `max` keeps or drops a NaN depending on its position.  The empty list of clusters is
a `ValueError` in Python (`max([])`) and `none` here. -/
def dunn (clusters : List (List Row)) : Option Rat := dunnWith (clusters.map isimRows) clusters

/-! ### the same on packed input (`input_is_packed=True, n_features=F`) -/

def unpackClusters (F : Nat) (pc : List (List (List Nat))) : List (List Row) :=
  pc.map (fun c => c.map (fun b => unpack b F))

def chiPacked (F : Nat) (pc : List (List (List Nat))) : Rat := chi (unpackClusters F pc)
def dbiPacked (F : Nat) (pc : List (List (List Nat))) : Rat := dbi (unpackClusters F pc)
/-- `jt_isim_dunn(packed, input_is_packed=True, n_features=F)`: the iSIMs `D` are computed by
`jt_isim_packed(clust)` WITHOUT `n_features`, i.e. on all `8 * bytes` unpacked bits; the
column sums of the pairs use `n_features` -/
def dunnPacked (F : Nat) (pc : List (List (List Nat))) : Option Rat :=
  dunnWith (pc.map (fun c => isimRows (c.map (fun b => unpack b (8 * b.length)))))
    (unpackClusters F pc)

end BB.Metrics
