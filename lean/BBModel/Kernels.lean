/-
L3' — the C++ kernels of `bblean/csrc/similarity.cpp`, transcribed at byte / word level.

The extension is selected by an import-time switch in `bblean/similarity.py`; the model of
`BBModel/Similarity.lean` transcribes the NumPy fallback, this file transcribes the C++ the way the
C++ computes: loops are folds, `static_cast<const uint64_t*>(ptr)[j]` is `wordOfBytes` of the
`j`-th 8-byte chunk (little-endian host), `uint8_t` / `uint32_t` / `uint64_t` arithmetic wraps
(`u8`, `u32`, `u64`), `POPCOUNT_32` / `POPCOUNT_64` are `popNat`.

What is NOT modelled, and how it shows up here:

* addresses: `is_8byte_aligned(arr)` is an input flag (`aligned`).  In the 2-D functions the test is
  made on the base pointer only; the row pointers `base + i * steps` are aligned as well because
  the word path is only taken for `steps % 64 == 0`.
* a 2-D array is a list of rows of one common length (`shape(1)`); the model reads `shape(1)` off
  each row, which is the same thing on rectangular input.  `shape(1)` of an array without rows is
  lost.
* reads outside a buffer are undefined behaviour: `Fault.oob`.  `throw std::runtime_error` is
  `Fault.throws`.  (`int` loop counters against `py::ssize_t` bounds: lengths `< 2^31` assumed;
  negative `n_features` arguments are not modelled.)
* `centroid_from_sum`: `linear_sum[i] >= n_samples * 0.5` compares two doubles; it is written
  `n ≤ 2 * k`, which is exact as long as `n_samples` and the sums are below 2^53.
* `jt_isim_from_sum`: a zero denominator (impossible for sums `k ≤ n`) gives `±inf` / NaN in C++;
  here, as in `BB.isimFromSum`, it is `Rat`'s `x / 0 = 0`.

Mathlib-free: compiled into the driver.
-/
import BBModel.Similarity

namespace BB.Cxx

/-- what can go wrong in the C++ -/
inductive Fault
  /-- `throw std::runtime_error(..)` -/
  | throws
  /-- read outside a buffer (undefined behaviour, result unspecified) -/
  | oob
  deriving DecidableEq, Repr, Inhabited

def u8 (x : Nat) : Nat := x % 2 ^ 8
def u32 (x : Nat) : Nat := x % 2 ^ 32

/-- `a + b - c` in `uint32_t` arithmetic (for `c < 2^32`) -/
def u32AddSub (a b c : Nat) : Nat := u32 (a + b + 2 ^ 32 - c)

/-- `std::max(a, b)` on doubles: `(a < b) ? b : a` -/
def stdMax (a b : Rat) : Rat := if a < b then b else a

/-- the `uint64_t` view of a byte buffer: `static_cast<const uint64_t*>(ptr)[j]`, `j < len / 8` -/
def words (bytes : List Nat) : List Nat := (chunks 8 bytes).map wordOfBytes

/-- `_popcount_1d`: `uint32_t count{0}`, `count += POPCOUNT_64(word)` over the uint64 view when
`is_8byte_aligned(arr) && steps % 64 == 0`, else `count += POPCOUNT_32(byte)`; the accumulator is a
`uint32_t` (wraps; it cannot for fewer than 2^29 bytes) -/
def popcount1d (aligned : Bool) (bytes : List Nat) : Nat :=
  if aligned && bytes.length % 64 == 0 then
    (words bytes).foldl (fun count w => u32 (count + popNat w)) 0
  else
    bytes.foldl (fun count b => u32 (count + popNat b)) 0

/-- `_popcount_2d`: the same two loops per row (`out_ptr[i] += …`, `uint32_t`), the test is made
once on the base pointer and `shape(1)` -/
def popcount2d (aligned : Bool) (rows : List (List Nat)) : List Nat :=
  rows.map (fun r => popcount1d aligned r)

/-- row `i` of `BYTE_TO_BITS`: `byteToBits[i][7 - b] = (i >> b) & 1` -/
def byteToBits (i : Nat) : List Nat := (List.range 8).map (fun p => (i >>> (7 - p)) &&& 1)

/-- `_nochecks_unpack_fingerprints_2d`: throws unless `n_features % 8 == 0`; then
`memcpy(&out(i, j), BYTE_TO_BITS[in(i, j / 8)], 8)` for `j = 0, 8, …, n_features - 8`, i.e. the
table rows of the first `n_features / 8` bytes of each row.  For `n_features > 8 * n_bytes` the
loop reads past the row (the next row, or past the buffer for the last one): `oob`. -/
def unpack2d (rows : List (List Nat)) (nFeatures : Option Nat) : Except Fault (List (List Nat)) :=
  match nFeatures with
  | none => .ok (rows.map (fun r => r.flatMap byteToBits))  -- n_features = n_bytes * 8
  | some F =>
    if F % 8 != 0 then .error .throws
    else if rows.any (fun r => r.length < F / 8) then .error .oob
    else .ok (rows.map (fun r => (r.take (F / 8)).flatMap byteToBits))

/-- one pass of the inner packing loop: 8 times `byte <<= 1; byte |= unpacked[stride + b]` on a
`uint8_t` that starts at 0 -/
def packByte (bits8 : List Nat) : Nat :=
  bits8.foldl (fun byte u => u8 (Nat.lor (u8 (byte <<< 1)) u)) 0

/-- `centroid_from_sum<uint64_t>(linear_sum, n_samples, pack)`.
`n_samples ≤ 1`: `static_cast<uint8_t>(linear_sum[i])`; else `linear_sum[i] >= n_samples * 0.5`.
The packing loop runs over `(n_features + 7) / 8` output bytes and reads
`unpacked[8 * i + b]`, `b < 8`: for `n_features % 8 ≠ 0` the last byte is assembled from up to 7
bytes past the end of the `n_features`-long `centroid_unpacked` buffer — `oob`. -/
def centroidFromSum (ls : List Nat) (n : Int) (pack : Bool) : Except Fault (List Nat) :=
  let unpacked : List Nat :=
    if n ≤ 1 then ls.map u8
    else ls.map (fun (k : Nat) => if n ≤ 2 * (k : Int) then 1 else 0)
  if !pack then .ok unpacked
  else if ls.length % 8 != 0 then .error .oob
  else .ok ((chunks 8 unpacked).map packByte)

/-- `jt_isim_from_sum(linear_sum, n_objects)`: `uint64_t` accumulators, `n_objects * sum_kq` is an
`int64_t * uint64_t` product, i.e. `uint64_t`; `uint64_t → double` conversions (`ofNat`) where an
integer meets a double; `none` is the NaN returned (with a warning) for `n_objects < 2`. -/
def isimFromSum (ls : List Nat) (n : Int) : Option Rat :=
  if n < 2 then none
  else
    let sumKq := ls.foldl (fun s k => u64 (s + k)) 0
    if sumKq = 0 then some 1
    else
      let sumKqsq := ls.foldl (fun s k => u64 (s + u64 (k * k))) 0
      let a := fdiv (ofNat (u64 (sumKqsq + 2 ^ 64 - sumKq))) 2
      let nS := u64 (n.toNat * sumKq)
      some (fdiv a (fsub (fadd a (ofNat nS)) (ofNat sumKqsq)))

/-- inner loop of `_calc_arr_vec_jt<uint8_t>`: `intersection += POPCOUNT_32(row[j] & vec[j])` -/
def interBytes (x y : List Nat) : Nat :=
  (List.zipWith Nat.land x y).foldl (fun s b => u32 (s + popNat b)) 0

/-- inner loop of `_calc_arr_vec_jt<uint64_t>`: `intersection += POPCOUNT_64(row[j] & vec[j])` on
the uint64 views -/
def interWords (x y : List Nat) : Nat :=
  (List.zipWith Nat.land (words x) (words y)).foldl (fun s w => u32 (s + popNat w)) 0

/-- the tail of the row loop of `_calc_arr_vec_jt`:
`denominator = card[i] + vec_popcount - intersection` in `uint32_t`;
`out[i] = intersection / std::max(static_cast<double>(denominator), 1.0)` (both `uint32_t → double`
conversions are exact) -/
def quotient (inter card vpop : Nat) : Rat :=
  fdiv (inter : Rat) (stdMax ((u32AddSub card vpop inter : Nat) : Rat) 1)

/-- one row of `_calc_arr_vec_jt<T>`, `T = uint64_t` (`fast`) or `uint8_t` -/
def rowSim (fast : Bool) (vpop : Nat) (y x : List Nat) (card : Nat) : Rat :=
  quotient (if fast then interWords x y else interBytes x y) card vpop

/-- `jt_sim_packed_precalc_cardinalities(arr, vec, cardinalities)`: throws on a shape mismatch;
word path iff both buffers are aligned and `n_features % 64 == 0` (`n_features` = bytes per row);
`vec_popcount = _popcount_1d(vec)` -/
def precalc (aX aY : Bool) (X : List (List Nat)) (y : List Nat) (card : List Nat) :
    Except Fault (List Rat) :=
  if X.any (fun x => x.length != y.length) then .error .throws
  else
    .ok (List.zipWith (rowSim (aX && aY && y.length % 64 == 0) (popcount1d aY y) y) X card)

/-- `_jt_sim_arr_vec_packed(arr, vec)` with one alignment flag per buffer -/
def arrVecG (aX aY : Bool) (X : List (List Nat)) (y : List Nat) : Except Fault (List Rat) :=
  precalc aX aY X y (popcount2d aX X)

/-- `_jt_sim_arr_vec_packed(arr, vec)`, both buffers aligned or both not -/
def arrVec (aligned : Bool) (X : List (List Nat)) (y : List Nat) : Except Fault (List Rat) :=
  arrVecG aligned aligned X y

/-- the column-sum loop of `jt_most_dissimilar_packed`: `linear_sum[j] += row[j]` on `uint64_t`,
starting from `memset 0` -/
def addRowsU64 (nU : Nat) (rows : List (List Nat)) : List Nat :=
  rows.foldl (fun acc r => List.zipWith (fun s b => u64 (s + b)) acc r) (List.replicate nU 0)

/-- `jt_most_dissimilar_packed` after the unpacking: `unp` is `fps_unpacked`, `nU` its number of
columns.  `std::min_element` returns the first minimum (`argminFirst`). -/
def dissimCore (aY aC a1 a2 : Bool) (Y : List (List Nat)) (nU : Nat) (unp : List (List Nat)) :
    Except Fault (Nat × Nat × List Rat × List Rat) := do
  let cent ← centroidFromSum (addRowsU64 nU unp) (Y.length : Int) true
  let simsC ← precalc aY aC Y cent (popcount2d aY Y)
  let s1 ← precalc aY a1 Y (Y.getD (argminFirst simsC) []) (popcount2d aY Y)
  let s2 ← precalc aY a2 Y (Y.getD (argminFirst s1) []) (popcount2d aY Y)
  pure (argminFirst simsC, argminFirst s1, s1, s2)

/-- `jt_most_dissimilar_packed(fps_packed, n_features)`; `aY` is the alignment of `fps_packed`,
`aC`, `a1`, `a2` those of the three freshly allocated vectors (centroid, `fp1_packed`,
`fp2_packed`).  Without rows `fp1_idx = 0` and `n_features_packed` bytes are copied out of an
empty buffer: `oob`. -/
def mostDissimilarG (aY aC a1 a2 : Bool) (Y : List (List Nat)) (nFeatures : Option Nat) :
    Except Fault (Nat × Nat × List Rat × List Rat) := do
  let unp ← unpack2d Y nFeatures
  if Y.isEmpty then .error .oob
  else dissimCore aY aC a1 a2 Y (nFeatures.getD ((Y.headD []).length * 8)) unp

def mostDissimilar (aligned : Bool) (Y : List (List Nat)) (nFeatures : Option Nat) :
    Except Fault (Nat × Nat × List Rat × List Rat) :=
  mostDissimilarG aligned aligned aligned aligned Y nFeatures

end BB.Cxx
