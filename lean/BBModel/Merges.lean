/-
L4 — the six merge-accept functions of `bblean/_merges.py`, branch for branch.

`np.exp` is not modelled: `E n` stands for `np.exp(-decay * n)` and `off` for
`np.exp(-decay * n_max)`; theorems assume only that `E` is antitone and non-negative.
-/
import BBModel.Similarity

namespace BB

inductive Crit | radius | diameter | tolDiameter | tolRadius | tolLegacy | never
  deriving DecidableEq, Repr, Inhabited

def Crit.name : Crit → String
  | .radius => "radius" | .diameter => "diameter" | .tolDiameter => "tolerance-diameter"
  | .tolRadius => "tolerance-radius" | .tolLegacy => "tolerance-legacy" | .never => "never-merge"

def Crit.ofName? : String → Option Crit
  | "radius" => some .radius | "diameter" => some .diameter
  | "tolerance-diameter" => some .tolDiameter | "tolerance-radius" => some .tolRadius
  | "tolerance-legacy" => some .tolLegacy | "never-merge" => some .never
  | _ => none

/-- does the criterion object carry a `tolerance` attribute? (`never-merge` inherits one) -/
def Crit.hasTol : Crit → Bool
  | .radius | .diameter => false
  | _ => true

/-- the Python float `0.05` -/
def defaultTol : Rat := 3602879701896397/72057594037927936

/-- a merge-accept function object: criterion and (where it has one) its tolerance -/
structure MergeFn where
  crit : Crit
  tol : Rat := defaultTol
  deriving Repr, Inhabited

/-- the exp table: `E n = np.exp(-1e-3 * n)`, `off = np.exp(-1e-3 * 1000)` -/
structure ExpTab where
  E : Nat → Rat
  off : Rat

/-- `(ls, n)` of a cluster -/
structure Summary where
  ls : List Nat
  n : Nat

/-- the statistic each criterion family promises a bound on -/
def stat (c : Crit) (s : Summary) : Option Rat :=
  match c with
  | .radius | .tolRadius => radiusCompl s.ls s.n
  | _ => isimFromSum s.ls s.n

/-- `max(tolerance * (np.exp(-decay * old_n) - offset), 0.0)` -/
def slack (X : ExpTab) (tol : Rat) (n : Nat) : Rat :=
  max (fmul tol (fsub (X.E n) X.off)) 0

/-- NaN-aware `a >= b` (false when either side is NaN) -/
def geOpt (a : Option Rat) (b : Rat) : Bool :=
  match a with | some x => decide (b ≤ x) | none => false

/-- NaN-aware `a < b` -/
def ltOpt (a : Option Rat) (b : Rat) : Bool :=
  match a with | some x => decide (x < b) | none => false

/-- `merge_accept_fn(threshold, new_ls, new_n, old_ls, nom_ls, old_n, nom_n)` -/
def accept (m : MergeFn) (X : ExpTab) (thr : Rat) (new old nom : Summary) : Bool :=
  match m.crit with
  | .radius => geOpt (radiusCompl new.ls new.n) thr
  | .diameter => geOpt (isimFromSum new.ls new.n) thr
  | .never => false
  | .tolDiameter =>
    let newDc := isimFromSum new.ls new.n
    if ltOpt newDc thr then false
    else if old.n = 1 then true
    else
      match newDc, isimFromSum old.ls old.n with
      | some nd, some od => decide (fsub od (slack X m.tol old.n) ≤ nd)
      | _, _ => false
  | .tolRadius =>
    let newRc := radiusCompl new.ls new.n
    if ltOpt newRc thr then false
    else if old.n = 1 then true
    else
      match newRc, radiusCompl old.ls old.n with
      | some nr, some orc => decide (fsub orc (slack X m.tol old.n) ≤ nr)
      | _, _ => false
  | .tolLegacy =>
    let newDc := isimFromSum new.ls new.n
    if ltOpt newDc thr then false
    else if old.n = 1 ∨ nom.n ≠ 1 then true
    else
      match newDc, isimFromSum old.ls old.n with
      | some nd, some od =>
        decide (fsub od m.tol ≤ fsub (fmul nd (ofNat new.n)) (fmul od (ofNat (old.n - 1))) / 2)
      | _, _ => false

/-- `get_merge_accept_fn(name, tolerance)`; `none` = `ValueError` for an unknown name -/
def getMergeFn (name : String) (tol : Rat) : Option MergeFn :=
  (Crit.ofName? name).map (fun c => { crit := c, tol := tol })

end BB
