/-
L2 — counter widths: `np.min_scalar_type` on non-negative Python ints and NumPy's silent
wrap-around on array assignment / in-place addition.
-/
namespace BB

inductive W | u8 | u16 | u32 | u64
  deriving DecidableEq, Repr, Inhabited

def W.bits : W → Nat
  | .u8 => 8 | .u16 => 16 | .u32 => 32 | .u64 => 64

def W.name : W → String
  | .u8 => "uint8" | .u16 => "uint16" | .u32 => "uint32" | .u64 => "uint64"

/-- `min_safe_uint`; `none` = the `ValueError` for values that need a Python bigint -/
def minSafe? (n : Nat) : Option W :=
  if n < 2^8 then some .u8 else if n < 2^16 then some .u16
  else if n < 2^32 then some .u32 else if n < 2^64 then some .u64 else none

/-- total version used inside the tree model (theorems carry `n < 2^64`) -/
def minSafe (n : Nat) : W := (minSafe? n).getD .u64

/-- what an unsigned array element of width `w` holds after assigning `x` -/
def wrap (w : W) (x : Nat) : Nat := x % 2 ^ w.bits

end BB
