/-
L2 — counter widths: `np.min_scalar_type` on non-negative Python ints and NumPy's silent
wrap-around on array assignment / in-place addition.
-/
namespace BB

/-- the four unsigned NumPy widths, and `big` = a Python-object (unbounded) counter: the real
`min_safe_uint` raises `ValueError` for values ≥ 2^64 (unreachable in practice); the model goes
on with an unbounded counter instead, so that no arithmetic ever wraps beyond `u64` -/
inductive W | u8 | u16 | u32 | u64 | big
  deriving DecidableEq, Repr, Inhabited

/-- bit width; `big` has none: the value 128 is only a sentinel that orders it above `u64`
(`wrap` never uses it) -/
def W.bits : W → Nat
  | .u8 => 8 | .u16 => 16 | .u32 => 32 | .u64 => 64 | .big => 128

def W.name : W → String
  | .u8 => "uint8" | .u16 => "uint16" | .u32 => "uint32" | .u64 => "uint64" | .big => "object"

/-- `min_safe_uint`; `none` = the `ValueError` for values that need a Python bigint -/
def minSafe? (n : Nat) : Option W :=
  if n < 2^8 then some .u8 else if n < 2^16 then some .u16
  else if n < 2^32 then some .u32 else if n < 2^64 then some .u64 else none

/-- total version used inside the tree model: unbounded counter beyond the `u64` range -/
def minSafe (n : Nat) : W :=
  if n < 2^8 then .u8 else if n < 2^16 then .u16
  else if n < 2^32 then .u32 else if n < 2^64 then .u64 else .big

/-- what an unsigned array element of width `w` holds after assigning `x` -/
def wrap : W → Nat → Nat
  | .big, x => x
  | w, x => x % 2 ^ w.bits

end BB
