/-
L3 — similarity primitives, transcribed from `bblean/_py_similarity.py` and
`bblean/similarity.py` with the rounding points of the NumPy code.
`none : Option Rat` stands for NaN.
-/
import BBModel.Bits
import BBModel.Fl
import BBModel.Width

namespace BB

/-- `intersection / np.maximum(ca + cb - intersection, 1)` — uint32 operands, float64 quotient -/
def jtCounts (inter ca cb : Nat) : Rat :=
  fdiv (inter : Rat) ((max (ca + cb - inter) 1 : Nat) : Rat)

/-- Tanimoto similarity of two unpacked rows -/
def jtBits (a b : Row) : Rat := jtCounts (popc (andRow a b)) (popc a) (popc b)

/-- Tanimoto similarity of two packed rows (byte-wise popcount) -/
def jtPacked (a b : List Nat) : Rat :=
  jtCounts (popBytes (andBytes a b)) (popBytes a) (popBytes b)

/-- `_jt_sim_arr_vec_packed` on unpacked rows -/
def jtArrVec (X : List Row) (y : Row) : List Rat := X.map (fun x => jtBits x y)

/-- `centroid_from_sum(ls, n, pack=False)`: the sums themselves for `n ≤ 1`, else the
majority vote with ties set (`ls >= n * 0.5`, exact below 2^53) -/
def centroidFromSum (ls : List Nat) (n : Nat) : Row :=
  if n ≤ 1 then ls.map (fun k => k ≠ 0) else ls.map (fun k => decide (n ≤ 2 * k))

def u64 (x : Nat) : Nat := x % 2 ^ 64

/-- `jt_isim_from_sum` -/
def isimFromSum (ls : List Nat) (n : Nat) : Option Rat :=
  if n < 2 then none
  else
    let S := u64 ls.sum
    if S = 0 then some 1
    else
      let Q := u64 (ls.map (fun k => k * k)).sum
      -- (sum_kqsq - sum_kq) is a uint64 subtraction, `/ 2` converts to float64 first
      let a := ofNat (u64 (Q + 2 ^ 64 - S)) / 2
      let nS := u64 (n * S)
      some (fdiv a (fsub (fadd a (ofNat nS)) (ofNat Q)))

/-- `jt_isim_radius_compl_from_sum` -/
def radiusCompl (ls : List Nat) (n : Nat) : Option Rat :=
  let c := centroidFromSum ls n
  let ls1 := (addLs ls (rowToNat c)).map u64
  match isimFromSum ls n, isimFromSum ls1 (n + 1) with
  | some j, some j1 => some (fsub (fmul j1 (ofNat (n + 1))) (fmul j (ofNat (n - 1))) / 2)
  | _, _ => none

/-- `jt_isim_diameter_from_sum` / `jt_isim_radius_from_sum` -/
def diameterFromSum (ls : List Nat) (n : Nat) : Option Rat := (isimFromSum ls n).map (fun j => fsub 1 j)
def radiusFromSum (ls : List Nat) (n : Nat) : Option Rat := (radiusCompl ls n).map (fun j => fsub 1 j)

/-- `jt_isim` on unpacked rows -/
def isimRows (rows : List Row) : Option Rat := isimFromSum (colSum rows) rows.length

def subLs (a b : List Nat) : List Nat := List.zipWith (fun x y => x - y) a b

/-- `jt_compl_isim` -/
def complIsim (rows : List Row) : List (Option Rat) :=
  if rows.length - 1 < 2 then rows.map (fun _ => none)
  else
    let ls := colSum rows
    rows.map (fun r => isimFromSum (subLs ls (rowToNat r)) (rows.length - 1))

/-- order on `Option Rat` used by argmin when no NaN is present -/
def optVal (x : Option Rat) : Rat := x.getD 0

/-- `jt_isim_medoid` index -/
def medoidIdx (rows : List Row) : Nat :=
  if rows.length < 3 then 0 else argminFirst ((complIsim rows).map optVal)

/-- `jt_most_dissimilar_packed` on unpacked rows: (fp_1, fp_2, sims_fp_1, sims_fp_2) -/
def mostDissimilar (Y : List Row) : Nat × Nat × List Rat × List Rat :=
  let n := Y.length
  let cent := centroidFromSum (colSum Y) n
  let simsC := jtArrVec Y cent
  let i1 := argminFirst simsC
  let s1 := jtArrVec Y (Y.getD i1 [])
  let i2 := argminFirst s1
  let s2 := jtArrVec Y (Y.getD i2 [])
  (i1, i2, s1, s2)

end BB

namespace BB

/-- `jt_sim_matrix_packed`: ones on the diagonal, row `i` filled with the similarities of the later
rows to row `i`, mirrored -/
def simMatrix (rows : List Row) : List (List Rat) :=
  (List.range rows.length).map (fun i => (List.range rows.length).map (fun j =>
    if i = j then 1
    else if i < j then jtBits (rows.getD j []) (rows.getD i [])
    else jtBits (rows.getD i []) (rows.getD j [])))

end BB
