/-
L1 — IEEE-754 binary64 arithmetic on exact rationals.

A float is represented by its exact value.  `rnd` rounds a rational to the nearest
number with a 53-bit significand, ties to even, with unbounded exponent: this is IEEE
arithmetic as long as no overflow / underflow / NaN occurs (all quantities in bblean are
ratios of integers below 2^64).
-/
namespace BB

/-- binade of p/q: the unique e with 2^e ≤ p/q < 2^(e+1) (p, q > 0) -/
def ilog2Rat (p q : Nat) : Int :=
  let e0 : Int := (Nat.log2 p : Int) - (Nat.log2 q : Int)
  let ge : Bool :=
    if e0 ≥ 0 then decide (p ≥ q * 2 ^ e0.toNat) else decide (p * 2 ^ (-e0).toNat ≥ q)
  if ge then e0 else e0 - 1

/-- round the positive rational p/q to 53 significant bits, nearest, ties to even -/
def rndPos (p q : Nat) : Rat :=
  let e := ilog2Rat p q
  let s : Int := 52 - e
  let num : Nat := if s ≥ 0 then p * 2 ^ s.toNat else p
  let den : Nat := if s ≥ 0 then q else q * 2 ^ (-s).toNat
  let k := num / den
  let r := num % den
  let k' := if 2 * r > den then k + 1
            else if 2 * r = den then (if k % 2 = 1 then k + 1 else k) else k
  if s ≥ 0 then mkRat k' (2 ^ s.toNat) else ((k' * 2 ^ (-s).toNat : Nat) : Rat)

/-- round to nearest binary64, ties to even -/
def rnd (x : Rat) : Rat :=
  if x.num = 0 then 0
  else if x.num > 0 then rndPos x.num.toNat x.den
  else - rndPos (-x.num).toNat x.den

def fadd (a b : Rat) : Rat := rnd (a + b)
def fsub (a b : Rat) : Rat := rnd (a - b)
def fmul (a b : Rat) : Rat := rnd (a * b)
def fdiv (a b : Rat) : Rat := rnd (a / b)
/-- integer → float64 conversion -/
def ofNat (n : Nat) : Rat := rnd (n : Rat)

end BB
