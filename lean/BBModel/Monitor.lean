/-
L12 — the `max-rss.txt` file protocol of the memory monitor (`bblean/_memory.py`):
writer daemon (`monitor_rss_process`) against reader (`get_peak_memory_gib`) over a tiny
inode-level file system.

Two writer protocols:
* `Proto.truncate` — the pinned code: `open(dir/"max-rss.txt", "w")` creates the file or
  TRUNCATES IT IN PLACE, then the value is written.
* `Proto.rename`   — the repaired code: the value is written to `max-rss.txt.tmp` and the
  name `max-rss.txt` is moved onto the completely written inode by `os.replace`
  (atomic `rename(2)`).

Granularity: one writer effect / one reader step is atomic; any interleaving of the two
is a schedule `List Bool` (`true` = writer effect, `false` = reader step).  `flush`,
`fsync` and `close` have no effect visible to a reader and are omitted.  A `write` of the
few bytes of a number is modelled pessimistically as two effects (an incomplete prefix
becomes visible, then the complete text).  Values are abstract naturals.

Core Lean only (this file is compiled into the native driver).
-/

namespace BB.Mon

/-- what an inode holds: nothing, an incomplete prefix of a number, the complete text of `v`
(`partial` is a keyword, hence `part`) -/
inductive Content where
  | empty
  | part
  | full (v : Nat)
  deriving DecidableEq, Repr, Inhabited

/-- inode table, and the inodes the names `max-rss.txt` / `max-rss.txt.tmp` point at.
Inodes are never freed (a reader that has opened one keeps it alive anyway). -/
structure FS where
  inodes : List Content := []
  final : Option Nat := none
  tmp : Option Nat := none
  deriving DecidableEq, Repr, Inhabited

inductive Proto where
  | truncate
  | rename
  deriving DecidableEq, Repr, Inhabited

/-- file effects of the writer -/
inductive WOp where
  /-- `open(final, "w")`: create, or truncate in place -/
  | openFinal
  /-- `open(tmp, "w")`: create a fresh inode, or truncate in place if the tmp name exists -/
  | openTmp
  /-- an incomplete prefix of the number becomes visible in the opened inode -/
  | writePartial
  /-- the complete text of `v` is in the opened inode -/
  | writeFull (v : Nat)
  /-- `os.replace(tmp, final)` -/
  | renameTmp
  deriving DecidableEq, Repr, Inhabited

/-- the effect list of ONE update with value `v` -/
def updateOps : Proto → Nat → List WOp
  | .truncate, v => [.openFinal, .writePartial, .writeFull v]
  | .rename, v => [.openTmp, .writePartial, .writeFull v, .renameTmp]

/-- the strict running maxima of a sample list above the current maximum `m`:
the monitor loop performs an update only `if rss > max_rss` -/
def maxima : Nat → List Nat → List Nat
  | _, [] => []
  | m, s :: ss => if m < s then s :: maxima s ss else maxima m ss

/-- all file effects of the writer for a sample sequence (initial maximum 0) -/
def writerOps (p : Proto) (samples : List Nat) : List WOp :=
  (maxima 0 samples).flatMap (updateOps p)

/-- the writer handle: the inode opened by the most recent `open` of the writer -/
abbrev Handle := Option Nat

/-- one writer effect -/
def wstep : FS × Handle → WOp → FS × Handle
  | (fs, _), .openFinal =>
    match fs.final with
    | some i => ({ fs with inodes := fs.inodes.set i .empty }, some i)
    | none =>
      let n := fs.inodes.length
      ({ fs with inodes := fs.inodes ++ [.empty], final := some n }, some n)
  | (fs, _), .openTmp =>
    match fs.tmp with
    | some i => ({ fs with inodes := fs.inodes.set i .empty }, some i)
    | none =>
      let n := fs.inodes.length
      ({ fs with inodes := fs.inodes ++ [.empty], tmp := some n }, some n)
  | (fs, h), .writePartial =>
    match h with
    | some i => ({ fs with inodes := fs.inodes.set i .part }, h)
    | none => (fs, h)
  | (fs, h), .writeFull v =>
    match h with
    | some i => ({ fs with inodes := fs.inodes.set i (.full v) }, h)
    | none => (fs, h)
  | (fs, h), .renameTmp =>
    match fs.tmp with
    | some i => ({ fs with final := some i, tmp := none }, h)
    | none => (fs, h)          -- `os.replace` would raise; not reachable from `updateOps`

/-- reader state -/
inductive RState where
  | start
  /-- `file.exists()` returned `True` -/
  | sawExists
  /-- `open(file)` bound inode `i` -/
  | opened (i : Nat)
  /-- `f.read()` returned the content `c` -/
  | read (c : Content)
  /-- returned `None` / a value -/
  | done (r : Option Nat)
  /-- raised (`FileNotFoundError` in `open`, `ValueError` from `float("")`) -/
  | error
  /-- returned the value of a truncated number -/
  | wrong
  deriving DecidableEq, Repr, Inhabited

def RState.isTerminal : RState → Bool
  | .done _ | .error | .wrong => true
  | _ => false

/-- one reader step: exists-check, open, read, parse -/
def rstep (fs : FS) : RState → RState
  | .start => if fs.final.isSome then .sawExists else .done none
  | .sawExists =>
    match fs.final with
    | some i => .opened i
    | none => .error
  | .opened i => .read (fs.inodes[i]?.getD .empty)
  | .read .empty => .error
  | .read .part => .wrong
  | .read (.full v) => .done (some v)
  | r => r

/-- content of the inode named `max-rss.txt` -/
def finalValue (fs : FS) : Option Content :=
  match fs.final with
  | some i => fs.inodes[i]?
  | none => none

/-- state of an execution: file system, writer handle, remaining writer effects, the
current reader, results of the completed readers (in order) -/
structure St where
  fs : FS := {}
  h : Handle := none
  ops : List WOp := []
  r : RState := .start
  out : List RState := []
  deriving DecidableEq, Repr, Inhabited

/-- next writer effect (nothing if the writer is finished) -/
def St.wstep (s : St) : St :=
  match s.ops with
  | [] => s
  | o :: os =>
    let q := Mon.wstep (s.fs, s.h) o
    { s with fs := q.1, h := q.2, ops := os }

/-- one reader step; a reader that reaches a terminal state is recorded and replaced by a
fresh one -/
def St.rstep (s : St) : St :=
  let r' := Mon.rstep s.fs s.r
  if r'.isTerminal then { s with r := .start, out := s.out ++ [r'] } else { s with r := r' }

def St.step (s : St) (b : Bool) : St := if b then s.wstep else s.rstep

def St.exec (s : St) (sched : List Bool) : St := sched.foldl St.step s

def St.init (p : Proto) (samples : List Nat) : St := { ops := writerOps p samples }

/-- terminal states of all readers completed during the schedule, in order -/
def run (p : Proto) (samples : List Nat) (sched : List Bool) : List RState :=
  ((St.init p samples).exec sched).out

/-- the file system after the schedule -/
def runFS (p : Proto) (samples : List Nat) (sched : List Bool) : FS :=
  ((St.init p samples).exec sched).fs

/-- all schedules with `w` writer effects and `r` reader steps (for exhaustive checks) -/
def schedules : Nat → Nat → List (List Bool)
  | 0, r => [List.replicate r false]
  | w, 0 => [List.replicate w true]
  | w+1, r+1 => ((schedules w (r+1)).map (true :: ·)) ++ ((schedules (w+1) r).map (false :: ·))

end BB.Mon
