/-
L6 — the estimator `BitBirch` as a state machine: `fit`, `_fit_buffers`,
`recluster_inplace`, `refine_inplace`, `set_merge`, `delete_internal_nodes`, `reset`,
and the reports `get_cluster_mol_ids`, `get_centroids_mol_ids`, `get_assignments`.
-/
import BBModel.Tree

namespace BB

/-- merge configuration and parameters of an estimator -/
structure Cfg where
  thr : Rat
  bf : Nat
  merge : MergeFn
  deriving Repr, Inhabited

inductive TreeSt
  /-- `_root is None`, no leaf chain -/
  | uninit
  /-- a tree of height `h`, feature count `F`, the leaf chain (leaf ids in chain order), next fresh leaf id -/
  | full (h : Nat) (F : Nat) (root : Tree h) (chain : List Nat) (next : Nat)
  /-- after `delete_internal_nodes`: only the leaf chain survives -/
  | leavesOnly (F : Nat) (leaves : List LeafN)

structure Est where
  cfg : Cfg
  st : TreeSt
  numFitted : Nat

inductive Err | value | attribute | index | overflow
  deriving DecidableEq, Repr

def Err.name : Err → String
  | .value => "ValueError" | .attribute => "AttributeError" | .index => "IndexError"
  | .overflow => "OverflowError"

def init (cfg : Cfg) : Est := { cfg := cfg, st := .uninit, numFitted := 0 }

/-! ### the reference policy (the decisions the code takes) -/

/-- `closer1 = sim1 > sim2; closer1[seed1] = True` -/
def refMask (cache : List Row) : List Bool :=
  let (i1, _, s1, s2) := mostDissimilar cache
  (List.zipWith (fun a b => decide (b < a)) s1 s2).zipIdx.map (fun (m, j) => m || j == i1)

def refPolicy (X : ExpTab) (cfg : Cfg) : Policy where
  route cache cent := argmaxFirst (jtArrVec cache cent)
  accept c s := accept cfg.merge X cfg.thr (c.mergedSummary s) c.summary s.summary
  mask := refMask

/-! ### insertion of one unit at the root -/

/-- insert leaf id `new` in the chain right before `before` -/
def chainInsert (chain : List Nat) : Option (Nat × Nat) → List Nat
  | none => chain
  | some (new, before) =>
    match chain with
    | [] => [new]
    | x :: xs => if x = before then new :: x :: xs else x :: chainInsert xs (some (new, before))

def packedLen (F : Nat) : Nat := (F + 7) / 8

variable (P : Policy)

/-- the body of the `fit` / `_fit_buffers` loop for one sub-cluster: insert at the root,
split the root and grow the tree by one level if needed -/
def insertRoot (bf : Nat) (h F : Nat) (root : Tree h) (chain : List Nat) (next : Nat) (s : Clu) : TreeSt :=
  let r := ins P h root s next
  let chain' := chainInsert chain r.ev
  if r.over then
    let sp := splitNode P h r.node r.next
    let newRoot : InnerN (Tree h) :=
      { cap := bf, ents := [(sp.c1, sp.t1), (sp.c2, sp.t2)], cache := [sp.c1.cent, sp.c2.cent] }
    .full (h + 1) F newRoot (chainInsert chain' sp.ev) sp.next
  else .full h F r.node chain' r.next

/-- `_initialize_tree` when needed, then insert; `none` when internal nodes were released -/
def insertUnit (bf : Nat) (F : Nat) (st : TreeSt) (s : Clu) : Option TreeSt :=
  match st with
  | .uninit =>
    let root : LeafN := { id := 0, cap := bf, subs := [], cache := [] }
    some (insertRoot P bf 0 F root [0] 1 s)
  | .full h F' root chain next => some (insertRoot P bf h F' root chain next s)
  | .leavesOnly _ _ => none

/-! ### reports -/

def findLeaf (ls : List LeafN) (id : Nat) : Option LeafN := ls.find? (fun l => l.id == id)

/-- the leaf nodes in chain order (`_get_leaves`) -/
def TreeSt.leaves : TreeSt → List LeafN
  | .uninit => []
  | .full h _ root chain _ => chain.filterMap (findLeaf (leavesOf h root))
  | .leavesOnly _ ls => ls

/-- `is_init` -/
def TreeSt.isInit : TreeSt → Bool
  | .uninit => false
  | _ => true

/-- `_get_leaf_bfs(sort=False)` -/
def TreeSt.leafClus (st : TreeSt) : List Clu := st.leaves.flatMap (·.subs)

/-- `_get_leaf_bfs(sort=True)`: stable sort by count, largest first -/
def sortClus (cs : List Clu) : List Clu := cs.mergeSort (fun a b => decide (b.n ≤ a.n))

def TreeSt.sortedClus (st : TreeSt) : List Clu := sortClus st.leafClus

/-- `get_cluster_mol_ids(sort)` -/
def Est.clusters (e : Est) (sort : Bool := true) : List (List Nat) :=
  (if sort then e.st.sortedClus else e.st.leafClus).map (·.ids)

/-- `get_assignments(check_valid=True)` on a cluster list: `a[ids] = i` for `i = 1..`,
refused when an entry stays 0; `none` = an index out of range (IndexError) -/
def assignments (clusters : List (List Nat)) (n : Nat) : Except Err (List Nat) :=
  let step (acc : Option (List Nat)) (p : List Nat × Nat) : Option (List Nat) :=
    p.1.foldl (fun a id => a.bind (fun l => if id < l.length then some (l.set id (p.2 + 1)) else none)) acc
  match clusters.zipIdx.foldl step (some (List.replicate n 0)) with
  | none => .error .index
  | some a => if a.any (· == 0) then .error .value else .ok a

/-! ### operations -/

/-- a row is rejected when its length differs from the feature count of the call / tree -/
def rowOk (F : Nat) (r : Row) : Bool := r.length == F

def TreeSt.F? : TreeSt → Option Nat
  | .full _ F _ _ _ => some F
  | _ => none

/-- the `fit` loop: stops at the first malformed row and keeps the rows before it -/
def fitRows (bf : Nat) (F : Nat) : TreeSt → Nat → List (Nat × Row) → TreeSt × Nat × Option Err
  | st, k, [] => (st, k, none)
  | st, k, (lab, r) :: rest =>
    if !rowOk F r then (st, k, some .value)
    else match insertUnit P bf F st (Clu.ofRow r lab) with
      | none => (st, k, some .value)
      | some st' => fitRows bf F st' (k + 1) rest

/-- `BitBirch.fit(X, reinsert_indices=labels)` -/
def fit (e : Est) (rows : List Row) (labels : Option (List Nat)) : Est × Option Err :=
  match rows with
  | [] => (e, some .value)
  | r0 :: _ =>
    match e.st with
    | .leavesOnly _ _ => (e, some .value)
    | _ =>
      let F := (e.st.F?).getD r0.length
      let labelled := match labels with
        | none => (List.range' e.numFitted rows.length).zip rows
        | some ls => ls.zip rows
      let (st, k, err) := fitRows P e.cfg.bf F e.st e.numFitted labelled
      ({ e with st := st, numFitted := k }, err)

/-- the `_fit_buffers` loop over ready-made sub-clusters -/
def fitUnits (bf : Nat) (F : Nat) : TreeSt → Nat → List Clu → TreeSt × Nat × Option Err
  | st, k, [] => (st, k, none)
  | st, k, u :: rest =>
    match insertUnit P bf F st u with
    | none => (st, k, some .value)
    | some st' => fitUnits bf F st' (k + u.ids.length) rest

/-- `BitBirch._fit_buffers(bufs, reinsert_index_seqs=ids)` on a non-empty group -/
def fitBuffers (e : Est) (units : List Clu) : Est × Option Err :=
  match units with
  | [] => (e, some .value)
  | u0 :: _ =>
    match e.st with
    | .leavesOnly _ _ => (e, some .value)
    | _ =>
      let F := (e.st.F?).getD u0.ls.length
      if F != u0.ls.length then (e, some .value)
      else
        let (st, k, err) := fitUnits P e.cfg.bf F e.st e.numFitted units
        ({ e with st := st, numFitted := k }, err)

/-- `_prepare_bf_to_buffer_dicts`: group by dtype name, groups in first-occurrence order -/
def groupByW (cs : List Clu) : List (W × List Clu) :=
  cs.foldl (fun acc c =>
    if acc.any (fun g => g.1 == c.w) then acc.map (fun g => if g.1 == c.w then (g.1, g.2 ++ [c]) else g)
    else acc ++ [(c.w, [c])]) []

/-- re-wrap an extracted sub-cluster as the unit `_fit_buffers` builds from its buffer -/
def Clu.asUnit (c : Clu) : Clu := Clu.ofBuffer c.w c.ls c.n c.ids

/-- `reset()` -/
def Est.reset (e : Est) : Est := { e with st := .uninit, numFitted := 0 }

/-- refit the groups one after the other (stops at the first error, like the Python loop) -/
def refitGroups (pol : Cfg → Policy) (e : Est) : List (W × List Clu) → Est × Option Err
  | [] => (e, none)
  | g :: gs =>
    let (e', err) := fitBuffers (pol e.cfg) e (g.2.map Clu.asUnit)
    match err with
    | some x => (e', some x)
    | none => refitGroups pol e' gs

/-- apply a shuffle given as a list of source indices; anything that is not a permutation of
`0..len-1` is ignored, so the result is a permutation of `xs` for every argument -/
def applyPerm {α : Type} [Inhabited α] (xs : List α) (perm : List Nat) : List α :=
  if perm.isPerm (List.range xs.length) then perm.map (fun i => xs.getD i default) else xs

/-- `delete_internal_nodes()` -/
def delInternal (e : Est) : Est × Option Err :=
  match e.st with
  | .uninit => (e, some .attribute)
  | .leavesOnly _ _ => (e, some .attribute)
  | .full 0 _ _ _ _ => (e, none)
  | .full (_+1) F _ _ _ => ({ e with st := .leavesOnly F e.st.leaves }, none)

/-- the optional shuffle of one `recluster_inplace` iteration -/
def shuffled (bfs : List Clu) : Option (Option (List Nat)) → List Clu
  | some (some p) => applyPerm bfs p
  | _ => bfs

/-- one iteration list of `recluster_inplace` -/
def reclusterLoop (pol : Cfg → Policy) (extra : Rat) (stopEarly : Bool) :
    Nat → List (Option (List Nat)) → Nat → Est → Est × Option Err
  | 0, _, _, e => (e, none)
  | k+1, perms, before, e =>
    let bfs := e.st.sortedClus
    let singles := (bfs.filter (fun c => c.n == 1)).length
    if stopEarly && (singles == 0 || singles == before) then (e, none)
    else
      let bfs' := shuffled bfs perms.head?
      let groups := groupByW bfs'
      let e1 := e.reset
      let e2 := { e1 with cfg := { e1.cfg with thr := fadd e1.cfg.thr extra } }
      match refitGroups pol e2 groups with
      | (e3, some x) => (e3, some x)
      | (e3, none) => reclusterLoop pol extra stopEarly k perms.tail singles e3

/-- `recluster_inplace(iterations, extra_threshold, shuffle, seed, stop_early)`; the
shuffles are supplied as explicit permutations, one per iteration (`none` = no shuffle) -/
def recluster (pol : Cfg → Policy) (e : Est) (iters : Nat) (extra : Rat)
    (perms : List (Option (List Nat))) (stopEarly : Bool) : Est × Option Err :=
  if !e.st.isInit then (e, some .value)
  else reclusterLoop pol extra stopEarly iters perms 0 e

/-- the singleton units of an exploded cluster, read from the original data -/
def explode (data : List Row) (initialMol : Nat) (ids : List Nat) : Option (List Clu) :=
  ids.mapM (fun id =>
    if id < initialMol then none
    else (data[id - initialMol]?).map (fun r => Clu.ofBuffer .u8 (rowToNat r) 1 [id]))

/-- append units to the `"uint8"` group (created last when absent) -/
def addToU8 (groups : List (W × List Clu)) (us : List Clu) : List (W × List Clu) :=
  if groups.any (fun g => g.1 == W.u8) then groups.map (fun g => if g.1 == W.u8 then (g.1, g.2 ++ us) else g)
  else groups ++ [(W.u8, us)]

/-- `_bf_to_np_refine` for `n_largest = k ≥ 0`: the groups to refit (the `k` largest clusters
exploded into singletons read from the original data and filed under `"uint8"`), or an error -/
def refineGroups (bfs : List Clu) (k : Nat) (data : List Row) (initialMol : Nat) (srt : Bool := false) :
    Except Err (List (W × List Clu)) :=
  let groups0 := groupByW (bfs.drop k)
  if k = 0 then .ok groups0
  else
    -- given a sequence of file paths the rows are read in ascending index order (`srt`)
    match (bfs.take k).mapM (fun c => explode data initialMol (if srt then c.ids.mergeSort (· ≤ ·) else c.ids)) with
    | none => .error .index
    | some us =>
      -- `dtypes_to_fp["uint8"]` is only created when a singleton is appended
      .ok (if us.flatten.isEmpty then groups0 else addToU8 groups0 us.flatten)

/-- `refine_inplace(X, initial_mol, n_largest)` -/
def refine (pol : Cfg → Policy) (e : Est) (nLargest : Int) (data : List Row) (initialMol : Nat) (srt : Bool := false) :
    Est × Option Err :=
  if !e.st.isInit then (e, some .value)
  else
    match delInternal e with
    | (e0, some x) => (e0, some x)
    | (e0, none) =>
      if nLargest < 0 then (e0, some .value)
      else
        match refineGroups e0.st.sortedClus nLargest.toNat data initialMol srt with
        | .error x => (e0, some x)
        | .ok groups => refitGroups pol e0.reset groups

/-- argument of `set_merge`: a criterion name or a merge-function object -/
inductive CritArg
  | name (s : String)
  | obj (m : MergeFn)

/-- normal form: criteria without a tolerance attribute carry the default -/
def MergeFn.norm (m : MergeFn) : MergeFn := if m.crit.hasTol then m else { m with tol := defaultTol }

/-- the observable `tolerance` property -/
def MergeFn.tolerance? (m : MergeFn) : Option Rat := if m.crit.hasTol then some m.tol else none

/-- the tolerance a criterion selected by name receives: the one passed, else the one in force,
else the default 0.05 -/
def tolChoice (tol cur : Option Rat) : Rat :=
  match tol, cur with
  | some t, _ => t
  | none, some t => t
  | none, none => defaultTol

/-- the merge function selected by (criterion, tolerance) given the current one; shared by
the constructor and `set_merge` -/
def selectMerge (cur : Option MergeFn) (crit : Option CritArg) (tol : Option Rat) : Except Err MergeFn :=
  match crit with
  | some (.obj m) => if tol.isSome then .error .value else .ok m.norm
  | some (.name s) =>
    match Crit.ofName? s with
    | none => .error .value
    | some c =>
      .ok (MergeFn.norm { crit := c, tol := tolChoice tol (cur.bind MergeFn.tolerance?) })
  | none =>
    match cur, tol with
    | some m, none => .ok m
    | some m, some t => if m.crit.hasTol then .ok { m with tol := t } else .error .value
    | none, _ => .ok (MergeFn.norm { crit := .diameter, tol := tol.getD (defaultTol) })

/-- `BitBirch(threshold, branching_factor, merge_criterion, tolerance)` -/
def construct (thr : Rat) (bf : Nat) (crit : Option CritArg) (tol : Option Rat) : Except Err Est :=
  match selectMerge none (some (crit.getD (.name "diameter"))) tol with
  | .error x => .error x
  | .ok m => .ok (init { thr := thr, bf := bf, merge := m })

/-- `set_merge(criterion, tolerance=, threshold=, branching_factor=)`: validates first,
then changes exactly what it was given -/
def setMerge (e : Est) (crit : Option CritArg) (tol thr : Option Rat) (bf : Option Nat) : Est × Option Err :=
  match selectMerge (some e.cfg.merge) crit tol with
  | .error x => (e, some x)
  | .ok m =>
    ({ e with cfg := { thr := thr.getD e.cfg.thr, bf := bf.getD e.cfg.bf, merge := m } }, none)

end BB

namespace BB

/-- the operations of a history -/
inductive Op
  | fit (rows : List Row) (labels : Option (List Nat))
  | refine (nLargest : Int) (data : List Row) (initialMol : Nat) (srt : Bool)
  | recluster (iters : Nat) (extra : Rat) (perms : List (Option (List Nat))) (stopEarly : Bool)
  | setMerge (crit : Option CritArg) (tol thr : Option Rat) (bf : Option Nat)
  | setThr (thr : Rat)
  | setBf (bf : Nat)
  | delInternal
  | reset

/-- one operation under an arbitrary family of policies (one per configuration) -/
def stepWith (pol : Cfg → Policy) (e : Est) : Op → Est × Option Err
  | .fit rows labels => fit (pol e.cfg) e rows labels
  | .refine n data im srt => refine pol e n data im srt
  | .recluster it ex perms se => recluster pol e it ex perms se
  | .setMerge c t th b => setMerge e c t th b
  | .setThr t => ({ e with cfg := { e.cfg with thr := t } }, none)
  | .setBf b => ({ e with cfg := { e.cfg with bf := b } }, none)
  | .delInternal => delInternal e
  | .reset => (e.reset, none)

/-- the code's own decisions -/
def step (X : ExpTab) : Est → Op → Est × Option Err := stepWith (refPolicy X)

def runWith (pol : Cfg → Policy) (e : Est) (ops : List Op) : Est := ops.foldl (fun e op => (stepWith pol e op).1) e

def run (X : ExpTab) (e : Est) (ops : List Op) : Est := runWith (refPolicy X) e ops

end BB
