import BBModel.Bits
import BBModel.Fl
import BBModel.Width
import BBModel.Similarity
import BBModel.Merges
import BBModel.Tree
import BBModel.Estimator
