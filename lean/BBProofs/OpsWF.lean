/-
Estimator core, part 5: the tree well-formedness invariant (`WFT`, BBProofs/WF.lean) lifted
to every operation of the estimator.
-/
import BBProofs.WF
import BBProofs.Ops

namespace BB

/-- well-formed state whose tree (if any) has a non-empty root -/
def TreeSt.WFN (D : Nat → Row) : TreeSt → Prop
  | .full h _ root _ _ => WFT D h root 0 ∧ 1 ≤ nEnts h root
  | _ => True

/-- the cluster predicate that goes with it -/
def ExactN (D : Nat → Row) (c : Clu) : Prop := Exact D c ∧ 1 ≤ c.n

theorem TreeSt.WFN.wf {D : Nat → Row} {st : TreeSt} (h : st.WFN D) : st.WF D := by
  cases st with
  | uninit => trivial
  | leavesOnly F ls => trivial
  | full hh F root chain next => exact h.1

variable (P : Policy)

theorem insertUnit_wfn (hP : P.Valid) (D : Nat → Row) (bf : Nat) (hbf : 2 ≤ bf) (F : Nat)
    (st st' : TreeSt) (s : Clu) (hw : st.WFN D) (hs : ExactN D s)
    (hst : insertUnit P bf F st s = some st') : st'.WFN D := by
  obtain ⟨h1, h2⟩ := insertUnit_wf_ne P hP D bf hbf F st st' s hw.wf hs.1 hs.2 hst
  cases st' with
  | uninit => trivial
  | leavesOnly F' ls => trivial
  | full hh F' root chain next => exact ⟨h1, h2⟩

theorem fitUnits_wfn (hP : P.Valid) (D : Nat → Row) (bf : Nat) (hbf : 2 ≤ bf) (F : Nat) :
    ∀ (units : List Clu) (st : TreeSt) (k : Nat), st.WFN D → (∀ u ∈ units, ExactN D u) →
      (fitUnits P bf F st k units).1.WFN D
  | [], st, k, hw, _ => by simpa [fitUnits] using hw
  | u :: us, st, k, hw, hu => by
    simp only [fitUnits]
    cases hst : insertUnit P bf F st u with
    | none => exact hw
    | some st' =>
      exact fitUnits_wfn hP D bf hbf F us st' _
        (insertUnit_wfn P hP D bf hbf F st st' u hw (hu u (by simp)) hst)
        (fun x hx => hu x (by simp [hx]))

theorem fitRows_wfn (hP : P.Valid) (D : Nat → Row) (bf : Nat) (hbf : 2 ≤ bf) (F : Nat) :
    ∀ (rows : List (Nat × Row)) (st : TreeSt) (k : Nat), st.WFN D →
      (∀ p ∈ rows, rowOk F p.2 = true → D p.1 = p.2) → (fitRows P bf F st k rows).1.WFN D
  | [], st, k, hw, _ => by simpa [fitRows] using hw
  | (lab, r) :: rest, st, k, hw, hd => by
    simp only [fitRows]
    by_cases hr : rowOk F r = true
    · simp only [hr, Bool.not_true, Bool.false_eq_true, ↓reduceIte]
      cases hst : insertUnit P bf F st (Clu.ofRow r lab) with
      | none => exact hw
      | some st' =>
        exact fitRows_wfn hP D bf hbf F rest st' _
          (insertUnit_wfn P hP D bf hbf F st st' _ hw
            ⟨exact_ofRow D r lab (hd (lab, r) (by simp) hr), le_refl 1⟩ hst)
          (fun p hp => hd p (List.mem_cons_of_mem _ hp))
    · simp only [hr]
      exact hw

theorem fitBuffers_cfg (e : Est) (units : List Clu) : (fitBuffers P e units).1.cfg = e.cfg := by
  unfold fitBuffers
  cases units with
  | nil => rfl
  | cons u0 us =>
    cases e.st with
    | leavesOnly F ls => rfl
    | uninit => simp only; split <;> rfl
    | full h F root chain next => simp only; split <;> rfl

theorem fitBuffers_wfn (hP : P.Valid) (D : Nat → Row) (e : Est) (units : List Clu) (hbf : 2 ≤ e.cfg.bf)
    (hw : e.st.WFN D) (hu : ∀ u ∈ units, ExactN D u) : (fitBuffers P e units).1.st.WFN D := by
  unfold fitBuffers
  cases units with
  | nil => exact hw
  | cons u0 us =>
    cases hst : e.st with
    | leavesOnly F ls => simp only [hst]; trivial
    | uninit =>
      simp only
      split
      · rw [hst]; trivial
      · exact fitUnits_wfn P hP D _ hbf _ _ _ _ trivial hu
    | full h F root chain next =>
      simp only
      split
      · rw [hst]; rw [hst] at hw; exact hw
      · rw [hst] at hw
        exact fitUnits_wfn P hP D _ hbf _ _ _ _ hw hu

variable (pol : Cfg → Policy)

theorem refitGroups_cfg : ∀ (gs : List (W × List Clu)) (e : Est), (refitGroups pol e gs).1.cfg = e.cfg
  | [], e => rfl
  | g :: gs, e => by
    simp only [refitGroups]
    have h1 := fitBuffers_cfg (pol e.cfg) e (g.2.map Clu.asUnit)
    generalize fitBuffers (pol e.cfg) e (g.2.map Clu.asUnit) = r at h1
    obtain ⟨e', err⟩ := r
    cases err with
    | some x => exact h1
    | none => simp only; rw [refitGroups_cfg gs e']; exact h1

theorem refitGroups_wfn (hpol : ∀ cfg, (pol cfg).Valid) (D : Nat → Row) :
    ∀ (gs : List (W × List Clu)) (e : Est), 2 ≤ e.cfg.bf → e.st.WFN D →
    (∀ g ∈ gs, ∀ u ∈ g.2, ExactN D u.asUnit) → (refitGroups pol e gs).1.st.WFN D
  | [], e, _, hw, _ => hw
  | g :: gs, e, hbf, hw, hu => by
    simp only [refitGroups]
    have h1 := fitBuffers_wfn (pol e.cfg) (hpol _) D e (g.2.map Clu.asUnit) hbf hw
      (by intro u hu'; obtain ⟨c, hc, rfl⟩ := List.mem_map.mp hu'; exact hu g (by simp) c hc)
    have h2 := fitBuffers_cfg (pol e.cfg) e (g.2.map Clu.asUnit)
    generalize fitBuffers (pol e.cfg) e (g.2.map Clu.asUnit) = r at h1 h2
    obtain ⟨e', err⟩ := r
    cases err with
    | some x => exact h1
    | none =>
      simp only
      exact refitGroups_wfn hpol D gs e' (by rw [h2]; exact hbf) h1
        (fun g' hg' => hu g' (List.mem_cons_of_mem _ hg'))

theorem exactN_asUnit (D : Nat → Row) (c : Clu) (h : ExactN D c) : ExactN D c.asUnit :=
  ⟨exact_asUnit D c h.1, h.2⟩

theorem mergeClosed_exactN (D : Nat → Row) (cfg : Cfg) : MergeClosed pol (ExactN D) cfg := by
  intro c s hc hs _
  exact ⟨exact_merge D c s hc.1 hs.1, by have : (c.merge s).n = c.n + s.n := rfl; have := hc.2; omega⟩

theorem reclusterLoop_wfn (hpol : ∀ cfg, (pol cfg).Valid) (F : Nat) (D : Nat → Row) (extra : Rat) (stop : Bool) :
    ∀ (k : Nat) (perms : List (Option (List Nat))) (before : Nat) (e : Est), EInv F (ExactN D) e → e.st.WFN D →
    (reclusterLoop pol extra stop k perms before e).1.st.WFN D
  | 0, _, _, e, _, hw => by simpa [reclusterLoop] using hw
  | k+1, perms, before, e, hinv, hw => by
    unfold reclusterLoop
    simp only
    split
    · exact hw
    · have hperm : ((shuffled e.st.sortedClus perms.head? : List Clu) : Multiset Clu) = e.st.lclusM := by
        rw [← sortedClus_coe e.st hinv.ok]
        unfold shuffled
        split
        · exact Multiset.coe_eq_coe.mpr (applyPerm_perm _ _)
        · rfl
      obtain ⟨e3, h3, _, hinv3, _, _⟩ := reinsert_inv pol hpol F (ExactN D) (exactN_asUnit D) e hinv
        { e.cfg with thr := fadd e.cfg.thr extra } hinv.bf _ hperm (mergeClosed_exactN pol D _)
      have hstart : ({ (e.reset) with cfg := { e.reset.cfg with thr := fadd e.reset.cfg.thr extra } } : Est)
          = { cfg := { e.cfg with thr := fadd e.cfg.thr extra }, st := .uninit, numFitted := 0 } := rfl
      have hw3 : e3.st.WFN D := by
        have := refitGroups_wfn pol hpol D (groupByW (shuffled e.st.sortedClus perms.head?))
          { cfg := { e.cfg with thr := fadd e.cfg.thr extra }, st := .uninit, numFitted := 0 } hinv.bf trivial
          (by
            intro g hg u hu
            apply exactN_asUnit
            apply hinv.q
            obtain ⟨_, _, hflat⟩ := groupByW_spec (shuffled e.st.sortedClus perms.head?)
            rw [← hperm, ← hflat]
            exact List.mem_flatMap.mpr ⟨g, hg, hu⟩)
        rw [h3] at this
        exact this
      rw [hstart, h3]
      simp only
      exact reclusterLoop_wfn hpol F D extra stop k perms.tail _ e3 hinv3 hw3

end BB

namespace BB
variable (pol : Cfg → Policy)

/-- side conditions of one operation for a labelling `D` (same as C02's `OpData`, restated here
so that the property files can share it) -/
def OpD (F : Nat) (D : Nat → Row) (e : Est) : Op → Prop
  | .fit rows labels => labels = none ∧ (∀ r0, rows.head? = some r0 → r0.length = F) ∧
      (e.st.isLeavesOnly = false → ∀ i (hi : i < rows.length), rows[i].length = F → D (e.numFitted + i) = rows[i])
  | .refine _ data im _ => (∀ r ∈ data, r.length = F) ∧ ∀ id r, im ≤ id → data[id - im]? = some r → r = D id
  | .setMerge _ _ _ b => ∀ b', b = some b' → 2 ≤ b'
  | .setBf b => 2 ≤ b
  | .reset => False
  | _ => True

theorem opOK_of_opD (F : Nat) (D : Nat → Row) (e : Est) (op : Op) (h : OpD F D e op) :
    OpOK pol F (ExactN D) e op := by
  cases op with
  | fit rows labels =>
    exact ⟨h.1, h.2.1, fun hlo i hi hl => ⟨exact_ofRow D _ _ (h.2.2 hlo i hi hl), le_refl 1⟩, mergeClosed_exactN pol D _⟩
  | refine n data im srt =>
    refine ⟨h.1, fun id r hle hr => ?_, mergeClosed_exactN pol D _⟩
    have := h.2 id r hle hr
    subst this
    exact ⟨exact_ofBuffer_singleton D id, le_refl 1⟩
  | recluster it extra perms stop => exact fun _ _ _ => mergeClosed_exactN pol D _
  | setMerge c t th b => exact h
  | setBf b => exact h
  | setThr t => trivial
  | delInternal => trivial
  | reset => exact h.elim

theorem step_wfn (hpol : ∀ cfg, (pol cfg).Valid) (F : Nat) (D : Nat → Row) (e : Est)
    (hinv : EInv F (ExactN D) e) (hw : e.st.WFN D) (op : Op) (hop : OpD F D e op) :
    (stepWith pol e op).1.st.WFN D := by
  cases op with
  | fit rows labels =>
    obtain ⟨rfl, h0, hd⟩ := hop
    simp only [stepWith]
    cases rows with
    | nil => exact hw
    | cons r0 rest =>
      by_cases hlo : e.st.isLeavesOnly = true
      · rw [fit_leavesOnly _ _ _ _ hlo]; exact hw
      · have hlo : e.st.isLeavesOnly = false := by simpa using hlo
        rw [fit_eq _ _ _ _ _ hlo]
        have hFF : (e.st.F?).getD r0.length = F := by
          cases h : e.st.F? with
          | none => simpa using h0 r0 rfl
          | some F' => simpa using hinv.fF F' h
        simp only [hFF]
        apply fitRows_wfn (pol e.cfg) (hpol _) D e.cfg.bf hinv.bf F _ _ _ hw
        intro p hp hr
        obtain ⟨i, hi, rfl⟩ := mem_zip_range' _ _ p hp
        exact hd hlo i hi (by simpa [rowOk] using hr)
  | refine n data im srt =>
    obtain ⟨hdata, hd⟩ := hop
    simp only [stepWith]
    unfold refine
    split
    · exact hw
    · have hinv0 := delInternal_inv F _ e hinv
      have hw0 : (delInternal e).1.st.WFN D := by
        unfold delInternal
        cases hst : e.st with
        | uninit => simp only [hst]; trivial
        | leavesOnly F' ls => simp only [hst]; trivial
        | full hh F' root chain next =>
          cases hh with
          | zero => simp only; rw [hst] at hw; rw [hst]; exact hw
          | succ k => trivial
      generalize hdi : delInternal e = di at hinv0 hw0
      obtain ⟨e0, x⟩ := di
      simp only at hinv0 hw0
      cases x with
      | some x => exact hw0
      | none =>
        simp only
        split
        · exact hw0
        · split
          · exact hw0
          · rename_i groups hg
            obtain ⟨_, singles, hflat, _, hsing⟩ := refineGroups_spec _ _ _ _ _ _ hg
            have hsorted := sortedClus_coe e0.st hinv0.ok
            apply refitGroups_wfn pol hpol D groups e0.reset hinv0.bf trivial
            intro g hg' u hu
            have : u ∈ ((groups.flatMap (·.2) : List Clu) : Multiset Clu) := List.mem_flatMap.mpr ⟨g, hg', hu⟩
            rw [hflat] at this
            rcases Multiset.mem_add.mp this with h | h
            · apply exactN_asUnit
              apply hinv0.q
              rw [← hsorted]; exact List.mem_of_mem_drop h
            · obtain ⟨id, r, hle, hr, rfl⟩ := hsing u h
              have := hd id r hle hr
              subst this
              exact ⟨exact_ofBuffer_singleton D id, le_refl 1⟩
  | recluster it extra perms stop =>
    simp only [stepWith]
    unfold recluster
    split
    · exact hw
    · exact reclusterLoop_wfn pol hpol F D extra stop it perms 0 e hinv hw
  | setMerge c t th b =>
    simp only [stepWith, setMerge]
    split <;> exact hw
  | setThr t => exact hw
  | setBf b => exact hw
  | delInternal =>
    simp only [stepWith]
    unfold delInternal
    cases hst : e.st with
    | uninit => simp only [hst]; trivial
    | leavesOnly F' ls => simp only [hst]; trivial
    | full hh F' root chain next =>
      cases hh with
      | zero => simp only; rw [hst] at hw; rw [hst]; exact hw
      | succ k => trivial
  | reset => trivial

/-- the history is consistent with the labelling `D` (reset-free) -/
def RunD (F : Nat) (D : Nat → Row) : Est → List Op → Prop
  | _, [] => True
  | e, op :: ops => OpD F D e op ∧ RunD F D (stepWith pol e op).1 ops

theorem run_wfn (hpol : ∀ cfg, (pol cfg).Valid) (F : Nat) (D : Nat → Row) :
    ∀ (ops : List Op) (e : Est), EInv F (ExactN D) e → e.st.WFN D → RunD pol F D e ops →
    EInv F (ExactN D) (runWith pol e ops) ∧ (runWith pol e ops).st.WFN D
  | [], e, hinv, hw, _ => ⟨hinv, hw⟩
  | op :: ops, e, hinv, hw, hok => by
    simp only [runWith, List.foldl_cons]
    exact run_wfn hpol F D ops _
      (step_inv pol hpol F _ (exactN_asUnit D) e hinv op (opOK_of_opD pol F D e op hok.1))
      (step_wfn pol hpol F D e hinv hw op hok.1) hok.2

end BB
