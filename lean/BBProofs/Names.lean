/-
File names of the multi-round workflow (`BBModel/Multiround.lean`): all reasoning is done on
the character lists of the names.

* `zfill`: length, injectivity, lexicographic order = numeric order;
* `bufName` / `idxName`: injectivity, buffer names are never index names, which names the
  `glob` patterns of a round match, round files vs final files;
* order: the rendered buffer names and the rendered index names of one round are ordered by
  the same key `(label, dtype tag)` as soon as the labels have the same length.
-/
import BBModel.Multiround
import Mathlib.Data.List.Basic
import Mathlib.Data.List.Infix

namespace BB.MR
open BB

/-! ### strings as character lists -/

theorem startsWith_iff (s pat : String) : s.startsWith pat = true ↔ pat.toList <+: s.toList := by
  simp

theorem endsWith_iff (s pat : String) : s.endsWith pat = true ↔ pat.toList <:+ s.toList := by
  rw [← String.endsWith_toSlice, String.Slice.endsWith_string_iff]; simp

theorem str_lt_iff (a b : String) : a < b ↔ a.toList < b.toList := Iff.rfl

theorem str_le_iff (a b : String) : a ≤ b ↔ ¬ b.toList < a.toList := by
  rw [← String.not_lt]; rfl

/-- decimal digits of a number -/
abbrev dg (n : Nat) : List Char := Nat.toDigits 10 n

theorem dg_isDigit {n : Nat} {c : Char} (h : c ∈ dg n) : c.isDigit = true :=
  Nat.isDigit_of_mem_toDigits (by decide) (by decide) h

theorem dash_not_mem_dg (n : Nat) : '-' ∉ dg n := by
  intro h
  have := dg_isDigit h
  simp at this

theorem dg_inj {n m : Nat} (h : dg n = dg m) : n = m := by
  have := congrArg (fun l => Nat.ofDigitChars 10 l 0) h
  simpa using this

/-! ### generic list facts -/

theorem append_cons_prefix_of_not_mem {α : Type} {c : α} :
    ∀ {a b x y : List α}, c ∉ a → c ∉ b → a ++ c :: x <+: b ++ c :: y → a = b ∧ x <+: y
  | [], [], x, y, _, _, h => by
    simp only [List.nil_append] at h
    exact ⟨rfl, (List.cons_prefix_cons.mp h).2⟩
  | [], b0 :: b, x, y, _, hb, h => by
    simp only [List.nil_append, List.cons_append] at h
    have := (List.cons_prefix_cons.mp h).1
    subst this
    simp at hb
  | a0 :: a, [], x, y, ha, _, h => by
    simp only [List.nil_append, List.cons_append] at h
    have := (List.cons_prefix_cons.mp h).1
    subst this
    simp at ha
  | a0 :: a, b0 :: b, x, y, ha, hb, h => by
    simp only [List.cons_append] at h
    obtain ⟨h1, h2⟩ := List.cons_prefix_cons.mp h
    subst h1
    obtain ⟨e, p⟩ := append_cons_prefix_of_not_mem (a := a) (b := b)
      (fun hm => ha (List.mem_cons_of_mem _ hm)) (fun hm => hb (List.mem_cons_of_mem _ hm)) h2
    exact ⟨by rw [e], p⟩

theorem append_cons_inj_of_not_mem {α : Type} {c : α} {a b x y : List α} (ha : c ∉ a) (hb : c ∉ b)
    (h : a ++ c :: x = b ++ c :: y) : a = b ∧ x = y := by
  obtain ⟨e, _⟩ := append_cons_prefix_of_not_mem ha hb (by rw [h])
  subst e
  exact ⟨rfl, by simpa using h⟩

theorem chars_lt_irrefl (l : List Char) : ¬ l < l := List.lt_irrefl l

theorem append_lt_append_left_iff (p a b : List Char) : p ++ a < p ++ b ↔ a < b := by
  induction p with
  | nil => rfl
  | cons c p ih =>
    rw [List.cons_append, List.cons_append, List.cons_lt_cons_iff, ih]
    constructor
    · rintro (h | ⟨_, h⟩)
      · exact absurd h (Char.lt_irrefl c)
      · exact h
    · exact fun h => Or.inr ⟨rfl, h⟩

theorem append_lt_append_right_iff (e : List Char) :
    ∀ (a b : List Char), a.length = b.length → (a ++ e < b ++ e ↔ a < b)
  | [], [], _ => by
    simp only [List.nil_append]
    exact ⟨fun h => absurd h (chars_lt_irrefl e), fun h => absurd h (chars_lt_irrefl [])⟩
  | [], _ :: _, h => by simp at h
  | _ :: _, [], h => by simp at h
  | x :: a, y :: b, h => by
    simp only [List.cons_append, List.cons_lt_cons_iff]
    rw [append_lt_append_right_iff e a b (by simpa using h)]

/-- a suffix of the same length as another suffix is that suffix -/
theorem suffix_eq_of_length {α : Type} {e e' l : List α} (h : e <:+ l) (h' : e' <:+ l)
    (hl : e.length = e'.length) : e = e' := by
  have := List.suffix_of_suffix_length_le h h' (by omega)
  exact this.eq_of_length hl

/-! ### `zfill` -/

theorem zfill_toList (z i : Nat) :
    (zfill z i).toList = List.replicate (z - (dg i).length) '0' ++ dg i := by
  simp [zfill, String.toList_append, ← String.length_toList]

theorem dg_length_le {i z : Nat} (hz : 0 < z) (h : i < 10 ^ z) : (dg i).length ≤ z :=
  (Nat.length_toDigits_le_iff (by decide) hz).mpr h

theorem zfill_length (z i : Nat) (hz : 0 < z) (h : i < 10 ^ z) : (zfill z i).length = z := by
  have := dg_length_le hz h
  rw [← String.length_toList, zfill_toList]
  simp only [List.length_append, List.length_replicate]
  omega

theorem zfill_val (z i : Nat) : Nat.ofDigitChars 10 (zfill z i).toList 0 = i := by
  rw [zfill_toList, Nat.ofDigitChars_append]
  simp

theorem zfill_inj {z i j : Nat} (h : zfill z i = zfill z j) : i = j := by
  rw [← zfill_val z i, ← zfill_val z j, h]

theorem zfill_isDigit {z i : Nat} {c : Char} (h : c ∈ (zfill z i).toList) : c.isDigit = true := by
  rw [zfill_toList] at h
  rcases List.mem_append.mp h with h | h
  · rw [List.eq_of_mem_replicate h]; rfl
  · exact dg_isDigit h

/-- value of a digit string -/
abbrev dval (l : List Char) : Nat := Nat.ofDigitChars 10 l 0

theorem dval_cons (c : Char) (l : List Char) : dval (c :: l) = 10 ^ l.length * (c.toNat - 48) + dval l := by
  show Nat.ofDigitChars 10 (c :: l) 0 = _
  rw [Nat.ofDigitChars_cons, Nat.ofDigitChars_eq_ofDigitChars_zero]
  simp

theorem isDigit_toNat {c : Char} (h : c.isDigit = true) : 48 ≤ c.toNat ∧ c.toNat ≤ 57 := by
  simp only [Char.isDigit, Bool.and_eq_true, decide_eq_true_eq] at h
  have h1 : '0'.val ≤ c.val := h.1
  have h2 : c.val ≤ '9'.val := h.2
  rw [UInt32.le_iff_toNat_le] at h1 h2
  exact ⟨h1, h2⟩

theorem dval_lt (l : List Char) (hd : ∀ c ∈ l, c.isDigit = true) : dval l < 10 ^ l.length := by
  induction l with
  | nil => simp [dval]
  | cons c l ih =>
    rw [dval_cons]
    have := ih (fun x hx => hd x (List.mem_cons_of_mem _ hx))
    have hc := isDigit_toNat (hd c (by simp))
    have h9 : c.toNat - 48 ≤ 9 := by omega
    rw [List.length_cons, Nat.pow_succ]
    have h10 : 10 ^ l.length * ((c.toNat - 48) + 1) ≤ 10 ^ l.length * 10 := Nat.mul_le_mul_left _ (by omega)
    rw [Nat.mul_succ] at h10
    omega

/-- lexicographic order of equal-length digit strings is the numeric order -/
theorem dval_lt_of_lt : ∀ (a b : List Char), a.length = b.length → (∀ c ∈ a, c.isDigit = true) →
    (∀ c ∈ b, c.isDigit = true) → a < b → dval a < dval b
  | [], [], _, _, _, h => absurd h (chars_lt_irrefl [])
  | [], _ :: _, h, _, _, _ => by simp at h
  | _ :: _, [], h, _, _, _ => by simp at h
  | x :: a, y :: b, hl, ha, hb, h => by
    have hl' : a.length = b.length := by simpa using hl
    rw [dval_cons, dval_cons, hl']
    have hx := isDigit_toNat (ha x (by simp))
    have hy := isDigit_toNat (hb y (by simp))
    have hva := dval_lt a (fun c hc => ha c (List.mem_cons_of_mem _ hc))
    rw [hl'] at hva
    rcases List.cons_lt_cons_iff.mp h with h | ⟨rfl, h'⟩
    · have hxy : x.toNat < y.toNat := by
        have := Char.lt_def.mp h
        rw [UInt32.lt_iff_toNat_lt] at this
        exact this
      have : (x.toNat - 48) + 1 ≤ y.toNat - 48 := by omega
      have h10 : 10 ^ b.length * ((x.toNat - 48) + 1) ≤ 10 ^ b.length * (y.toNat - 48) := Nat.mul_le_mul_left _ this
      rw [Nat.mul_succ] at h10
      omega
    · have := dval_lt_of_lt a b hl' (fun c hc => ha c (List.mem_cons_of_mem _ hc))
        (fun c hc => hb c (List.mem_cons_of_mem _ hc)) h'
      omega

theorem chars_lt_trichotomy (a b : List Char) : a < b ∨ a = b ∨ b < a := by
  by_cases h1 : a < b
  · exact Or.inl h1
  · by_cases h2 : b < a
    · exact Or.inr (Or.inr h2)
    · exact Or.inr (Or.inl (List.le_antisymm (List.not_lt.mp h2) (List.not_lt.mp h1)))

theorem zfill_lt (i j z : Nat) (h : i < j) (hj : j < 10 ^ z) : zfill z i < zfill z j := by
  have hi : i < 10 ^ z := by omega
  have hz : 0 < z := by
    rcases Nat.eq_zero_or_pos z with rfl | hz
    · simp at hj; omega
    · exact hz
  have hl : (zfill z i).toList.length = (zfill z j).toList.length := by
    rw [String.length_toList, String.length_toList, zfill_length z i hz hi, zfill_length z j hz hj]
  rw [str_lt_iff]
  rcases chars_lt_trichotomy (zfill z i).toList (zfill z j).toList with h1 | h1 | h1
  · exact h1
  · have := zfill_inj (String.toList_inj.mp h1); omega
  · have := dval_lt_of_lt _ _ hl.symm (fun c hc => zfill_isDigit hc) (fun c hc => zfill_isDigit hc) h1
    show _ < _
    rw [show dval (zfill z j).toList = j from zfill_val z j, show dval (zfill z i).toList = i from zfill_val z i] at this
    omega

/-! ### the names of round files -/

theorem wTag_length (w : W) : (wTag w).toList.length = 6 := by cases w <;> rfl

theorem wTag_inj {w w' : W} (h : wTag w = wTag w') : w = w' := by
  cases w <;> cases w' <;> first | rfl | (exfalso; revert h; decide)

/-- the common shape of both kinds of names -/
def nameL (kind ext : List Char) (r : Nat) (L : String) (w : W) : List Char :=
  "round-".toList ++ (dg r ++ '-' :: (kind ++ (".label-".toList ++ (L.toList ++ '-' :: ((wTag w).toList ++ ext)))))

theorem bufName_toList (r : Nat) (L : String) (w : W) :
    (bufName r L w).toList = nameL "bufs".toList ".npy".toList r L w := by
  simp [bufName, suffixOf, String.toList_append, ToString.toString, nameL]

theorem idxName_toList (r : Nat) (L : String) (w : W) :
    (idxName r L w).toList = nameL "idxs".toList ".pkl".toList r L w := by
  simp [idxName, suffixOf, String.toList_append, ToString.toString, nameL]

theorem bufPrefix_toList (r : Nat) : (bufPrefix r).toList = "round-".toList ++ (dg r ++ '-' :: "bufs".toList) := by
  simp [bufPrefix, String.toList_append, ToString.toString]

theorem idxPrefix_toList (r : Nat) : (idxPrefix r).toList = "round-".toList ++ (dg r ++ '-' :: "idxs".toList) := by
  simp [idxPrefix, String.toList_append, ToString.toString]

theorem nameL_inj {kind ext : List Char} {r r' : Nat} {L L' : String} {w w' : W}
    (h : nameL kind ext r L w = nameL kind ext r' L' w') : r = r' ∧ L = L' ∧ w = w' := by
  unfold nameL at h
  have h1 := List.append_cancel_left h
  obtain ⟨hr, h2⟩ := append_cons_inj_of_not_mem (dash_not_mem_dg r) (dash_not_mem_dg r') h1
  have h3 := List.append_cancel_left (List.append_cancel_left h2)
  have hlen := congrArg List.length h3
  simp only [List.length_append, List.length_cons, wTag_length] at hlen
  obtain ⟨hL, h4⟩ := List.append_inj h3 (by omega)
  have h5 : (wTag w).toList ++ ext = (wTag w').toList ++ ext := by simpa using h4
  have h6 := List.append_cancel_right h5
  exact ⟨dg_inj hr, String.toList_inj.mp hL, wTag_inj (String.toList_inj.mp h6)⟩

theorem nameL_suffix (kind ext : List Char) (r : Nat) (L : String) (w : W) : ext <:+ nameL kind ext r L w := by
  unfold nameL
  refine ⟨"round-".toList ++ (dg r ++ '-' :: (kind ++ (".label-".toList ++ (L.toList ++ '-' :: (wTag w).toList)))), ?_⟩
  simp

theorem nameL_prefix (kind ext : List Char) (r : Nat) (L : String) (w : W) :
    "round-".toList ++ (dg r ++ '-' :: kind) <+: nameL kind ext r L w := by
  unfold nameL
  refine ⟨".label-".toList ++ (L.toList ++ '-' :: ((wTag w).toList ++ ext)), ?_⟩
  simp

/-- which names start with the prefix of round `r` and kind `kind'` -/
theorem nameL_prefix_iff (kind kind' ext : List Char) (hk : kind.length = kind'.length)
    (r r' : Nat) (L : String) (w : W) :
    "round-".toList ++ (dg r ++ '-' :: kind') <+: nameL kind ext r' L w ↔ r = r' ∧ kind' = kind := by
  constructor
  · intro h
    unfold nameL at h
    rw [List.prefix_append_right_inj] at h
    obtain ⟨hr, hp⟩ := append_cons_prefix_of_not_mem (dash_not_mem_dg r) (dash_not_mem_dg r') h
    refine ⟨dg_inj hr, ?_⟩
    have := List.prefix_of_prefix_length_le hp (List.prefix_append kind _) (by omega)
    exact this.eq_of_length hk.symm
  · rintro ⟨rfl, rfl⟩
    exact nameL_prefix _ _ _ _ _

theorem bufName_inj {r r' : Nat} {L L' : String} {w w' : W} (h : bufName r L w = bufName r' L' w') :
    r = r' ∧ L = L' ∧ w = w' := by
  have := congrArg String.toList h
  rw [bufName_toList, bufName_toList] at this
  exact nameL_inj this

theorem idxName_inj {r r' : Nat} {L L' : String} {w w' : W} (h : idxName r L w = idxName r' L' w') :
    r = r' ∧ L = L' ∧ w = w' := by
  have := congrArg String.toList h
  rw [idxName_toList, idxName_toList] at this
  exact nameL_inj this

theorem bufName_ne_idxName (r r' : Nat) (L L' : String) (w w' : W) : bufName r L w ≠ idxName r' L' w' := by
  intro h
  have := congrArg String.toList h
  rw [bufName_toList, idxName_toList] at this
  have h1 := nameL_suffix "bufs".toList ".npy".toList r L w
  have h2 := nameL_suffix "idxs".toList ".pkl".toList r' L' w'
  rw [← this] at h2
  have := suffix_eq_of_length h1 h2 rfl
  revert this; decide

/-! ### glob patterns, round files, final files -/

/-- `round-{r}-bufs*.npy` -/
def matchB (r : Nat) (n : String) : Bool := n.startsWith (bufPrefix r) && n.endsWith ".npy"
/-- `round-{r}-idxs*.pkl` -/
def matchI (r : Nat) (n : String) : Bool := n.startsWith (idxPrefix r) && n.endsWith ".pkl"

theorem matchB_iff (r : Nat) (n : String) :
    matchB r n = true ↔ ("round-".toList ++ (dg r ++ '-' :: "bufs".toList)) <+: n.toList ∧ ".npy".toList <:+ n.toList := by
  simp only [matchB, Bool.and_eq_true, startsWith_iff, endsWith_iff, bufPrefix_toList]

theorem matchI_iff (r : Nat) (n : String) :
    matchI r n = true ↔ ("round-".toList ++ (dg r ++ '-' :: "idxs".toList)) <+: n.toList ∧ ".pkl".toList <:+ n.toList := by
  simp only [matchI, Bool.and_eq_true, startsWith_iff, endsWith_iff, idxPrefix_toList]

theorem isRoundFile_iff (n : String) :
    isRoundFile n = true ↔ "round-".toList <+: n.toList ∧ (".npy".toList <:+ n.toList ∨ ".pkl".toList <:+ n.toList) := by
  simp only [isRoundFile, Bool.and_eq_true, Bool.or_eq_true, startsWith_iff, endsWith_iff]

theorem matchB_bufName (r r' : Nat) (L : String) (w : W) : matchB r (bufName r' L w) = true ↔ r = r' := by
  rw [matchB_iff, bufName_toList, nameL_prefix_iff _ _ _ rfl]
  exact ⟨fun h => h.1.1, fun h => ⟨⟨h, rfl⟩, nameL_suffix _ _ _ _ _⟩⟩

theorem matchI_idxName (r r' : Nat) (L : String) (w : W) : matchI r (idxName r' L w) = true ↔ r = r' := by
  rw [matchI_iff, idxName_toList, nameL_prefix_iff _ _ _ rfl]
  exact ⟨fun h => h.1.1, fun h => ⟨⟨h, rfl⟩, nameL_suffix _ _ _ _ _⟩⟩

theorem matchB_idxName (r r' : Nat) (L : String) (w : W) : matchB r (idxName r' L w) = false := by
  rw [← Bool.not_eq_true, matchB_iff, idxName_toList, nameL_prefix_iff "idxs".toList "bufs".toList _ (by decide)]
  rintro ⟨⟨_, h⟩, _⟩
  revert h; decide

theorem matchI_bufName (r r' : Nat) (L : String) (w : W) : matchI r (bufName r' L w) = false := by
  rw [← Bool.not_eq_true, matchI_iff, bufName_toList, nameL_prefix_iff "bufs".toList "idxs".toList _ (by decide)]
  rintro ⟨⟨_, h⟩, _⟩
  revert h; decide

theorem isRoundFile_of_matchB {r : Nat} {n : String} (h : matchB r n = true) : isRoundFile n = true := by
  rw [matchB_iff] at h
  rw [isRoundFile_iff]
  exact ⟨(List.prefix_append _ _).trans h.1, Or.inl h.2⟩

theorem isRoundFile_of_matchI {r : Nat} {n : String} (h : matchI r n = true) : isRoundFile n = true := by
  rw [matchI_iff] at h
  rw [isRoundFile_iff]
  exact ⟨(List.prefix_append _ _).trans h.1, Or.inr h.2⟩

theorem isRoundFile_bufName (r : Nat) (L : String) (w : W) : isRoundFile (bufName r L w) = true :=
  isRoundFile_of_matchB ((matchB_bufName r r L w).mpr rfl)

theorem isRoundFile_idxName (r : Nat) (L : String) (w : W) : isRoundFile (idxName r L w) = true :=
  isRoundFile_of_matchI ((matchI_idxName r r L w).mpr rfl)

theorem isFinalFile_iff (n : String) :
    isFinalFile n = true ↔ n = "clusters.pkl" ∨ n = "cluster-centroids-packed.pkl" ∨ n = "bitbirch.pkl" := by
  simp [isFinalFile, or_assoc]

/-- final files are not round files -/
theorem isRoundFile_of_isFinalFile {n : String} (h : isFinalFile n = true) : isRoundFile n = false := by
  rw [← Bool.not_eq_true, isRoundFile_iff]
  rcases (isFinalFile_iff n).mp h with rfl | rfl | rfl <;>
  · rintro ⟨h1, _⟩
    revert h1; decide

theorem isFinalFile_of_isRoundFile {n : String} (h : isRoundFile n = true) : isFinalFile n = false := by
  cases hf : isFinalFile n with
  | false => rfl
  | true => rw [isRoundFile_of_isFinalFile hf] at h; cases h

theorem isRoundFile_clusters : isRoundFile "clusters.pkl" = false :=
  isRoundFile_of_isFinalFile (by simp [isFinalFile])

theorem isRoundFile_centroids : isRoundFile "cluster-centroids-packed.pkl" = false :=
  isRoundFile_of_isFinalFile (by simp [isFinalFile])

/-! ### order of the names of one round -/

/-- the part of a name that decides the order within one round and kind -/
def keyL (L : String) (w : W) : List Char := L.toList ++ '-' :: (wTag w).toList

theorem nameL_eq_key (kind ext : List Char) (r : Nat) (L : String) (w : W) :
    nameL kind ext r L w = ("round-".toList ++ (dg r ++ '-' :: (kind ++ ".label-".toList))) ++ (keyL L w ++ ext) := by
  simp [nameL, keyL]

theorem keyL_length (L : String) (w : W) : (keyL L w).length = L.length + 7 := by
  rw [keyL, List.length_append, List.length_cons, wTag_length, String.length_toList]

theorem nameL_lt_iff (kind ext : List Char) (r : Nat) (L L' : String) (w w' : W) (hl : L.length = L'.length) :
    nameL kind ext r L w < nameL kind ext r L' w' ↔ keyL L w < keyL L' w' := by
  rw [nameL_eq_key, nameL_eq_key, append_lt_append_left_iff,
    append_lt_append_right_iff _ _ _ (by rw [keyL_length, keyL_length, hl])]

/-- buffer names and index names of one round are ordered alike (labels of equal length) -/
theorem bufName_lt_iff_idxName_lt (r : Nat) (L L' : String) (w w' : W) (hl : L.length = L'.length) :
    bufName r L w < bufName r L' w' ↔ idxName r L w < idxName r L' w' := by
  rw [str_lt_iff, str_lt_iff, bufName_toList, bufName_toList, idxName_toList, idxName_toList,
    nameL_lt_iff _ _ _ _ _ _ _ hl, nameL_lt_iff _ _ _ _ _ _ _ hl]

theorem bufName_le_iff_idxName_le (r : Nat) (L L' : String) (w w' : W) (hl : L.length = L'.length) :
    bufName r L w ≤ bufName r L' w' ↔ idxName r L w ≤ idxName r L' w' := by
  rw [← String.not_lt, ← String.not_lt, bufName_lt_iff_idxName_lt r L' L w' w hl.symm]

end BB.MR
