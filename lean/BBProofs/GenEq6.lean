/-
GenEq6 — the constructor of the sub-cluster object (`_BFSubcluster.__init__`, translated whole): from a saved buffer
(`buffer=`, what every round of the multi-round workflow and `_fit_buffers` do: the member list must have as many entries
as the stored count, the centroid is recomputed from the stored sums and the stored count — passed as a NumPy scalar of the
buffer's dtype), from one fingerprint (`linear_sum=`), and empty.
-/
import BBProofs.GenEq2

namespace BB
open PV

/-- `centroid_from_sum` with the count given as a NumPy unsigned scalar (as `__init__(buffer=...)` passes `buffer[-1]`) -/
theorem gen_centroid_packed_uns (expf : Rat → Rat) (w wn : W) (ls : List Nat) (n : Nat)
    (hk : ∀ k ∈ ls, k ≤ n) (hn : n < 2 ^ 53) :
    BBGen.centroid_from_sum expf (PV.arr w ls) (PV.uns wn n) (PV.bool true)
      = PV.arr .u8 (pack (centroidFromSum ls n)) := by
  have h := gen_centroid_packed expf w ls n hk hn
  unfold BBGen.centroid_from_sum at h ⊢
  have hle : PV.le (PV.uns wn n) (PV.int 1) = PV.le (PV.int n) (PV.int 1) := by
    simp [PV.le, PV.rel, PV.toNum, PV.cmpNum]
  have hmul : PV.mul (PV.uns wn n) (PV.flt (some ((1 : Rat) / 2))) = PV.mul (PV.int n) (PV.flt (some ((1 : Rat) / 2))) := by
    simp [PV.mul, PV.arith, PV.toNum, Num.toF]
  rw [hle, hmul]
  exact h

theorem ne_int_uns (i : Int) (w : W) (n : Nat) : PV.ne (PV.int i) (PV.uns w n) = PV.bool (decide (i ≠ (n : Int))) := by
  simp [PV.ne, PV.eq, PV.rel, PV.toNum, PV.cmpNum, PV.ordSat, PV.not, PV.truthy, ordEq_int]

/-- **re-import of a saved summary**: with `check_indices` the member list must have exactly the stored count of entries,
otherwise `ValueError` and no object; the object holds the buffer as it came (its dtype included), the centroid
recomputed from the stored sums and count, no child, and a copy of the member list -/
theorem gen_subcluster_init_buffer (expf : Rat → Rat) (w : W) (ls : List Nat) (n : Nat) (ids : List Nat)
    (wi : W) (nf : PV) (check : Bool) (hk : ∀ k ∈ ls, k ≤ n) (hn : n < 2 ^ 53) :
    BBGen._BFSubcluster_init expf PV.pynone (PV.arr wi ids) nf (PV.arr w (ls ++ [n])) (PV.bool check)
      = if check = true ∧ ids.length ≠ n
        then [PV.err "ValueError", PV.pynone, PV.pynone, PV.pynone, PV.pynone]
        else PV.pynone :: stateOf (Clu.ofBuffer w ls n ids) PV.pynone := by
  unfold BBGen._BFSubcluster_init
  have hidx : PV.indexLast (PV.arr w (ls ++ [n])) = PV.uns w n := by simp [PV.indexLast]
  have hsl : PV.sliceInit (PV.arr w (ls ++ [n])) = PV.arr w ls := by simp [PV.sliceInit]
  have hlen : PV.len (PV.arr wi ids) = PV.int ids.length := rfl
  simp only [hidx, hsl, hlen, ne_int_uns, gen_centroid_packed_uns expf w w ls n hk hn, PV.isNone, not_bool,
    Bool.not_false, Bool.not_true, iteLS_bool, if_true, Bool.false_eq_true, if_false, and_bool_bool, guardL_arr, guardL_none,
    PV.toList]
  by_cases hc : check = true ∧ ids.length ≠ n
  · obtain ⟨h1, h2⟩ := hc
    have : ((ids.length : Int) ≠ (n : Int)) := by exact_mod_cast h2
    simp [h1, h2, this]
  · have : (check && decide ((ids.length : Int) ≠ (n : Int))) = false := by
      rcases Bool.eq_false_or_eq_true check with h | h
      · have h2 : ¬ ids.length ≠ n := fun hne => hc ⟨h, hne⟩
        have : ¬ ((ids.length : Int) ≠ (n : Int)) := by
          intro hne; exact h2 (by exact_mod_cast hne)
        simp [this]
      · simp [h]
    simp [this, hc, stateOf, bufOf, Clu.ofBuffer]


theorem rowToNat_wrap_u8 (r : Row) : (rowToNat r).map (wrap .u8) = rowToNat r := by
  simp only [rowToNat, List.map_map]
  apply List.map_congr_left
  intro b _
  cases b <;> simp [wrap, W.bits]

theorem rowToNat_ne_zero (r : Row) : (rowToNat r).map (fun k => k != 0) = r := by
  simp only [rowToNat, List.map_map]
  conv_rhs => rw [← List.map_id r]
  apply List.map_congr_left
  intro b _
  cases b <;> simp

/-- **a new singleton**: `_BFSubcluster(linear_sum=fp, mol_indices=[label])` is the model's `Clu.ofRow` -/
theorem gen_subcluster_init_row (expf : Rat → Rat) (r : Row) (label : Nat) (wi : W) (nf : PV) (check : Bool) :
    BBGen._BFSubcluster_init expf (PV.arr .u8 (rowToNat r)) (PV.arr wi [label]) nf PV.pynone (PV.bool check)
      = PV.pynone :: stateOf (Clu.ofRow r label) PV.pynone := by
  unfold BBGen._BFSubcluster_init BBGen.pack_fingerprints
  have hlen : PV.len (PV.arr wi [label]) = PV.int 1 := rfl
  have hlen2 : PV.len (PV.arr .u8 (rowToNat r)) = PV.int (rowToNat r).length := rfl
  have hz : PV.npZeros (PV.add (PV.int (rowToNat r).length) (PV.int 1)) .u8
      = PV.arr .u8 (List.replicate ((rowToNat r).length + 1) 0) := by
    simp only [add_int_int, PV.npZeros]
    have : (0 : Int) ≤ ((rowToNat r).length : Int) + 1 := by omega
    simp only [this, if_true]
    congr 2
  have hset : PV.setInit (PV.arr .u8 (List.replicate ((rowToNat r).length + 1) 0)) (PV.arr .u8 (rowToNat r))
      = PV.arr .u8 (rowToNat r ++ [0]) := by
    simp only [PV.setInit, List.length_replicate, if_true, rowToNat_wrap_u8, List.drop_replicate]
    have : (rowToNat r).length + 1 - (rowToNat r).length = 1 := by omega
    rw [this]; rfl
  have hlast : PV.setLast (PV.arr .u8 (rowToNat r ++ [0])) (PV.int 1) = PV.arr .u8 (rowToNat r ++ [1]) := by
    have hne : rowToNat r ++ [0] ≠ [] := by simp
    simp [PV.setLast, hne, W.bits]
  have hpack : PV.packbits (PV.astype (PV.arr .u8 (rowToNat r)) .u8) = PV.arr .u8 (pack r) := by
    simp only [PV.astype, rowToNat_wrap_u8, PV.packbits, rowToNat_ne_zero]
  simp only [PV.isNone, not_bool, Bool.not_true, Bool.not_false, iteLS_bool, Bool.false_eq_true, if_false, if_true, hlen, hlen2,
    ne_int_int, and_bool_bool, hz, hset, hlast, hpack, guardL_arr, guardL_none, PV.toList]
  simp [stateOf, bufOf, Clu.ofRow]

end BB
