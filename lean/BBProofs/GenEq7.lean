/-
GenEq7 — the body of the `while True:` loop of `_memory.monitor_rss_process`, as translated on this run, performs on the
peak file exactly the model's `updateOps .rename v` when the sample exceeds the running maximum and nothing otherwise;
iterating it over a sample sequence yields the model's `writerOps .rename`.

The translation records the file effects of one iteration as a flat token list (`open p mode`, `write p parts…`,
`flush p`, `fsync p`, `close p`, `os.replace a b`) followed by the new running maximum.  `decode` reads the tokens that
concern `max-rss.txt` / `max-rss.txt.tmp` as the writer effects `WOp` of `BBModel/Monitor.lean`; the csv log (`file`,
opened in append mode) is not a peak file and is skipped, and `flush`/`fsync`/`close` have no effect a reader can see.
`total_rss()` (a closure over psutil), the clock and `_BYTES_TO_GIB` are inputs.
-/
import BBProofs.GenEq
import BBModel.Monitor

namespace BB
open PV BB.Mon

/-- the writer effects on the two peak-file names under `parent` that a flat effect-token list stands for; `key` names the
value written (the first part of the written text).  Every record starts with its tag, which fixes its length (`write`
carries the number of parts).  A `write` of a peak file is (pessimistically) two effects: an incomplete prefix, then the
full text.  An `open(final, "w")` would be the truncating protocol's `openFinal`.  An unknown tag ends the decoding. -/
def decodeEff (key : PV → Nat) (parent : String) (l : List PV) : List WOp :=
  match l with
  | PV.str "open" :: PV.str p :: PV.str m :: rest =>
    if m = "w" ∧ p = parent ++ "/" ++ "max-rss.txt.tmp" then WOp.openTmp :: decodeEff key parent rest
    else if m = "w" ∧ p = parent ++ "/" ++ "max-rss.txt" then WOp.openFinal :: decodeEff key parent rest
    else decodeEff key parent rest
  | PV.str "write" :: PV.str p :: PV.int k :: v :: rest =>
    if p = parent ++ "/" ++ "max-rss.txt.tmp" ∨ p = parent ++ "/" ++ "max-rss.txt" then
      WOp.writePartial :: WOp.writeFull (key v) :: decodeEff key parent (rest.drop (k.toNat - 1))
    else decodeEff key parent (rest.drop (k.toNat - 1))
  | PV.str "flush" :: _ :: rest => decodeEff key parent rest
  | PV.str "fsync" :: _ :: rest => decodeEff key parent rest
  | PV.str "close" :: _ :: rest => decodeEff key parent rest
  | PV.str "os.replace" :: PV.str a :: PV.str b :: rest =>
    if a = parent ++ "/" ++ "max-rss.txt.tmp" ∧ b = parent ++ "/" ++ "max-rss.txt" then
      WOp.renameTmp :: decodeEff key parent rest
    else decodeEff key parent rest
  | _ => []
termination_by l.length
decreasing_by all_goals (simp only [List.length_cons, List.length_drop]; omega)

/-- the peak-file tokens of one update with value `v` (rename protocol) -/
def peakTokens (parent : String) (v : PV) : List PV :=
  [PV.str "open", PV.str (parent ++ "/" ++ "max-rss.txt.tmp"), PV.str "w",
   PV.str "write", PV.str (parent ++ "/" ++ "max-rss.txt.tmp"), PV.int 2, v, PV.str "\n",
   PV.str "flush", PV.str (parent ++ "/" ++ "max-rss.txt.tmp"),
   PV.str "fsync", PV.str (parent ++ "/" ++ "max-rss.txt.tmp"),
   PV.str "close", PV.str (parent ++ "/" ++ "max-rss.txt.tmp"),
   PV.str "os.replace", PV.str (parent ++ "/" ++ "max-rss.txt.tmp"), PV.str (parent ++ "/" ++ "max-rss.txt")]

/-- the csv-log tokens of one iteration -/
def csvTokens (s t : PV) : List PV :=
  [PV.str "open", PV.str "file", PV.str "a",
   PV.str "write", PV.str "file", PV.int 4, s, PV.str ",", t, PV.str "\n",
   PV.str "flush", PV.str "file", PV.str "fsync", PV.str "file", PV.str "close", PV.str "file"]

/-- one iteration with a sample `s` above the running maximum `m`: csv line, then the complete update of the peak file
through the temporary name, and the maximum becomes `s` -/
theorem gen_monitor_loop_update (expf : Rat → Rat) (m s : Rat) (st iv bg clk raw : PV) (parent : String)
    (hs : PV.mul raw bg = PV.flt (some s)) (h : m < s) :
    BBGen.monitor_rss_process_loop expf (PV.flt (some m)) st iv bg (PV.str parent) clk raw
      = csvTokens (PV.flt (some s)) (PV.sub clk st) ++ peakTokens parent (PV.flt (some s)) ++ [PV.flt (some s)] := by
  unfold BBGen.monitor_rss_process_loop
  simp [hs, gt_flt_flt, fcmp, h, PV.pathJoin, csvTokens, peakTokens]

/-- one iteration with a sample not above the running maximum (or NaN): only the csv line, the maximum is unchanged -/
theorem gen_monitor_loop_keep (expf : Rat → Rat) (m : Rat) (s : Option Rat) (st iv bg clk raw : PV) (parent : String)
    (hs : PV.mul raw bg = PV.flt s) (h : ∀ x, s = some x → x ≤ m) :
    BBGen.monitor_rss_process_loop expf (PV.flt (some m)) st iv bg (PV.str parent) clk raw
      = csvTokens (PV.flt s) (PV.sub clk st) ++ [PV.flt (some m)] := by
  unfold BBGen.monitor_rss_process_loop
  cases s with
  | none => simp [hs, gt_flt_flt, fcmp, csvTokens]
  | some x =>
    have : ¬ m < x := not_lt.mpr (h x rfl)
    simp [hs, gt_flt_flt, fcmp, this, csvTokens]

/-- the token that stands for the csv log is not a path below `parent` -/
theorem file_ne (parent x : String) : "file" ≠ parent ++ "/" ++ x := by
  intro h
  have h1 : '/' ∈ ("file" : String).toList := by
    rw [h]; simp [String.toList_append]
  revert h1; decide

theorem decode_csv (key : PV → Nat) (parent : String) (s t : PV) (rest : List PV) :
    decodeEff key parent (csvTokens s t ++ rest) = decodeEff key parent rest := by
  simp [csvTokens, decodeEff, file_ne]

theorem decode_peak (key : PV → Nat) (parent : String) (v : PV) (rest : List PV) :
    decodeEff key parent (peakTokens parent v ++ rest) = updateOps .rename (key v) ++ decodeEff key parent rest := by
  simp [peakTokens, decodeEff, updateOps]

/-! ### the whole loop -/

/-- the effects of the loop over a sequence of iterations (each with its raw sample and clock reading), from the running
maximum `m`: every iteration is the GENERATED loop body; its last output is the next running maximum -/
def monitorRun (expf : Rat → Rat) (st iv bg parent : PV) : PV → List (PV × PV) → List PV
  | _, [] => []
  | m, (raw, clk) :: rest =>
    let out := BBGen.monitor_rss_process_loop expf m st iv bg parent clk raw
    out.dropLast ++ monitorRun expf st iv bg parent (out.getLastD m) rest

/-- the strict running maxima of a rational sample list above `m` (the model's `maxima`, over the floats' values) -/
def maximaR : Rat → List Rat → List Rat
  | _, [] => []
  | m, s :: ss => if m < s then s :: maximaR s ss else maximaR m ss

/-- the value key: position of a float among the naturals through `k` -/
def keyOf (k : Rat → Nat) : PV → Nat
  | PV.flt (some s) => k s
  | _ => 0

/-- the decoded peak-file effects of the generated loop over finite samples `ss` (iteration `i` reads a raw value whose
product with `_BYTES_TO_GIB` is the float `ss[i]`) are one complete rename-protocol update per strict running maximum -/
theorem gen_monitor_run (expf : Rat → Rat) (k : Rat → Nat) (st iv bg : PV) (parent : String)
    (its : List (PV × PV)) (ss : List Rat)
    (hs : List.Forall₂ (fun it s => PV.mul it.1 bg = PV.flt (some s)) its ss) :
    ∀ m : Rat,
      decodeEff (keyOf k) parent (monitorRun expf st iv bg (PV.str parent) (PV.flt (some m)) its)
        = (maximaR m ss).flatMap (fun s => updateOps .rename (k s)) := by
  induction hs with
  | nil => intro m; simp [monitorRun, maximaR, decodeEff]
  | @cons it s its ss h0 _ ih =>
      intro m
      obtain ⟨raw, clk⟩ := it
      have h0 : PV.mul raw bg = PV.flt (some s) := h0
      by_cases hms : m < s
      · have hb := gen_monitor_loop_update expf m s st iv bg clk raw parent h0 hms
        simp only [monitorRun, hb, maximaR, hms, if_true]
        rw [show (csvTokens (PV.flt (some s)) (PV.sub clk st) ++ peakTokens parent (PV.flt (some s)) ++ [PV.flt (some s)]).dropLast
              = csvTokens (PV.flt (some s)) (PV.sub clk st) ++ peakTokens parent (PV.flt (some s)) by
            rw [List.dropLast_concat]]
        rw [show (csvTokens (PV.flt (some s)) (PV.sub clk st) ++ peakTokens parent (PV.flt (some s)) ++ [PV.flt (some s)]).getLastD
              (PV.flt (some m)) = PV.flt (some s) by simp]
        rw [List.append_assoc, decode_csv, decode_peak, ih s]
        simp [keyOf]
      · have hb := gen_monitor_loop_keep expf m (some s) st iv bg clk raw parent h0
          (by intro x hx; cases hx; exact not_lt.mp hms)
        simp only [monitorRun, hb, maximaR, hms, if_false]
        rw [show (csvTokens (PV.flt (some s)) (PV.sub clk st) ++ [PV.flt (some m)]).dropLast
              = csvTokens (PV.flt (some s)) (PV.sub clk st) by rw [List.dropLast_concat]]
        rw [show (csvTokens (PV.flt (some s)) (PV.sub clk st) ++ [PV.flt (some m)]).getLastD (PV.flt (some m))
              = PV.flt (some m) by simp]
        rw [decode_csv, ih m]

/-- an order embedding of the values that occur carries the rational running maxima to the model's -/
theorem maximaR_map (k : Rat → Nat) :
    ∀ (ss : List Rat) (m : Rat), (∀ a ∈ m :: ss, ∀ b ∈ m :: ss, a < b ↔ k a < k b) →
      (maximaR m ss).map k = maxima (k m) (ss.map k) := by
  intro ss
  induction ss with
  | nil => intro m _; simp [maximaR, maxima]
  | cons s ss ih =>
    intro m hk
    have hms : m < s ↔ k m < k s := hk m (by simp) s (by simp)
    by_cases h : m < s
    · have h' : k m < k s := hms.mp h
      simp only [maximaR, h, if_true, List.map_cons, maxima, h']
      rw [ih s (fun a ha b hb => hk a (by simp at ha ⊢; tauto) b (by simp at hb ⊢; tauto))]
    · have h' : ¬ k m < k s := fun c => h (hms.mpr c)
      simp only [maximaR, h, if_false, List.map_cons, maxima, h']
      rw [ih m (fun a ha b hb => hk a (by simp at ha ⊢; tauto) b (by simp at hb ⊢; tauto))]

/-- rank of `s` among the values `univ`: how many distinct members are smaller -/
def rank (univ : List Rat) (s : Rat) : Nat := (univ.dedup.filter (· < s)).length

theorem rank_lt_iff (univ : List Rat) (a b : Rat) (ha : a ∈ univ) (_hb : b ∈ univ) :
    a < b ↔ rank univ a < rank univ b := by
  have hmono : ∀ (l : List Rat) (x y : Rat), x ≤ y → (l.filter (· < x)).length ≤ (l.filter (· < y)).length := by
    intro l x y hxy
    induction l with
    | nil => simp
    | cons c l ih =>
      by_cases h1 : c < x
      · have h2 : c < y := lt_of_lt_of_le h1 hxy
        simp [List.filter_cons, h1, h2, ih]
      · by_cases h2 : c < y <;> simp [List.filter_cons, h1, h2] <;> omega
  have hstrict : ∀ (l : List Rat) (x y : Rat), x < y → x ∈ l →
      (l.filter (· < x)).length < (l.filter (· < y)).length := by
    intro l x y hxy
    induction l with
    | nil => simp
    | cons c l ih =>
      intro hm
      by_cases hc : c = x
      · subst hc
        have := hmono l c y (le_of_lt hxy)
        simp [List.filter_cons, hxy]; omega
      · have hm' : x ∈ l := by
          rcases List.mem_cons.mp hm with h | h
          · exact absurd h.symm hc
          · exact h
        have := ih hm'
        by_cases h1 : c < x
        · have h2 : c < y := lt_trans h1 hxy
          simp [List.filter_cons, h1, h2]; omega
        · by_cases h2 : c < y <;> simp [List.filter_cons, h1, h2] <;> omega
  constructor
  · intro h
    exact hstrict univ.dedup a b h (List.mem_dedup.mpr ha)
  · intro h
    by_contra hn
    have := hmono univ.dedup b a (not_lt.mp hn)
    unfold rank at h
    omega

/-- THE WRITER OF THE CODE IS THE WRITER OF THE MODEL.  Run the generated loop body from the generated initial state over
any finite sequence of iterations whose samples (raw value × `_BYTES_TO_GIB`, as floats) are the non-negative `ss`.
Read as writer effects on `max-rss.txt` / `max-rss.txt.tmp`, what it does is `writerOps .rename` of the samples' ranks —
so every theorem about `run .rename` (C20) is a theorem about this code. -/
theorem gen_monitor_writer (expf : Rat → Rat) (st iv bg : PV) (parent : String)
    (its : List (PV × PV)) (ss : List Rat)
    (hs : List.Forall₂ (fun it s => PV.mul it.1 bg = PV.flt (some s)) its ss)
    (hpos : ∀ s ∈ ss, 0 ≤ s) :
    decodeEff (keyOf (rank (0 :: ss))) parent
        (monitorRun expf st iv bg (PV.str parent) (BBGen.monitor_rss_process_loop_init.headD PV.pynone) its)
      = writerOps .rename (ss.map (rank (0 :: ss))) := by
  have hinit : BBGen.monitor_rss_process_loop_init.headD PV.pynone = PV.flt (some 0) := by
    simp [BBGen.monitor_rss_process_loop_init]
  rw [hinit, gen_monitor_run expf (rank (0 :: ss)) st iv bg parent its ss hs 0]
  have hk := maximaR_map (rank (0 :: ss)) ss 0 (fun a ha b hb => rank_lt_iff (0 :: ss) a b ha hb)
  have h0 : rank (0 :: ss) 0 = 0 := by
    unfold rank
    rw [List.length_eq_zero_iff, List.filter_eq_nil_iff]
    intro x hx
    have hx' := List.mem_dedup.mp hx
    rcases List.mem_cons.mp hx' with h | h
    · simp [h]
    · simpa using hpos x h
  unfold writerOps
  rw [← h0, ← hk, List.flatMap_map]
