/-
The C++ kernels (`BBModel/Kernels.lean`) against the NumPy-side model
(`BBModel/Bits.lean`, `BBModel/Similarity.lean`).
-/
import BBModel.Kernels
import BBProofs.Bits
import BBProofs.Fl

namespace BB.Cxx

open BB

/-! ### wrapping accumulators -/

/-- an accumulator that is reduced mod `M` after every addition holds the sum mod `M` -/
theorem foldl_add_mod {α : Type _} (M : Nat) (f : α → Nat) (l : List α) :
    ∀ init, init < M → l.foldl (fun s x => (s + f x) % M) init = (init + (l.map f).sum) % M := by
  induction l with
  | nil => intro init h; simp [Nat.mod_eq_of_lt h]
  | cons x l ih =>
    intro init h
    have hM : 0 < M := by omega
    rw [List.foldl_cons, ih _ (Nat.mod_lt _ hM), List.map_cons, List.sum_cons, Nat.mod_add_mod,
      Nat.add_assoc]

theorem foldl_u32 {α : Type _} (f : α → Nat) (l : List α) :
    l.foldl (fun s x => u32 (s + f x)) 0 = (l.map f).sum % 2 ^ 32 := by
  have := foldl_add_mod (2 ^ 32) f l 0 (Nat.two_pow_pos 32)
  simpa [u32] using this

theorem foldl_u64 {α : Type _} (f : α → Nat) (l : List α) :
    l.foldl (fun s x => u64 (s + f x)) 0 = (l.map f).sum % 2 ^ 64 := by
  have := foldl_add_mod (2 ^ 64) f l 0 (Nat.two_pow_pos 64)
  simpa [u64] using this

theorem sum_map_mod (M : Nat) (f : Nat → Nat) (l : List Nat) :
    (l.map (fun k => f k % M)).sum % M = (l.map f).sum % M := by
  induction l with
  | nil => rfl
  | cons x l ih =>
    simp only [List.map_cons, List.sum_cons]
    rw [Nat.add_mod, ih, Nat.mod_mod, ← Nat.add_mod]

/-! ### popcount -/

theorem map_popNat_eq (bs : List Nat) (h : ∀ b ∈ bs, b < 256) :
    (bs.map popNat).sum = popBytes bs := by
  unfold popBytes
  congr 1
  exact List.map_congr_left (fun b hb => popNat_eq_popByte b (h b hb))

/-- both loops of `_popcount_1d` compute the byte-wise popcount mod 2^32, whatever the alignment -/
theorem popcount1d_eq (aligned : Bool) (bytes : List Nat) (h : ∀ b ∈ bytes, b < 256) :
    popcount1d aligned bytes = popBytes bytes % 2 ^ 32 := by
  unfold popcount1d
  split
  · rw [foldl_u32, words, List.map_map]
    have : (List.map (popNat ∘ wordOfBytes) (chunks 8 bytes)).sum = popWords bytes := rfl
    rw [this, popWords_eq_popBytes' bytes h]
  · rw [foldl_u32, map_popNat_eq bytes h]

theorem popBytes_le (bs : List Nat) : popBytes bs ≤ 8 * bs.length := by
  rw [popBytes_eq_count]
  calc _ ≤ (bs.flatMap bitsOfByte).length := List.count_le_length
    _ = _ := length_flatMap_bitsOfByte bs

theorem popcount2d_eq_mod (aligned : Bool) (rows : List (List Nat))
    (h : ∀ r ∈ rows, ∀ b ∈ r, b < 256) :
    popcount2d aligned rows = rows.map (fun r => popBytes r % 2 ^ 32) := by
  unfold popcount2d
  exact List.map_congr_left (fun r hr => popcount1d_eq aligned r (h r hr))

theorem popcount2d_eq (aligned : Bool) (rows : List (List Nat))
    (h : ∀ r ∈ rows, ∀ b ∈ r, b < 256) (hsz : ∀ r ∈ rows, popBytes r < 2 ^ 32) :
    popcount2d aligned rows = rows.map popBytes := by
  rw [popcount2d_eq_mod aligned rows h]
  exact List.map_congr_left (fun r hr => Nat.mod_eq_of_lt (hsz r hr))

/-! ### the lookup table and `unpack` -/

theorem byteToBits_eq : ∀ b, b < 256 → byteToBits b = (bitsOfByte b).map b2n := by
  decide +kernel

theorem rowToNat_eq (r : Row) : rowToNat r = r.map b2n := rfl

theorem flatMap_byteToBits (r : List Nat) (h : ∀ b ∈ r, b < 256) :
    r.flatMap byteToBits = (r.flatMap bitsOfByte).map b2n := by
  rw [List.map_flatMap]
  exact List.flatMap_congr (fun b hb => byteToBits_eq b (h b hb))

theorem take_flatMap_bitsOfByte (r : List Nat) :
    ∀ k, (r.take k).flatMap bitsOfByte = (r.flatMap bitsOfByte).take (8 * k) := by
  induction r with
  | nil => intro k; simp
  | cons b r ih =>
    intro k
    cases k with
    | zero => simp
    | succ k =>
      have e1 : List.take (8 * (k + 1)) (bitsOfByte b) = bitsOfByte b :=
        List.take_of_length_le (by rw [bitsOfByte_length]; omega)
      have e2 : 8 * (k + 1) - 8 = 8 * k := by omega
      rw [List.take_succ_cons, List.flatMap_cons, List.flatMap_cons, ih k, List.take_append,
        bitsOfByte_length, e1, e2]

theorem unpack_of_le (r : List Nat) (F : Nat) (h : F ≤ 8 * r.length) :
    unpack r F = (r.flatMap bitsOfByte).take F := by
  unfold unpack
  simp only [length_flatMap_bitsOfByte]
  rw [Nat.sub_eq_zero_of_le h, List.replicate_zero, List.append_nil]

theorem unpack2d_none (rows : List (List Nat)) (h : ∀ r ∈ rows, ∀ b ∈ r, b < 256) :
    unpack2d rows none = .ok (rows.map (fun r => rowToNat (unpack r (8 * r.length)))) := by
  unfold unpack2d
  simp only
  congr 1
  apply List.map_congr_left
  intro r hr
  rw [flatMap_byteToBits r (h r hr), unpack_full, rowToNat_eq]

theorem unpack2d_some (rows : List (List Nat)) (h : ∀ r ∈ rows, ∀ b ∈ r, b < 256) (F : Nat)
    (hF : F % 8 = 0) (hlen : ∀ r ∈ rows, F ≤ 8 * r.length) :
    unpack2d rows (some F) = .ok (rows.map (fun r => rowToNat (unpack r F))) := by
  unfold unpack2d
  have h1 : (F % 8 != 0) = false := by simp [hF]
  have h2 : rows.any (fun r => decide (r.length < F / 8)) = false := by
    rw [List.any_eq_false]
    intro r hr
    have := hlen r hr
    simp only [decide_eq_true_eq]
    omega
  simp only [h1, h2, Bool.false_eq_true, if_false]
  congr 1
  apply List.map_congr_left
  intro r hr
  have hb : ∀ b ∈ r.take (F / 8), b < 256 := fun b hb => h r hr b (List.mem_of_mem_take hb)
  have e : 8 * (F / 8) = F := by omega
  rw [flatMap_byteToBits _ hb, take_flatMap_bitsOfByte, e, unpack_of_le r F (hlen r hr),
    rowToNat_eq]

theorem unpack2d_rejects (rows : List (List Nat)) (F : Nat) (hF : F % 8 ≠ 0) :
    unpack2d rows (some F) = .error .throws := by
  unfold unpack2d
  have h1 : (F % 8 != 0) = true := by simp [hF]
  simp only [h1, if_true]

/-- the only undefined case: some row is shorter than `n_features / 8` bytes -/
theorem unpack2d_oob (rows : List (List Nat)) (F : Nat) (hF : F % 8 = 0)
    (hlen : ∃ r ∈ rows, 8 * r.length < F) : unpack2d rows (some F) = .error .oob := by
  unfold unpack2d
  have h1 : (F % 8 != 0) = false := by simp [hF]
  have h2 : rows.any (fun r => decide (r.length < F / 8)) = true := by
    rw [List.any_eq_true]
    obtain ⟨r, hr, hlt⟩ := hlen
    exact ⟨r, hr, by simp only [decide_eq_true_eq]; omega⟩
  simp only [h1, h2, Bool.false_eq_true, if_false, if_true]

/-! ### centroid -/

theorem packByte_b2n : ∀ a b c d e f g h : Bool,
    packByte [b2n a, b2n b, b2n c, b2n d, b2n e, b2n f, b2n g, b2n h]
      = byteOfBits [a, b, c, d, e, f, g, h] := by
  decide

theorem packByte_map (l : List Bool) (h : l.length = 8) : packByte (l.map b2n) = byteOfBits l := by
  match l, h with
  | [a, b, c, d, e, f, g, i], _ => exact packByte_b2n a b c d e f g i

/-- the packing loop of `centroid_from_sum` is `np.packbits` on whole bytes -/
theorem chunks_packByte (r : Row) (h : r.length % 8 = 0) :
    (chunks 8 (r.map b2n)).map packByte = pack r := by
  induction r using pack.induct with
  | case1 => simp [chunks_nil, pack_nil]
  | case2 b bs ih =>
    have hl : 8 ≤ (b :: bs).length := by
      have : 0 < (b :: bs).length := by simp
      omega
    have hd : ((b :: bs).drop 8).length % 8 = 0 := by
      rw [List.length_drop]; omega
    have ht : ((b :: bs).take 8).length = 8 := by
      rw [List.length_take]; omega
    rw [pack_cons, ← ih hd]
    have e : (b :: bs).map b2n = b2n b :: bs.map b2n := rfl
    rw [e, chunks_cons 8 _ _ (by decide), ← e, List.map_cons, ← List.map_take, ← List.map_drop,
      packByte_map _ ht]

theorem centroid_unpacked (ls : List Nat) (n : Nat) (hk : n ≤ 1 → ∀ k ∈ ls, k ≤ 1) :
    (if (n : Int) ≤ 1 then ls.map u8
      else ls.map (fun (k : Nat) => if (n : Int) ≤ 2 * (k : Int) then 1 else 0))
      = (BB.centroidFromSum ls n).map b2n := by
  unfold BB.centroidFromSum
  by_cases hn : n ≤ 1
  · have : (n : Int) ≤ 1 := by omega
    rw [if_pos this, if_pos hn, List.map_map]
    apply List.map_congr_left
    intro k hkm
    have := hk hn k hkm
    have hk01 : k = 0 ∨ k = 1 := by omega
    rcases hk01 with rfl | rfl <;> simp [u8, b2n]
  · have : ¬ (n : Int) ≤ 1 := by omega
    rw [if_neg this, if_neg hn, List.map_map]
    apply List.map_congr_left
    intro k _
    by_cases hle : n ≤ 2 * k
    · have : (n : Int) ≤ 2 * (k : Int) := by omega
      simp [b2n, hle, this]
    · have : ¬ (n : Int) ≤ 2 * (k : Int) := by omega
      simp [b2n, hle, this]

theorem centroid_unpacked_eq (ls : List Nat) (n : Nat) (hk : n ≤ 1 → ∀ k ∈ ls, k ≤ 1) :
    centroidFromSum ls n false = .ok (rowToNat (BB.centroidFromSum ls n)) := by
  unfold centroidFromSum
  simp only [Bool.not_false, if_true]
  rw [centroid_unpacked ls n hk, rowToNat_eq]

theorem centroid_packed_eq (ls : List Nat) (n : Nat) (hF : ls.length % 8 = 0)
    (hk : n ≤ 1 → ∀ k ∈ ls, k ≤ 1) :
    centroidFromSum ls n true = .ok (pack (BB.centroidFromSum ls n)) := by
  unfold centroidFromSum
  have h1 : (ls.length % 8 != 0) = false := by simp [hF]
  simp only [Bool.not_true, Bool.false_eq_true, if_false, h1]
  rw [centroid_unpacked ls n hk, chunks_packByte _ (by rw [centroidFromSum_length]; exact hF)]

theorem centroid_packed_oob (ls : List Nat) (n : Int) (hF : ls.length % 8 ≠ 0) :
    centroidFromSum ls n true = .error .oob := by
  unfold centroidFromSum
  have h1 : (ls.length % 8 != 0) = true := by simp [hF]
  simp only [Bool.not_true, Bool.false_eq_true, if_false, h1, if_true]

/-! ### iSIM -/

theorem fdiv_two_ofNat (x : Nat) : fdiv (ofNat x) 2 = ofNat x / 2 := by
  unfold fdiv ofNat
  rw [rnd_half, rnd_idem]

theorem isim_eq (ls : List Nat) (n : Nat) : isimFromSum ls n = BB.isimFromSum ls n := by
  have h1 : ls.foldl (fun s k => u64 (s + k)) 0 = u64 ls.sum := by
    have := foldl_u64 (fun k : Nat => k) ls
    simpa [u64] using this
  have h2 : ls.foldl (fun s k => u64 (s + u64 (k * k))) 0 = u64 (ls.map (fun k => k * k)).sum := by
    have := foldl_u64 (fun k : Nat => u64 (k * k)) ls
    rw [this]
    exact sum_map_mod (2 ^ 64) (fun k => k * k) ls
  unfold isimFromSum BB.isimFromSum
  simp only [h1, h2, fdiv_two_ofNat, Int.toNat_natCast]
  by_cases hn : n < 2
  · have : (n : Int) < 2 := by omega
    rw [if_pos this, if_pos hn]
  · have : ¬ (n : Int) < 2 := by omega
    rw [if_neg this, if_neg hn]

/-! ### `_jt_sim_arr_vec_packed` -/

theorem land_lt_256 {x y : Nat} (hx : x < 256) : Nat.land x y < 256 :=
  Nat.lt_of_le_of_lt (Nat.and_le_left (n := x) (m := y)) hx

theorem andBytes_lt (a b : List Nat) (ha : ∀ x ∈ a, x < 256) : ∀ x ∈ andBytes a b, x < 256 := by
  induction a generalizing b with
  | nil => simp [andBytes]
  | cons x a ih =>
    cases b with
    | nil => simp [andBytes]
    | cons y b =>
      intro z hz
      have e : andBytes (x :: a) (y :: b) = Nat.land x y :: andBytes a b := rfl
      rw [e] at hz
      rcases List.mem_cons.mp hz with rfl | hz
      · exact land_lt_256 (ha x (by simp))
      · exact ih b (fun w hw => ha w (by simp [hw])) z hz

theorem land_word_step (x y wa wb : Nat) (hx : x < 256) (hy : y < 256) :
    Nat.land (x + 256 * wa) (y + 256 * wb) = Nat.land x y + 256 * Nat.land wa wb := by
  show (x + 256 * wa) &&& (y + 256 * wb) = (x &&& y) + 256 * (wa &&& wb)
  have hxy : x &&& y < 2 ^ 8 := land_lt_256 hx
  have hx' : x < 2 ^ 8 := hx
  have hy' : y < 2 ^ 8 := hy
  have e1 : x + 256 * wa = 2 ^ 8 * wa + x := by omega
  have e2 : y + 256 * wb = 2 ^ 8 * wb + y := by omega
  have e3 : (x &&& y) + 256 * (wa &&& wb) = 2 ^ 8 * (wa &&& wb) + (x &&& y) := by omega
  rw [e1, e2, e3]
  apply Nat.eq_of_testBit_eq
  intro i
  rw [Nat.testBit_and, Nat.testBit_two_pow_mul_add _ hx', Nat.testBit_two_pow_mul_add _ hy',
    Nat.testBit_two_pow_mul_add _ hxy]
  split <;> simp [Nat.testBit_and]

/-- `&` of two words read through the uint64 view is the word of the byte-wise `&` -/
theorem land_wordOfBytes (a b : List Nat) (ha : ∀ x ∈ a, x < 256) (hb : ∀ x ∈ b, x < 256) :
    Nat.land (wordOfBytes a) (wordOfBytes b) = wordOfBytes (andBytes a b) := by
  induction a generalizing b with
  | nil =>
    show 0 &&& wordOfBytes b = 0
    simp
  | cons x a ih =>
    cases b with
    | nil =>
      show wordOfBytes (x :: a) &&& 0 = 0
      simp
    | cons y b =>
      have e1 : wordOfBytes (x :: a) = x + 256 * wordOfBytes a := rfl
      have e2 : wordOfBytes (y :: b) = y + 256 * wordOfBytes b := rfl
      have e3 : andBytes (x :: a) (y :: b) = Nat.land x y :: andBytes a b := rfl
      have e4 : wordOfBytes (Nat.land x y :: andBytes a b)
          = Nat.land x y + 256 * wordOfBytes (andBytes a b) := rfl
      rw [e1, e2, e3, e4, land_word_step _ _ _ _ (ha x (by simp)) (hb y (by simp)),
        ih b (fun w hw => ha w (by simp [hw])) (fun w hw => hb w (by simp [hw]))]

theorem words_nil : words [] = [] := by simp [words, chunks_nil]

theorem words_cons (x : Nat) (xs : List Nat) :
    words (x :: xs) = wordOfBytes ((x :: xs).take 8) :: words ((x :: xs).drop 8) := by
  simp [words, chunks_cons 8 x xs (by decide)]

/-- the word loop of `_calc_arr_vec_jt<uint64_t>` counts the same bits as the byte loop (no
assumption on the lengths: both stop at the shorter buffer) -/
theorem sum_words_land (x : List Nat) : ∀ y : List Nat, (∀ b ∈ x, b < 256) → (∀ b ∈ y, b < 256) →
    ((List.zipWith Nat.land (words x) (words y)).map popNat).sum = popBytes (andBytes x y) := by
  induction x using chunks.induct 8 with
  | case1 => intro y _ _; simp [words_nil, andBytes, popBytes]
  | case2 x xs hk => exact absurd hk (by decide)
  | case3 x xs _ ih =>
    intro y hx hy
    cases y with
    | nil => simp [words_nil, andBytes, popBytes]
    | cons y ys =>
      have hxt : ∀ b ∈ (x :: xs).take 8, b < 256 := fun b hb => hx b (List.mem_of_mem_take hb)
      have hyt : ∀ b ∈ (y :: ys).take 8, b < 256 := fun b hb => hy b (List.mem_of_mem_take hb)
      have hxd : ∀ b ∈ (x :: xs).drop 8, b < 256 := fun b hb => hx b (List.mem_of_mem_drop hb)
      have hyd : ∀ b ∈ (y :: ys).drop 8, b < 256 := fun b hb => hy b (List.mem_of_mem_drop hb)
      rw [words_cons x xs, words_cons y ys, List.zipWith_cons_cons, List.map_cons, List.sum_cons,
        ih _ hxd hyd, land_wordOfBytes _ _ hxt hyt,
        popNat_wordOfBytes _ (andBytes_lt _ _ hxt), ← popBytes_append]
      congr 1
      unfold andBytes
      rw [← List.take_zipWith, ← List.drop_zipWith, List.take_append_drop]

theorem interWords_eq (x y : List Nat) (hx : ∀ b ∈ x, b < 256) (hy : ∀ b ∈ y, b < 256) :
    interWords x y = popBytes (andBytes x y) % 2 ^ 32 := by
  unfold interWords
  rw [foldl_u32, sum_words_land x y hx hy]

theorem interBytes_eq (x y : List Nat) (hx : ∀ b ∈ x, b < 256) :
    interBytes x y = popBytes (andBytes x y) % 2 ^ 32 := by
  unfold interBytes
  rw [foldl_u32]
  have : List.zipWith Nat.land x y = andBytes x y := rfl
  rw [this, map_popNat_eq _ (andBytes_lt x y hx)]

/-- inclusion–exclusion: the union of two rows of one length has at most that many bits -/
theorem popc_union_le (a b : Row) (h : a.length = b.length) :
    popc a + popc b ≤ popc (andRow a b) + a.length := by
  induction a generalizing b with
  | nil => cases b with
    | nil => simp [andRow, popc]
    | cons _ _ => simp at h
  | cons x a ih =>
    cases b with
    | nil => simp at h
    | cons y b =>
      have := ih b (by simpa using h)
      simp only [andRow, popc] at this ⊢
      rw [List.zipWith_cons_cons, List.count_cons, List.count_cons, List.count_cons,
        List.length_cons]
      cases x <;> cases y <;> simp <;> omega

theorem zipWith_map_map {α β γ δ : Type _} (f : β → γ → δ) (p : α → β) (g : β → γ) (l : List α) :
    List.zipWith f (l.map p) ((l.map p).map g) = l.map (fun a => f (p a) (g (p a))) := by
  induction l with
  | nil => rfl
  | cons a l _ => simp

theorem u32AddSub_eq (i cx cy F : Nat) (hi : i ≤ cx) (hu : cx + cy ≤ i + F) (hF : F < 2 ^ 32) :
    u32AddSub cx cy i = cx + cy - i := by
  unfold u32AddSub u32
  generalize (2 : Nat) ^ 32 = M at hF ⊢
  have e : cx + cy + M - i = (cx + cy - i) + M := by omega
  rw [e, Nat.add_mod_right, Nat.mod_eq_of_lt (by omega)]

/-- `std::max(double(d), 1.0)` against `np.maximum(d, 1)` -/
theorem stdMax_cast (d : Nat) : stdMax (d : Rat) 1 = ((max d 1 : Nat) : Rat) := by
  unfold stdMax
  by_cases h0 : d = 0
  · subst h0
    rw [if_pos (by norm_num)]
    norm_num
  · have h1 : 1 ≤ d := Nat.pos_of_ne_zero h0
    have h1' : ¬ ((d : Rat) < 1) := by
      rw [not_lt]; exact_mod_cast h1
    rw [if_neg h1', Nat.max_eq_left h1]

/-- the quotient of `_calc_arr_vec_jt` for one row, on counts -/
theorem quot_eq (i cx cy F : Nat) (hi : i ≤ cx) (hu : cx + cy ≤ i + F) (hF : F < 2 ^ 32) :
    quotient i cx cy = jtCounts i cx cy := by
  unfold quotient
  rw [u32AddSub_eq i cx cy F hi hu hF, stdMax_cast]
  rfl

theorem popcount1d_pack (a : Bool) (r : Row) (F : Nat) (hr : r.length = F) (hF : F < 2 ^ 32) :
    popcount1d a (pack r) = popc r := by
  rw [popcount1d_eq a _ (pack_lt r), popBytes_pack]
  exact Nat.mod_eq_of_lt (lt_of_le_of_lt (hr ▸ popc_le_length r) hF)

/-- one row of `_calc_arr_vec_jt`, either instantiation -/
theorem rowSim_eq (fast : Bool) (x y : Row) (F : Nat) (hx : x.length = F) (hy : y.length = F)
    (hF : F < 2 ^ 32) : rowSim fast (popc y) (pack y) (pack x) (popc x) = jtBits x y := by
  have hand : popBytes (andBytes (pack x) (pack y)) % 2 ^ 32 = popc (andRow x y) := by
    rw [andBytes_pack x y (by rw [hx, hy]), popBytes_pack]
    exact Nat.mod_eq_of_lt (lt_of_le_of_lt
      (le_trans (popc_andRow_le_left x y) (hx ▸ popc_le_length x)) hF)
  unfold rowSim
  rw [interWords_eq _ _ (pack_lt x) (pack_lt y), interBytes_eq _ _ (pack_lt x), ite_self, hand]
  unfold jtBits
  exact quot_eq _ _ _ F (popc_andRow_le_left x y)
    (by have := popc_union_le x y (by rw [hx, hy]); omega) hF

/-- `jt_sim_packed_precalc_cardinalities` with the cardinalities of `_popcount_2d`, any
combination of alignments -/
theorem precalc_eq (aX aY aC : Bool) (X : List Row) (y : Row) (F : Nat)
    (hX : ∀ x ∈ X, x.length = F) (hy : y.length = F) (hF : F < 2 ^ 32) :
    precalc aX aY (X.map pack) (pack y) (popcount2d aC (X.map pack)) = .ok (jtArrVec X y) := by
  unfold precalc
  have hany : (X.map pack).any (fun x => x.length != (pack y).length) = false := by
    rw [List.any_eq_false]
    intro p hp
    obtain ⟨x, hx, rfl⟩ := List.mem_map.mp hp
    simp [pack_length, hX x hx, hy]
  rw [hany, if_neg (by simp)]
  have key : ∀ (fast : Bool), ∀ x ∈ X,
      rowSim fast (popcount1d aY (pack y)) (pack y) (pack x) (popcount1d aC (pack x))
        = jtBits x y := by
    intro fast x hx
    rw [popcount1d_pack aY y F hy hF, popcount1d_pack aC x F (hX x hx) hF]
    exact rowSim_eq _ x y F (hX x hx) hy hF
  unfold popcount2d jtArrVec
  rw [zipWith_map_map]
  exact congrArg Except.ok (List.map_congr_left (key _))

theorem arrVecG_eq (aX aY : Bool) (X : List Row) (y : Row) (F : Nat)
    (hX : ∀ x ∈ X, x.length = F) (hy : y.length = F) (hF : F < 2 ^ 32) :
    arrVecG aX aY (X.map pack) (pack y) = .ok (jtArrVec X y) :=
  precalc_eq aX aY aX X y F hX hy hF

/-- the check of `jt_sim_packed_precalc_cardinalities` -/
theorem precalc_throws (aX aY : Bool) (X : List (List Nat)) (y card : List Nat)
    (h : ∃ x ∈ X, x.length ≠ y.length) : precalc aX aY X y card = .error .throws := by
  unfold precalc
  have hany : X.any (fun x => x.length != y.length) = true := by
    rw [List.any_eq_true]
    obtain ⟨x, hx, hne⟩ := h
    exact ⟨x, hx, by simp [hne]⟩
  simp only [hany, if_true]

/-! ### `jt_most_dissimilar_packed` -/

theorem zipWith_u64_eq_addLs (A B : List Nat) (hl : A.length = B.length)
    (hb : ∀ i, A.getD i 0 + B.getD i 0 < 2 ^ 64) :
    List.zipWith (fun s b => u64 (s + b)) A B = addLs A B := by
  induction A generalizing B with
  | nil =>
    cases B with
    | nil => rfl
    | cons _ _ => simp at hl
  | cons a A ih =>
    cases B with
    | nil => simp at hl
    | cons b B =>
      rw [List.zipWith_cons_cons, addLs_cons_cons, ih B (by simpa using hl)
        (fun i => by simpa using hb (i + 1))]
      have h0 : a + b < 2 ^ 64 := by simpa using hb 0
      rw [u64, Nat.mod_eq_of_lt h0]

theorem addLs_replicate_zero (n : Nat) (B : List Nat) (h : B.length ≤ n) :
    (addLs (List.replicate n 0) B).length = n ∧
      ∀ i, (addLs (List.replicate n 0) B).getD i 0 = B.getD i 0 := by
  refine ⟨by rw [addLs_length, List.length_replicate]; omega, fun i => ?_⟩
  rw [addLs_getD]
  have : (List.replicate n 0).getD i 0 = 0 := by
    simp only [List.getD_eq_getElem?_getD, List.getElem?_replicate]
    split <;> rfl
  omega

theorem list_ext_getD (A B : List Nat) (hl : A.length = B.length)
    (h : ∀ i, A.getD i 0 = B.getD i 0) : A = B := by
  apply List.ext_getElem hl
  intro i h1 h2
  have := h i
  simpa [List.getD_eq_getElem?_getD, List.getElem?_eq_getElem h1, List.getElem?_eq_getElem h2]
    using this

theorem colSum_length_le (rows : List Row) (F : Nat) (hF : ∀ r ∈ rows, r.length = F) :
    (colSum rows).length ≤ F := by
  by_cases h : rows = []
  · subst h; simp [colSum_nil]
  · rw [colSum_length rows F hF h]

/-- the uint64 column-sum loop on the unpacked rows gives the column sums (padded to `F`
columns when there is no row) -/
theorem addRowsU64_eq (F : Nat) (Y : List Row) (hF : ∀ r ∈ Y, r.length = F)
    (hN : Y.length < 2 ^ 64) :
    addRowsU64 F (Y.map rowToNat) = addLs (List.replicate F 0) (colSum Y) := by
  induction Y using List.reverseRecOn with
  | nil => simp [addRowsU64, colSum_nil, addLs_nil_right]
  | append_singleton Y r ih =>
    have hF' : ∀ r ∈ Y, r.length = F := fun x hx => hF x (by simp [hx])
    have hN' : Y.length < 2 ^ 64 := by
      have : (Y ++ [r]).length = Y.length + 1 := by simp
      rw [this] at hN
      exact Nat.lt_of_succ_lt hN
    have ih' := ih hF' hN'
    unfold addRowsU64 at ih' ⊢
    rw [List.map_append, List.foldl_append, ih', List.map_singleton, List.foldl_cons,
      List.foldl_nil, colSum_snoc, ← addLs_assoc]
    obtain ⟨hlen, hget⟩ := addLs_replicate_zero F (colSum Y) (colSum_length_le Y F hF')
    apply zipWith_u64_eq_addLs
    · rw [hlen, rowToNat_length, hF r (by simp)]
    · intro i
      rw [hget i, rowToNat_getD]
      have := colSum_getD_le Y i
      have hlen1 : (Y ++ [r]).length = Y.length + 1 := by simp
      rw [hlen1] at hN
      generalize (2 : Nat) ^ 64 = M at hN ⊢
      split <;> omega

theorem addRowsU64_colSum (F : Nat) (Y : List Row) (hF : ∀ r ∈ Y, r.length = F) (hne : Y ≠ [])
    (hN : Y.length < 2 ^ 64) : addRowsU64 F (Y.map rowToNat) = colSum Y := by
  rw [addRowsU64_eq F Y hF hN]
  have hl := colSum_length Y F hF hne
  obtain ⟨hlen, hget⟩ := addLs_replicate_zero F (colSum Y) (le_of_eq hl)
  exact list_ext_getD _ _ (by rw [hlen, hl]) hget

theorem getD_map_pack (Y : List Row) (i : Nat) : (Y.map pack).getD i [] = pack (Y.getD i []) := by
  simp only [List.getD_eq_getElem?_getD, List.getElem?_map]
  cases Y[i]? <;> simp [pack_nil]

theorem getD_length (Y : List Row) (F : Nat) (hF : ∀ r ∈ Y, r.length = F) (i : Nat)
    (hi : i < Y.length) : (Y.getD i []).length = F := by
  have : Y.getD i [] = Y[i] := by
    simp [List.getD_eq_getElem?_getD, List.getElem?_eq_getElem hi]
  rw [this]
  exact hF _ (List.getElem_mem hi)

theorem jtArrVec_length (X : List Row) (y : Row) : (jtArrVec X y).length = X.length := by
  simp [jtArrVec]

theorem bind_ok {ε α β : Type _} (a : α) (f : α → Except ε β) : (Except.ok a >>= f) = f a := rfl

theorem bind_error {ε α β : Type _} (e : ε) (f : α → Except ε β) :
    ((Except.error e : Except ε α) >>= f) = .error e := rfl

/-- everything after the unpacking -/
theorem dissimCore_eq (aY aC a1 a2 : Bool) (Y : List Row) (F : Nat) (hF8 : F % 8 = 0)
    (hF : ∀ r ∈ Y, r.length = F) (hne : Y ≠ []) (hF32 : F < 2 ^ 32) (hN : Y.length < 2 ^ 64) :
    dissimCore aY aC a1 a2 (Y.map pack) F (Y.map rowToNat) = .ok (BB.mostDissimilar Y) := by
  have hcent : centroidFromSum (colSum Y) ((Y.map pack).length : Int) true
      = .ok (pack (BB.centroidFromSum (colSum Y) Y.length)) := by
    rw [List.length_map]
    apply centroid_packed_eq
    · rw [colSum_length Y F hF hne]; exact hF8
    · intro hn1 k hk
      obtain ⟨i, hi, rfl⟩ := List.getElem_of_mem hk
      have := colSum_getD_le Y i
      have e : (colSum Y).getD i 0 = (colSum Y)[i] := by
        simp [List.getD_eq_getElem?_getD, List.getElem?_eq_getElem hi]
      rw [e] at this
      omega
  have hnepos : 0 < Y.length := List.length_pos_iff.mpr hne
  have hclen := centroid_length Y F hF hne
  have hi2 : ∀ v : Row, argminFirst (jtArrVec Y v) < Y.length := by
    intro v
    have := argminFirst_lt (jtArrVec Y v)
      (List.ne_nil_of_length_pos (by rw [jtArrVec_length]; exact hnepos))
    rwa [jtArrVec_length] at this
  unfold dissimCore
  rw [addRowsU64_colSum F _ hF hne hN, hcent, bind_ok,
    precalc_eq aY aC aY _ _ F hF hclen hF32, bind_ok,
    getD_map_pack, precalc_eq aY a1 aY _ _ F hF (getD_length _ F hF _ (hi2 _)) hF32, bind_ok,
    getD_map_pack, precalc_eq aY a2 aY _ _ F hF (getD_length _ F hF _ (hi2 _)) hF32, bind_ok]
  rfl

theorem isEmpty_map_pack (Y : List Row) (hne : Y ≠ []) : (Y.map pack).isEmpty = false := by
  cases Y with
  | nil => exact absurd rfl hne
  | cons _ _ => rfl

theorem pack_length_of_mod (r : Row) (F : Nat) (hF8 : F % 8 = 0) (hr : r.length = F) :
    8 * (pack r).length = F := by
  rw [pack_length, hr]; omega

theorem mostDissimilarG_eq (aY aC a1 a2 : Bool) (Y : List Row) (F : Nat) (hF8 : F % 8 = 0)
    (hF : ∀ r ∈ Y, r.length = F) (hne : Y ≠ []) (hF32 : F < 2 ^ 32) (hN : Y.length < 2 ^ 64) :
    mostDissimilarG aY aC a1 a2 (Y.map pack) (some F) = .ok (BB.mostDissimilar Y) := by
  have hunp : unpack2d (Y.map pack) (some F) = .ok (Y.map rowToNat) := by
    rw [unpack2d_some (Y.map pack)
      (fun p hp => by obtain ⟨r, _, rfl⟩ := List.mem_map.mp hp; exact pack_lt r) F hF8
      (fun p hp => by
        obtain ⟨r, hr, rfl⟩ := List.mem_map.mp hp
        rw [pack_length_of_mod r F hF8 (hF r hr)])]
    rw [List.map_map]
    congr 1
    apply List.map_congr_left
    intro r hr
    show rowToNat (unpack (pack r) F) = rowToNat r
    rw [← hF r hr, unpack_pack]
  unfold mostDissimilarG
  rw [hunp, bind_ok, isEmpty_map_pack Y hne, if_neg (by simp), Option.getD_some]
  exact dissimCore_eq aY aC a1 a2 Y F hF8 hF hne hF32 hN

/-- without `n_features` the C++ takes `n_features = 8 * n_bytes` -/
theorem mostDissimilarG_none (aY aC a1 a2 : Bool) (Y : List Row) (F : Nat) (hF8 : F % 8 = 0)
    (hF : ∀ r ∈ Y, r.length = F) (hne : Y ≠ []) (hF32 : F < 2 ^ 32) (hN : Y.length < 2 ^ 64) :
    mostDissimilarG aY aC a1 a2 (Y.map pack) none = .ok (BB.mostDissimilar Y) := by
  have hunp : unpack2d (Y.map pack) none = .ok (Y.map rowToNat) := by
    rw [unpack2d_none (Y.map pack)
      (fun p hp => by obtain ⟨r, _, rfl⟩ := List.mem_map.mp hp; exact pack_lt r)]
    rw [List.map_map]
    congr 1
    apply List.map_congr_left
    intro r hr
    show rowToNat (unpack (pack r) (8 * (pack r).length)) = rowToNat r
    rw [pack_length_of_mod r F hF8 (hF r hr), ← hF r hr, unpack_pack]
  have hhead : ((Y.map pack).headD []).length * 8 = F := by
    cases Y with
    | nil => exact absurd rfl hne
    | cons y0 Y' =>
      have := pack_length_of_mod y0 F hF8 (hF y0 (by simp))
      simp only [List.map_cons, List.headD_cons]
      omega
  unfold mostDissimilarG
  rw [hunp, bind_ok, isEmpty_map_pack Y hne, if_neg (by simp), Option.getD_none, hhead]
  exact dissimCore_eq aY aC a1 a2 Y F hF8 hF hne hF32 hN

/-- the C++ rejects every `n_features` that is not a multiple of 8 (the NumPy fallback accepts
them) -/
theorem mostDissimilarG_rejects (aY aC a1 a2 : Bool) (Y : List (List Nat)) (F : Nat)
    (hF : F % 8 ≠ 0) : mostDissimilarG aY aC a1 a2 Y (some F) = .error .throws := by
  unfold mostDissimilarG
  rw [unpack2d_rejects Y F hF, bind_error]

end BB.Cxx
