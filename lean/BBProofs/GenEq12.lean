/-
GenEq12 — `multiround._get_files_range_tuples`, as translated on this run (a `for i, file in enumerate(files)` loop with a
running index), against the model's `fileTuples`: the task label of file `i` is `str(i).zfill(len(str(len(files))))`, its
global index range starts where the previous file's range ends, the first at 0.  Files are handles; the number of rows of a
file (`_get_fps_file_num(file)`, read from the file header) is an input list.
-/
import BBProofs.GenEq
import BBModel.Multiround

namespace BB
open PV BB.MR

/-- the flat list `label, file, start, end` per file, from position `i` and running index `s` -/
def tuplesFrom (z : Nat) : Nat → Nat → List (Nat × Nat) → List PV
  | _, _, [] => []
  | i, s, (h, c) :: r => [PV.str (zfill z i), PV.int h, PV.int s, PV.int ((s + c : Nat) : Int)] ++ tuplesFrom z (i + 1) (s + c) r

theorem fold_tuples (z : Nat) (cs : List Nat) (f : List PV × List PV → Nat × Nat → List PV × List PV)
    (hstep : ∀ (i h run : Nat) (acc : List PV) (hi : i < cs.length),
      f ([PV.int run], acc) (h, i) = ([PV.int ((run + cs[i] : Nat) : Int)],
        acc ++ [PV.str (zfill z i), PV.int h, PV.int run, PV.int ((run + cs[i] : Nat) : Int)])) :
    ∀ (hs : List Nat) (k run : Nat) (acc : List PV), k + hs.length = cs.length →
      ((hs.zipIdx k).foldl f ([PV.int run], acc)).2 = acc ++ tuplesFrom z k run (hs.zip (cs.drop k)) := by
  intro hs
  induction hs with
  | nil => intro k run acc _; simp [tuplesFrom]
  | cons h hs ih =>
    intro k run acc hk
    have hkl : k < cs.length := by simp at hk; omega
    rw [List.zipIdx_cons, List.foldl_cons, hstep k h run acc hkl, ih (k + 1) (run + cs[k]) _ (by simp at hk ⊢; omega)]
    have hd : cs.drop k = cs[k] :: cs.drop (k + 1) := (List.drop_eq_getElem_cons hkl)
    rw [hd, List.zip_cons_cons, tuplesFrom]
    simp [List.append_assoc]

/-- the code's list of task tuples -/
theorem gen_file_tuples (expf : Rat → Rat) (hs cs : List Nat) (hlen : hs.length = cs.length) :
    BBGen._get_files_range_tuples expf (PV.arr .big hs) (PV.arr .big cs)
      = tuplesFrom (toString hs.length).length 0 0 (hs.zip cs) := by
  unfold BBGen._get_files_range_tuples
  simp only [PV.forEnum]
  refine (fold_tuples (toString hs.length).length cs _ ?hstep hs 0 0 [] ?hl).trans ?fin
  case hl => simpa using hlen
  case fin => simp
  case hstep =>
    intro i h run acc hi
    have h0 : ¬ ((i : Int) < 0) := by omega
    have hget : cs[i]? = some cs[i] := by simp [hi]
    have hz : String.ofList (List.replicate ((toString ((hs.length : Nat) : Int)).length - (toString ((i : Nat) : Int)).length) '0')
        ++ toString ((i : Nat) : Int) = MR.zfill (toString hs.length).length i := rfl
    simp only [PV.getAt, PV.zfill, PV.strOf, PV.lenStr, PV.len, h0, if_false, Int.toNat_natCast, Int.natCast_nonneg, if_true,
      hget, List.getD_cons_zero, add_int_int, hz, Nat.cast_add]

/-! ### the model's `fileTuples` -/

/-- running start indices -/
def startsFrom {α : Type} : Nat → List (List α) → List Nat
  | _, [] => []
  | s, f :: r => s :: startsFrom (s + f.length) r

theorem foldl_starts {α : Type} (files : List (List α)) :
    ∀ (pre : List Nat) (s : Nat),
      (files.foldl (fun (acc : List Nat × Nat) f => (acc.1 ++ [acc.2], acc.2 + f.length)) (pre, s)).1
        = pre ++ startsFrom s files := by
  induction files with
  | nil => intro pre s; simp [startsFrom]
  | cons f r ih => intro pre s; simp [List.foldl_cons, ih, startsFrom]

theorem fileTuples_eq (files : List (List Row)) :
    fileTuples files = ((files.zip (startsFrom 0 files)).zipIdx.map
      (fun x => (zfill (toString files.length).length x.2, x.1.1, x.1.2))) := by
  unfold fileTuples
  simp only [foldl_starts files [] 0, List.nil_append]

theorem tuples_of_model (z : Nat) (files : List (List Row)) :
    ∀ (hs : List Nat) (k s : Nat), hs.length = files.length →
      tuplesFrom z k s (hs.zip (files.map List.length))
        = ((((files.zip (startsFrom s files)).zipIdx k).map (fun x => (zfill z x.2, x.1.1, x.1.2))).zip hs).flatMap
            (fun t => [PV.str t.1.1, PV.int t.2, PV.int t.1.2.2, PV.int ((t.1.2.2 + t.1.2.1.length : Nat) : Int)]) := by
  induction files with
  | nil => intro hs k s h; cases hs <;> simp_all [tuplesFrom, startsFrom]
  | cons f r ih =>
    intro hs k s h
    cases hs with
    | nil => simp at h
    | cons x xs =>
      simp only [List.map_cons, List.zip_cons_cons, tuplesFrom, startsFrom, List.zipIdx_cons, List.flatMap_cons]
      rw [ih xs (k + 1) (s + f.length) (by simpa using h)]

/-- THE CODE'S TASK TUPLES ARE THE MODEL'S: label, start (and end = start + rows) of every input file as `fileTuples`
computes them, file `i` being the handle `hs[i]` -/
theorem gen_file_tuples_model (expf : Rat → Rat) (files : List (List Row)) (hs : List Nat) (hlen : hs.length = files.length) :
    BBGen._get_files_range_tuples expf (PV.arr .big hs) (PV.arr .big (files.map List.length))
      = ((fileTuples files).zip hs).flatMap
          (fun t => [PV.str t.1.1, PV.int t.2, PV.int t.1.2.2, PV.int ((t.1.2.2 + t.1.2.1.length : Nat) : Int)]) := by
  rw [gen_file_tuples expf hs (files.map List.length) (by simpa using hlen), fileTuples_eq,
    tuples_of_model _ files hs 0 0 hlen, hlen]

end BB
