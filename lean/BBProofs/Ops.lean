/-
Estimator core, part 4b: the invariant of the estimator state machine and its
preservation by every operation.  The invariant is generic in a per-cluster predicate `Q`
(instantiated with "true", "exact summary", "threshold bound" by the property files) that
is closed under the merges accepted by the configurations in force (`CfgIn`).
-/
import BBProofs.OpsAux
import BBProofs.Bits
import Mathlib.Data.List.TakeWhile

namespace BB

/-- the invariant of an estimator state for feature count `F` and cluster predicate `Q` -/
structure EInv (F : Nat) (Q : Clu → Prop) (e : Est) : Prop where
  bf : 2 ≤ e.cfg.bf
  ok : e.st.OK
  fF : ∀ F', e.st.F? = some F' → F' = F
  lsLen : ∀ c ∈ e.st.lclusM, c.ls.length = F
  part : idsOf e.st.lclusM = ((List.range e.numFitted : List Nat) : Multiset Nat)
  q : ∀ c ∈ e.st.lclusM, Q c

theorem merge_ls_length (c s : Clu) (F : Nat) (hc : c.ls.length = F) (hs : s.ls.length = F) :
    (c.merge s).ls.length = F := by
  simp [Clu.merge, Clu.mergedSummary, addLs_length, hc, hs]

theorem card_idsOf (M : Multiset Clu) : Multiset.card (idsOf M) = (M.map (fun c => c.ids.length)).sum := by
  induction M using Multiset.induction_on with
  | empty => simp
  | cons a M ih =>
    rw [← Multiset.singleton_add, idsOf_add, Multiset.card_add, ih]
    simp

variable (pol : Cfg → Policy)

/-- `_fit_buffers` on a non-empty batch of well-formed units -/
theorem fitBuffers_spec (P : Policy) (hP : P.Valid) (F : Nat) (e : Est) (units : List Clu)
    (hbf : 1 ≤ e.cfg.bf) (hok : e.st.OK) (hlo : e.st.isLeavesOnly = false)
    (hF : ∀ F', e.st.F? = some F' → F' = F) (hne : units ≠ [])
    (hlen : ∀ u ∈ units, u.ls.length = F) :
    ∃ e', fitBuffers P e units = (e', none) ∧ e'.cfg = e.cfg ∧ e'.st.OK ∧ e'.st.isLeavesOnly = false ∧
      e'.st.F? = some F ∧ e'.numFitted = e.numFitted + (units.map (·.ids.length)).sum ∧
      MC P.acc (e.st.lclusM + (units : Multiset Clu)) e'.st.lclusM := by
  obtain ⟨u0, us, rfl⟩ := List.exists_cons_of_ne_nil hne
  have hu0 : u0.ls.length = F := hlen u0 (by simp)
  have hFF : (e.st.F?).getD u0.ls.length = F := by
    cases h : e.st.F? with
    | none => simpa using hu0
    | some F' => simpa using hF F' h
  obtain ⟨st', h1, hok', hlo', hF', _, hmc⟩ :=
    fitUnits_spec P hP e.cfg.bf hbf F (u0 :: us) e.st e.numFitted hok hlo
  refine ⟨{ e with st := st', numFitted := e.numFitted + (((u0 :: us).map (·.ids.length)).sum) }, ?_, rfl, hok', hlo', ?_, rfl, hmc⟩
  · rw [hu0] at hFF
    unfold fitBuffers
    simp only
    cases hst : e.st with
    | leavesOnly F' ls => rw [hst] at hlo; simp [TreeSt.isLeavesOnly] at hlo
    | uninit =>
      rw [hst] at hFF h1
      simp only [hu0, hFF, bne_self_eq_false, Bool.false_eq_true, ↓reduceIte, h1]
    | full h F'' root chain next =>
      rw [hst] at hFF h1
      simp only [hu0, hFF, bne_self_eq_false, Bool.false_eq_true, ↓reduceIte, h1]
  · rw [hF' (by simp)]
    cases h : e.st.F? with
    | none => simp
    | some F' => simp [hF F' h]

/-- `refitGroups` from any well-formed state: all groups non-empty, all units of width `F` -/
theorem refitGroups_spec (hpol : ∀ cfg, (pol cfg).Valid) (F : Nat) :
    ∀ (gs : List (W × List Clu)) (e : Est), 1 ≤ e.cfg.bf → e.st.OK → e.st.isLeavesOnly = false →
    (∀ F', e.st.F? = some F' → F' = F) → (∀ g ∈ gs, g.2 ≠ []) →
    (∀ g ∈ gs, ∀ u ∈ g.2, u.ls.length = F) →
    ∃ e', refitGroups pol e gs = (e', none) ∧ e'.cfg = e.cfg ∧ e'.st.OK ∧ e'.st.isLeavesOnly = false ∧
      (∀ F', e'.st.F? = some F' → F' = F) ∧
      e'.numFitted = e.numFitted + ((gs.flatMap (·.2)).map (·.ids.length)).sum ∧
      MC (pol e.cfg).acc (e.st.lclusM + (((gs.flatMap (·.2)).map Clu.asUnit : List Clu) : Multiset Clu)) e'.st.lclusM
  | [], e, _, hok, hlo, hF, _, _ => ⟨e, rfl, rfl, hok, hlo, hF, by simp, by simpa using MC.refl _⟩
  | g :: gs, e, hbf, hok, hlo, hF, hne, hlen => by
    have hg : g.2.map Clu.asUnit ≠ [] := by
      have := hne g (by simp)
      intro h0; exact this (List.map_eq_nil_iff.mp h0)
    have hgl : ∀ u ∈ g.2.map Clu.asUnit, u.ls.length = F := by
      intro u hu
      obtain ⟨c, hc, rfl⟩ := List.mem_map.mp hu
      exact hlen g (by simp) c hc
    obtain ⟨e1, h1, hcfg1, hok1, hlo1, hF1, hn1, hmc1⟩ :=
      fitBuffers_spec (pol e.cfg) (hpol _) F e (g.2.map Clu.asUnit) hbf hok hlo hF hg hgl
    obtain ⟨e2, h2, hcfg2, hok2, hlo2, hF2, hn2, hmc2⟩ :=
      refitGroups_spec hpol F gs e1 (by rw [hcfg1]; exact hbf) hok1 hlo1
        (by intro F' h; rw [hF1] at h; exact (Option.some.inj h).symm)
        (fun g' hg' => hne g' (List.mem_cons_of_mem _ hg'))
        (fun g' hg' => hlen g' (List.mem_cons_of_mem _ hg'))
    refine ⟨e2, ?_, by rw [hcfg2, hcfg1], hok2, hlo2, hF2, ?_, ?_⟩
    · simp only [refitGroups, h1, h2]
    · rw [hn2, hn1]
      simp only [List.flatMap_cons, List.map_append, List.sum_append, List.map_map]
      have : (List.map ((fun x => x.ids.length) ∘ Clu.asUnit) g.2) = List.map (fun x => x.ids.length) g.2 := by
        apply List.map_congr_left; intro c _; rfl
      rw [this, add_assoc]
    · simp only [List.flatMap_cons, List.map_append, ← Multiset.coe_add]
      rw [← add_assoc]
      rw [hcfg1] at hmc2
      exact (hmc1.frame _).trans hmc2

end BB

namespace BB
variable (pol : Cfg → Policy)

theorem idsOf_map_asUnit (l : List Clu) :
    idsOf ((l.map Clu.asUnit : List Clu) : Multiset Clu) = idsOf (l : Multiset Clu) := by
  induction l with
  | nil => rfl
  | cons a l ih =>
    rw [List.map_cons, ← Multiset.cons_coe, ← Multiset.cons_coe, ← Multiset.singleton_add,
      ← Multiset.singleton_add, idsOf_add, idsOf_add, ih]
    rfl

theorem card_range_eq {n m : Nat}
    (h : ((List.range n : List Nat) : Multiset Nat) = ((List.range m : List Nat) : Multiset Nat)) : n = m := by
  have := congrArg Multiset.card h
  simpa using this

/-- rebuilding the tree from groups whose units carry exactly the labels `0..n-1` -/
theorem rebuild_inv (hpol : ∀ cfg, (pol cfg).Valid) (F : Nat) (Q : Clu → Prop) (cfg0 : Cfg)
    (hbf : 2 ≤ cfg0.bf) (n : Nat) (gs : List (W × List Clu))
    (hne : ∀ g ∈ gs, g.2 ≠ []) (hlen : ∀ g ∈ gs, ∀ u ∈ g.2, u.ls.length = F)
    (hq : ∀ g ∈ gs, ∀ u ∈ g.2, Q u.asUnit)
    (hids : idsOf ((gs.flatMap (·.2) : List Clu) : Multiset Clu) = ((List.range n : List Nat) : Multiset Nat))
    (hmerge : ∀ c s, Q c → Q s → (pol cfg0).accept c s = true → Q (c.merge s)) :
    ∃ e', refitGroups pol { cfg := cfg0, st := .uninit, numFitted := 0 } gs = (e', none) ∧
      e'.cfg = cfg0 ∧ EInv F Q e' ∧ e'.numFitted = n ∧
      MC (pol cfg0).acc (((gs.flatMap (·.2)).map Clu.asUnit : List Clu) : Multiset Clu) e'.st.lclusM := by
  obtain ⟨e', h1, hcfg, hok, _, hF, hn, hmc⟩ :=
    refitGroups_spec pol hpol F gs { cfg := cfg0, st := .uninit, numFitted := 0 } (by simp; omega)
      trivial rfl (by intro F' h; simp [TreeSt.F?] at h) hne hlen
  have hz : ({ cfg := cfg0, st := TreeSt.uninit, numFitted := 0 } : Est).st.lclusM = 0 := rfl
  rw [hz, zero_add] at hmc
  have hidsE : idsOf e'.st.lclusM = ((List.range n : List Nat) : Multiset Nat) := by
    rw [hmc.ids, idsOf_map_asUnit, hids]
  have hnum : e'.numFitted = n := by
    have h2 := card_idsOf ((gs.flatMap (·.2) : List Clu) : Multiset Clu)
    rw [hids] at h2
    simp only [Multiset.coe_card, List.length_range, Multiset.map_coe, Multiset.sum_coe] at h2
    rw [hn, ← h2]; simp
  refine ⟨e', h1, hcfg, ⟨by rw [hcfg]; exact hbf, hok, hF, ?_, by rw [hnum]; exact hidsE, ?_⟩, hnum, hmc⟩
  · apply MC.forall (fun c => c.ls.length = F) (fun c s hc hs _ => merge_ls_length c s F hc hs) hmc
    intro c hc
    simp only [Multiset.mem_coe, List.mem_map, List.mem_flatMap] at hc
    obtain ⟨u, ⟨g, hg, hu⟩, rfl⟩ := hc
    exact hlen g hg u hu
  · apply MC.forall Q (fun c s hc hs ha => hmerge c s hc hs ha) hmc
    intro c hc
    simp only [Multiset.mem_coe, List.mem_map, List.mem_flatMap] at hc
    obtain ⟨u, ⟨g, hg, hu⟩, rfl⟩ := hc
    exact hq g hg u hu

theorem reset_inv (F : Nat) (Q : Clu → Prop) (e : Est) (h : 2 ≤ e.cfg.bf) : EInv F Q e.reset :=
  ⟨h, trivial, by intro F' h; simp [Est.reset, TreeSt.F?] at h, by simp [Est.reset, TreeSt.lclusM],
    by simp [Est.reset, TreeSt.lclusM], by simp [Est.reset, TreeSt.lclusM]⟩

theorem delInternal_inv (F : Nat) (Q : Clu → Prop) (e : Est) (h : EInv F Q e) : EInv F Q (delInternal e).1 := by
  unfold delInternal
  cases hst : e.st with
  | uninit => simpa using h
  | leavesOnly F' ls => simpa using h
  | full hh F' root chain next =>
    cases hh with
    | zero => simpa using h
    | succ k =>
      have hcoe := TreeSt.leafClus_coe e.st h.ok
      have hl : (TreeSt.leavesOnly F' e.st.leaves).lclusM = e.st.lclusM := by
        rw [← hcoe]; rfl
      simp only
      rw [← hst]
      exact ⟨h.bf, trivial, by intro F'' h'; simp [TreeSt.F?] at h', by simpa [hl] using h.lsLen,
        by simpa [hl] using h.part, by simpa [hl] using h.q⟩

theorem cfg_inv (F : Nat) (Q : Clu → Prop) (e : Est) (h : EInv F Q e) (cfg' : Cfg) (hbf : 2 ≤ cfg'.bf) :
    EInv F Q { e with cfg := cfg' } :=
  ⟨hbf, h.ok, h.fF, h.lsLen, h.part, h.q⟩

end BB

namespace BB
variable (pol : Cfg → Policy)

theorem idsOf_ofRow (l : List (Nat × Row)) :
    idsOf ((l.map (fun p => Clu.ofRow p.2 p.1) : List Clu) : Multiset Clu) = ((l.map (·.1) : List Nat) : Multiset Nat) := by
  induction l with
  | nil => rfl
  | cons a l ih =>
    rw [List.map_cons, List.map_cons, ← Multiset.cons_coe, ← Multiset.singleton_add, idsOf_add, ih,
      idsOf_singleton]
    rfl

theorem prefix_zip_range' (n : Nat) (rows : List Row) (p : List (Nat × Row))
    (hp : p <+: (List.range' n rows.length).zip rows) : p.map (·.1) = List.range' n p.length := by
  have hlen : p.length ≤ rows.length := by
    have := hp.length_le
    simpa using this
  rw [List.prefix_iff_eq_take] at hp
  rw [hp]
  simp only [List.map_take, List.length_take, List.length_zip, List.length_range', Nat.min_self]
  rw [List.map_fst_zip (by simp), List.take_range'_of_length_ge (by omega)]
  congr 1
  omega

theorem mem_zip_range' (n : Nat) (rows : List Row) (p : Nat × Row)
    (hp : p ∈ (List.range' n rows.length).zip rows) : ∃ i, ∃ hi : i < rows.length, p = (n + i, rows[i]) := by
  obtain ⟨i, hi, rfl⟩ := List.mem_iff_getElem.mp hp
  simp only [List.length_zip, List.length_range', Nat.min_self] at hi
  exact ⟨i, hi, by simp [List.getElem_zip, List.getElem_range']⟩

theorem fit_eq (P : Policy) (e : Est) (r0 : Row) (rest : List Row) (labels : Option (List Nat))
    (hlo : e.st.isLeavesOnly = false) :
    fit P e (r0 :: rest) labels =
      let F := (e.st.F?).getD r0.length
      let labelled := match labels with
        | none => (List.range' e.numFitted (r0 :: rest).length).zip (r0 :: rest)
        | some ls => ls.zip (r0 :: rest)
      ({ e with st := (fitRows P e.cfg.bf F e.st e.numFitted labelled).1,
                numFitted := (fitRows P e.cfg.bf F e.st e.numFitted labelled).2.1 },
        (fitRows P e.cfg.bf F e.st e.numFitted labelled).2.2) := by
  unfold fit
  cases hst : e.st with
  | leavesOnly F' ls => rw [hst] at hlo; simp [TreeSt.isLeavesOnly] at hlo
  | uninit => rfl
  | full hh F'' root chain next => rfl

theorem fit_leavesOnly (P : Policy) (e : Est) (rows : List Row) (labels : Option (List Nat))
    (hlo : e.st.isLeavesOnly = true) : (fit P e rows labels).1 = e := by
  unfold fit
  cases rows with
  | nil => rfl
  | cons r0 rest =>
    cases hst : e.st with
    | leavesOnly F' ls => rfl
    | uninit => rw [hst] at hlo; simp [TreeSt.isLeavesOnly] at hlo
    | full hh F'' root chain next => rw [hst] at hlo; simp [TreeSt.isLeavesOnly] at hlo

/-- `fit` (without explicit labels) preserves the invariant -/
theorem fit_inv (hpol : ∀ cfg, (pol cfg).Valid) (F : Nat) (Q : Clu → Prop) (e : Est) (hinv : EInv F Q e)
    (rows : List Row) (h0 : ∀ r0, rows.head? = some r0 → r0.length = F)
    (hq : e.st.isLeavesOnly = false → ∀ i (hi : i < rows.length), rows[i].length = F →
      Q (Clu.ofRow rows[i] (e.numFitted + i)))
    (hmerge : ∀ c s, Q c → Q s → (pol e.cfg).accept c s = true → Q (c.merge s)) :
    EInv F Q (fit (pol e.cfg) e rows none).1 := by
  cases rows with
  | nil => exact hinv
  | cons r0 rest =>
    by_cases hlo : e.st.isLeavesOnly = true
    · rw [fit_leavesOnly _ _ _ _ hlo]; exact hinv
    · have hlo : e.st.isLeavesOnly = false := by simpa using hlo
      rw [fit_eq _ _ _ _ _ hlo]
      have hFF : (e.st.F?).getD r0.length = F := by
        cases h : e.st.F? with
        | none => simpa using h0 r0 rfl
        | some F' => simpa using hinv.fF F' h
      have hFF2 : (e.st.F?).getD F = F := by
        cases h : e.st.F? with
        | none => rfl
        | some F2 => simpa using hinv.fF F2 h
      obtain ⟨st', h1, hok', hlo', hF', hnil, hmc⟩ :=
        fitRows_spec (pol e.cfg) (hpol _) e.cfg.bf (by have := hinv.bf; omega) F
          ((List.range' e.numFitted (r0 :: rest).length).zip (r0 :: rest)) e.st e.numFitted hinv.ok hlo
      simp only [hFF, h1]
      set good := goodPrefix F ((List.range' e.numFitted (r0 :: rest).length).zip (r0 :: rest)) with hgood
      have hpre : good <+: (List.range' e.numFitted (r0 :: rest).length).zip (r0 :: rest) :=
        List.takeWhile_prefix _
      have hgoodOK : ∀ p ∈ good, rowOk F p.2 = true := fun p hp =>
        List.mem_takeWhile_imp (p := fun q : Nat × Row => rowOk F q.2) hp
      have hunits : ∀ p ∈ good, (Clu.ofRow p.2 p.1).ls.length = F ∧ Q (Clu.ofRow p.2 p.1) := by
        intro p hp
        have hr : p.2.length = F := by simpa [rowOk] using hgoodOK p hp
        obtain ⟨i, hi, rfl⟩ := mem_zip_range' _ _ p (hpre.subset hp)
        exact ⟨by simp [Clu.ofRow, rowToNat, hr], hq hlo i hi hr⟩
      refine ⟨hinv.bf, hok', ?_, ?_, ?_, ?_⟩
      · intro F' hF''
        simp only at hF''
        by_cases hg : good = []
        · rw [hnil hg] at hF''; exact hinv.fF F' hF''
        · rw [hF' hg, hFF2] at hF''
          exact (Option.some.inj hF'').symm
      · apply MC.forall (fun c => c.ls.length = F) (fun c s hc hs _ => merge_ls_length c s F hc hs) hmc
        intro c hc
        rcases Multiset.mem_add.mp hc with hc | hc
        · exact hinv.lsLen c hc
        · simp only [Multiset.mem_coe, List.mem_map] at hc
          obtain ⟨p, hp, rfl⟩ := hc
          exact (hunits p hp).1
      · simp only
        rw [hmc.ids, idsOf_add, hinv.part, idsOf_ofRow, prefix_zip_range' _ _ _ hpre, Multiset.coe_add]
        congr 1
        rw [List.range_add, List.range'_eq_map_range]
      · apply MC.forall Q (fun c s hc hs ha => hmerge c s hc hs ha) hmc
        intro c hc
        rcases Multiset.mem_add.mp hc with hc | hc
        · exact hinv.q c hc
        · simp only [Multiset.mem_coe, List.mem_map] at hc
          obtain ⟨p, hp, rfl⟩ := hc
          exact (hunits p hp).2

end BB

namespace BB
variable (pol : Cfg → Policy)

theorem rebuild_inv' (hpol : ∀ cfg, (pol cfg).Valid) (F : Nat) (Q : Clu → Prop) (e0 : Est)
    (hst : e0.st = .uninit) (hnf : e0.numFitted = 0)
    (hbf : 2 ≤ e0.cfg.bf) (n : Nat) (gs : List (W × List Clu))
    (hne : ∀ g ∈ gs, g.2 ≠ []) (hlen : ∀ g ∈ gs, ∀ u ∈ g.2, u.ls.length = F)
    (hq : ∀ g ∈ gs, ∀ u ∈ g.2, Q u.asUnit)
    (hids : idsOf ((gs.flatMap (·.2) : List Clu) : Multiset Clu) = ((List.range n : List Nat) : Multiset Nat))
    (hmerge : ∀ c s, Q c → Q s → (pol e0.cfg).accept c s = true → Q (c.merge s)) :
    ∃ e', refitGroups pol e0 gs = (e', none) ∧ e'.cfg = e0.cfg ∧ EInv F Q e' ∧ e'.numFitted = n ∧
      MC (pol e0.cfg).acc (((gs.flatMap (·.2)).map Clu.asUnit : List Clu) : Multiset Clu) e'.st.lclusM := by
  have : e0 = { cfg := e0.cfg, st := .uninit, numFitted := 0 } := by
    cases e0; simp_all
  rw [this]
  exact rebuild_inv pol hpol F Q e0.cfg hbf n gs hne hlen hq hids hmerge

/-- what `_get_leaf_bfs(sort=True)` extracts is exactly the leaf clusters -/
theorem sortedClus_coe (st : TreeSt) (h : st.OK) : (st.sortedClus : Multiset Clu) = st.lclusM := by
  rw [← TreeSt.leafClus_coe st h]
  exact Multiset.coe_eq_coe.mpr (sortClus_perm _)

theorem mem_of_coe_eq {α : Type} {l : List α} {M : Multiset α} (h : (l : Multiset α) = M) (x : α) :
    x ∈ l ↔ x ∈ M := by rw [← h]; rfl

/-- one full re-insertion of all leaf clusters (in any order, grouped by width) -/
theorem reinsert_inv (hpol : ∀ cfg, (pol cfg).Valid) (F : Nat) (Q : Clu → Prop)
    (hunit : ∀ c, Q c → Q c.asUnit) (e : Est) (hinv : EInv F Q e) (cfg' : Cfg) (hbf : 2 ≤ cfg'.bf)
    (bfs' : List Clu) (hb : (bfs' : Multiset Clu) = e.st.lclusM)
    (hmerge : ∀ c s, Q c → Q s → (pol cfg').accept c s = true → Q (c.merge s)) :
    ∃ e', refitGroups pol { cfg := cfg', st := .uninit, numFitted := 0 } (groupByW bfs') = (e', none) ∧
      e'.cfg = cfg' ∧ EInv F Q e' ∧ e'.numFitted = e.numFitted ∧
      MC (pol cfg').acc ((((groupByW bfs').flatMap (·.2)).map Clu.asUnit : List Clu) : Multiset Clu) e'.st.lclusM := by
  obtain ⟨_, hne, hflat⟩ := groupByW_spec bfs'
  have hmem : ∀ g ∈ groupByW bfs', ∀ u ∈ g.2, u ∈ e.st.lclusM := by
    intro g hg u hu
    rw [← hb, ← hflat]
    exact List.mem_flatMap.mpr ⟨g, hg, hu⟩
  exact rebuild_inv pol hpol F Q cfg' hbf e.numFitted (groupByW bfs') hne
    (fun g hg u hu => hinv.lsLen u (hmem g hg u hu))
    (fun g hg u hu => hunit u (hinv.q u (hmem g hg u hu)))
    (by rw [hflat, hb]; exact hinv.part) hmerge

/-- the thresholds visited by `recluster_inplace` -/
def advThr (extra : Rat) (j : Nat) (thr : Rat) : Rat := (fun t => fadd t extra)^[j] thr

theorem reclusterLoop_inv (hpol : ∀ cfg, (pol cfg).Valid) (F : Nat) (Q : Clu → Prop)
    (hunit : ∀ c, Q c → Q c.asUnit) (extra : Rat) (stop : Bool) :
    ∀ (k : Nat) (perms : List (Option (List Nat))) (before : Nat) (e : Est), EInv F Q e →
    (∀ j, 1 ≤ j → j ≤ k → ∀ c s, Q c → Q s →
        (pol { e.cfg with thr := advThr extra j e.cfg.thr }).accept c s = true → Q (c.merge s)) →
    EInv F Q (reclusterLoop pol extra stop k perms before e).1
  | 0, _, _, e, hinv, _ => by simpa [reclusterLoop] using hinv
  | k+1, perms, before, e, hinv, hmerge => by
    unfold reclusterLoop
    simp only
    split
    · exact hinv
    · have hperm : ((shuffled e.st.sortedClus perms.head? : List Clu) : Multiset Clu) = e.st.lclusM := by
        rw [← sortedClus_coe e.st hinv.ok]
        unfold shuffled
        split
        · exact Multiset.coe_eq_coe.mpr (applyPerm_perm _ _)
        · rfl
      obtain ⟨e3, h3, hcfg3, hinv3, _, _⟩ := reinsert_inv pol hpol F Q hunit e hinv
        { e.cfg with thr := fadd e.cfg.thr extra } hinv.bf _ hperm
        (by
          have := hmerge 1 (le_refl _) (by omega)
          simpa [advThr] using this)
      have hstart : ({ (e.reset) with cfg := { e.reset.cfg with thr := fadd e.reset.cfg.thr extra } } : Est)
          = { cfg := { e.cfg with thr := fadd e.cfg.thr extra }, st := .uninit, numFitted := 0 } := rfl
      rw [hstart, h3]
      simp only
      apply reclusterLoop_inv hpol F Q hunit extra stop k perms.tail _ e3 hinv3
      intro j hj1 hjk c s hc hs ha
      apply hmerge (j + 1) (by omega) (by omega) c s hc hs
      rw [hcfg3] at ha
      simpa [advThr, Function.iterate_succ_apply] using ha

theorem recluster_inv (hpol : ∀ cfg, (pol cfg).Valid) (F : Nat) (Q : Clu → Prop)
    (hunit : ∀ c, Q c → Q c.asUnit) (e : Est) (hinv : EInv F Q e) (iters : Nat) (extra : Rat)
    (perms : List (Option (List Nat))) (stop : Bool)
    (hmerge : ∀ j, 1 ≤ j → j ≤ iters → ∀ c s, Q c → Q s →
        (pol { e.cfg with thr := advThr extra j e.cfg.thr }).accept c s = true → Q (c.merge s)) :
    EInv F Q (recluster pol e iters extra perms stop).1 := by
  unfold recluster
  split
  · exact hinv
  · exact reclusterLoop_inv pol hpol F Q hunit extra stop iters perms 0 e hinv hmerge

end BB

namespace BB
variable (pol : Cfg → Policy)

/-- the singleton unit read from the data for label `id` -/
def single (r : Row) (id : Nat) : Clu := Clu.ofBuffer .u8 (rowToNat r) 1 [id]

theorem explode_spec (data : List Row) (im : Nat) : ∀ (ids : List Nat) (us : List Clu),
    explode data im ids = some us →
    idsOf (us : Multiset Clu) = (ids : Multiset Nat) ∧
    ∀ u ∈ us, ∃ id r, id ∈ ids ∧ im ≤ id ∧ data[id - im]? = some r ∧ u = single r id
  | [], us, h => by
    simp only [explode, List.mapM_nil, Option.pure_def, Option.some.injEq] at h
    subst h; simp
  | id :: ids, us, h => by
    simp only [explode, List.mapM_cons, Option.pure_def, Option.bind_eq_bind, Option.bind_eq_some_iff] at h
    obtain ⟨u, hu, us', hus', hsome⟩ := h
    have := Option.some.inj hsome
    subst this
    obtain ⟨h1, h2⟩ := explode_spec data im ids us' hus'
    have hu' : im ≤ id ∧ ∃ r, data[id - im]? = some r ∧ u = single r id := by
      split at hu
      · simp at hu
      · rename_i hlt
        simp only [Option.map_eq_some_iff] at hu
        obtain ⟨r, hr, rfl⟩ := hu
        exact ⟨by omega, r, hr, rfl⟩
    obtain ⟨hle, r, hr, rfl⟩ := hu'
    refine ⟨?_, ?_⟩
    · rw [← Multiset.cons_coe, ← Multiset.singleton_add, idsOf_add, h1, idsOf_singleton]
      rfl
    · intro x hx
      rcases List.mem_cons.mp hx with hx | hx
      · exact ⟨id, r, by simp, hle, hr, hx⟩
      · obtain ⟨id', r', a, b, c, d⟩ := h2 x hx
        exact ⟨id', r', List.mem_cons_of_mem _ a, b, c, d⟩

theorem explodeAllF_spec (data : List Row) (im : Nat) (f : Clu → List Nat) (hf : ∀ c, (f c).Perm c.ids) :
    ∀ (cs : List Clu) (uss : List (List Clu)),
    cs.mapM (fun c => explode data im (f c)) = some uss →
    idsOf (uss.flatten : Multiset Clu) = idsOf (cs : Multiset Clu) ∧
    ∀ u ∈ uss.flatten, ∃ id r, im ≤ id ∧ data[id - im]? = some r ∧ u = single r id
  | [], uss, h => by
    simp only [List.mapM_nil, Option.pure_def, Option.some.injEq] at h
    subst h; simp
  | c :: cs, uss, h => by
    simp only [List.mapM_cons, Option.pure_def, Option.bind_eq_bind, Option.bind_eq_some_iff] at h
    obtain ⟨us, hus, uss', huss', hsome⟩ := h
    have := Option.some.inj hsome
    subst this
    obtain ⟨h1, h2⟩ := explodeAllF_spec data im f hf cs uss' huss'
    obtain ⟨g1, g2⟩ := explode_spec data im (f c) us hus
    refine ⟨?_, ?_⟩
    · rw [List.flatten_cons, ← Multiset.coe_add, idsOf_add, g1, h1, ← Multiset.cons_coe,
        ← Multiset.singleton_add, idsOf_add, idsOf_singleton, Multiset.coe_eq_coe.mpr (hf c)]
    · intro x hx
      rw [List.flatten_cons] at hx
      rcases List.mem_append.mp hx with hx | hx
      · obtain ⟨id, r, _, b, c', d⟩ := g2 x hx
        exact ⟨id, r, b, c', d⟩
      · exact h2 x hx

theorem explodeAll_spec (data : List Row) (im : Nat) (cs : List Clu) (uss : List (List Clu))
    (h : cs.mapM (fun c => explode data im c.ids) = some uss) :
    idsOf (uss.flatten : Multiset Clu) = idsOf (cs : Multiset Clu) ∧
    ∀ u ∈ uss.flatten, ∃ id r, im ≤ id ∧ data[id - im]? = some r ∧ u = single r id :=
  explodeAllF_spec data im (fun c => c.ids) (fun _ => List.Perm.refl _) cs uss h

theorem addToU8_spec (groups : List (W × List Clu)) (us : List Clu) (hus : us ≠ [])
    (hnd : (groups.map (·.1)).Nodup) (hne : ∀ g ∈ groups, g.2 ≠ []) :
    (∀ g ∈ addToU8 groups us, g.2 ≠ []) ∧
    (((addToU8 groups us).flatMap (·.2) : List Clu) : Multiset Clu)
      = ((groups.flatMap (·.2) : List Clu) : Multiset Clu) + (us : Multiset Clu) := by
  unfold addToU8
  split
  · rename_i hany
    constructor
    · intro g hg
      simp only [List.mem_map] at hg
      obtain ⟨g0, hg0, rfl⟩ := hg
      split
      · simp [hne g0 hg0]
      · exact hne g0 hg0
    · clear hne
      induction groups with
      | nil => simp at hany
      | cons a gs ih =>
        simp only [List.map_cons, List.nodup_cons, List.mem_map, not_exists, not_and] at hnd
        simp only [List.map_cons, List.flatMap_cons, ← Multiset.coe_add]
        by_cases ha : (a.1 == W.u8) = true
        · have htail : gs.map (fun g => if g.1 == W.u8 then (g.1, g.2 ++ us) else g) = gs := by
            conv_rhs => rw [← List.map_id gs]
            apply List.map_congr_left
            intro g hg
            have : g.1 ≠ a.1 := fun he => hnd.1 g hg he
            have hw : a.1 = W.u8 := by simpa using ha
            have : (g.1 == W.u8) = false := by rw [← hw]; simpa using this
            simp [this]
          rw [htail]
          simp only [ha, ↓reduceIte]
          rw [← Multiset.coe_add a.2 us]
          abel
        · have ha' : (a.1 == W.u8) = false := by simpa using ha
          have hany' : gs.any (fun g => g.1 == W.u8) = true := by
            simpa [List.any_cons, ha'] using hany
          simp only [ha', Bool.false_eq_true, ↓reduceIte]
          rw [ih hnd.2 hany', add_assoc]
  · constructor
    · intro g hg
      rcases List.mem_append.mp hg with hg | hg
      · exact hne g hg
      · simp only [List.mem_singleton] at hg; subst hg; exact hus
    · simp only [List.flatMap_append, List.flatMap_cons, List.flatMap_nil, List.append_nil, ← Multiset.coe_add]

end BB

namespace BB
variable (pol : Cfg → Policy)

theorem refineGroups_spec (bfs : List Clu) (k : Nat) (data : List Row) (im : Nat)
    (srt : Bool) (groups : List (W × List Clu)) (h : refineGroups bfs k data im srt = .ok groups) :
    (∀ g ∈ groups, g.2 ≠ []) ∧ ∃ singles : List Clu,
      ((groups.flatMap (·.2) : List Clu) : Multiset Clu) = ((bfs.drop k : List Clu) : Multiset Clu) + (singles : Multiset Clu) ∧
      idsOf (singles : Multiset Clu) = idsOf ((bfs.take k : List Clu) : Multiset Clu) ∧
      ∀ u ∈ singles, ∃ id r, im ≤ id ∧ data[id - im]? = some r ∧ u = single r id := by
  obtain ⟨hnd, hne, hflat⟩ := groupByW_spec (bfs.drop k)
  unfold refineGroups at h
  simp only at h
  split at h
  · rename_i hk
    have := Except.ok.inj h
    subst this
    refine ⟨hne, [], by simpa using hflat, by simp [hk], by simp⟩
  · split at h
    · simp at h
    · rename_i uss huss
      obtain ⟨h1, h2⟩ := explodeAllF_spec data im (fun c => if srt then c.ids.mergeSort (· ≤ ·) else c.ids)
        (fun c => by split; exact List.mergeSort_perm _ _; exact List.Perm.refl _) (bfs.take k) uss huss
      have := Except.ok.inj h
      subst this
      split
      · rename_i hemp
        have : uss.flatten = [] := by simpa using hemp
        refine ⟨hne, [], by simpa using hflat, ?_, by simp⟩
        rw [← h1, this]
      · rename_i hemp
        have hne' : uss.flatten ≠ [] := by simpa using hemp
        obtain ⟨a1, a2⟩ := addToU8_spec (groupByW (bfs.drop k)) uss.flatten hne' hnd hne
        exact ⟨a1, uss.flatten, by rw [a2, hflat], h1, h2⟩

theorem delInternal_cfg (e : Est) : (delInternal e).1.cfg = e.cfg ∧ (delInternal e).1.numFitted = e.numFitted := by
  unfold delInternal
  cases e.st with
  | uninit => simp
  | leavesOnly F ls => simp
  | full h F root chain next => cases h <;> simp

theorem single_asUnit (r : Row) (id : Nat) : (single r id).asUnit = single r id := rfl

/-- `refine_inplace` preserves the invariant (given data rows of the tree's width) -/
theorem refine_inv (hpol : ∀ cfg, (pol cfg).Valid) (F : Nat) (Q : Clu → Prop)
    (hunit : ∀ c, Q c → Q c.asUnit) (e : Est) (hinv : EInv F Q e) (n : Int) (data : List Row) (im : Nat) (srt : Bool)
    (hdata : ∀ r ∈ data, r.length = F)
    (hqs : ∀ id r, im ≤ id → data[id - im]? = some r → Q (single r id))
    (hmerge : ∀ c s, Q c → Q s → (pol e.cfg).accept c s = true → Q (c.merge s)) :
    EInv F Q (refine pol e n data im srt).1 := by
  unfold refine
  split
  · exact hinv
  · have hinv0 := delInternal_inv F Q e hinv
    have hcfg0 := delInternal_cfg e
    generalize hdi : delInternal e = di at hinv0 hcfg0
    obtain ⟨e0, x⟩ := di
    simp only at hinv0 hcfg0
    cases x with
    | some x => exact hinv0
    | none =>
      simp only
      split
      · exact hinv0
      · split
        · exact hinv0
        · rename_i groups hg
          obtain ⟨hne, singles, hflat, hids, hsing⟩ := refineGroups_spec _ _ _ _ _ _ hg
          have hsorted := sortedClus_coe e0.st hinv0.ok
          have hmemdrop : ∀ u ∈ e0.st.sortedClus.drop n.toNat, u ∈ e0.st.lclusM := fun u hu => by
            rw [← hsorted]; exact List.mem_of_mem_drop hu
          have hmem : ∀ g ∈ groups, ∀ u ∈ g.2, u ∈ e0.st.lclusM ∨ u ∈ singles := by
            intro g hg' u hu
            have : u ∈ ((groups.flatMap (·.2) : List Clu) : Multiset Clu) := List.mem_flatMap.mpr ⟨g, hg', hu⟩
            rw [hflat] at this
            rcases Multiset.mem_add.mp this with h | h
            · exact Or.inl (hmemdrop u h)
            · exact Or.inr h
          have hsl : ∀ u ∈ singles, u.ls.length = F ∧ Q u := by
            intro u hu
            obtain ⟨id, r, hle, hr, rfl⟩ := hsing u hu
            refine ⟨?_, hqs id r hle hr⟩
            have : r ∈ data := List.mem_of_getElem? hr
            simp [single, Clu.ofBuffer, rowToNat, hdata r this]
          obtain ⟨e', h1, _, hinv', _, _⟩ := rebuild_inv' pol hpol F Q e0.reset rfl rfl hinv0.bf e0.numFitted groups hne
            (fun g hg' u hu => by
              rcases hmem g hg' u hu with h | h
              · exact hinv0.lsLen u h
              · exact (hsl u h).1)
            (fun g hg' u hu => by
              rcases hmem g hg' u hu with h | h
              · exact hunit u (hinv0.q u h)
              · obtain ⟨id, r, hle, hr, rfl⟩ := hsing u h
                rw [single_asUnit]; exact hqs id r hle hr)
            (by
              rw [hflat, idsOf_add, hids, ← idsOf_add, add_comm, Multiset.coe_add, List.take_append_drop,
                hsorted]
              exact hinv0.part)
            (by
              have : e0.reset.cfg = e.cfg := by simp [Est.reset, hcfg0.1]
              rw [this]; exact hmerge)
          rw [h1]
          exact hinv'

end BB

namespace BB
variable (pol : Cfg → Policy)

/-- `Q` is closed under the merges a configuration accepts -/
def MergeClosed (Q : Clu → Prop) (cfg : Cfg) : Prop :=
  ∀ c s, Q c → Q s → (pol cfg).accept c s = true → Q (c.merge s)

/-- side conditions of one operation (history well-formedness for width `F` and predicate `Q`) -/
def OpOK (F : Nat) (Q : Clu → Prop) (e : Est) : Op → Prop
  | .fit rows labels => labels = none ∧ (∀ r0, rows.head? = some r0 → r0.length = F) ∧
      (e.st.isLeavesOnly = false → ∀ i (hi : i < rows.length), rows[i].length = F →
        Q (Clu.ofRow rows[i] (e.numFitted + i))) ∧
      MergeClosed pol Q e.cfg
  | .refine _ data im _ => (∀ r ∈ data, r.length = F) ∧
      (∀ id r, im ≤ id → data[id - im]? = some r → Q (single r id)) ∧ MergeClosed pol Q e.cfg
  | .recluster it extra _ _ =>
      ∀ j, 1 ≤ j → j ≤ it → MergeClosed pol Q { e.cfg with thr := advThr extra j e.cfg.thr }
  | .setMerge _ _ _ b => ∀ b', b = some b' → 2 ≤ b'
  | .setBf b => 2 ≤ b
  | _ => True

theorem step_inv (hpol : ∀ cfg, (pol cfg).Valid) (F : Nat) (Q : Clu → Prop)
    (hunit : ∀ c, Q c → Q c.asUnit) (e : Est) (hinv : EInv F Q e) (op : Op) (hop : OpOK pol F Q e op) :
    EInv F Q (stepWith pol e op).1 := by
  cases op with
  | fit rows labels =>
    obtain ⟨rfl, h0, hq, hm⟩ := hop
    exact fit_inv pol hpol F Q e hinv rows h0 hq hm
  | refine n data im srt =>
    obtain ⟨hd, hq, hm⟩ := hop
    exact refine_inv pol hpol F Q hunit e hinv n data im srt hd hq hm
  | recluster it extra perms stop =>
    exact recluster_inv pol hpol F Q hunit e hinv it extra perms stop hop
  | setMerge c t th b =>
    simp only [stepWith, setMerge]
    split
    · exact hinv
    · apply cfg_inv F Q e hinv
      simp only
      cases b with
      | none => simpa using hinv.bf
      | some b' => simpa using hop b' rfl
  | setThr t => exact cfg_inv F Q e hinv _ hinv.bf
  | setBf b => exact cfg_inv F Q e hinv _ hop
  | delInternal => exact delInternal_inv F Q e hinv
  | reset => exact reset_inv F Q e hinv.bf

/-- history well-formedness: every operation satisfies its side conditions in the state it meets -/
def RunOK (F : Nat) (Q : Clu → Prop) : Est → List Op → Prop
  | _, [] => True
  | e, op :: ops => OpOK pol F Q e op ∧ RunOK F Q (stepWith pol e op).1 ops

theorem run_inv (hpol : ∀ cfg, (pol cfg).Valid) (F : Nat) (Q : Clu → Prop)
    (hunit : ∀ c, Q c → Q c.asUnit) : ∀ (ops : List Op) (e : Est), EInv F Q e → RunOK pol F Q e ops →
    EInv F Q (runWith pol e ops)
  | [], e, hinv, _ => hinv
  | op :: ops, e, hinv, hok => by
    simp only [runWith, List.foldl_cons]
    exact run_inv hpol F Q hunit ops _ (step_inv pol hpol F Q hunit e hinv op hok.1) hok.2

theorem init_inv (F : Nat) (Q : Clu → Prop) (cfg : Cfg) (h : 2 ≤ cfg.bf) : EInv F Q (init cfg) :=
  ⟨h, trivial, by intro F' h; simp [init, TreeSt.F?] at h, by simp [init, TreeSt.lclusM],
    by simp [init, TreeSt.lclusM], by simp [init, TreeSt.lclusM]⟩

/-- what the estimator reports, as a multiset of labels, under the invariant -/
theorem clusters_perm (F : Nat) (Q : Clu → Prop) (e : Est) (hinv : EInv F Q e) (sort : Bool) :
    (e.clusters sort).flatten.Perm (List.range e.numFitted) := by
  have hl : ((if sort then e.st.sortedClus else e.st.leafClus : List Clu) : Multiset Clu) = e.st.lclusM := by
    cases sort
    · simpa using TreeSt.leafClus_coe e.st hinv.ok
    · simpa using sortedClus_coe e.st hinv.ok
  have hflat : ∀ l : List Clu, (((l.map (·.ids)).flatten : List Nat) : Multiset Nat) = idsOf (l : Multiset Clu) := by
    intro l
    induction l with
    | nil => rfl
    | cons a l ih =>
      rw [List.map_cons, List.flatten_cons, ← Multiset.coe_add, ih, ← Multiset.cons_coe, ← Multiset.singleton_add,
        idsOf_add, idsOf_singleton]
  apply Multiset.coe_eq_coe.mp
  unfold Est.clusters
  rw [hflat, hl, hinv.part]

end BB
