/-
Helper lemmas for C18 (the scikit-learn wrapper): the assignment vector of
`get_assignments`, the stable size sort, and the boolean Jaccard distance.
-/
import BBModel.Sklearn
import BBProofs.Bits
import BBProofs.Fl
import BBProofs.OpsAux
import Mathlib.Data.List.Perm.Basic

namespace BB

/-! ### the assignment vector -/

/-- the inner loop `a[ids] = v` (with NumPy's bounds check) -/
def setIds (acc : Option (List Nat)) (ids : List Nat) (v : Nat) : Option (List Nat) :=
  ids.foldl (fun a id => a.bind (fun l => if id < l.length then some (l.set id v) else none)) acc

/-- the outer loop over the enumerated clusters -/
def assignFold (cs : List (List Nat × Nat)) (acc : Option (List Nat)) : Option (List Nat) :=
  cs.foldl (fun acc p => setIds acc p.1 (p.2 + 1)) acc

theorem assignments_eq (clusters : List (List Nat)) (n : Nat) :
    assignments clusters n =
      match assignFold clusters.zipIdx (some (List.replicate n 0)) with
      | none => .error .index
      | some a => if a.any (· == 0) then .error .value else .ok a := rfl

theorem setIds_none (ids : List Nat) (v : Nat) : setIds none ids v = none := by
  induction ids with
  | nil => rfl
  | cons id rest ih => simpa [setIds] using ih

theorem setIds_cons (l : List Nat) (id : Nat) (rest : List Nat) (v : Nat) :
    setIds (some l) (id :: rest) v =
      if id < l.length then setIds (some (l.set id v)) rest v else none := by
  by_cases h : id < l.length
  · simp [setIds, h]
  · simpa [setIds, h] using setIds_none rest v

/-- in range: the length is kept, the listed positions hold `v`, the others are unchanged -/
theorem setIds_ok (v : Nat) : ∀ (ids : List Nat) (l : List Nat), (∀ id ∈ ids, id < l.length) →
    ∃ l', setIds (some l) ids v = some l' ∧ l'.length = l.length ∧
      ∀ j, l'[j]? = if j ∈ ids then some v else l[j]?
  | [], l, _ => ⟨l, rfl, rfl, by simp⟩
  | id :: rest, l, h => by
    have hid : id < l.length := h id (by simp)
    obtain ⟨l', h1, h2, h3⟩ := setIds_ok v rest (l.set id v)
      (fun x hx => by simpa using h x (List.mem_cons_of_mem _ hx))
    refine ⟨l', by rw [setIds_cons, if_pos hid, h1], by simpa using h2, fun j => ?_⟩
    rw [h3 j]
    by_cases hj : j ∈ rest
    · simp [hj]
    · by_cases hji : j = id
      · subst hji; simp [hid]
      · have : ¬ id = j := fun e => hji e.symm
        simp [hj, hji, this]

/-- an id out of range: IndexError -/
theorem setIds_bad (v : Nat) : ∀ (ids : List Nat) (l : List Nat), (∃ id ∈ ids, l.length ≤ id) →
    setIds (some l) ids v = none
  | [], _, h => by simp at h
  | id :: rest, l, h => by
    rw [setIds_cons]
    split
    · next hid =>
      apply setIds_bad v rest
      obtain ⟨x, hx, hxl⟩ := h
      rcases List.mem_cons.mp hx with rfl | hx
      · omega
      · exact ⟨x, hx, by simpa using hxl⟩
    · rfl

theorem assignFold_none (cs : List (List Nat × Nat)) : assignFold cs none = none := by
  induction cs with
  | nil => rfl
  | cons c rest ih => simpa [assignFold, setIds_none] using ih

theorem assignFold_cons (c : List Nat × Nat) (rest : List (List Nat × Nat)) (acc : Option (List Nat)) :
    assignFold (c :: rest) acc = assignFold rest (setIds acc c.1 (c.2 + 1)) := rfl

/-- all ids in range: the fold succeeds, keeps the length, leaves the positions that occur in
no cluster untouched and — when the clusters are disjoint — writes `k + i + 1` at the
members of the `i`-th cluster -/
theorem assignFold_ok : ∀ (cs : List (List Nat)) (k : Nat) (l : List Nat),
    (∀ c ∈ cs, ∀ id ∈ c, id < l.length) →
    ∃ l', assignFold (cs.zipIdx k) (some l) = some l' ∧ l'.length = l.length ∧
      (∀ j, (∀ c ∈ cs, j ∉ c) → l'[j]? = l[j]?) ∧
      (cs.flatten.Nodup → ∀ (i : Nat) (hi : i < cs.length) (j : Nat), j ∈ cs[i] →
        l'[j]? = some (k + i + 1))
  | [], _, l, _ => ⟨l, rfl, rfl, fun _ _ => rfl, fun _ i hi => by simp at hi⟩
  | c :: rest, k, l, h => by
    obtain ⟨l1, e1, len1, get1⟩ := setIds_ok (k + 1) c l (h c (by simp))
    obtain ⟨l', e2, len2, keep2, rank2⟩ := assignFold_ok rest (k + 1) l1
      (fun c' hc' id hid => by rw [len1]; exact h c' (List.mem_cons_of_mem _ hc') id hid)
    refine ⟨l', ?_, by omega, ?_, ?_⟩
    · rw [List.zipIdx_cons, assignFold_cons]; simpa [e1] using e2
    · intro j hj
      rw [keep2 j (fun c' hc' => hj c' (List.mem_cons_of_mem _ hc')), get1 j,
        if_neg (hj c (by simp))]
    · intro hnd i hi j hj
      rw [List.flatten_cons, List.nodup_append] at hnd
      obtain ⟨_, hnd2, hdis⟩ := hnd
      cases i with
      | zero =>
        have hjc : j ∈ c := by simpa using hj
        have hnot : ∀ c' ∈ rest, j ∉ c' := fun c' hc' hjc' =>
          hdis j hjc j (List.mem_flatten.mpr ⟨c', hc', hjc'⟩) rfl
        rw [keep2 j hnot, get1 j, if_pos hjc]
      | succ i =>
        have := rank2 hnd2 i (by simpa using hi) j (by simpa using hj)
        rw [this]; congr 1; omega

/-- an id out of range somewhere: the fold fails -/
theorem assignFold_bad : ∀ (cs : List (List Nat)) (k : Nat) (l : List Nat),
    (∃ c ∈ cs, ∃ id ∈ c, l.length ≤ id) → assignFold (cs.zipIdx k) (some l) = none
  | [], _, _, h => by simp at h
  | c :: rest, k, l, h => by
    rw [List.zipIdx_cons, assignFold_cons]
    by_cases hc : ∃ id ∈ c, l.length ≤ id
    · simp only []
      rw [setIds_bad (k + 1) c l hc, assignFold_none]
    · have hc' : ∀ id ∈ c, id < l.length := fun id hid => by
        by_contra hlt; exact hc ⟨id, hid, by omega⟩
      obtain ⟨l1, e1, len1, _⟩ := setIds_ok (k + 1) c l hc'
      simp only []
      rw [e1]
      apply assignFold_bad rest (k + 1) l1
      obtain ⟨c', hc'm, id, hid, hle⟩ := h
      rcases List.mem_cons.mp hc'm with rfl | hm
      · exact absurd ⟨id, hid, hle⟩ hc
      · exact ⟨c', hm, id, hid, by omega⟩

/-! ### the stable size sort -/

theorem sortLe_trans (a b c : Clu) :
    decide (b.n ≤ a.n) = true → decide (c.n ≤ b.n) = true → decide (c.n ≤ a.n) = true := by
  simp only [decide_eq_true_eq]; omega

theorem sortLe_total (a b : Clu) : (decide (b.n ≤ a.n) || decide (a.n ≤ b.n)) = true := by
  simp only [Bool.or_eq_true, decide_eq_true_eq]; omega

theorem sortClus_pairwise (cs : List Clu) : (sortClus cs).Pairwise (fun a b => b.n ≤ a.n) := by
  have := List.pairwise_mergeSort (le := fun a b : Clu => decide (b.n ≤ a.n)) sortLe_trans sortLe_total cs
  simpa [sortClus] using this

/-- stability: a sublist that is already in order survives the sort -/
theorem sortClus_sublist {cs ys : List Clu} (hp : ys.Pairwise (fun a b => b.n ≤ a.n)) (hs : ys.Sublist cs) :
    ys.Sublist (sortClus cs) :=
  List.sublist_mergeSort (le := fun a b : Clu => decide (b.n ≤ a.n)) sortLe_trans sortLe_total
    (by simpa using hp) hs

/-! ### the boolean Jaccard distance -/

theorem popc_xorRow_le_orRow : ∀ (a b : Row), popc (xorRow a b) ≤ popc (orRow a b)
  | [], _ => by simp [xorRow, orRow, popc]
  | _ :: _, [] => by simp [xorRow, orRow, popc]
  | x :: a, y :: b => by
    have ih := popc_xorRow_le_orRow a b
    simp only [popc, xorRow, orRow, List.zipWith_cons_cons, List.count_cons] at ih ⊢
    cases x <;> cases y <;> simp <;> omega

theorem popc_xorRow_self : ∀ (a : Row), popc (xorRow a a) = 0
  | [] => rfl
  | x :: a => by
    have ih := popc_xorRow_self a
    simp only [popc, xorRow, List.zipWith_cons_cons, List.count_cons] at ih ⊢
    cases x <;> simpa using ih

end BB
