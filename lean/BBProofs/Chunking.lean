/-
Cutting one `fit` call into two consecutive calls does not change anything.
-/
import BBProofs.Ops

namespace BB
variable (P : Policy)

/-- the `fit` loop over a concatenation -/
theorem fitRows_append (bf F : Nat) : ∀ (l1 l2 : List (Nat × Row)) (st : TreeSt) (k : Nat),
    fitRows P bf F st k (l1 ++ l2) =
      match fitRows P bf F st k l1 with
      | (st1, k1, none) => fitRows P bf F st1 k1 l2
      | r => r
  | [], l2, st, k => by simp [fitRows]
  | (lab, r) :: l1, l2, st, k => by
    simp only [List.cons_append, fitRows]
    split
    · rfl
    · split
      · rfl
      · exact fitRows_append bf F l1 l2 _ _

variable (pol : Cfg → Policy)

theorem fit_chunking (hpol : ∀ cfg, (pol cfg).Valid) (e : Est) (hbf : 1 ≤ e.cfg.bf) (hok : e.st.OK)
    (xs ys : List Row) (F : Nat) (hF : ∀ r0, xs.head? = some r0 → (e.st.F?).getD r0.length = F)
    (hall : ∀ r ∈ xs, r.length = F) (hx : xs ≠ []) :
    (fit (pol e.cfg) (fit (pol e.cfg) e xs none).1 ys none).1 = (fit (pol e.cfg) e (xs ++ ys) none).1 := by
  obtain ⟨x0, xs', rfl⟩ := List.exists_cons_of_ne_nil hx
  by_cases hlo : e.st.isLeavesOnly = true
  · rw [fit_leavesOnly _ _ _ _ hlo, fit_leavesOnly _ _ _ _ hlo, fit_leavesOnly _ _ _ _ hlo]
  · have hlo : e.st.isLeavesOnly = false := by simpa using hlo
    have hFF : (e.st.F?).getD x0.length = F := hF x0 rfl
    -- first call
    obtain ⟨st1, h1, hok1, hlo1, hF1, _, _⟩ :=
      fitRows_spec (pol e.cfg) (hpol _) e.cfg.bf hbf F
        ((List.range' e.numFitted (x0 :: xs').length).zip (x0 :: xs')) e.st e.numFitted hok hlo
    have hgood : goodPrefix F ((List.range' e.numFitted (x0 :: xs').length).zip (x0 :: xs'))
        = (List.range' e.numFitted (x0 :: xs').length).zip (x0 :: xs') := by
      unfold goodPrefix
      apply List.takeWhile_eq_self_iff.mpr
      intro p hp
      obtain ⟨i, hi, rfl⟩ := mem_zip_range' _ _ p hp
      simp [rowOk, hall _ (List.getElem_mem hi)]
    rw [hgood] at h1 hF1
    simp only [List.length_zip, List.length_range', Nat.min_self, ↓reduceIte] at h1
    have hF1' : st1.F? = some F := by
      rw [hF1 (by simp)]
      cases h : e.st.F? with
      | none => rfl
      | some F' => rw [h] at hFF; simpa using hFF
    have e1 : fit (pol e.cfg) e (x0 :: xs') none =
        ({ e with st := st1, numFitted := e.numFitted + (x0 :: xs').length }, none) := by
      rw [fit_eq _ _ _ _ _ hlo]
      simp only [hFF, h1]
    cases ys with
    | nil =>
      simp only [List.append_nil, e1]
      rfl
    | cons y0 ys' =>
      rw [e1]
      simp only
      rw [fit_eq _ _ _ _ _ (by simpa using hlo1), show (x0 :: xs') ++ (y0 :: ys') = x0 :: (xs' ++ y0 :: ys') from rfl,
        fit_eq _ _ _ _ _ hlo]
      simp only [hFF, hF1', Option.getD_some]
      have hzip : (List.range' e.numFitted (x0 :: (xs' ++ y0 :: ys')).length).zip (x0 :: (xs' ++ y0 :: ys'))
          = (List.range' e.numFitted (x0 :: xs').length).zip (x0 :: xs') ++
            (List.range' (e.numFitted + (x0 :: xs').length) (y0 :: ys').length).zip (y0 :: ys') := by
        have hl : (x0 :: (xs' ++ y0 :: ys')).length = (x0 :: xs').length + (y0 :: ys').length := by simp; omega
        rw [hl, ← List.range'_append_1, show x0 :: (xs' ++ y0 :: ys') = (x0 :: xs') ++ (y0 :: ys') from rfl,
          List.zip_append (by simp)]
      rw [hzip, fitRows_append, h1]

end BB
