/-
iSIM (`jt_isim_from_sum`) — exactness below 2^52, order invariance, the two-row case
(Tanimoto), and the complementary similarities.

Everything that is needed from floating-point rounding is taken through the hypothesis
`IsRounding rnd` (`BBProofs/Rounding.lean`); `rnd` is never unfolded here.
-/
import BBModel.Similarity
import BBProofs.Rounding
import Mathlib.Tactic.Ring
import Mathlib.Tactic.Linarith
import Mathlib.Tactic.Positivity
import Mathlib.Algebra.BigOperators.Group.List.Basic
import Mathlib.Data.List.Perm.Basic
import Mathlib.Algebra.Group.Nat.Even

namespace BB

/-! ### the exact value -/

/-- `Σ C(k,2)` -/
def pairSum (ks : List Nat) : Nat := (ks.map (fun k => k * (k - 1) / 2)).sum

/-- `Σ [C(k,2) + k(n−k)]` -/
def denSum (ks : List Nat) (n : Nat) : Nat :=
  (ks.map (fun k => k * (k - 1) / 2 + k * (n - k))).sum

/-- the exact rational iSIM Tanimoto: Σ C(k,2) / Σ [C(k,2) + k(n−k)] -/
def exactIsim (ks : List Nat) (n : Nat) : ℚ :=
  ((ks.map (fun k => (k * (k - 1) / 2 : Nat))).sum : ℚ) /
  ((ks.map (fun k => (k * (k - 1) / 2 + k * (n - k) : Nat))).sum : ℚ)

theorem exactIsim_eq (ks : List Nat) (n : Nat) :
    exactIsim ks n = (pairSum ks : ℚ) / (denSum ks n : ℚ) := rfl

/-- sum of squares -/
def sqSum (ks : List Nat) : Nat := (ks.map (fun k => k * k)).sum

/-! ### arithmetic of the sums -/

theorem choose_two_elem (k : Nat) : 2 * (k * (k - 1) / 2) + k = k * k := by
  rw [Nat.two_mul_div_two_of_even (Nat.even_mul_pred_self k)]
  cases k with
  | zero => rfl
  | succ k => simp only [Nat.add_sub_cancel]; ring

theorem two_pairSum (ks : List Nat) : 2 * pairSum ks + ks.sum = sqSum ks := by
  unfold pairSum sqSum
  induction ks with
  | nil => rfl
  | cons k ks ih =>
    simp only [List.map_cons, List.sum_cons]
    have := choose_two_elem k
    omega

theorem denSum_add_sqSum (ks : List Nat) (n : Nat) (hk : ∀ k ∈ ks, k ≤ n) :
    denSum ks n + sqSum ks = pairSum ks + n * ks.sum := by
  unfold denSum pairSum sqSum
  induction ks with
  | nil => rfl
  | cons k ks ih =>
    simp only [List.map_cons, List.sum_cons]
    have ih' := ih (fun x hx => hk x (List.mem_cons_of_mem _ hx))
    have hkn : k ≤ n := hk k List.mem_cons_self
    have e : k * (n - k) + k * k = n * k := by
      obtain ⟨d, rfl⟩ := Nat.exists_eq_add_of_le hkn
      simp only [Nat.add_sub_cancel_left]; ring
    rw [Nat.mul_add]
    omega

theorem sqSum_le (ks : List Nat) (n : Nat) (hk : ∀ k ∈ ks, k ≤ n) :
    sqSum ks ≤ n * ks.sum := by
  unfold sqSum
  induction ks with
  | nil => simp
  | cons k ks ih =>
    simp only [List.map_cons, List.sum_cons]
    have ih' := ih (fun x hx => hk x (List.mem_cons_of_mem _ hx))
    have hkn : k ≤ n := hk k List.mem_cons_self
    have : k * k ≤ n * k := Nat.mul_le_mul_right k hkn
    rw [Nat.mul_add]
    omega

theorem sum_le_sqSum (ks : List Nat) : ks.sum ≤ sqSum ks := by
  have := two_pairSum ks
  omega

theorem sum_le_mul_sum (ks : List Nat) (n : Nat) (hk : ∀ k ∈ ks, k ≤ n) :
    ks.sum ≤ n * ks.sum := (sum_le_sqSum ks).trans (sqSum_le ks n hk)

theorem map_sum_pos {f : Nat → Nat} (ks : List Nat) (h : ∃ k ∈ ks, 0 < f k) :
    0 < (ks.map f).sum := by
  induction ks with
  | nil => simp at h
  | cons x ks ih =>
    simp only [List.map_cons, List.sum_cons]
    obtain ⟨k, hk, hpos⟩ := h
    rcases List.mem_cons.1 hk with rfl | hk'
    · omega
    · have := ih ⟨k, hk', hpos⟩
      omega

theorem exists_pos_of_sum_pos (ks : List Nat) (h : 0 < ks.sum) : ∃ k ∈ ks, 0 < k := by
  induction ks with
  | nil => simp at h
  | cons x ks ih =>
    simp only [List.sum_cons] at h
    by_cases hx : 0 < x
    · exact ⟨x, List.mem_cons_self, hx⟩
    · have : 0 < ks.sum := by omega
      obtain ⟨k, hk, hp⟩ := ih this
      exact ⟨k, List.mem_cons_of_mem _ hk, hp⟩

/-! ### 1, 2: NaN and the all-zero case -/

theorem isim_none (ks : List Nat) (n : Nat) (h : n < 2) : isimFromSum ks n = none := by
  unfold isimFromSum
  simp [h]

theorem isim_isSome (ks : List Nat) (n : Nat) (h : 2 ≤ n) : (isimFromSum ks n).isSome := by
  unfold isimFromSum
  have : ¬ n < 2 := by omega
  simp only [this, if_false]
  split <;> rfl

theorem isim_empty (ks : List Nat) (n : Nat) (h : 2 ≤ n) (h0 : ks.sum = 0) :
    isimFromSum ks n = some 1 := by
  unfold isimFromSum
  have : ¬ n < 2 := by omega
  simp [this, h0, u64]

/-! ### 6: column-order invariance -/

theorem isim_perm (ks ks' : List Nat) (n : Nat) (h : ks.Perm ks') :
    isimFromSum ks n = isimFromSum ks' n := by
  unfold isimFromSum
  rw [h.sum_nat, (h.map (fun k => k * k)).sum_nat]

/-! ### 3: no wrap-around -/

theorem isim_no_wrap (ks : List Nat) (n : Nat) (hk : ∀ k ∈ ks, k ≤ n)
    (hb : n * ks.sum < 2 ^ 64) :
    u64 ks.sum = ks.sum ∧
    u64 ((ks.map (fun k => k * k)).sum) = (ks.map (fun k => k * k)).sum ∧
    u64 (n * ks.sum) = n * ks.sum ∧
    ks.sum ≤ (ks.map (fun k => k * k)).sum ∧
    u64 ((ks.map (fun k => k * k)).sum + 2 ^ 64 - ks.sum)
      = (ks.map (fun k => k * k)).sum - ks.sum := by
  have h1 : sqSum ks ≤ n * ks.sum := sqSum_le ks n hk
  have h2 : ks.sum ≤ sqSum ks := sum_le_sqSum ks
  unfold sqSum at h1 h2
  unfold u64
  refine ⟨Nat.mod_eq_of_lt (by omega), Nat.mod_eq_of_lt (by omega),
    Nat.mod_eq_of_lt hb, h2, ?_⟩
  generalize (ks.map (fun k => k * k)).sum = Q at *
  generalize ks.sum = S at *
  generalize n * S = N at *
  omega

/-! ### 5: the denominator is positive -/

theorem isim_den_pos (ks : List Nat) (n : Nat) (hn : 2 ≤ n) (hk : ∀ k ∈ ks, k ≤ n)
    (hS : 0 < ks.sum) :
    0 < (ks.map (fun k => k * (k - 1) / 2 + k * (n - k))).sum := by
  obtain ⟨k, hmem, hpos⟩ := exists_pos_of_sum_pos ks hS
  refine map_sum_pos ks ⟨k, hmem, ?_⟩
  have hkn := hk k hmem
  by_cases h1 : k = 1
  · subst h1
    have : 0 < 1 * (n - 1) := by omega
    omega
  · have h2 : 2 ≤ k := by omega
    have : 2 * 1 ≤ k * (k - 1) := Nat.mul_le_mul h2 (by omega)
    have : 1 ≤ k * (k - 1) / 2 := by omega
    omega

/-! ### 4: exactness below 2^52 -/

/-- without wrap-around the `u64` reductions disappear -/
theorem isimFromSum_of_no_wrap (ks : List Nat) (n : Nat) (hn : 2 ≤ n) (hk : ∀ k ∈ ks, k ≤ n)
    (hS : 0 < ks.sum) (hb : n * ks.sum < 2 ^ 64) :
    isimFromSum ks n =
      some (fdiv (ofNat (sqSum ks - ks.sum) / 2)
        (fsub (fadd (ofNat (sqSum ks - ks.sum) / 2) (ofNat (n * ks.sum))) (ofNat (sqSum ks)))) := by
  obtain ⟨h1, h2, h3, _, h5⟩ := isim_no_wrap ks n hk hb
  unfold isimFromSum
  have hn' : ¬ n < 2 := by omega
  have hS' : ks.sum ≠ 0 := by omega
  simp only [hn', if_false, h1, h2, h3, h5, hS', sqSum]

theorem ofNat_exact (hr : IsRounding rnd) (m : Nat) (h : m < 2 ^ 53) : ofNat m = (m : ℚ) :=
  hr.fix_nat m h

/-- the exact form of `isimFromSum` in terms of the two sums -/
theorem isim_exact' (hr : IsRounding rnd) (ks : List Nat) (n : Nat) (hn : 2 ≤ n)
    (hk : ∀ k ∈ ks, k ≤ n) (hS : 0 < ks.sum) (hb : n * ks.sum < 2 ^ 52) :
    isimFromSum ks n = some (rnd ((pairSum ks : ℚ) / (denSum ks n : ℚ))) := by
  rw [isimFromSum_of_no_wrap ks n hn hk hS (by omega)]
  have e1 := two_pairSum ks
  have e2 := denSum_add_sqSum ks n hk
  have e3 := sqSum_le ks n hk
  have hQS : sqSum ks - ks.sum = 2 * pairSum ks := by omega
  have ha : ofNat (sqSum ks - ks.sum) / 2 = (pairSum ks : ℚ) := by
    rw [hQS, ofNat_exact hr _ (by omega)]
    push_cast
    ring
  have hnS : ofNat (n * ks.sum) = ((n * ks.sum : Nat) : ℚ) := ofNat_exact hr _ (by omega)
  have hQ : ofNat (sqSum ks) = (sqSum ks : ℚ) := ofNat_exact hr _ (by omega)
  have hadd : fadd (pairSum ks : ℚ) ((n * ks.sum : Nat) : ℚ)
      = ((pairSum ks + n * ks.sum : Nat) : ℚ) := by
    unfold fadd
    rw [← Nat.cast_add]
    exact hr.fix_nat _ (by omega)
  have hsub : fsub ((pairSum ks + n * ks.sum : Nat) : ℚ) (sqSum ks : ℚ)
      = (denSum ks n : ℚ) := by
    unfold fsub
    have : ((pairSum ks + n * ks.sum : Nat) : ℚ) - (sqSum ks : ℚ) = (denSum ks n : ℚ) := by
      rw [← e2]; push_cast; ring
    rw [this]
    exact hr.fix_nat _ (by omega)
  rw [ha, hnS, hQ, hadd, hsub]
  rfl

theorem isim_exact (hr : IsRounding rnd) (ks : List Nat) (n : Nat) (hn : 2 ≤ n)
    (hk : ∀ k ∈ ks, k ≤ n) (hS : 0 < ks.sum) (hb : n * ks.sum < 2 ^ 52) :
    isimFromSum ks n = some (rnd (exactIsim ks n)) :=
  isim_exact' hr ks n hn hk hS hb

/-! ### 10: the value lies in [0, 1] -/

theorem pairSum_le_denSum (ks : List Nat) (n : Nat) : pairSum ks ≤ denSum ks n := by
  unfold pairSum denSum
  induction ks with
  | nil => simp
  | cons k ks ih =>
    simp only [List.map_cons, List.sum_cons]
    omega

theorem exactIsim_nonneg (ks : List Nat) (n : Nat) : 0 ≤ exactIsim ks n := by
  rw [exactIsim_eq]; positivity

theorem exactIsim_le_one (ks : List Nat) (n : Nat) : exactIsim ks n ≤ 1 := by
  rw [exactIsim_eq]
  apply div_le_one_of_le₀
  · exact_mod_cast pairSum_le_denSum ks n
  · positivity

theorem isim_le_one (hr : IsRounding rnd) (ks : List Nat) (n : Nat) (hn : 2 ≤ n)
    (hk : ∀ k ∈ ks, k ≤ n) (hS : 0 < ks.sum) (hb : n * ks.sum < 2 ^ 52) :
    ∃ v, isimFromSum ks n = some v ∧ 0 ≤ v ∧ v ≤ 1 := by
  refine ⟨_, isim_exact hr ks n hn hk hS hb, ?_, ?_⟩
  · have := hr.mono (exactIsim_nonneg ks n)
    rwa [hr.zero] at this
  · have := hr.mono (exactIsim_le_one ks n)
    have h1 : rnd (1 : ℚ) = 1 := by
      have := hr.fix_nat 1 (by norm_num)
      simpa using this
    rwa [h1] at this

/-! ### 7: row-order invariance -/

@[simp] theorem addLs_nil_left_I (b : List Nat) : addLs [] b = b := by
  unfold addLs; rfl

@[simp] theorem addLs_nil_right_I (a : List Nat) : addLs a [] = a := by
  cases a <;> rfl

@[simp] theorem addLs_cons_cons_I (x y : Nat) (a b : List Nat) :
    addLs (x :: a) (y :: b) = (x + y) :: addLs a b := rfl

theorem addLs_comm_I (a b : List Nat) : addLs a b = addLs b a := by
  induction a generalizing b with
  | nil => simp
  | cons x a ih =>
    cases b with
    | nil => simp
    | cons y b => simp [ih b, Nat.add_comm]

theorem addLs_assoc_I (a b c : List Nat) : addLs (addLs a b) c = addLs a (addLs b c) := by
  induction a generalizing b c with
  | nil => simp
  | cons x a ih =>
    cases b with
    | nil => simp
    | cons y b =>
      cases c with
      | nil => simp
      | cons z c => simp [ih b c, Nat.add_assoc]

theorem addLs_right_comm_I (a b c : List Nat) : addLs (addLs a b) c = addLs (addLs a c) b := by
  rw [addLs_assoc_I, addLs_comm_I b c, ← addLs_assoc_I]

instance : RightCommutative (fun (acc : List Nat) (r : Row) => addLs acc (rowToNat r)) :=
  ⟨fun a r s => addLs_right_comm_I a (rowToNat r) (rowToNat s)⟩

theorem colSum_perm (rows rows' : List Row) (h : rows.Perm rows') :
    colSum rows = colSum rows' := by
  unfold colSum
  exact h.foldl_eq []

theorem isimRows_perm (rows rows' : List Row) (h : rows.Perm rows') :
    isimRows rows = isimRows rows' := by
  unfold isimRows
  rw [colSum_perm rows rows' h, h.length_eq]

theorem foldl_addLs (init : List Nat) (rows : List Row) :
    rows.foldl (fun acc r => addLs acc (rowToNat r)) init = addLs init (colSum rows) := by
  unfold colSum
  induction rows generalizing init with
  | nil => simp
  | cons r rows ih =>
    simp only [List.foldl_cons]
    rw [ih (addLs init (rowToNat r)), ih (addLs [] (rowToNat r)), addLs_nil_left_I, addLs_assoc_I]

theorem colSum_nil_I : colSum [] = [] := rfl

theorem colSum_cons_I (r : Row) (rows : List Row) :
    colSum (r :: rows) = addLs (rowToNat r) (colSum rows) := by
  show List.foldl _ _ _ = _
  rw [List.foldl_cons, foldl_addLs, addLs_nil_left_I]

/-! ### 8: two rows — iSIM is the Tanimoto similarity -/

theorem colSum_pair (a b : Row) : colSum [a, b] = addLs (rowToNat a) (rowToNat b) := by
  rw [colSum_cons_I, colSum_cons_I, colSum_nil_I, addLs_nil_right_I]

theorem pair_facts (a b : Row) (hl : a.length = b.length) :
    (addLs (rowToNat a) (rowToNat b)).sum = popc a + popc b ∧
    pairSum (addLs (rowToNat a) (rowToNat b)) = popc (andRow a b) ∧
    denSum (addLs (rowToNat a) (rowToNat b)) 2 + popc (andRow a b) = popc a + popc b ∧
    ∀ k ∈ addLs (rowToNat a) (rowToNat b), k ≤ 2 := by
  induction a generalizing b with
  | nil =>
    cases b with
    | nil => simp [rowToNat, popc, andRow, pairSum, denSum]
    | cons y b => simp at hl
  | cons x a ih =>
    cases b with
    | nil => simp at hl
    | cons y b =>
      have hl' : a.length = b.length := by simpa using hl
      obtain ⟨h1, h2, h3, h4⟩ := ih b hl'
      unfold pairSum at h2 ⊢
      unfold denSum at h3 ⊢
      unfold popc andRow at *
      unfold rowToNat at *
      cases x <;> cases y <;>
        simp only [List.map_cons, addLs_cons_cons_I, List.sum_cons, List.count_cons,
          List.zipWith_cons_cons, List.mem_cons, forall_eq_or_imp, Bool.and_self,
          Bool.and_true, Bool.and_false, beq_self_eq_true, if_true, if_false,
          Bool.false_eq_true, beq_iff_eq] <;>
        refine ⟨by omega, by omega, by omega, by omega, h4⟩

theorem isim_pair (hr : IsRounding rnd) (a b : Row) (hl : a.length = b.length)
    (hu : 0 < popc a + popc b) (hb : 2 * (popc a + popc b) < 2 ^ 52) :
    isimFromSum (colSum [a, b]) 2 = some (jtBits a b) := by
  rw [colSum_pair]
  obtain ⟨h1, h2, h3, h4⟩ := pair_facts a b hl
  have hS : 0 < (addLs (rowToNat a) (rowToNat b)).sum := by omega
  have hden := isim_den_pos _ 2 (le_refl 2) h4 hS
  rw [isim_exact' hr _ 2 (le_refl 2) h4 hS (by omega)]
  change 0 < denSum _ 2 at hden
  have hmax : max (popc a + popc b - popc (andRow a b)) 1
      = denSum (addLs (rowToNat a) (rowToNat b)) 2 := by omega
  unfold jtBits jtCounts fdiv
  rw [hmax, h2]

/-! ### 9: complementary similarities -/

theorem addLs_length_I (a b : List Nat) : (addLs a b).length = max a.length b.length := by
  induction a generalizing b with
  | nil => simp
  | cons x a ih =>
    cases b with
    | nil => simp
    | cons y b => simp [ih b]

theorem rowToNat_length_I (r : Row) : (rowToNat r).length = r.length := by
  simp [rowToNat]

theorem colSum_length_le (rows : List Row) (F : Nat) (hF : ∀ r ∈ rows, r.length = F) :
    (colSum rows).length ≤ F := by
  induction rows with
  | nil => simp [colSum_nil_I]
  | cons r rows ih =>
    rw [colSum_cons_I, addLs_length_I, rowToNat_length_I, hF r List.mem_cons_self]
    have := ih (fun x hx => hF x (List.mem_cons_of_mem _ hx))
    omega

theorem colSum_length_I (rows : List Row) (F : Nat) (hF : ∀ r ∈ rows, r.length = F)
    (hne : rows ≠ []) : (colSum rows).length = F := by
  cases rows with
  | nil => exact absurd rfl hne
  | cons r rows =>
    rw [colSum_cons_I, addLs_length_I, rowToNat_length_I, hF r List.mem_cons_self]
    have := colSum_length_le rows F (fun x hx => hF x (List.mem_cons_of_mem _ hx))
    omega

theorem subLs_addLs_cancel (y x : List Nat) (h : x.length = y.length) :
    subLs (addLs y x) y = x := by
  unfold subLs
  induction y generalizing x with
  | nil =>
    cases x with
    | nil => rfl
    | cons a x => simp at h
  | cons b y ih =>
    cases x with
    | nil => simp at h
    | cons a x =>
      have h' : x.length = y.length := by simpa using h
      simp [ih x h']

/-- removing a row from the column sums -/
theorem subLs_colSum (rows : List Row) (F : Nat) (hF : ∀ r ∈ rows, r.length = F)
    (i : Nat) (hi : i < rows.length) (h2 : 2 ≤ rows.length) :
    subLs (colSum rows) (rowToNat rows[i]) = colSum (rows.eraseIdx i) := by
  have hp : (rows[i] :: rows.eraseIdx i).Perm rows := List.getElem_cons_eraseIdx_perm hi
  rw [← colSum_perm _ _ hp, colSum_cons_I]
  apply subLs_addLs_cancel
  rw [rowToNat_length_I, hF _ (List.getElem_mem hi)]
  apply colSum_length_I _ F (fun r hr => hF r (List.mem_of_mem_eraseIdx hr))
  intro hnil
  have := congrArg List.length hnil
  rw [List.length_eraseIdx_of_lt hi] at this
  simp at this
  omega

theorem complIsim_spec (rows : List Row) (F : Nat) (hF : ∀ r ∈ rows, r.length = F)
    (h3 : 3 ≤ rows.length) (i : Nat) (hi : i < rows.length) :
    (complIsim rows)[i]? =
      some (isimFromSum (colSum (rows.eraseIdx i)) (rows.length - 1)) := by
  unfold complIsim
  have hlt : ¬ rows.length - 1 < 2 := by omega
  simp only [hlt, if_false, List.getElem?_map, List.getElem?_eq_getElem hi, Option.map_some]
  rw [subLs_colSum rows F hF i hi (by omega)]

/-- the same value as a sum of rationals -/
theorem exactIsim_eq_cast_sum (ks : List Nat) (n : Nat) :
    exactIsim ks n =
      ((ks.map (fun k => ((k * (k - 1) / 2 : Nat) : ℚ))).sum) /
      ((ks.map (fun k => ((k * (k - 1) / 2 + k * (n - k) : Nat) : ℚ))).sum) := by
  unfold exactIsim
  congr 1 <;> induction ks with
  | nil => simp
  | cons k ks ih => simp only [List.map_cons, List.sum_cons, Nat.cast_add, ih]

theorem isimRows_pair (hr : IsRounding rnd) (a b : Row) (hl : a.length = b.length)
    (hu : 0 < popc a + popc b) (hb : 2 * (popc a + popc b) < 2 ^ 52) :
    isimRows [a, b] = some (jtBits a b) := isim_pair hr a b hl hu hb

/-- the sums are taken in `ℕ` and then cast -/
example (ks : List Nat) (n : Nat) : exactIsim ks n =
    (((ks.map (fun k => k * (k - 1) / 2)).sum : Nat) : ℚ) /
    (((ks.map (fun k => k * (k - 1) / 2 + k * (n - k))).sum : Nat) : ℚ) := rfl


end BB
