/-
iSIM (`jt_isim_from_sum`) — forward error analysis of the float formula on the whole
no-wrap range `n·Σk < 2^64`.

With `u = 2^-53`, `P = Σ C(k,2)`, `Q = Σ k²`, `N = n·Σk`, `D = P + N − Q` (the exact denominator):
every conversion and every operation contributes a factor `(1 ± u)`; the only cancellation is in
`(a + N) − Q`, and since `Q ≤ 4·D` (from `2·Σk ≤ N`, `Q ≤ N`) its amplification is bounded:
the rounded denominator lies in `[(1−u)(1−14u)·D, (1+u)(1+14u+5u²)·D]`, the quotient within
`18·u` (relative) of `P/D`.
-/
import BBProofs.Isim
import BBProofs.Fl
import Mathlib.Tactic.NormNum
import Mathlib.Tactic.Linarith
import Mathlib.Tactic.Ring
import Mathlib.Tactic.Positivity
import Mathlib.Algebra.Order.Field.Basic

namespace BB

theorem isimErr_two_zpow_neg53 : (2:ℚ) ^ (-53 : ℤ) = 1 / 9007199254740992 := by norm_num

/-- two-sided form of `rnd_relErr` for a nonnegative argument -/
theorem isimErr_rnd_two_sided {x : ℚ} (hx : 0 ≤ x) :
    (1 - 1 / 9007199254740992) * x ≤ rnd x ∧ rnd x ≤ (1 + 1 / 9007199254740992) * x := by
  have h := rnd_relErr x
  rw [abs_of_nonneg hx, abs_le, isimErr_two_zpow_neg53] at h
  constructor <;> linarith [h.1, h.2]

/-- the subtraction `(a + N) − Q`: bounded amplification -/
theorem isimErr_sub {P Q N D a n' q' t : ℚ}
    (hQD : Q ≤ 4 * D) (hN : D + Q = P + N)
    (ha : (1 - 1 / 9007199254740992) * P ≤ a ∧ a ≤ (1 + 1 / 9007199254740992) * P)
    (hn : (1 - 1 / 9007199254740992) * N ≤ n' ∧ n' ≤ (1 + 1 / 9007199254740992) * N)
    (hq : (1 - 1 / 9007199254740992) * Q ≤ q' ∧ q' ≤ (1 + 1 / 9007199254740992) * Q)
    (ht : (1 - 1 / 9007199254740992) * (a + n') ≤ t ∧ t ≤ (1 + 1 / 9007199254740992) * (a + n')) :
    (1 - 14 / 9007199254740992) * D ≤ t - q' ∧
      t - q' ≤ (1 + 14 / 9007199254740992 + 5 / 9007199254740992 ^ 2) * D := by
  obtain ⟨ha1, ha2⟩ := ha
  obtain ⟨hn1, hn2⟩ := hn
  obtain ⟨hq1, hq2⟩ := hq
  obtain ⟨ht1, ht2⟩ := ht
  have hN' : N = D + Q - P := by linarith
  subst hN'
  constructor
  · have h1 : (1 - 1 / 9007199254740992) * ((1 - 1 / 9007199254740992) * P +
        (1 - 1 / 9007199254740992) * (D + Q - P)) ≤ t := by
      refine le_trans (mul_le_mul_of_nonneg_left ?_ (by norm_num)) ht1
      linarith
    linarith
  · have h1 : t ≤ (1 + 1 / 9007199254740992) * ((1 + 1 / 9007199254740992) * P +
        (1 + 1 / 9007199254740992) * (D + Q - P)) := by
      refine le_trans ht2 (mul_le_mul_of_nonneg_left ?_ (by norm_num))
      linarith
    linarith

/-- the quotient: from the bounds on numerator and denominator to the relative error `18·u` -/
theorem isimErr_div {P D a d v : ℚ} (hP : 0 ≤ P) (hD : 0 < D)
    (ha : (1 - 1 / 9007199254740992) * P ≤ a ∧ a ≤ (1 + 1 / 9007199254740992) * P)
    (hd : (1 - 1 / 9007199254740992) * ((1 - 14 / 9007199254740992) * D) ≤ d ∧
      d ≤ (1 + 1 / 9007199254740992) *
        ((1 + 14 / 9007199254740992 + 5 / 9007199254740992 ^ 2) * D))
    (hv : (1 - 1 / 9007199254740992) * (a / d) ≤ v ∧ v ≤ (1 + 1 / 9007199254740992) * (a / d)) :
    |v - P / D| ≤ 18 / 9007199254740992 * (P / D) := by
  obtain ⟨ha1, ha2⟩ := ha
  obtain ⟨hd1, hd2⟩ := hd
  obtain ⟨hv1, hv2⟩ := hv
  have hd0 : 0 < d := lt_of_lt_of_le (by positivity) hd1
  have he0 : 0 ≤ P / D := by positivity
  have heD : P / D * D = P := div_mul_cancel₀ P hD.ne'
  -- r = a / d, e = P / D
  have hup : a / d ≤ (1 + 16 / 9007199254740992 + 227 / 9007199254740992 ^ 2) * (P / D) := by
    rw [div_le_iff₀ hd0]
    have h1 : P / D * ((1 - 1 / 9007199254740992) * ((1 - 14 / 9007199254740992) * D))
        ≤ P / D * d := mul_le_mul_of_nonneg_left hd1 he0
    have h2 : P / D * ((1 - 1 / 9007199254740992) * ((1 - 14 / 9007199254740992) * D))
        = (1 - 1 / 9007199254740992) * (1 - 14 / 9007199254740992) * P := by
      conv_rhs => rw [← heD]
      ring
    rw [h2] at h1
    have h3 : (1 + 1 / 9007199254740992) * P ≤
        (1 + 16 / 9007199254740992 + 227 / 9007199254740992 ^ 2) *
          ((1 - 1 / 9007199254740992) * (1 - 14 / 9007199254740992) * P) := by
      rw [← mul_assoc]
      exact mul_le_mul_of_nonneg_right (by norm_num) hP
    calc a ≤ (1 + 1 / 9007199254740992) * P := ha2
      _ ≤ _ := h3
      _ ≤ (1 + 16 / 9007199254740992 + 227 / 9007199254740992 ^ 2) * (P / D * d) :=
          mul_le_mul_of_nonneg_left h1 (by norm_num)
      _ = _ := by ring
  have hlo : (1 - 16 / 9007199254740992) * (P / D) ≤ a / d := by
    rw [le_div_iff₀ hd0]
    have h1 : P / D * d ≤ P / D * ((1 + 1 / 9007199254740992) *
        ((1 + 14 / 9007199254740992 + 5 / 9007199254740992 ^ 2) * D)) :=
      mul_le_mul_of_nonneg_left hd2 he0
    have h2 : P / D * ((1 + 1 / 9007199254740992) *
        ((1 + 14 / 9007199254740992 + 5 / 9007199254740992 ^ 2) * D))
        = (1 + 1 / 9007199254740992) *
          (1 + 14 / 9007199254740992 + 5 / 9007199254740992 ^ 2) * P := by
      conv_rhs => rw [← heD]
      ring
    rw [h2] at h1
    have h3 : (1 - 16 / 9007199254740992) * ((1 + 1 / 9007199254740992) *
          (1 + 14 / 9007199254740992 + 5 / 9007199254740992 ^ 2) * P)
        ≤ (1 - 1 / 9007199254740992) * P := by
      rw [← mul_assoc]
      exact mul_le_mul_of_nonneg_right (by norm_num) hP
    calc (1 - 16 / 9007199254740992) * (P / D) * d
        = (1 - 16 / 9007199254740992) * (P / D * d) := by ring
      _ ≤ _ := mul_le_mul_of_nonneg_left h1 (by norm_num)
      _ ≤ _ := h3
      _ ≤ a := ha1
  rw [abs_le]
  constructor <;> linarith

/-- **ulp bound** on the whole no-wrap range: the float formula is within `18·2^-53` (relative) of
the exact rational definition, and nonnegative -/
theorem isim_ulp (ks : List Nat) (n : Nat) (hn : 2 ≤ n) (hk : ∀ k ∈ ks, k ≤ n) (hS : 0 < ks.sum)
    (hb : n * ks.sum < 2 ^ 64) :
    ∃ v, isimFromSum ks n = some v ∧
      |v - exactIsim ks n| ≤ 18 * 2 ^ (-53 : ℤ) * exactIsim ks n ∧ 0 ≤ v := by
  rw [isimFromSum_of_no_wrap ks n hn hk hS hb]
  have e1 := two_pairSum ks
  have e2 := denSum_add_sqSum ks n hk
  have e3 := sqSum_le ks n hk
  have e4 : 2 * ks.sum ≤ n * ks.sum := Nat.mul_le_mul_right _ hn
  have e5 : 0 < denSum ks n := isim_den_pos ks n hn hk hS
  have hQS : sqSum ks - ks.sum = 2 * pairSum ks := by omega
  have hQD : sqSum ks ≤ 4 * denSum ks n := by omega
  -- the rational quantities
  have hP : (0:ℚ) ≤ (pairSum ks : ℚ) := Nat.cast_nonneg _
  have hQ : (0:ℚ) ≤ (sqSum ks : ℚ) := Nat.cast_nonneg _
  have hN : (0:ℚ) ≤ ((n * ks.sum : ℕ) : ℚ) := Nat.cast_nonneg _
  have hD : (0:ℚ) < (denSum ks n : ℚ) := by exact_mod_cast e5
  have hQD' : (sqSum ks : ℚ) ≤ 4 * (denSum ks n : ℚ) := by exact_mod_cast hQD
  have hDN : (denSum ks n : ℚ) + (sqSum ks : ℚ) = (pairSum ks : ℚ) + ((n * ks.sum : ℕ) : ℚ) := by
    exact_mod_cast e2
  have ha_eq : ofNat (sqSum ks - ks.sum) / 2 = rnd (pairSum ks : ℚ) := by
    unfold ofNat
    rw [hQS, ← rnd_half]
    congr 1
    push_cast
    ring
  rw [ha_eq]
  unfold ofNat fdiv fsub fadd
  -- the roundings
  have ha := isimErr_rnd_two_sided hP
  have hn' := isimErr_rnd_two_sided hN
  have hq := isimErr_rnd_two_sided hQ
  have ha0 : 0 ≤ rnd (pairSum ks : ℚ) := rnd_nonneg hP
  have hn0 : 0 ≤ rnd ((n * ks.sum : ℕ) : ℚ) := rnd_nonneg hN
  have ht := isimErr_rnd_two_sided (add_nonneg ha0 hn0)
  have hw := isimErr_sub hQD' hDN ha hn' hq ht
  have hw0 : 0 ≤ rnd (rnd (pairSum ks : ℚ) + rnd ((n * ks.sum : ℕ) : ℚ)) - rnd (sqSum ks : ℚ) :=
    le_trans (mul_nonneg (by norm_num) hD.le) hw.1
  have hd := isimErr_rnd_two_sided hw0
  have hd' : (1 - 1 / 9007199254740992) * ((1 - 14 / 9007199254740992) * (denSum ks n : ℚ)) ≤
        rnd (rnd (rnd (pairSum ks : ℚ) + rnd ((n * ks.sum : ℕ) : ℚ)) - rnd (sqSum ks : ℚ)) ∧
      rnd (rnd (rnd (pairSum ks : ℚ) + rnd ((n * ks.sum : ℕ) : ℚ)) - rnd (sqSum ks : ℚ)) ≤
        (1 + 1 / 9007199254740992) *
          ((1 + 14 / 9007199254740992 + 5 / 9007199254740992 ^ 2) * (denSum ks n : ℚ)) :=
    ⟨le_trans (mul_le_mul_of_nonneg_left hw.1 (by norm_num)) hd.1,
     le_trans hd.2 (mul_le_mul_of_nonneg_left hw.2 (by norm_num))⟩
  have hd0 : 0 < rnd (rnd (rnd (pairSum ks : ℚ) + rnd ((n * ks.sum : ℕ) : ℚ)) - rnd (sqSum ks : ℚ)) :=
    lt_of_lt_of_le (by positivity) hd'.1
  have hr0 : 0 ≤ rnd (pairSum ks : ℚ) /
      rnd (rnd (rnd (pairSum ks : ℚ) + rnd ((n * ks.sum : ℕ) : ℚ)) - rnd (sqSum ks : ℚ)) :=
    div_nonneg ha0 hd0.le
  have hv := isimErr_rnd_two_sided hr0
  refine ⟨_, rfl, ?_, rnd_nonneg hr0⟩
  have := isimErr_div hP hD ha hd' hv
  rw [exactIsim_eq, isimErr_two_zpow_neg53]
  convert this using 1
  ring

/-- hence the value lies in `[0, 1 + 18·2^-53]` on the whole no-wrap range -/
theorem isim_range_ulp (ks : List Nat) (n : Nat) (hn : 2 ≤ n) (hk : ∀ k ∈ ks, k ≤ n)
    (hS : 0 < ks.sum) (hb : n * ks.sum < 2 ^ 64) :
    ∃ v, isimFromSum ks n = some v ∧ 0 ≤ v ∧ v ≤ 1 + 18 * 2 ^ (-53 : ℤ) := by
  obtain ⟨v, hv, herr, h0⟩ := isim_ulp ks n hn hk hS hb
  refine ⟨v, hv, h0, ?_⟩
  have h1 := exactIsim_le_one ks n
  have h2 := exactIsim_nonneg ks n
  rw [abs_le] at herr
  have h3 : 18 * 2 ^ (-53 : ℤ) * exactIsim ks n ≤ 18 * (2:ℚ) ^ (-53 : ℤ) :=
    mul_le_of_le_one_right (by positivity) h1
  linarith [herr.2]

/-- the upper end `v ≤ 1` is FALSE above 2^52: for a single column with `k = n = 77490642`
(`n·Σk = n² ≈ 1.33·2^52`, exact value 1) the float formula returns `1 + 2^-52` -/
theorem isim_gt_one_witness :
    exactIsim [77490642] 77490642 = 1 ∧
    isimFromSum [77490642] 77490642 = some (4503599627370497 / 4503599627370496) := by
  decide +kernel

end BB
