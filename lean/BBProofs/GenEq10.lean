/-
GenEq10 — the reader of the peak file, `_memory.get_peak_memory_gib`, as translated on this run, performs the four steps of
the model's reader (`BB.Mon.rstep`: existence test, open, read, parse) in this order, with the model's outcomes:
no file → `None`; a complete text → its value; an empty file → `ValueError`.
`file.exists()` and the text returned by `f.read()` are inputs; `float(text.strip())` is `PV.floatOf ∘ PV.strStrip`
(decimal literals; validated against the interpreter by S-GEN on reprs of floats and on their proper prefixes).
-/
import BBProofs.GenEq
import BBModel.Monitor

namespace BB
open PV BB.Mon

/-- no peak file: nothing is opened, the result is `None` (model: `.start ↦ .done none`) -/
theorem gen_reader_absent (expf : Rat → Rat) (dir : String) (content : PV) :
    BBGen.get_peak_memory_gib expf (PV.str dir) content (PV.bool false) = [PV.pynone] := by
  simp [BBGen.get_peak_memory_gib]

/-- the file exists: it is opened for reading, read once, closed, and the result is `float(text.strip())` — a value, or the
`ValueError` of an empty / non-numeric text, which the function raises -/
theorem gen_reader_present (expf : Rat → Rat) (dir : String) (content : PV) :
    BBGen.get_peak_memory_gib expf (PV.str dir) content (PV.bool true)
      = [PV.str "open", PV.str (dir ++ "/" ++ "max-rss.txt"), PV.str "r",
         PV.str "read", PV.str (dir ++ "/" ++ "max-rss.txt"),
         PV.str "close", PV.str (dir ++ "/" ++ "max-rss.txt"),
         PV.floatOf (PV.strStrip content)] := by
  simp [BBGen.get_peak_memory_gib, PV.pathJoin]

/-- an empty file (what a truncating writer exposes) makes the reader raise (model: `.read .empty ↦ .error`) -/
theorem floatOf_empty : PV.floatOf (PV.strStrip (PV.str "")) = PV.err "ValueError" := by decide +kernel

theorem floatOf_newline : PV.floatOf (PV.strStrip (PV.str "\n")) = PV.err "ValueError" := by decide +kernel

/-- a complete text is read back as its value, e.g. -/
example : PV.floatOf (PV.strStrip (PV.str "0.75\n")) = PV.flt (some (3 / 4)) := by decide +kernel

/-- … and a proper prefix of a longer text as ANOTHER number (model: `.read .part ↦ .wrong`), e.g. `12.5` cut after `12` -/
example : PV.floatOf (PV.strStrip (PV.str "12")) = PV.flt (some 12) ∧
    PV.floatOf (PV.strStrip (PV.str "12.5\n")) = PV.flt (some (25 / 2)) := by decide +kernel

end BB
