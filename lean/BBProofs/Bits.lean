/-
Helper lemmas about the L0 model (`BBModel/Bits.lean`) and the count-level Tanimoto
primitives of `BBModel/Similarity.lean`.
-/
import BBModel.Bits
import BBModel.Similarity
import Mathlib.Order.Monotone.Basic
import Mathlib.Algebra.Order.Field.Rat
import Mathlib.Algebra.Order.Field.Basic
import Mathlib.Tactic.Positivity

namespace BB

/-! ### bits and bytes -/

/-- numeric value of a bit -/
def b2n (b : Bool) : Nat := if b then 1 else 0

theorem b2n_le_one (b : Bool) : b2n b ≤ 1 := by cases b <;> simp [b2n]

/-- the eight bits `byteOfBits` looks at -/
def pad8 (l : List Bool) : List Bool :=
  [l.getD 0 false, l.getD 1 false, l.getD 2 false, l.getD 3 false,
   l.getD 4 false, l.getD 5 false, l.getD 6 false, l.getD 7 false]

theorem byteOfBits_eq (l : List Bool) : byteOfBits l =
    2 * (2 * (2 * (2 * (2 * (2 * (2 * (2 * 0 + b2n (l.getD 0 false)) + b2n (l.getD 1 false))
      + b2n (l.getD 2 false)) + b2n (l.getD 3 false)) + b2n (l.getD 4 false))
      + b2n (l.getD 5 false)) + b2n (l.getD 6 false)) + b2n (l.getD 7 false) := rfl

theorem byteOfBits_pad8 (l : List Bool) : byteOfBits l = byteOfBits (pad8 l) := rfl

theorem pad8_eq (l : List Bool) (h : l.length ≤ 8) :
    pad8 l = l ++ List.replicate (8 - l.length) false := by
  match l, h with
  | [], _ => rfl
  | [_], _ => rfl
  | [_, _], _ => rfl
  | [_, _, _], _ => rfl
  | [_, _, _, _], _ => rfl
  | [_, _, _, _, _], _ => rfl
  | [_, _, _, _, _, _], _ => rfl
  | [_, _, _, _, _, _, _], _ => rfl
  | [_, _, _, _, _, _, _, _], _ => rfl
  | _ :: _ :: _ :: _ :: _ :: _ :: _ :: _ :: _ :: _, h =>
    simp only [List.length_cons] at h; omega

theorem bitsOfByte_byteOfBits8 : ∀ a b c d e f g h : Bool,
    bitsOfByte (byteOfBits [a, b, c, d, e, f, g, h]) = [a, b, c, d, e, f, g, h] := by
  decide

theorem bitsOfByte_byteOfBits (l : List Bool) (h : l.length ≤ 8) :
    bitsOfByte (byteOfBits l) = l ++ List.replicate (8 - l.length) false := by
  rw [byteOfBits_pad8, ← pad8_eq l h]
  exact bitsOfByte_byteOfBits8 _ _ _ _ _ _ _ _

theorem byteOfBits_lt (l : List Bool) : byteOfBits l < 256 := by
  rw [byteOfBits_eq]
  have h0 := b2n_le_one (l.getD 0 false)
  have h1 := b2n_le_one (l.getD 1 false)
  have h2 := b2n_le_one (l.getD 2 false)
  have h3 := b2n_le_one (l.getD 3 false)
  have h4 := b2n_le_one (l.getD 4 false)
  have h5 := b2n_le_one (l.getD 5 false)
  have h6 := b2n_le_one (l.getD 6 false)
  have h7 := b2n_le_one (l.getD 7 false)
  omega

theorem byteOfBits_bitsOfByte : ∀ b, b < 256 → byteOfBits (bitsOfByte b) = b := by
  decide +kernel

theorem bitsOfByte_length (b : Nat) : (bitsOfByte b).length = 8 := by
  simp [bitsOfByte]

/-! ### `pack` -/

theorem pack_nil : pack [] = [] := by rw [pack]

theorem pack_cons (b : Bool) (bs : List Bool) :
    pack (b :: bs) = byteOfBits ((b :: bs).take 8) :: pack ((b :: bs).drop 8) := by
  rw [pack]

theorem pack_of_ne_nil (r : Row) (h : r ≠ []) :
    pack r = byteOfBits (r.take 8) :: pack (r.drop 8) := by
  cases r with
  | nil => exact absurd rfl h
  | cons b bs => exact pack_cons b bs

/-- item 2 -/
theorem pack_length (r : Row) : (pack r).length = (r.length + 7) / 8 := by
  induction r using pack.induct with
  | case1 => simp [pack_nil]
  | case2 b bs ih =>
    rw [pack_cons, List.length_cons, ih]
    simp only [List.length_drop, List.length_cons]
    omega

/-- item 3 -/
theorem pack_lt (r : Row) : ∀ b ∈ pack r, b < 256 := by
  induction r using pack.induct with
  | case1 => simp [pack_nil]
  | case2 b bs ih =>
    rw [pack_cons]
    intro x hx
    rcases List.mem_cons.mp hx with rfl | hx
    · exact byteOfBits_lt _
    · exact ih x hx

/-- the bits stored in `pack r` are `r` followed by zero padding -/
theorem flatMap_pack (r : Row) :
    ∃ k, (pack r).flatMap bitsOfByte = r ++ List.replicate k false := by
  induction r using pack.induct with
  | case1 => exact ⟨0, by simp [pack_nil]⟩
  | case2 b bs ih =>
    obtain ⟨k, hk⟩ := ih
    by_cases hl : 8 ≤ (b :: bs).length
    · refine ⟨k, ?_⟩
      have h8 : ((b :: bs).take 8).length = 8 := by
        rw [List.length_take]; omega
      rw [pack_cons, List.flatMap_cons, hk, bitsOfByte_byteOfBits _ (le_of_eq h8), h8]
      simp only [Nat.sub_self, List.replicate_zero, List.append_nil]
      rw [← List.append_assoc, List.take_append_drop]
    · have hd : (b :: bs).drop 8 = [] := by
        apply List.drop_eq_nil_of_le; omega
      have ht : (b :: bs).take 8 = b :: bs := by
        apply List.take_of_length_le; omega
      refine ⟨8 - (b :: bs).length, ?_⟩
      rw [pack_cons, hd, ht, pack_nil, List.flatMap_cons, List.flatMap_nil, List.append_nil,
        bitsOfByte_byteOfBits _ (by omega)]

/-- item 1: `unpackbits(packbits(r), count = len r) = r`, for every length -/
theorem unpack_pack (r : Row) : unpack (pack r) r.length = r := by
  obtain ⟨k, hk⟩ := flatMap_pack r
  unfold unpack
  simp only [hk, List.append_assoc]
  exact List.take_left' rfl

theorem pack_append_of_length_eq_8 (l₁ l₂ : Row) (h : l₁.length = 8) :
    pack (l₁ ++ l₂) = byteOfBits l₁ :: pack l₂ := by
  have hne : l₁ ++ l₂ ≠ [] := by
    intro h0
    have : (l₁ ++ l₂).length = 0 := by rw [h0]; rfl
    rw [List.length_append] at this; omega
  rw [pack_of_ne_nil _ hne, List.take_left' h, List.drop_left' h]

theorem pack_flatMap_bitsOfByte (bs : List Nat) (h : ∀ b ∈ bs, b < 256) :
    pack (bs.flatMap bitsOfByte) = bs := by
  induction bs with
  | nil => simp [pack_nil]
  | cons b bs ih =>
    rw [List.flatMap_cons, pack_append_of_length_eq_8 _ _ (bitsOfByte_length b),
      byteOfBits_bitsOfByte b (h b (by simp)), ih (fun x hx => h x (by simp [hx]))]

theorem length_flatMap_bitsOfByte (bs : List Nat) :
    (bs.flatMap bitsOfByte).length = 8 * bs.length := by
  induction bs with
  | nil => simp
  | cons b bs ih => simp [List.flatMap_cons, bitsOfByte_length, ih]; omega

theorem unpack_full (bs : List Nat) : unpack bs (8 * bs.length) = bs.flatMap bitsOfByte := by
  unfold unpack
  simp only [length_flatMap_bitsOfByte, Nat.sub_self, List.replicate_zero, List.append_nil]
  apply List.take_of_length_le
  rw [length_flatMap_bitsOfByte]

/-- item 4 -/
theorem pack_unpack (bs : List Nat) (h : ∀ b ∈ bs, b < 256) :
    pack (unpack bs (8 * bs.length)) = bs := by
  rw [unpack_full, pack_flatMap_bitsOfByte bs h]

/-! ### popcounts -/

theorem count_true_replicate_false (k : Nat) : (List.replicate k false).count true = 0 := by
  induction k with
  | zero => rfl
  | succ k ih => rw [List.replicate_succ, List.count_cons, ih]; rfl

theorem popBytes_eq_count (bs : List Nat) :
    popBytes bs = (bs.flatMap bitsOfByte).count true := by
  induction bs with
  | nil => rfl
  | cons b bs ih =>
    rw [List.flatMap_cons, List.count_append, ← ih]
    simp [popBytes, popByte]

/-- item 5 -/
theorem popBytes_pack (r : Row) : popBytes (pack r) = popc r := by
  obtain ⟨k, hk⟩ := flatMap_pack r
  rw [popBytes_eq_count, hk, List.count_append, count_true_replicate_false]
  rfl

theorem popByte_byteOfBits (l : List Bool) (h : l.length ≤ 8) :
    popByte (byteOfBits l) = popc l := by
  unfold popByte
  rw [bitsOfByte_byteOfBits l h, List.count_append, count_true_replicate_false]
  rfl

/-- item 10 -/
theorem popc_le_length (r : Row) : popc r ≤ r.length := List.count_le_length

theorem popc_andRow_le_left (a b : Row) : popc (andRow a b) ≤ popc a := by
  induction a generalizing b with
  | nil => simp [andRow, popc]
  | cons x xs ih =>
    cases b with
    | nil => simp [andRow, popc]
    | cons y ys =>
      have := ih ys
      simp only [andRow, popc] at this ⊢
      rw [List.zipWith_cons_cons, List.count_cons, List.count_cons]
      cases x <;> cases y <;> simp <;> omega

theorem andRow_comm (a b : Row) : andRow a b = andRow b a := by
  unfold andRow
  exact List.zipWith_comm_of_comm (fun x y => Bool.and_comm x y)

theorem popc_andRow_le_right (a b : Row) : popc (andRow a b) ≤ popc b := by
  rw [andRow_comm]; exact popc_andRow_le_left b a

theorem andRow_self (a : Row) : andRow a a = a := by
  induction a with
  | nil => rfl
  | cons x xs ih => simp_all [andRow]

/-! ### bitwise and on packed rows -/

theorem land_step (x y : Nat) (a b : Bool) :
    Nat.land (2 * x + b2n a) (2 * y + b2n b) = 2 * Nat.land x y + b2n (a && b) := by
  show (2 * x + b2n a) &&& (2 * y + b2n b) = 2 * (x &&& y) + b2n (a && b)
  apply Nat.eq_of_testBit_eq
  intro i
  cases i with
  | zero =>
    cases a <;> cases b <;> simp [b2n, Nat.testBit_zero, Nat.add_mod]
  | succ i =>
    have e1 : (2 * x + b2n a) / 2 = x := by have := b2n_le_one a; omega
    have e2 : (2 * y + b2n b) / 2 = y := by have := b2n_le_one b; omega
    have e3 : (2 * (x &&& y) + b2n (a && b)) / 2 = x &&& y := by
      have := b2n_le_one (a && b); omega
    rw [Nat.testBit_and, Nat.testBit_succ, Nat.testBit_succ, Nat.testBit_succ, e1, e2, e3,
      Nat.testBit_and]

theorem getD_andRow (a b : Row) (i : Nat) :
    (andRow a b).getD i false = (a.getD i false && b.getD i false) := by
  induction a generalizing b i with
  | nil => simp [andRow]
  | cons x xs ih =>
    cases b with
    | nil => simp [andRow]
    | cons y ys =>
      cases i with
      | zero => simp [andRow]
      | succ i => simpa [andRow] using ih ys i

theorem land_byteOfBits (a b : Row) :
    Nat.land (byteOfBits a) (byteOfBits b) = byteOfBits (andRow a b) := by
  rw [byteOfBits_eq a, byteOfBits_eq b, byteOfBits_eq (andRow a b)]
  simp only [getD_andRow, land_step]
  rfl

/-- item 6 -/
theorem andBytes_pack (a b : Row) (h : a.length = b.length) :
    andBytes (pack a) (pack b) = pack (andRow a b) := by
  induction a using pack.induct generalizing b with
  | case1 =>
    have : b = [] := List.length_eq_zero_iff.mp (by simpa using h.symm)
    subst this
    simp [pack_nil, andBytes, andRow]
  | case2 x xs ih =>
    cases b with
    | nil => simp at h
    | cons y ys =>
      have hl : ((x :: xs).drop 8).length = ((y :: ys).drop 8).length := by
        simp only [List.length_drop, h]
      have ih' := ih ((y :: ys).drop 8) hl
      have hand : andRow (x :: xs) (y :: ys) = (x && y) :: andRow xs ys := rfl
      rw [pack_cons x xs, pack_cons y ys, hand, pack_cons, ← hand]
      unfold andBytes at ih' ⊢
      rw [List.zipWith_cons_cons, ih', land_byteOfBits]
      unfold andRow
      rw [List.take_zipWith, List.drop_zipWith]

/-- item 7 -/
theorem jtPacked_pack (a b : Row) (h : a.length = b.length) :
    jtPacked (pack a) (pack b) = jtBits a b := by
  unfold jtPacked jtBits
  rw [andBytes_pack a b h, popBytes_pack, popBytes_pack, popBytes_pack]

/-! ### popcount through the little-endian word view -/

theorem popNat_zero : popNat 0 = 0 := by rw [popNat]

theorem popNat_eq (n : Nat) : popNat n = n % 2 + popNat (n / 2) := by
  cases n with
  | zero => simp [popNat_zero]
  | succ m => rw [popNat]

theorem popNat_add_pow_mul (k : Nat) : ∀ b acc : Nat, b < 2 ^ k →
    popNat (b + 2 ^ k * acc) = popNat b + popNat acc := by
  induction k with
  | zero =>
    intro b acc hb
    have : b = 0 := by simpa using hb
    subst this
    simp [popNat_zero]
  | succ k ih =>
    intro b acc hb
    rw [popNat_eq (b + 2 ^ (k + 1) * acc), popNat_eq b]
    have hp : 2 ^ (k + 1) * acc = 2 * (2 ^ k * acc) := by
      rw [Nat.pow_succ, Nat.mul_comm (2 ^ k) 2, Nat.mul_assoc]
    have hb' : b / 2 < 2 ^ k := by
      rw [Nat.pow_succ] at hb; omega
    have e1 : (b + 2 ^ (k + 1) * acc) % 2 = b % 2 := by rw [hp]; omega
    have e2 : (b + 2 ^ (k + 1) * acc) / 2 = b / 2 + 2 ^ k * acc := by rw [hp]; omega
    rw [e1, e2, ih _ _ hb']
    omega

theorem popNat_eq_popByte : ∀ b, b < 256 → popNat b = popByte b := by
  decide +kernel

theorem popNat_wordOfBytes (bs : List Nat) (h : ∀ b ∈ bs, b < 256) :
    popNat (wordOfBytes bs) = popBytes bs := by
  induction bs with
  | nil => simp [wordOfBytes, popBytes, popNat_zero]
  | cons b bs ih =>
    have hb : b < 2 ^ 8 := h b (by simp)
    have := popNat_add_pow_mul 8 b (wordOfBytes bs) hb
    have e : wordOfBytes (b :: bs) = b + 2 ^ 8 * wordOfBytes bs := rfl
    rw [e, this, ih (fun x hx => h x (by simp [hx])), popNat_eq_popByte b hb]
    simp [popBytes]

theorem popBytes_append (a b : List Nat) : popBytes (a ++ b) = popBytes a + popBytes b := by
  simp [popBytes]

theorem chunks_nil (k : Nat) : chunks k [] = [] := by rw [chunks]

theorem chunks_cons (k : Nat) (x : Nat) (xs : List Nat) (hk : k ≠ 0) :
    chunks k (x :: xs) = (x :: xs).take k :: chunks k ((x :: xs).drop k) := by
  rw [chunks, if_neg hk]

/-- popcount through words equals byte-wise popcount, for every byte count -/
theorem popWords_eq_popBytes' (bs : List Nat) (h : ∀ b ∈ bs, b < 256) :
    popWords bs = popBytes bs := by
  unfold popWords
  induction bs using chunks.induct 8 with
  | case1 => simp [chunks_nil, popBytes]
  | case2 x xs hk => exact absurd hk (by decide)
  | case3 x xs _ ih =>
    rw [chunks_cons 8 x xs (by decide), List.map_cons, List.sum_cons,
      ih (fun b hb => h b (List.mem_of_mem_drop hb)),
      popNat_wordOfBytes _ (fun b hb => h b (List.mem_of_mem_take hb)),
      ← popBytes_append, List.take_append_drop]

/-- item 8 -/
theorem popWords_eq_popBytes (bs : List Nat) (h : ∀ b ∈ bs, b < 256)
    (_h8 : bs.length % 8 = 0) : popWords bs = popBytes bs :=
  popWords_eq_popBytes' bs h

/-! ### `argmaxFirst` / `argminFirst` -/

section Arg

variable {α : Type _} [LinearOrder α] [DecidableLT α]

/-- `r` is the first index of a maximum of `l` -/
def IsFirstMax (l : List α) (r : Nat) : Prop :=
  ∃ m, l[r]? = some m ∧ (∀ (j : Nat) (v : α), l[j]? = some v → v ≤ m) ∧
    (∀ (j : Nat) (v : α), j < r → l[j]? = some v → v < m)

/-- `r` is the first index of a minimum of `l` -/
def IsFirstMin (l : List α) (r : Nat) : Prop :=
  ∃ m, l[r]? = some m ∧ (∀ (j : Nat) (v : α), l[j]? = some v → m ≤ v) ∧
    (∀ (j : Nat) (v : α), j < r → l[j]? = some v → m < v)

omit [LinearOrder α] [DecidableLT α] in
theorem getElem?_snoc_cases (pre : List α) (y : α) (j : Nat) (v : α)
    (h : (pre ++ [y])[j]? = some v) : pre[j]? = some v ∨ (j = pre.length ∧ v = y) := by
  rw [List.getElem?_append] at h
  split at h
  · exact Or.inl h
  · rename_i hlt
    right
    have hj : j - pre.length = 0 := by
      by_contra hne
      have : 1 ≤ j - pre.length := Nat.pos_of_ne_zero hne
      rw [List.getElem?_eq_none (by simpa using this)] at h
      exact absurd h (by simp)
    rw [hj] at h
    refine ⟨by omega, ?_⟩
    simpa using h.symm

omit [LinearOrder α] [DecidableLT α] in
theorem getElem?_lt_length {l : List α} {j : Nat} {v : α} (h : l[j]? = some v) :
    j < l.length := by
  by_contra hn
  rw [List.getElem?_eq_none (by omega)] at h
  exact absurd h (by simp)

theorem argmaxFirst_go_cons (best : α) (bi i : Nat) (y : α) (ys : List α) :
    argmaxFirst.go best bi i (y :: ys) =
      if best < y then argmaxFirst.go y i (i + 1) ys else argmaxFirst.go best bi (i + 1) ys :=
  rfl

theorem argminFirst_go_cons (best : α) (bi i : Nat) (y : α) (ys : List α) :
    argminFirst.go best bi i (y :: ys) =
      if y < best then argminFirst.go y i (i + 1) ys else argminFirst.go best bi (i + 1) ys :=
  rfl

theorem argmaxFirst_go_spec (ys : List α) : ∀ (pre : List α) (best : α) (bi : Nat),
    pre[bi]? = some best → (∀ (j : Nat) (v : α), pre[j]? = some v → v ≤ best) →
    (∀ (j : Nat) (v : α), j < bi → pre[j]? = some v → v < best) →
    IsFirstMax (pre ++ ys) (argmaxFirst.go best bi pre.length ys) := by
  induction ys with
  | nil =>
    intro pre best bi h1 h2 h3
    rw [List.append_nil]
    exact ⟨best, h1, h2, h3⟩
  | cons y ys ih =>
    intro pre best bi h1 h2 h3
    have hlen : pre.length + 1 = (pre ++ [y]).length := by simp
    have happ : pre ++ y :: ys = (pre ++ [y]) ++ ys := by simp
    have hbi : bi < pre.length := getElem?_lt_length h1
    rw [argmaxFirst_go_cons, happ, hlen]
    split
    · rename_i hlt
      apply ih
      · simp
      · intro j v hv
        rcases getElem?_snoc_cases pre y j v hv with h | ⟨_, rfl⟩
        · exact le_of_lt (lt_of_le_of_lt (h2 j v h) hlt)
        · exact le_refl _
      · intro j v hj hv
        rcases getElem?_snoc_cases pre y j v hv with h | ⟨rfl, _⟩
        · exact lt_of_le_of_lt (h2 j v h) hlt
        · exact absurd hj (lt_irrefl _)
    · rename_i hnlt
      apply ih
      · rw [List.getElem?_append_left hbi]; exact h1
      · intro j v hv
        rcases getElem?_snoc_cases pre y j v hv with h | ⟨_, rfl⟩
        · exact h2 j v h
        · exact not_lt.mp hnlt
      · intro j v hj hv
        rcases getElem?_snoc_cases pre y j v hv with h | ⟨rfl, _⟩
        · exact h3 j v hj h
        · omega

theorem argminFirst_go_spec (ys : List α) : ∀ (pre : List α) (best : α) (bi : Nat),
    pre[bi]? = some best → (∀ (j : Nat) (v : α), pre[j]? = some v → best ≤ v) →
    (∀ (j : Nat) (v : α), j < bi → pre[j]? = some v → best < v) →
    IsFirstMin (pre ++ ys) (argminFirst.go best bi pre.length ys) := by
  induction ys with
  | nil =>
    intro pre best bi h1 h2 h3
    rw [List.append_nil]
    exact ⟨best, h1, h2, h3⟩
  | cons y ys ih =>
    intro pre best bi h1 h2 h3
    have hlen : pre.length + 1 = (pre ++ [y]).length := by simp
    have happ : pre ++ y :: ys = (pre ++ [y]) ++ ys := by simp
    have hbi : bi < pre.length := getElem?_lt_length h1
    rw [argminFirst_go_cons, happ, hlen]
    split
    · rename_i hlt
      apply ih
      · simp
      · intro j v hv
        rcases getElem?_snoc_cases pre y j v hv with h | ⟨_, rfl⟩
        · exact le_of_lt (lt_of_lt_of_le hlt (h2 j v h))
        · exact le_refl _
      · intro j v hj hv
        rcases getElem?_snoc_cases pre y j v hv with h | ⟨rfl, _⟩
        · exact lt_of_lt_of_le hlt (h2 j v h)
        · exact absurd hj (lt_irrefl _)
    · rename_i hnlt
      apply ih
      · rw [List.getElem?_append_left hbi]; exact h1
      · intro j v hv
        rcases getElem?_snoc_cases pre y j v hv with h | ⟨_, rfl⟩
        · exact h2 j v h
        · exact not_lt.mp hnlt
      · intro j v hj hv
        rcases getElem?_snoc_cases pre y j v hv with h | ⟨rfl, _⟩
        · exact h3 j v hj h
        · omega

theorem argmaxFirst_isFirstMax (l : List α) (h : l ≠ []) : IsFirstMax l (argmaxFirst l) := by
  cases l with
  | nil => exact absurd rfl h
  | cons x xs =>
    show IsFirstMax ([x] ++ xs) (argmaxFirst.go x 0 [x].length xs)
    apply argmaxFirst_go_spec
    · rfl
    · intro j v hv
      have hj := getElem?_lt_length hv
      have : j = 0 := by simpa using hj
      subst this
      have : x = v := by simpa using hv
      exact le_of_eq this.symm
    · intro j v hj; omega

theorem argminFirst_isFirstMin (l : List α) (h : l ≠ []) : IsFirstMin l (argminFirst l) := by
  cases l with
  | nil => exact absurd rfl h
  | cons x xs =>
    show IsFirstMin ([x] ++ xs) (argminFirst.go x 0 [x].length xs)
    apply argminFirst_go_spec
    · rfl
    · intro j v hv
      have hj := getElem?_lt_length hv
      have : j = 0 := by simpa using hj
      subst this
      have : x = v := by simpa using hv
      exact le_of_eq this
    · intro j v hj; omega

/-- item 9, generic -/
theorem argmaxFirst_lt' (l : List α) (h : l ≠ []) : argmaxFirst l < l.length := by
  obtain ⟨m, hm, _, _⟩ := argmaxFirst_isFirstMax l h
  exact getElem?_lt_length hm

theorem argmaxFirst_max' (l : List α) (j : Nat) (hj : j < l.length) :
    l[j] ≤ l[argmaxFirst l]'(argmaxFirst_lt' l (List.ne_nil_of_length_pos (by omega))) := by
  have hne : l ≠ [] := List.ne_nil_of_length_pos (by omega)
  obtain ⟨m, hm, h2, _⟩ := argmaxFirst_isFirstMax l hne
  have hlt := argmaxFirst_lt' l hne
  have e : l[argmaxFirst l] = m := by
    rw [List.getElem?_eq_getElem hlt] at hm; exact Option.some.inj hm
  rw [e]
  exact h2 j _ (List.getElem?_eq_getElem hj)

theorem ne_nil_of_lt_argmaxFirst {l : List α} {j : Nat} (hj : j < argmaxFirst l) : l ≠ [] := by
  rintro rfl; exact absurd hj (by simp [argmaxFirst])

theorem argmaxFirst_first' (l : List α) (j : Nat) (hj : j < argmaxFirst l) :
    l[j]'(lt_trans hj (argmaxFirst_lt' l (ne_nil_of_lt_argmaxFirst hj))) <
      l[argmaxFirst l]'(argmaxFirst_lt' l (ne_nil_of_lt_argmaxFirst hj)) := by
  have hne : l ≠ [] := ne_nil_of_lt_argmaxFirst hj
  obtain ⟨m, hm, _, h3⟩ := argmaxFirst_isFirstMax l hne
  have hlt := argmaxFirst_lt' l hne
  have e : l[argmaxFirst l] = m := by
    rw [List.getElem?_eq_getElem hlt] at hm; exact Option.some.inj hm
  rw [e]
  exact h3 j _ hj (List.getElem?_eq_getElem (lt_trans hj hlt))

theorem argminFirst_lt' (l : List α) (h : l ≠ []) : argminFirst l < l.length := by
  obtain ⟨m, hm, _, _⟩ := argminFirst_isFirstMin l h
  exact getElem?_lt_length hm

theorem argminFirst_min' (l : List α) (j : Nat) (hj : j < l.length) :
    l[argminFirst l]'(argminFirst_lt' l (List.ne_nil_of_length_pos (by omega))) ≤ l[j] := by
  have hne : l ≠ [] := List.ne_nil_of_length_pos (by omega)
  obtain ⟨m, hm, h2, _⟩ := argminFirst_isFirstMin l hne
  have hlt := argminFirst_lt' l hne
  have e : l[argminFirst l] = m := by
    rw [List.getElem?_eq_getElem hlt] at hm; exact Option.some.inj hm
  rw [e]
  exact h2 j _ (List.getElem?_eq_getElem hj)

theorem ne_nil_of_lt_argminFirst {l : List α} {j : Nat} (hj : j < argminFirst l) : l ≠ [] := by
  rintro rfl; exact absurd hj (by simp [argminFirst])

theorem argminFirst_first' (l : List α) (j : Nat) (hj : j < argminFirst l) :
    l[argminFirst l]'(argminFirst_lt' l (ne_nil_of_lt_argminFirst hj)) <
      l[j]'(lt_trans hj (argminFirst_lt' l (ne_nil_of_lt_argminFirst hj))) := by
  have hne : l ≠ [] := ne_nil_of_lt_argminFirst hj
  obtain ⟨m, hm, _, h3⟩ := argminFirst_isFirstMin l hne
  have hlt := argminFirst_lt' l hne
  have e : l[argminFirst l] = m := by
    rw [List.getElem?_eq_getElem hlt] at hm; exact Option.some.inj hm
  rw [e]
  exact h3 j _ hj (List.getElem?_eq_getElem (lt_trans hj hlt))

end Arg

/-! item 9 for `ℚ` (the instances are the ones the Mathlib-free model elaborates to) -/

theorem argmaxFirst_lt (l : List ℚ) (h : l ≠ []) : argmaxFirst l < l.length :=
  argmaxFirst_lt' l h

theorem argmaxFirst_max (l : List ℚ) (j : Nat) (hj : j < l.length) :
    l[j] ≤ l[argmaxFirst l]'(argmaxFirst_lt l (List.ne_nil_of_length_pos (by omega))) :=
  argmaxFirst_max' l j hj

theorem argmaxFirst_first (l : List ℚ) (j : Nat) (hj : j < argmaxFirst l) :
    l[j]'(lt_trans hj (argmaxFirst_lt l (ne_nil_of_lt_argmaxFirst hj))) <
      l[argmaxFirst l]'(argmaxFirst_lt l (ne_nil_of_lt_argmaxFirst hj)) :=
  argmaxFirst_first' l j hj

theorem argminFirst_lt (l : List ℚ) (h : l ≠ []) : argminFirst l < l.length :=
  argminFirst_lt' l h

theorem argminFirst_min (l : List ℚ) (j : Nat) (hj : j < l.length) :
    l[argminFirst l]'(argminFirst_lt l (List.ne_nil_of_length_pos (by omega))) ≤ l[j] :=
  argminFirst_min' l j hj

theorem argminFirst_first (l : List ℚ) (j : Nat) (hj : j < argminFirst l) :
    l[argminFirst l]'(argminFirst_lt l (ne_nil_of_lt_argminFirst hj)) <
      l[j]'(lt_trans hj (argminFirst_lt l (ne_nil_of_lt_argminFirst hj))) :=
  argminFirst_first' l j hj

/-- sanity check that the `ℚ` statements apply to the terms of the model -/
theorem medoidIdx_lt (rows : List Row) (h : 0 < rows.length) : medoidIdx rows < rows.length := by
  unfold medoidIdx
  split
  · exact h
  · have hlen : ((complIsim rows).map optVal).length = rows.length := by
      unfold complIsim; split <;> simp
    have := argminFirst_lt ((complIsim rows).map optVal)
      (List.ne_nil_of_length_pos (by omega))
    omega

/-! ### Tanimoto on counts -/

section Tanimoto

theorem jtCounts_nonneg (hm : Monotone rnd) (h0 : rnd 0 = 0) (inter ca cb : Nat) :
    0 ≤ jtCounts inter ca cb := by
  unfold jtCounts fdiv
  calc (0 : ℚ) = rnd 0 := h0.symm
    _ ≤ _ := hm (by positivity)

theorem jtCounts_le_one (hm : Monotone rnd) (h1 : rnd 1 = 1) {inter ca cb : Nat}
    (hi : inter ≤ ca) (hi' : inter ≤ cb) : jtCounts inter ca cb ≤ 1 := by
  unfold jtCounts fdiv
  have hden : (inter : ℚ) ≤ ((max (ca + cb - inter) 1 : ℕ) : ℚ) := by
    exact_mod_cast (show inter ≤ max (ca + cb - inter) 1 by omega)
  have hpos : (0 : ℚ) < ((max (ca + cb - inter) 1 : ℕ) : ℚ) := by
    exact_mod_cast (show 0 < max (ca + cb - inter) 1 by omega)
  calc rnd (_ / _) ≤ rnd 1 := hm ((div_le_one hpos).mpr hden)
    _ = 1 := h1

theorem jtCounts_comm (inter ca cb : Nat) : jtCounts inter ca cb = jtCounts inter cb ca := by
  unfold jtCounts; rw [Nat.add_comm]

theorem jtCounts_self (h1 : rnd 1 = 1) (c : Nat) (hc : 0 < c) : jtCounts c c c = 1 := by
  unfold jtCounts fdiv
  have e : max (c + c - c) 1 = c := by omega
  have hne : (c : ℚ) ≠ 0 := by exact_mod_cast hc.ne'
  rw [e, div_self hne, h1]

theorem jtCounts_zero (h0 : rnd 0 = 0) (ca cb : Nat) : jtCounts 0 ca cb = 0 := by
  unfold jtCounts fdiv
  simp [h0]

theorem jtBits_comm (a b : Row) : jtBits a b = jtBits b a := by
  unfold jtBits; rw [andRow_comm a b, jtCounts_comm]

theorem jtBits_self (h1 : rnd 1 = 1) (a : Row) (h : 0 < popc a) : jtBits a a = 1 := by
  unfold jtBits; rw [andRow_self]; exact jtCounts_self h1 _ h

/-- two empty fingerprints have similarity 0 (`0 / max 0 1`) -/
theorem jtBits_self_of_popc_eq_zero (h0 : rnd 0 = 0) (a : Row) (h : popc a = 0) :
    jtBits a a = 0 := by
  unfold jtBits; rw [andRow_self, h]; exact jtCounts_zero h0 0 0

theorem jtBits_le_one (hm : Monotone rnd) (h1 : rnd 1 = 1) (a b : Row) : jtBits a b ≤ 1 :=
  jtCounts_le_one hm h1 (popc_andRow_le_left a b) (popc_andRow_le_right a b)

theorem jtBits_nonneg (hm : Monotone rnd) (h0 : rnd 0 = 0) (a b : Row) : 0 ≤ jtBits a b :=
  jtCounts_nonneg hm h0 _ _ _

theorem jtPacked_le_one (hm : Monotone rnd) (h1 : rnd 1 = 1) (a b : Row)
    (h : a.length = b.length) : jtPacked (pack a) (pack b) ≤ 1 := by
  rw [jtPacked_pack a b h]; exact jtBits_le_one hm h1 a b

end Tanimoto

/-! ### column sums -/

theorem addLs_nil_left (b : List Nat) : addLs [] b = b := by cases b <;> rfl

theorem addLs_nil_right (a : List Nat) : addLs a [] = a := by cases a <;> rfl

theorem addLs_cons_cons (x y : Nat) (a b : List Nat) :
    addLs (x :: a) (y :: b) = (x + y) :: addLs a b := rfl

theorem addLs_comm (a b : List Nat) : addLs a b = addLs b a := by
  induction a generalizing b with
  | nil => rw [addLs_nil_left, addLs_nil_right]
  | cons x a ih =>
    cases b with
    | nil => rfl
    | cons y b => rw [addLs_cons_cons, addLs_cons_cons, ih b, Nat.add_comm]

theorem addLs_assoc (a b c : List Nat) : addLs (addLs a b) c = addLs a (addLs b c) := by
  induction a generalizing b c with
  | nil => rw [addLs_nil_left, addLs_nil_left]
  | cons x a ih =>
    cases b with
    | nil => rw [addLs_nil_right, addLs_nil_left]
    | cons y b =>
      cases c with
      | nil => rw [addLs_nil_right, addLs_nil_right]
      | cons z c => simp only [addLs_cons_cons, ih, Nat.add_assoc]

theorem addLs_length (a b : List Nat) : (addLs a b).length = max a.length b.length := by
  induction a generalizing b with
  | nil => simp [addLs_nil_left]
  | cons x a ih =>
    cases b with
    | nil => simp [addLs_nil_right]
    | cons y b => simp only [addLs_cons_cons, List.length_cons, ih]; omega

theorem addLs_getD (a b : List Nat) (i : Nat) :
    (addLs a b).getD i 0 = a.getD i 0 + b.getD i 0 := by
  induction a generalizing b i with
  | nil => simp [addLs_nil_left]
  | cons x a ih =>
    cases b with
    | nil => simp [addLs_nil_right]
    | cons y b =>
      cases i with
      | zero => simp [addLs_cons_cons]
      | succ i => simpa [addLs_cons_cons] using ih b i

theorem rowToNat_length (r : Row) : (rowToNat r).length = r.length := by
  simp [rowToNat]

theorem rowToNat_getD (r : Row) (i : Nat) :
    (rowToNat r).getD i 0 = if r.getD i false then 1 else 0 := by
  induction r generalizing i with
  | nil => simp [rowToNat]
  | cons x r ih =>
    cases i with
    | zero => simp [rowToNat]
    | succ i => simpa [rowToNat] using ih i

theorem rowToNat_sum (r : Row) : (rowToNat r).sum = popc r := by
  induction r with
  | nil => rfl
  | cons x r ih =>
    have : rowToNat (x :: r) = (if x then 1 else 0) :: rowToNat r := rfl
    rw [this, List.sum_cons, ih]
    cases x
    · simp [popc]
    · simp [popc]; omega

theorem colSum_nil : colSum [] = [] := rfl

theorem colSum_snoc (rows : List Row) (r : Row) :
    colSum (rows ++ [r]) = addLs (colSum rows) (rowToNat r) := by
  simp [colSum, List.foldl_append]

theorem foldl_addLs_eq (rows : List Row) (acc : List Nat) :
    rows.foldl (fun acc r => addLs acc (rowToNat r)) acc = addLs acc (colSum rows) := by
  induction rows generalizing acc with
  | nil => rw [colSum_nil, addLs_nil_right]; rfl
  | cons r rows ih =>
    have e : colSum (r :: rows) =
        rows.foldl (fun acc r => addLs acc (rowToNat r)) (addLs [] (rowToNat r)) := rfl
    rw [List.foldl_cons, ih, e, ih, addLs_nil_left, addLs_assoc]

theorem colSum_cons (r : Row) (rows : List Row) :
    colSum (r :: rows) = addLs (rowToNat r) (colSum rows) := by
  have e : colSum (r :: rows) =
      rows.foldl (fun acc r => addLs acc (rowToNat r)) (addLs [] (rowToNat r)) := rfl
  rw [e, foldl_addLs_eq, addLs_nil_left]

theorem colSum_append (a b : List Row) : colSum (a ++ b) = addLs (colSum a) (colSum b) := by
  unfold colSum
  rw [List.foldl_append, foldl_addLs_eq]
  rfl

theorem colSum_singleton (r : Row) : colSum [r] = rowToNat r := by
  rw [colSum_cons, colSum_nil, addLs_nil_right]

/-- item 12: length of the column sums -/
theorem colSum_length (rows : List Row) (F : Nat) (hF : ∀ r ∈ rows, r.length = F)
    (hne : rows ≠ []) : (colSum rows).length = F := by
  induction rows with
  | nil => exact absurd rfl hne
  | cons r rows ih =>
    rw [colSum_cons, addLs_length, rowToNat_length, hF r (by simp)]
    by_cases h : rows = []
    · subst h; simp [colSum_nil]
    · rw [ih (fun x hx => hF x (by simp [hx])) h]; simp

/-- item 12: the `i`-th column sum counts the rows with bit `i` set (no hypothesis on the
row lengths is needed: `addLs` pads and `getD` reads zeros) -/
theorem colSum_getD (rows : List Row) (i : Nat) :
    (colSum rows).getD i 0 = (rows.filter (fun r => r.getD i false)).length := by
  induction rows with
  | nil => simp [colSum_nil]
  | cons r rows ih =>
    rw [colSum_cons, addLs_getD, rowToNat_getD, ih, List.filter_cons]
    split
    · simp; omega
    · simp

theorem colSum_get (rows : List Row) (F : Nat) (_hF : ∀ r ∈ rows, r.length = F) (i : Nat)
    (_hi : i < F) :
    (colSum rows).getD i 0 = (rows.filter (fun r => r.getD i false)).length :=
  colSum_getD rows i

theorem colSum_getD_le (rows : List Row) (i : Nat) : (colSum rows).getD i 0 ≤ rows.length := by
  rw [colSum_getD]; exact List.length_filter_le _ _

/-! ### majority-vote centroid -/

theorem getD_map_of_zero (g : Nat → Bool) (hg : g 0 = false) (ls : List Nat) (i : Nat) :
    (ls.map g).getD i false = g (ls.getD i 0) := by
  induction ls generalizing i with
  | nil => simp [hg]
  | cons x ls ih =>
    cases i with
    | zero => simp
    | succ i => simpa using ih i

theorem centroidFromSum_getD (ls : List Nat) (n : Nat) (hn : 2 ≤ n) (i : Nat) :
    (centroidFromSum ls n).getD i false = decide (n ≤ 2 * ls.getD i 0) := by
  unfold centroidFromSum
  rw [if_neg (by omega)]
  exact getD_map_of_zero (fun k => decide (n ≤ 2 * k)) (by simp; omega) ls i

theorem centroidFromSum_length (ls : List Nat) (n : Nat) :
    (centroidFromSum ls n).length = ls.length := by
  unfold centroidFromSum; split <;> simp

/-- item 13, without the (unneeded) hypotheses on the row lengths -/
theorem centroid_majority' (rows : List Row) (hn : 2 ≤ rows.length) (i : Nat) :
    (centroidFromSum (colSum rows) rows.length).getD i false =
      decide (rows.length ≤ 2 * (rows.filter (fun r => r.getD i false)).length) := by
  rw [centroidFromSum_getD _ _ hn, colSum_getD]

/-- item 13 -/
theorem centroid_majority (rows : List Row) (F : Nat) (_hF : ∀ r ∈ rows, r.length = F)
    (hn : 2 ≤ rows.length) (i : Nat) (_hi : i < F) :
    (centroidFromSum (colSum rows) rows.length).getD i false =
      decide (rows.length ≤ 2 * (rows.filter (fun r => r.getD i false)).length) :=
  centroid_majority' rows hn i

theorem centroid_length (rows : List Row) (F : Nat) (hF : ∀ r ∈ rows, r.length = F)
    (hne : rows ≠ []) : (centroidFromSum (colSum rows) rows.length).length = F := by
  rw [centroidFromSum_length, colSum_length rows F hF hne]

end BB

