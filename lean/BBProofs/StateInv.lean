/-
Estimator core, part 1: the state-level invariant (`TreeSt.OK`: shape of the tree and
consistency of the leaf chain), that results read through the chain are exactly the
tree's leaf clusters, and the provenance lemma lifted to an insertion at the root
(including growing the tree by one level).
-/
import BBProofs.Chain

namespace BB

/-- the leaf sub-clusters of a state, as a multiset -/
def TreeSt.lclusM : TreeSt → Multiset Clu
  | .uninit => 0
  | .full h _ root _ _ => lclus h root
  | .leavesOnly _ ls => ((ls.flatMap (·.subs) : List Clu) : Multiset Clu)

/-- structural invariant of a state -/
def TreeSt.OK : TreeSt → Prop
  | .uninit => True
  | .full h _ root chain next =>
    Shape h root ∧ (chain : Multiset Nat) = leafIdsM h root ∧ chain.Nodup ∧ ∀ i ∈ chain, i < next
  | .leavesOnly _ _ => True

def TreeSt.isLeavesOnly : TreeSt → Bool
  | .leavesOnly _ _ => true
  | _ => false

/-- what the estimator reports (read through the leaf chain) is exactly the tree's leaf clusters -/
theorem TreeSt.leafClus_coe (st : TreeSt) (h : st.OK) : (st.leafClus : Multiset Clu) = st.lclusM := by
  cases st with
  | uninit => simp [TreeSt.leafClus, TreeSt.leaves, TreeSt.lclusM]
  | leavesOnly F ls => simp [TreeSt.leafClus, TreeSt.leaves, TreeSt.lclusM]
  | full h F root chain next =>
    obtain ⟨_, hc, hn, _⟩ := h
    simp only [TreeSt.leafClus, TreeSt.leaves, TreeSt.lclusM]
    have hp := chain_reads (leavesOf h root) chain (by rw [hc, leavesOf_ids]) hn
    rw [← leavesOf_subs]
    exact Multiset.coe_eq_coe.mpr (List.Perm.flatMap_right _ hp)

theorem chainInsert_nodup (chain : List Nat) (ev : Option (Nat × Nat)) (next : Nat)
    (hn : chain.Nodup) (hlt : ∀ i ∈ chain, i < next) (hf : ∀ e, ev = some e → e.1 = next) :
    (chainInsert chain ev).Nodup ∧ ∀ i ∈ chainInsert chain ev, i < next + Multiset.card (evNew ev) := by
  have hc := chainInsert_coe chain ev
  cases ev with
  | none =>
    simp only [chainInsert, evNew, Multiset.card_zero, add_zero]
    exact ⟨hn, hlt⟩
  | some e =>
    have he := hf e rfl
    simp only [evNew] at hc
    have hperm : (chainInsert chain (some e)).Perm (e.1 :: chain) := by
      apply Multiset.coe_eq_coe.mp
      rw [hc, ← Multiset.cons_coe, ← Multiset.singleton_add, add_comm]
    constructor
    · rw [hperm.nodup_iff, List.nodup_cons]
      refine ⟨?_, hn⟩
      intro hmem
      have := hlt _ hmem
      omega
    · intro i hi
      have := hperm.mem_iff.mp hi
      simp only [evNew, Multiset.card_singleton]
      rcases List.mem_cons.mp this with h | h
      · omega
      · have := hlt i h; omega

variable (P : Policy)

/-- inserting a sub-cluster at the root (splitting the root and adding a level when needed)
keeps the state invariant and changes the leaf clusters as the provenance lemma says -/
theorem insertRoot_spec (hP : P.Valid) (bf : Nat) (hbf : 1 ≤ bf) (h F : Nat) (root : Tree h)
    (chain : List Nat) (next : Nat) (s : Clu) (hok : (TreeSt.full h F root chain next).OK) :
    (insertRoot P bf h F root chain next s).OK ∧
    (insertRoot P bf h F root chain next s).isLeavesOnly = false ∧
    (insertRoot P bf h F root chain next s).F? = some F ∧
    ProvOf P (lclus h root) s (insertRoot P bf h F root chain next s).lclusM := by
  obtain ⟨hsh, hc, hn, hlt⟩ := hok
  have hshape := ins_shape P hP h root s next hsh
  have hids := ins_ids P hP h root s next hsh
  have hprov := ins_prov P hP h root s next hsh
  have hch := chainInsert_nodup chain (ins P h root s next).ev next hn hlt (fun e he => (hids.fresh e he).1)
  have hcoe : ((chainInsert chain (ins P h root s next).ev : List Nat) : Multiset Nat)
      = leafIdsM h (ins P h root s next).node := by
    rw [chainInsert_coe, hc, hids.ids]
  unfold insertRoot
  simp only
  split
  · rename_i hover
    have h2 := hshape.2 hover
    have hsp := splitNode_shape P hP h _ (ins P h root s next).next hshape.1 h2
    have hspi := splitNode_ids P h (ins P h root s next).node (ins P h root s next).next
    have hch2 := chainInsert_nodup (chainInsert chain (ins P h root s next).ev)
      (splitNode P h (ins P h root s next).node (ins P h root s next).next).ev (ins P h root s next).next
      hch.1 (by rw [hids.nxt]; exact hch.2) (fun e he => (hspi.2.2 e he).1)
    refine ⟨⟨?_, ?_, hch2.1, ?_⟩, rfl, rfl, ?_⟩
    · exact ⟨rfl, hbf, by simp, by
        intro e he
        simp only [List.mem_cons, List.not_mem_nil, or_false] at he
        rcases he with he | he <;> subst he
        · exact hsp.1
        · exact hsp.2⟩
    · rw [chainInsert_coe, hcoe]
      simp only [leafIdsM, List.map_cons, List.map_nil, List.sum_cons, List.sum_nil, add_zero]
      rw [hspi.1]
    · rw [hspi.2.1]; exact hch2.2
    · simp only [TreeSt.lclusM, lclus, List.map_cons, List.map_nil, List.sum_cons, List.sum_nil, add_zero]
      rw [lclus_splitNode]
      exact hprov
  · refine ⟨⟨hshape.1, hcoe, hch.1, ?_⟩, rfl, rfl, hprov⟩
    rw [hids.nxt]; exact hch.2

theorem insertUnit_spec (hP : P.Valid) (bf : Nat) (hbf : 1 ≤ bf) (F : Nat) (st : TreeSt) (s : Clu)
    (hok : st.OK) (hlo : st.isLeavesOnly = false) :
    ∃ st', insertUnit P bf F st s = some st' ∧ st'.OK ∧ st'.isLeavesOnly = false ∧
      st'.F? = some ((st.F?).getD F) ∧ ProvOf P st.lclusM s st'.lclusM := by
  cases st with
  | leavesOnly F' ls => simp [TreeSt.isLeavesOnly] at hlo
  | uninit =>
    have hok0 : (TreeSt.full 0 F ({ id := 0, cap := bf, subs := [], cache := [] } : LeafN) [0] 1).OK := by
      refine ⟨⟨rfl, hbf⟩, ?_, by simp, by simp⟩
      simp [leafIdsM]
    have := insertRoot_spec P hP bf hbf 0 F ({ id := 0, cap := bf, subs := [], cache := [] } : LeafN) [0] 1 s hok0
    refine ⟨_, rfl, this.1, this.2.1, ?_, ?_⟩
    · simpa [TreeSt.F?] using this.2.2.1
    · have h4 := this.2.2.2
      simp only [lclus, TreeSt.lclusM] at h4 ⊢
      simpa using h4
  | full h F' root chain next =>
    have := insertRoot_spec P hP bf hbf h F' root chain next s hok
    exact ⟨_, rfl, this.1, this.2.1, by simpa [TreeSt.F?] using this.2.2.1, this.2.2.2⟩

end BB
