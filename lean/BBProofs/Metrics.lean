/-
Theory of `BBModel/Metrics.lean`: the selection loop of `cluster_analysis`, the counts, the
invariance of the indices under permutations of rows and of clusters.
-/
import BBModel.Metrics
import BBProofs.Bits
import BBProofs.Isim
import Mathlib.Algebra.BigOperators.Group.List.Basic
import Mathlib.Algebra.Order.Field.Rat
import Mathlib.Data.List.Perm.Basic
import Mathlib.Order.Lattice

namespace BB.Metrics

/-! ### the selection loop -/

theorem selectGo_some (t m : Nat) (l : List (List Nat)) (i : Nat) :
    selectGo (some t) m i l = (l.take (t - i)).takeWhile (fun c => decide (m ≤ c.length)) := by
  induction l generalizing i with
  | nil => simp [selectGo]
  | cons c cs ih =>
    unfold selectGo
    by_cases h1 : c.length < m
    · rw [if_pos h1]
      cases hti : t - i with
      | zero => simp
      | succ k =>
        rw [List.take_succ_cons, List.takeWhile_cons]
        have : decide (m ≤ c.length) = false := by simp; omega
        simp [this]
    · rw [if_neg h1]
      by_cases h2 : t ≤ i
      · have : t - i = 0 := by omega
        simp [h2, this]
      · have e : t - i = (t - (i + 1)) + 1 := by omega
        have hp : decide (m ≤ c.length) = true := by simp; omega
        simp only [h2, decide_false, Bool.false_eq_true, if_false]
        rw [ih (i + 1), e, List.take_succ_cons, List.takeWhile_cons, hp]
        simp

theorem selectGo_none (m : Nat) (l : List (List Nat)) (i : Nat) :
    selectGo none m i l = l.takeWhile (fun c => decide (m ≤ c.length)) := by
  induction l generalizing i with
  | nil => simp [selectGo]
  | cons c cs ih =>
    unfold selectGo
    by_cases h1 : c.length < m
    · have : decide (m ≤ c.length) = false := by simp; omega
      rw [if_pos h1, List.takeWhile_cons, this]; simp
    · have hp : decide (m ≤ c.length) = true := by simp; omega
      rw [if_neg h1, List.takeWhile_cons, hp, ih (i + 1)]
      simp

/-- the number of clusters the `top` argument allows -/
def topBound (top : Option Nat) (l : List (List Nat)) : Nat := top.getD l.length

theorem selectClusters_eq (l : List (List Nat)) (top : Option Nat) (m : Nat) :
    selectClusters l top m =
      (l.take (topBound top l)).takeWhile (fun c => decide (m ≤ c.length)) := by
  unfold selectClusters topBound
  cases top with
  | none => simp [selectGo_none]
  | some t => simp [selectGo_some]

theorem take_prefix_takeWhile {α : Type} (p : α → Bool) (L : List α) (n : Nat)
    (h : ∀ x ∈ L.take n, p x = true) : L.take n <+: L.takeWhile p := by
  induction L generalizing n with
  | nil => simp
  | cons x xs ih =>
    cases n with
    | zero => simp
    | succ n =>
      rw [List.take_succ_cons] at h ⊢
      have hx : p x = true := h x (by simp)
      rw [List.takeWhile_cons, hx]
      simp only [if_true]
      rw [List.cons_prefix_cons]
      exact ⟨rfl, ih n (fun y hy => h y (by simp [hy]))⟩

/-! ### counts -/

theorem countIf_eq (p : Nat → Bool) (l : List Nat) : countIf p l = l.countP p := by
  unfold countIf
  suffices h : ∀ a, l.foldl (fun acc s => if p s then acc + 1 else acc) a = a + l.countP p by
    simpa using h 0
  induction l with
  | nil => simp
  | cons x xs ih =>
    intro a
    rw [List.foldl_cons, ih, List.countP_cons]
    by_cases hx : p x <;> simp [hx]; omega

theorem foldl_add_nat (l : List Nat) (a : Nat) : l.foldl (· + ·) a = a + l.sum := by
  induction l generalizing a with
  | nil => simp
  | cons x xs ih => rw [List.foldl_cons, ih, List.sum_cons]; omega

theorem numFps_eq (clusters : List (List Row)) :
    numFps clusters = (clusters.map List.length).sum := by
  unfold numFps; rw [foldl_add_nat]; simp

/-! ### fetching members -/

theorem insertId_perm (x : Nat) (l : List Nat) : (insertId x l).Perm (x :: l) := by
  induction l with
  | nil => exact List.Perm.refl _
  | cons y ys ih =>
    unfold insertId
    split
    · exact List.Perm.refl _
    · exact (ih.cons y).trans (List.Perm.swap x y ys)

theorem sortIds_perm (c : List Nat) : (sortIds c).Perm c := by
  induction c with
  | nil => exact List.Perm.refl _
  | cons x xs ih => exact (insertId_perm x _).trans (ih.cons x)

theorem insertId_pairwise (x : Nat) (l : List Nat) (h : l.Pairwise (· ≤ ·)) :
    (insertId x l).Pairwise (· ≤ ·) := by
  induction l with
  | nil => simp [insertId]
  | cons y ys ih =>
    unfold insertId
    rw [List.pairwise_cons] at h
    split
    · next hxy =>
      refine List.Pairwise.cons ?_ (List.Pairwise.cons h.1 h.2)
      intro z hz
      rcases List.mem_cons.mp hz with rfl | hz
      · exact hxy
      · exact le_trans hxy (h.1 z hz)
    · next hxy =>
      refine List.Pairwise.cons ?_ (ih h.2)
      intro z hz
      rcases List.mem_cons.mp ((insertId_perm x ys).mem_iff.mp hz) with rfl | hz
      · omega
      · exact h.1 z hz

/-- `sortIds` sorts -/
theorem sortIds_sorted (c : List Nat) : (sortIds c).Pairwise (· ≤ ·) := by
  induction c with
  | nil => exact List.Pairwise.nil
  | cons x xs ih => exact insertId_pairwise x _ ih

theorem colSum_fetch (get : Nat → Row) (c ids : List Nat) (h : ids.Perm c) :
    colSum (fetch get c) = colSum (ids.map get) := by
  unfold fetch
  apply colSum_perm
  exact ((sortIds_perm c).trans h.symm).map get

theorem length_fetch (get : Nat → Row) (c : List Nat) : (fetch get c).length = c.length := by
  unfold fetch; rw [List.length_map, (sortIds_perm c).length_eq]

theorem mem_takeWhile_imp' {α : Type} (p : α → Bool) (l : List α) (x : α)
    (h : x ∈ l.takeWhile p) : p x = true := by
  induction l with
  | nil => simp at h
  | cons y ys ih =>
    rw [List.takeWhile_cons] at h
    split at h
    · next hy =>
      rcases List.mem_cons.mp h with rfl | h
      · exact hy
      · exact ih h
    · simp at h

/-! ### exact folds over ℚ -/

theorem foldl_add_rat {α : Type} (f : α → ℚ) (l : List α) (a : ℚ) :
    l.foldl (fun acc c => acc + f c) a = a + (l.map f).sum := by
  induction l generalizing a with
  | nil => simp
  | cons x xs ih => rw [List.foldl_cons, ih, List.map_cons, List.sum_cons]; ring

theorem foldl_add_rat' (l : List ℚ) : l.foldl (· + ·) 0 = l.sum := by
  have := foldl_add_rat (fun x => x) l 0
  simpa using this

theorem pyMax_eq_max (a b : ℚ) : pyMax a b = max a b := by
  unfold pyMax
  split
  · next h => rw [max_eq_right (le_of_lt h)]
  · next h => rw [max_eq_left (not_lt.mp h)]

instance : RightCommutative (fun (m v : ℚ) => max m v) := ⟨fun a b c => max_right_comm a b c⟩
instance : RightCommutative (fun (m v : ℚ) => min v m) :=
  ⟨fun a b c => by
    show min c (min b a) = min b (min c a)
    exact min_left_comm c b a⟩

theorem map_congr_forall₂ {α β : Type} {R : α → α → Prop} {f : α → β} {l l' : List α}
    (h : List.Forall₂ R l l') (hf : ∀ a b, R a b → f a = f b) : l.map f = l'.map f := by
  induction h with
  | nil => rfl
  | cons hab _ ih => rw [List.map_cons, List.map_cons, hf _ _ hab, ih]

/-! ### every per-cluster quantity is independent of the order of the rows -/

theorem centroidOf_perm {c c' : List Row} (h : c.Perm c') : centroidOf c = centroidOf c' := by
  unfold centroidOf; rw [colSum_perm c c' h, h.length_eq]

theorem dists_perm {c c' : List Row} (h : c.Perm c') (z : Row) :
    (dists c z).Perm (dists c' z) := by
  unfold dists jtArrVec
  exact (h.map _).map _

theorem wcTerm_perm {c c' : List Row} (h : c.Perm c') : wcTerm c = wcTerm c' := by
  unfold wcTerm
  rw [centroidOf_perm h]
  exact ((dists_perm h _).map _).sum_eq

theorem bcTerm_perm {c c' : List Row} (h : c.Perm c') (z : Row) : bcTerm z c = bcTerm z c' := by
  unfold bcTerm
  rw [centroidOf_perm h, h.length_eq]

theorem spread_perm {c c' : List Row} (h : c.Perm c') : spread c = spread c' := by
  unfold spread
  rw [centroidOf_perm h, h.length_eq, (dists_perm h _).sum_eq]

theorem totalSum_eq (clusters : List (List Row)) :
    totalSum clusters = (clusters.map colSum).foldl addLs [] := by
  unfold totalSum; rw [List.foldl_map]

instance : RightCommutative addLs := ⟨fun a b c => addLs_right_comm_I a b c⟩

/-- the total linear sum is the column sum of all the rows -/
theorem totalSum_flatten (clusters : List (List Row)) :
    totalSum clusters = colSum clusters.flatten := by
  unfold totalSum
  suffices h : ∀ acc, clusters.foldl (fun acc c => addLs acc (colSum c)) acc
      = addLs acc (colSum clusters.flatten) by
    rw [h, addLs_nil_left]
  induction clusters with
  | nil => intro acc; simp [colSum_nil]
  | cons c cs ih =>
    intro acc
    rw [List.foldl_cons, ih, List.flatten_cons, colSum_append, addLs_assoc]

/-! ### normal forms of the indices -/

/-- `centroid_from_sum(total_linear_sum, all_fps_num)` -/
def allCentral (clusters : List (List Row)) : Row :=
  centroidFromSum (totalSum clusters) (numFps clusters)

theorem chi_eq (clusters : List (List Row)) :
    chi clusters =
      if clusters.length ≤ 1 then 0
      else (clusters.map (bcTerm (allCentral clusters))).sum
          * ((numFps clusters : ℚ) - (clusters.length : ℚ))
          / ((clusters.map wcTerm).sum * ((clusters.length : ℚ) - 1)) := by
  unfold chi allCentral
  simp only [foldl_add_rat, zero_add]

/-- an element together with the list of the other elements, for every position -/
def picks {α : Type} : List α → List (α × List α)
  | [] => []
  | x :: xs => (x, xs) :: (picks xs).map (fun p => (p.1, x :: p.2))

theorem mapIdx_eraseIdx_eq_picks {α β : Type} (l : List α) :
    ∀ (G : α × List α → β), l.mapIdx (fun i x => G (x, l.eraseIdx i)) = (picks l).map G := by
  induction l with
  | nil => intro G; simp [picks]
  | cons x xs ih =>
    intro G
    rw [List.mapIdx_cons]
    simp only [List.eraseIdx_cons_zero, List.eraseIdx_cons_succ, picks, List.map_cons,
      List.map_map]
    congr 1
    exact ih (fun p => G (p.1, x :: p.2))

theorem picks_perm_map {α β : Type} {l l' : List α} (h : l.Perm l') :
    ∀ (G : α × List α → β), (∀ x ys ys', ys.Perm ys' → G (x, ys) = G (x, ys')) →
      ((picks l).map G).Perm ((picks l').map G) := by
  induction h with
  | nil => intro G _; simp [picks]
  | @cons x l l' h ih =>
    intro G hG
    simp only [picks, List.map_cons, List.map_map]
    rw [hG x l l' h]
    exact (ih (G ∘ fun p => (p.1, x :: p.2))
      (fun y ys ys' hp => hG y (x :: ys) (x :: ys') (hp.cons x))).cons _
  | swap x y l =>
    intro G hG
    simp only [picks, List.map_cons, List.map_map]
    have e : List.map (G ∘ (fun p => (p.1, y :: p.2)) ∘ fun p => (p.1, x :: p.2)) (picks l)
        = List.map (G ∘ (fun p => (p.1, x :: p.2)) ∘ fun p => (p.1, y :: p.2)) (picks l) := by
      apply List.map_congr_left
      intro p _
      exact hG p.1 _ _ (List.Perm.swap x y p.2)
    rw [e]
    exact List.Perm.swap _ _ _
  | trans _ _ ih1 ih2 => intro G hG; exact (ih1 G hG).trans (ih2 G hG)

theorem dbiInner_eq (x : ℚ × Row) (others : List (ℚ × Row)) :
    dbiInner x others
      = (others.map (fun y => (x.1 + y.1) / (1 - jtBits x.2 y.2))).foldl (fun m v => max m v) 0 := by
  unfold dbiInner
  rw [List.foldl_map]
  simp only [pyMax_eq_max]

theorem dbiInner_perm (x : ℚ × Row) {ys ys' : List (ℚ × Row)} (h : ys.Perm ys') :
    dbiInner x ys = dbiInner x ys' := by
  rw [dbiInner_eq, dbiInner_eq]
  exact (h.map _).foldl_eq 0

/-- `(S_i, central_i)` of every cluster -/
def dbiStats (clusters : List (List Row)) : List (ℚ × Row) :=
  clusters.map (fun c => (spread c, centroidOf c))

theorem dbi_eq (clusters : List (List Row)) :
    dbi clusters =
      if numFps clusters = 0 then 0
      else ((picks (dbiStats clusters)).map (fun p => dbiInner p.1 p.2)).sum
        / (numFps clusters : ℚ) := by
  unfold dbi dbiStats
  simp only [foldl_add_rat']
  rw [mapIdx_eraseIdx_eq_picks _ (fun p => dbiInner p.1 p.2)]

/-! ### CHI and DBI: rows inside clusters, order of clusters -/

theorem numFps_congr {l l' : List (List Row)} (h : List.Forall₂ List.Perm l l') :
    numFps l = numFps l' := by
  rw [numFps_eq, numFps_eq, map_congr_forall₂ h (fun _ _ hp => hp.length_eq)]

theorem numFps_perm {l l' : List (List Row)} (h : l.Perm l') : numFps l = numFps l' := by
  rw [numFps_eq, numFps_eq]; exact (h.map _).sum_eq

theorem totalSum_congr {l l' : List (List Row)} (h : List.Forall₂ List.Perm l l') :
    totalSum l = totalSum l' := by
  rw [totalSum_eq, totalSum_eq, map_congr_forall₂ h (fun a b hp => colSum_perm a b hp)]

theorem totalSum_perm {l l' : List (List Row)} (h : l.Perm l') : totalSum l = totalSum l' := by
  rw [totalSum_eq, totalSum_eq]; exact (h.map _).foldl_eq []

theorem chi_perm_rows {l l' : List (List Row)} (h : List.Forall₂ List.Perm l l') :
    chi l = chi l' := by
  rw [chi_eq, chi_eq]
  unfold allCentral
  rw [numFps_congr h, totalSum_congr h, h.length_eq,
    map_congr_forall₂ h (fun _ _ hp => wcTerm_perm hp),
    map_congr_forall₂ h (fun _ _ hp => bcTerm_perm hp _)]

theorem chi_perm_clusters {l l' : List (List Row)} (h : l.Perm l') : chi l = chi l' := by
  rw [chi_eq, chi_eq]
  unfold allCentral
  rw [numFps_perm h, totalSum_perm h, h.length_eq, (h.map wcTerm).sum_eq, (h.map (bcTerm _)).sum_eq]

theorem dbi_perm_rows {l l' : List (List Row)} (h : List.Forall₂ List.Perm l l') :
    dbi l = dbi l' := by
  rw [dbi_eq, dbi_eq]
  unfold dbiStats
  rw [numFps_congr h, map_congr_forall₂ h (f := fun c => (spread c, centroidOf c))
    (fun _ _ hp => by rw [spread_perm hp, centroidOf_perm hp])]

theorem dbi_perm_clusters {l l' : List (List Row)} (h : l.Perm l') : dbi l = dbi l' := by
  rw [dbi_eq, dbi_eq, numFps_perm h]
  have hp : (dbiStats l).Perm (dbiStats l') := h.map _
  rw [(picks_perm_map hp (fun p => dbiInner p.1 p.2)
    (fun x _ _ hy => dbiInner_perm x hy)).sum_eq]

/-! ### Dunn -/

theorem pairs_map {α β : Type} (f : α → β) (l : List α) :
    pairs (l.map f) = (pairs l).map (fun p => (f p.1, f p.2)) := by
  induction l with
  | nil => simp [pairs]
  | cons x xs ih => simp [pairs, ih, List.map_map, Function.comp_def]

theorem pairs_perm_map {α β : Type} (g : α → α → β) (hg : ∀ a b, g a b = g b a)
    {l l' : List α} (h : l.Perm l') :
    ((pairs l).map (fun p => g p.1 p.2)).Perm ((pairs l').map (fun p => g p.1 p.2)) := by
  induction h with
  | nil => simp [pairs]
  | @cons x l l' h ih =>
    simp only [pairs, List.map_append, List.map_map, Function.comp_def]
    exact (h.map _).append ih
  | swap x y l =>
    simp only [pairs, List.map_append, List.map_map, Function.comp_def, List.map_cons,
      List.cons_append]
    rw [hg y x]
    apply List.Perm.cons
    rw [← List.append_assoc, ← List.append_assoc]
    exact List.Perm.append_right _ List.perm_append_comm
  | trans _ _ ih1 ih2 => exact ih1.trans ih2

/-- the pair statistic `(column sums, size)` the inter-cluster distance depends on -/
def dunnStat (c : List Row) : List Nat × Nat := (colSum c, c.length)

def dunnDistS (a b : List Nat × Nat) : Option ℚ :=
  (isimFromSum (addLs a.1 b.1) (a.2 + b.2)).map (fun s => 1 - s)

theorem dunnDistS_comm (a b : List Nat × Nat) : dunnDistS a b = dunnDistS b a := by
  unfold dunnDistS; rw [addLs_comm, Nat.add_comm]

/-- the list of inter-cluster distances `dij`, in loop order -/
def dunnDists (clusters : List (List Row)) : List (Option ℚ) :=
  (pairs (clusters.map dunnStat)).map (fun p => dunnDistS p.1 p.2)

theorem dunn_eq (clusters : List (List Row)) :
    dunn clusters =
      match pyMaxList (clusters.map isimRows) with
      | none => none
      | some maxD =>
        if maxD = some 0 then some 1
        else divF ((dunnDists clusters).foldl (fun m v => pyMinF v m) (some 1)) maxD := by
  unfold dunn dunnWith dunnDists
  rw [pairs_map, List.map_map, List.foldl_map]
  rfl

theorem dunn_perm_rows {l l' : List (List Row)} (h : List.Forall₂ List.Perm l l') :
    dunn l = dunn l' := by
  rw [dunn_eq, dunn_eq]
  unfold dunnDists
  rw [map_congr_forall₂ h (fun a b hp => isimRows_perm a b hp),
    map_congr_forall₂ h (f := dunnStat)
      (fun a b hp => by unfold dunnStat; rw [colSum_perm a b hp, hp.length_eq])]

/-- a list of floats without NaN -/
theorem eq_map_some (l : List (Option ℚ)) (h : ∀ x ∈ l, x.isSome = true) :
    l = (l.map (fun x => x.getD 0)).map some := by
  rw [List.map_map]
  conv_lhs => rw [← List.map_id l]
  apply List.map_congr_left
  intro x hx
  obtain ⟨v, rfl⟩ := Option.isSome_iff_exists.mp (h x hx)
  rfl

theorem foldl_pyMinF_some (vs : List ℚ) (a : ℚ) :
    (vs.map some).foldl (fun m v => pyMinF v m) (some a)
      = some (vs.foldl (fun m v => min v m) a) := by
  induction vs generalizing a with
  | nil => rfl
  | cons v vs ih =>
    rw [List.map_cons, List.foldl_cons, List.foldl_cons]
    have : pyMinF (some v) (some a) = some (min v a) := by
      unfold pyMinF gtF
      by_cases hva : v > a
      · simp [hva, min_eq_right (le_of_lt hva)]
      · simp [hva, min_eq_left (not_lt.mp hva)]
    rw [this, ih]

theorem foldl_pyMaxF_some (vs : List ℚ) (a : ℚ) :
    (vs.map some).foldl pyMaxF (some a) = some (vs.foldl (fun m v => max m v) a) := by
  induction vs generalizing a with
  | nil => rfl
  | cons v vs ih =>
    rw [List.map_cons, List.foldl_cons, List.foldl_cons]
    have : pyMaxF (some a) (some v) = some (max a v) := by
      unfold pyMaxF gtF
      by_cases hva : v > a
      · simp [hva, max_eq_right (le_of_lt hva)]
      · simp [hva, max_eq_left (not_lt.mp hva)]
    rw [this, ih]

theorem foldl_max_spec (vs : List ℚ) (a : ℚ) :
    (vs.foldl (fun m v => max m v) a ∈ a :: vs) ∧
      ∀ v ∈ a :: vs, v ≤ vs.foldl (fun m v => max m v) a := by
  induction vs generalizing a with
  | nil => simp
  | cons w ws ih =>
    rw [List.foldl_cons]
    obtain ⟨hm, hub⟩ := ih (max a w)
    constructor
    · rcases List.mem_cons.mp hm with h | h
      · rw [h]
        rcases max_choice a w with h' | h' <;> rw [h'] <;> simp
      · simp [h]
    · intro v hv
      have h1 : max a w ≤ ws.foldl (fun m v => max m v) (max a w) := hub _ (by simp)
      rcases List.mem_cons.mp hv with h | h
      · rw [h]; exact le_trans (le_max_left a w) h1
      · rcases List.mem_cons.mp h with h | h
        · rw [h]; exact le_trans (le_max_right a w) h1
        · exact hub v (by simp [h])

/-- Python's `max` of a NaN-free list does not depend on the order -/
theorem pyMaxList_perm {D D' : List (Option ℚ)} (h : D.Perm D')
    (hs : ∀ x ∈ D, x.isSome = true) : pyMaxList D = pyMaxList D' := by
  have hs' : ∀ x ∈ D', x.isSome = true := fun x hx => hs x (h.mem_iff.mpr hx)
  have hv : (D.map (fun x => x.getD 0)).Perm (D'.map (fun x => x.getD 0)) := h.map _
  rw [eq_map_some D hs, eq_map_some D' hs']
  generalize D.map (fun x => x.getD 0) = vs at hv
  generalize D'.map (fun x => x.getD 0) = vs' at hv
  cases vs with
  | nil => rw [List.perm_nil.mp hv.symm] 
  | cons a as =>
    cases vs' with
    | nil => exact absurd (List.perm_nil.mp hv) (by simp)
    | cons b bs =>
      simp only [List.map_cons, pyMaxList, foldl_pyMaxF_some]
      obtain ⟨m1, u1⟩ := foldl_max_spec as a
      obtain ⟨m2, u2⟩ := foldl_max_spec bs b
      have : as.foldl (fun m v => max m v) a = bs.foldl (fun m v => max m v) b :=
        le_antisymm (u2 _ (hv.mem_iff.mp m1)) (u1 _ (hv.mem_iff.mpr m2))
      rw [this]

theorem dunnDists_perm {l l' : List (List Row)} (h : l.Perm l') :
    (dunnDists l).Perm (dunnDists l') := by
  unfold dunnDists
  exact pairs_perm_map dunnDistS dunnDistS_comm (h.map dunnStat)

theorem mem_pairs {α : Type} {l : List α} {p : α × α} (h : p ∈ pairs l) : p.1 ∈ l ∧ p.2 ∈ l := by
  induction l with
  | nil => simp [pairs] at h
  | cons x xs ih =>
    simp only [pairs, List.mem_append, List.mem_map] at h
    rcases h with ⟨y, hy, rfl⟩ | h
    · simp [hy]
    · have := ih h
      simp [this.1, this.2]

theorem dunnDists_isSome {l : List (List Row)} (h : ∀ c ∈ l, 1 ≤ c.length) :
    ∀ x ∈ dunnDists l, x.isSome = true := by
  intro x hx
  unfold dunnDists at hx
  obtain ⟨p, hp, rfl⟩ := List.mem_map.mp hx
  obtain ⟨h1, h2⟩ := mem_pairs hp
  obtain ⟨c1, hc1, e1⟩ := List.mem_map.mp h1
  obtain ⟨c2, hc2, e2⟩ := List.mem_map.mp h2
  unfold dunnDistS
  rw [Option.isSome_map]
  apply isim_isSome
  rw [← e1, ← e2]
  have := h c1 hc1
  have := h c2 hc2
  simp only [dunnStat]
  omega

theorem dunn_perm_clusters {l l' : List (List Row)} (h : l.Perm l')
    (h2 : ∀ c ∈ l, 2 ≤ c.length) : dunn l = dunn l' := by
  rw [dunn_eq, dunn_eq]
  have hD : ∀ x ∈ l.map isimRows, x.isSome = true := by
    intro x hx
    obtain ⟨c, hc, rfl⟩ := List.mem_map.mp hx
    exact isim_isSome _ _ (h2 c hc)
  rw [pyMaxList_perm (h.map isimRows) hD]
  have hd := dunnDists_perm h
  have hs : ∀ x ∈ dunnDists l, x.isSome = true :=
    dunnDists_isSome (fun c hc => by have := h2 c hc; omega)
  have hs' : ∀ x ∈ dunnDists l', x.isSome = true := fun x hx => hs x (hd.mem_iff.mpr hx)
  have hv : ((dunnDists l).map (fun x => x.getD 0)).Perm ((dunnDists l').map (fun x => x.getD 0)) :=
    hd.map _
  rw [eq_map_some _ hs, eq_map_some _ hs', foldl_pyMinF_some, foldl_pyMinF_some, hv.foldl_eq 1]

theorem gtF_none_right (b : Option ℚ) : gtF b none = false := by
  cases b <;> rfl

theorem foldl_pyMaxF_none (xs : List (Option ℚ)) : xs.foldl pyMaxF none = none := by
  induction xs with
  | nil => rfl
  | cons x xs ih =>
    rw [List.foldl_cons]
    have : pyMaxF none x = none := by unfold pyMaxF; rw [gtF_none_right]; rfl
    rw [this, ih]

theorem divF_none_right (a : Option ℚ) : divF a none = none := by
  cases a <;> rfl

/-- a leading cluster with fewer than two members makes the Dunn index NaN -/
theorem dunn_nan_first (c : List Row) (cs : List (List Row)) (h : c.length < 2) :
    dunn (c :: cs) = none := by
  unfold dunn dunnWith
  have hc : isimRows c = none := isim_none _ _ h
  simp only [List.map_cons, hc, pyMaxList, foldl_pyMaxF_none]
  rw [if_neg (by simp), divF_none_right]

/-! ### packed input -/

theorem unpackClusters_pack (F : Nat) (clusters : List (List Row))
    (hF : ∀ c ∈ clusters, ∀ r ∈ c, r.length = F) :
    unpackClusters F (clusters.map (fun c => c.map pack)) = clusters := by
  unfold unpackClusters
  rw [List.map_map]
  conv_rhs => rw [← List.map_id clusters]
  apply List.map_congr_left
  intro c hc
  simp only [Function.comp, List.map_map, id]
  conv_rhs => rw [← List.map_id c]
  apply List.map_congr_left
  intro r hr
  simp only [Function.comp, id]
  rw [← hF c hc r hr, unpack_pack]

/-- lists of naturals that agree at every index (reading zeros past the end) have the same
sum and the same sum of squares -/
theorem sums_of_getD_eq (f : Nat → Nat) (hf : f 0 = 0) (a b : List Nat)
    (h : ∀ i, a.getD i 0 = b.getD i 0) : (a.map f).sum = (b.map f).sum := by
  induction a generalizing b with
  | nil =>
    induction b with
    | nil => rfl
    | cons y ys ih =>
      have h0 : y = 0 := by simpa using (h 0).symm
      have := ih (fun i => by simpa using h (i + 1))
      simp [h0, hf, ← this]
  | cons x xs ih =>
    cases b with
    | nil =>
      have h0 : x = 0 := by simpa using h 0
      have := ih [] (fun i => by simpa using h (i + 1))
      simp [h0, hf, this]
    | cons y ys =>
      have h0 : x = y := by simpa using h 0
      have := ih ys (fun i => by simpa using h (i + 1))
      simp [h0, this]

theorem isimFromSum_of_getD_eq (a b : List Nat) (n : Nat) (h : ∀ i, a.getD i 0 = b.getD i 0) :
    isimFromSum a n = isimFromSum b n := by
  unfold isimFromSum
  have h1 := sums_of_getD_eq (fun k => k) rfl a b h
  have h2 := sums_of_getD_eq (fun k => k * k) rfl a b h
  simp only [List.map_id'] at h1
  rw [h1, h2]

/-- `jt_isim_packed(clust)` without `n_features` (all `8 * bytes` bits, i.e. the rows followed
by zero padding) is the iSIM of the rows -/
theorem isimRows_unpack_full (c : List Row) :
    isimRows ((c.map pack).map (fun b => unpack b (8 * b.length))) = isimRows c := by
  unfold isimRows
  rw [List.length_map, List.length_map]
  apply isimFromSum_of_getD_eq
  intro i
  rw [colSum_getD, colSum_getD, List.map_map, List.filter_map, List.length_map]
  congr 1
  apply List.filter_congr
  intro r _
  simp only [Function.comp]
  rw [unpack_full]
  obtain ⟨k, hk⟩ := flatMap_pack r
  rw [hk]
  by_cases hi : i < r.length
  · simp [List.getD_eq_getElem?_getD, List.getElem?_append_left hi]
  · have hi' : r.length ≤ i := by omega
    simp only [List.getD_eq_getElem?_getD, List.getElem?_append_right hi',
      List.getElem?_eq_none hi', Option.getD_none]
    cases hq : (List.replicate k false)[i - r.length]? with
    | none => rfl
    | some v =>
      have := List.mem_of_getElem? hq
      simp at this
      simp [this.2]

/-- Python compares *packed* rows and centrals; on rows of one length this is the similarity
of the unpacked rows -/
theorem jtPacked_centroid (c c' : List Row) (F : Nat) (hF : ∀ r ∈ c, r.length = F)
    (hF' : ∀ r ∈ c', r.length = F) (hne : c ≠ []) (hne' : c' ≠ []) :
    (∀ r ∈ c, jtPacked (pack r) (pack (centroidOf c)) = jtBits r (centroidOf c)) ∧
    jtPacked (pack (centroidOf c)) (pack (centroidOf c')) = jtBits (centroidOf c) (centroidOf c') := by
  have hl : (centroidOf c).length = F := centroid_length c F hF hne
  have hl' : (centroidOf c').length = F := centroid_length c' F hF' hne'
  exact ⟨fun r hr => jtPacked_pack _ _ (by rw [hl, hF r hr]), jtPacked_pack _ _ (by rw [hl, hl'])⟩

end BB.Metrics
