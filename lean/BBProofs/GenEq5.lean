/-
GenEq5 — `cli._validate_output_dir`, as translated on this run, is the model's `validateOutputDir`.
The directory is an opaque parameter: `out_dir.exists()`, `out_dir.is_dir()`, `any(out_dir.iterdir())` are
inputs, `shutil.rmtree(out_dir)` and `out_dir.mkdir()` are recorded effects.
-/
import BBProofs.GenEq
import BBModel.Cli

namespace BB
open PV BB.Cli

/-- an existing directory with the listing `entries`: refused (`RuntimeError`, nothing touched) iff it is not empty and
`overwrite` is off; emptied (removed and re-created, in this order) iff it is not empty and `overwrite` is on; left alone
when empty -/
theorem gen_validate (expf : Rat → Rat) (entries : List String) (overwrite : Bool) :
    BBGen._validate_output_dir expf (PV.bool overwrite) (PV.bool (!entries.isEmpty)) (PV.bool true) (PV.bool true)
      = match validateOutputDir entries overwrite with
        | .error _ => [PV.err "RuntimeError"]
        | .ok _ => if entries.isEmpty then []
                   else [PV.str "shutil.rmtree", PV.str "out_dir", PV.str "out_dir.mkdir"] := by
  unfold BBGen._validate_output_dir validateOutputDir
  cases h : entries.isEmpty <;> cases overwrite <;> simp [h]

/-- a path that does not exist yet: nothing is checked, nothing is touched -/
theorem gen_validate_absent (expf : Rat → Rat) (a b c : PV) :
    BBGen._validate_output_dir expf a b (PV.bool false) c = [] := by
  simp [BBGen._validate_output_dir]

/-- an existing path that is not a directory is refused -/
theorem gen_validate_notdir (expf : Rat → Rat) (a b : PV) :
    BBGen._validate_output_dir expf a b (PV.bool true) (PV.bool false) = [PV.err "RuntimeError"] := by
  simp [BBGen._validate_output_dir]

end BB
