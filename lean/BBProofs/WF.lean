/-
Tree well-formedness (property C08): every node holds between one and `cap` entries
(`cap ≥ 2`), its search cache is the list of its entries' centroids, every entry at every
level is an exact summary (count, per-bit sums, centroid, narrowest counter width) of its
member labels, and the member labels of an inner entry are exactly the labels found in the
node beneath it.  Insertion (with splits propagating upward and the tree growing at the
root) keeps all of this.
-/
import BBProofs.StateInv
import BBProofs.Closure
import BBProofs.Exact

namespace BB

/-! ### definitions -/

/-- entries of a node as clusters -/
def entClus : (h : Nat) → Tree h → List Clu
  | 0, (l : LeafN) => l.subs
  | _+1, (t : InnerN _) => t.ents.map (·.1)

/-- the search cache of a node -/
def cacheOf : (h : Nat) → Tree h → List Row
  | 0, (l : LeafN) => l.cache
  | _+1, (t : InnerN _) => t.cache

/-- well-formed subtree; `slack` = how many entries above its capacity the TOP node may hold
(0 normally, 1 for the node an insertion just over-filled and its caller is about to split) -/
def WFT (D : Nat → Row) : (h : Nat) → Tree h → Nat → Prop
  | 0, (l : LeafN), slack =>
      l.cache = l.subs.map (·.cent) ∧ 2 ≤ l.cap ∧ l.subs.length ≤ l.cap + slack ∧
      ∀ c ∈ l.subs, Exact D c ∧ 1 ≤ c.n
  | h+1, (t : InnerN (Tree h)), slack =>
      t.cache = t.ents.map (·.1.cent) ∧ 2 ≤ t.cap ∧ 1 ≤ t.ents.length ∧
      t.ents.length ≤ t.cap + slack ∧
      ∀ e ∈ t.ents, WFT D h e.2 0 ∧ 1 ≤ nEnts h e.2 ∧ Exact D e.1 ∧ 1 ≤ e.1.n ∧
        (e.1.ids : Multiset Nat) = idsOf (lclus h e.2)

/-! ### basic consequences -/

theorem wft_mono (D : Nat → Row) : ∀ (h : Nat) (t : Tree h) (a b : Nat), a ≤ b →
    WFT D h t a → WFT D h t b
  | 0, (l : LeafN), a, b, hab, hw => by
    obtain ⟨h1, h2, h3, h4⟩ := hw
    exact ⟨h1, h2, by omega, h4⟩
  | h+1, (t : InnerN (Tree h)), a, b, hab, hw => by
    obtain ⟨h1, h2, h3, h4, h5⟩ := hw
    exact ⟨h1, h2, h3, by omega, h5⟩

theorem wft_shape (D : Nat → Row) : ∀ (h : Nat) (t : Tree h) (slack : Nat),
    WFT D h t slack → Shape h t
  | 0, (l : LeafN), slack, hw => by
    obtain ⟨h1, h2, _, _⟩ := hw
    exact ⟨by rw [h1, List.length_map], by omega⟩
  | h+1, (t : InnerN (Tree h)), slack, hw => by
    obtain ⟨h1, h2, h3, _, h5⟩ := hw
    refine ⟨by rw [h1, List.length_map], by omega, ?_, fun e he => wft_shape D h e.2 0 (h5 e he).1⟩
    intro h0; rw [h0] at h3; simp at h3

theorem wft_cap (D : Nat → Row) : ∀ (h : Nat) (t : Tree h) (slack : Nat),
    WFT D h t slack → 2 ≤ capOf h t
  | 0, (l : LeafN), _, hw => hw.2.1
  | _+1, (t : InnerN _), _, hw => hw.2.1

theorem wft_len (D : Nat → Row) : ∀ (h : Nat) (t : Tree h) (slack : Nat),
    WFT D h t slack → nEnts h t ≤ capOf h t + slack
  | 0, (l : LeafN), _, hw => hw.2.2.1
  | _+1, (t : InnerN _), _, hw => hw.2.2.2.1

theorem wft_cache (D : Nat → Row) : ∀ (h : Nat) (t : Tree h) (slack : Nat),
    WFT D h t slack → cacheOf h t = (entClus h t).map (·.cent)
  | 0, (l : LeafN), _, hw => hw.1
  | _+1, (t : InnerN _), _, hw => by
    simp only [cacheOf, entClus, List.map_map]
    exact hw.1

theorem wft_ent (D : Nat → Row) : ∀ (h : Nat) (t : Tree h) (slack : Nat),
    WFT D h t slack → ∀ c ∈ entClus h t, Exact D c ∧ 1 ≤ c.n
  | 0, (l : LeafN), _, hw => hw.2.2.2
  | _+1, (t : InnerN _), _, hw => by
    intro c hc
    simp only [entClus, List.mem_map] at hc
    obtain ⟨e, he, rfl⟩ := hc
    have := hw.2.2.2.2 e he
    exact ⟨this.2.2.1, this.2.2.2.1⟩

theorem entClus_length : ∀ (h : Nat) (t : Tree h), (entClus h t).length = nEnts h t
  | 0, (l : LeafN) => rfl
  | _+1, (t : InnerN _) => by simp [entClus, nEnts]

theorem idsOf_coe (l : List Clu) :
    idsOf (l : Multiset Clu) = (l.map (fun c => (c.ids : Multiset Nat))).sum := by
  simp [idsOf]

theorem idsOf_list_sum (l : List (Multiset Clu)) : idsOf l.sum = (l.map idsOf).sum := by
  induction l with
  | nil => simp
  | cons a l ih => simp [ih]

/-- the labels below a node are the labels of its entries -/
theorem wft_ids (D : Nat → Row) : ∀ (h : Nat) (t : Tree h) (slack : Nat), WFT D h t slack →
    idsOf (lclus h t) = ((entClus h t).map (fun c => (c.ids : Multiset Nat))).sum
  | 0, (l : LeafN), _, _ => by
    simp only [lclus, entClus]; exact idsOf_coe _
  | h+1, (t : InnerN (Tree h)), _, hw => by
    simp only [lclus, entClus, idsOf_list_sum, List.map_map]
    congr 1
    apply List.map_congr_left
    intro e he
    exact ((hw.2.2.2.2 e he).2.2.2.2).symm

/-- what an inner node requires of each of its entries `(tracking entry, child)` -/
def EntWF (D : Nat → Row) (h : Nat) (e : Clu × Tree h) : Prop :=
  WFT D h e.2 0 ∧ 1 ≤ nEnts h e.2 ∧ Exact D e.1 ∧ 1 ≤ e.1.n ∧
    (e.1.ids : Multiset Nat) = idsOf (lclus h e.2)

theorem wft_succ_iff (D : Nat → Row) (h : Nat) (t : InnerN (Tree h)) (slack : Nat) :
    WFT D (h+1) t slack ↔
      (t.cache = t.ents.map (·.1.cent) ∧ 2 ≤ t.cap ∧ 1 ≤ t.ents.length ∧
        t.ents.length ≤ t.cap + slack ∧ ∀ e ∈ t.ents, EntWF D h e) := Iff.rfl

/-! ### splitting an over-full node -/

theorem splitBy_lengths {α : Type} (m : List Bool) (xs : List α) (hl : m.length = xs.length)
    (ht : true ∈ m) (hf : false ∈ m) :
    1 ≤ (splitBy m xs).1.length ∧ 1 ≤ (splitBy m xs).2.length ∧
      (splitBy m xs).1.length + (splitBy m xs).2.length = xs.length := by
  refine ⟨?_, ?_, splitBy_length m xs⟩
  · exact List.length_pos_iff.mpr (splitBy_fst_ne_nil m xs hl ht)
  · exact List.length_pos_iff.mpr (splitBy_snd_ne_nil m xs hl hf)

theorem coe_flatten (l : List (List Nat)) :
    ((l.flatten : List Nat) : Multiset Nat) = (l.map (fun (x : List Nat) => (↑x : Multiset Nat))).sum := by
  induction l with
  | nil => simp
  | cons a l ih => simp only [List.flatten_cons, List.map_cons, List.sum_cons, ← ih, Multiset.coe_add]

/-- the tracking entry rebuilt over a non-empty list of exact non-empty entries -/
theorem trackOf_wf (D : Nat → Row) (cs : List Clu) (h : ∀ c ∈ cs, Exact D c ∧ 1 ≤ c.n)
    (hne : 1 ≤ cs.length) :
    Exact D (trackOf cs) ∧ 1 ≤ (trackOf cs).n ∧
      ((trackOf cs).ids : Multiset Nat) = (cs.map (fun c => (c.ids : Multiset Nat))).sum := by
  obtain ⟨h1, h2, h3⟩ := exact_trackOf D cs (fun c hc => (h c hc).1)
  refine ⟨h1, ?_, ?_⟩
  · rw [h3]
    cases cs with
    | nil => simp at hne
    | cons c cs =>
      have := (h c (by simp)).2
      simp only [List.map_cons, List.sum_cons]
      omega
  · rw [h2, coe_flatten, List.map_map]; rfl

variable (P : Policy)

/-- **split**: both halves of an over-full node are well-formed, non-empty, within capacity,
and the two rebuilt tracking entries are exact summaries of exactly the labels beneath them -/
theorem splitNode_wf (hP : P.Valid) (D : Nat → Row) : ∀ (h : Nat) (t : Tree h) (next : Nat),
    WFT D h t 1 → 2 ≤ nEnts h t →
    EntWF D h ((splitNode P h t next).c1, (splitNode P h t next).t1) ∧
    EntWF D h ((splitNode P h t next).c2, (splitNode P h t next).t2)
  | 0, (l : LeafN), next, hw, h2 => by
    obtain ⟨hc, hcap, hlen, hall⟩ := hw
    simp only [nEnts] at h2
    have hm : (P.mask l.cache).length = l.subs.length := by rw [hP.mask_len, hc, List.length_map]
    have h2' : 2 ≤ l.cache.length := by rw [hc, List.length_map]; exact h2
    obtain ⟨ha, hb, hab⟩ := splitBy_lengths (P.mask l.cache) l.subs hm (hP.mask_true _ h2')
      (hP.mask_false _ h2')
    have hA : ∀ c ∈ (splitBy (P.mask l.cache) l.subs).1, Exact D c ∧ 1 ≤ c.n :=
      fun c hc => hall c ((mem_splitBy _ _ c).mp (Or.inl hc))
    have hB : ∀ c ∈ (splitBy (P.mask l.cache) l.subs).2, Exact D c ∧ 1 ≤ c.n :=
      fun c hc => hall c ((mem_splitBy _ _ c).mp (Or.inr hc))
    have w1 : WFT D 0 (splitNode P 0 l next).t1 0 := ⟨rfl, hcap, by show (splitBy (P.mask l.cache) l.subs).1.length ≤ l.cap + 0; omega, hA⟩
    have w2 : WFT D 0 (splitNode P 0 l next).t2 0 := ⟨rfl, hcap, by show (splitBy (P.mask l.cache) l.subs).2.length ≤ l.cap + 0; omega, hB⟩
    obtain ⟨a1, a2, a3⟩ := trackOf_wf D _ hA ha
    obtain ⟨b1, b2, b3⟩ := trackOf_wf D _ hB hb
    exact ⟨⟨w1, ha, a1, a2, by rw [wft_ids D 0 _ 0 w1]; exact a3⟩,
           ⟨w2, hb, b1, b2, by rw [wft_ids D 0 _ 0 w2]; exact b3⟩⟩
  | h+1, (t : InnerN (Tree h)), next, hw, h2 => by
    obtain ⟨hc, hcap, _, hlen, hall⟩ := hw
    simp only [nEnts] at h2
    have hm : (P.mask t.cache).length = t.ents.length := by rw [hP.mask_len, hc, List.length_map]
    have h2' : 2 ≤ t.cache.length := by rw [hc, List.length_map]; exact h2
    obtain ⟨ha, hb, hab⟩ := splitBy_lengths (P.mask t.cache) t.ents hm (hP.mask_true _ h2')
      (hP.mask_false _ h2')
    have hA : ∀ e ∈ (splitBy (P.mask t.cache) t.ents).1, EntWF D h e :=
      fun e he => hall e ((mem_splitBy _ _ e).mp (Or.inl he))
    have hB : ∀ e ∈ (splitBy (P.mask t.cache) t.ents).2, EntWF D h e :=
      fun e he => hall e ((mem_splitBy _ _ e).mp (Or.inr he))
    have w1 : WFT D (h+1) (splitNode P (h+1) t next).t1 0 :=
      ⟨rfl, hcap, ha, by show (splitBy (P.mask t.cache) t.ents).1.length ≤ t.cap + 0; omega, hA⟩
    have w2 : WFT D (h+1) (splitNode P (h+1) t next).t2 0 :=
      ⟨rfl, hcap, hb, by show (splitBy (P.mask t.cache) t.ents).2.length ≤ t.cap + 0; omega, hB⟩
    obtain ⟨a1, a2, a3⟩ := trackOf_wf D ((splitBy (P.mask t.cache) t.ents).1.map (·.1))
      (wft_ent D (h+1) _ 0 w1) (by rw [List.length_map]; exact ha)
    obtain ⟨b1, b2, b3⟩ := trackOf_wf D ((splitBy (P.mask t.cache) t.ents).2.map (·.1))
      (wft_ent D (h+1) _ 0 w2) (by rw [List.length_map]; exact hb)
    exact ⟨⟨w1, ha, a1, a2, by rw [wft_ids D (h+1) _ 0 w1]; exact a3⟩,
           ⟨w2, hb, b1, b2, by rw [wft_ids D (h+1) _ 0 w2]; exact b3⟩⟩

theorem splitNode_cap : ∀ (h : Nat) (t : Tree h) (next : Nat),
    capOf h (splitNode P h t next).t1 = capOf h t ∧ capOf h (splitNode P h t next).t2 = capOf h t
  | 0, (l : LeafN), _ => ⟨rfl, rfl⟩
  | _+1, (t : InnerN _), _ => ⟨rfl, rfl⟩

/-! ### insertion -/

/-- in both cases of the provenance lemma the labels grow by exactly those of `s` -/
theorem ProvOf.ids {old new : Multiset Clu} {s : Clu} (h : ProvOf P old s new) :
    idsOf new = idsOf old + (s.ids : Multiset Nat) := by
  rcases h with h | ⟨rest, c, h1, _, h3⟩
  · rw [h, idsOf_add, idsOf_singleton]
  · rw [h1, h3]
    simp only [idsOf_add, idsOf_singleton, Clu.merge_ids, ← Multiset.coe_add, add_assoc]

theorem ins_labels (hP : P.Valid) (h : Nat) (t : Tree h) (s : Clu) (next : Nat) (hs : Shape h t) :
    idsOf (lclus h (ins P h t s next).node) = idsOf (lclus h t) + (s.ids : Multiset Nat) :=
  (ins_prov P hP h t s next hs).ids P

/-- what an insertion into a well-formed node returns -/
structure InsOK (D : Nat → Row) (h : Nat) (t : Tree h) (r : InsRes (Tree h)) : Prop where
  /-- the node is well-formed except that it may hold one entry too many -/
  wf1 : WFT D h r.node 1
  /-- ... which happens only when `over` is reported -/
  wf0 : r.over = false → WFT D h r.node 0
  /-- an over-full node holds exactly one entry too many -/
  full : r.over = true → nEnts h r.node = capOf h t + 1
  cap : capOf h r.node = capOf h t
  ne : 1 ≤ nEnts h r.node
  /-- a node that had room is never reported over-full -/
  room : nEnts h t < capOf h t → r.over = false

theorem insertLeaf_wf (D : Nat → Row) (l : LeafN) (s : Clu) (next : Nat) (hw : WFT D 0 l 0)
    (hs : Exact D s) (hn : 1 ≤ s.n) : InsOK D 0 l (insertLeaf P l s next) := by
  obtain ⟨hc, hcap, hlen, hall⟩ := hw
  have hw : WFT D 0 l 0 := ⟨hc, hcap, hlen, hall⟩
  unfold insertLeaf
  split
  · have w0 : WFT D 0 ({ l with subs := [s], cache := [s.cent] } : LeafN) 0 :=
      ⟨rfl, hcap, by show 1 ≤ l.cap + 0; omega, by
        intro c hc; rw [List.mem_singleton] at hc; subst hc; exact ⟨hs, hn⟩⟩
    exact ⟨wft_mono D 0 _ 0 1 (by omega) w0, fun _ => w0, fun h => by simp at h, rfl,
      by simp [nEnts], fun _ => rfl⟩
  · rename_i he
    have hne : 1 ≤ l.subs.length := by
      cases hsub : l.subs with
      | nil => simp [hsub] at he
      | cons a b => simp
    simp only
    split
    · exact ⟨wft_mono D 0 _ 0 1 (by omega) hw, fun _ => hw, fun h => by simp at h, rfl,
        hne, fun _ => rfl⟩
    · rename_i c hsome
      have hcm : c ∈ l.subs := List.mem_of_getElem? hsome
      split
      · have w0 : WFT D 0
            ({ l with
                subs := l.subs.set (P.route l.cache s.cent) (c.merge s),
                cache := l.cache.set (P.route l.cache s.cent) (c.merge s).cent } : LeafN) 0 := by
          refine ⟨?_, hcap, ?_, ?_⟩
          · show l.cache.set _ _ = (l.subs.set _ _).map _
            rw [hc, List.map_set]
          · show (l.subs.set _ _).length ≤ l.cap + 0
            rw [List.length_set]; exact hlen
          · intro x hx
            rcases List.mem_or_eq_of_mem_set hx with hx | hx
            · exact hall x hx
            · subst hx
              exact ⟨exact_merge D c s (hall c hcm).1 hs, by rw [merge_n]; omega⟩
        exact ⟨wft_mono D 0 _ 0 1 (by omega) w0, fun _ => w0, fun h => by simp at h, rfl,
          by simp only [nEnts, List.length_set]; exact hne, fun _ => rfl⟩
      · have w1 : ∀ k, l.subs.length + 1 ≤ l.cap + k →
            WFT D 0 ({ l with subs := l.subs ++ [s], cache := l.cache ++ [s.cent] } : LeafN) k := by
          intro k hk
          refine ⟨?_, hcap, ?_, ?_⟩
          · show l.cache ++ [s.cent] = (l.subs ++ [s]).map _
            rw [hc, List.map_append]; rfl
          · show (l.subs ++ [s]).length ≤ l.cap + k
            simpa using hk
          · intro x hx
            rcases List.mem_append.mp hx with hx | hx
            · exact hall x hx
            · rw [List.mem_singleton] at hx; subst hx; exact ⟨hs, hn⟩
        refine ⟨w1 1 (by omega), ?_, ?_, rfl, by simp [nEnts], ?_⟩
        · intro hov
          simp only [decide_eq_false_iff_not, List.length_append, List.length_singleton] at hov
          exact w1 0 (by omega)
        · intro hov
          simp only [decide_eq_true_eq, List.length_append, List.length_singleton] at hov
          simp only [nEnts, capOf, List.length_append, List.length_singleton]
          omega
        · intro hroom
          simp only [nEnts, capOf] at hroom
          simp only [decide_eq_false_iff_not, List.length_append, List.length_singleton]
          omega

/-- replacing one entry of an inner node (and its cache row) by a well-formed entry -/
theorem wft_replace (D : Nat → Row) (h : Nat) (t : InnerN (Tree h)) (i : Nat) (e1 : Clu × Tree h)
    (hw : WFT D (h+1) t 0) (h1 : EntWF D h e1) :
    WFT D (h+1) ({ cap := t.cap, ents := t.ents.set i e1, cache := t.cache.set i e1.1.cent } :
      InnerN (Tree h)) 0 := by
  obtain ⟨hc, hcap, hne, hlen, hall⟩ := hw
  refine ⟨?_, hcap, ?_, ?_, ?_⟩
  · show t.cache.set i e1.1.cent = (t.ents.set i e1).map _
    rw [hc, List.map_set]
  · show 1 ≤ (t.ents.set i e1).length
    rw [List.length_set]; exact hne
  · show (t.ents.set i e1).length ≤ t.cap + 0
    rw [List.length_set]; exact hlen
  · intro e he
    rcases List.mem_or_eq_of_mem_set he with he | he
    · exact hall e he
    · subst he; exact h1

/-- replacing one entry by a well-formed entry and appending another one -/
theorem wft_replace_append (D : Nat → Row) (h : Nat) (t : InnerN (Tree h)) (i : Nat)
    (e1 e2 : Clu × Tree h) (k : Nat) (hw : WFT D (h+1) t 0) (h1 : EntWF D h e1) (h2 : EntWF D h e2)
    (hk : t.ents.length + 1 ≤ t.cap + k) :
    WFT D (h+1) ({ cap := t.cap, ents := t.ents.set i e1 ++ [e2],
                   cache := t.cache.set i e1.1.cent ++ [e2.1.cent] } : InnerN (Tree h)) k := by
  obtain ⟨hc, hcap, hne, hlen, hall⟩ := hw
  refine ⟨?_, hcap, ?_, ?_, ?_⟩
  · show t.cache.set i e1.1.cent ++ [e2.1.cent] = (t.ents.set i e1 ++ [e2]).map _
    rw [hc, List.map_append, List.map_set]; rfl
  · show 1 ≤ (t.ents.set i e1 ++ [e2]).length
    simp
  · show (t.ents.set i e1 ++ [e2]).length ≤ t.cap + k
    simpa using hk
  · intro e he
    rcases List.mem_append.mp he with he | he
    · rcases List.mem_or_eq_of_mem_set he with he | he
      · exact hall e he
      · subst he; exact h1
    · rw [List.mem_singleton] at he; subst he; exact h2

/-- **insertion** keeps a subtree well-formed; only its top node may end up with one entry too
many, in which case (and only then) `over` is reported to the caller, who splits it -/
theorem ins_wf (hP : P.Valid) (D : Nat → Row) : ∀ (h : Nat) (t : Tree h) (s : Clu) (next : Nat),
    WFT D h t 0 → Exact D s → 1 ≤ s.n → InsOK D h t (ins P h t s next)
  | 0, (l : LeafN), s, next, hw, hs, hn => by
    simp only [ins]
    exact insertLeaf_wf P D l s next hw hs hn
  | h+1, (t : InnerN (Tree h)), s, next, hw, hs, hn => by
    have hsh := wft_shape D (h+1) t 0 hw
    obtain ⟨c, child, hsome, hmem⟩ := Shape.route_some P hP t hsh s.cent
    have hlen : t.ents.length ≤ t.cap + 0 := hw.2.2.2.1
    have hne : 1 ≤ t.ents.length := hw.2.2.1
    obtain ⟨cw, cne, cex, cn, cids⟩ := hw.2.2.2.2 _ hmem
    have ih := ins_wf hP D h child s next cw hs hn
    have hlab := ins_labels P hP h child s next (wft_shape D h child 0 cw)
    simp only [ins, hsome]
    split
    · rename_i hover
      have hfull := ih.full hover
      have hcc := wft_cap D h child 0 cw
      have hsp := splitNode_wf P hP D h _ (ins P h child s next).next ih.wf1 (by omega)
      refine ⟨wft_replace_append D h t _ (_, _) (_, _) 1 hw hsp.1 hsp.2 (by omega), ?_, ?_, rfl,
        by simp [nEnts], ?_⟩
      · intro hov
        simp only [decide_eq_false_iff_not, List.length_append, List.length_set,
          List.length_singleton] at hov
        exact wft_replace_append D h t _ (_, _) (_, _) 0 hw hsp.1 hsp.2 (by omega)
      · intro hov
        simp only [decide_eq_true_eq, List.length_append, List.length_set,
          List.length_singleton] at hov
        simp only [nEnts, capOf, List.length_append, List.length_set, List.length_singleton]
        omega
      · intro hroom
        simp only [nEnts, capOf] at hroom
        simp only [decide_eq_false_iff_not, List.length_append, List.length_set,
          List.length_singleton]
        omega
    · rename_i hover
      have hover : (ins P h child s next).over = false := by simpa using hover
      have he : EntWF D h (c.update s, (ins P h child s next).node) :=
        ⟨ih.wf0 hover, ih.ne, exact_update D c s cex hs, by rw [update_n]; omega, by
          show ((c.ids ++ s.ids : List Nat) : Multiset Nat) = _
          rw [hlab, ← cids, Multiset.coe_add]⟩
      have w0 := wft_replace D h t (P.route t.cache s.cent) _ hw he
      exact ⟨wft_mono D (h+1) _ 0 1 (by omega) w0, fun _ => w0, fun h => by simp at h, rfl,
        by simp only [nEnts, List.length_set]; exact hne, fun _ => rfl⟩

/-! ### the state level: insertion at the root, growing the tree -/

/-- the tree of a state is well-formed (nothing to say once the internal nodes are released) -/
def TreeSt.WF (D : Nat → Row) : TreeSt → Prop
  | .uninit => True
  | .full h _ root _ _ => WFT D h root 0
  | .leavesOnly _ _ => True

/-- number of entries of the root node (0 when there is no tree) -/
def TreeSt.rootEnts : TreeSt → Nat
  | .full h _ root _ _ => nEnts h root
  | _ => 0

theorem insertRoot_wf (hP : P.Valid) (D : Nat → Row) (bf : Nat) (hbf : 2 ≤ bf) (h F : Nat)
    (root : Tree h) (chain : List Nat) (next : Nat) (s : Clu) (hw : WFT D h root 0)
    (hs : Exact D s) (hn : 1 ≤ s.n) :
    (insertRoot P bf h F root chain next s).WF D ∧
      1 ≤ (insertRoot P bf h F root chain next s).rootEnts := by
  have hi := ins_wf P hP D h root s next hw hs hn
  unfold insertRoot
  simp only
  split
  · rename_i hover
    have hfull := hi.full hover
    have hcc := wft_cap D h root 0 hw
    have hsp := splitNode_wf P hP D h _ (ins P h root s next).next hi.wf1 (by omega)
    refine ⟨?_, by simp [TreeSt.rootEnts, nEnts]⟩
    show WFT D (h+1) _ 0
    refine ⟨rfl, hbf, by simp, by simp; omega, ?_⟩
    intro e he
    simp only [List.mem_cons, List.not_mem_nil, or_false] at he
    rcases he with he | he <;> subst he
    · exact hsp.1
    · exact hsp.2
  · rename_i hover
    have hover : (ins P h root s next).over = false := by simpa using hover
    exact ⟨hi.wf0 hover, hi.ne⟩

/-- **C08, preservation**: inserting a unit keeps the tree well-formed (the `uninit` state starts
from an empty root leaf of capacity `bf`; a root split adds a level with a two-entry root) -/
theorem insertUnit_wf_ne (hP : P.Valid) (D : Nat → Row) (bf : Nat) (hbf : 2 ≤ bf) (F : Nat)
    (st st' : TreeSt) (s : Clu) (hw : st.WF D) (hs : Exact D s) (hn : 1 ≤ s.n)
    (hst : insertUnit P bf F st s = some st') : st'.WF D ∧ 1 ≤ st'.rootEnts := by
  cases st with
  | leavesOnly F' ls => simp [insertUnit] at hst
  | uninit =>
    simp only [insertUnit, Option.some.injEq] at hst
    subst hst
    refine insertRoot_wf P hP D bf hbf 0 F _ [0] 1 s ?_ hs hn
    exact ⟨rfl, hbf, by simp, by simp⟩
  | full h F' root chain next =>
    simp only [insertUnit, Option.some.injEq] at hst
    subst hst
    exact insertRoot_wf P hP D bf hbf h F' root chain next s hw hs hn

theorem insertUnit_wf (hP : P.Valid) (D : Nat → Row) (bf : Nat) (hbf : 2 ≤ bf) (F : Nat)
    (st st' : TreeSt) (s : Clu) (hw : st.WF D) (hs : Exact D s) (hn : 1 ≤ s.n)
    (hst : insertUnit P bf F st s = some st') : st'.WF D :=
  (insertUnit_wf_ne P hP D bf hbf F st st' s hw hs hn hst).1

/-- after an insertion the root holds at least one entry -/
theorem insertUnit_root_nonempty (hP : P.Valid) (D : Nat → Row) (bf : Nat) (hbf : 2 ≤ bf) (F : Nat)
    (st st' : TreeSt) (s : Clu) (hw : st.WF D) (hs : Exact D s) (hn : 1 ≤ s.n)
    (hst : insertUnit P bf F st s = some st') : 1 ≤ st'.rootEnts :=
  (insertUnit_wf_ne P hP D bf hbf F st st' s hw hs hn hst).2

/-- an insertion never fails on a state that still has its tree, and never releases it -/
theorem insertUnit_isSome (bf F : Nat) (st : TreeSt) (s : Clu) (hlo : st.isLeavesOnly = false) :
    ∃ st', insertUnit P bf F st s = some st' := by
  cases st with
  | leavesOnly F' ls => simp [TreeSt.isLeavesOnly] at hlo
  | uninit => exact ⟨_, rfl⟩
  | full h F' root chain next => exact ⟨_, rfl⟩

/-- the formulation with an explicit slack: 1 exactly when `over` is reported -/
theorem ins_wf_slack (hP : P.Valid) (D : Nat → Row) (h : Nat) (t : Tree h) (s : Clu) (next : Nat)
    (hw : WFT D h t 0) (hs : Exact D s) (hn : 1 ≤ s.n) :
    WFT D h (ins P h t s next).node (if (ins P h t s next).over then 1 else 0) ∧
    ((ins P h t s next).over = true → nEnts h (ins P h t s next).node = capOf h t + 1) ∧
    (nEnts h t < capOf h t → (ins P h t s next).over = false) := by
  have hi := ins_wf P hP D h t s next hw hs hn
  refine ⟨?_, hi.full, hi.room⟩
  cases hov : (ins P h t s next).over
  · simpa using hi.wf0 hov
  · simpa using hi.wf1

/-- the `_fit_buffers` loop keeps the tree well-formed -/
theorem fitUnits_wf (hP : P.Valid) (D : Nat → Row) (bf : Nat) (hbf : 2 ≤ bf) (F : Nat) :
    ∀ (units : List Clu) (st : TreeSt) (k : Nat), st.WF D → (∀ u ∈ units, Exact D u ∧ 1 ≤ u.n) →
      (fitUnits P bf F st k units).1.WF D
  | [], st, k, hw, _ => by simpa [fitUnits] using hw
  | u :: us, st, k, hw, hu => by
    simp only [fitUnits]
    cases hst : insertUnit P bf F st u with
    | none => exact hw
    | some st' =>
      exact fitUnits_wf hP D bf hbf F us st' _
        (insertUnit_wf P hP D bf hbf F st st' u hw (hu u (by simp)).1 (hu u (by simp)).2 hst)
        (fun x hx => hu x (by simp [hx]))

/-- the `fit` loop keeps the tree well-formed, when the accepted rows are the fingerprints `D`
assigns to their labels -/
theorem fitRows_wf (hP : P.Valid) (D : Nat → Row) (bf : Nat) (hbf : 2 ≤ bf) (F : Nat) :
    ∀ (rows : List (Nat × Row)) (st : TreeSt) (k : Nat), st.WF D →
      (∀ p ∈ rows, rowOk F p.2 = true → D p.1 = p.2) → (fitRows P bf F st k rows).1.WF D
  | [], st, k, hw, _ => by simpa [fitRows] using hw
  | (lab, r) :: rest, st, k, hw, hd => by
    simp only [fitRows]
    by_cases hr : rowOk F r = true
    · simp only [hr, Bool.not_true, Bool.false_eq_true, ↓reduceIte]
      cases hst : insertUnit P bf F st (Clu.ofRow r lab) with
      | none => exact hw
      | some st' =>
        exact fitRows_wf hP D bf hbf F rest st' _
          (insertUnit_wf P hP D bf hbf F st st' _ hw
            (exact_ofRow D r lab (hd (lab, r) (by simp) hr)) (by simp [Clu.ofRow]) hst)
          (fun x hx => hd x (by simp [hx]))
    · have hr' : rowOk F r = false := by simpa using hr
      simp only [hr', Bool.not_false, ↓reduceIte]
      exact hw

/-! ### what well-formedness says, node by node (the statements of property C08) -/

/-- `p` holds at every node of the subtree -/
def AllNodes (p : (h : Nat) → Tree h → Prop) : (h : Nat) → Tree h → Prop
  | 0, (l : LeafN) => p 0 l
  | h+1, (t : InnerN (Tree h)) => p (h+1) t ∧ ∀ e ∈ t.ents, AllNodes p h e.2

/-- whatever follows from well-formedness of a node (with any slack) holds at every node -/
theorem allNodes_of_wft (D : Nat → Row) (q : (h : Nat) → Tree h → Prop)
    (hq : ∀ h' t' k, WFT D h' t' k → q h' t') : ∀ (h : Nat) (t : Tree h) (k : Nat),
    WFT D h t k → AllNodes q h t
  | 0, (l : LeafN), k, hw => hq 0 l k hw
  | h+1, (t : InnerN (Tree h)), k, hw =>
    ⟨hq (h+1) t k hw, fun e he => allNodes_of_wft D q hq h e.2 0 (hw.2.2.2.2 e he).1⟩

/-- whatever follows from well-formedness of a non-empty node holds at every node of a
well-formed tree with a non-empty root (every node below the root is non-empty) -/
theorem allNodes_of_wft_ne (D : Nat → Row) (q : (h : Nat) → Tree h → Prop)
    (hq : ∀ h' t', WFT D h' t' 0 → 1 ≤ nEnts h' t' → q h' t') : ∀ (h : Nat) (t : Tree h),
    WFT D h t 0 → 1 ≤ nEnts h t → AllNodes q h t
  | 0, (l : LeafN), hw, hne => hq 0 l hw hne
  | h+1, (t : InnerN (Tree h)), hw, hne =>
    ⟨hq (h+1) t hw hne, fun e he =>
      allNodes_of_wft_ne D q hq h e.2 (hw.2.2.2.2 e he).1 (hw.2.2.2.2 e he).2.1⟩

/-- **C08 (a)**: every node holds between 1 and `cap` entries, and `cap ≥ 2`
(the root leaf is empty only before the first insertion, see `insertUnit_root_nonempty`) -/
theorem wft_all_bounds (D : Nat → Row) (h : Nat) (t : Tree h) (hw : WFT D h t 0)
    (hne : 1 ≤ nEnts h t) :
    AllNodes (fun h' t' => 1 ≤ nEnts h' t' ∧ nEnts h' t' ≤ capOf h' t' ∧ 2 ≤ capOf h' t') h t :=
  allNodes_of_wft_ne D _ (fun h' t' hw' hne' =>
    ⟨hne', by simpa using wft_len D h' t' 0 hw', wft_cap D h' t' 0 hw'⟩) h t hw hne

/-- an inner root needs no non-emptiness assumption -/
theorem wft_all_bounds_inner (D : Nat → Row) (h : Nat) (t : Tree (h+1)) (hw : WFT D (h+1) t 0) :
    AllNodes (fun h' t' => 1 ≤ nEnts h' t' ∧ nEnts h' t' ≤ capOf h' t' ∧ 2 ≤ capOf h' t') (h+1) t :=
  wft_all_bounds D (h+1) t hw hw.2.2.1

/-- **C08 (d)**: every node's search cache is the list of its entries' centroids -/
theorem wft_all_cache (D : Nat → Row) (h : Nat) (t : Tree h) (k : Nat) (hw : WFT D h t k) :
    AllNodes (fun h' t' => cacheOf h' t' = (entClus h' t').map (·.cent)) h t :=
  allNodes_of_wft D _ (fun h' t' k' hw' => wft_cache D h' t' k' hw') h t k hw

/-- every entry at every level is an exact summary of its (at least one) member labels -/
theorem wft_all_exact (D : Nat → Row) (h : Nat) (t : Tree h) (k : Nat) (hw : WFT D h t k) :
    AllNodes (fun h' t' => ∀ c ∈ entClus h' t', Exact D c ∧ 1 ≤ c.n) h t :=
  allNodes_of_wft D _ (fun h' t' k' hw' => wft_ent D h' t' k' hw') h t k hw

/-- **C08 (f)**: every entry at every level keeps its counters in the width `minSafe n` -/
theorem wft_all_width (D : Nat → Row) (h : Nat) (t : Tree h) (k : Nat) (hw : WFT D h t k) :
    AllNodes (fun h' t' => ∀ c ∈ entClus h' t', c.w = minSafe c.n) h t :=
  allNodes_of_wft D _ (fun h' t' k' hw' c hc => (wft_ent D h' t' k' hw' c hc).1.w_eq) h t k hw

/-! #### an inner entry summarises the node beneath it -/

theorem card_list_sum (l : List (Multiset Nat)) :
    Multiset.card l.sum = (l.map Multiset.card).sum := by
  induction l with
  | nil => simp
  | cons a l ih => simp [ih]

theorem colSum_perm {a b : List Row} (h : a.Perm b) : colSum a = colSum b := by
  induction h with
  | nil => rfl
  | cons x _ ih => rw [colSum_cons, colSum_cons, ih]
  | swap x y l =>
    simp only [colSum_cons]
    rw [← addLs_assoc, ← addLs_assoc, addLs_comm (rowToNat y)]
  | trans _ _ ih1 ih2 => rw [ih1, ih2]

/-- the column sums over the concatenated members of exact summaries are the entry-wise
running sums of their stored per-bit sums -/
theorem foldl_addLs_exact (D : Nat → Row) (cs : List Clu) (h : ∀ c ∈ cs, Exact D c)
    (acc : List Nat) :
    cs.foldl (fun acc c => addLs acc c.ls) acc =
      addLs acc (colSum ((cs.map (·.ids)).flatten.map D)) := by
  induction cs generalizing acc with
  | nil => simp [colSum_nil, addLs_nil_right]
  | cons c cs ih =>
    rw [List.foldl_cons, ih (fun x hx => h x (by simp [hx])), List.map_cons, List.flatten_cons,
      List.map_append, colSum_append, ← (h c (by simp)).ls_eq, addLs_assoc]

/-- count, per-bit sums and labels of every entry of an inner node equal the totals of the
node beneath it -/
def TrackOK (D : Nat → Row) : (h : Nat) → Tree h → Prop
  | 0, _ => True
  | h+1, (t : InnerN (Tree h)) => ∀ e ∈ t.ents,
      e.1.n = ((entClus h e.2).map (·.n)).sum ∧
      e.1.ls = colSum (e.1.ids.map D) ∧
      (e.1.ids : Multiset Nat) = ((entClus h e.2).map (fun c => (c.ids : Multiset Nat))).sum ∧
      e.1.ls = (entClus h e.2).foldl (fun acc c => addLs acc c.ls) []

theorem wft_trackOK (D : Nat → Row) : ∀ (h : Nat) (t : Tree h) (k : Nat),
    WFT D h t k → TrackOK D h t
  | 0, _, _, _ => trivial
  | h+1, (t : InnerN (Tree h)), k, hw => by
    intro e he
    obtain ⟨cw, _, cex, _, cids⟩ := hw.2.2.2.2 e he
    have hent := wft_ent D h e.2 0 cw
    have hids : (e.1.ids : Multiset Nat) =
        ((entClus h e.2).map (fun c => (c.ids : Multiset Nat))).sum := by
      rw [cids, wft_ids D h e.2 0 cw]
    refine ⟨?_, cex.ls_eq, hids, ?_⟩
    · have := congrArg Multiset.card hids
      rw [Multiset.coe_card, ← cex.n_eq, card_list_sum, List.map_map] at this
      rw [this]
      congr 1
      apply List.map_congr_left
      intro c hc
      simp only [Function.comp, Multiset.coe_card]
      exact (hent c hc).1.n_eq.symm
    · have hperm : e.1.ids.Perm ((entClus h e.2).map (·.ids)).flatten := by
        apply Multiset.coe_eq_coe.mp
        rw [hids, coe_flatten, List.map_map]; rfl
      rw [foldl_addLs_exact D _ (fun c hc => (hent c hc).1), addLs_nil_left, cex.ls_eq]
      exact colSum_perm (hperm.map D)

/-- **C08 (c)**: at every inner node, every entry's count, per-bit sums and member labels
equal the totals of the node beneath it -/
theorem wft_all_track (D : Nat → Row) (h : Nat) (t : Tree h) (k : Nat) (hw : WFT D h t k) :
    AllNodes (TrackOK D) h t :=
  allNodes_of_wft D _ (fun h' t' k' hw' => wft_trackOK D h' t' k' hw') h t k hw

/-! #### the state level -/

/-- `p` holds at every node of the state's tree -/
def TreeSt.AllNodes (p : (h : Nat) → Tree h → Prop) : TreeSt → Prop
  | .full h _ root _ _ => BB.AllNodes p h root
  | _ => True

/-- **C08** for the tree after an insertion: entry counts within `[1, cap]`, `cap ≥ 2`, caches
equal to entry centroids, every entry exact (in particular in the narrowest width), inner entries
equal to the totals beneath them -/
theorem insertUnit_C08 (hP : P.Valid) (D : Nat → Row) (bf : Nat) (hbf : 2 ≤ bf) (F : Nat)
    (st st' : TreeSt) (s : Clu) (hw : st.WF D) (hs : Exact D s) (hn : 1 ≤ s.n)
    (hst : insertUnit P bf F st s = some st') :
    st'.AllNodes (fun h' t' => 1 ≤ nEnts h' t' ∧ nEnts h' t' ≤ capOf h' t' ∧ 2 ≤ capOf h' t') ∧
    st'.AllNodes (fun h' t' => cacheOf h' t' = (entClus h' t').map (·.cent)) ∧
    st'.AllNodes (fun h' t' => ∀ c ∈ entClus h' t', Exact D c ∧ 1 ≤ c.n ∧ c.w = minSafe c.n) ∧
    st'.AllNodes (TrackOK D) := by
  obtain ⟨h1, h2⟩ := insertUnit_wf_ne P hP D bf hbf F st st' s hw hs hn hst
  cases st' with
  | uninit => exact ⟨trivial, trivial, trivial, trivial⟩
  | leavesOnly F' ls => exact ⟨trivial, trivial, trivial, trivial⟩
  | full h F' root chain next =>
    refine ⟨wft_all_bounds D h root h1 h2, wft_all_cache D h root 0 h1, ?_, wft_all_track D h root 0 h1⟩
    exact allNodes_of_wft D _ (fun h' t' k' hw' c hc =>
      ⟨(wft_ent D h' t' k' hw' c hc).1, (wft_ent D h' t' k' hw' c hc).2,
       (wft_ent D h' t' k' hw' c hc).1.w_eq⟩) h root 0 h1

end BB

