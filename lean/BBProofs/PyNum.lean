/-
Evaluation lemmas for the value algebra `BB.PV` on constructor forms: what each
operation of PyNum.lean computes on ints, unsigned scalars, floats.  They are the only
place where the definitions of PyNum.lean are unfolded; `BBProofs/GenEq.lean` rewrites the
generated code with them.
-/
import BBModel.PyNum
import BBProofs.Fl

namespace BB
namespace PV

@[simp] theorem ite_bool (b : Bool) (t e : PV) : PV.ite (PV.bool b) t e = if b then t else e := by
  cases b <;> rfl

@[simp] theorem iteL_bool (b : Bool) (t e : List PV) : PV.iteL (PV.bool b) t e = if b then t else e := by
  cases b <;> rfl

theorem ordLt_int (a b : Int) : (compare a b == Ordering.lt) = decide (a < b) := by
  rcases lt_trichotomy a b with h | h | h
  · simp [compare_lt_iff_lt.mpr h, h]
  · subst h; simp
  · have : ¬ a < b := by omega
    simp [compare_gt_iff_gt.mpr h, this]

theorem ordEq_int (a b : Int) : (compare a b == Ordering.eq) = decide (a = b) := by
  rcases lt_trichotomy a b with h | h | h
  · have : a ≠ b := by omega
    simp [compare_lt_iff_lt.mpr h, this]
  · subst h; simp
  · have : a ≠ b := by omega
    simp [compare_gt_iff_gt.mpr h, this]

theorem ordGt_int (a b : Int) : (compare a b == Ordering.gt) = decide (b < a) := by
  rcases lt_trichotomy a b with h | h | h
  · have : ¬ b < a := by omega
    simp [compare_lt_iff_lt.mpr h, this]
  · subst h; simp
  · simp [compare_gt_iff_gt.mpr h, h]

theorem ordNeGt_int (a b : Int) : (compare a b != Ordering.gt) = decide (a ≤ b) := by
  rcases lt_trichotomy a b with h | h | h
  · have : a ≤ b := by omega
    simp [compare_lt_iff_lt.mpr h, this]
  · subst h; simp
  · have : ¬ a ≤ b := by omega
    simp [compare_gt_iff_gt.mpr h, this]

theorem ordNeLt_int (a b : Int) : (compare a b != Ordering.lt) = decide (b ≤ a) := by
  rcases lt_trichotomy a b with h | h | h
  · have : ¬ b ≤ a := by omega
    simp [compare_lt_iff_lt.mpr h, this]
  · subst h; simp
  · have : b ≤ a := by omega
    simp [compare_gt_iff_gt.mpr h, this]

@[simp] theorem lt_int_int (a b : Int) : PV.lt (PV.int a) (PV.int b) = PV.bool (decide (a < b)) := by
  simp [PV.lt, PV.rel, PV.toNum, PV.cmpNum, PV.ordSat, ordLt_int]

@[simp] theorem le_int_int (a b : Int) : PV.le (PV.int a) (PV.int b) = PV.bool (decide (a ≤ b)) := by
  simp [PV.le, PV.rel, PV.toNum, PV.cmpNum, PV.ordSat, ordNeGt_int]

@[simp] theorem eq_int_int (a b : Int) : PV.eq (PV.int a) (PV.int b) = PV.bool (decide (a = b)) := by
  simp [PV.eq, PV.rel, PV.toNum, PV.cmpNum, PV.ordSat, ordEq_int]

@[simp] theorem ne_int_int (a b : Int) : PV.ne (PV.int a) (PV.int b) = PV.bool (decide (a ≠ b)) := by
  simp [PV.ne, PV.not, PV.truthy]

@[simp] theorem eq_uns_int (w : W) (n : Nat) (b : Int) :
    PV.eq (PV.uns w n) (PV.int b) = PV.bool (decide ((n : Int) = b)) := by
  simp [PV.eq, PV.rel, PV.toNum, PV.cmpNum, PV.ordSat, ordEq_int]

@[simp] theorem eq_str_str (s t : String) : PV.eq (PV.str s) (PV.str t) = PV.bool (s == t) := rfl

@[simp] theorem or_bool_bool (a b : Bool) : PV.or (PV.bool a) (PV.bool b) = PV.bool (a || b) := by
  cases a <;> cases b <;> rfl

@[simp] theorem and_bool_bool (a b : Bool) : PV.and (PV.bool a) (PV.bool b) = PV.bool (a && b) := by
  cases a <;> cases b <;> rfl

@[simp] theorem not_bool (a : Bool) : PV.not (PV.bool a) = PV.bool (!a) := rfl

@[simp] theorem iteLS_bool (b : Bool) (st t e : List PV) : PV.iteLS (PV.bool b) st t e = if b then t else e := by
  cases b <;> rfl

@[simp] theorem guardL_int (i : Int) (st k : List PV) : PV.guardL (PV.int i) st k = k := rfl
@[simp] theorem guardL_bool (b : Bool) (st k : List PV) : PV.guardL (PV.bool b) st k = k := rfl
@[simp] theorem guardL_flt (x : Option Rat) (st k : List PV) : PV.guardL (PV.flt x) st k = k := rfl
@[simp] theorem guardL_arr (w : W) (xs : List Nat) (st k : List PV) : PV.guardL (PV.arr w xs) st k = k := rfl
@[simp] theorem guardL_obj (c : String) (x y z : PV) (st k : List PV) : PV.guardL (PV.obj c x y z) st k = k := rfl
@[simp] theorem guardL_none (st k : List PV) : PV.guardL PV.pynone st k = k := rfl
@[simp] theorem guardL_str (s : String) (st k : List PV) : PV.guardL (PV.str s) st k = k := rfl
@[simp] theorem guardL_err (e : String) (st k : List PV) : PV.guardL (PV.err e) st k = PV.err e :: st := rfl

/-- NaN-aware comparison of two floats -/
def fcmp (r : Rat → Rat → Bool) : Option Rat → Option Rat → Bool
  | some p, some q => r p q
  | _, _ => false

theorem lt_flt_flt (x y : Option Rat) :
    PV.lt (PV.flt x) (PV.flt y) = PV.bool (fcmp (fun p q => decide (p < q)) x y) := by
  cases x <;> cases y <;> simp [PV.lt, PV.rel, PV.toNum, PV.cmpNum, PV.ordSat, Num.toF, fcmp]
  rename_i p q
  by_cases h : p < q
  · simp [h]
  · by_cases h' : p = q <;> simp [h, h']

theorem ge_flt_flt (x y : Option Rat) :
    PV.ge (PV.flt x) (PV.flt y) = PV.bool (fcmp (fun p q => decide (q ≤ p)) x y) := by
  cases x <;> cases y <;> simp [PV.ge, PV.rel, PV.toNum, PV.cmpNum, PV.ordSat, Num.toF, fcmp]
  rename_i p q
  by_cases h : p < q
  · have : ¬ q ≤ p := not_le.mpr h
    simp [h, this]
  · have : q ≤ p := not_lt.mp h
    by_cases h' : p = q <;> simp [h, h', this]

theorem gt_flt_flt (x y : Option Rat) :
    PV.gt (PV.flt x) (PV.flt y) = PV.bool (fcmp (fun p q => decide (q < p)) x y) := by
  cases x <;> cases y <;> simp [PV.gt, PV.rel, PV.toNum, PV.cmpNum, PV.ordSat, Num.toF, fcmp]
  rename_i p q
  by_cases h : p < q
  · have : ¬ q < p := not_lt.mpr (le_of_lt h)
    simp [h, this]
  · by_cases h' : p = q
    · subst h'; simp
    · have : q < p := lt_of_le_of_ne (not_lt.mp h) (Ne.symm h')
      simp [h, h', this]

/-- float view of a scalar (int, bool, unsigned, float) -/
def toFlt (v : PV) : Option (Option Rat) := (PV.toNum v).map Num.toF

@[simp] theorem toFlt_int (i : Int) : toFlt (PV.int i) = some (some (rnd i)) := rfl
@[simp] theorem toFlt_flt (x : Option Rat) : toFlt (PV.flt x) = some x := rfl
@[simp] theorem toFlt_uns (w : W) (n : Nat) : toFlt (PV.uns w n) = some (some (rnd n)) := rfl

/-- lifted float operation (NaN propagates) -/
def fop (f : Rat → Rat → Rat) : Option Rat → Option Rat → Option Rat
  | some p, some q => some (f p q)
  | _, _ => none

theorem arith_flt_l (fi : Int → Int → Int) (ff : Rat → Rat → Rat) (x : Option Rat) (b : PV)
    (y : Option Rat) (hb : toFlt b = some y) (hb' : ∀ e, b ≠ PV.err e) :
    PV.arith fi ff (PV.flt x) b = PV.flt (fop ff x y) := by
  cases b <;> simp_all [toFlt, PV.toNum, PV.arith, Num.toF] <;> subst hb <;>
    cases x <;> simp [fop] <;> (rename_i z _; cases z <;> simp)

theorem arith_flt_r (fi : Int → Int → Int) (ff : Rat → Rat → Rat) (a : PV) (y : Option Rat)
    (x : Option Rat) (ha : toFlt a = some x) (ha' : ∀ e, a ≠ PV.err e) :
    PV.arith fi ff a (PV.flt y) = PV.flt (fop ff x y) := by
  cases a <;> simp_all [toFlt, PV.toNum, PV.arith, Num.toF] <;> subst ha <;>
    cases y <;> simp [fop] <;> (rename_i z _; cases z <;> simp)

@[simp] theorem mul_flt_int (x : Option Rat) (i : Int) :
    PV.mul (PV.flt x) (PV.int i) = PV.flt (fop fmul x (some (rnd i))) :=
  arith_flt_l _ _ x _ _ rfl (by intro e h; cases h)

@[simp] theorem mul_flt_flt (x y : Option Rat) :
    PV.mul (PV.flt x) (PV.flt y) = PV.flt (fop fmul x y) :=
  arith_flt_l _ _ x _ _ rfl (by intro e h; cases h)

@[simp] theorem sub_flt_flt (x y : Option Rat) :
    PV.sub (PV.flt x) (PV.flt y) = PV.flt (fop fsub x y) :=
  arith_flt_l _ _ x _ _ rfl (by intro e h; cases h)

@[simp] theorem add_flt_uns (x : Option Rat) (w : W) (n : Nat) :
    PV.add (PV.flt x) (PV.uns w n) = PV.flt (fop fadd x (some (rnd n))) :=
  arith_flt_l _ _ x _ _ rfl (by intro e h; cases h)

@[simp] theorem sub_flt_uns (x : Option Rat) (w : W) (n : Nat) :
    PV.sub (PV.flt x) (PV.uns w n) = PV.flt (fop fsub x (some (rnd n))) :=
  arith_flt_l _ _ x _ _ rfl (by intro e h; cases h)

@[simp] theorem sub_int_flt (i : Int) (y : Option Rat) :
    PV.sub (PV.int i) (PV.flt y) = PV.flt (fop fsub (some (rnd i)) y) :=
  arith_flt_r _ _ _ y _ rfl (by intro e h; cases h)

@[simp] theorem mul_int_flt (i : Int) (y : Option Rat) :
    PV.mul (PV.int i) (PV.flt y) = PV.flt (fop fmul (some (rnd i)) y) :=
  arith_flt_r _ _ _ y _ rfl (by intro e h; cases h)

@[simp] theorem add_int_int (a b : Int) : PV.add (PV.int a) (PV.int b) = PV.int (a + b) := rfl
@[simp] theorem sub_int_int (a b : Int) : PV.sub (PV.int a) (PV.int b) = PV.int (a - b) := rfl
@[simp] theorem mul_int_int (a b : Int) : PV.mul (PV.int a) (PV.int b) = PV.int (a * b) := rfl

@[simp] theorem sub_uns_uns (w v : W) (a b : Nat) :
    PV.sub (PV.uns w a) (PV.uns v b) = PV.uns (wmax w v) (wrapInt (wmax w v) ((a : Int) - b)) := rfl

theorem mul_int_uns (i : Int) (w : W) (n : Nat) (h0 : 0 ≤ i) (h1 : i < (2 ^ w.bits : Nat)) :
    PV.mul (PV.int i) (PV.uns w n) = PV.uns w (wrapInt w (i * n)) := by
  have h1' : i < 2 ^ w.bits := by exact_mod_cast h1
  simp [PV.mul, PV.arith, PV.toNum, h0, h1']

theorem truediv_uns_int (w : W) (n : Nat) (i : Int) (hi : rnd i ≠ 0) :
    PV.truediv (PV.uns w n) (PV.int i) = PV.flt (some (fdiv (rnd n) (rnd i))) := by
  simp [PV.truediv, PV.toNum, Num.toF, hi]

theorem truediv_flt_flt (p q : Rat) (hq : q ≠ 0) :
    PV.truediv (PV.flt (some p)) (PV.flt (some q)) = PV.flt (some (fdiv p q)) := by
  simp [PV.truediv, PV.toNum, Num.toF, hq]

theorem truediv_flt_int (p : Rat) (i : Int) (hi : rnd i ≠ 0) :
    PV.truediv (PV.flt (some p)) (PV.int i) = PV.flt (some (fdiv p (rnd i))) := by
  simp [PV.truediv, PV.toNum, Num.toF, hi]

@[simp] theorem truediv_nan_int (i : Int) :
    PV.truediv (PV.flt none) (PV.int i) = PV.flt none := by
  simp [PV.truediv, PV.toNum, Num.toF]

end PV
end BB
