/-
The repaired (`Proto.rename`) monitor protocol: invariant over the steps of an arbitrary
schedule.

Ghost quantities: `b` — the value currently published under the name `max-rss.txt`
(0 while the name is absent); `lo` — the largest value returned by a completed reader.
Invariant `Inv P lo b s`:
* `Fin`      the name `final` is absent (`b = 0`) or points at an inode holding `full b`;
* `ReaderOK` a reader that saw the file exist will find the name; an inode it has opened, or
             a content it has read, is `full v` with `lo ≤ v ≤ b`; it is not in a terminal
             state;
* `Phase`    where the writer stands inside an update: the remaining effects are those of a
             strictly increasing chain of values above `b`, and the inode named `tmp`
             holds `empty` / `part` / `full v` as the position requires (so it is distinct
             from every inode that holds `full` content and is named `final` or held by a
             reader — no separate "not held" clause is needed);
* the completed readers returned `none` or values `≤ lo` satisfying `P`; once one has
  returned a value the name `final` is present (`sticky`) and every later result is a
  value at least as large (`MonoOut`).
`P` is an arbitrary predicate satisfied by the written values (instantiated with
"is a strict running maximum of the samples").
-/
import BBModel.Monitor

set_option autoImplicit false

namespace BB.Mon

/-! ### running maxima -/

theorem maxima_subset : ∀ (m : Nat) (ss : List Nat), ∀ v ∈ maxima m ss, v ∈ ss
  | _, [], v, h => by simp [maxima] at h
  | m, s :: ss, v, h => by
    simp only [maxima] at h
    split at h
    · rcases List.mem_cons.1 h with h | h
      · simp [h]
      · exact List.mem_cons_of_mem _ (maxima_subset s ss v h)
    · exact List.mem_cons_of_mem _ (maxima_subset m ss v h)

/-- every running maximum is above the initial maximum -/
theorem maxima_gt : ∀ (m : Nat) (ss : List Nat), ∀ v ∈ maxima m ss, m < v
  | _, [], v, h => by simp [maxima] at h
  | m, s :: ss, v, h => by
    simp only [maxima] at h
    split at h
    · rcases List.mem_cons.1 h with h | h
      · omega
      · have := maxima_gt s ss v h; omega
    · exact maxima_gt m ss v h

/-- a strictly increasing chain above `b`, all of whose members satisfy `P` -/
def Chain (P : Nat → Prop) : Nat → List Nat → Prop
  | _, [] => True
  | b, v :: vs => b < v ∧ P v ∧ Chain P v vs

theorem chain_maxima (P : Nat → Prop) : ∀ (m : Nat) (ss : List Nat),
    (∀ v ∈ maxima m ss, P v) → Chain P m (maxima m ss)
  | _, [], _ => by simp [maxima, Chain]
  | m, s :: ss, h => by
    simp only [maxima] at h ⊢
    split
    · rename_i hlt
      rw [if_pos hlt] at h
      exact ⟨hlt, h s (by simp), chain_maxima P s ss (fun v hv => h v (List.mem_cons_of_mem _ hv))⟩
    · rename_i hlt
      rw [if_neg hlt] at h
      exact chain_maxima P m ss h

/-- the written values are strictly increasing ("the sequence of written values") -/
theorem maxima_pairwise : ∀ (m : Nat) (ss : List Nat), (maxima m ss).Pairwise (· < ·)
  | _, [] => by simp [maxima]
  | m, s :: ss => by
    simp only [maxima]
    split
    · exact List.pairwise_cons.2 ⟨fun v hv => maxima_gt s ss v hv, maxima_pairwise s ss⟩
    · exact maxima_pairwise m ss

/-! ### list-update facts -/

theorem getElem?_append_of_some {α} {l l' : List α} {i : Nat} {x : α} (h : l[i]? = some x) :
    (l ++ l')[i]? = some x := by
  have hi : i < l.length := (List.getElem?_eq_some_iff.1 h).1
  rw [List.getElem?_append_left hi, h]

theorem getElem?_set_of_ne {α} {l : List α} {i j : Nat} {a x c : α}
    (hj : l[j]? = some a) (hi : l[i]? = some x) (hne : a ≠ x) : (l.set j c)[i]? = some x := by
  have : j ≠ i := by
    intro e; subst e; rw [hj] at hi; exact hne (Option.some.inj hi)
  rw [List.getElem?_set_ne this, hi]

theorem getElem?_set_self_of_some {α} {l : List α} {j : Nat} {a c : α}
    (hj : l[j]? = some a) : (l.set j c)[j]? = some c := by
  have hi : j < l.length := (List.getElem?_eq_some_iff.1 hj).1
  simp [List.getElem?_set_self hi]

/-! ### the invariant -/

/-- the name `max-rss.txt` is absent, or points at a completely written inode of value `b` -/
def Fin (P : Nat → Prop) (b : Nat) (fs : FS) : Prop :=
  (fs.final = none ∧ b = 0) ∨ (∃ i, fs.final = some i ∧ fs.inodes[i]? = some (Content.full b) ∧ P b)

def ReaderOK (P : Nat → Prop) (lo b : Nat) (fs : FS) : RState → Prop
  | .start => True
  | .sawExists => fs.final ≠ none
  | .opened i => fs.final ≠ none ∧ ∃ v, fs.inodes[i]? = some (Content.full v) ∧ P v ∧ lo ≤ v ∧ v ≤ b
  | .read c => fs.final ≠ none ∧ ∃ v, c = .full v ∧ P v ∧ lo ≤ v ∧ v ≤ b
  | _ => False

abbrev upd (vs : List Nat) : List WOp := vs.flatMap (updateOps .rename)

/-- position of the writer inside an update, with what the tmp inode holds there -/
inductive Phase (P : Nat → Prop) (b : Nat) (fs : FS) (h : Handle) : List WOp → Prop
  | idle (vs : List Nat) : fs.tmp = none → Chain P b vs → Phase P b fs h (upd vs)
  | opened (j v : Nat) (vs : List Nat) : fs.tmp = some j → h = some j →
      fs.inodes[j]? = some .empty → Chain P b (v :: vs) →
      Phase P b fs h (.writePartial :: .writeFull v :: .renameTmp :: upd vs)
  | part (j v : Nat) (vs : List Nat) : fs.tmp = some j → h = some j →
      fs.inodes[j]? = some .part → Chain P b (v :: vs) →
      Phase P b fs h (.writeFull v :: .renameTmp :: upd vs)
  | full (j v : Nat) (vs : List Nat) : fs.tmp = some j →
      fs.inodes[j]? = some (Content.full v) → Chain P b (v :: vs) →
      Phase P b fs h (.renameTmp :: upd vs)

/-- once a reader has returned a value, every later reader returns a value at least as
large (in particular never `none` again) -/
def MonoOut (out : List RState) : Prop :=
  out.Pairwise (fun a c => ∀ va, a = .done (some va) → ∃ vc, c = .done (some vc) ∧ va ≤ vc)

structure Inv (P : Nat → Prop) (lo b : Nat) (s : St) : Prop where
  lo_le : lo ≤ b
  fin : Fin P b s.fs
  rd : ReaderOK P lo b s.fs s.r
  wr : Phase P b s.fs s.h s.ops
  out_le : ∀ v, RState.done (some v) ∈ s.out → v ≤ lo
  out_ok : ∀ r ∈ s.out, r = .done none ∨ ∃ v, r = .done (some v) ∧ P v
  mono : MonoOut s.out
  sticky : ∀ v, RState.done (some v) ∈ s.out → s.fs.final ≠ none

/-! ### writer step -/

/-- what one writer effect preserves: completely written inodes stay as they are, the name
`final` stays present, the published value does not decrease -/
structure WPres (P : Nat → Prop) (b : Nat) (fs : FS) (b' : Nat) (fs' : FS) (h' : Handle)
    (os : List WOp) : Prop where
  le : b ≤ b'
  fin : Fin P b' fs'
  wr : Phase P b' fs' h' os
  keep : ∀ (i v : Nat), fs.inodes[i]? = some (Content.full v) → fs'.inodes[i]? = some (Content.full v)
  name : fs.final ≠ none → fs'.final ≠ none

theorem fin_keep {P : Nat → Prop} {b : Nat} {fs fs' : FS} (hf : Fin P b fs)
    (hfinal : fs'.final = fs.final)
    (keep : ∀ (i v : Nat), fs.inodes[i]? = some (Content.full v) → fs'.inodes[i]? = some (Content.full v)) :
    Fin P b fs' := by
  rcases hf with ⟨h0, hb⟩ | ⟨i, hi, hc, hp⟩
  · exact Or.inl ⟨hfinal ▸ h0, hb⟩
  · exact Or.inr ⟨i, hfinal ▸ hi, keep i b hc, hp⟩

theorem wstep_pres {P : Nat → Prop} {b : Nat} {fs : FS} {h : Handle} {o : WOp} {os : List WOp}
    (hf : Fin P b fs) (hw : Phase P b fs h (o :: os)) :
    ∃ b', WPres P b fs b' (wstep (fs, h) o).1 (wstep (fs, h) o).2 os := by
  generalize hops : o :: os = ops at hw
  cases hw with
  | idle vs htmp hch =>
    cases vs with
    | nil => simp [upd] at hops
    | cons v vs =>
      simp only [upd, List.flatMap_cons, updateOps, List.cons_append, List.nil_append,
        List.cons.injEq] at hops
      obtain ⟨rfl, rfl⟩ := hops
      refine ⟨b, ?_⟩
      have keep : ∀ (i w : Nat), fs.inodes[i]? = some (Content.full w) →
          (fs.inodes ++ [Content.empty])[i]? = some (Content.full w) :=
        fun i w hi => getElem?_append_of_some hi
      simp only [wstep, htmp]
      exact {
        le := Nat.le_refl _
        fin := fin_keep hf rfl keep
        wr := Phase.opened fs.inodes.length v vs rfl rfl (by simp) hch
        keep := keep
        name := id }
  | opened j v vs htmp hh hc hch =>
    simp only [List.cons.injEq] at hops
    obtain ⟨rfl, rfl⟩ := hops
    refine ⟨b, ?_⟩
    have keep : ∀ (i w : Nat), fs.inodes[i]? = some (Content.full w) →
        (fs.inodes.set j Content.part)[i]? = some (Content.full w) :=
      fun i w hi => getElem?_set_of_ne hc hi (by simp)
    subst hh
    simp only [wstep]
    exact {
      le := Nat.le_refl _
      fin := fin_keep hf rfl keep
      wr := Phase.part j v vs htmp rfl (getElem?_set_self_of_some hc) hch
      keep := keep
      name := id }
  | part j v vs htmp hh hc hch =>
    simp only [List.cons.injEq] at hops
    obtain ⟨rfl, rfl⟩ := hops
    refine ⟨b, ?_⟩
    have keep : ∀ (i w : Nat), fs.inodes[i]? = some (Content.full w) →
        (fs.inodes.set j (Content.full v))[i]? = some (Content.full w) :=
      fun i w hi => getElem?_set_of_ne hc hi (by simp)
    subst hh
    simp only [wstep]
    exact {
      le := Nat.le_refl _
      fin := fin_keep hf rfl keep
      wr := Phase.full j v vs htmp (getElem?_set_self_of_some hc) hch
      keep := keep
      name := id }
  | full j v vs htmp hc hch =>
    simp only [List.cons.injEq] at hops
    obtain ⟨rfl, rfl⟩ := hops
    refine ⟨v, ?_⟩
    simp only [wstep, htmp]
    exact {
      le := Nat.le_of_lt hch.1
      fin := Or.inr ⟨j, rfl, hc, hch.2.1⟩
      wr := Phase.idle vs rfl hch.2.2
      keep := fun _ _ hi => hi
      name := fun _ => by simp }

theorem readerOK_pres {P : Nat → Prop} {lo b b' : Nat} {fs fs' : FS} {r : RState}
    (hle : b ≤ b')
    (keep : ∀ (i v : Nat), fs.inodes[i]? = some (Content.full v) → fs'.inodes[i]? = some (Content.full v))
    (name : fs.final ≠ none → fs'.final ≠ none)
    (hr : ReaderOK P lo b fs r) : ReaderOK P lo b' fs' r := by
  cases r with
  | start => trivial
  | sawExists => exact name hr
  | opened i =>
    obtain ⟨hn, v, hv, hp, h1, h2⟩ := hr
    exact ⟨name hn, v, keep i v hv, hp, h1, Nat.le_trans h2 hle⟩
  | read c =>
    obtain ⟨hn, v, hv, hp, h1, h2⟩ := hr
    exact ⟨name hn, v, hv, hp, h1, Nat.le_trans h2 hle⟩
  | done _ => exact hr.elim
  | error => exact hr.elim
  | wrong => exact hr.elim

theorem inv_wstep {P : Nat → Prop} {lo b : Nat} {s : St} (hi : Inv P lo b s) :
    ∃ b', b ≤ b' ∧ Inv P lo b' s.wstep := by
  obtain ⟨fs, h, ops, r, out⟩ := s
  cases ops with
  | nil => exact ⟨b, Nat.le_refl _, hi⟩
  | cons o os =>
    obtain ⟨b', hp⟩ := wstep_pres hi.fin hi.wr
    exact ⟨b', hp.le, {
      lo_le := Nat.le_trans hi.lo_le hp.le
      fin := hp.fin
      rd := readerOK_pres hp.le hp.keep hp.name hi.rd
      wr := hp.wr
      out_le := hi.out_le
      out_ok := hi.out_ok
      mono := hi.mono
      sticky := fun v hv => hp.name (hi.sticky v hv) }⟩

/-! ### reader step -/

/-- a reader step from a good reader state: the next state is good, or the reader
completes with `none` (the name is absent), or with a value `v`, `lo ≤ v ≤ b`, that was
written -/
theorem rstep_ok {P : Nat → Prop} {lo b : Nat} {fs : FS} {r : RState}
    (hlo : lo ≤ b) (hf : Fin P b fs) (hr : ReaderOK P lo b fs r) :
    ((rstep fs r).isTerminal = false ∧ ReaderOK P lo b fs (rstep fs r)) ∨
    (rstep fs r = .done none ∧ fs.final = none) ∨
    ∃ v, rstep fs r = .done (some v) ∧ P v ∧ lo ≤ v ∧ v ≤ b ∧ fs.final ≠ none := by
  cases r with
  | start =>
    cases hfin : fs.final with
    | none => right; left; simp [rstep, hfin]
    | some i => left; simp [rstep, hfin, RState.isTerminal, ReaderOK]
  | sawExists =>
    rcases hf with ⟨h0, _⟩ | ⟨i, hi, hc, hp⟩
    · exact (hr h0).elim
    · left
      simp only [rstep, hi, RState.isTerminal, ReaderOK, true_and]
      exact ⟨by simp, b, hc, hp, hlo, Nat.le_refl _⟩
  | opened i =>
    obtain ⟨hn, v, hv, hp, h1, h2⟩ := hr
    left
    simp only [rstep, hv, Option.getD_some, RState.isTerminal, ReaderOK, true_and]
    exact ⟨hn, v, rfl, hp, h1, h2⟩
  | read c =>
    obtain ⟨hn, v, rfl, hp, h1, h2⟩ := hr
    right; right
    exact ⟨v, rfl, hp, h1, h2, hn⟩
  | done _ => exact hr.elim
  | error => exact hr.elim
  | wrong => exact hr.elim

theorem inv_rstep {P : Nat → Prop} {lo b : Nat} {s : St} (hi : Inv P lo b s) :
    ∃ lo', lo ≤ lo' ∧ Inv P lo' b s.rstep := by
  obtain ⟨fs, h, ops, r, out⟩ := s
  rcases rstep_ok hi.lo_le hi.fin hi.rd with ⟨ht, hr⟩ | ⟨hr, hnone⟩ | ⟨v, hr, hp, h1, h2, hn⟩
  · refine ⟨lo, Nat.le_refl _, ?_⟩
    simp only at ht hr
    simp only [St.rstep, ht, Bool.false_eq_true, if_false]
    exact { hi with rd := hr }
  · refine ⟨lo, Nat.le_refl _, ?_⟩
    simp only at hr hnone
    have hno : ∀ v, RState.done (some v) ∉ out := fun v hv => hi.sticky v hv hnone
    simp only [St.rstep, hr, RState.isTerminal, if_true]
    exact {
      lo_le := hi.lo_le
      fin := hi.fin
      rd := trivial
      wr := hi.wr
      out_le := fun v hv => by
        rcases List.mem_append.1 hv with hv | hv
        · exact hi.out_le v hv
        · simp at hv
      out_ok := fun r hr => by
        rcases List.mem_append.1 hr with hr | hr
        · exact hi.out_ok r hr
        · left; simpa using hr
      mono := by
        refine List.pairwise_append.2 ⟨hi.mono, List.pairwise_singleton _ _, ?_⟩
        intro a ha c _ va hva
        exact (hno va (hva ▸ ha)).elim
      sticky := fun v hv => by
        rcases List.mem_append.1 hv with hv | hv
        · exact hi.sticky v hv
        · simp at hv }
  · refine ⟨v, h1, ?_⟩
    simp only at hr hn
    simp only [St.rstep, hr, RState.isTerminal, if_true]
    exact {
      lo_le := h2
      fin := hi.fin
      rd := trivial
      wr := hi.wr
      out_le := fun w hw => by
        rcases List.mem_append.1 hw with hw | hw
        · exact Nat.le_trans (hi.out_le w hw) h1
        · simp at hw; omega
      out_ok := fun r hr => by
        rcases List.mem_append.1 hr with hr | hr
        · exact hi.out_ok r hr
        · right; exact ⟨v, by simpa using hr, hp⟩
      mono := by
        refine List.pairwise_append.2 ⟨hi.mono, List.pairwise_singleton _ _, ?_⟩
        intro a ha c hc va hva
        refine ⟨v, by simpa using hc, ?_⟩
        exact Nat.le_trans (hi.out_le va (hva ▸ ha)) h1
      sticky := fun _ _ => hn }

/-! ### schedules -/

theorem inv_step {P : Nat → Prop} {lo b : Nat} {s : St} (hi : Inv P lo b s) (c : Bool) :
    ∃ lo' b', lo ≤ lo' ∧ b ≤ b' ∧ Inv P lo' b' (s.step c) := by
  cases c with
  | true =>
    obtain ⟨b', hb, h⟩ := inv_wstep hi
    exact ⟨lo, b', Nat.le_refl _, hb, h⟩
  | false =>
    obtain ⟨lo', hl, h⟩ := inv_rstep hi
    exact ⟨lo', b, hl, Nat.le_refl _, h⟩

theorem inv_exec {P : Nat → Prop} : ∀ (sched : List Bool) {lo b : Nat} {s : St},
    Inv P lo b s → ∃ lo' b', lo ≤ lo' ∧ b ≤ b' ∧ Inv P lo' b' (s.exec sched)
  | [], lo, b, _, hi => ⟨lo, b, Nat.le_refl _, Nat.le_refl _, hi⟩
  | c :: cs, _, _, _, hi => by
    obtain ⟨lo1, b1, hl1, hb1, h1⟩ := inv_step hi c
    obtain ⟨lo2, b2, hl2, hb2, h2⟩ := inv_exec cs h1
    exact ⟨lo2, b2, Nat.le_trans hl1 hl2, Nat.le_trans hb1 hb2, h2⟩

theorem exec_append (s : St) (a c : List Bool) : s.exec (a ++ c) = (s.exec a).exec c := by
  simp [St.exec, List.foldl_append]

/-- "is a strict running maximum of the samples" -/
abbrev IsMax (samples : List Nat) (v : Nat) : Prop := v ∈ maxima 0 samples

theorem inv_init (samples : List Nat) :
    Inv (IsMax samples) 0 0 (St.init .rename samples) where
  lo_le := Nat.le_refl _
  fin := Or.inl ⟨rfl, rfl⟩
  rd := trivial
  wr := Phase.idle (maxima 0 samples) rfl (chain_maxima _ 0 samples (fun _ h => h))
  out_le := fun _ h => by simp [St.init] at h
  out_ok := fun _ h => by simp [St.init] at h
  mono := List.Pairwise.nil
  sticky := fun _ h => by simp [St.init] at h

/-- the invariant holds after every schedule -/
theorem inv_run (samples : List Nat) (sched : List Bool) :
    ∃ lo b, Inv (IsMax samples) lo b ((St.init .rename samples).exec sched) := by
  obtain ⟨lo, b, _, _, h⟩ := inv_exec sched (inv_init samples)
  exact ⟨lo, b, h⟩

theorem fin_finalValue {P : Nat → Prop} {b : Nat} {fs : FS} (hf : Fin P b fs) :
    (finalValue fs = none ∧ b = 0) ∨ (finalValue fs = some (.full b) ∧ P b) := by
  rcases hf with ⟨h0, hb⟩ | ⟨i, hi, hc, hp⟩
  · left; simp [finalValue, h0, hb]
  · right; simp [finalValue, hi, hc, hp]

/-- results of the completed readers under the repaired protocol -/
theorem run_rename_ok (samples : List Nat) (sched : List Bool) :
    ∀ r ∈ run .rename samples sched,
      r = .done none ∨ ∃ v, r = .done (some v) ∧ v ∈ maxima 0 samples := by
  obtain ⟨lo, b, h⟩ := inv_run samples sched
  exact h.out_ok

theorem run_rename_mono (samples : List Nat) (sched : List Bool) :
    MonoOut (run .rename samples sched) := by
  obtain ⟨lo, b, h⟩ := inv_run samples sched
  exact h.mono

/-- the published content at a prefix and at a longer prefix of a schedule -/
theorem runFS_rename_prefix (samples : List Nat) (sched : List Bool) (n m : Nat) (hnm : n ≤ m) :
    ∃ bn bm, bn ≤ bm ∧
      Fin (IsMax samples) bn (runFS .rename samples (sched.take n)) ∧
      Fin (IsMax samples) bm (runFS .rename samples (sched.take m)) := by
  have hsplit : sched.take m = sched.take n ++ (sched.take m).drop n := by
    have : sched.take n = (sched.take m).take n := by
      rw [List.take_take, Nat.min_eq_left hnm]
    rw [this, List.take_append_drop]
  obtain ⟨lo, bn, hn⟩ := inv_run samples (sched.take n)
  obtain ⟨lo', bm, _, hb, hm⟩ := inv_exec ((sched.take m).drop n) hn
  refine ⟨bn, bm, hb, hn.fin, ?_⟩
  rw [runFS, hsplit, exec_append]
  exact hm.fin

end BB.Mon
