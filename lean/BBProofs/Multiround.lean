/-
Helper theory for the multi-round workflow (`BBModel/Multiround.lean`), in seven parts:

1. the directory model: reads after writes, writes to different names commute,
   well-formedness (names strictly increasing), `glob`, one round of tasks;
2. scheduling: the names a task writes, distinct labels → disjoint write sets, a round and the
   whole workflow are insensitive to the execution order of the tasks;
3. leftovers: after the initial purge a run reads nothing but the round files it wrote itself;
4. the tasks: what one task does to the labels and to any per-cluster predicate closed under
   merging (success is a hypothesis, never a conclusion);
5. the rounds: the directory after round `r` holds exactly the pairs written by round `r`,
   `prevPairs` pairs every buffer file with its own index file, reading them back gives the
   saved sub-clusters;
6. end to end: the final sub-clusters carry the labels `0 .. N-1` (and the predicate);
7. the trace of directory states and the position of the cluster file in it.
-/
import BBProofs.Names
import BBProofs.Ops
import BBProofs.Exact
import Mathlib.Data.List.Perm.Basic
import Mathlib.Data.List.Nodup

set_option linter.unusedSimpArgs false
set_option linter.unusedVariables false
set_option linter.unusedSectionVars false

/-! ## The directory model of the multi-round workflow: reads after writes, writes to different

names commute, well-formedness (names strictly increasing) and what `glob` returns.
-/

namespace BB.MR
open BB

/-! ### order on names -/

theorem name_trichotomy (a b : String) : a < b ∨ a = b ∨ b < a := by
  rcases chars_lt_trichotomy a.toList b.toList with h | h | h
  · exact Or.inl h
  · exact Or.inr (Or.inl (String.toList_inj.mp h))
  · exact Or.inr (Or.inr h)

theorem name_lt_ne {a b : String} (h : a < b) : a ≠ b := by
  rintro rfl; exact String.lt_irrefl _ h

/-! ### read / write / remove -/

def FS.names (fs : FS) : List String := fs.map (·.1)

/-- names strictly increasing: the representation invariant of a directory -/
def FS.Sorted (fs : FS) : Prop := fs.Pairwise (fun a b => a.1 < b.1)

/-- the part of the representation invariant the workflow relies on: every round file comes after
smaller names only (so round files are listed once, in increasing order).  It holds for every
association list without round files — in particular after the initial purge, whatever the
directory was — and is preserved by every write and removal. -/
def FS.WF (fs : FS) : Prop := fs.Pairwise (fun a b => isRoundFile b.1 = true → a.1 < b.1)

theorem FS.Sorted.wf {fs : FS} (h : fs.Sorted) : fs.WF := by
  unfold FS.Sorted at h
  unfold FS.WF
  exact List.Pairwise.imp (S := fun (a b : String × Content) => isRoundFile b.1 = true → a.1 < b.1)
    (fun hab _ => hab) h

@[simp] theorem read_nil (n : String) : FS.read [] n = none := rfl

theorem read_cons (m : String) (d : Content) (fs : FS) (n : String) :
    FS.read ((m, d) :: fs) n = if m = n then some d else FS.read fs n := by
  unfold FS.read
  rw [List.find?_cons]
  by_cases h : m = n
  · simp [h]
  · have : (m == n) = false := by simpa using h
    simp [h, this]

theorem read_write (fs : FS) (n : String) (c : Content) (m : String) :
    (fs.write n c).read m = if m = n then some c else fs.read m := by
  induction fs with
  | nil =>
    simp only [FS.write, read_cons, read_nil]
    by_cases h : m = n
    · simp [h]
    · simp [h, Ne.symm h]
  | cons x fs ih =>
    obtain ⟨k, e⟩ := x
    unfold FS.write
    split
    · rw [read_cons]
      by_cases h : m = n
      · simp [h]
      · simp [h, Ne.symm h]
    · split
      · rename_i _ hk
        subst hk
        rw [read_cons, read_cons]
        by_cases h : m = n
        · simp [h]
        · simp [h, Ne.symm h]
      · rename_i _ hk
        rw [read_cons, read_cons, ih]
        by_cases h : m = n
        · subst h
          simp [Ne.symm hk]
        · simp [h]

theorem read_remove (fs : FS) (p : String → Bool) (n : String) :
    (fs.remove p).read n = if p n then none else fs.read n := by
  induction fs with
  | nil => simp [FS.remove]
  | cons x fs ih =>
    obtain ⟨k, e⟩ := x
    unfold FS.remove at ih ⊢
    rw [List.filter_cons]
    by_cases hk : p k = true
    · simp only [hk, Bool.not_true, Bool.false_eq_true, ↓reduceIte, ih, read_cons]
      by_cases h : k = n
      · subst h; simp [hk]
      · simp [h]
    · have hk' : p k = false := by simpa using hk
      simp only [hk', Bool.not_false, ↓reduceIte, read_cons, ih]
      by_cases h : k = n
      · subst h; simp [hk']
      · simp [h]

theorem mem_names_iff (fs : FS) (n : String) : n ∈ fs.names ↔ fs.read n ≠ none := by
  induction fs with
  | nil => simp [FS.names]
  | cons x fs ih =>
    obtain ⟨k, e⟩ := x
    rw [read_cons]
    simp only [FS.names, List.map_cons, List.mem_cons] at ih ⊢
    by_cases h : k = n
    · simp [h]
    · simp [h, Ne.symm h, ih]

/-- writes to different names commute (on every association list) -/
theorem write_comm (fs : FS) (n m : String) (c d : Content) (h : n ≠ m) :
    (fs.write n c).write m d = (fs.write m d).write n c := by
  induction fs with
  | nil =>
    rcases name_trichotomy n m with h1 | h1 | h1
    · have h2 : ¬ m < n := String.lt_asymm h1
      simp [FS.write, h1, h2, h, Ne.symm h]
    · exact absurd h1 h
    · have h2 : ¬ n < m := String.lt_asymm h1
      simp [FS.write, h1, h2, h, Ne.symm h]
  | cons x fs ih =>
    obtain ⟨k, e⟩ := x
    have hmn : m ≠ n := Ne.symm h
    rcases name_trichotomy n k with hn | hn | hn
    · -- n < k
      have hnk : ¬ k < n := String.lt_asymm hn
      rcases name_trichotomy m k with hm | hm | hm
      · rcases name_trichotomy n m with h1 | h1 | h1
        · have h2 : ¬ m < n := String.lt_asymm h1
          simp [FS.write, hn, hm, h1, h2, h, hmn]
        · exact absurd h1 h
        · have h2 : ¬ n < m := String.lt_asymm h1
          simp [FS.write, hn, hm, h1, h2, h, hmn]
      · subst hm
        have h2 : ¬ m < n := hnk
        simp [FS.write, hn, h2, h, hmn, String.lt_irrefl]
      · have hmk : ¬ m < k := String.lt_asymm hm
        have hkm : m ≠ k := (name_lt_ne hm).symm
        have h1 : n < m := String.lt_trans hn hm
        have h2 : ¬ m < n := String.lt_asymm h1
        simp [FS.write, hn, hmk, hkm, h1, h2, h, hmn]
    · subst hn
      rcases name_trichotomy m n with hm | hm | hm
      · have h2 : ¬ n < m := String.lt_asymm hm
        simp [FS.write, hm, h2, h, hmn, String.lt_irrefl]
      · exact absurd hm hmn
      · have h2 : ¬ m < n := String.lt_asymm hm
        simp [FS.write, h2, h, hmn, String.lt_irrefl]
    · -- k < n
      have hnk : ¬ n < k := String.lt_asymm hn
      have hnk' : n ≠ k := (name_lt_ne hn).symm
      rcases name_trichotomy m k with hm | hm | hm
      · have h1 : m < n := String.lt_trans hm hn
        have h2 : ¬ n < m := String.lt_asymm h1
        simp [FS.write, hnk, hnk', hm, h1, h2, h, hmn]
      · subst hm
        simp [FS.write, hnk, hnk', h, hmn, String.lt_irrefl]
      · have hmk : ¬ m < k := String.lt_asymm hm
        have hmk' : m ≠ k := (name_lt_ne hm).symm
        simp [FS.write, hnk, hnk', hmk, hmk', ih]

theorem mem_write (fs : FS) (n : String) (c : Content) (x : String × Content) (hx : x ∈ fs.write n c) :
    x ∈ fs ∨ x = (n, c) := by
  induction fs with
  | nil => simp [FS.write] at hx; exact Or.inr hx
  | cons y fs ih =>
    obtain ⟨k, e⟩ := y
    unfold FS.write at hx
    split at hx
    · rcases List.mem_cons.mp hx with h | h
      · exact Or.inr h
      · exact Or.inl h
    · split at hx
      · rcases List.mem_cons.mp hx with h | h
        · exact Or.inr h
        · exact Or.inl (List.mem_cons_of_mem _ h)
      · rcases List.mem_cons.mp hx with h | h
        · exact Or.inl (h ▸ List.mem_cons_self)
        · rcases ih h with h | h
          · exact Or.inl (List.mem_cons_of_mem _ h)
          · exact Or.inr h

theorem WF_write (fs : FS) (h : fs.WF) (n : String) (c : Content) : (fs.write n c).WF := by
  induction fs with
  | nil => simp [FS.write, FS.WF]
  | cons y fs ih =>
    obtain ⟨k, e⟩ := y
    unfold FS.WF at h ih ⊢
    rw [List.pairwise_cons] at h
    unfold FS.write
    split
    · rename_i hn
      rw [List.pairwise_cons]
      refine ⟨?_, List.pairwise_cons.mpr h⟩
      intro x hx hr
      rcases List.mem_cons.mp hx with rfl | hx
      · exact hn
      · exact String.lt_trans hn (h.1 x hx hr)
    · split
      · rename_i _ hk
        subst hk
        rw [List.pairwise_cons]
        exact ⟨h.1, h.2⟩
      · rename_i hn hk
        rw [List.pairwise_cons]
        refine ⟨?_, ih h.2⟩
        intro x hx hr
        rcases mem_write fs n c x hx with hx | rfl
        · exact h.1 x hx hr
        · rcases name_trichotomy n k with h1 | h1 | h1
          · exact absurd h1 hn
          · exact absurd h1 hk
          · exact h1

theorem WF_remove (fs : FS) (h : fs.WF) (p : String → Bool) : (fs.remove p).WF :=
  List.Pairwise.filter _ h

/-- after the purge: no round file, nothing to check -/
theorem WF_purge (fs0 : FS) : (purge fs0).WF := by
  apply List.pairwise_of_forall_mem_list
  intro a _ b hb hr
  have := (List.mem_filter.mp hb).2
  simp [hr] at this

/-! ### several writes -/

theorem writeAll_nil (fs : FS) : writeAll fs [] = fs := rfl

theorem writeAll_cons (fs : FS) (w : String × Content) (ws : Writes) :
    writeAll fs (w :: ws) = writeAll (fs.write w.1 w.2) ws := rfl

theorem writeAll_append (fs : FS) (a b : Writes) : writeAll fs (a ++ b) = writeAll (writeAll fs a) b := by
  simp [writeAll, List.foldl_append]

theorem WF_writeAll (fs : FS) (h : fs.WF) (ws : Writes) : (writeAll fs ws).WF := by
  induction ws generalizing fs with
  | nil => exact h
  | cons w ws ih => exact ih _ (WF_write fs h _ _)

/-- names not written keep their content -/
theorem read_writeAll_of_not_mem (ws : Writes) (fs : FS) (n : String) (h : n ∉ ws.map (·.1)) :
    (writeAll fs ws).read n = fs.read n := by
  induction ws generalizing fs with
  | nil => rfl
  | cons w ws ih =>
    simp only [List.map_cons, List.mem_cons, not_or] at h
    rw [writeAll_cons, ih _ h.2, read_write, if_neg h.1]

/-- a name written exactly once holds what was written -/
theorem read_writeAll_of_mem (ws : Writes) (fs : FS) (hnd : (ws.map (·.1)).Nodup) (w : String × Content)
    (hw : w ∈ ws) : (writeAll fs ws).read w.1 = some w.2 := by
  induction ws generalizing fs with
  | nil => simp at hw
  | cons v ws ih =>
    simp only [List.map_cons, List.nodup_cons] at hnd
    rw [writeAll_cons]
    rcases List.mem_cons.mp hw with rfl | hw
    · rw [read_writeAll_of_not_mem _ _ _ hnd.1, read_write, if_pos rfl]
    · exact ih _ hnd.2 hw

/-- every name of the result was there before or was written -/
theorem read_writeAll_cases (ws : Writes) (fs : FS) (n : String) :
    (writeAll fs ws).read n = fs.read n ∨ ∃ w ∈ ws, w.1 = n ∧ (writeAll fs ws).read n = some w.2 := by
  induction ws using List.reverseRecOn with
  | nil => exact Or.inl rfl
  | append_singleton ws w ih =>
    rw [writeAll_append, writeAll_cons, writeAll_nil, read_write]
    by_cases h : n = w.1
    · exact Or.inr ⟨w, by simp, h.symm, by simp [h]⟩
    · rw [if_neg h]
      rcases ih with h1 | ⟨v, hv, h1, h2⟩
      · exact Or.inl h1
      · exact Or.inr ⟨v, by simp [hv], h1, h2⟩

/-- blocks of writes to disjoint sets of names commute -/
theorem writeAll_comm (a b : Writes) (fs : FS) (h : ∀ x ∈ a, ∀ y ∈ b, x.1 ≠ y.1) :
    writeAll (writeAll fs a) b = writeAll (writeAll fs b) a := by
  induction a generalizing fs with
  | nil => rfl
  | cons x a ih =>
    have hx : ∀ (b : Writes) (fs : FS), (∀ y ∈ b, x.1 ≠ y.1) →
        writeAll (fs.write x.1 x.2) b = (writeAll fs b).write x.1 x.2 := by
      intro b
      induction b with
      | nil => intro fs _; rfl
      | cons y b ihb =>
        intro fs hy
        rw [writeAll_cons, writeAll_cons, write_comm _ _ _ _ _ (hy y (by simp)),
          ihb _ (fun y' hy' => hy y' (List.mem_cons_of_mem _ hy'))]
    rw [writeAll_cons, ih _ (fun x' hx' => h x' (List.mem_cons_of_mem _ hx')),
      hx b fs (fun y hy => h x (by simp) y hy), writeAll_cons]

/-! ### a round -/

theorem execRound_nil (fs : FS) : execRound fs [] = .ok fs := rfl

theorem execRound_cons_ok (fs : FS) (ws : Writes) (ts : List (Except Err Writes)) :
    execRound fs (.ok ws :: ts) = execRound (writeAll fs ws) ts := by
  simp [execRound, List.foldlM_cons, Except.map, bind, Except.bind]

theorem execRound_cons_error (fs : FS) (e : Err) (ts : List (Except Err Writes)) :
    execRound fs (.error e :: ts) = .error e := by
  simp [execRound, List.foldlM_cons, Except.map, bind, Except.bind]

/-- a round succeeds iff all its tasks do; the result is then the directory after all writes -/
theorem execRound_ok_iff (ts : List (Except Err Writes)) (fs fs' : FS) :
    execRound fs ts = .ok fs' ↔ ∃ wss : List Writes, ts = wss.map .ok ∧ fs' = writeAll fs wss.flatten := by
  induction ts generalizing fs with
  | nil =>
    rw [execRound_nil]
    constructor
    · intro h; exact ⟨[], rfl, by cases h; rfl⟩
    · rintro ⟨wss, h1, h2⟩
      have : wss = [] := by simpa using h1.symm
      subst this; rw [h2]; rfl
  | cons t ts ih =>
    cases t with
    | error e =>
      rw [execRound_cons_error]
      constructor
      · intro h; cases h
      · rintro ⟨wss, h1, _⟩
        cases wss with
        | nil => simp at h1
        | cons a wss => simp at h1
    | ok ws =>
      rw [execRound_cons_ok, ih]
      constructor
      · rintro ⟨wss, h1, h2⟩
        exact ⟨ws :: wss, by simp [h1], by rw [h2, List.flatten_cons, writeAll_append]⟩
      · rintro ⟨wss, h1, h2⟩
        cases wss with
        | nil => simp at h1
        | cons a wss =>
          simp only [List.map_cons, List.cons.injEq, Except.ok.injEq] at h1
          obtain ⟨rfl, h1⟩ := h1
          exact ⟨wss, h1, by rw [h2, List.flatten_cons, writeAll_append]⟩

/-- the write sets of two tasks are disjoint -/
def DisjointTasks (a b : Except Err Writes) : Prop :=
  ∀ wa wb, a = .ok wa → b = .ok wb → ∀ x ∈ wa, ∀ y ∈ wb, x.1 ≠ y.1

theorem DisjointTasks.symm {a b : Except Err Writes} (h : DisjointTasks a b) : DisjointTasks b a :=
  fun wa wb ha hb x hx y hy => (h wb wa hb ha y hy x hx).symm

/-- the order in which tasks with disjoint write sets are executed does not matter
(`toOption`: both fail or both succeed with the same directory) -/
theorem execRound_perm {ts ts' : List (Except Err Writes)} (hp : ts'.Perm ts)
    (hd : ts.Pairwise DisjointTasks) (fs : FS) :
    (execRound fs ts').toOption = (execRound fs ts).toOption := by
  induction hp generalizing fs with
  | nil => rfl
  | cons t _ ih =>
    rw [List.pairwise_cons] at hd
    cases t with
    | error e => rw [execRound_cons_error, execRound_cons_error]
    | ok ws => rw [execRound_cons_ok, execRound_cons_ok]; exact ih hd.2 _
  | swap a b l =>
    rw [List.pairwise_cons, List.pairwise_cons] at hd
    cases a with
    | error e =>
      cases b with
      | error e' => rw [execRound_cons_error, execRound_cons_error]; rfl
      | ok wb => rw [execRound_cons_ok, execRound_cons_error, execRound_cons_error]
    | ok wa =>
      cases b with
      | error e' => rw [execRound_cons_ok, execRound_cons_error, execRound_cons_error]
      | ok wb =>
        rw [execRound_cons_ok, execRound_cons_ok, execRound_cons_ok, execRound_cons_ok,
          writeAll_comm wb wa fs (fun x hx y hy => (hd.1 (.ok wb) (by simp) wa wb rfl rfl y hy x hx).symm)]
  | trans _ h2 ih1 ih2 =>
    have hd' := (h2.pairwise_iff (fun {a b} (h : DisjointTasks a b) => h.symm)).mpr hd
    rw [ih1 hd' fs, ih2 hd fs]

/-! ### `glob` -/

theorem glob_eq_filter (fs : FS) (pre ext : String) :
    fs.glob pre ext = fs.names.filter (fun n => n.startsWith pre && n.endsWith ext) := rfl

theorem mem_glob (fs : FS) (pre ext n : String) :
    n ∈ fs.glob pre ext ↔ fs.read n ≠ none ∧ (n.startsWith pre && n.endsWith ext) = true := by
  rw [glob_eq_filter, List.mem_filter, mem_names_iff]

/-- a listing that matches round files only lists every name once -/
theorem glob_nodup {fs : FS} (h : fs.WF) (pre ext : String)
    (hr : ∀ n, (n.startsWith pre && n.endsWith ext) = true → isRoundFile n = true) : (fs.glob pre ext).Nodup := by
  have e : fs.glob pre ext = (fs.filter (fun x => x.1.startsWith pre && x.1.endsWith ext)).map (·.1) := by
    rw [glob_eq_filter, FS.names, List.filter_map]; rfl
  rw [e, List.nodup_iff_pairwise_ne, List.pairwise_map]
  have hf : (fs.filter (fun x => x.1.startsWith pre && x.1.endsWith ext)).Pairwise
      (fun a b => isRoundFile b.1 = true → a.1 < b.1) := List.Pairwise.filter _ h
  refine hf.imp_of_mem ?_
  intro a b _ hb hab
  exact name_lt_ne (hab (hr b.1 (List.mem_filter.mp hb).2))

theorem globB_nodup {fs : FS} (h : fs.WF) (r : Nat) : (fs.glob (bufPrefix r) ".npy").Nodup :=
  glob_nodup h _ _ (fun _ hm => isRoundFile_of_matchB (r := r) hm)

theorem globI_nodup {fs : FS} (h : fs.WF) (r : Nat) : (fs.glob (idxPrefix r) ".pkl").Nodup :=
  glob_nodup h _ _ (fun _ hm => isRoundFile_of_matchI (r := r) hm)

/-- sorting is insensitive to the order of the input (the order on names is linear) -/
theorem mergeSort_names_perm {l l' : List String} (h : l.Perm l') :
    l.mergeSort (· ≤ ·) = l'.mergeSort (· ≤ ·) := by
  have tr : ∀ a b c : String, decide (a ≤ b) = true → decide (b ≤ c) = true → decide (a ≤ c) = true := by
    intro a b c h1 h2
    simp only [decide_eq_true_eq] at *
    exact String.le_trans h1 h2
  have tot : ∀ a b : String, (decide (a ≤ b) || decide (b ≤ a)) = true := by
    intro a b
    simp only [Bool.or_eq_true, decide_eq_true_eq]
    exact String.le_total a b
  have s1 := List.pairwise_mergeSort tr tot l
  have s2 := List.pairwise_mergeSort tr tot l'
  refine List.Perm.eq_of_pairwise (le := fun a b => decide (a ≤ b) = true) ?_ s1 s2
    ((List.mergeSort_perm l _).trans (h.trans (List.mergeSort_perm l' _).symm))
  intro a b _ _ h1 h2
  simp only [decide_eq_true_eq] at h1 h2
  exact String.le_antisymm h1 h2

end BB.MR

/-! ## Multi-round workflow, scheduling and leftovers: which names the tasks of a round write

(distinct labels → disjoint write sets), a round is insensitive to the execution order of its
tasks, and a run never reads anything but the round files it wrote itself.
-/

namespace BB.MR
open BB

variable (pol : BB.Cfg → Policy)

/-! ### unfolding the monadic definitions -/

theorem except_map_eq_ok {α β : Type} {f : α → β} {x : Except Err α} {y : β} (h : x.map f = .ok y) :
    ∃ a, x = .ok a ∧ y = f a := by
  cases x with
  | error e => simp [Except.map] at h
  | ok a => exact ⟨a, rfl, by simpa [Except.map] using h.symm⟩

theorem bind_eq_ok {α β : Type} {x : Except Err α} {f : α → Except Err β} {y : β} (h : (x >>= f) = .ok y) :
    ∃ a, x = .ok a ∧ f a = .ok y := by
  cases x with
  | error e => simp [bind, Except.bind] at h
  | ok a => exact ⟨a, rfl, by simpa [bind, Except.bind] using h⟩

theorem bind_toOption_congr {α β : Type} {a a' : Except Err α} {f f' : α → Except Err β}
    (h : a.toOption = a'.toOption) (hf : ∀ x, (f x).toOption = (f' x).toOption) :
    (a >>= f).toOption = (a' >>= f').toOption := by
  cases a <;> cases a' <;> simp [Except.toOption, bind, Except.bind] at h ⊢
  subst h
  exact hf _

theorem multiround_eq (c : Cfg) (files : List (List Row)) (sched : Nat → List Nat → List Nat) (fs0 : FS) :
    multiround pol c files sched fs0 =
      (runTasks (purge fs0) (initTasks pol c files) (orderOf sched 1 (initTasks pol c files).length) >>= fun fs1 =>
       midRounds pol c files.flatten sched c.nMidRounds 2 fs1 >>= fun fs2 =>
       finalTask pol c fs2 (prevPairs fs2 (c.nMidRounds + 2)) >>= fun ws =>
       pure (if c.cleanup then (writeAll fs2 ws).remove isRoundFile else writeAll fs2 ws)) := rfl

theorem midRounds_succ (c : Cfg) (allRows : List Row) (sched : Nat → List Nat → List Nat) (k r : Nat) (fs : FS) :
    midRounds pol c allRows sched (k+1) r fs =
      (runTasks fs (midTasks pol c allRows r fs) (orderOf sched r (midTasks pol c allRows r fs).length) >>= fun fs' =>
        midRounds pol c allRows sched k (r + 1) fs') := rfl

/-! ### the names a task writes -/

theorem saveGroups_names (r : Nat) (L : String) (groups : List (W × List Clu)) :
    ∀ x ∈ saveGroups r L groups, ∃ w, x.1 = bufName r L w ∨ x.1 = idxName r L w := by
  intro x hx
  simp only [saveGroups, List.mem_flatMap, List.mem_cons, List.not_mem_nil, or_false] at hx
  obtain ⟨g, _, rfl | rfl⟩ := hx
  · exact ⟨g.1, Or.inl rfl⟩
  · exact ⟨g.1, Or.inr rfl⟩

/-- a task writes only files of round `r` with label `L` -/
def LabelTask (r : Nat) (L : String) (t : Except Err Writes) : Prop :=
  ∀ ws, t = .ok ws → ∀ x ∈ ws, ∃ w, x.1 = bufName r L w ∨ x.1 = idxName r L w

theorem initialTask_label (c : Cfg) (label : String) (rows : List Row) (start : Nat) :
    LabelTask 1 label (initialTask pol c label rows start) := by
  intro ws h
  obtain ⟨g, _, rfl⟩ := except_map_eq_ok h
  exact saveGroups_names 1 label g

theorem mergingTask_label (c : Cfg) (allRows : List Row) (r : Nat) (fs : FS) (label : String)
    (pairs : List (String × String)) : LabelTask r label (mergingTask pol c allRows r fs label pairs) := by
  intro ws h
  obtain ⟨g, _, rfl⟩ := except_map_eq_ok h
  exact saveGroups_names r label g

theorem LabelTask.disjoint {r : Nat} {L L' : String} (hL : L ≠ L') {a b : Except Err Writes}
    (ha : LabelTask r L a) (hb : LabelTask r L' b) : DisjointTasks a b := by
  intro wa wb ea eb x hx y hy hxy
  obtain ⟨w, hw⟩ := ha wa ea x hx
  obtain ⟨w', hw'⟩ := hb wb eb y hy
  rcases hw with hw | hw <;> rcases hw' with hw' | hw' <;> rw [hw, hw'] at hxy
  · exact hL (bufName_inj hxy).2.1
  · exact bufName_ne_idxName _ _ _ _ _ _ hxy
  · exact bufName_ne_idxName _ _ _ _ _ _ hxy.symm
  · exact hL (idxName_inj hxy).2.1

theorem LabelTask.roundFile {r : Nat} {L : String} {t : Except Err Writes} (h : LabelTask r L t)
    {ws : Writes} (e : t = .ok ws) : ∀ x ∈ ws, isRoundFile x.1 = true := by
  intro x hx
  obtain ⟨w, hw | hw⟩ := h ws e x hx <;> rw [hw]
  · exact isRoundFile_bufName _ _ _
  · exact isRoundFile_idxName _ _ _

theorem pairwise_zipIdx_ne {α : Type} (l : List α) : l.zipIdx.Pairwise (fun a b => a.2 ≠ b.2) := by
  apply List.Pairwise.of_map Prod.snd (S := (· ≠ ·)) (fun a b h => h)
  rw [List.zipIdx_map_snd]
  exact List.nodup_range'

/-- labels `zfill z i` over the positions of a list: tasks built from them are pairwise disjoint -/
theorem pairwise_disjoint_of_labels {α : Type} (l : List α) (z r : Nat) (task : α × Nat → Except Err Writes)
    (hl : ∀ x, LabelTask r (zfill z x.2) (task x)) : (l.zipIdx.map task).Pairwise DisjointTasks := by
  rw [List.pairwise_map]
  exact (pairwise_zipIdx_ne l).imp (fun {a b} hab =>
    LabelTask.disjoint (fun h => hab (zfill_inj h)) (hl a) (hl b))

theorem initTasks_eq (c : Cfg) (files : List (List Row)) :
    initTasks pol c files =
      ((files.zip (files.foldl (fun (acc : List Nat × Nat) f => (acc.1 ++ [acc.2], acc.2 + f.length)) ([], 0)).1).zipIdx.map
        (fun x => initialTask pol c (zfill (toString files.length).length x.2) x.1.1 x.1.2)) := by
  simp only [initTasks, fileTuples, List.map_map]
  rfl

theorem initTasks_disjoint (c : Cfg) (files : List (List Row)) : (initTasks pol c files).Pairwise DisjointTasks := by
  rw [initTasks_eq]
  exact pairwise_disjoint_of_labels _ _ 1 _ (fun x => initialTask_label pol c _ _ _)

theorem midTasks_eq (c : Cfg) (allRows : List Row) (r : Nat) (fs : FS) :
    midTasks pol c allRows r fs =
      ((chunk c.binSize (prevPairs fs r)).zipIdx.map (fun x => mergingTask pol c allRows r fs
        (zfill (toString (((prevPairs fs r).length + c.binSize - 1) / c.binSize)).length x.2) (sortBatch x.1))) := by
  simp only [midTasks, batches, List.map_map]
  rfl

theorem midTasks_disjoint (c : Cfg) (allRows : List Row) (r : Nat) (fs : FS) :
    (midTasks pol c allRows r fs).Pairwise DisjointTasks := by
  rw [midTasks_eq]
  exact pairwise_disjoint_of_labels _ _ r _ (fun x => mergingTask_label pol c _ _ _ _ _)

/-! ### execution order -/

theorem orderOf_perm (sched : Nat → List Nat → List Nat) (r n : Nat) : (orderOf sched r n).Perm (List.range n) := by
  unfold orderOf
  simp only
  split
  · rename_i h; exact List.isPerm_iff.mp h
  · exact List.Perm.refl _

theorem order_map_perm (tasks : List (Except Err Writes)) (order : List Nat)
    (hp : order.Perm (List.range tasks.length)) :
    (order.map (fun i => tasks.getD i (.error .value))).Perm tasks := by
  have := hp.map (fun i => tasks.getD i (.error .value))
  rwa [map_getD_range] at this

/-- with disjoint write sets the outcome of a round does not depend on the execution order -/
theorem runTasks_toOption (fs : FS) (tasks : List (Except Err Writes)) (hd : tasks.Pairwise DisjointTasks)
    (order : List Nat) (hp : order.Perm (List.range tasks.length)) :
    (runTasks fs tasks order).toOption = (execRound fs tasks).toOption :=
  execRound_perm (order_map_perm tasks order hp) hd fs

/-- a successful round in any order ends in the directory of the in-order execution -/
theorem runTasks_ok (fs fs' : FS) (tasks : List (Except Err Writes)) (hd : tasks.Pairwise DisjointTasks)
    (order : List Nat) (hp : order.Perm (List.range tasks.length)) (h : runTasks fs tasks order = .ok fs') :
    execRound fs tasks = .ok fs' := by
  have := runTasks_toOption fs tasks hd order hp
  rw [h] at this
  cases h2 : execRound fs tasks with
  | error e => rw [h2] at this; simp [Except.toOption] at this
  | ok x => rw [h2] at this; simp [Except.toOption] at this; rw [this]

theorem midRounds_sched (c : Cfg) (allRows : List Row) (sched sched' : Nat → List Nat → List Nat) :
    ∀ (k r : Nat) (fs : FS),
      (midRounds pol c allRows sched k r fs).toOption = (midRounds pol c allRows sched' k r fs).toOption
  | 0, _, _ => rfl
  | k+1, r, fs => by
    rw [midRounds_succ, midRounds_succ]
    have h1 := runTasks_toOption fs _ (midTasks_disjoint pol c allRows r fs) _ (orderOf_perm sched r _)
    have h2 := runTasks_toOption fs _ (midTasks_disjoint pol c allRows r fs) _ (orderOf_perm sched' r _)
    exact bind_toOption_congr (h1.trans h2.symm) (fun x => midRounds_sched c allRows sched sched' k (r + 1) x)

/-- the outcome of the workflow does not depend on the schedule -/
theorem multiround_sched (c : Cfg) (files : List (List Row)) (sched sched' : Nat → List Nat → List Nat) (fs0 : FS) :
    (multiround pol c files sched fs0).toOption = (multiround pol c files sched' fs0).toOption := by
  rw [multiround_eq, multiround_eq]
  have h1 := runTasks_toOption (purge fs0) _ (initTasks_disjoint pol c files) _ (orderOf_perm sched 1 _)
  have h2 := runTasks_toOption (purge fs0) _ (initTasks_disjoint pol c files) _ (orderOf_perm sched' 1 _)
  exact bind_toOption_congr (h1.trans h2.symm) (fun x =>
    bind_toOption_congr (midRounds_sched pol c files.flatten sched sched' c.nMidRounds 2 x) (fun _ => rfl))

end BB.MR

/-! ## Multi-round workflow, leftovers: after the initial purge a run reads nothing but the round

files it wrote itself, so it behaves on any directory exactly as on an empty one.
-/

namespace BB.MR
open BB

variable (pol : BB.Cfg → Policy)

/-- the names the workflow owns: intermediate round files and final files -/
def owned (n : String) : Bool := isRoundFile n || isFinalFile n

theorem owned_of_round {n : String} (h : isRoundFile n = true) : owned n = true := by simp [owned, h]

/-! ### what `prevPairs` and the batches contain -/

theorem prevPairs_mem {fs : FS} {r : Nat} {p : String × String} (h : p ∈ prevPairs fs r) :
    (fs.read p.1 ≠ none ∧ matchB (r - 1) p.1 = true) ∧ (fs.read p.2 ≠ none ∧ matchI (r - 1) p.2 = true) := by
  obtain ⟨a, b⟩ := p
  have := List.of_mem_zip h
  rw [List.mem_mergeSort, List.mem_mergeSort, mem_glob, mem_glob] at this
  exact this

theorem prevPairs_congr (a b : FS) (ha : a.WF) (hb : b.WF)
    (h : ∀ n, isRoundFile n = true → a.read n = b.read n) (r : Nat) : prevPairs a r = prevPairs b r := by
  unfold prevPairs
  congr 1
  · apply mergeSort_names_perm
    rw [List.perm_ext_iff_of_nodup (globB_nodup ha _) (globB_nodup hb _)]
    intro n
    rw [mem_glob, mem_glob]
    constructor
    · rintro ⟨h1, h2⟩; exact ⟨by rwa [← h n (isRoundFile_of_matchB (r := r - 1) h2)], h2⟩
    · rintro ⟨h1, h2⟩; exact ⟨by rwa [h n (isRoundFile_of_matchB (r := r - 1) h2)], h2⟩
  · apply mergeSort_names_perm
    rw [List.perm_ext_iff_of_nodup (globI_nodup ha _) (globI_nodup hb _)]
    intro n
    rw [mem_glob, mem_glob]
    constructor
    · rintro ⟨h1, h2⟩; exact ⟨by rwa [← h n (isRoundFile_of_matchI (r := r - 1) h2)], h2⟩
    · rintro ⟨h1, h2⟩; exact ⟨by rwa [h n (isRoundFile_of_matchI (r := r - 1) h2)], h2⟩

theorem chunk_flatten {α : Type} (k : Nat) (l : List α) : (chunk k l).flatten = l := by
  fun_induction chunk k l with
  | case1 => rfl
  | case2 x xs hk => simp
  | case3 x xs hk ih => rw [List.flatten_cons, ih, List.take_append_drop]

theorem chunk_mem {α : Type} {k : Nat} {l b : List α} (hb : b ∈ chunk k l) {x : α} (hx : x ∈ b) : x ∈ l := by
  rw [← chunk_flatten k l]
  exact List.mem_flatten.mpr ⟨b, hb, hx⟩

theorem sortBatch_perm (b : List (String × String)) : (sortBatch b).Perm b := List.mergeSort_perm _ _

theorem batches_mem {pairs : List (String × String)} {k : Nat} {b : String × List (String × String)}
    (hb : b ∈ batches pairs k) {p : String × String} (hp : p ∈ b.2) : p ∈ pairs := by
  simp only [batches, List.mem_map] at hb
  obtain ⟨⟨ch, i⟩, hm, rfl⟩ := hb
  have hch : ch ∈ chunk k pairs := by
    have := List.mem_map_of_mem (f := Prod.fst) hm
    rwa [List.zipIdx_map_fst] at this
  exact chunk_mem hch ((sortBatch_perm ch).mem_iff.mp hp)

/-! ### the tasks of a round only depend on the round files they read -/

theorem pairUnits_congr (a b : FS) (p : String × String)
    (h : a.read p.1 = b.read p.1 ∧ a.read p.2 = b.read p.2) : pairUnits a p = pairUnits b p := by
  simp only [pairUnits, h.1, h.2]

theorem fitPairs_congr (a b : FS) : ∀ (pairs : List (String × String)) (e : Est),
    (∀ p ∈ pairs, a.read p.1 = b.read p.1 ∧ a.read p.2 = b.read p.2) →
    fitPairs pol a e pairs = fitPairs pol b e pairs
  | [], e, _ => by simp [fitPairs]
  | p :: rest, e, h => by
    have h0 := pairUnits_congr a b p (h p (by simp))
    have ih := fun e' => fitPairs_congr a b rest e' (fun p hp => h p (List.mem_cons_of_mem _ hp))
    simp only [fitPairs, h0, ih]

theorem mergedEst_congr (a b : FS) (bf : Nat) (thr : Rat) (crit : String) (tol : Rat)
    (pairs : List (String × String))
    (h : ∀ p ∈ pairs, a.read p.1 = b.read p.1 ∧ a.read p.2 = b.read p.2) :
    mergedEst pol bf thr crit tol a pairs = mergedEst pol bf thr crit tol b pairs := by
  simp only [mergedEst, fitPairs_congr pol a b pairs _ h]

theorem mergingGroups_congr (a b : FS) (c : Cfg) (allRows : List Row) (pairs : List (String × String))
    (h : ∀ p ∈ pairs, a.read p.1 = b.read p.1 ∧ a.read p.2 = b.read p.2) :
    mergingGroups pol c allRows a pairs = mergingGroups pol c allRows b pairs := by
  simp only [mergingGroups, mergedEst_congr pol a b _ _ _ _ pairs h]

theorem finalClus_congr (a b : FS) (c : Cfg) (pairs : List (String × String))
    (h : ∀ p ∈ pairs, a.read p.1 = b.read p.1 ∧ a.read p.2 = b.read p.2) :
    finalClus pol c a pairs = finalClus pol c b pairs := by
  simp only [finalClus, mergedEst_congr pol a b _ _ _ _ pairs h]

theorem prevPairs_reads {a b : FS} (h : ∀ n, isRoundFile n = true → a.read n = b.read n) {r : Nat}
    {p : String × String} (hp : p ∈ prevPairs a r) : a.read p.1 = b.read p.1 ∧ a.read p.2 = b.read p.2 := by
  have := prevPairs_mem hp
  exact ⟨h _ (isRoundFile_of_matchB this.1.2), h _ (isRoundFile_of_matchI this.2.2)⟩

theorem midTasks_congr (a b : FS) (ha : a.WF) (hb : b.WF)
    (h : ∀ n, isRoundFile n = true → a.read n = b.read n) (c : Cfg) (allRows : List Row) (r : Nat) :
    midTasks pol c allRows r a = midTasks pol c allRows r b := by
  unfold midTasks
  rw [← prevPairs_congr a b ha hb h r]
  apply List.map_congr_left
  intro bt hbt
  unfold mergingTask
  rw [mergingGroups_congr pol a b c allRows bt.2 (fun p hp => prevPairs_reads h (batches_mem hbt hp))]

theorem finalTask_congr (a b : FS) (ha : a.WF) (hb : b.WF)
    (h : ∀ n, isRoundFile n = true → a.read n = b.read n) (c : Cfg) (r : Nat) :
    finalTask pol c a (prevPairs a r) = finalTask pol c b (prevPairs b r) := by
  unfold finalTask
  rw [← prevPairs_congr a b ha hb h r, finalClus_congr pol a b c _ (fun p hp => prevPairs_reads h hp)]

/-! ### two runs side by side -/

/-- `a` is the directory of a run started on `fs0`, `b` that of the same run started on the empty
directory: they agree on everything the workflow owns, the rest of `fs0` is as it was -/
structure Sim (fs0 a b : FS) : Prop where
  wfa : a.WF
  wfb : b.WF
  agree : ∀ n, owned n = true → a.read n = b.read n
  keep : ∀ n, owned n = false → a.read n = fs0.read n
  onlyb : ∀ n, owned n = false → b.read n = none

theorem Sim.writeAll {fs0 a b : FS} (h : Sim fs0 a b) (ws : Writes) (hw : ∀ x ∈ ws, owned x.1 = true) :
    Sim fs0 (writeAll a ws) (writeAll b ws) := by
  have hnot : ∀ n, owned n = false → n ∉ ws.map (·.1) := by
    intro n hn hmem
    obtain ⟨x, hx, rfl⟩ := List.mem_map.mp hmem
    rw [hw x hx] at hn; cases hn
  refine ⟨WF_writeAll _ h.wfa _, WF_writeAll _ h.wfb _, ?_, ?_, ?_⟩
  · intro n hn
    have key : ∀ (ws : Writes) (a b : FS), a.read n = b.read n → (MR.writeAll a ws).read n = (MR.writeAll b ws).read n := by
      intro ws
      induction ws with
      | nil => intro a b h; exact h
      | cons w ws ih =>
        intro a b h
        rw [writeAll_cons, writeAll_cons]
        apply ih
        rw [read_write, read_write, h]
    exact key ws a b (h.agree n hn)
  · intro n hn
    rw [read_writeAll_of_not_mem _ _ _ (hnot n hn)]; exact h.keep n hn
  · intro n hn
    rw [read_writeAll_of_not_mem _ _ _ (hnot n hn)]; exact h.onlyb n hn

theorem Sim.removeRound {fs0 a b : FS} (h : Sim fs0 a b) :
    Sim fs0 (a.remove isRoundFile) (b.remove isRoundFile) := by
  refine ⟨WF_remove _ h.wfa _, WF_remove _ h.wfb _, ?_, ?_, ?_⟩
  · intro n hn; rw [read_remove, read_remove, h.agree n hn]
  · intro n hn
    have : isRoundFile n = false := by
      cases hr : isRoundFile n with
      | false => rfl
      | true => rw [owned_of_round hr] at hn; cases hn
    rw [read_remove, this]; exact h.keep n hn
  · intro n hn
    rw [read_remove, h.onlyb n hn]; simp

theorem Sim.round {fs0 a b : FS} (h : Sim fs0 a b) : ∀ n, isRoundFile n = true → a.read n = b.read n :=
  fun n hn => h.agree n (owned_of_round hn)

/-- the same tasks executed on both directories -/
theorem runTasks_sim {fs0 a b a' : FS} (h : Sim fs0 a b) (tasks : List (Except Err Writes)) (order : List Nat)
    (ht : ∀ t ∈ tasks, ∀ w, t = .ok w → ∀ x ∈ w, isRoundFile x.1 = true)
    (hr : runTasks a tasks order = .ok a') :
    ∃ b', runTasks b tasks order = .ok b' ∧ Sim fs0 a' b' := by
  unfold runTasks at hr ⊢
  obtain ⟨wss, h1, h2⟩ := (execRound_ok_iff _ _ _).mp hr
  refine ⟨writeAll b wss.flatten, (execRound_ok_iff _ _ _).mpr ⟨wss, h1, rfl⟩, ?_⟩
  rw [h2]
  apply h.writeAll
  intro x hx
  obtain ⟨w, hw, hxw⟩ := List.mem_flatten.mp hx
  have : Except.ok w ∈ List.map (fun i => tasks.getD i (Except.error Err.value)) order := by
    rw [h1]; exact List.mem_map_of_mem hw
  obtain ⟨i, _, hi⟩ := List.mem_map.mp this
  have hmem : tasks.getD i (Except.error Err.value) ∈ tasks := by
    rw [List.getD_eq_getElem?_getD] at hi ⊢
    cases hg : tasks[i]? with
    | none => rw [hg] at hi; simp at hi
    | some t => simp; exact List.mem_of_getElem? hg
  exact owned_of_round (ht _ hmem w hi x hxw)

theorem midTasks_round (c : Cfg) (allRows : List Row) (r : Nat) (fs : FS) :
    ∀ t ∈ midTasks pol c allRows r fs, ∀ w, t = .ok w → ∀ x ∈ w, isRoundFile x.1 = true := by
  intro t ht w hw
  simp only [midTasks, List.mem_map] at ht
  obtain ⟨bt, _, rfl⟩ := ht
  exact LabelTask.roundFile (mergingTask_label pol c allRows r fs bt.1 bt.2) hw

theorem initTasks_round (c : Cfg) (files : List (List Row)) :
    ∀ t ∈ initTasks pol c files, ∀ w, t = .ok w → ∀ x ∈ w, isRoundFile x.1 = true := by
  intro t ht w hw
  simp only [initTasks, List.mem_map] at ht
  obtain ⟨bt, _, rfl⟩ := ht
  exact LabelTask.roundFile (initialTask_label pol c bt.1 bt.2.1 bt.2.2) hw

theorem midRounds_sim (c : Cfg) (allRows : List Row) (sched : Nat → List Nat → List Nat) (fs0 : FS) :
    ∀ (k r : Nat) (a b a' : FS), Sim fs0 a b → midRounds pol c allRows sched k r a = .ok a' →
      ∃ b', midRounds pol c allRows sched k r b = .ok b' ∧ Sim fs0 a' b'
  | 0, _, a, b, a', h, hr => by
    simp only [midRounds, Except.ok.injEq] at hr
    subst hr
    exact ⟨b, rfl, h⟩
  | k+1, r, a, b, a', h, hr => by
    rw [midRounds_succ] at hr
    obtain ⟨a1, h1, h2⟩ := bind_eq_ok hr
    obtain ⟨b1, hb1, hs1⟩ := runTasks_sim h _ _ (midTasks_round pol c allRows r a) h1
    obtain ⟨b', hb', hs'⟩ := midRounds_sim c allRows sched fs0 k (r + 1) a1 b1 a' hs1 h2
    refine ⟨b', ?_, hs'⟩
    rw [midRounds_succ, ← midTasks_congr pol a b h.wfa h.wfb h.round c allRows r, hb1]
    exact hb'

theorem finalWrites_owned (c : Cfg) (cl : List Clu) : ∀ x ∈ finalWrites c cl, owned x.1 = true := by
  intro x hx
  simp only [finalWrites, List.mem_append, List.mem_singleton] at hx
  rcases hx with hx | rfl
  · split at hx
    · simp only [List.mem_singleton] at hx; subst hx; simp [owned, isFinalFile]
    · simp at hx
  · simp [owned, isFinalFile]

theorem purge_sim (fs0 : FS) : Sim fs0 (purge fs0) [] := by
  refine ⟨WF_purge fs0, List.Pairwise.nil, ?_, ?_, ?_⟩
  · intro n hn
    have : (isRoundFile n || isFinalFile n) = true := hn
    rw [purge, read_remove, this]; rfl
  · intro n hn
    have : (isRoundFile n || isFinalFile n) = false := hn
    rw [purge, read_remove, this]; rfl
  · intro n _; rfl

/-- a run on any directory vs the same run on the empty directory -/
theorem multiround_sim (c : Cfg) (files : List (List Row)) (sched : Nat → List Nat → List Nat) (fs0 fs : FS)
    (hr : multiround pol c files sched fs0 = .ok fs) :
    ∃ fs', multiround pol c files sched [] = .ok fs' ∧ Sim fs0 fs fs' := by
  rw [multiround_eq] at hr
  obtain ⟨a1, h1, hr⟩ := bind_eq_ok hr
  obtain ⟨a2, h2, hr⟩ := bind_eq_ok hr
  obtain ⟨ws, h3, hr⟩ := bind_eq_ok hr
  obtain ⟨b1, hb1, s1⟩ := runTasks_sim (purge_sim fs0) _ _ (initTasks_round pol c files) h1
  obtain ⟨b2, hb2, s2⟩ := midRounds_sim pol c files.flatten sched fs0 _ _ _ _ _ s1 h2
  have h3' : finalTask pol c b2 (prevPairs b2 (c.nMidRounds + 2)) = .ok ws := by
    rw [← finalTask_congr pol a2 b2 s2.wfa s2.wfb s2.round]; exact h3
  obtain ⟨cl, _, hws⟩ := except_map_eq_ok h3
  have s3 : Sim fs0 (writeAll a2 ws) (writeAll b2 ws) :=
    s2.writeAll ws (by rw [hws]; exact finalWrites_owned c cl)
  have hb1' : runTasks (purge []) (initTasks pol c files) (orderOf sched 1 (initTasks pol c files).length) = .ok b1 := hb1
  refine ⟨if c.cleanup then (writeAll b2 ws).remove isRoundFile else writeAll b2 ws, ?_, ?_⟩
  · rw [multiround_eq, hb1']
    simp only [bind, Except.bind, hb2, h3', pure, Except.pure]
  · simp only [pure, Except.pure, Except.ok.injEq] at hr
    subst hr
    split
    · exact s3.removeRound
    · exact s3

/-- with `cleanup` no round file is left -/
theorem multiround_cleanup (c : Cfg) (files : List (List Row)) (sched : Nat → List Nat → List Nat) (fs0 fs : FS)
    (hc : c.cleanup = true) (hr : multiround pol c files sched fs0 = .ok fs) :
    ∀ n ∈ fs.map (·.1), isRoundFile n = false := by
  rw [multiround_eq] at hr
  obtain ⟨a1, h1, hr⟩ := bind_eq_ok hr
  obtain ⟨a2, h2, hr⟩ := bind_eq_ok hr
  obtain ⟨ws, h3, hr⟩ := bind_eq_ok hr
  simp only [pure, Except.pure, Except.ok.injEq, hc, ↓reduceIte] at hr
  subst hr
  intro n hn
  obtain ⟨x, hx, rfl⟩ := List.mem_map.mp hn
  have := (List.mem_filter.mp hx).2
  simpa using this

end BB.MR

/-! ## Multi-round workflow, the tasks: what one task does to the labels (and to any per-cluster

predicate `Q` closed under merging, e.g. "exact summary").  A task builds a tree from units,
releases the internal nodes and extracts groups of sub-clusters; whenever it succeeds the
extracted groups carry exactly the labels of the units it was given.
-/

namespace BB.MR
open BB

variable (pol : BB.Cfg → Policy)

/-! ### predicates carried through the workflow -/

/-- closure properties of a per-cluster predicate (for the labelling `D`: label ↦ fingerprint) -/
structure QOK (D : Nat → Row) (Q : Clu → Prop) : Prop where
  merge : ∀ c s, Q c → Q s → Q (c.merge s)
  unit : ∀ c, Q c → Q c.asUnit
  row : ∀ i, Q (Clu.ofRow (D i) i)
  single : ∀ i, Q (single (D i) i)

theorem qok_true (D : Nat → Row) : QOK D (fun _ => True) := ⟨by simp, by simp, by simp, by simp⟩

theorem qok_exact (D : Nat → Row) : QOK D (Exact D) :=
  ⟨exact_merge D, exact_asUnit D, fun i => exact_ofRow D _ _ rfl, fun i => exact_ofBuffer_singleton D i⟩

/-- merges, whatever the acceptance rule -/
abbrev MCT := MC (fun _ _ => True)

theorem MC.toT {acc : Clu → Clu → Prop} {A B : Multiset Clu} (h : MC acc A B) : MCT A B :=
  h.mono (fun _ _ _ => trivial)

theorem MCT.q {D : Nat → Row} {Q : Clu → Prop} (hQ : QOK D Q) {A B : Multiset Clu} (h : MCT A B)
    (hA : ∀ c ∈ A, Q c) : ∀ c ∈ B, Q c :=
  MC.forall Q (fun c s hc hs _ => hQ.merge c s hc hs) h hA

/-- the clusters of a list of groups -/
abbrev flat (gs : List (W × List Clu)) : Multiset Clu := ((gs.flatMap (·.2) : List Clu) : Multiset Clu)

/-- dtype keys are distinct, every sub-cluster is filed under its own dtype -/
structure GroupsOK (gs : List (W × List Clu)) : Prop where
  nodup : (gs.map (·.1)).Nodup
  keyed : ∀ g ∈ gs, ∀ u ∈ g.2, u.w = g.1

theorem groupStep_keyed (acc : List (W × List Clu)) (c : Clu) (h : ∀ g ∈ acc, ∀ u ∈ g.2, u.w = g.1) :
    ∀ g ∈ groupStep acc c, ∀ u ∈ g.2, u.w = g.1 := by
  unfold groupStep
  split
  · intro g hg u hu
    obtain ⟨g0, hg0, rfl⟩ := List.mem_map.mp hg
    by_cases hw : (g0.1 == c.w) = true
    · simp only [if_pos hw] at hu ⊢
      rcases List.mem_append.mp hu with hu | hu
      · exact h g0 hg0 u hu
      · simp only [List.mem_singleton] at hu
        subst hu
        exact (by simpa using hw : g0.1 = u.w).symm
    · simp only [if_neg hw] at hu ⊢
      exact h g0 hg0 u hu
  · intro g hg u hu
    rcases List.mem_append.mp hg with hg | hg
    · exact h g hg u hu
    · simp only [List.mem_singleton] at hg
      subst hg
      simp only [List.mem_singleton] at hu
      subst hu; rfl

theorem groupByW_ok (cs : List Clu) : GroupsOK (groupByW cs) := by
  refine ⟨(groupByW_spec cs).1, ?_⟩
  rw [groupByW_eq]
  have key : ∀ (cs : List Clu) (acc : List (W × List Clu)), (∀ g ∈ acc, ∀ u ∈ g.2, u.w = g.1) →
      ∀ g ∈ cs.foldl groupStep acc, ∀ u ∈ g.2, u.w = g.1 := by
    intro cs
    induction cs with
    | nil => intro acc h; exact h
    | cons c cs ih => intro acc h; exact ih _ (groupStep_keyed acc c h)
  exact key cs [] (by simp)

theorem addToU8_ok (groups : List (W × List Clu)) (us : List Clu) (h : GroupsOK groups)
    (hus : ∀ u ∈ us, u.w = W.u8) : GroupsOK (addToU8 groups us) := by
  unfold addToU8
  split
  · refine ⟨?_, ?_⟩
    · have : (groups.map (fun g => if g.1 == W.u8 then (g.1, g.2 ++ us) else g)).map (·.1) = groups.map (·.1) := by
        rw [List.map_map]; apply List.map_congr_left; intro g _; simp only [Function.comp]; split <;> rfl
      rw [this]; exact h.nodup
    · intro g hg u hu
      obtain ⟨g0, hg0, rfl⟩ := List.mem_map.mp hg
      by_cases hw : (g0.1 == W.u8) = true
      · simp only [if_pos hw] at hu ⊢
        rcases List.mem_append.mp hu with hu | hu
        · exact h.keyed g0 hg0 u hu
        · rw [hus u hu]; exact (by simpa using hw : g0.1 = W.u8).symm
      · simp only [if_neg hw] at hu ⊢
        exact h.keyed g0 hg0 u hu
  · rename_i hany
    refine ⟨?_, ?_⟩
    · rw [List.map_append, List.nodup_append]
      refine ⟨h.nodup, by simp, ?_⟩
      intro a ha b hb
      simp only [List.map_cons, List.map_nil, List.mem_singleton] at hb
      subst hb
      intro he
      apply hany
      simp only [List.any_eq_true]
      obtain ⟨g, hg, rfl⟩ := List.mem_map.mp ha
      exact ⟨g, hg, by simp [he]⟩
    · intro g hg u hu
      rcases List.mem_append.mp hg with hg | hg
      · exact h.keyed g hg u hu
      · simp only [List.mem_singleton] at hg
        subst hg
        exact hus u hu

/-! ### the estimator steps of a task (success is a hypothesis, not a conclusion) -/

theorem mkEst_ok {bf : Nat} {thr : Rat} {crit : String} {tol : Option Rat} {e0 : Est}
    (h : mkEst bf thr crit tol = .ok e0) : e0.st = .uninit ∧ e0.numFitted = 0 ∧ e0.cfg.bf = bf := by
  unfold mkEst construct at h
  split at h
  · cases h
  · cases h; exact ⟨rfl, rfl, rfl⟩

theorem fitBuffers_ok (P : Policy) (hP : P.Valid) (e e' : Est) (units : List Clu)
    (hbf : 1 ≤ e.cfg.bf) (hok : e.st.OK) (hlo : e.st.isLeavesOnly = false)
    (h : fitBuffers P e units = (e', none)) :
    e'.cfg = e.cfg ∧ e'.st.OK ∧ e'.st.isLeavesOnly = false ∧
      MC P.acc (e.st.lclusM + (units : Multiset Clu)) e'.st.lclusM := by
  cases units with
  | nil => simp [fitBuffers] at h
  | cons u0 us =>
    obtain ⟨st', h1, hok', hlo', _, _, hmc⟩ :=
      fitUnits_spec P hP e.cfg.bf hbf ((e.st.F?).getD u0.ls.length) (u0 :: us) e.st e.numFitted hok hlo
    unfold fitBuffers at h
    simp only at h
    cases hst : e.st with
    | leavesOnly F' ls => rw [hst] at hlo; simp [TreeSt.isLeavesOnly] at hlo
    | uninit =>
      rw [hst] at h h1
      simp only at h
      split at h
      · cases h
      · rw [h1] at h
        cases h
        rw [hst] at hmc
        exact ⟨rfl, hok', hlo', hmc⟩
    | full hh F'' root chain next =>
      rw [hst] at h h1
      simp only at h
      split at h
      · cases h
      · rw [h1] at h
        cases h
        rw [hst] at hmc
        exact ⟨rfl, hok', hlo', hmc⟩

theorem refitGroups_ok (hpol : ∀ cfg, (pol cfg).Valid) :
    ∀ (gs : List (W × List Clu)) (e e' : Est), 1 ≤ e.cfg.bf → e.st.OK → e.st.isLeavesOnly = false →
    refitGroups pol e gs = (e', none) →
    e'.cfg = e.cfg ∧ e'.st.OK ∧ e'.st.isLeavesOnly = false ∧
      MCT (e.st.lclusM + (((gs.flatMap (·.2)).map Clu.asUnit : List Clu) : Multiset Clu)) e'.st.lclusM
  | [], e, e', _, hok, hlo, h => by
    simp only [refitGroups, Prod.mk.injEq, and_true] at h
    subst h
    exact ⟨rfl, hok, hlo, by simpa using MC.refl _⟩
  | g :: gs, e, e', hbf, hok, hlo, h => by
    unfold refitGroups at h
    cases h1 : fitBuffers (pol e.cfg) e (g.2.map Clu.asUnit) with
    | mk e1 err =>
      rw [h1] at h
      cases err with
      | some x => simp at h
      | none =>
        simp only at h
        obtain ⟨c1, ok1, lo1, mc1⟩ := fitBuffers_ok (pol e.cfg) (hpol _) e e1 _ hbf hok hlo h1
        obtain ⟨c2, ok2, lo2, mc2⟩ := refitGroups_ok hpol gs e1 e' (by rw [c1]; exact hbf) ok1 lo1 h
        refine ⟨by rw [c2, c1], ok2, lo2, ?_⟩
        simp only [List.flatMap_cons, List.map_append, ← Multiset.coe_add]
        rw [← add_assoc]
        exact ((MC.toT mc1).frame _).trans mc2

theorem delInternal_ok (e e' : Est) (hok : e.st.OK) (h : delInternal e = (e', none)) :
    e'.cfg = e.cfg ∧ e'.st.OK ∧ e'.st.lclusM = e.st.lclusM := by
  unfold delInternal at h
  cases hst : e.st with
  | uninit => rw [hst] at h; simp at h
  | leavesOnly F' ls => rw [hst] at h; simp at h
  | full hh F' root chain next =>
    rw [hst] at h
    cases hh with
    | zero =>
      simp only [Prod.mk.injEq, and_true] at h
      subst h
      exact ⟨rfl, hok, by rw [hst]⟩
    | succ k =>
      simp only [Prod.mk.injEq, and_true] at h
      subst h
      refine ⟨rfl, trivial, ?_⟩
      have hcoe := TreeSt.leafClus_coe e.st hok
      rw [hst] at hcoe
      rw [← hcoe]
      rfl

theorem setMerge_ok {e e' : Est} {crit : Option CritArg} {tol thr : Option Rat}
    (h : setMerge e crit tol thr none = (e', none)) :
    e'.st = e.st ∧ e'.cfg.bf = e.cfg.bf := by
  unfold setMerge at h
  split at h
  · simp at h
  · simp only [Prod.mk.injEq, and_true] at h
    subst h
    exact ⟨rfl, rfl⟩

/-! ### extraction of the groups to save -/

/-- `groups` carries the labels of the clusters `M` (and `Q`, if `M` does) -/
structure Extracted (Q : Clu → Prop) (M : Multiset Clu) (groups : List (W × List Clu)) : Prop where
  ok : GroupsOK groups
  ids : idsOf (flat groups) = idsOf M
  q : (∀ c ∈ M, Q c) → ∀ g ∈ groups, ∀ u ∈ g.2, Q u

theorem mem_flat {groups : List (W × List Clu)} {g : W × List Clu} {u : Clu} (hg : g ∈ groups) (hu : u ∈ g.2) :
    u ∈ flat groups := by
  show u ∈ groups.flatMap (·.2)
  exact List.mem_flatMap.mpr ⟨g, hg, hu⟩

theorem extracted_all (Q : Clu → Prop) (e : Est) (hok : e.st.OK) : Extracted Q e.st.lclusM (allGroups e) := by
  have hflat : flat (allGroups e) = e.st.lclusM := by
    unfold flat allGroups
    rw [(groupByW_spec _).2.2, sortedClus_coe e.st hok]
  refine ⟨groupByW_ok _, by rw [hflat], ?_⟩
  intro hq g hg u hu
  exact hq u (hflat ▸ mem_flat hg hu)

/-- the common shape of `_bf_to_np_refine` results -/
theorem extracted_refined (D : Nat → Row) (Q : Clu → Prop) (hQ : QOK D Q) (st : TreeSt) (hok : st.OK)
    (groups : List (W × List Clu)) (singles : List Clu) (k : Nat) (hgk : GroupsOK groups)
    (hflat : flat groups = ((st.sortedClus.drop k : List Clu) : Multiset Clu) + (singles : Multiset Clu))
    (hids : idsOf (singles : Multiset Clu) = idsOf ((st.sortedClus.take k : List Clu) : Multiset Clu))
    (hs : ∀ u ∈ singles, ∃ id, u = single (D id) id) : Extracted Q st.lclusM groups := by
  refine ⟨hgk, ?_, ?_⟩
  · rw [hflat, idsOf_add, hids, ← idsOf_add, add_comm, Multiset.coe_add, List.take_append_drop,
      sortedClus_coe st hok]
  · intro hq g hg u hu
    have := mem_flat hg hu
    rw [hflat] at this
    rcases Multiset.mem_add.mp this with h | h
    · apply hq
      rw [← sortedClus_coe st hok]
      exact List.mem_of_mem_drop h
    · obtain ⟨id, rfl⟩ := hs u h
      exact hQ.single id

theorem refineGroups_ok' {bfs : List Clu} {k : Nat} {data : List Row} {im : Nat} {groups : List (W × List Clu)}
    (h : refineGroups bfs k data im = .ok groups) : GroupsOK groups := by
  unfold refineGroups at h
  simp only at h
  split at h
  · cases h; exact groupByW_ok _
  · split at h
    · cases h
    · rename_i uss huss
      cases h
      split
      · exact groupByW_ok _
      · apply addToU8_ok _ _ (groupByW_ok _)
        intro u hu
        obtain ⟨id, r, _, _, rfl⟩ := (explodeAll_spec data im _ uss huss).2 u hu
        rfl

theorem extracted_split (D : Nat → Row) (Q : Clu → Prop) (hQ : QOK D Q) (st : TreeSt) (hok : st.OK)
    (rows : List Row) (start : Nat) (hD : ∀ i (hi : i < rows.length), D (start + i) = rows[i])
    (groups : List (W × List Clu)) (h : refineGroups st.sortedClus 1 rows start = .ok groups) :
    Extracted Q st.lclusM groups := by
  obtain ⟨_, singles, hflat, hids, hsing⟩ := refineGroups_spec _ _ _ _ false _ h
  refine extracted_refined D Q hQ st hok groups singles 1 (refineGroups_ok' h) hflat hids ?_
  intro u hu
  obtain ⟨id, r, hle, hr, rfl⟩ := hsing u hu
  refine ⟨id, ?_⟩
  obtain ⟨hi, hri⟩ := List.getElem?_eq_some_iff.mp hr
  have := hD (id - start) hi
  rw [show start + (id - start) = id by omega] at this
  rw [this, hri]

theorem refineGroupsSorted_spec {bfs : List Clu} {allRows : List Row} {groups : List (W × List Clu)}
    (h : refineGroupsSorted bfs allRows = .ok groups) :
    GroupsOK groups ∧ ∃ singles : List Clu,
      flat groups = ((bfs.drop 1 : List Clu) : Multiset Clu) + (singles : Multiset Clu) ∧
      idsOf (singles : Multiset Clu) = idsOf ((bfs.take 1 : List Clu) : Multiset Clu) ∧
      ∀ u ∈ singles, ∃ id r, allRows[id]? = some r ∧ u = single r id := by
  obtain ⟨hnd, hne, hflat⟩ := groupByW_spec (bfs.drop 1)
  unfold refineGroupsSorted at h
  simp only at h
  split at h
  · cases h
  · rename_i uss huss
    cases h
    -- the exploded units
    have key : idsOf ((uss.flatten : List Clu) : Multiset Clu) = idsOf ((bfs.take 1 : List Clu) : Multiset Clu) ∧
        ∀ u ∈ uss.flatten, ∃ id r, allRows[id]? = some r ∧ u = single r id := by
      cases bfs with
      | nil =>
        simp only [List.take_nil, List.mapM_nil, Option.pure_def, Option.some.injEq] at huss
        subst huss; simp
      | cons c rest =>
        simp only [List.take_succ_cons, List.take_zero, List.mapM_cons, List.mapM_nil, Option.pure_def,
          Option.bind_eq_bind, Option.bind_some] at huss
        cases hx : explode allRows 0 (c.ids.mergeSort (fun a b => decide (a ≤ b))) with
        | none => rw [hx] at huss; simp at huss
        | some us =>
          rw [hx] at huss
          simp only [Option.bind_some, Option.some.injEq] at huss
          subst huss
          obtain ⟨g1, g2⟩ := explode_spec allRows 0 _ us hx
          simp only [List.flatten_cons, List.flatten_nil, List.append_nil]
          refine ⟨?_, ?_⟩
          · rw [g1]
            show _ = idsOf (([c] : List Clu) : Multiset Clu)
            rw [show (([c] : List Clu) : Multiset Clu) = {c} from rfl, idsOf_singleton]
            exact Multiset.coe_eq_coe.mpr (List.mergeSort_perm _ _)
          · intro u hu
            obtain ⟨id, r, _, _, hr, rfl⟩ := g2 u hu
            exact ⟨id, r, by simpa using hr, rfl⟩
    split
    · rename_i hemp
      have : uss.flatten = [] := by simpa using hemp
      refine ⟨groupByW_ok _, [], by simpa using hflat, ?_, by simp⟩
      rw [← key.1, this]
    · rename_i hemp
      have hne' : uss.flatten ≠ [] := by simpa using hemp
      obtain ⟨_, a2⟩ := addToU8_spec (groupByW (bfs.drop 1)) uss.flatten hne' hnd hne
      refine ⟨?_, uss.flatten, by rw [flat, a2, hflat], key.1, key.2⟩
      apply addToU8_ok _ _ (groupByW_ok _)
      intro u hu
      obtain ⟨id, r, _, rfl⟩ := key.2 u hu
      rfl

theorem extracted_sorted (D : Nat → Row) (Q : Clu → Prop) (hQ : QOK D Q) (st : TreeSt) (hok : st.OK)
    (allRows : List Row) (hD : ∀ id r, allRows[id]? = some r → D id = r)
    (groups : List (W × List Clu)) (h : refineGroupsSorted st.sortedClus allRows = .ok groups) :
    Extracted Q st.lclusM groups := by
  obtain ⟨hgk, singles, hflat, hids, hsing⟩ := refineGroupsSorted_spec h
  refine extracted_refined D Q hQ st hok groups singles 1 hgk hflat hids ?_
  intro u hu
  obtain ⟨id, r, hr, rfl⟩ := hsing u hu
  exact ⟨id, by rw [hD id r hr]⟩

/-! ### round 1: one input file -/

theorem takeWhile_eq_self_of_length {α : Type} (p : α → Bool) (l : List α)
    (h : (l.takeWhile p).length = l.length) : l.takeWhile p = l :=
  (List.takeWhile_prefix p).eq_of_length h

/-- a successful `fit` of labelled rows on a fresh estimator -/
theorem fit_fresh_ok (P : Policy) (hP : P.Valid) (e0 e1 : Est) (hst : e0.st = .uninit) (hbf : 1 ≤ e0.cfg.bf)
    (rows : List Row) (labels : List Nat) (h : fit P e0 rows (some labels) = (e1, none)) :
    e1.cfg = e0.cfg ∧ e1.st.OK ∧ e1.st.isLeavesOnly = false ∧
      MC P.acc (((labels.zip rows).map (fun p => Clu.ofRow p.2 p.1) : List Clu) : Multiset Clu) e1.st.lclusM := by
  cases rows with
  | nil => simp [fit] at h
  | cons r0 rest =>
    have hlo : e0.st.isLeavesOnly = false := by rw [hst]; rfl
    rw [fit_eq P e0 r0 rest (some labels) hlo] at h
    simp only at h
    obtain ⟨st', h1, hok', hlo', _, _, hmc⟩ :=
      fitRows_spec P hP e0.cfg.bf hbf ((e0.st.F?).getD r0.length) (labels.zip (r0 :: rest)) e0.st e0.numFitted
        (by rw [hst]; trivial) hlo
    rw [h1] at h
    simp only [Prod.mk.injEq] at h
    obtain ⟨he, herr⟩ := h
    have hlen : (goodPrefix ((e0.st.F?).getD r0.length) (labels.zip (r0 :: rest))).length = (labels.zip (r0 :: rest)).length := by
      by_contra hne
      rw [if_neg hne] at herr
      cases herr
    have hgood := takeWhile_eq_self_of_length _ _ hlen
    unfold goodPrefix at hmc
    rw [hgood, hst, show (TreeSt.uninit).lclusM = 0 from rfl, zero_add] at hmc
    subst he
    exact ⟨rfl, hok', hlo', hmc⟩

theorem initialGroups_spec (hpol : ∀ cfg, (pol cfg).Valid) (D : Nat → Row) (Q : Clu → Prop) (hQ : QOK D Q)
    (c : Cfg) (hbf : 1 ≤ c.bf) (rows : List Row) (start : Nat)
    (hD : ∀ i (hi : i < rows.length), D (start + i) = rows[i])
    (groups : List (W × List Clu)) (h : initialGroups pol c rows start = .ok groups) :
    GroupsOK groups ∧
      idsOf (flat groups) = ((List.range' start rows.length : List Nat) : Multiset Nat) ∧
      ∀ g ∈ groups, ∀ u ∈ g.2, Q u := by
  unfold initialGroups at h
  split at h
  · cases h
  · rename_i e0 he0
    obtain ⟨hst0, _, hbf0⟩ := mkEst_ok he0
    split at h
    · cases h
    · rename_i e1 hfit
      obtain ⟨hc1, ok1, lo1, mc1⟩ := fit_fresh_ok (pol e0.cfg) (hpol _) e0 e1 hst0 (by rw [hbf0]; exact hbf) rows _ hfit
      -- labels and predicate on the tree after `fit`
      have hids1 : idsOf e1.st.lclusM = ((List.range' start rows.length : List Nat) : Multiset Nat) := by
        rw [mc1.ids, idsOf_ofRow, List.map_fst_zip (by simp)]
      have hq1 : ∀ u ∈ e1.st.lclusM, Q u := by
        apply MCT.q hQ (MC.toT mc1)
        intro u hu
        simp only [Multiset.mem_coe, List.mem_map] at hu
        obtain ⟨p, hp, rfl⟩ := hu
        obtain ⟨i, hi, rfl⟩ := mem_zip_range' _ _ p hp
        simp only
        rw [← hD i hi]
        exact hQ.row _
      split at h
      · cases h
      · rename_i e1' hdel
        obtain ⟨hc1', ok1', hl1'⟩ := delInternal_ok e1 e1' ok1 hdel
        have fin : ∀ groups, Extracted Q e1'.st.lclusM groups →
            GroupsOK groups ∧ idsOf (flat groups) = ((List.range' start rows.length : List Nat) : Multiset Nat) ∧
              ∀ g ∈ groups, ∀ u ∈ g.2, Q u := by
          intro groups hx
          exact ⟨hx.ok, by rw [hx.ids, hl1', hids1], hx.q (by rw [hl1']; exact hq1)⟩
        split at h
        · cases h
          exact fin _ (extracted_all Q e1' ok1')
        · exact fin _ (extracted_split D Q hQ e1'.st ok1' rows start hD groups h)
        · split at h
          · cases h
          · rename_i groups1 hg1
            have hx1 := extracted_split D Q hQ e1'.st ok1' rows start hD groups1 hg1
            split at h
            · cases h
            · rename_i e2 hsm
              obtain ⟨hst2, hbf2⟩ := setMerge_ok hsm
              split at h
              · cases h
              · rename_i e3 hrf
                have hst2' : e2.st = .uninit := by rw [hst2]; rfl
                obtain ⟨hc3, ok3, lo3, mc3⟩ := refitGroups_ok pol hpol groups1 e2 e3
                  (by rw [hbf2]; show 1 ≤ e1'.cfg.bf; rw [hc1', hc1, hbf0]; exact hbf)
                  (by rw [hst2']; trivial) (by rw [hst2']; rfl) hrf
                rw [hst2', show (TreeSt.uninit).lclusM = 0 from rfl, zero_add] at mc3
                split at h
                · cases h
                · rename_i e4 hdel4
                  obtain ⟨_, ok4, hl4⟩ := delInternal_ok e3 e4 ok3 hdel4
                  cases h
                  have hx4 := extracted_all Q e4 ok4
                  refine ⟨hx4.ok, ?_, hx4.q ?_⟩
                  · rw [hx4.ids, hl4, mc3.ids, idsOf_map_asUnit]
                    have := hx1.ids
                    rw [hl1', hids1] at this
                    exact this
                  · rw [hl4]
                    apply MCT.q hQ mc3
                    intro u hu
                    simp only [Multiset.mem_coe, List.mem_map, List.mem_flatMap] at hu
                    obtain ⟨u0, ⟨g, hg, hu0⟩, rfl⟩ := hu
                    exact hQ.unit _ (hx1.q (by rw [hl1']; exact hq1) g hg u0 hu0)

/-! ### later rounds: units read back from pairs of files -/

theorem fitPairs_spec (hpol : ∀ cfg, (pol cfg).Valid) (fs : FS) :
    ∀ (pairs : List (String × String)) (e e' : Est), 1 ≤ e.cfg.bf → e.st.OK → e.st.isLeavesOnly = false →
    fitPairs pol fs e pairs = .ok e' →
    ∃ uss : List (List Clu), List.Forall₂ (fun p us => pairUnits fs p = .ok us) pairs uss ∧
      e'.st.OK ∧ MCT (e.st.lclusM + ((uss.flatten : List Clu) : Multiset Clu)) e'.st.lclusM
  | [], e, e', _, hok, _, h => by
    simp only [fitPairs, Except.ok.injEq] at h
    subst h
    exact ⟨[], List.Forall₂.nil, hok, by simpa using MC.refl _⟩
  | p :: rest, e, e', hbf, hok, hlo, h => by
    unfold fitPairs at h
    split at h
    · cases h
    · rename_i us hus
      split at h
      · cases h
      · rename_i e1 hfb
        obtain ⟨c1, ok1, lo1, mc1⟩ := fitBuffers_ok (pol e.cfg) (hpol _) e e1 us hbf hok hlo hfb
        obtain ⟨uss, hall, ok', mc'⟩ := fitPairs_spec hpol fs rest e1 e' (by rw [c1]; exact hbf) ok1 lo1 h
        refine ⟨us :: uss, List.Forall₂.cons hus hall, ok', ?_⟩
        simp only [List.flatten_cons, ← Multiset.coe_add]
        rw [← add_assoc]
        exact ((MC.toT mc1).frame _).trans mc'

theorem mergedEst_spec (hpol : ∀ cfg, (pol cfg).Valid) (bf : Nat) (hbf : 1 ≤ bf) (thr : Rat) (crit : String)
    (tol : Rat) (fs : FS) (pairs : List (String × String)) (e2 : Est)
    (h : mergedEst pol bf thr crit tol fs pairs = .ok e2) :
    ∃ uss : List (List Clu), List.Forall₂ (fun p us => pairUnits fs p = .ok us) pairs uss ∧
      e2.st.OK ∧ MCT ((uss.flatten : List Clu) : Multiset Clu) e2.st.lclusM := by
  unfold mergedEst at h
  split at h
  · cases h
  · rename_i e0 he0
    obtain ⟨hst0, _, hbf0⟩ := mkEst_ok he0
    split at h
    · cases h
    · rename_i e1 hfp
      obtain ⟨uss, hall, ok1, mc1⟩ := fitPairs_spec pol hpol fs pairs e0 e1 (by rw [hbf0]; exact hbf)
        (by rw [hst0]; trivial) (by rw [hst0]; rfl) hfp
      rw [hst0, show (TreeSt.uninit).lclusM = 0 from rfl, zero_add] at mc1
      split at h
      · cases h
      · rename_i e2' hdel
        cases h
        obtain ⟨_, ok2, hl2⟩ := delInternal_ok e1 e2 ok1 hdel
        exact ⟨uss, hall, ok2, by rw [hl2]; exact mc1⟩

theorem mergingGroups_spec (hpol : ∀ cfg, (pol cfg).Valid) (D : Nat → Row) (Q : Clu → Prop) (hQ : QOK D Q)
    (c : Cfg) (hbf : 1 ≤ c.bf) (allRows : List Row) (hD : ∀ id r, allRows[id]? = some r → D id = r)
    (fs : FS) (pairs : List (String × String)) (groups : List (W × List Clu))
    (h : mergingGroups pol c allRows fs pairs = .ok groups) :
    ∃ uss : List (List Clu), List.Forall₂ (fun p us => pairUnits fs p = .ok us) pairs uss ∧
      Extracted Q ((uss.flatten : List Clu) : Multiset Clu) groups := by
  unfold mergingGroups at h
  split at h
  · cases h
  · rename_i e2 he2
    obtain ⟨uss, hall, ok2, mc2⟩ := mergedEst_spec pol hpol c.bf hbf _ _ _ fs pairs e2 he2
    refine ⟨uss, hall, ?_⟩
    have lift : ∀ groups, Extracted Q e2.st.lclusM groups → Extracted Q ((uss.flatten : List Clu) : Multiset Clu) groups :=
      fun groups hx => ⟨hx.ok, by rw [hx.ids, mc2.ids], fun hq => hx.q (MCT.q hQ mc2 hq)⟩
    split at h
    · exact lift _ (extracted_sorted D Q hQ e2.st ok2 allRows hD groups h)
    · cases h
      exact lift _ (extracted_all Q e2 ok2)

theorem finalClus_spec (hpol : ∀ cfg, (pol cfg).Valid) (D : Nat → Row) (Q : Clu → Prop) (hQ : QOK D Q)
    (c : Cfg) (hbf : 1 ≤ c.bf) (fs : FS) (pairs : List (String × String)) (cl : List Clu)
    (h : finalClus pol c fs pairs = .ok cl) :
    ∃ uss : List (List Clu), List.Forall₂ (fun p us => pairUnits fs p = .ok us) pairs uss ∧
      idsOf (cl : Multiset Clu) = idsOf ((uss.flatten : List Clu) : Multiset Clu) ∧
      ((∀ u ∈ uss.flatten, Q u) → ∀ u ∈ cl, Q u) := by
  unfold finalClus at h
  split at h
  · cases h
  · rename_i e2 he2
    cases h
    obtain ⟨uss, hall, ok2, mc2⟩ := mergedEst_spec pol hpol c.bf hbf _ _ _ fs pairs e2 he2
    refine ⟨uss, hall, by rw [sortedClus_coe e2.st ok2, mc2.ids], ?_⟩
    intro hq u hu
    have : u ∈ e2.st.lclusM := by rw [← sortedClus_coe e2.st ok2]; exact hu
    exact MCT.q hQ mc2 (fun c hc => hq c hc) u this

end BB.MR

/-! ## Multi-round workflow, the rounds: the directory after round `r` holds exactly the

(buffer file, index file) pairs written by the tasks of round `r`; the next round finds them
again (`prevPairs`), every buffer file paired with its own index file, and reads back exactly
the sub-clusters that were saved.
-/

namespace BB.MR
open BB

variable (pol : BB.Cfg → Policy)

/-! ### entries: one saved group -/

/-- one group saved by a task: label of the task, dtype of the group, its sub-clusters -/
structure Entry where
  L : String
  w : W
  cs : List Clu

def Entry.key (e : Entry) : String × W := (e.L, e.w)
def Entry.bn (r : Nat) (e : Entry) : String := bufName r e.L e.w
def Entry.ix (r : Nat) (e : Entry) : String := idxName r e.L e.w
def Entry.pair (r : Nat) (e : Entry) : String × String := (e.bn r, e.ix r)
def Entry.bufs (e : Entry) : Content := .bufs e.w (e.cs.map (fun c => (c.ls, c.n)))
def Entry.idxs (e : Entry) : Content := .idxs (e.cs.map (·.ids))
def Entry.writes (r : Nat) (e : Entry) : Writes := [(e.bn r, e.bufs), (e.ix r, e.idxs)]

def entriesOf (L : String) (gs : List (W × List Clu)) : List Entry := gs.map (fun g => ⟨L, g.1, g.2⟩)

theorem saveGroups_eq (r : Nat) (L : String) (gs : List (W × List Clu)) :
    saveGroups r L gs = (entriesOf L gs).flatMap (Entry.writes r) := by
  simp only [saveGroups, entriesOf, List.flatMap_map]
  rfl

theorem key_inj_of_bn {r : Nat} {e e' : Entry} (h : e.bn r = e'.bn r) : e.key = e'.key := by
  obtain ⟨_, h1, h2⟩ := bufName_inj h
  simp [Entry.key, h1, h2]

theorem key_inj_of_ix {r : Nat} {e e' : Entry} (h : e.ix r = e'.ix r) : e.key = e'.key := by
  obtain ⟨_, h1, h2⟩ := idxName_inj h
  simp [Entry.key, h1, h2]

/-- the names written for a list of entries with distinct keys are distinct -/
theorem writes_names_nodup (r : Nat) (es : List Entry) (hk : (es.map Entry.key).Nodup) :
    ((es.flatMap (Entry.writes r)).map (·.1)).Nodup := by
  induction es with
  | nil => simp
  | cons e es ih =>
    simp only [List.map_cons, List.nodup_cons] at hk
    simp only [List.flatMap_cons, List.map_append, Entry.writes, List.map_cons, List.map_nil]
    rw [List.nodup_append]
    refine ⟨?_, ih hk.2, ?_⟩
    · simp only [List.nodup_cons, List.mem_singleton, List.not_mem_nil, not_false_eq_true, List.nodup_nil, and_true]
      exact bufName_ne_idxName _ _ _ _ _ _
    · intro a ha b hb hab
      subst hab
      obtain ⟨x, hx, rfl⟩ := List.mem_map.mp hb
      obtain ⟨e', he', hx'⟩ := List.mem_flatMap.mp hx
      have hne : e.key ≠ e'.key := fun h => hk.1 (h ▸ List.mem_map_of_mem he')
      simp only [Entry.writes, List.mem_cons, List.not_mem_nil, or_false] at hx' ha
      rcases hx' with rfl | rfl <;> rcases ha with ha | ha
      · exact hne (key_inj_of_bn ha.symm)
      · exact bufName_ne_idxName _ _ _ _ _ _ ha
      · exact bufName_ne_idxName _ _ _ _ _ _ ha.symm
      · exact hne (key_inj_of_ix ha.symm)

/-! ### the directory after a round -/

/-- no file of `fs` matches the patterns of round `r` or later -/
def NoRoundFrom (r : Nat) (fs : FS) : Prop :=
  ∀ n, fs.read n ≠ none → ∀ r', r ≤ r' → matchB r' n = false ∧ matchI r' n = false

/-- the directory after round `r`: exactly the entries `es` are there as files of round `r` -/
structure DirInv (r : Nat) (fs : FS) (es : List Entry) : Prop where
  wf : fs.WF
  keys : (es.map Entry.key).Nodup
  lens : ∀ e ∈ es, ∀ e' ∈ es, e.L.length = e'.L.length
  rdB : ∀ e ∈ es, fs.read (e.bn r) = some e.bufs
  rdI : ∀ e ∈ es, fs.read (e.ix r) = some e.idxs
  onlyB : ∀ n, fs.read n ≠ none → matchB r n = true → ∃ e ∈ es, n = e.bn r
  onlyI : ∀ n, fs.read n ≠ none → matchI r n = true → ∃ e ∈ es, n = e.ix r
  fut : NoRoundFrom (r + 1) fs

theorem round_dir (r : Nat) (fs : FS) (hwf : fs.WF) (hno : NoRoundFrom r fs) (es : List Entry)
    (hk : (es.map Entry.key).Nodup) (hl : ∀ e ∈ es, ∀ e' ∈ es, e.L.length = e'.L.length) :
    DirInv r (writeAll fs (es.flatMap (Entry.writes r))) es := by
  have hnd := writes_names_nodup r es hk
  have hmem : ∀ w ∈ es.flatMap (Entry.writes r), ∃ e ∈ es, w = (e.bn r, e.bufs) ∨ w = (e.ix r, e.idxs) := by
    intro w hw
    obtain ⟨e, he, hw⟩ := List.mem_flatMap.mp hw
    simp only [Entry.writes, List.mem_cons, List.not_mem_nil, or_false] at hw
    exact ⟨e, he, hw⟩
  refine ⟨WF_writeAll _ hwf _, hk, hl, ?_, ?_, ?_, ?_, ?_⟩
  · intro e he
    exact read_writeAll_of_mem _ fs hnd (e.bn r, e.bufs) (List.mem_flatMap.mpr ⟨e, he, by simp [Entry.writes]⟩)
  · intro e he
    exact read_writeAll_of_mem _ fs hnd (e.ix r, e.idxs) (List.mem_flatMap.mpr ⟨e, he, by simp [Entry.writes]⟩)
  · intro n hn hm
    rcases read_writeAll_cases (es.flatMap (Entry.writes r)) fs n with h | ⟨w, hw, rfl, _⟩
    · rw [h] at hn
      rw [(hno n hn r (le_refl _)).1] at hm; cases hm
    · obtain ⟨e, he, rfl | rfl⟩ := hmem w hw
      · exact ⟨e, he, rfl⟩
      · simp only [Entry.ix, matchB_idxName] at hm; cases hm
  · intro n hn hm
    rcases read_writeAll_cases (es.flatMap (Entry.writes r)) fs n with h | ⟨w, hw, rfl, _⟩
    · rw [h] at hn
      rw [(hno n hn r (le_refl _)).2] at hm; cases hm
    · obtain ⟨e, he, rfl | rfl⟩ := hmem w hw
      · simp only [Entry.bn, matchI_bufName] at hm; cases hm
      · exact ⟨e, he, rfl⟩
  · intro n hn r' hr'
    rcases read_writeAll_cases (es.flatMap (Entry.writes r)) fs n with h | ⟨w, hw, rfl, _⟩
    · rw [h] at hn
      exact hno n hn r' (by omega)
    · obtain ⟨e, he, rfl | rfl⟩ := hmem w hw
      · refine ⟨?_, matchI_bufName _ _ _ _⟩
        rw [← Bool.not_eq_true, Entry.bn, matchB_bufName]; omega
      · refine ⟨matchB_idxName _ _ _ _, ?_⟩
        rw [← Bool.not_eq_true, Entry.ix, matchI_idxName]; omega

/-! ### finding the pairs again -/

theorem keys_inj {es : List Entry} (hk : (es.map Entry.key).Nodup) :
    ∀ e ∈ es, ∀ e' ∈ es, e.key = e'.key → e = e' :=
  fun e he e' he' h => List.inj_on_of_nodup_map hk he he' h

/-- both sorted listings enumerate the entries in the same order -/
theorem pairing (r : Nat) (es : List Entry) (hl : ∀ e ∈ es, ∀ e' ∈ es, e.L.length = e'.L.length) :
    ∃ qs : List Entry, qs.Perm es ∧
      (es.map (Entry.bn r)).mergeSort (· ≤ ·) = qs.map (Entry.bn r) ∧
      (es.map (Entry.ix r)).mergeSort (· ≤ ·) = qs.map (Entry.ix r) := by
  refine ⟨es.mergeSort (fun a b => decide (a.bn r ≤ b.bn r)), List.mergeSort_perm _ _, ?_, ?_⟩
  · exact (List.map_mergeSort (r := fun a b => decide (a.bn r ≤ b.bn r)) (s := fun a b => decide (a ≤ b))
      (f := Entry.bn r) (l := es) (fun a _ b _ => rfl)).symm
  · refine (List.map_mergeSort (r := fun a b => decide (a.bn r ≤ b.bn r)) (s := fun a b => decide (a ≤ b))
      (f := Entry.ix r) (l := es) (fun a ha b hb => ?_)).symm
    simp only [Entry.bn, Entry.ix]
    exact decide_eq_decide.mpr (bufName_le_iff_idxName_le r a.L b.L a.w b.w (hl a ha b hb))

theorem prevPairs_of_dirInv {r : Nat} {fs : FS} {es : List Entry} (h : DirInv r fs es) :
    ∃ qs : List Entry, qs.Perm es ∧ prevPairs fs (r + 1) = qs.map (Entry.pair r) := by
  obtain ⟨qs, hp, hB, hI⟩ := pairing r es h.lens
  refine ⟨qs, hp, ?_⟩
  have hes : es.Nodup := List.Nodup.of_map _ h.keys
  have gB : (fs.glob (bufPrefix r) ".npy").Perm (es.map (Entry.bn r)) := by
    rw [List.perm_ext_iff_of_nodup (globB_nodup h.wf _)
      (hes.map_on (fun a ha b hb hab => keys_inj h.keys a ha b hb (key_inj_of_bn hab)))]
    intro n
    rw [mem_glob]
    constructor
    · rintro ⟨h1, h2⟩
      obtain ⟨e, he, rfl⟩ := h.onlyB n h1 h2
      exact List.mem_map_of_mem he
    · intro hn
      obtain ⟨e, he, rfl⟩ := List.mem_map.mp hn
      exact ⟨by rw [h.rdB e he]; simp, (matchB_bufName r r e.L e.w).mpr rfl⟩
  have gI : (fs.glob (idxPrefix r) ".pkl").Perm (es.map (Entry.ix r)) := by
    rw [List.perm_ext_iff_of_nodup (globI_nodup h.wf _)
      (hes.map_on (fun a ha b hb hab => keys_inj h.keys a ha b hb (key_inj_of_ix hab)))]
    intro n
    rw [mem_glob]
    constructor
    · rintro ⟨h1, h2⟩
      obtain ⟨e, he, rfl⟩ := h.onlyI n h1 h2
      exact List.mem_map_of_mem he
    · intro hn
      obtain ⟨e, he, rfl⟩ := List.mem_map.mp hn
      exact ⟨by rw [h.rdI e he]; simp, (matchI_idxName r r e.L e.w).mpr rfl⟩
  unfold prevPairs
  rw [Nat.add_sub_cancel, mergeSort_names_perm gB, mergeSort_names_perm gI, hB, hI, List.zip_map']
  rfl

/-! ### reading the pairs back -/

theorem mapM_cons_ok {α β : Type} (f : α → Except Err β) (a : α) (l : List α) (ys : List β)
    (h : (a :: l).mapM f = .ok ys) : ∃ y ys', f a = .ok y ∧ l.mapM f = .ok ys' ∧ ys = y :: ys' := by
  rw [List.mapM_cons] at h
  cases h1 : f a with
  | error e => rw [h1] at h; simp [bind, Except.bind] at h
  | ok y =>
    cases h2 : l.mapM f with
    | error e => rw [h1, h2] at h; simp [bind, Except.bind] at h
    | ok ys' =>
      rw [h1, h2] at h
      simp only [bind, Except.bind, pure, Except.pure, Except.ok.injEq] at h
      exact ⟨y, ys', rfl, rfl, h.symm⟩

theorem unitsOf_saved (w : W) : ∀ (cs : List Clu) (us : List Clu),
    unitsOf (.bufs w (cs.map (fun c => (c.ls, c.n)))) (.idxs (cs.map (·.ids))) = .ok us →
    us = cs.map (fun c => Clu.ofBuffer w c.ls c.n c.ids)
  | [], us, h => by
    simp only [unitsOf, List.map_nil, List.zip_nil_left, List.mapM_nil, pure, Except.pure, Except.ok.injEq] at h
    rw [← h]; rfl
  | c :: cs, us, h => by
    simp only [unitsOf, List.map_cons, List.zip_cons_cons] at h
    obtain ⟨y, ys', h1, h2, rfl⟩ := mapM_cons_ok _ _ _ _ h
    have ih := unitsOf_saved w cs ys' (by simpa [unitsOf] using h2)
    simp only at h1
    split at h1
    · cases h1
      rw [ih]; rfl
    · cases h1

theorem pairUnits_entry {r : Nat} {fs : FS} {es : List Entry} (h : DirInv r fs es)
    (hw : ∀ e ∈ es, ∀ c ∈ e.cs, c.w = e.w) (e : Entry) (he : e ∈ es) (us : List Clu)
    (hu : pairUnits fs (e.pair r) = .ok us) : us = e.cs.map Clu.asUnit := by
  simp only [pairUnits, Entry.pair, h.rdB e he, h.rdI e he] at hu
  rw [unitsOf_saved e.w e.cs us hu]
  apply List.map_congr_left
  intro c hc
  rw [Clu.asUnit, hw e he c hc]

/-- the labels read back from a pair (nothing if the pair cannot be read) -/
def pairIds (fs : FS) (p : String × String) : Multiset Nat :=
  match pairUnits fs p with
  | .ok us => idsOf (us : Multiset Clu)
  | .error _ => 0

theorem readback_ids (fs : FS) {pairs : List (String × String)} {uss : List (List Clu)}
    (h : List.Forall₂ (fun p us => pairUnits fs p = .ok us) pairs uss) :
    idsOf ((uss.flatten : List Clu) : Multiset Clu) = (pairs.map (pairIds fs)).sum := by
  induction h with
  | nil => simp
  | cons h1 _ ih =>
    simp only [List.flatten_cons, ← Multiset.coe_add, idsOf_add, List.map_cons, List.sum_cons, ih, pairIds, h1]

theorem readback_mem (fs : FS) {pairs : List (String × String)} {uss : List (List Clu)}
    (h : List.Forall₂ (fun p us => pairUnits fs p = .ok us) pairs uss) :
    ∀ u ∈ uss.flatten, ∃ p ∈ pairs, ∃ us, pairUnits fs p = .ok us ∧ u ∈ us := by
  induction h with
  | nil => simp
  | cons h1 _ ih =>
    intro u hu
    rw [List.flatten_cons] at hu
    rcases List.mem_append.mp hu with hu | hu
    · exact ⟨_, by simp, _, h1, hu⟩
    · obtain ⟨p, hp, us, h2, h3⟩ := ih u hu
      exact ⟨p, List.mem_cons_of_mem _ hp, us, h2, h3⟩

theorem readback_all (fs : FS) {pairs : List (String × String)} {uss : List (List Clu)}
    (h : List.Forall₂ (fun p us => pairUnits fs p = .ok us) pairs uss) :
    ∀ p ∈ pairs, ∃ us, pairUnits fs p = .ok us := by
  induction h with
  | nil => simp
  | cons h1 _ ih =>
    intro p hp
    rcases List.mem_cons.mp hp with rfl | hp
    · exact ⟨_, h1⟩
    · exact ih p hp

/-- what the saved entries say: dtype keys are right, `Q` holds, the labels are `0 .. N-1` -/
structure EsOK (Q : Clu → Prop) (N : Nat) (es : List Entry) : Prop where
  keyed : ∀ e ∈ es, ∀ c ∈ e.cs, c.w = e.w
  q : ∀ e ∈ es, ∀ c ∈ e.cs, Q c
  ids : idsOf ((es.flatMap (·.cs) : List Clu) : Multiset Clu) = ((List.range N : List Nat) : Multiset Nat)

theorem idsOf_flatMap_cs (es : List Entry) :
    idsOf ((es.flatMap (·.cs) : List Clu) : Multiset Clu) = (es.map (fun e => idsOf (e.cs : Multiset Clu))).sum := by
  induction es with
  | nil => simp
  | cons e es ih => simp only [List.flatMap_cons, ← Multiset.coe_add, idsOf_add, ih, List.map_cons, List.sum_cons]

/-- all pairs of the previous round, read back, carry exactly the saved labels -/
theorem prevPairs_ids {r : Nat} {fs : FS} {es : List Entry} (h : DirInv r fs es)
    (hw : ∀ e ∈ es, ∀ c ∈ e.cs, c.w = e.w)
    (hall : ∀ p ∈ prevPairs fs (r + 1), ∃ us, pairUnits fs p = .ok us) :
    ((prevPairs fs (r + 1)).map (pairIds fs)).sum = idsOf ((es.flatMap (·.cs) : List Clu) : Multiset Clu) := by
  obtain ⟨qs, hp, hq⟩ := prevPairs_of_dirInv h
  rw [idsOf_flatMap_cs, hq, List.map_map, ← (hp.map _).sum_eq]
  congr 1
  apply List.map_congr_left
  intro e he
  have hes := hp.mem_iff.mp he
  obtain ⟨us, hus⟩ := hall (e.pair r) (by rw [hq]; exact List.mem_map_of_mem he)
  simp only [Function.comp, pairIds, hus]
  rw [pairUnits_entry h hw e hes us hus, idsOf_map_asUnit]

/-- every unit read back from a pair of the previous round is a saved sub-cluster, re-wrapped -/
theorem prevPairs_q {D : Nat → Row} {Q : Clu → Prop} (hQ : QOK D Q) {N r : Nat} {fs : FS} {es : List Entry}
    (h : DirInv r fs es) (hes : EsOK Q N es) {p : String × String} (hp : p ∈ prevPairs fs (r + 1))
    {us : List Clu} (hus : pairUnits fs p = .ok us) : ∀ u ∈ us, Q u := by
  obtain ⟨qs, hperm, hq⟩ := prevPairs_of_dirInv h
  rw [hq] at hp
  obtain ⟨e, he, rfl⟩ := List.mem_map.mp hp
  have he' := hperm.mem_iff.mp he
  rw [pairUnits_entry h hes.keyed e he' us hus]
  intro u hu
  obtain ⟨c, hc, rfl⟩ := List.mem_map.mp hu
  exact hQ.unit c (hes.q e he' c hc)

/-! ### a round of labelled tasks -/

/-- the entries saved by tasks `ys` (position-labelled items with their groups) -/
def esOf {α : Type} (z : Nat) (ys : List ((α × Nat) × List (W × List Clu))) : List Entry :=
  ys.flatMap (fun y => entriesOf (zfill z y.1.2) y.2)

theorem esOf_cs {α : Type} (z : Nat) (ys : List ((α × Nat) × List (W × List Clu))) :
    idsOf (((esOf z ys).flatMap (·.cs) : List Clu) : Multiset Clu) = (ys.map (fun y => idsOf (flat y.2))).sum := by
  induction ys with
  | nil => simp [esOf]
  | cons y ys ih =>
    simp only [esOf, List.flatMap_cons, List.flatMap_append, ← Multiset.coe_add, idsOf_add, List.map_cons,
      List.sum_cons] at ih ⊢
    rw [ih]
    congr 1
    simp only [entriesOf, List.flatMap_map, flat]

theorem mem_esOf {α : Type} {z : Nat} {ys : List ((α × Nat) × List (W × List Clu))} {e : Entry}
    (he : e ∈ esOf z ys) : ∃ y ∈ ys, ∃ g ∈ y.2, e = ⟨zfill z y.1.2, g.1, g.2⟩ := by
  obtain ⟨y, hy, he⟩ := List.mem_flatMap.mp he
  obtain ⟨g, hg, rfl⟩ := List.mem_map.mp he
  exact ⟨y, hy, g, hg, rfl⟩

theorem esOf_keys {α : Type} (z : Nat) (ys : List ((α × Nat) × List (W × List Clu)))
    (hx : ys.Pairwise (fun a b => a.1.2 ≠ b.1.2)) (hg : ∀ y ∈ ys, GroupsOK y.2) :
    ((esOf z ys).map Entry.key).Nodup := by
  induction ys with
  | nil => simp [esOf]
  | cons y ys ih =>
    rw [List.pairwise_cons] at hx
    simp only [esOf, List.flatMap_cons, List.map_append] at ih ⊢
    rw [List.nodup_append]
    refine ⟨?_, ih hx.2 (fun y' hy' => hg y' (List.mem_cons_of_mem _ hy')), ?_⟩
    · have : (entriesOf (zfill z y.1.2) y.2).map Entry.key = y.2.map (fun g => (zfill z y.1.2, g.1)) := by
        simp [entriesOf, Entry.key, List.map_map, Function.comp_def]
      rw [this]
      have hnd := (hg y (by simp)).nodup
      have e2 : y.2.map (fun g => (zfill z y.1.2, g.1)) = (y.2.map (·.1)).map (fun w => (zfill z y.1.2, w)) := by
        rw [List.map_map]; rfl
      rw [e2]
      exact hnd.map (fun a b h => by simpa using h)
    · intro a ha b hb hab
      subst hab
      obtain ⟨e, he, rfl⟩ := List.mem_map.mp ha
      obtain ⟨e', he', hk⟩ := List.mem_map.mp hb
      obtain ⟨g, _, rfl⟩ := List.mem_map.mp he
      obtain ⟨y', hy', g', _, rfl⟩ := mem_esOf (z := z) he'
      simp only [Entry.key, Prod.mk.injEq] at hk
      exact hx.1 y' hy' (zfill_inj hk.1).symm

theorem esOf_lens {α : Type} (z : Nat) (hz : 0 < z) (ys : List ((α × Nat) × List (W × List Clu)))
    (hlt : ∀ y ∈ ys, y.1.2 < 10 ^ z) : ∀ e ∈ esOf z ys, ∀ e' ∈ esOf z ys, e.L.length = e'.L.length := by
  intro e he e' he'
  obtain ⟨y, hy, g, _, rfl⟩ := mem_esOf he
  obtain ⟨y', hy', g', _, rfl⟩ := mem_esOf he'
  simp only
  rw [zfill_length z _ hz (hlt y hy), zfill_length z _ hz (hlt y' hy')]

/-- a successful round of tasks labelled by position: what they computed and what is on disk -/
theorem labelled_round {α : Type} (z : Nat) (hz : 0 < z) (r : Nat)
    (G : α × Nat → Except Err (List (W × List Clu)))
    (hG : ∀ x gs, G x = .ok gs → GroupsOK gs) :
    ∀ (xs : List (α × Nat)) (fs fs' : FS),
    execRound fs (xs.map (fun x => (G x).map (saveGroups r (zfill z x.2)))) = .ok fs' →
    ∃ ys : List ((α × Nat) × List (W × List Clu)), ys.map (·.1) = xs ∧ (∀ y ∈ ys, G y.1 = .ok y.2) ∧
      fs' = writeAll fs ((esOf z ys).flatMap (Entry.writes r))
  | [], fs, fs', h => by
    simp only [List.map_nil, execRound_nil, Except.ok.injEq] at h
    exact ⟨[], rfl, by simp, by rw [← h]; rfl⟩
  | x :: xs, fs, fs', h => by
    rw [List.map_cons] at h
    cases hx : G x with
    | error e => rw [hx] at h; simp [Except.map, execRound_cons_error] at h
    | ok gs =>
      rw [hx] at h
      simp only [Except.map] at h
      rw [execRound_cons_ok] at h
      obtain ⟨ys, h1, h2, h3⟩ := labelled_round z hz r G hG xs _ fs' h
      refine ⟨(x, gs) :: ys, by simp [h1], ?_, ?_⟩
      · intro y hy
        rcases List.mem_cons.mp hy with rfl | hy
        · exact hx
        · exact h2 y hy
      · rw [h3]
        simp only [esOf, List.flatMap_cons, List.flatMap_append, writeAll_append, saveGroups_eq]

theorem labelled_round_dir {α : Type} (z : Nat) (hz : 0 < z) (r : Nat)
    (G : α × Nat → Except Err (List (W × List Clu)))
    (hG : ∀ x gs, G x = .ok gs → GroupsOK gs)
    (xs : List (α × Nat)) (hx : xs.Pairwise (fun a b => a.2 ≠ b.2)) (hlt : ∀ x ∈ xs, x.2 < 10 ^ z)
    (fs fs' : FS) (hwf : fs.WF) (hno : NoRoundFrom r fs)
    (h : execRound fs (xs.map (fun x => (G x).map (saveGroups r (zfill z x.2)))) = .ok fs') :
    ∃ ys : List ((α × Nat) × List (W × List Clu)), ys.map (·.1) = xs ∧ (∀ y ∈ ys, G y.1 = .ok y.2) ∧
      DirInv r fs' (esOf z ys) := by
  obtain ⟨ys, h1, h2, h3⟩ := labelled_round z hz r G hG xs fs fs' h
  refine ⟨ys, h1, h2, ?_⟩
  rw [h3]
  apply round_dir r fs hwf hno
  · apply esOf_keys
    · have : (ys.map (·.1)).Pairwise (fun a b => a.2 ≠ b.2) := by rw [h1]; exact hx
      exact (List.pairwise_map (f := fun (y : (α × Nat) × List (W × List Clu)) => y.1)
        (R := fun a b => a.2 ≠ b.2)).mp this
    · intro y hy; exact hG _ _ (h2 y hy)
  · apply esOf_lens z hz
    intro y hy
    apply hlt
    rw [← h1]
    exact List.mem_map_of_mem hy

end BB.MR

/-! ## Multi-round workflow, end to end: round 1 labels the rows of the input files with the

global indices, every later round conserves the labels, the final round writes the clusters.
-/

namespace BB.MR
open BB

variable (pol : BB.Cfg → Policy)

/-! ### global indices of the input files -/

/-- start index of every file, the first one starting at `a` -/
def startsFrom : Nat → List (List Row) → List Nat
  | _, [] => []
  | a, f :: fs => a :: startsFrom (a + f.length) fs

theorem foldl_starts (files : List (List Row)) (pre : List Nat) (a : Nat) :
    (files.foldl (fun (acc : List Nat × Nat) f => (acc.1 ++ [acc.2], acc.2 + f.length)) (pre, a)).1
      = pre ++ startsFrom a files := by
  induction files generalizing pre a with
  | nil => simp [startsFrom]
  | cons f fs ih => rw [List.foldl_cons, ih]; simp [startsFrom]

theorem startsFrom_length (a : Nat) (files : List (List Row)) : (startsFrom a files).length = files.length := by
  induction files generalizing a with
  | nil => rfl
  | cons f fs ih => simp [startsFrom, ih]

theorem starts_ranges (a : Nat) (files : List (List Row)) :
    ((files.zip (startsFrom a files)).map (fun p => ((List.range' p.2 p.1.length : List Nat) : Multiset Nat))).sum
      = ((List.range' a (files.map List.length).sum : List Nat) : Multiset Nat) := by
  induction files generalizing a with
  | nil => simp [startsFrom]
  | cons f fs ih =>
    simp only [startsFrom, List.zip_cons_cons, List.map_cons, List.sum_cons, ih]
    rw [Multiset.coe_add, List.range'_append_1]

theorem starts_data (files : List (List Row)) : ∀ (pre : List Row), ∀ p ∈ files.zip (startsFrom pre.length files),
    ∀ i (hi : i < p.1.length), (pre ++ files.flatten)[p.2 + i]? = some p.1[i] := by
  induction files with
  | nil => intro pre p hp; simp [startsFrom] at hp
  | cons f fs ih =>
    intro pre p hp i hi
    simp only [startsFrom, List.zip_cons_cons, List.mem_cons] at hp
    rcases hp with rfl | hp
    · simp only [List.flatten_cons]
      rw [List.getElem?_append_right (by omega), Nat.add_sub_cancel_left, List.getElem?_append_left hi]
      simp
    · have := ih (pre ++ f) p (by simpa using hp) i hi
      simpa using this

/-- the rows, by global index -/
def dataOf (files : List (List Row)) : Nat → Row := fun i => files.flatten.getD i []

theorem dataOf_get (files : List (List Row)) (id : Nat) (r : Row) (h : files.flatten[id]? = some r) :
    dataOf files id = r := by
  simp [dataOf, List.getD_eq_getElem?_getD, h]

theorem fileStarts_eq (files : List (List Row)) :
    (files.foldl (fun (acc : List Nat × Nat) f => (acc.1 ++ [acc.2], acc.2 + f.length)) ([], 0)).1
      = startsFrom 0 files := by
  rw [foldl_starts]; simp

/-! ### sizes of labels -/

theorem lt_pow_repr_length (n : Nat) : n < 10 ^ (toString n).length := by
  have : (toString n).length = n.repr.length := rfl
  rw [this]
  exact (Nat.length_repr_le_iff Nat.length_repr_pos).mp (le_refl _)

theorem repr_length_pos (n : Nat) : 0 < (toString n).length := Nat.length_repr_pos

theorem chunk_length_le {α : Type} (k : Nat) (hk : 0 < k) (l : List α) :
    (chunk k l).length ≤ (l.length + k - 1) / k := by
  rw [Nat.le_div_iff_mul_le hk]
  have key : (chunk k l).length * k < l.length + k := by
    fun_induction chunk k l with
    | case1 => simpa using hk
    | case2 x xs hk0 => omega
    | case3 x xs hk0 ih =>
      simp only [List.length_cons, List.length_drop] at ih ⊢
      rw [Nat.add_mul, Nat.one_mul]
      by_cases hle : xs.length + 1 ≤ k
      · have : xs.length + 1 - k = 0 := by omega
        rw [this] at ih
        have h0 : (chunk k (List.drop k (x :: xs))).length = 0 := by
          by_contra hne
          have : 1 * k ≤ (chunk k (List.drop k (x :: xs))).length * k := Nat.mul_le_mul_right k (by omega)
          omega
        rw [h0]; omega
      · omega
  omega

theorem chunk_index_lt {α : Type} (k : Nat) (l : List α) (i : Nat) (hi : i < (chunk k l).length) :
    i < 10 ^ (toString ((l.length + k - 1) / k)).length := by
  rcases Nat.eq_zero_or_pos k with rfl | hk
  · have : (chunk 0 l).length ≤ 1 := by
      cases l with
      | nil => simp [chunk]
      | cons x xs => simp [chunk]
    have h1 : 1 ≤ 10 ^ (toString ((l.length + 0 - 1) / 0)).length := Nat.one_le_pow _ _ (by omega)
    omega
  · have := chunk_length_le k hk l
    have := lt_pow_repr_length ((l.length + k - 1) / k)
    omega

theorem sum_map_sum_flatten {α : Type} (f : α → Multiset Nat) (L : List (List α)) :
    (L.map (fun l => (l.map f).sum)).sum = (L.flatten.map f).sum := by
  induction L with
  | nil => rfl
  | cons l L ih => simp [ih]

/-! ### round 1 -/

theorem initialGroups_groupsOK (hpol : ∀ cfg, (pol cfg).Valid) (c : Cfg) (hbf : 1 ≤ c.bf) (rows : List Row)
    (start : Nat) (gs : List (W × List Clu)) (h : initialGroups pol c rows start = .ok gs) : GroupsOK gs :=
  (initialGroups_spec pol hpol (fun i => rows.getD (i - start) []) (fun _ => True) (qok_true _) c hbf rows start
    (by intro i hi; simp [List.getD_eq_getElem?_getD, hi]) gs h).1

theorem mergingGroups_groupsOK (hpol : ∀ cfg, (pol cfg).Valid) (c : Cfg) (hbf : 1 ≤ c.bf) (allRows : List Row)
    (fs : FS) (pairs : List (String × String)) (gs : List (W × List Clu))
    (h : mergingGroups pol c allRows fs pairs = .ok gs) : GroupsOK gs := by
  obtain ⟨_, _, hx⟩ := mergingGroups_spec pol hpol (fun i => allRows.getD i []) (fun _ => True) (qok_true _) c hbf
    allRows (by intro id r hr; simp [List.getD_eq_getElem?_getD, hr]) fs pairs gs h
  exact hx.ok

theorem purge_noRound (fs0 : FS) : NoRoundFrom 1 (purge fs0) := by
  intro n hn r' _
  have hnot : (isRoundFile n || isFinalFile n) = false := by
    cases hp : (isRoundFile n || isFinalFile n) with
    | false => rfl
    | true => rw [purge, read_remove, hp] at hn; simp at hn
  have hr : isRoundFile n = false := by
    cases hr : isRoundFile n with
    | false => rfl
    | true => simp [hr] at hnot
  constructor
  · cases hm : matchB r' n with
    | false => rfl
    | true => rw [isRoundFile_of_matchB hm] at hr; cases hr
  · cases hm : matchI r' n with
    | false => rfl
    | true => rw [isRoundFile_of_matchI hm] at hr; cases hr

section
variable (hpol : ∀ cfg, (pol cfg).Valid) (D : Nat → Row) (Q : Clu → Prop) (hQ : QOK D Q)
include hpol hQ

theorem round1_step (c : Cfg) (hbf : 1 ≤ c.bf) (files : List (List Row)) (hD : D = dataOf files)
    (fs fs' : FS) (hwf : fs.WF) (hno : NoRoundFrom 1 fs)
    (h : execRound fs (initTasks pol c files) = .ok fs') :
    ∃ es, DirInv 1 fs' es ∧ EsOK Q (files.map List.length).sum es := by
  rw [initTasks_eq, fileStarts_eq] at h
  set z := (toString files.length).length with hz
  have hlen : (files.zip (startsFrom 0 files)).length = files.length := by
    simp [startsFrom_length]
  obtain ⟨ys, h1, h2, hdir⟩ := labelled_round_dir z (repr_length_pos _) 1
    (fun x : (List Row × Nat) × Nat => initialGroups pol c x.1.1 x.1.2)
    (fun x gs hx => initialGroups_groupsOK pol hpol c hbf _ _ gs hx)
    ((files.zip (startsFrom 0 files)).zipIdx) (pairwise_zipIdx_ne _)
    (by
      intro x hx
      obtain ⟨a, i⟩ := x
      have := (List.mem_zipIdx' hx).1
      have h10 : files.length < 10 ^ z := lt_pow_repr_length files.length
      simp only
      omega)
    fs fs' hwf hno h
  -- every task, by the specification of `initialGroups`
  have hspec : ∀ y ∈ ys, GroupsOK y.2 ∧
      idsOf (flat y.2) = ((List.range' y.1.1.2 y.1.1.1.length : List Nat) : Multiset Nat) ∧
      ∀ g ∈ y.2, ∀ u ∈ g.2, Q u := by
    intro y hy
    have hmem : y.1.1 ∈ files.zip (startsFrom 0 files) := by
      have : y.1 ∈ (files.zip (startsFrom 0 files)).zipIdx := by rw [← h1]; exact List.mem_map_of_mem hy
      have := List.mem_map_of_mem (f := Prod.fst) this
      rwa [List.zipIdx_map_fst] at this
    apply initialGroups_spec pol hpol D Q hQ c hbf y.1.1.1 y.1.1.2 _ y.2 (h2 y hy)
    intro i hi
    have := starts_data files [] y.1.1 (by simpa using hmem) i hi
    rw [hD]
    exact dataOf_get files _ _ (by simpa using this)
  refine ⟨esOf z ys, hdir, ?_, ?_, ?_⟩
  · intro e he c hc
    obtain ⟨y, hy, g, hg, rfl⟩ := mem_esOf he
    exact (hspec y hy).1.keyed g hg c hc
  · intro e he c hc
    obtain ⟨y, hy, g, hg, rfl⟩ := mem_esOf he
    exact (hspec y hy).2.2 g hg c hc
  · rw [esOf_cs]
    have e1 : ys.map (fun y => idsOf (flat y.2))
        = ys.map (fun y => ((List.range' y.1.1.2 y.1.1.1.length : List Nat) : Multiset Nat)) :=
      List.map_congr_left (fun y hy => (hspec y hy).2.1)
    have e2 : ys.map (fun y => ((List.range' y.1.1.2 y.1.1.1.length : List Nat) : Multiset Nat))
        = (files.zip (startsFrom 0 files)).map (fun p => ((List.range' p.2 p.1.length : List Nat) : Multiset Nat)) := by
      have : ys.map (fun y => y.1.1) = files.zip (startsFrom 0 files) := by
        rw [← List.zipIdx_map_fst 0 (files.zip (startsFrom 0 files)), ← h1, List.map_map]; rfl
      rw [← this, List.map_map]; rfl
    rw [e1, e2, starts_ranges, List.range_eq_range']

/-! ### a midsection round -/

theorem mid_step (c : Cfg) (hbf : 1 ≤ c.bf) (allRows : List Row) (hD : ∀ id r, allRows[id]? = some r → D id = r)
    (N r : Nat) (fs fs' : FS) (es : List Entry) (hdir : DirInv r fs es) (hes : EsOK Q N es)
    (h : execRound fs (midTasks pol c allRows (r + 1) fs) = .ok fs') :
    ∃ es', DirInv (r + 1) fs' es' ∧ EsOK Q N es' := by
  rw [midTasks_eq] at h
  set pairs := prevPairs fs (r + 1) with hpairs
  set z := (toString ((pairs.length + c.binSize - 1) / c.binSize)).length with hz
  obtain ⟨ys, h1, h2, hdir'⟩ := labelled_round_dir z (repr_length_pos _) (r + 1)
    (fun x : List (String × String) × Nat => mergingGroups pol c allRows fs (sortBatch x.1))
    (fun x gs hx => mergingGroups_groupsOK pol hpol c hbf allRows fs _ gs hx)
    ((chunk c.binSize pairs).zipIdx) (pairwise_zipIdx_ne _)
    (by
      intro x hx
      obtain ⟨a, i⟩ := x
      exact chunk_index_lt c.binSize pairs i (List.mem_zipIdx' hx).1)
    fs fs' hdir.wf hdir.fut h
  have hchunks : ys.map (fun y => y.1.1) = chunk c.binSize pairs := by
    rw [← List.zipIdx_map_fst 0 (chunk c.binSize pairs), ← h1, List.map_map]; rfl
  have hsub : ∀ y ∈ ys, ∀ p ∈ sortBatch y.1.1, p ∈ pairs := by
    intro y hy p hp
    have : y.1.1 ∈ chunk c.binSize pairs := by rw [← hchunks]; exact List.mem_map_of_mem (f := fun y => y.1.1) hy
    exact chunk_mem this ((sortBatch_perm _).mem_iff.mp hp)
  -- every task, by the specification of `mergingGroups`
  have hspec : ∀ y ∈ ys, ∃ uss : List (List Clu),
      List.Forall₂ (fun p us => pairUnits fs p = .ok us) (sortBatch y.1.1) uss ∧
      Extracted Q ((uss.flatten : List Clu) : Multiset Clu) y.2 :=
    fun y hy => mergingGroups_spec pol hpol D Q hQ c hbf allRows hD fs _ y.2 (h2 y hy)
  have hall : ∀ p ∈ pairs, ∃ us, pairUnits fs p = .ok us := by
    intro p hp
    rw [← chunk_flatten c.binSize pairs, ← hchunks] at hp
    obtain ⟨ch, hch, hpch⟩ := List.mem_flatten.mp hp
    obtain ⟨y, hy, rfl⟩ := List.mem_map.mp hch
    obtain ⟨uss, hf, _⟩ := hspec y hy
    exact readback_all fs hf p ((sortBatch_perm _).mem_iff.mpr hpch)
  have hq : ∀ y ∈ ys, ∀ uss : List (List Clu),
      List.Forall₂ (fun p us => pairUnits fs p = .ok us) (sortBatch y.1.1) uss → ∀ u ∈ uss.flatten, Q u := by
    intro y hy uss hf u hu
    obtain ⟨p, hp, us, hus, huu⟩ := readback_mem fs hf u hu
    exact prevPairs_q hQ hdir hes (hsub y hy p hp) hus u huu
  refine ⟨esOf z ys, hdir', ?_, ?_, ?_⟩
  · intro e he c hc
    obtain ⟨y, hy, g, hg, rfl⟩ := mem_esOf he
    obtain ⟨uss, _, hx⟩ := hspec y hy
    exact hx.ok.keyed g hg c hc
  · intro e he c hc
    obtain ⟨y, hy, g, hg, rfl⟩ := mem_esOf he
    obtain ⟨uss, hf, hx⟩ := hspec y hy
    exact hx.q (fun u hu => hq y hy uss hf u hu) g hg c hc
  · rw [esOf_cs]
    have e1 : ys.map (fun y => idsOf (flat y.2)) = ys.map (fun y => (y.1.1.map (pairIds fs)).sum) := by
      apply List.map_congr_left
      intro y hy
      obtain ⟨uss, hf, hx⟩ := hspec y hy
      rw [hx.ids, readback_ids fs hf]
      exact ((sortBatch_perm y.1.1).map _).sum_eq
    have e2 : ys.map (fun y => (y.1.1.map (pairIds fs)).sum)
        = (chunk c.binSize pairs).map (fun ch => (ch.map (pairIds fs)).sum) := by
      rw [← hchunks, List.map_map]; rfl
    rw [e1, e2, sum_map_sum_flatten, chunk_flatten, prevPairs_ids hdir hes.keyed hall]
    exact hes.ids

theorem midRounds_inv (c : Cfg) (hbf : 1 ≤ c.bf) (allRows : List Row)
    (hD : ∀ id r, allRows[id]? = some r → D id = r) (sched : Nat → List Nat → List Nat) (N : Nat) :
    ∀ (k r : Nat) (fs fs' : FS) (es : List Entry), DirInv r fs es → EsOK Q N es →
      midRounds pol c allRows sched k (r + 1) fs = .ok fs' →
      ∃ es', DirInv (r + k) fs' es' ∧ EsOK Q N es'
  | 0, r, fs, fs', es, hdir, hes, h => by
    simp only [midRounds, Except.ok.injEq] at h
    subst h
    exact ⟨es, hdir, hes⟩
  | k+1, r, fs, fs', es, hdir, hes, h => by
    rw [midRounds_succ] at h
    obtain ⟨fs1, h1, h2⟩ := bind_eq_ok h
    have h1' := runTasks_ok fs fs1 _ (midTasks_disjoint pol c allRows (r + 1) fs) _ (orderOf_perm sched (r + 1) _) h1
    obtain ⟨es1, hdir1, hes1⟩ := mid_step pol hpol D Q hQ c hbf allRows hD N r fs fs1 es hdir hes h1'
    obtain ⟨es', hdir', hes'⟩ := midRounds_inv c hbf allRows hD sched N k (r + 1) fs1 fs' es1 hdir1 hes1 h2
    exact ⟨es', by rw [show r + (k + 1) = r + 1 + k by omega]; exact hdir', hes'⟩

/-! ### the whole run -/

/-- the final sub-clusters of a successful run: saved as reported, labels `0 .. N-1`, `Q` -/
theorem multiround_result (c : Cfg) (hbf : 1 ≤ c.bf) (files : List (List Row)) (hD : D = dataOf files)
    (sched : Nat → List Nat → List Nat) (fs0 fs : FS)
    (h : multiround pol c files sched fs0 = .ok fs) :
    ∃ cl : List Clu, fs.read "clusters.pkl" = some (.clusters (cl.map (·.ids))) ∧
      (c.saveCentroids = true → fs.read "cluster-centroids-packed.pkl" = some (.centroids (cl.map (·.cent)))) ∧
      idsOf (cl : Multiset Clu) = ((List.range (files.map List.length).sum : List Nat) : Multiset Nat) ∧
      ∀ u ∈ cl, Q u := by
  rw [multiround_eq] at h
  obtain ⟨fs1, h1, h⟩ := bind_eq_ok h
  obtain ⟨fs2, h2, h⟩ := bind_eq_ok h
  obtain ⟨ws, h3, h⟩ := bind_eq_ok h
  have hDall : ∀ id r, files.flatten[id]? = some r → D id = r := by
    intro id r hr; rw [hD]; exact dataOf_get files id r hr
  -- round 1
  have h1' := runTasks_ok _ fs1 _ (initTasks_disjoint pol c files) _ (orderOf_perm sched 1 _) h1
  obtain ⟨es1, hdir1, hes1⟩ := round1_step pol hpol D Q hQ c hbf files hD (purge fs0) fs1
    (WF_purge fs0) (purge_noRound fs0) h1'
  -- midsection
  obtain ⟨es2, hdir2, hes2⟩ := midRounds_inv pol hpol D Q hQ c hbf files.flatten hDall sched _
    c.nMidRounds 1 fs1 fs2 es1 hdir1 hes1 h2
  -- final round
  obtain ⟨cl, hcl, hws⟩ := except_map_eq_ok h3
  rw [show c.nMidRounds + 2 = (1 + c.nMidRounds) + 1 by omega] at hcl
  obtain ⟨uss, hf, hids, hq⟩ := finalClus_spec pol hpol D Q hQ c hbf fs2 _ cl hcl
  have hall := readback_all fs2 hf
  refine ⟨cl, ?_, ?_, ?_, ?_⟩
  · -- the cluster file
    have hr : (writeAll fs2 ws).read "clusters.pkl" = some (.clusters (cl.map (·.ids))) := by
      rw [hws, finalWrites, writeAll_append, writeAll_cons, writeAll_nil, read_write, if_pos rfl]
    simp only [pure, Except.pure, Except.ok.injEq] at h
    subst h
    split
    · rw [read_remove, isRoundFile_clusters]; exact hr
    · exact hr
  · intro hc
    have hr : (writeAll fs2 ws).read "cluster-centroids-packed.pkl" = some (.centroids (cl.map (·.cent))) := by
      rw [hws, finalWrites, hc, if_pos rfl, writeAll_append, writeAll_cons, writeAll_nil, writeAll_cons, writeAll_nil,
        read_write,
        if_neg (show ¬ "cluster-centroids-packed.pkl" = "clusters.pkl" from by decide), read_write, if_pos rfl]
    simp only [pure, Except.pure, Except.ok.injEq] at h
    subst h
    split
    · rw [read_remove, isRoundFile_centroids]; exact hr
    · exact hr
  · rw [hids, readback_ids fs2 hf, prevPairs_ids hdir2 hes2.keyed hall, hes2.ids]
  · apply hq
    intro u hu
    obtain ⟨p, hp, us, hus, huu⟩ := readback_mem fs2 hf u hu
    exact prevPairs_q hQ hdir2 hes2 hp hus u huu

/-- the directory handed to the final round holds exactly the groups saved by the last
intermediate round; without `cleanup` these files are still there at the end -/
theorem multiround_handover (c : Cfg) (hbf : 1 ≤ c.bf) (files : List (List Row)) (hD : D = dataOf files)
    (sched : Nat → List Nat → List Nat) (fs0 fs : FS)
    (h : multiround pol c files sched fs0 = .ok fs) :
    ∃ (fs2 : FS) (es : List Entry), DirInv (1 + c.nMidRounds) fs2 es ∧ EsOK Q (files.map List.length).sum es ∧
      (c.cleanup = false → ∀ n, isRoundFile n = true → fs.read n = fs2.read n) := by
  rw [multiround_eq] at h
  obtain ⟨fs1, h1, h⟩ := bind_eq_ok h
  obtain ⟨fs2, h2, h⟩ := bind_eq_ok h
  obtain ⟨ws, h3, h⟩ := bind_eq_ok h
  have hDall : ∀ id r, files.flatten[id]? = some r → D id = r := by
    intro id r hr; rw [hD]; exact dataOf_get files id r hr
  have h1' := runTasks_ok _ fs1 _ (initTasks_disjoint pol c files) _ (orderOf_perm sched 1 _) h1
  obtain ⟨es1, hdir1, hes1⟩ := round1_step pol hpol D Q hQ c hbf files hD (purge fs0) fs1
    (WF_purge fs0) (purge_noRound fs0) h1'
  obtain ⟨es2, hdir2, hes2⟩ := midRounds_inv pol hpol D Q hQ c hbf files.flatten hDall sched _
    c.nMidRounds 1 fs1 fs2 es1 hdir1 hes1 h2
  refine ⟨fs2, es2, hdir2, hes2, ?_⟩
  intro hc n hn
  obtain ⟨cl, _, hws⟩ := except_map_eq_ok h3
  simp only [pure, Except.pure, Except.ok.injEq, hc, Bool.false_eq_true, ↓reduceIte] at h
  subst h
  apply read_writeAll_of_not_mem
  intro hmem
  obtain ⟨x, hx, rfl⟩ := List.mem_map.mp hmem
  have hown := finalWrites_owned c cl x (hws ▸ hx)
  simp only [owned, hn, Bool.true_or] at hown
  have hfin : isFinalFile x.1 = true := by
    rw [hws] at hx
    simp only [finalWrites, List.mem_append, List.mem_singleton] at hx
    rcases hx with hx | rfl
    · split at hx
      · simp only [List.mem_singleton] at hx; subst hx; simp [isFinalFile]
      · simp at hx
    · simp [isFinalFile]
  rw [isRoundFile_of_isFinalFile hfin] at hn
  cases hn

end

end BB.MR

/-! ## Multi-round workflow, the trace of directory states: `multiroundTrace` computes the result of

`multiround`, its last state is that result, and the cluster file `clusters.pkl` appears only
with the very last write.
-/

namespace BB.MR
open BB

variable (pol : BB.Cfg → Policy)

/-- the cluster file is absent -/
def NoCF (fs : FS) : Prop := fs.read "clusters.pkl" = none

theorem writeTrace_noCF (ws : Writes) : ∀ (fs : FS), NoCF fs → (∀ x ∈ ws, x.1 ≠ "clusters.pkl") →
    (∀ s ∈ writeTrace fs ws, NoCF s) ∧ NoCF (writeAll fs ws) := by
  induction ws with
  | nil => intro fs h _; exact ⟨by simp [writeTrace], h⟩
  | cons w ws ih =>
    intro fs h hw
    have h1 : NoCF (fs.write w.1 w.2) := by
      unfold NoCF at h ⊢
      rw [read_write, if_neg (Ne.symm (hw w (by simp))), h]
    obtain ⟨a, b⟩ := ih _ h1 (fun x hx => hw x (List.mem_cons_of_mem _ hx))
    refine ⟨?_, b⟩
    intro s hs
    simp only [writeTrace, List.mem_cons] at hs
    rcases hs with rfl | hs
    · exact h1
    · exact a s hs

theorem writeTrace_getLast (ws : Writes) (hne : ws ≠ []) : ∀ (fs : FS),
    (writeTrace fs ws).getLast? = some (writeAll fs ws) := by
  induction ws with
  | nil => exact absurd rfl hne
  | cons w ws ih =>
    intro fs
    cases ws with
    | nil => simp [writeTrace, writeAll]
    | cons v vs =>
      have := ih (by simp) (fs.write w.1 w.2)
      rw [writeTrace, writeAll_cons, List.getLast?_cons_of_ne_nil (by simp [writeTrace]), this]

theorem round_ne_clusters {n : String} (h : isRoundFile n = true) : n ≠ "clusters.pkl" := by
  rintro rfl
  rw [isRoundFile_clusters] at h; cases h

theorem execRoundT_snd (ts : List (Except Err Writes)) : ∀ fs : FS, (execRoundT fs ts).2 = execRound fs ts := by
  induction ts with
  | nil => intro fs; rfl
  | cons t ts ih =>
    intro fs
    cases t with
    | error e => rw [execRound_cons_error]; rfl
    | ok ws => rw [execRound_cons_ok, ← ih]; rfl

theorem execRoundT_noCF (ts : List (Except Err Writes))
    (ht : ∀ t ∈ ts, ∀ w, t = .ok w → ∀ x ∈ w, isRoundFile x.1 = true) : ∀ fs : FS, NoCF fs →
    (∀ s ∈ (execRoundT fs ts).1, NoCF s) ∧ ∀ fs', (execRoundT fs ts).2 = .ok fs' → NoCF fs' := by
  induction ts with
  | nil =>
    intro fs h
    refine ⟨by simp [execRoundT], ?_⟩
    intro fs' h'
    simp only [execRoundT, Except.ok.injEq] at h'
    rw [← h']; exact h
  | cons t ts ih =>
    intro fs h
    cases t with
    | error e => exact ⟨by simp [execRoundT], by intro fs' h'; simp [execRoundT] at h'⟩
    | ok ws =>
      obtain ⟨a, b⟩ := writeTrace_noCF ws fs h
        (fun x hx => round_ne_clusters (ht (.ok ws) (by simp) ws rfl x hx))
      obtain ⟨c, d⟩ := ih (fun t' ht' => ht t' (List.mem_cons_of_mem _ ht')) _ b
      refine ⟨?_, d⟩
      intro s hs
      simp only [execRoundT, List.mem_append] at hs
      rcases hs with hs | hs
      · exact a s hs
      · exact c s hs

theorem getD_tasks_round (tasks : List (Except Err Writes)) (order : List Nat)
    (ht : ∀ t ∈ tasks, ∀ w, t = .ok w → ∀ x ∈ w, isRoundFile x.1 = true) :
    ∀ t ∈ order.map (fun i => tasks.getD i (.error .value)), ∀ w, t = .ok w → ∀ x ∈ w, isRoundFile x.1 = true := by
  intro t hmem w hw
  obtain ⟨i, _, rfl⟩ := List.mem_map.mp hmem
  rw [List.getD_eq_getElem?_getD] at hw
  cases hg : tasks[i]? with
  | none => rw [hg] at hw; simp at hw
  | some t' =>
    rw [hg] at hw
    simp only [Option.getD_some] at hw
    exact ht t' (List.mem_of_getElem? hg) w hw

theorem runTasksT_snd (fs : FS) (tasks : List (Except Err Writes)) (order : List Nat) :
    (runTasksT fs tasks order).2 = runTasks fs tasks order := execRoundT_snd _ _

theorem midRoundsT_spec (c : Cfg) (allRows : List Row) (sched : Nat → List Nat → List Nat) :
    ∀ (k r : Nat) (fs : FS), (midRoundsT pol c allRows sched k r fs).2 = midRounds pol c allRows sched k r fs ∧
      (NoCF fs → (∀ s ∈ (midRoundsT pol c allRows sched k r fs).1, NoCF s) ∧
        ∀ fs', (midRoundsT pol c allRows sched k r fs).2 = .ok fs' → NoCF fs')
  | 0, r, fs => by
    refine ⟨rfl, fun h => ⟨by simp [midRoundsT], ?_⟩⟩
    intro fs' h'
    simp only [midRoundsT, Except.ok.injEq] at h'
    rw [← h']; exact h
  | k+1, r, fs => by
    have hs := runTasksT_snd fs (midTasks pol c allRows r fs) (orderOf sched r (midTasks pol c allRows r fs).length)
    have hn := execRoundT_noCF _ (getD_tasks_round (midTasks pol c allRows r fs)
      (orderOf sched r (midTasks pol c allRows r fs).length) (midTasks_round pol c allRows r fs)) fs
    rw [midRounds_succ, ← hs]
    unfold midRoundsT
    simp only
    unfold runTasksT at hs ⊢
    generalize execRoundT fs (List.map (fun i => (midTasks pol c allRows r fs).getD i (Except.error Err.value))
      (orderOf sched r (midTasks pol c allRows r fs).length)) = res at hn ⊢
    obtain ⟨tr, x⟩ := res
    cases x with
    | error e =>
      refine ⟨rfl, fun h => ⟨(hn h).1, ?_⟩⟩
      intro fs' h'; simp at h'
    | ok fs1 =>
      obtain ⟨i1, i2⟩ := midRoundsT_spec c allRows sched k (r + 1) fs1
      refine ⟨i1, fun h => ?_⟩
      obtain ⟨a, b⟩ := hn h
      obtain ⟨c', d⟩ := i2 (b fs1 rfl)
      refine ⟨?_, d⟩
      intro s hs
      simp only [List.mem_append] at hs
      rcases hs with hs | hs
      · exact a s hs
      · exact c' s hs

theorem purge_noCF (fs0 : FS) : NoCF (purge fs0) := by
  unfold NoCF purge
  rw [read_remove]
  simp [isFinalFile]

/-- the trace computes the run -/
theorem multiroundTrace_snd (c : Cfg) (files : List (List Row)) (sched : Nat → List Nat → List Nat) (fs0 : FS) :
    (multiroundTrace pol c files sched fs0).2 = multiround pol c files sched fs0 := by
  rw [multiround_eq]
  unfold multiroundTrace
  simp only
  rw [← runTasksT_snd]
  generalize runTasksT (purge fs0) (initTasks pol c files) (orderOf sched 1 (initTasks pol c files).length) = res
  obtain ⟨t1, x⟩ := res
  cases x with
  | error e => rfl
  | ok fs1 =>
    simp only [bind, Except.bind]
    rw [← (midRoundsT_spec pol c files.flatten sched c.nMidRounds 2 fs1).1]
    generalize midRoundsT pol c files.flatten sched c.nMidRounds 2 fs1 = res2
    obtain ⟨t2, y⟩ := res2
    cases y with
    | error e => rfl
    | ok fs2 =>
      simp only
      cases finalTask pol c fs2 (prevPairs fs2 (c.nMidRounds + 2)) with
      | error e => rfl
      | ok ws =>
        simp only [pure, Except.pure]
        split <;> rfl

/-- the cluster file is absent from every state of the trace but the last one(s), which are
reached only by the very last write of a successful run (followed by the cleanup, if any) -/
theorem multiroundTrace_commit (c : Cfg) (files : List (List Row)) (sched : Nat → List Nat → List Nat) (fs0 : FS) :
    (∀ e, (multiroundTrace pol c files sched fs0).2 = .error e →
        ∀ s ∈ (multiroundTrace pol c files sched fs0).1, NoCF s) ∧
    (∀ fs, (multiroundTrace pol c files sched fs0).2 = .ok fs →
        ∃ pre post, (multiroundTrace pol c files sched fs0).1 = pre ++ post ∧ (∀ s ∈ pre, NoCF s) ∧
          post.getLast? = some fs ∧ 1 ≤ post.length ∧ post.length ≤ 2 ∧
          ∃ cl, ∀ s ∈ post, s.read "clusters.pkl" = some (.clusters cl)) := by
  have h0 := purge_noCF fs0
  have hn1 := execRoundT_noCF _ (getD_tasks_round (initTasks pol c files)
      (orderOf sched 1 (initTasks pol c files).length) (initTasks_round pol c files)) (purge fs0) h0
  unfold multiroundTrace
  simp only
  unfold runTasksT
  generalize execRoundT (purge fs0) (List.map (fun i => (initTasks pol c files).getD i (Except.error Err.value))
      (orderOf sched 1 (initTasks pol c files).length)) = res at hn1 ⊢
  obtain ⟨t1, x⟩ := res
  have hpre1 : ∀ s ∈ purge fs0 :: t1, NoCF s := by
    intro s hs
    rcases List.mem_cons.mp hs with rfl | hs
    · exact h0
    · exact hn1.1 s hs
  cases x with
  | error e =>
    exact ⟨fun _ _ => hpre1, by intro fs h; simp at h⟩
  | ok fs1 =>
    simp only
    have hn2 := (midRoundsT_spec pol c files.flatten sched c.nMidRounds 2 fs1).2 (hn1.2 fs1 rfl)
    generalize midRoundsT pol c files.flatten sched c.nMidRounds 2 fs1 = res2 at hn2 ⊢
    obtain ⟨t2, y⟩ := res2
    have hpre2 : ∀ s ∈ purge fs0 :: t1 ++ t2, NoCF s := by
      intro s hs
      rcases List.mem_append.mp hs with hs | hs
      · exact hpre1 s hs
      · exact hn2.1 s hs
    cases y with
    | error e =>
      exact ⟨fun _ _ => hpre2, by intro fs h; simp at h⟩
    | ok fs2 =>
      simp only
      have hfs2 : NoCF fs2 := hn2.2 fs2 rfl
      cases hft : finalTask pol c fs2 (prevPairs fs2 (c.nMidRounds + 2)) with
      | error e => exact ⟨fun _ _ => hpre2, by intro fs h; simp at h⟩
      | ok ws =>
        simp only
        obtain ⟨cl, _, hws⟩ := except_map_eq_ok hft
        -- the final writes: everything before the cluster file, then the cluster file
        set w0 : Writes := if c.saveCentroids then
          [("cluster-centroids-packed.pkl", Content.centroids (cl.map (·.cent)))] else [] with hw0
        have hws' : ws = w0 ++ [("clusters.pkl", Content.clusters (cl.map (·.ids)))] := by rw [hws]; rfl
        have hw0ne : ∀ x ∈ w0, x.1 ≠ "clusters.pkl" := by
          intro x hx
          rw [hw0] at hx
          split at hx
          · simp only [List.mem_singleton] at hx; subst hx
            exact (show ("cluster-centroids-packed.pkl" : String) ≠ "clusters.pkl" by decide)
          · simp at hx
        obtain ⟨hn3, hn3'⟩ := writeTrace_noCF w0 fs2 hfs2 hw0ne
        have htr : writeTrace fs2 ws = writeTrace fs2 w0 ++ [writeAll fs2 ws] := by
          rw [hws']
          have key : ∀ (a : Writes) (fs : FS) (x : String × Content),
              writeTrace fs (a ++ [x]) = writeTrace fs a ++ [writeAll fs (a ++ [x])] := by
            intro a
            induction a with
            | nil => intro fs x; rfl
            | cons y a ih => intro fs x; simp only [List.cons_append, writeTrace, ih, writeAll_cons]
          exact key _ _ _
        have hcf : (writeAll fs2 ws).read "clusters.pkl" = some (.clusters (cl.map (·.ids))) := by
          rw [hws', writeAll_append, writeAll_cons, writeAll_nil, read_write, if_pos rfl]
        have hpre3 : ∀ s ∈ purge fs0 :: t1 ++ t2 ++ writeTrace fs2 w0, NoCF s := by
          intro s hs
          rcases List.mem_append.mp hs with hs | hs
          · exact hpre2 s hs
          · exact hn3 s hs
        split
        · refine ⟨by intro e h; simp at h, ?_⟩
          intro fs h
          simp only [Except.ok.injEq] at h
          subst h
          refine ⟨purge fs0 :: t1 ++ t2 ++ writeTrace fs2 w0,
            [writeAll fs2 ws, (writeAll fs2 ws).remove isRoundFile], ?_, hpre3, by simp, by simp, by simp,
            cl.map (·.ids), ?_⟩
          · rw [htr]; simp
          · intro s hs
            simp only [List.mem_cons, List.not_mem_nil, or_false] at hs
            rcases hs with rfl | rfl
            · exact hcf
            · rw [read_remove, isRoundFile_clusters]; exact hcf
        · refine ⟨by intro e h; simp at h, ?_⟩
          intro fs h
          simp only [Except.ok.injEq] at h
          subst h
          refine ⟨purge fs0 :: t1 ++ t2 ++ writeTrace fs2 w0, [writeAll fs2 ws], ?_, hpre3, by simp, by simp,
            by simp, cl.map (·.ids), ?_⟩
          · rw [htr]; simp
          · intro s hs
            simp only [List.mem_singleton] at hs
            subst hs
            exact hcf

end BB.MR

/-! ## small facts used by the property files -/

namespace BB.MR
open BB

theorem flatten_ids_coe (l : List Clu) :
    (((l.map (·.ids)).flatten : List Nat) : Multiset Nat) = idsOf (l : Multiset Clu) := by
  induction l with
  | nil => rfl
  | cons a l ih =>
    rw [List.map_cons, List.flatten_cons, ← Multiset.coe_add, ih, ← Multiset.cons_coe, ← Multiset.singleton_add,
      idsOf_add, idsOf_singleton]

/-- a run that succeeds on the empty directory succeeds on every directory -/
theorem multiround_ok_of_fresh (pol : BB.Cfg → Policy) (c : Cfg) (files : List (List Row))
    (sched : Nat → List Nat → List Nat) (fs0 : FS)
    (fs' : FS) (h : multiround pol c files sched [] = .ok fs') :
    ∃ fs, multiround pol c files sched fs0 = .ok fs := by
  -- the run on `[]` is the run on `purge fs0` restricted to owned names; replay it the other way round
  rw [multiround_eq] at h
  obtain ⟨b1, hb1, h⟩ := bind_eq_ok h
  obtain ⟨b2, hb2, h⟩ := bind_eq_ok h
  obtain ⟨ws, hb3, _⟩ := bind_eq_ok h
  -- round 1 on `purge fs0`
  obtain ⟨wss, e1, e2⟩ := (execRound_ok_iff _ _ _).mp hb1
  have ha1 : runTasks (purge fs0) (initTasks pol c files) (orderOf sched 1 (initTasks pol c files).length)
      = .ok (writeAll (purge fs0) wss.flatten) := (execRound_ok_iff _ _ _).mpr ⟨wss, e1, rfl⟩
  obtain ⟨b1', hb1', s1⟩ := runTasks_sim (purge_sim fs0) _ _ (initTasks_round pol c files) ha1
  have hb1eq : b1' = b1 := by
    have : runTasks (purge ([] : FS)) (initTasks pol c files) (orderOf sched 1 (initTasks pol c files).length)
        = .ok b1' := hb1'
    rw [hb1] at this
    exact (Except.ok.inj this).symm
  subst hb1eq
  -- midsection rounds: by induction, replaying the empty-side run on the other side
  have mid : ∀ (k r : Nat) (a b b' : FS), Sim fs0 a b → midRounds pol c files.flatten sched k r b = .ok b' →
      ∃ a', midRounds pol c files.flatten sched k r a = .ok a' ∧ Sim fs0 a' b' := by
    intro k
    induction k with
    | zero =>
      intro r a b b' hs hm
      simp only [midRounds, Except.ok.injEq] at hm
      subst hm
      exact ⟨a, rfl, hs⟩
    | succ k ih =>
      intro r a b b' hs hm
      rw [midRounds_succ] at hm
      obtain ⟨b1, hr1, hm2⟩ := bind_eq_ok hm
      rw [← midTasks_congr pol a b hs.wfa hs.wfb hs.round c files.flatten r] at hr1
      obtain ⟨wss, e1, e2⟩ := (execRound_ok_iff _ _ _).mp hr1
      have hra : runTasks a (midTasks pol c files.flatten r a) (orderOf sched r (midTasks pol c files.flatten r a).length)
          = .ok (writeAll a wss.flatten) := (execRound_ok_iff _ _ _).mpr ⟨wss, e1, rfl⟩
      obtain ⟨b1', hb1', s1⟩ := runTasks_sim hs _ _ (midTasks_round pol c files.flatten r a) hra
      have : b1' = b1 := by rw [hr1] at hb1'; exact (Except.ok.inj hb1').symm
      subst this
      obtain ⟨a', ha', s'⟩ := ih (r + 1) _ _ b' s1 hm2
      exact ⟨a', by rw [midRounds_succ, hra]; exact ha', s'⟩
  obtain ⟨a2, ha2, s2⟩ := mid c.nMidRounds 2 _ _ b2 s1 hb2
  have ha3 : finalTask pol c a2 (prevPairs a2 (c.nMidRounds + 2)) = .ok ws := by
    rw [finalTask_congr pol a2 b2 s2.wfa s2.wfb s2.round]; exact hb3
  refine ⟨if c.cleanup then (writeAll a2 ws).remove isRoundFile else writeAll a2 ws, ?_⟩
  rw [multiround_eq, ha1]
  simp only [bind, Except.bind, ha2, ha3, pure, Except.pure]

/-- a configuration like the defaults of `run_multiround_bitbirch` (for non-vacuity examples) -/
def exampleCfg : Cfg where
  bf := 50
  thr := 13/20
  thrChange := 0
  tol := 1/20
  initCrit := "diameter"
  midCrit := "diameter"
  finalCrit := "diameter"
  mode := .full
  splitAfterMid := false
  binSize := 10
  nMidRounds := 1
  saveCentroids := true
  cleanup := true

end BB.MR
