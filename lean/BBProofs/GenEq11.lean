/-
GenEq11 — `parse_num_per_batch` (nested in `cli._fps_from_smiles`), as translated on this run, is the model's
`numPerBatch`.  The code computes `math.ceil(smiles_num / parts)` through a float division; `ceil_truediv` shows that for
counts below 2^53 this is the exact ceiling of the quotient (the rounding error of the quotient, at most 2^-53 of it, is
smaller than the distance 1/b of a non-integral quotient a/b from the integer below).
-/
import BBProofs.GenEq
import BBProofs.Fl
import BBProofs.FileSeq
import Mathlib.Algebra.Order.Floor.Ring
import Mathlib.Tactic.Linarith
import Mathlib.Tactic.Positivity

namespace BB
open PV BB.Files

theorem ceilDiv_bounds (a b : Nat) (hb : 0 < b) :
    a ≤ ceilDiv a b * b ∧ (ceilDiv a b : Int) * b < a + b := by
  unfold ceilDiv
  constructor
  · have h1 := Nat.div_add_mod (a + b - 1) b
    have h2 := Nat.mod_lt (a + b - 1) hb
    have : b * ((a + b - 1) / b) = (a + b - 1) / b * b := Nat.mul_comm _ _
    omega
  · have h1 := Nat.div_mul_le_self (a + b - 1) b
    have : ((a + b - 1) / b * b : Nat) < a + b := by omega
    exact_mod_cast this

/-- float division then `math.ceil` = the exact ceiling, for a numerator below 2^53 -/
theorem ceil_rnd_div (a b : Nat) (hb : 0 < b) (ha : a < 2 ^ 53) :
    -((-(rnd ((a : Rat) / (b : Rat)))).floor) = (ceilDiv a b : Int) := by
  obtain ⟨h1, h2⟩ := ceilDiv_bounds a b hb
  set c := ceilDiv a b with hc
  have hbq : (0 : Rat) < b := by exact_mod_cast hb
  have hcle : c ≤ a ∨ a = 0 := by
    by_cases h0 : a = 0
    · right; exact h0
    · left
      have : (c : Int) * b < a + b := h2
      have hb1 : (1 : Int) ≤ b := by exact_mod_cast hb
      by_contra hcon
      have hca : (a : Int) + 1 ≤ c := by
        have : a < c := Nat.lt_of_not_le hcon
        exact_mod_cast this
      nlinarith
  have hc53 : c < 2 ^ 53 := by
    rcases hcle with h | h
    · omega
    · subst h
      have : c = 0 := by simpa [hc] using ceilDiv_zero b
      omega
  -- x ≤ c and (c - 1) + 1/b ≤ x
  have hx_le : (a : Rat) / b ≤ c := by
    rw [div_le_iff₀ hbq]; exact_mod_cast h1
  have hx_ge : (c : Rat) - 1 + 1 / b ≤ (a : Rat) / b := by
    rw [le_div_iff₀ hbq]
    have : (c : Int) * b + 1 ≤ a + b := h2
    have hq : (c : Rat) * b + 1 ≤ a + b := by exact_mod_cast this
    have : ((c : Rat) - 1 + 1 / b) * b = c * b - b + 1 := by field_simp
    rw [this]; linarith
  have hx0 : (0 : Rat) ≤ (a : Rat) / b := by positivity
  -- upper: rnd x ≤ rnd c = c
  have hup : rnd ((a : Rat) / b) ≤ c := by
    have := rnd_mono hx_le
    rwa [rnd_natCast_of_lt c hc53] at this
  -- lower: rnd x > c - 1
  have herr := rnd_relErr ((a : Rat) / b)
  rw [abs_of_nonneg hx0] at herr
  have hsmall : (2 : Rat) ^ (-53 : Int) * ((a : Rat) / b) < 1 / b := by
    rw [show (2 : Rat) ^ (-53 : Int) * ((a : Rat) / b) = ((2 : Rat) ^ (-53 : Int) * a) / b by ring]
    apply div_lt_div_of_pos_right _ hbq
    have : (a : Rat) < 2 ^ 53 := by exact_mod_cast ha
    have h2p : (2 : Rat) ^ (-53 : Int) = 1 / 2 ^ 53 := by
      rw [zpow_neg, one_div]; norm_num
    rw [h2p]
    rw [div_mul_eq_mul_div, one_mul, div_lt_one (by positivity)]
    exact this
  have hlow : (c : Rat) - 1 < rnd ((a : Rat) / b) := by
    have := (abs_le.mp herr).1
    linarith
  -- conclude through the characterisation of the ceiling
  have : Int.ceil (rnd ((a : Rat) / b)) = (c : Int) := by
    rw [Int.ceil_eq_iff]
    constructor
    · exact_mod_cast hlow
    · exact_mod_cast hup
  have hf : (-rnd ((a : Rat) / b)).floor = ⌊-rnd ((a : Rat) / b)⌋ := rfl
  rw [hf, Int.floor_neg, neg_neg, this]

/-- an optional count as a Python value -/
def onat : Option Nat → PV
  | some n => PV.int n
  | none => PV.pynone

theorem ceil_truediv (a b : Nat) (hb : 0 < b) (ha : a < 2 ^ 53) :
    PV.ceilF (PV.truediv (PV.int a) (PV.int b)) = PV.int (ceilDiv a b) := by
  have hb0 : ¬ ((b : Int) = 0) := by omega
  simp only [PV.truediv, PV.toNum, hb0, if_false, PV.ceilF]
  have := ceil_rnd_div a b hb ha
  simp only [Int.cast_natCast]
  rw [this]

theorem lenStr_nat (n : Nat) : PV.lenStr (PV.int n) = PV.int (toString n).length := rfl

/-- `parse_num_per_batch` of the code = `numPerBatch` of the model, for fewer than 2^53 SMILES and positive options
(`parts = 0` / `max_fps_per_file = 0` make the code raise `ZeroDivisionError`; the command line rejects them before) -/
theorem gen_num_per_batch (expf : Rat → Rat) (total : Nat) (parts maxPer : Option Nat) (ht : total < 2 ^ 53)
    (hp : ∀ p, parts = some p → 0 < p) (hm : ∀ m, maxPer = some m → 0 < m) :
    BBGen.parse_num_per_batch expf (PV.int total) (onat parts) (onat maxPer)
      = match numPerBatch total parts maxPer with
        | none => [PV.err "ValueError"]
        | some (p, per, dg) => [PV.int p, PV.int per, onat dg] := by
  unfold BBGen.parse_num_per_batch numPerBatch
  cases parts with
  | some p =>
    cases maxPer with
    | some m => simp [onat, PV.isNone]
    | none =>
      have := ceil_truediv total p (hp p rfl) ht
      simp [onat, PV.isNone, this, lenStr_nat]
  | none =>
    cases maxPer with
    | some m =>
      have := ceil_truediv total m (hm m rfl) ht
      simp [onat, PV.isNone, this, lenStr_nat]
    | none =>
      have := ceil_truediv total 1 (by omega) ht
      simp [onat, PV.isNone]
      simpa using this

end BB
