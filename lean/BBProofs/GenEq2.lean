/-
GenEq2 — the translated `_BFSubcluster` methods (`bblean/bitbirch.py`: `n_samples`, `linear_sum`,
`replace_n_samples_and_linear_sum`, `add_to_n_samples_and_linear_sum`, `update`, `merge_subcluster`)
compute the model's `Clu.update` / `Clu.merge` / `Clu.mergedSummary`.

A sub-cluster object is its four `__slots__`: `_buffer` (the sums followed by the count, one unsigned
array in the cluster's counter width), `packed_centroid`, `child`, `mol_indices`.  `stateOf c child` is
that tuple for a model cluster `c`.
-/
import BBProofs.GenEq
import BBProofs.Exact
import BBModel.Tree

namespace BB
open PV

/-- `_buffer`: per-bit sums followed by the count, in the counter width -/
def bufOf (c : Clu) : PV := PV.arr c.w (c.ls ++ [c.n])
/-- the four slots of the `_BFSubcluster` object that holds `c` -/
def stateOf (c : Clu) (child : PV) : List PV :=
  [bufOf c, PV.arr .u8 (pack c.cent), child, PV.arr .big c.ids]

theorem gen_n_samples (expf : Rat → Rat) (c : Clu) (a b d : PV) :
    BBGen._BFSubcluster_n_samples expf (bufOf c) a b d = PV.int c.n := by
  simp [BBGen._BFSubcluster_n_samples, bufOf, PV.itemLast]

theorem gen_linear_sum (expf : Rat → Rat) (c : Clu) (a b d : PV) :
    BBGen._BFSubcluster_linear_sum expf (bufOf c) a b d = PV.arr c.w c.ls := by
  simp [BBGen._BFSubcluster_linear_sum, bufOf, PV.sliceInit]

theorem gen_msu (expf : Rat → Rat) (n : Nat) (h : n < 2 ^ 64) :
    BBGen.min_safe_uint expf (PV.int n) = PV.dtype (some (minSafe n)) := by
  rw [gen_min_safe_uint, minSafe?_eq_some n h]

/-- a cluster the tree holds: sums bounded by the count, the count fits its counter -/
structure CluOk (c : Clu) : Prop where
  le : ∀ k ∈ c.ls, k ≤ c.n
  fits : c.n < 2 ^ c.w.bits

/-- `replace_n_samples_and_linear_sum(n, ls)`: buffer re-cast to the narrowest width for `n`, sums and count
stored, centroid recomputed from the given sums -/
theorem gen_replace (expf : Rat → Rat) (c : Clu) (cent child ids : PV) (n : Nat) (w' : W) (ls : List Nat)
    (hlen : ls.length = c.ls.length) (hn : n < 2 ^ 53) (hk : ∀ k ∈ ls, k ≤ n) :
    BBGen._BFSubcluster_replace_n_samples_and_linear_sum expf (bufOf c) cent child ids (PV.int n) (PV.arr w' ls)
      = [PV.arr (minSafe n) (ls ++ [n]), PV.arr .u8 (pack (centroidFromSum ls n)), child, ids] := by
  unfold BBGen._BFSubcluster_replace_n_samples_and_linear_sum
  have hn64 : n < 2 ^ 64 := by omega
  have hbits := minSafe_bits_lt n hn64
  have hwrap : ls.map (wrap (minSafe n)) = ls := by
    conv_rhs => rw [← List.map_id ls]
    exact List.map_congr_left (fun k hkm => wrap_of_le n k (hk k hkm))
  have h1 : PV.astypeD (bufOf c) (BBGen.min_safe_uint expf (PV.int n))
      = PV.arr (minSafe n) (c.ls.map (wrap (minSafe n)) ++ [wrap (minSafe n) c.n]) := by
    simp [gen_msu expf n hn64, PV.astypeD, bufOf, PV.astype]
  have h2 : PV.setInit (PV.arr (minSafe n) (c.ls.map (wrap (minSafe n)) ++ [wrap (minSafe n) c.n])) (PV.arr w' ls)
      = PV.arr (minSafe n) (ls ++ [wrap (minSafe n) c.n]) := by
    simp only [PV.setInit, List.length_append, List.length_map, List.length_cons, List.length_nil, hlen, if_true, hwrap]
    congr 2
    rw [← hlen, show ls.length = (c.ls.map (wrap (minSafe n))).length by simp [hlen], List.drop_left]
  have h3 : PV.setLast (PV.arr (minSafe n) (ls ++ [wrap (minSafe n) c.n])) (PV.int n)
      = PV.arr (minSafe n) (ls ++ [n]) := by
    have hne : ls ++ [wrap (minSafe n) c.n] ≠ [] := by simp
    have hfit : (0 : Int) ≤ n ∧ (n : Int) < ((2 ^ (minSafe n).bits : Nat) : Int) := ⟨by omega, by exact_mod_cast hbits⟩
    simp only [PV.setLast, hne, if_false, hfit, and_self, if_true, List.dropLast_concat, Int.toNat_natCast]
  simp only [h1, h2, h3, gen_centroid_packed expf w' ls n hk hn]


/-- the sums of the merged / updated cluster are not changed by the wrap-around of the new width -/
theorem merged_ls_eq (c s : Clu) (hc : CluOk c) (hs : CluOk s) (hlen : c.ls.length = s.ls.length) :
    (addLs c.ls s.ls).map (wrap (minSafe (c.n + s.n))) = addLs c.ls s.ls := by
  conv_rhs => rw [← List.map_id (addLs c.ls s.ls)]
  exact List.map_congr_left (fun k hk => wrap_of_le _ k (addLs_le _ _ hlen _ _ hc.le hs.le k hk))

/-- `add_to_n_samples_and_linear_sum(s.n, s.ls)` on the object holding `c` gives the buffer and centroid of the
model's `c.update s` -/
theorem gen_add_to (expf : Rat → Rat) (c s : Clu) (cent child ids : PV) (ws : W)
    (hc : CluOk c) (hs : CluOk s) (hlen : c.ls.length = s.ls.length) (hn : c.n + s.n < 2 ^ 53) :
    BBGen._BFSubcluster_add_to_n_samples_and_linear_sum expf (bufOf c) cent child ids (PV.int s.n) (PV.arr ws s.ls)
      = [bufOf (c.update s), PV.arr .u8 (pack (c.update s).cent), child, ids] := by
  unfold BBGen._BFSubcluster_add_to_n_samples_and_linear_sum
  have hn64 : c.n + s.n < 2 ^ 64 := by omega
  have hbits := minSafe_bits_lt _ hn64
  have hcast : ((c.n : Int) + (s.n : Int)) = ((c.n + s.n : Nat) : Int) := by push_cast; ring
  generalize hw' : minSafe (c.n + s.n) = w' at hbits
  have hls := merged_ls_eq c s hc hs hlen
  rw [hw'] at hls
  have h0 : PV.add (BBGen._BFSubcluster_n_samples expf (bufOf c) cent child ids) (PV.int s.n) = PV.int ((c.n + s.n : Nat)) := by
    rw [gen_n_samples, add_int_int, hcast]
  have h1 : PV.astypeD (bufOf c) (BBGen.min_safe_uint expf (PV.int ((c.n + s.n : Nat))))
      = PV.arr w' (c.ls.map (wrap w') ++ [wrap w' c.n]) := by
    rw [gen_msu expf _ hn64, hw']
    simp [PV.astypeD, bufOf, PV.astype]
  have h2 : PV.iaddInit (PV.arr w' (c.ls.map (wrap w') ++ [wrap w' c.n])) (PV.arr ws s.ls)
      = PV.arr w' (addLs c.ls s.ls ++ [wrap w' c.n]) := by
    simp only [PV.iaddInit, List.length_append, List.length_map, List.length_cons, List.length_nil, hlen, if_true,
      List.dropLast_concat]
    rw [zipWith_wrap_add w' c.ls s.ls hlen, hls]
    congr 2
    rw [← hlen, show c.ls.length = (c.ls.map (wrap w')).length by simp, List.drop_left]
  have h3 : PV.setLast (PV.arr w' (addLs c.ls s.ls ++ [wrap w' c.n])) (PV.int ((c.n + s.n : Nat)))
      = PV.arr w' (addLs c.ls s.ls ++ [c.n + s.n]) := by
    have hne : addLs c.ls s.ls ++ [wrap w' c.n] ≠ [] := by simp
    have hfit : (0 : Int) ≤ ((c.n + s.n : Nat) : Int) ∧ ((c.n + s.n : Nat) : Int) < ((2 ^ w'.bits : Nat) : Int) :=
      ⟨by omega, by exact_mod_cast hbits⟩
    simp only [PV.setLast, hne, if_false, hfit, and_self, if_true, List.dropLast_concat, Int.toNat_natCast]
  have h4 : PV.sliceInit (PV.arr w' (addLs c.ls s.ls ++ [c.n + s.n])) = PV.arr w' (addLs c.ls s.ls) := by
    simp [PV.sliceInit]
  simp only [h0, h1, h2, h3, h4,
    gen_centroid_packed expf w' (addLs c.ls s.ls) (c.n + s.n) (addLs_le _ _ hlen _ _ hc.le hs.le) hn]
  simp only [bufOf, Clu.update, hw', hls]

/-- `update(sub)` = the model's `Clu.update` on all four slots -/
theorem gen_update (expf : Rat → Rat) (c s : Clu) (child scent schild : PV)
    (hc : CluOk c) (hs : CluOk s) (hlen : c.ls.length = s.ls.length) (hn : c.n + s.n < 2 ^ 53) :
    BBGen._BFSubcluster_update expf (bufOf c) (PV.arr .u8 (pack c.cent)) child (PV.arr .big c.ids)
        (bufOf s) scent schild (PV.arr .big s.ids)
      = stateOf (c.update s) child := by
  unfold BBGen._BFSubcluster_update
  rw [gen_n_samples, gen_linear_sum, gen_add_to expf c s _ _ _ s.w hc hs hlen hn]
  simp [stateOf, PV.listExtend, Clu.update]


theorem mergedSummary_ls (c s : Clu) (hc : CluOk c) (hs : CluOk s) (hlen : c.ls.length = s.ls.length) :
    (c.mergedSummary s).ls = addLs c.ls s.ls := by
  simp only [Clu.mergedSummary]
  exact merged_ls_eq c s hc hs hlen

/-- **`merge_subcluster`**: the candidate sums are formed in the narrowest width for the new count, the merge
function object decides exactly as the model's `accept`, and on acceptance the object becomes the model's
`c.merge s` (all four slots) — otherwise it is unchanged -/
theorem gen_merge_subcluster (expf : Rat → Rat) (m : MergeFn) (thr : Rat) (c s : Clu) (child scent schild : PV)
    (hc : CluOk c) (hs : CluOk s) (hlen : c.ls.length = s.ls.length) (hn : c.n + s.n < 2 ^ 53)
    (hnew : SumOk (c.mergedSummary s)) (hold : SumOk c.summary) (hO : 1 ≤ c.n) :
    BBGen._BFSubcluster_merge_subcluster expf (bufOf c) (PV.arr .u8 (pack c.cent)) child (PV.arr .big c.ids)
        (bufOf s) scent schild (PV.arr .big s.ids) (PV.flt (some thr)) (objOf expf m)
      = if accept m (tabOf expf) thr (c.mergedSummary s) c.summary s.summary
        then PV.bool true :: stateOf (c.merge s) child
        else PV.bool false :: stateOf c child := by
  unfold BBGen._BFSubcluster_merge_subcluster
  have hn64 : c.n + s.n < 2 ^ 64 := by omega
  have hcast : ((c.n : Int) + (s.n : Int)) = ((c.n + s.n : Nat) : Int) := by push_cast; ring
  -- (also when the source writes the sum the other way round)
  have hcast' : ((s.n : Int) + (c.n : Int)) = ((c.n + s.n : Nat) : Int) := by push_cast; ring
  have hmls := mergedSummary_ls c s hc hs hlen
  have hmn : (c.mergedSummary s).n = c.n + s.n := rfl
  simp only [gen_n_samples, gen_linear_sum, add_int_int, hcast, hcast']
  have hnew_ls : PV.npAddD (PV.arr c.w c.ls) (PV.arr s.w s.ls) (BBGen.min_safe_uint expf (PV.int ((c.n + s.n : Nat))))
      = PV.arr (minSafe (c.n + s.n)) (c.mergedSummary s).ls := by
    rw [gen_msu expf _ hn64]
    simp only [PV.npAddD, PV.npAdd, hlen, if_true, Clu.mergedSummary]
    congr 1
    rw [addLs_eq_zipWith c.ls s.ls hlen, List.map_zipWith]
  rw [hnew_ls]
  have hacc := gen_accept expf m thr (c.mergedSummary s) c.summary s.summary (minSafe (c.n + s.n)) c.w s.w hnew hold hO
  simp only [hmn, Clu.summary] at hacc
  rw [hacc]
  simp only [guardL_int, guardL_arr, iteLS_bool]
  by_cases ha : accept m (tabOf expf) thr (c.mergedSummary s) { ls := c.ls, n := c.n } { ls := s.ls, n := s.n } = true
  · have ha' : accept m (tabOf expf) thr (c.mergedSummary s) c.summary s.summary = true := ha
    simp only [ha, ha', if_true]
    rw [gen_replace expf c _ _ _ (c.n + s.n) (minSafe (c.n + s.n)) (c.mergedSummary s).ls
      (by rw [hmls, addLs_length_eq _ _ hlen]) hn (by rw [hmls]; exact addLs_le _ _ hlen _ _ hc.le hs.le)]
    simp only [List.getD_cons_zero, List.getD_cons_succ, PV.listExtend, stateOf, bufOf, Clu.merge, hmn]
    have hw : (c.mergedSummary s).ls.map (wrap (minSafe (c.n + s.n))) = (c.mergedSummary s).ls := by
      rw [hmls]; exact merged_ls_eq c s hc hs hlen
    rw [hw]
  · have ha' : ¬ accept m (tabOf expf) thr (c.mergedSummary s) c.summary s.summary = true := ha
    simp only [ha, ha', Bool.false_eq_true, if_false, stateOf]


theorem cluOk_of_exact (D : Nat → Row) (c : Clu) (h : Exact D c) (hn : c.n < 2 ^ 64) : CluOk c :=
  ⟨exact_sum_le D c h, by rw [h.w_eq]; exact minSafe_bits_lt c.n hn⟩

end BB
