/-
Re-insertion only coarsens: helper lemmas for C09.
-/
import BBProofs.Ops

namespace BB
variable (pol : Cfg → Policy)

/-- every cluster of `A` is contained in one cluster of `B` -/
def Coarsens (A B : Multiset Clu) : Prop := ∀ a ∈ A, ∃ b ∈ B, ∀ i ∈ a.ids, i ∈ b.ids

theorem Coarsens.refl (A : Multiset Clu) : Coarsens A A := fun a ha => ⟨a, ha, fun _ h => h⟩

theorem Coarsens.trans {A B C : Multiset Clu} (h1 : Coarsens A B) (h2 : Coarsens B C) : Coarsens A C := by
  intro a ha
  obtain ⟨b, hb, hab⟩ := h1 a ha
  obtain ⟨c, hc, hbc⟩ := h2 b hb
  exact ⟨c, hc, fun i hi => hbc i (hab i hi)⟩

theorem Coarsens.mono {A A' B : Multiset Clu} (hs : ∀ a ∈ A', a ∈ A) (h : Coarsens A B) : Coarsens A' B :=
  fun a ha => h a (hs a ha)

theorem coarsens_of_units {acc : Clu → Clu → Prop} (l : List Clu) (N : Multiset Clu)
    (h : MC acc ((l.map Clu.asUnit : List Clu) : Multiset Clu) N) : Coarsens (l : Multiset Clu) N := by
  intro a ha
  have : a.asUnit ∈ ((l.map Clu.asUnit : List Clu) : Multiset Clu) := List.mem_map_of_mem (Multiset.mem_coe.mp ha)
  obtain ⟨b, hb, hab⟩ := h.coarsens _ this
  exact ⟨b, hb, hab⟩

theorem reinsert_coarsens (hpol : ∀ cfg, (pol cfg).Valid) (F : Nat) (e : Est) (hinv : EInv F (fun _ => True) e)
    (cfg' : Cfg) (hbf : 2 ≤ cfg'.bf) (bfs' : List Clu) (hb : (bfs' : Multiset Clu) = e.st.lclusM) :
    ∃ e', refitGroups pol { cfg := cfg', st := .uninit, numFitted := 0 } (groupByW bfs') = (e', none) ∧
      e'.cfg = cfg' ∧ EInv F (fun _ => True) e' ∧ Coarsens e.st.lclusM e'.st.lclusM := by
  obtain ⟨e', h1, hcfg, hinv', _, hmc⟩ := reinsert_inv pol hpol F (fun _ => True) (fun _ _ => trivial) e hinv cfg' hbf bfs' hb
    (fun _ _ _ _ _ => trivial)
  refine ⟨e', h1, hcfg, hinv', ?_⟩
  have hc := coarsens_of_units _ _ hmc
  obtain ⟨_, _, hflat⟩ := groupByW_spec bfs'
  rw [hflat, hb] at hc
  exact hc

theorem reclusterLoop_coarsens (hpol : ∀ cfg, (pol cfg).Valid) (F : Nat) (extra : Rat) (stop : Bool) :
    ∀ (k : Nat) (perms : List (Option (List Nat))) (before : Nat) (e : Est), EInv F (fun _ => True) e →
    Coarsens e.st.lclusM (reclusterLoop pol extra stop k perms before e).1.st.lclusM
  | 0, _, _, e, _ => by simpa [reclusterLoop] using Coarsens.refl _
  | k+1, perms, before, e, hinv => by
    unfold reclusterLoop
    simp only
    split
    · exact Coarsens.refl _
    · have hperm : ((shuffled e.st.sortedClus perms.head? : List Clu) : Multiset Clu) = e.st.lclusM := by
        rw [← sortedClus_coe e.st hinv.ok]
        unfold shuffled
        split
        · exact Multiset.coe_eq_coe.mpr (applyPerm_perm _ _)
        · rfl
      obtain ⟨e3, h3, _, hinv3, hco⟩ := reinsert_coarsens pol hpol F e hinv
        { e.cfg with thr := fadd e.cfg.thr extra } hinv.bf _ hperm
      have hstart : ({ (e.reset) with cfg := { e.reset.cfg with thr := fadd e.reset.cfg.thr extra } } : Est)
          = { cfg := { e.cfg with thr := fadd e.cfg.thr extra }, st := .uninit, numFitted := 0 } := rfl
      rw [hstart, h3]
      simp only
      exact hco.trans (reclusterLoop_coarsens hpol F extra stop k perms.tail _ e3 hinv3)

theorem recluster_coarsens (hpol : ∀ cfg, (pol cfg).Valid) (F : Nat) (e : Est) (hinv : EInv F (fun _ => True) e)
    (iters : Nat) (extra : Rat) (perms : List (Option (List Nat))) (stop : Bool) :
    Coarsens e.st.lclusM (recluster pol e iters extra perms stop).1.st.lclusM := by
  unfold recluster
  split
  · exact Coarsens.refl _
  · exact reclusterLoop_coarsens pol hpol F extra stop iters perms 0 e hinv

theorem delInternal_sortedClus (e : Est) : (delInternal e).1.st.sortedClus = e.st.sortedClus := by
  unfold delInternal
  cases hst : e.st with
  | uninit => simp [hst]
  | leavesOnly F ls => simp [hst]
  | full h F root chain next =>
    cases h with
    | zero => simp [hst]
    | succ k => rfl

theorem delInternal_lclusM (F : Nat) (e : Est) (hinv : EInv F (fun _ => True) e) :
    (delInternal e).1.st.lclusM = e.st.lclusM := by
  have h0 := delInternal_inv F _ e hinv
  rw [← sortedClus_coe _ h0.ok, ← sortedClus_coe _ hinv.ok, delInternal_sortedClus]

/-- refinement keeps every cluster outside the `n` largest together -/
theorem refine_coarsens (hpol : ∀ cfg, (pol cfg).Valid) (F : Nat) (e : Est) (hinv : EInv F (fun _ => True) e)
    (n : Int) (data : List Row) (im : Nat) (srt : Bool) (hdata : ∀ r ∈ data, r.length = F) :
    Coarsens ((e.st.sortedClus.drop n.toNat : List Clu) : Multiset Clu) (refine pol e n data im srt).1.st.lclusM := by
  have hall : ∀ (M : Multiset Clu), M = e.st.lclusM →
      Coarsens ((e.st.sortedClus.drop n.toNat : List Clu) : Multiset Clu) M := by
    intro M hM a ha
    refine ⟨a, ?_, fun _ h => h⟩
    rw [hM, ← sortedClus_coe e.st hinv.ok]
    exact List.mem_of_mem_drop (Multiset.mem_coe.mp ha)
  unfold refine
  split
  · exact hall _ rfl
  · have hinv0 := delInternal_inv F _ e hinv
    have hl0 := delInternal_lclusM F e hinv
    have hs0 := delInternal_sortedClus e
    generalize hdi : delInternal e = di at hinv0 hl0 hs0
    obtain ⟨e0, x⟩ := di
    simp only at hinv0 hl0 hs0
    cases x with
    | some x => exact hall _ hl0
    | none =>
      simp only
      split
      · exact hall _ hl0
      · split
        · exact hall _ hl0
        · rename_i groups hg
          obtain ⟨hne, singles, hflat, hids, hsing⟩ := refineGroups_spec _ _ _ _ _ _ hg
          have hsorted := sortedClus_coe e0.st hinv0.ok
          have hmemdrop : ∀ u ∈ e0.st.sortedClus.drop n.toNat, u ∈ e0.st.lclusM := fun u hu => by
            rw [← hsorted]; exact List.mem_of_mem_drop hu
          have hmem : ∀ g ∈ groups, ∀ u ∈ g.2, u ∈ e0.st.lclusM ∨ u ∈ singles := by
            intro g hg' u hu
            have : u ∈ ((groups.flatMap (·.2) : List Clu) : Multiset Clu) := List.mem_flatMap.mpr ⟨g, hg', hu⟩
            rw [hflat] at this
            rcases Multiset.mem_add.mp this with h | h
            · exact Or.inl (hmemdrop u h)
            · exact Or.inr h
          obtain ⟨e', h1, _, _, _, hmc⟩ := rebuild_inv' pol hpol F (fun _ => True) e0.reset rfl rfl hinv0.bf
            e0.numFitted groups hne
            (fun g hg' u hu => by
              rcases hmem g hg' u hu with h | h
              · exact hinv0.lsLen u h
              · obtain ⟨id, r, _, hr, rfl⟩ := hsing u h
                have : r ∈ data := List.mem_of_getElem? hr
                simp [single, Clu.ofBuffer, rowToNat, hdata r this])
            (fun _ _ _ _ => trivial)
            (by
              rw [hflat, idsOf_add, hids, ← idsOf_add, add_comm, Multiset.coe_add, List.take_append_drop, hsorted]
              exact hinv0.part)
            (fun _ _ _ _ _ => trivial)
          rw [h1]
          have hc := coarsens_of_units _ _ hmc
          rw [hflat] at hc
          rw [← hs0]
          exact Coarsens.mono (fun a ha => Multiset.mem_add.mpr (Or.inl ha)) hc

end BB
