/-
Safety of the page-release schedule of `_ArrayMemPagesManager` (model: `BBModel/MemPages.lean`).

Closed form of the schedule (`releases_spec`), and from it: every `madvise` range lies inside
the mapped file, entirely behind the read cursor, is aligned to the release step relative to
the start of the mapping and has length exactly `P` (`releases_safe`); consecutive ranges are
adjacent, hence no byte is released twice (`releases_disjoint`, `releases_pairwise`).
-/
import BBModel.MemPages

namespace BB.Pages

/-- The loop in closed form, from any intermediate state: starting with `k` rows consumed and
`n` rows to come, it fires once per multiple of `iters` in `(k, k + n]`. -/
theorem loop_spec (p : Params) :
    ∀ (n k addr : Nat), loop p n k addr =
      (List.range ((k + n) / p.iters - k / p.iters)).map
        (fun j => (⟨addr + j * p.P, p.P, (k / p.iters + 1 + j) * p.iters⟩ : Release)) := by
  intro n
  induction n with
  | zero => intro k addr; simp [loop]
  | succ n ih =>
    intro k addr
    have hmono : (k + 1) / p.iters ≤ (k + 1 + n) / p.iters :=
      Nat.div_le_div_right (Nat.le_add_right _ _)
    have hassoc : k + (n + 1) = k + 1 + n := by omega
    by_cases h : (k + 1) % p.iters = 0
    · have hd : (k + 1) / p.iters = k / p.iters + 1 := Nat.succ_div_of_mod_eq_zero h
      have hk : (k / p.iters + 1) * p.iters = k + 1 := by
        rw [← hd]; exact Nat.div_mul_cancel (Nat.dvd_of_mod_eq_zero h)
      have hcnt : (k + (n + 1)) / p.iters - k / p.iters
          = ((k + 1 + n) / p.iters - (k + 1) / p.iters) + 1 := by
        rw [hassoc]; omega
      rw [hcnt, List.range_succ_eq_map, List.map_cons, List.map_map]
      simp only [loop, h, beq_self_eq_true, if_true]
      rw [ih (k + 1) (addr + p.P), hd]
      congr 1
      · simp [hk]
      · apply List.map_congr_left
        intro j _
        simp only [Function.comp, Release.mk.injEq]
        refine ⟨?_, trivial, ?_⟩
        · rw [Nat.succ_mul]; omega
        · congr 1; omega
    · have hd : (k + 1) / p.iters = k / p.iters := by
        rw [Nat.succ_div_of_mod_ne_zero h]
      have hcnt : (k + (n + 1)) / p.iters - k / p.iters
          = (k + 1 + n) / p.iters - (k + 1) / p.iters := by
        rw [hassoc, hd]
      simp only [loop, beq_iff_eq, h, if_false]
      rw [ih (k + 1) addr, hcnt, hd]

/-- what `canRelease` says, as propositions -/
theorem canRelease_iff (p : Params) :
    p.canRelease = true ↔ p.ncols ≠ 0 ∧ p.P % p.ncols = 0 ∧ p.offset < p.ncols := by
  simp [Params.canRelease, and_assoc]

/-- the division in `iters_per_pagex = int(pagesizex / ncols)` is exact -/
theorem iters_mul_ncols (p : Params) (hc : p.canRelease = true) : p.iters * p.ncols = p.P := by
  obtain ⟨_, h, _⟩ := (canRelease_iff p).1 hc
  exact Nat.div_mul_cancel (Nat.dvd_of_mod_eq_zero h)

/-- `iters ≥ 1`: `P % ncols = 0` and `P > 0` give `ncols ≤ P` -/
theorem iters_pos (p : Params) (hc : p.canRelease = true) (hP : 0 < p.P) : 0 < p.iters := by
  have h := iters_mul_ncols p hc
  rcases Nat.eq_zero_or_pos p.iters with h0 | h0
  · rw [h0, Nat.zero_mul] at h; omega
  · exact h0

/-- Closed form of the schedule.  (The hypotheses `hi`, `hP` are not needed for this one.) -/
theorem releases_spec (p : Params) (hc : p.canRelease = true) :
    releases p = (List.range (p.nrows / p.iters)).map
      (fun j => (⟨p.base + j * p.P, p.P, (j + 1) * p.iters⟩ : Release)) := by
  unfold releases
  rw [if_pos hc, loop_spec]
  simp only [Nat.zero_add, Nat.zero_div, Nat.sub_zero]
  apply List.map_congr_left
  intro j _
  simp only [Release.mk.injEq, true_and]
  congr 1; omega

theorem releases_none (p : Params) (h : p.canRelease = false) : releases p = [] := by
  simp [releases, h]

theorem releases_length (p : Params) (hc : p.canRelease = true) :
    (releases p).length = p.nrows / p.iters := by
  simp [releases_spec p hc]

theorem releases_getElem (p : Params) (hc : p.canRelease = true) (j : Nat)
    (hj : j < (releases p).length) :
    (releases p)[j] = ⟨p.base + j * p.P, p.P, (j + 1) * p.iters⟩ := by
  simp [releases_spec p hc]

/-- MAIN: every released range lies inside the mapped file, entirely behind the read cursor
(the bytes of rows `1..afterRow` end at `base + offset + afterRow * rowBytes`), is aligned to
the release step relative to the start of the mapping, and has length exactly `P`. -/
theorem releases_safe (p : Params) (hc : p.canRelease = true) (hi : 1 ≤ p.itemsize)
    (hP : 0 < p.P) :
    ∀ r ∈ releases p,
      p.base ≤ r.addr ∧ r.len = p.P ∧ (r.addr - p.base) % p.P = 0 ∧
      r.addr + r.len ≤ p.base + p.offset + r.afterRow * p.rowBytes ∧
      r.afterRow ≤ p.nrows ∧
      r.addr + r.len ≤ p.base + p.fileSize := by
  intro r hr
  rw [releases_spec p hc, List.mem_map] at hr
  obtain ⟨j, hj, rfl⟩ := hr
  rw [List.mem_range] at hj
  have hI := iters_pos p hc hP
  have hmul := iters_mul_ncols p hc
  -- rows consumed so far
  have hrow : (j + 1) * p.iters ≤ p.nrows := (Nat.le_div_iff_mul_le hI).1 hj
  -- bytes released so far = (j+1) * P = rows * ncols ≤ rows * rowBytes
  have hbytes : (j + 1) * p.P ≤ (j + 1) * p.iters * p.rowBytes := by
    rw [← hmul, Nat.mul_assoc]
    apply Nat.mul_le_mul_left
    apply Nat.mul_le_mul_left
    unfold Params.rowBytes
    exact Nat.le_mul_of_pos_right _ hi
  have hfile : (j + 1) * p.iters * p.rowBytes ≤ p.nrows * p.rowBytes :=
    Nat.mul_le_mul_right _ hrow
  have hsucc : (j + 1) * p.P = j * p.P + p.P := Nat.succ_mul j p.P
  refine ⟨Nat.le_add_right _ _, rfl, ?_, ?_, hrow, ?_⟩
  · show (p.base + j * p.P - p.base) % p.P = 0
    rw [Nat.add_sub_cancel_left]; exact Nat.mul_mod_left _ _
  · show p.base + j * p.P + p.P ≤ p.base + p.offset + (j + 1) * p.iters * p.rowBytes
    omega
  · show p.base + j * p.P + p.P ≤ p.base + p.fileSize
    unfold Params.fileSize
    omega

/-- consecutive releases are adjacent: the next one starts exactly where the previous ends -/
theorem releases_disjoint (p : Params) (hc : p.canRelease = true) (j : Nat)
    (hj : j + 1 < (releases p).length) :
    (releases p)[j + 1].addr = (releases p)[j].addr + p.P ∧
    (releases p)[j + 1].addr = (releases p)[j].addr + (releases p)[j].len := by
  rw [releases_getElem p hc (j + 1) hj, releases_getElem p hc j (by omega)]
  simp only [and_self]
  rw [Nat.succ_mul]; omega

/-- hence the released ranges are pairwise non-overlapping (and in increasing address order):
no byte is released twice -/
theorem releases_pairwise (p : Params) (hc : p.canRelease = true) :
    (releases p).Pairwise (fun a b => a.addr + a.len ≤ b.addr) := by
  rw [releases_spec p hc, List.pairwise_map]
  apply List.Pairwise.imp _ List.pairwise_lt_range
  intro a b hab
  show p.base + a * p.P + p.P ≤ p.base + b * p.P
  have h : (a + 1) * p.P ≤ b * p.P := Nat.mul_le_mul_right _ hab
  rw [Nat.succ_mul] at h
  omega

/-- the number of releases, and what is left unreleased at the end: fewer than `P` bytes of
consumed rows plus the header are still resident when the loop ends (for `itemsize = 1`) -/
theorem releases_count (p : Params) (hc : p.canRelease = true) (hP : 0 < p.P) :
    (releases p).length * p.P ≤ p.nrows * p.ncols ∧
    p.nrows * p.ncols < ((releases p).length + 1) * p.P := by
  have hI : 0 < p.iters := iters_pos p hc hP
  obtain ⟨h0, _, _⟩ := (canRelease_iff p).1 hc
  have h0 : 0 < p.ncols := Nat.pos_of_ne_zero h0
  rw [releases_length p hc, ← iters_mul_ncols p hc, ← Nat.mul_assoc, ← Nat.mul_assoc]
  constructor
  · exact Nat.mul_le_mul_right _ (Nat.div_mul_le_self _ _)
  · apply Nat.mul_lt_mul_of_pos_right _ h0
    rw [Nat.mul_comm]
    exact Nat.lt_mul_div_succ _ hI

/-! Concrete instances -/

/-- 20000 packed 2048-bit fingerprints (256 bytes per row), 128-byte `.npy` header, 4 KiB
pages: two releases of 2 MiB each, after rows 8192 and 16384. -/
def ex1 : Params :=
  { base := 4096 * 34359738, offset := 128, ncols := 256, itemsize := 1, P := 2097152,
    nrows := 20000 }

example : ex1.canRelease = true ∧ 1 ≤ ex1.itemsize ∧ 0 < ex1.P := by decide

example : releases ex1 =
    [⟨4096 * 34359738, 2097152, 8192⟩, ⟨4096 * 34359738 + 2097152, 2097152, 16384⟩] := by
  rw [releases_spec ex1 (by decide)]
  decide

example : ∀ r ∈ releases ex1, r.addr + r.len ≤ ex1.base + ex1.fileSize ∧
    r.addr + r.len ≤ ex1.base + ex1.offset + r.afterRow * ex1.rowBytes :=
  fun r hr =>
    let h := releases_safe ex1 (by decide) (by decide) (by decide) r hr
    ⟨h.2.2.2.2.2, h.2.2.2.1⟩

/-- small numbers, evaluated through the loop itself -/
def ex2 : Params := { base := 1024, offset := 10, ncols := 16, itemsize := 2, P := 64, nrows := 13 }

example : releases ex2 = [⟨1024, 64, 4⟩, ⟨1088, 64, 8⟩, ⟨1152, 64, 12⟩] := by decide

example : ∀ r ∈ releases ex2, r.addr + r.len ≤ ex2.base + ex2.offset + r.afterRow * ex2.rowBytes :=
  fun r hr => (releases_safe ex2 (by decide) (by decide) (by decide) r hr).2.2.2.1

/-- the guard is off: `offset ≥ ncols` -/
example : releases { ex2 with offset := 16 } = [] := releases_none _ (by decide)

end BB.Pages
