/-
The reference policy (`refPolicy`, the decisions the code takes) is a valid policy, and
its specification clauses.

The interesting clause is `mask_false`: the split of an over-full node never sends every
entry to the new sibling, i.e. the old node always keeps at least one entry.  This settles
the TODO of the code ("one of the sub-clusters may never get updated"): both halves of a
split are non-empty, whatever the fingerprints (all-zero rows and duplicated rows included).
-/
import BBModel.Estimator
import BBProofs.TreeBasic
import BBProofs.Bits
import BBProofs.Fl

namespace BB

/-! ### small facts -/

theorem jtArrVec_length (X : List Row) (y : Row) : (jtArrVec X y).length = X.length := by
  simp [jtArrVec]

theorem jtArrVec_ne_nil {X : List Row} (y : Row) (h : X ≠ []) : jtArrVec X y ≠ [] := by
  intro h0
  apply h
  have := jtArrVec_length X y
  rw [h0] at this
  exact List.length_eq_zero_iff.mp this.symm

theorem jtArrVec_getElem (X : List Row) (y : Row) (j : Nat) (hj : j < (jtArrVec X y).length) :
    (jtArrVec X y)[j] = jtBits (X[j]'(by rw [jtArrVec_length] at hj; exact hj)) y := by
  simp [jtArrVec]

theorem jtArrVec_getD (X : List Row) (y : Row) (j : Nat) (hj : j < X.length) :
    (jtArrVec X y).getD j 0 = jtBits X[j] y := by
  simp [jtArrVec, List.getD, hj]

/-- the similarity of an all-zero fingerprint to anything is 0 (`0 / max (popc b) 1`) -/
theorem jtBits_eq_zero_of_popc_eq_zero_left (a b : Row) (h : popc a = 0) : jtBits a b = 0 := by
  unfold jtBits
  have h0 : popc (andRow a b) = 0 := by
    have := popc_andRow_le_left a b
    omega
  rw [h0]
  exact jtCounts_zero rnd_zero _ _

theorem jtBits_eq_zero_of_popc_eq_zero_right (a b : Row) (h : popc b = 0) : jtBits a b = 0 := by
  rw [jtBits_comm]; exact jtBits_eq_zero_of_popc_eq_zero_left b a h

/-- nothing is strictly more similar to a row than the row itself -/
theorem jtBits_self_not_lt (a b : Row) : ¬ jtBits a a < jtBits a b := by
  by_cases h : popc a = 0
  · rw [jtBits_self_of_popc_eq_zero rnd_zero a h, jtBits_eq_zero_of_popc_eq_zero_left a b h]
    exact lt_irrefl _
  · rw [jtBits_self rnd_one a (Nat.pos_of_ne_zero h)]
    exact not_lt.mpr (jtBits_le_one rnd_monotone rnd_one a b)

/-! ### `mostDissimilar` -/

theorem mostDissimilar_fst (Y : List Row) : (mostDissimilar Y).1 =
    argminFirst (Y.map (fun y => jtBits y (centroidFromSum (colSum Y) Y.length))) := rfl

theorem mostDissimilar_s1 (Y : List Row) : (mostDissimilar Y).2.2.1 =
    Y.map (fun y => jtBits y (Y.getD (mostDissimilar Y).1 [])) := rfl

theorem mostDissimilar_snd (Y : List Row) : (mostDissimilar Y).2.1 =
    argminFirst (mostDissimilar Y).2.2.1 := rfl

theorem mostDissimilar_s2 (Y : List Row) : (mostDissimilar Y).2.2.2 =
    Y.map (fun y => jtBits y (Y.getD (mostDissimilar Y).2.1 [])) := rfl

theorem mostDissimilar_fst_lt (Y : List Row) (hne : Y ≠ []) : (mostDissimilar Y).1 < Y.length := by
  have h := argminFirst_lt (jtArrVec Y (centroidFromSum (colSum Y) Y.length))
    (jtArrVec_ne_nil _ hne)
  rw [jtArrVec_length] at h
  exact h

theorem mostDissimilar_snd_lt (Y : List Row) (hne : Y ≠ []) :
    (mostDissimilar Y).2.1 < Y.length := by
  have h := argminFirst_lt (jtArrVec Y (Y.getD (mostDissimilar Y).1 [])) (jtArrVec_ne_nil _ hne)
  rw [jtArrVec_length] at h
  exact h

/-- the seeds are valid row indices, the returned similarities are those to exactly these
rows; seed 1 is the first row least similar to the centroid, seed 2 the first row least
similar to seed 1 -/
theorem mostDissimilar_spec (Y : List Row) (hne : Y ≠ []) :
    let (i1, i2, s1, s2) := mostDissimilar Y
    i1 < Y.length ∧ i2 < Y.length ∧
    s1 = Y.map (fun y => jtBits y (Y.getD i1 [])) ∧
    s2 = Y.map (fun y => jtBits y (Y.getD i2 [])) ∧
    i1 = argminFirst (Y.map (fun y => jtBits y (centroidFromSum (colSum Y) Y.length))) ∧
    i2 = argminFirst s1 :=
  ⟨mostDissimilar_fst_lt Y hne, mostDissimilar_snd_lt Y hne, rfl, rfl, rfl, rfl⟩

/-- the same statement with projections -/
theorem mostDissimilar_spec' (Y : List Row) (hne : Y ≠ []) :
    (mostDissimilar Y).1 < Y.length ∧ (mostDissimilar Y).2.1 < Y.length ∧
    (mostDissimilar Y).2.2.1 = Y.map (fun y => jtBits y (Y.getD (mostDissimilar Y).1 [])) ∧
    (mostDissimilar Y).2.2.2 = Y.map (fun y => jtBits y (Y.getD (mostDissimilar Y).2.1 [])) ∧
    (mostDissimilar Y).1 =
      argminFirst (Y.map (fun y => jtBits y (centroidFromSum (colSum Y) Y.length))) ∧
    (mostDissimilar Y).2.1 = argminFirst (mostDissimilar Y).2.2.1 :=
  ⟨mostDissimilar_fst_lt Y hne, mostDissimilar_snd_lt Y hne, rfl, rfl, rfl, rfl⟩

/-- seed 2 is a row least similar to seed 1 -/
theorem mostDissimilar_snd_min (Y : List Row) (j : Nat) (hj : j < Y.length) :
    jtBits (Y.getD (mostDissimilar Y).2.1 []) (Y.getD (mostDissimilar Y).1 []) ≤
      jtBits Y[j] (Y.getD (mostDissimilar Y).1 []) := by
  have hne : Y ≠ [] := List.ne_nil_of_length_pos (by omega)
  have h2 := mostDissimilar_snd_lt Y hne
  have hj' : j < (jtArrVec Y (Y.getD (mostDissimilar Y).1 [])).length := by
    rw [jtArrVec_length]; exact hj
  have h := argminFirst_min (jtArrVec Y (Y.getD (mostDissimilar Y).1 [])) j hj'
  rw [jtArrVec_getElem, jtArrVec_getElem] at h
  have e : Y.getD (mostDissimilar Y).2.1 [] = Y[(mostDissimilar Y).2.1] := by
    simp [List.getD, h2]
  rw [e]
  exact h

/-! ### the split mask -/

theorem refMask_eq (cache : List Row) : refMask cache =
    (List.zipWith (fun a b => decide (b < a)) (mostDissimilar cache).2.2.1
      (mostDissimilar cache).2.2.2).zipIdx.map (fun p => p.1 || p.2 == (mostDissimilar cache).1) :=
  rfl

theorem refMask_length (cache : List Row) : (refMask cache).length = cache.length := by
  rw [refMask_eq, mostDissimilar_s1, mostDissimilar_s2]
  simp

/-- entry `j` moves to the new node iff it is seed 1 or it is strictly closer to seed 1
than to seed 2 (stated on the rows) -/
theorem refMask_getElem (cache : List Row) (j : Nat) (hj : j < cache.length) :
    (refMask cache)[j]'(by rw [refMask_length]; exact hj) =
      (decide (j = (mostDissimilar cache).1) ||
        decide (jtBits cache[j] (cache.getD (mostDissimilar cache).2.1 []) <
          jtBits cache[j] (cache.getD (mostDissimilar cache).1 []))) := by
  simp only [refMask_eq, mostDissimilar_s1, mostDissimilar_s2, List.getElem_map,
    List.getElem_zipIdx, List.getElem_zipWith, Nat.zero_add]
  rw [Bool.or_comm]
  congr 1

/-- entry `j` moves to the new node iff it is seed 1 or it is strictly closer to seed 1
than to seed 2 (stated on the similarity vectors `mostDissimilar` returns) -/
theorem refMask_spec (cache : List Row) (j : Nat) (hj : j < cache.length) :
    (refMask cache)[j]? = some (decide (j = (mostDissimilar cache).1) ||
      decide ((mostDissimilar cache).2.2.2.getD j 0 < (mostDissimilar cache).2.2.1.getD j 0)) := by
  rw [List.getElem?_eq_getElem (by rw [refMask_length]; exact hj), refMask_getElem cache j hj]
  have e1 : (mostDissimilar cache).2.2.1.getD j 0 =
      jtBits cache[j] (cache.getD (mostDissimilar cache).1 []) :=
    jtArrVec_getD cache _ j hj
  have e2 : (mostDissimilar cache).2.2.2.getD j 0 =
      jtBits cache[j] (cache.getD (mostDissimilar cache).2.1 []) :=
    jtArrVec_getD cache _ j hj
  rw [e1, e2]

/-- seed 1 always moves -/
theorem refMask_seed1 (cache : List Row) (hne : cache ≠ []) :
    (refMask cache)[(mostDissimilar cache).1]? = some true := by
  rw [refMask_spec cache _ (mostDissimilar_fst_lt cache hne)]
  simp

/-- seed 2 stays, unless it is seed 1 -/
theorem refMask_seed2 (cache : List Row) (hne : cache ≠ [])
    (h : (mostDissimilar cache).2.1 ≠ (mostDissimilar cache).1) :
    (refMask cache)[(mostDissimilar cache).2.1]? = some false := by
  have h2 := mostDissimilar_snd_lt cache hne
  rw [List.getElem?_eq_getElem (by rw [refMask_length]; exact h2), refMask_getElem cache _ h2]
  have e : cache.getD (mostDissimilar cache).2.1 [] = cache[(mostDissimilar cache).2.1] := by
    simp [List.getD, h2]
  rw [e]
  simp only [Option.some.injEq, Bool.or_eq_false_iff, decide_eq_false_iff_not]
  exact ⟨h, jtBits_self_not_lt _ _⟩

/-- when both seeds coincide, only the seed moves -/
theorem refMask_of_seeds_eq (cache : List Row)
    (h : (mostDissimilar cache).2.1 = (mostDissimilar cache).1) (j : Nat) (hj : j < cache.length) :
    (refMask cache)[j]? = some (decide (j = (mostDissimilar cache).1)) := by
  rw [List.getElem?_eq_getElem (by rw [refMask_length]; exact hj), refMask_getElem cache _ hj, h]
  simp

theorem refMask_true_mem (cache : List Row) (hne : cache ≠ []) : true ∈ refMask cache :=
  List.mem_of_getElem? (refMask_seed1 cache hne)

/-- the old node keeps at least one entry: some entry other than seed 1 stays -/
theorem refMask_false_mem (cache : List Row) (h2 : 2 ≤ cache.length) : false ∈ refMask cache := by
  have hne : cache ≠ [] := List.ne_nil_of_length_pos (by omega)
  by_cases h : (mostDissimilar cache).2.1 = (mostDissimilar cache).1
  · -- both seeds coincide: every entry but the seed stays, and there is another entry
    by_cases h0 : (mostDissimilar cache).1 = 0
    · have := refMask_of_seeds_eq cache h 1 (by omega)
      rw [h0] at this
      exact List.mem_of_getElem? (by simpa using this)
    · have := refMask_of_seeds_eq cache h 0 (by omega)
      apply List.mem_of_getElem?
      rw [this]
      simp only [Option.some.injEq, decide_eq_false_iff_not]
      exact fun e => h0 e.symm
  · exact List.mem_of_getElem? (refMask_seed2 cache hne h)

/-- sharper form: an entry other than seed 1 stays in the old node, and seed 1 moves -/
theorem refMask_both_sides (cache : List Row) (h2 : 2 ≤ cache.length) :
    (refMask cache)[(mostDissimilar cache).1]? = some true ∧
    ∃ j, j < cache.length ∧ j ≠ (mostDissimilar cache).1 ∧ (refMask cache)[j]? = some false := by
  have hne : cache ≠ [] := List.ne_nil_of_length_pos (by omega)
  refine ⟨refMask_seed1 cache hne, ?_⟩
  by_cases h : (mostDissimilar cache).2.1 = (mostDissimilar cache).1
  · by_cases h0 : (mostDissimilar cache).1 = 0
    · refine ⟨1, by omega, by omega, ?_⟩
      rw [refMask_of_seeds_eq cache h 1 (by omega), h0]
      simp
    · refine ⟨0, by omega, fun e => h0 e.symm, ?_⟩
      rw [refMask_of_seeds_eq cache h 0 (by omega)]
      simp only [Option.some.injEq, decide_eq_false_iff_not]
      exact fun e => h0 e.symm
  · exact ⟨_, mostDissimilar_snd_lt cache hne, h, refMask_seed2 cache hne h⟩

/-! ### the reference policy -/

theorem refPolicy_route (X : ExpTab) (cfg : Cfg) (cache : List Row) (c : Row) :
    (refPolicy X cfg).route cache c = argmaxFirst (jtArrVec cache c) := rfl

theorem refPolicy_mask (X : ExpTab) (cfg : Cfg) : (refPolicy X cfg).mask = refMask := rfl

theorem refPolicy_accept (X : ExpTab) (cfg : Cfg) (c s : Clu) :
    (refPolicy X cfg).accept c s =
      accept cfg.merge X cfg.thr (c.mergedSummary s) c.summary s.summary := rfl

theorem refRoute_lt (X : ExpTab) (cfg : Cfg) (cache : List Row) (c : Row) (hne : cache ≠ []) :
    (refPolicy X cfg).route cache c < cache.length := by
  have h := argmaxFirst_lt (jtArrVec cache c) (jtArrVec_ne_nil c hne)
  rw [jtArrVec_length] at h
  exact h

/-- the descent goes to the most similar cached centroid, the first one on ties -/
theorem refRoute_spec (X : ExpTab) (cfg : Cfg) (cache : List Row) (c : Row) (hne : cache ≠ []) :
    (refPolicy X cfg).route cache c < cache.length ∧
    (∀ (j : Nat) (hj : j < cache.length),
      jtBits cache[j] c ≤
        jtBits (cache[(refPolicy X cfg).route cache c]'(refRoute_lt X cfg cache c hne)) c) ∧
    (∀ (j : Nat) (hj : j < (refPolicy X cfg).route cache c),
      jtBits (cache[j]'(lt_trans hj (refRoute_lt X cfg cache c hne))) c <
        jtBits (cache[(refPolicy X cfg).route cache c]'(refRoute_lt X cfg cache c hne)) c) := by
  refine ⟨refRoute_lt X cfg cache c hne, ?_, ?_⟩
  · intro j hj
    have hj' : j < (jtArrVec cache c).length := by rw [jtArrVec_length]; exact hj
    have h := argmaxFirst_max (jtArrVec cache c) j hj'
    rw [jtArrVec_getElem, jtArrVec_getElem] at h
    exact h
  · intro j hj
    have h := argmaxFirst_first (jtArrVec cache c) j hj
    rw [jtArrVec_getElem, jtArrVec_getElem] at h
    exact h

/-- MAIN: the decisions of the code form a valid policy -/
theorem refPolicy_valid (X : ExpTab) (cfg : Cfg) : (refPolicy X cfg).Valid where
  route_lt := fun cache c hne => refRoute_lt X cfg cache c hne
  mask_len := fun cache => refMask_length cache
  mask_true := fun cache h2 => refMask_true_mem cache (List.ne_nil_of_length_pos (by omega))
  mask_false := fun cache h2 => refMask_false_mem cache h2

end BB

