/-
GenEq9 — `multiround._pickle_dump_atomic`, as translated on this run: the object is pickled into a sibling file
`<name>.tmp`, that file is closed, and only then the final name is bound by `os.replace`.  The final path is the opaque token
`"path"`; `path.parent` and `path.name` are inputs.
-/
import BBProofs.GenEq

namespace BB
open PV

/-- the complete effect list of one publication -/
theorem gen_dump_atomic (expf : Rat → Rat) (obj : PV) (parent name : String) :
    BBGen._pickle_dump_atomic expf obj (PV.str name) (PV.str parent)
      = [PV.str "open", PV.str (parent ++ "/" ++ (name ++ ".tmp")), PV.str "wb",
         PV.str "pickle.dump", PV.str (parent ++ "/" ++ (name ++ ".tmp")), PV.str "obj",
         PV.str "close", PV.str (parent ++ "/" ++ (name ++ ".tmp")),
         PV.str "os.replace", PV.str (parent ++ "/" ++ (name ++ ".tmp")), PV.str "path"] := by
  simp [BBGen._pickle_dump_atomic, PV.pathJoin, PV.strCat]

/-! ### what an observer of the final name can see -/

/-- the final name holds what it held before (`old`), an incompletely written new object (`torn`), or the complete new
object (`new`) -/
inductive FinalC | old | torn | new
  deriving DecidableEq, Repr

/-- the temporary name -/
inductive TmpC | absent | torn | full
  deriving DecidableEq, Repr

/-- effect records read as steps on (final name, temporary name); returns the states after every record.  An `open(…, "wb")`
of the final name itself would truncate it (`torn`); a `pickle.dump` is complete only when its record is passed — a crash
inside it is a prefix that ends before the record.  An unknown record ends the reading. -/
def pubTrace (tmp : String) (st : FinalC × TmpC) (l : List PV) : List (FinalC × TmpC) :=
  match l with
  | PV.str "open" :: PV.str p :: PV.str _ :: rest =>
    let st' := if p = tmp then (st.1, TmpC.torn) else if p = "path" then (FinalC.torn, st.2) else st
    st' :: pubTrace tmp st' rest
  | PV.str "pickle.dump" :: PV.str p :: _ :: rest =>
    let st' := if p = tmp then (st.1, TmpC.full) else if p = "path" then (FinalC.new, st.2) else st
    st' :: pubTrace tmp st' rest
  | PV.str "close" :: _ :: rest => st :: pubTrace tmp st rest
  | PV.str "os.replace" :: PV.str a :: PV.str b :: rest =>
    let st' := if a = tmp ∧ b = "path" then
        ((match st.2 with | .full => FinalC.new | .torn => FinalC.torn | .absent => st.1), TmpC.absent) else st
    st' :: pubTrace tmp st' rest
  | _ => []
termination_by l.length
decreasing_by all_goals (simp only [List.length_cons]; omega)

theorem path_ne (parent x : String) : "path" ≠ parent ++ "/" ++ x := by
  intro h
  have h1 : '/' ∈ ("path" : String).toList := by
    rw [h]; simp [String.toList_append]
  revert h1; decide

/-- ATOMIC PUBLICATION: along the effects of the translated `_pickle_dump_atomic` the final name holds its old content up
to the last record and the complete new object after it — never a torn file; the temporary name is gone at the end.
Any interruption leaves a prefix of these states behind. -/
theorem gen_dump_atomic_trace (expf : Rat → Rat) (obj : PV) (parent name : String) :
    pubTrace (parent ++ "/" ++ (name ++ ".tmp")) (FinalC.old, TmpC.absent)
        (BBGen._pickle_dump_atomic expf obj (PV.str name) (PV.str parent))
      = [(FinalC.old, TmpC.torn), (FinalC.old, TmpC.full), (FinalC.old, TmpC.full), (FinalC.new, TmpC.absent)] := by
  rw [gen_dump_atomic]
  simp [pubTrace]

end BB
