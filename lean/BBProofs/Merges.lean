/-
Properties of the six merge-accept functions (`BBModel/Merges.lean`).

Everything that needs a fact about floating-point rounding takes it through the
hypothesis `hr : IsRounding rnd` (`BBProofs/Rounding.lean`).
-/
import BBModel.Merges
import BBProofs.Rounding
import Mathlib.Order.Monotone.Basic
import Mathlib.Algebra.Order.Field.Rat
import Mathlib.Tactic.Linarith

namespace BB

/-! ### NaN-aware comparisons -/

theorem geOpt_eq_true_iff (a : Option Rat) (b : Rat) :
    geOpt a b = true ↔ ∃ v, a = some v ∧ b ≤ v := by
  cases a with
  | none => simp [geOpt]
  | some x => simp [geOpt]

theorem ltOpt_some (x b : Rat) : ltOpt (some x) b = decide (x < b) := rfl

theorem ltOpt_none (b : Rat) : ltOpt none b = false := rfl

theorem ltOpt_eq_false_iff_some (x b : Rat) : ltOpt (some x) b = false ↔ b ≤ x := by
  simp [ltOpt]

/-! ### the statistics are not NaN for `n ≥ 2` -/

theorem isimFromSum_isSome (ls : List Nat) (n : Nat) (h : 2 ≤ n) :
    (isimFromSum ls n).isSome := by
  unfold isimFromSum
  have h2 : ¬ n < 2 := Nat.not_lt.mpr h
  simp only [h2, if_false]
  split <;> rfl

theorem isimFromSum_eq_none_iff (ls : List Nat) (n : Nat) :
    isimFromSum ls n = none ↔ n < 2 := by
  constructor
  · intro h
    by_contra hc
    have := isimFromSum_isSome ls n (Nat.not_lt.mp hc)
    rw [h] at this
    exact absurd this (by simp)
  · intro h
    unfold isimFromSum
    simp only [h, if_true]

theorem radiusCompl_isSome (ls : List Nat) (n : Nat) (h : 2 ≤ n) :
    (radiusCompl ls n).isSome := by
  unfold radiusCompl
  have h1 := isimFromSum_isSome ls n h
  have h2 := isimFromSum_isSome
    ((addLs ls (rowToNat (centroidFromSum ls n))).map u64) (n + 1) (by omega)
  obtain ⟨j, hj⟩ := Option.isSome_iff_exists.mp h1
  obtain ⟨j1, hj1⟩ := Option.isSome_iff_exists.mp h2
  simp only [hj, hj1]
  rfl

theorem stat_isSome (c : Crit) (s : Summary) (h : 2 ≤ s.n) : (stat c s).isSome := by
  cases c <;> simp only [stat] <;>
    first | exact radiusCompl_isSome _ _ h | exact isimFromSum_isSome _ _ h

/-! ### the generic shape of the two tolerance criteria -/

/-- body shared by `tolerance-diameter` and `tolerance-radius`, as a function of the
statistic of the merged and of the old cluster -/
def tolBody (X : ExpTab) (tol thr : Rat) (oldN : Nat) (ns os : Option Rat) : Bool :=
  if ltOpt ns thr then false
  else if oldN = 1 then true
  else
    match ns, os with
    | some nd, some od => decide (fsub od (slack X tol oldN) ≤ nd)
    | _, _ => false

theorem accept_tol_eq (m : MergeFn) (X : ExpTab) (t : Rat) (new old nom : Summary)
    (hc : m.crit = .tolDiameter ∨ m.crit = .tolRadius) :
    accept m X t new old nom
      = tolBody X m.tol t old.n (stat m.crit new) (stat m.crit old) := by
  rcases hc with hc | hc <;> unfold accept <;> rw [hc] <;> rfl

theorem tolBody_some_one (X : ExpTab) (tol thr : Rat) (oldN : Nat) (v : Rat)
    (os : Option Rat) (h1 : oldN = 1) :
    tolBody X tol thr oldN (some v) os = true ↔ thr ≤ v := by
  unfold tolBody
  simp only [ltOpt_some, h1, if_true]
  by_cases h : v < thr
  · simp [h]
  · simp [h, not_lt.mp h]

theorem tolBody_some_some (X : ExpTab) (tol thr : Rat) (oldN : Nat) (v o : Rat)
    (h1 : oldN ≠ 1) :
    tolBody X tol thr oldN (some v) (some o) = true
      ↔ thr ≤ v ∧ fsub o (slack X tol oldN) ≤ v := by
  unfold tolBody
  simp only [ltOpt_some, h1, if_false]
  by_cases h : v < thr
  · simp [h]
  · simp [h, not_lt.mp h]

/-! ### 1. monotonicity in the threshold -/

theorem geOpt_mono (a : Option Rat) {t t' : Rat} (ht : t' ≤ t) (h : geOpt a t = true) :
    geOpt a t' = true := by
  rw [geOpt_eq_true_iff] at h ⊢
  obtain ⟨v, hv, hle⟩ := h
  exact ⟨v, hv, le_trans ht hle⟩

theorem ltOpt_false_mono (a : Option Rat) {t t' : Rat} (ht : t' ≤ t)
    (h : ltOpt a t = false) : ltOpt a t' = false := by
  cases a with
  | none => rfl
  | some x =>
    rw [ltOpt_eq_false_iff_some] at h ⊢
    exact le_trans ht h

theorem accept_mono_thr (m : MergeFn) (X : ExpTab) (t t' : Rat) (new old nom : Summary)
    (h : accept m X t new old nom = true) (ht : t' ≤ t) :
    accept m X t' new old nom = true := by
  obtain ⟨c, tol⟩ := m
  cases c
  case radius =>
    simp only [accept] at h ⊢
    exact geOpt_mono _ ht h
  case diameter =>
    simp only [accept] at h ⊢
    exact geOpt_mono _ ht h
  case never =>
    simp only [accept] at h
    exact absurd h (by simp)
  case tolDiameter =>
    simp only [accept] at h ⊢
    by_cases hl : ltOpt (isimFromSum new.ls new.n) t = true
    · simp [hl] at h
    · have hl0 := (Bool.not_eq_true _).mp hl
      have hl' := ltOpt_false_mono _ ht hl0
      simp only [hl0, Bool.false_eq_true, if_false] at h
      simp only [hl', Bool.false_eq_true, if_false]
      exact h
  case tolRadius =>
    simp only [accept] at h ⊢
    by_cases hl : ltOpt (radiusCompl new.ls new.n) t = true
    · simp [hl] at h
    · have hl0 := (Bool.not_eq_true _).mp hl
      have hl' := ltOpt_false_mono _ ht hl0
      simp only [hl0, Bool.false_eq_true, if_false] at h
      simp only [hl', Bool.false_eq_true, if_false]
      exact h
  case tolLegacy =>
    simp only [accept] at h ⊢
    by_cases hl : ltOpt (isimFromSum new.ls new.n) t = true
    · simp [hl] at h
    · have hl0 := (Bool.not_eq_true _).mp hl
      have hl' := ltOpt_false_mono _ ht hl0
      simp only [hl0, Bool.false_eq_true, if_false] at h
      simp only [hl', Bool.false_eq_true, if_false]
      exact h

/-! ### 10/11. the plain criteria -/

theorem accept_never (m : MergeFn) (X : ExpTab) (t : Rat) (new old nom : Summary)
    (hc : m.crit = .never) : accept m X t new old nom = false := by
  unfold accept; rw [hc]

theorem accept_radius_iff (m : MergeFn) (X : ExpTab) (t : Rat) (new old nom : Summary)
    (hc : m.crit = .radius) (hn : 2 ≤ new.n) :
    accept m X t new old nom = true ↔ ∃ v, stat m.crit new = some v ∧ t ≤ v := by
  have _ := hn
  unfold accept; rw [hc]
  exact geOpt_eq_true_iff _ _

theorem accept_diameter_iff (m : MergeFn) (X : ExpTab) (t : Rat) (new old nom : Summary)
    (hc : m.crit = .diameter) (hn : 2 ≤ new.n) :
    accept m X t new old nom = true ↔ ∃ v, stat m.crit new = some v ∧ t ≤ v := by
  have _ := hn
  unfold accept; rw [hc]
  exact geOpt_eq_true_iff _ _

/-! ### 3/4. the tolerance criteria, exactly -/

theorem accept_singleton (m : MergeFn) (X : ExpTab) (t : Rat) (new old nom : Summary)
    (hc : m.crit = .tolDiameter ∨ m.crit = .tolRadius) (ho : old.n = 1) (hn : 2 ≤ new.n) :
    accept m X t new old nom = true ↔ ∃ v, stat m.crit new = some v ∧ t ≤ v := by
  rw [accept_tol_eq m X t new old nom hc]
  obtain ⟨v, hv⟩ := Option.isSome_iff_exists.mp (stat_isSome m.crit new hn)
  rw [hv, tolBody_some_one X m.tol t old.n v _ ho]
  constructor
  · intro h; exact ⟨v, rfl, h⟩
  · rintro ⟨w, hw, hle⟩
    cases hw
    exact hle

theorem accept_tol_iff (m : MergeFn) (X : ExpTab) (t : Rat) (new old nom : Summary)
    (hc : m.crit = .tolDiameter ∨ m.crit = .tolRadius) (ho : 2 ≤ old.n) (hn : 2 ≤ new.n) :
    accept m X t new old nom = true ↔
      ∃ v o, stat m.crit new = some v ∧ stat m.crit old = some o ∧ t ≤ v ∧
        fsub o (slack X m.tol old.n) ≤ v := by
  rw [accept_tol_eq m X t new old nom hc]
  obtain ⟨v, hv⟩ := Option.isSome_iff_exists.mp (stat_isSome m.crit new hn)
  obtain ⟨o, ho'⟩ := Option.isSome_iff_exists.mp (stat_isSome m.crit old ho)
  rw [hv, ho', tolBody_some_some X m.tol t old.n v o (by omega)]
  constructor
  · rintro ⟨h1, h2⟩; exact ⟨v, o, rfl, rfl, h1, h2⟩
  · rintro ⟨w, p, hw, hp, h1, h2⟩
    cases hw; cases hp
    exact ⟨h1, h2⟩

/-! ### 9. the legacy tolerance criterion -/

theorem accept_legacy_sound (m : MergeFn) (X : ExpTab) (t : Rat) (new old nom : Summary)
    (hc : m.crit = .tolLegacy) (hn : 2 ≤ new.n) (h : accept m X t new old nom = true) :
    ∃ v, isimFromSum new.ls new.n = some v ∧ t ≤ v := by
  obtain ⟨v, hv⟩ := Option.isSome_iff_exists.mp (isimFromSum_isSome new.ls new.n hn)
  refine ⟨v, hv, ?_⟩
  unfold accept at h
  rw [hc] at h
  simp only [hv, ltOpt_some] at h
  by_contra hlt
  have hlt' : v < t := not_le.mp hlt
  simp [hlt'] at h

theorem accept_legacy_easy (m : MergeFn) (X : ExpTab) (t : Rat) (new old nom : Summary)
    (hc : m.crit = .tolLegacy) (hn : 2 ≤ new.n) (hs : old.n = 1 ∨ nom.n ≠ 1) (v : Rat)
    (hv : isimFromSum new.ls new.n = some v) (ht : t ≤ v) :
    accept m X t new old nom = true := by
  have _ := hn
  unfold accept
  rw [hc]
  have hlt : ¬ v < t := not_lt.mpr ht
  simp only [hv, ltOpt_some, hlt, decide_false, Bool.false_eq_true, if_false, hs, if_true]

/-! ### 2. soundness: an accepted merge meets the threshold -/

theorem accept_sound (m : MergeFn) (X : ExpTab) (t : Rat) (new old nom : Summary)
    (hn : 2 ≤ new.n) (h : accept m X t new old nom = true) :
    ∃ v, stat m.crit new = some v ∧ t ≤ v := by
  rcases hcr : m.crit with _ | _ | _ | _ | _ | _
  · exact hcr ▸ (accept_radius_iff m X t new old nom hcr hn).mp h
  · exact hcr ▸ (accept_diameter_iff m X t new old nom hcr hn).mp h
  · have hc : m.crit = .tolDiameter ∨ m.crit = .tolRadius := Or.inl hcr
    rw [accept_tol_eq m X t new old nom hc] at h
    obtain ⟨v, hv⟩ := Option.isSome_iff_exists.mp (stat_isSome m.crit new hn)
    rw [← hcr]
    refine ⟨v, hv, ?_⟩
    rw [hv] at h
    unfold tolBody at h
    by_contra hlt
    have hlt' : v < t := not_le.mp hlt
    simp [ltOpt_some, hlt'] at h
  · have hc : m.crit = .tolDiameter ∨ m.crit = .tolRadius := Or.inr hcr
    rw [accept_tol_eq m X t new old nom hc] at h
    obtain ⟨v, hv⟩ := Option.isSome_iff_exists.mp (stat_isSome m.crit new hn)
    rw [← hcr]
    refine ⟨v, hv, ?_⟩
    rw [hv] at h
    unfold tolBody at h
    by_contra hlt
    have hlt' : v < t := not_le.mp hlt
    simp [ltOpt_some, hlt'] at h
  · exact accept_legacy_sound m X t new old nom hcr hn h
  · rw [accept_never m X t new old nom hcr] at h
    exact absurd h (by simp)

/-! ### 5–7. the slack -/

theorem slack_nonneg (X : ExpTab) (tol : Rat) (n : Nat) : 0 ≤ slack X tol n :=
  le_max_right _ _

theorem fmul_nonpos_of_nonneg_of_nonpos (hr : IsRounding rnd) {a d : Rat}
    (ha : 0 ≤ a) (hd : d ≤ 0) : fmul a d ≤ 0 := by
  unfold fmul
  have h : a * d ≤ 0 := mul_nonpos_of_nonneg_of_nonpos ha hd
  have := hr.mono h
  rwa [hr.zero] at this

theorem slack_mono_tol (hr : IsRounding rnd) (X : ExpTab) (n : Nat) {tol tol' : Rat}
    (h0 : 0 ≤ tol) (h : tol ≤ tol') : slack X tol n ≤ slack X tol' n := by
  unfold slack
  rcases le_total 0 (fsub (X.E n) X.off) with hd | hd
  · apply max_le_max _ (le_refl _)
    unfold fmul
    exact hr.mono (mul_le_mul_of_nonneg_right h hd)
  · have h1 := fmul_nonpos_of_nonneg_of_nonpos hr h0 hd
    have h2 := fmul_nonpos_of_nonneg_of_nonpos hr (le_trans h0 h) hd
    rw [max_eq_right h1, max_eq_right h2]

theorem slack_zero (hr : IsRounding rnd) (X : ExpTab) (hE : Antitone X.E)
    (hoff : X.off = X.E 1000) {tol : Rat} (h0 : 0 ≤ tol) {n : Nat} (hn : 1000 ≤ n) :
    slack X tol n = 0 := by
  unfold slack
  have hd : fsub (X.E n) X.off ≤ 0 := by
    unfold fsub
    have h1 : X.E n - X.off ≤ 0 := by
      rw [hoff]
      exact sub_nonpos.mpr (hE hn)
    have := hr.mono h1
    rwa [hr.zero] at this
  exact max_eq_right (fmul_nonpos_of_nonneg_of_nonpos hr h0 hd)

/-! ### 8. a larger tolerance accepts more -/

theorem tolBody_mono_tol (hr : IsRounding rnd) (X : ExpTab) (thr : Rat) (oldN : Nat)
    (ns os : Option Rat) {tol tol' : Rat} (h0 : 0 ≤ tol) (h : tol ≤ tol')
    (ha : tolBody X tol thr oldN ns os = true) : tolBody X tol' thr oldN ns os = true := by
  unfold tolBody at ha ⊢
  by_cases hl : ltOpt ns thr = true
  · simp [hl] at ha
  · have hl0 := (Bool.not_eq_true _).mp hl
    simp only [hl0, Bool.false_eq_true, if_false] at ha ⊢
    by_cases h1 : oldN = 1
    · simp [h1]
    · simp only [h1, if_false] at ha ⊢
      cases ns with
      | none => simp at ha
      | some nd =>
        cases os with
        | none => simp at ha
        | some od =>
          simp only [decide_eq_true_eq] at ha ⊢
          refine le_trans ?_ ha
          unfold fsub
          apply hr.mono
          have := slack_mono_tol hr X oldN h0 h
          linarith

theorem accept_mono_tol (hr : IsRounding rnd) (X : ExpTab) (t : Rat) (new old nom : Summary)
    (c : Crit) (hc : c = .tolDiameter ∨ c = .tolRadius) {tol tol' : Rat} (h0 : 0 ≤ tol)
    (h : tol ≤ tol') (ha : accept ⟨c, tol⟩ X t new old nom = true) :
    accept ⟨c, tol'⟩ X t new old nom = true := by
  rw [accept_tol_eq ⟨c, tol⟩ X t new old nom hc] at ha
  rw [accept_tol_eq ⟨c, tol'⟩ X t new old nom hc]
  exact tolBody_mono_tol hr X t old.n _ _ h0 h ha

/-- the legacy criterion is monotone in its tolerance as well (no sign condition needed) -/
theorem accept_mono_tol_legacy (hr : IsRounding rnd) (X : ExpTab) (t : Rat)
    (new old nom : Summary) {tol tol' : Rat} (h : tol ≤ tol')
    (ha : accept ⟨.tolLegacy, tol⟩ X t new old nom = true) :
    accept ⟨.tolLegacy, tol'⟩ X t new old nom = true := by
  simp only [accept] at ha ⊢
  by_cases hl : ltOpt (isimFromSum new.ls new.n) t = true
  · simp [hl] at ha
  · have hl0 := (Bool.not_eq_true _).mp hl
    simp only [hl0, Bool.false_eq_true, if_false] at ha ⊢
    by_cases h1 : old.n = 1 ∨ nom.n ≠ 1
    · simp only [h1, if_true]
    · simp only [h1, if_false] at ha ⊢
      cases hns : isimFromSum new.ls new.n with
      | none => simp [hns] at ha
      | some nd =>
        cases hos : isimFromSum old.ls old.n with
        | none => simp [hns, hos] at ha
        | some od =>
          simp only [hns, hos, decide_eq_true_eq] at ha ⊢
          refine le_trans ?_ ha
          unfold fsub
          apply hr.mono
          linarith

/-! ### 12. dispatch by name -/

theorem ofName_name (c : Crit) : Crit.ofName? c.name = some c := by
  cases c <;> decide

theorem name_injective : Function.Injective Crit.name := by
  intro a b hab
  have h := ofName_name a
  rw [hab, ofName_name b] at h
  exact (Option.some.inj h).symm

theorem name_of_ofName {name : String} {c : Crit} (h : Crit.ofName? name = some c) :
    c.name = name := by
  unfold Crit.ofName? at h
  split at h <;> first | (cases h; rfl) | exact absurd h (by simp)

theorem ofName_eq_none_iff (name : String) :
    Crit.ofName? name = none ↔ ∀ c : Crit, c.name ≠ name := by
  constructor
  · intro h c hcn
    rw [← hcn, ofName_name] at h
    exact absurd h (by simp)
  · intro h
    cases hc : Crit.ofName? name with
    | none => rfl
    | some c => exact absurd (name_of_ofName hc) (h c)

theorem getMergeFn_spec (name : String) (tol : Rat) (m : MergeFn)
    (h : getMergeFn name tol = some m) : m.crit.name = name ∧ m.tol = tol := by
  unfold getMergeFn at h
  cases hc : Crit.ofName? name with
  | none => rw [hc] at h; exact absurd h (by simp)
  | some c =>
    rw [hc] at h
    simp only [Option.map_some, Option.some.injEq] at h
    subst h
    exact ⟨name_of_ofName hc, rfl⟩

theorem getMergeFn_none_iff (name : String) (tol : Rat) :
    getMergeFn name tol = none ↔ ∀ c : Crit, c.name ≠ name := by
  unfold getMergeFn
  rw [Option.map_eq_none_iff]
  exact ofName_eq_none_iff name

/-- `getMergeFn` succeeds on the name of every criterion -/
theorem getMergeFn_name (c : Crit) (tol : Rat) :
    getMergeFn c.name tol = some ⟨c, tol⟩ := by
  unfold getMergeFn
  rw [ofName_name]
  rfl

end BB

