/-
GenEq8 — the node-level list operations of `_BFNode` (`append_subcluster`, `update_split_subclusters`, the
`packed_centroids` view), as translated on this run, against the list manipulations the model's insertion performs
(`BBModel/Tree.lean`: `ents.set i (c1, t1) ++ [(c2, t2)]`, `cache.set i c1.cent ++ [c2.cent]`).

Sub-clusters are handles (object identities) and the rows of `_packed_centroids_buf` centroid tokens; the entry list is
`arr .big subs`, the preallocated buffer `arr .big buf` with `subs.length < buf.length` (the buffer has
`branching_factor + 1` rows and a node is split as soon as it holds more than `branching_factor` entries).
-/
import BBProofs.GenEq

namespace BB
open PV

theorem setAt_nat (w : W) (xs : List Nat) (i v : Nat) (h : i < xs.length) :
    PV.setAt (arr w xs) (int i) (int v) = arr w (xs.set i v) := by
  have h0 : ¬ ((i : Int) < 0) := by omega
  have h1 : (i : Int) < (xs.length : Int) := by omega
  simp [PV.setAt, h0, h1]

theorem gen_node_cache (expf : Rat → Rat) (subs buf : List Nat) (log : PV) :
    BBGen._BFNode_packed_centroids expf (arr .big subs) (arr .big buf) log = arr .big (buf.take subs.length) := by
  simp [BBGen._BFNode_packed_centroids, PV.takeN, PV.len]

/-- `append_subcluster`: the handle goes to the end of the entry list, its centroid into the next free row -/
theorem gen_node_append (expf : Rat → Rat) (subs buf : List Nat) (log : PV) (h c : Nat) (hlen : subs.length < buf.length) :
    BBGen._BFNode_append_subcluster expf (arr .big subs) (arr .big buf) log (int h) (int c)
      = [arr .big (subs ++ [h]), arr .big (buf.set subs.length c), log] := by
  simp [BBGen._BFNode_append_subcluster, PV.len, PV.listAppend, setAt_nat _ _ _ _ hlen]

/-- `update_split_subclusters`: the split entry (first occurrence of its handle, at `i`) is replaced in place by the
first half, the second half is appended; the buffer rows follow -/
theorem gen_node_split_update (expf : Rat → Rat) (subs buf : List Nat) (log : PV) (h h1 h2 c1 c2 i : Nat)
    (hlen : subs.length < buf.length) (hi : subs.idxOf? h = some i) :
    BBGen._BFNode_update_split_subclusters expf (arr .big subs) (arr .big buf) log (int h) (int h1) (int h2) (int c1) (int c2)
      = [arr .big (subs.set i h1 ++ [h2]), arr .big ((buf.set i c1).set subs.length c2), log] := by
  have hil : i < subs.length := by
    obtain ⟨hh, _⟩ := List.idxOf?_eq_some_iff.mp hi
    exact hh
  have hib : i < buf.length := by omega
  unfold BBGen._BFNode_update_split_subclusters
  simp only [PV.listIndex, Int.natCast_nonneg, if_true, Int.toNat_natCast, hi]
  rw [setAt_nat _ _ _ _ hil, setAt_nat _ _ _ _ hib]
  have := gen_node_append expf (subs.set i h1) (buf.set i c1) log h2 c2 (by simpa using hlen)
  simp [this]

/-- THE CACHE STAYS ALIGNED WITH THE ENTRIES (`append_subcluster`): if the valid part of the buffer lists the centroids of
the entries, it still does after the call -/
theorem gen_node_append_aligned (expf : Rat → Rat) (cent : Nat → Nat) (subs buf : List Nat) (log : PV) (h : Nat)
    (hlen : subs.length < buf.length) (hal : buf.take subs.length = subs.map cent) :
    let st := BBGen._BFNode_append_subcluster expf (arr .big subs) (arr .big buf) log (int h) (int (cent h))
    BBGen._BFNode_packed_centroids expf (st.getD 0 pynone) (st.getD 1 pynone) (st.getD 2 pynone)
      = arr .big ((subs ++ [h]).map cent) := by
  intro st
  have hst : st = [arr .big (subs ++ [h]), arr .big (buf.set subs.length (cent h)), log] :=
    gen_node_append expf subs buf log h (cent h) hlen
  rw [hst]
  simp only [List.getD_cons_zero, List.getD_cons_succ, gen_node_cache]
  congr 1
  rw [List.length_append, List.length_singleton, List.take_add_one]
  simp [List.take_set_of_le, hal, hlen]

/-- THE CACHE STAYS ALIGNED WITH THE ENTRIES (`update_split_subclusters`): afterwards the entries are
`subs.set i h1 ++ [h2]` and the valid part of the buffer is `(cache.set i c1) ++ [c2]` — the very list expressions of the
model's insertion (`ents'`, `cache'` in `BB.ins`) — and it lists the centroids of the entries again -/
theorem gen_node_split_aligned (expf : Rat → Rat) (cent : Nat → Nat) (subs buf : List Nat) (log : PV) (h h1 h2 i : Nat)
    (hlen : subs.length < buf.length) (hi : subs.idxOf? h = some i) (hal : buf.take subs.length = subs.map cent) :
    let st := BBGen._BFNode_update_split_subclusters expf (arr .big subs) (arr .big buf) log (int h) (int h1) (int h2)
                (int (cent h1)) (int (cent h2))
    st.getD 0 pynone = arr .big (subs.set i h1 ++ [h2]) ∧
    BBGen._BFNode_packed_centroids expf (st.getD 0 pynone) (st.getD 1 pynone) (st.getD 2 pynone)
      = arr .big ((subs.map cent).set i (cent h1) ++ [cent h2]) ∧
    (subs.map cent).set i (cent h1) ++ [cent h2] = (subs.set i h1 ++ [h2]).map cent := by
  intro st
  have hst : st = [arr .big (subs.set i h1 ++ [h2]), arr .big ((buf.set i (cent h1)).set subs.length (cent h2)), log] :=
    gen_node_split_update expf subs buf log h h1 h2 (cent h1) (cent h2) i hlen hi
  have hil : i < subs.length := by
    obtain ⟨hh, _⟩ := List.idxOf?_eq_some_iff.mp hi
    exact hh
  rw [hst]
  refine ⟨rfl, ?_, ?_⟩
  · simp only [List.getD_cons_zero, List.getD_cons_succ, gen_node_cache]
    congr 1
    rw [List.length_append, List.length_singleton, List.length_set, List.take_add_one]
    have h1' : subs.length < (buf.set i (cent h1)).length := by simpa using hlen
    simp only [List.take_set_of_le (Nat.le_refl _)]
    rw [List.take_set, hal, List.getElem?_set_self h1']
    rfl
  · simp [List.map_set]
