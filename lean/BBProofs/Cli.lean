/-
The command line (`BBModel/Cli.lean`): every operation of the `bb run` plan succeeds from the
states the plan reaches, and the invariant is handed on with the exact labelling of the
concatenated input files.
-/
import BBProofs.OpsWF
import BBProofs.Multiround
import BBModel.Cli

namespace BB
variable (pol : Cfg → Policy)

/-! ### facts about the invariant -/

theorem mem_idsOf {M : Multiset Clu} {c : Clu} (hc : c ∈ M) {i : Nat} (hi : i ∈ c.ids) : i ∈ idsOf M := by
  obtain ⟨M', rfl⟩ := Multiset.exists_cons_of_mem hc
  rw [← Multiset.singleton_add, idsOf_add, idsOf_singleton]
  exact Multiset.mem_add.mpr (Or.inl (by simpa using hi))

/-- every member label is below `numFitted` -/
theorem EInv.id_lt {F : Nat} {Q : Clu → Prop} {e : Est} (h : EInv F Q e) {c : Clu} (hc : c ∈ e.st.lclusM)
    {i : Nat} (hi : i ∈ c.ids) : i < e.numFitted := by
  have := mem_idsOf hc hi
  rw [h.part] at this
  simpa using this

/-- an estimator that holds a label has a tree -/
theorem EInv.isInit_of_pos {F : Nat} {Q : Clu → Prop} {e : Est} (h : EInv F Q e) (hn : 0 < e.numFitted) :
    e.st.isInit = true := by
  cases hst : e.st with
  | uninit =>
    have := h.part
    rw [hst] at this
    have := congrArg Multiset.card this
    simp [TreeSt.lclusM] at this
    omega
  | full hh F' root chain next => rfl
  | leavesOnly F' ls => rfl

/-! ### rebuilding a tree: success together with the invariant -/

theorem rebuild_ok (hpol : ∀ cfg, (pol cfg).Valid) (F : Nat) (Q : Clu → Prop) (e0 : Est)
    (hst : e0.st = .uninit) (hnf : e0.numFitted = 0)
    (hbf : 2 ≤ e0.cfg.bf) (n : Nat) (gs : List (W × List Clu))
    (hne : ∀ g ∈ gs, g.2 ≠ []) (hlen : ∀ g ∈ gs, ∀ u ∈ g.2, u.ls.length = F)
    (hq : ∀ g ∈ gs, ∀ u ∈ g.2, Q u.asUnit)
    (hids : idsOf ((gs.flatMap (·.2) : List Clu) : Multiset Clu) = ((List.range n : List Nat) : Multiset Nat))
    (hmerge : ∀ c s, Q c → Q s → (pol e0.cfg).accept c s = true → Q (c.merge s)) :
    ∃ e', refitGroups pol e0 gs = (e', none) ∧ e'.cfg = e0.cfg ∧ EInv F Q e' ∧ e'.numFitted = n ∧
      e'.st.isLeavesOnly = false := by
  obtain ⟨e', h1, hcfg, hinv, hn, _⟩ := rebuild_inv' pol hpol F Q e0 hst hnf hbf n gs hne hlen hq hids hmerge
  obtain ⟨e'', h2, _, _, hlo, _⟩ := refitGroups_spec pol hpol F gs e0 (by omega) (by rw [hst]; trivial)
    (by rw [hst]; rfl) (by intro F' h; rw [hst] at h; simp [TreeSt.F?] at h) hne hlen
  rw [h1] at h2
  cases h2
  exact ⟨e', h1, hcfg, hinv, hn, hlo⟩

/-! ### `fit` of a well-formed, non-empty file -/

theorem goodPrefix_all (F : Nat) (l : List (Nat × Row)) (h : ∀ p ∈ l, p.2.length = F) : goodPrefix F l = l := by
  unfold goodPrefix
  rw [List.takeWhile_eq_self_iff]
  intro p hp
  simp [rowOk, h p hp]

theorem fit_ok (hpol : ∀ cfg, (pol cfg).Valid) (F : Nat) (Q : Clu → Prop) (e : Est) (hinv : EInv F Q e)
    (hlo : e.st.isLeavesOnly = false) (rows : List Row) (hne : rows ≠ []) (hlen : ∀ r ∈ rows, r.length = F)
    (hq : ∀ i (hi : i < rows.length), Q (Clu.ofRow rows[i] (e.numFitted + i)))
    (hmerge : MergeClosed pol Q e.cfg) :
    ∃ e', fit (pol e.cfg) e rows none = (e', none) ∧ e'.cfg = e.cfg ∧ EInv F Q e' ∧
      e'.numFitted = e.numFitted + rows.length ∧ e'.st.isLeavesOnly = false := by
  obtain ⟨r0, rest, rfl⟩ := List.exists_cons_of_ne_nil hne
  have hinv' := fit_inv pol hpol F Q e hinv (r0 :: rest)
    (by intro r h; simp only [List.head?_cons, Option.some.injEq] at h; subst h; exact hlen _ (by simp))
    (fun _ i hi _ => hq i hi) hmerge
  have hFF : (e.st.F?).getD r0.length = F := by
    cases h : e.st.F? with
    | none => simpa using hlen r0 (by simp)
    | some F' => simpa using hinv.fF F' h
  obtain ⟨st', h1, _, hlo', _, _, _⟩ :=
    fitRows_spec (pol e.cfg) (hpol _) e.cfg.bf (by have := hinv.bf; omega) F
      ((List.range' e.numFitted (r0 :: rest).length).zip (r0 :: rest)) e.st e.numFitted hinv.ok hlo
  have hgp : goodPrefix F ((List.range' e.numFitted (r0 :: rest).length).zip (r0 :: rest))
      = (List.range' e.numFitted (r0 :: rest).length).zip (r0 :: rest) :=
    goodPrefix_all F _ (by
      intro p hp
      obtain ⟨i, hi, rfl⟩ := mem_zip_range' _ _ p hp
      exact hlen _ (List.getElem_mem _))
  rw [hgp] at h1
  rw [fit_eq _ _ _ _ _ hlo] at hinv' ⊢
  simp only [hFF, h1] at hinv' ⊢
  refine ⟨{ e with st := st', numFitted := e.numFitted +
    ((List.range' e.numFitted (r0 :: rest).length).zip (r0 :: rest)).length }, by simp, rfl, hinv', by simp, hlo'⟩

end BB

namespace BB
variable (pol : Cfg → Policy)

/-! ### `delete_internal_nodes` on a fitted estimator -/

theorem delInternal_noerr (e : Est) (hi : e.st.isInit = true) (hlo : e.st.isLeavesOnly = false) :
    (delInternal e).2 = none := by
  unfold delInternal
  cases hst : e.st with
  | uninit => rw [hst] at hi; simp [TreeSt.isInit] at hi
  | leavesOnly F ls => rw [hst] at hlo; simp [TreeSt.isLeavesOnly] at hlo
  | full h F root chain next => cases h <;> rfl

/-! ### `refine_inplace` given the data that was fitted -/

theorem mapM_option_isSome {α β : Type} (f : α → Option β) :
    ∀ (l : List α), (∀ a ∈ l, (f a).isSome) → (l.mapM f).isSome
  | [], _ => by simp
  | a :: l, h => by
    obtain ⟨b, hb⟩ := Option.isSome_iff_exists.mp (h a (by simp))
    obtain ⟨bs, hbs⟩ := Option.isSome_iff_exists.mp (mapM_option_isSome f l (fun x hx => h x (by simp [hx])))
    simp [List.mapM_cons, hb, hbs]

/-- `explode` finds every row whose label is inside the data -/
theorem explode_total (data : List Row) (im : Nat) (ids : List Nat)
    (h : ∀ id ∈ ids, im ≤ id ∧ id < im + data.length) : (explode data im ids).isSome :=
  explode_isSome (fun i => data.getD (i - im) []) data im ids (by
    intro id hid
    obtain ⟨h1, h2⟩ := h id hid
    refine ⟨h1, ?_⟩
    simp [List.getD_eq_getElem?_getD, List.getElem?_eq_getElem (show id - im < data.length by omega)])

theorem refineGroups_total (bfs : List Clu) (k : Nat) (data : List Row) (im : Nat) (srt : Bool)
    (h : ∀ c ∈ bfs, ∀ id ∈ c.ids, im ≤ id ∧ id < im + data.length) :
    ∃ gs, refineGroups bfs k data im srt = .ok gs := by
  unfold refineGroups
  simp only
  split
  · exact ⟨_, rfl⟩
  · have hs : ((bfs.take k).mapM (fun c => explode data im (if srt then c.ids.mergeSort (· ≤ ·) else c.ids))).isSome := by
      apply mapM_option_isSome
      intro c hc
      apply explode_total
      intro id hid
      apply h c (List.mem_of_mem_take hc) id
      split at hid
      · exact (List.mem_mergeSort).mp hid
      · exact hid
    obtain ⟨us, hus⟩ := Option.isSome_iff_exists.mp hs
    rw [hus]
    exact ⟨_, rfl⟩

theorem refine_ok (hpol : ∀ cfg, (pol cfg).Valid) (F : Nat) (Q : Clu → Prop)
    (hunit : ∀ c, Q c → Q c.asUnit) (e : Est) (hinv : EInv F Q e) (hlo : e.st.isLeavesOnly = false)
    (hpos : 0 < e.numFitted) (n : Nat) (data : List Row) (srt : Bool)
    (hdata : ∀ r ∈ data, r.length = F) (hN : e.numFitted ≤ data.length)
    (hqs : ∀ id r, data[id]? = some r → Q (single r id))
    (hmerge : MergeClosed pol Q e.cfg) :
    ∃ e', refine pol e (n : Int) data 0 srt = (e', none) ∧ e'.cfg = e.cfg ∧ EInv F Q e' ∧
      e'.numFitted = e.numFitted ∧ e'.st.isLeavesOnly = false := by
  have hi := hinv.isInit_of_pos hpos
  unfold refine
  simp only [hi, Bool.not_true, Bool.false_eq_true, ↓reduceIte]
  have hinv0 := delInternal_inv F Q e hinv
  have hcfg0 := delInternal_cfg e
  have herr0 := delInternal_noerr e hi hlo
  generalize hdi : delInternal e = di at hinv0 hcfg0 herr0
  obtain ⟨e0, x⟩ := di
  simp only at hinv0 hcfg0 herr0
  subst herr0
  simp only
  rw [if_neg (by omega)]
  have hsorted := sortedClus_coe e0.st hinv0.ok
  obtain ⟨groups, hg⟩ := refineGroups_total e0.st.sortedClus n data 0 srt (by
    intro c hc id hid
    have := hinv0.id_lt ((mem_of_coe_eq hsorted c).mp hc) hid
    rw [hcfg0.2] at this
    omega)
  simp only [Int.toNat_natCast, hg]
  obtain ⟨hne, singles, hflat, hids, hsing⟩ := refineGroups_spec _ _ _ _ _ _ hg
  have hmemdrop : ∀ u ∈ e0.st.sortedClus.drop n, u ∈ e0.st.lclusM := fun u hu => by
    rw [← hsorted]; exact List.mem_of_mem_drop hu
  have hmem : ∀ g ∈ groups, ∀ u ∈ g.2, u ∈ e0.st.lclusM ∨ u ∈ singles := by
    intro g hg' u hu
    have : u ∈ ((groups.flatMap (·.2) : List Clu) : Multiset Clu) := List.mem_flatMap.mpr ⟨g, hg', hu⟩
    rw [hflat] at this
    rcases Multiset.mem_add.mp this with h | h
    · exact Or.inl (hmemdrop u h)
    · exact Or.inr h
  have hsl : ∀ u ∈ singles, u.ls.length = F ∧ Q u := by
    intro u hu
    obtain ⟨id, r, _, hr, rfl⟩ := hsing u hu
    refine ⟨?_, hqs id r (by simpa using hr)⟩
    have : r ∈ data := List.mem_of_getElem? hr
    simp [single, Clu.ofBuffer, rowToNat, hdata r this]
  obtain ⟨e', h1, hcfg', hinv', hn', hlo'⟩ := rebuild_ok pol hpol F Q e0.reset rfl rfl hinv0.bf e0.numFitted groups hne
    (fun g hg' u hu => by
      rcases hmem g hg' u hu with h | h
      · exact hinv0.lsLen u h
      · exact (hsl u h).1)
    (fun g hg' u hu => by
      rcases hmem g hg' u hu with h | h
      · exact hunit u (hinv0.q u h)
      · obtain ⟨id, r, _, hr, rfl⟩ := hsing u h
        rw [single_asUnit]; exact hqs id r (by simpa using hr))
    (by
      rw [hflat, idsOf_add, hids, ← idsOf_add, add_comm, Multiset.coe_add, List.take_append_drop, hsorted]
      exact hinv0.part)
    (by
      have : e0.reset.cfg = e.cfg := by simp [Est.reset, hcfg0.1]
      rw [this]; exact hmerge)
  refine ⟨e', h1, ?_, hinv', by rw [hn', hcfg0.2], hlo'⟩
  rw [hcfg']
  simp [Est.reset, hcfg0.1]

/-! ### one `recluster_inplace` iteration without early stop -/

theorem recluster1_ok (hpol : ∀ cfg, (pol cfg).Valid) (F : Nat) (Q : Clu → Prop)
    (hunit : ∀ c, Q c → Q c.asUnit) (e : Est) (hinv : EInv F Q e)
    (hpos : 0 < e.numFitted) (extra : Rat) (perms : List (Option (List Nat)))
    (hmerge : MergeClosed pol Q { e.cfg with thr := fadd e.cfg.thr extra }) :
    ∃ e', recluster pol e 1 extra perms false = (e', none) ∧
      e'.cfg = { e.cfg with thr := fadd e.cfg.thr extra } ∧ EInv F Q e' ∧
      e'.numFitted = e.numFitted ∧ e'.st.isLeavesOnly = false := by
  have hi := hinv.isInit_of_pos hpos
  unfold recluster
  simp only [hi, Bool.not_true, Bool.false_eq_true, ↓reduceIte]
  have hperm : ((shuffled e.st.sortedClus perms.head? : List Clu) : Multiset Clu) = e.st.lclusM := by
    rw [← sortedClus_coe e.st hinv.ok]
    unfold shuffled
    split
    · exact Multiset.coe_eq_coe.mpr (applyPerm_perm _ _)
    · rfl
  obtain ⟨_, hne, hflat⟩ := groupByW_spec (shuffled e.st.sortedClus perms.head?)
  have hmem : ∀ g ∈ groupByW (shuffled e.st.sortedClus perms.head?), ∀ u ∈ g.2, u ∈ e.st.lclusM := by
    intro g hg u hu
    rw [← hperm, ← hflat]
    exact List.mem_flatMap.mpr ⟨g, hg, hu⟩
  obtain ⟨e3, h3, hcfg3, hinv3, hn3, hlo3⟩ := rebuild_ok pol hpol F Q
    { cfg := { e.cfg with thr := fadd e.cfg.thr extra }, st := .uninit, numFitted := 0 } rfl rfl hinv.bf
    e.numFitted (groupByW (shuffled e.st.sortedClus perms.head?)) hne
    (fun g hg u hu => hinv.lsLen u (hmem g hg u hu))
    (fun g hg u hu => hunit u (hinv.q u (hmem g hg u hu)))
    (by rw [hflat, hperm]; exact hinv.part) hmerge
  have hstart : ({ (e.reset) with cfg := { e.reset.cfg with thr := fadd e.reset.cfg.thr extra } } : Est)
      = { cfg := { e.cfg with thr := fadd e.cfg.thr extra }, st := .uninit, numFitted := 0 } := rfl
  refine ⟨e3, ?_, hcfg3, hinv3, hn3, hlo3⟩
  show reclusterLoop pol extra false (0 + 1) perms 0 e = (e3, none)
  unfold reclusterLoop
  simp only [Bool.false_and, Bool.false_eq_true, ↓reduceIte]
  rw [hstart, h3]
  simp [reclusterLoop]

/-! ### `set_merge` by name -/

theorem setMerge_name_ok (e : Est) (s : String) (c : Crit) (hc : Crit.ofName? s = some c) (tol thr : Option Rat) :
    ∃ m, setMerge e (some (.name s)) tol thr none =
      ({ e with cfg := { thr := thr.getD e.cfg.thr, bf := e.cfg.bf, merge := m } }, none) := by
  simp [setMerge, selectMerge, hc]

theorem construct_name_ok (thr : Rat) (bf : Nat) (s : String) (c : Crit) (hc : Crit.ofName? s = some c)
    (tol : Option Rat) : ∃ m, construct thr bf (some (.name s)) tol = .ok (init { thr := thr, bf := bf, merge := m }) := by
  simp only [construct, selectMerge, hc, Option.getD_some]
  exact ⟨_, rfl⟩

end BB

namespace BB.Cli
open BB
variable (pol : Cfg → Policy)

/-! ### strict histories -/

theorem runStrict_append : ∀ (a b : List Op) (e e1 e2 : Est), runStrict pol e a = .ok e1 →
    runStrict pol e1 b = .ok e2 → runStrict pol e (a ++ b) = .ok e2
  | [], b, e, e1, e2, h1, h2 => by
    simp only [runStrict, Except.ok.injEq] at h1
    subst h1
    simpa using h2
  | op :: a, b, e, e1, e2, h1, h2 => by
    simp only [runStrict, List.cons_append] at h1 ⊢
    generalize stepWith pol e op = r at h1 ⊢
    obtain ⟨e', err⟩ := r
    cases err with
    | some x => simp at h1
    | none => exact runStrict_append a b e' e1 e2 h1 h2

/-- a strict history that completes is the plain history -/
theorem runStrict_runWith : ∀ (ops : List Op) (e e' : Est), runStrict pol e ops = .ok e' → runWith pol e ops = e'
  | [], e, e', h => by
    simp only [runStrict, Except.ok.injEq] at h
    simpa [runWith] using h
  | op :: ops, e, e', h => by
    simp only [runStrict] at h
    simp only [runWith, List.foldl_cons]
    generalize stepWith pol e op = r at h ⊢
    obtain ⟨e1, err⟩ := r
    cases err with
    | some x => simp at h
    | none => exact runStrict_runWith ops e1 e' h

theorem runStrict_single (e e' : Est) (op : Op) (h : stepWith pol e op = (e', none)) :
    runStrict pol e [op] = .ok e' := by
  simp [runStrict, h]

theorem runD_append (F : Nat) (D : Nat → Row) : ∀ (a b : List Op) (e : Est), RunD pol F D e a →
    RunD pol F D (runWith pol e a) b → RunD pol F D e (a ++ b)
  | [], _, _, _, h2 => by simpa [runWith] using h2
  | op :: a, b, e, h1, h2 => by
    refine ⟨h1.1, runD_append F D a b _ h1.2 ?_⟩
    simpa [runWith] using h2

/-! ### the states of a `bb run` plan -/

/-- a state that accepts further fits and holds exactly the labels `0 .. n-1`, each cluster exact
for the labelling `D` -/
structure Live (F : Nat) (D : Nat → Row) (e : Est) (n : Nat) : Prop where
  inv : EInv F (ExactN D) e
  lo : e.st.isLeavesOnly = false
  num : e.numFitted = n

/-- the outcome of a segment of the plan -/
def SegOK (F : Nat) (D : Nat → Row) (e : Est) (ops : List Op) (n : Nat) : Prop :=
  ∃ e', runStrict pol e ops = .ok e' ∧ RunD pol F D e ops ∧ Live F D e' n

theorem SegOK.append {F : Nat} {D : Nat → Row} {e : Est} {a b : List Op} {n m : Nat}
    (h1 : SegOK pol F D e a n) (h2 : ∀ e1, Live F D e1 n → SegOK pol F D e1 b m) : SegOK pol F D e (a ++ b) m := by
  obtain ⟨e1, r1, d1, l1⟩ := h1
  obtain ⟨e2, r2, d2, l2⟩ := h2 e1 l1
  refine ⟨e2, runStrict_append pol a b e e1 e2 r1 r2, runD_append pol F D a b e d1 ?_, l2⟩
  rw [runStrict_runWith pol a e e1 r1]
  exact d2

theorem dataOf_at (pre : List (List Row)) (f : List Row) (rest : List (List Row)) (i : Nat) (hi : i < f.length) :
    MR.dataOf (pre ++ f :: rest) (pre.flatten.length + i) = f[i] := by
  apply MR.dataOf_get
  rw [List.flatten_append, List.flatten_cons, List.getElem?_append_right (by omega)]
  simp [List.getElem?_append_left hi]

variable (hpol : ∀ cfg, (pol cfg).Valid)
include hpol

/-- the fits: the `k`-th file receives the labels that follow those of the files before it -/
theorem fits_ok (F : Nat) (files : List (List Row)) (hne : ∀ f ∈ files, f ≠ [])
    (hrow : ∀ f ∈ files, ∀ r ∈ f, r.length = F) :
    ∀ (rest pre : List (List Row)) (e : Est), files = pre ++ rest → Live F (MR.dataOf files) e pre.flatten.length →
      SegOK pol F (MR.dataOf files) e (fitOps rest) files.flatten.length
  | [], pre, e, hf, hl => by
    have : files = pre := by simpa using hf
    subst this
    exact ⟨e, rfl, trivial, hl⟩
  | f :: rest, pre, e, hf, hl => by
    have hfm : f ∈ files := by rw [hf]; simp
    have hD : ∀ i (hi : i < f.length), MR.dataOf files (e.numFitted + i) = f[i] := by
      intro i hi
      rw [hf, hl.num]
      exact dataOf_at pre f rest i hi
    obtain ⟨e1, h1, _, hinv1, hn1, hlo1⟩ := fit_ok pol hpol F (ExactN (MR.dataOf files)) e hl.inv hl.lo f
      (hne f hfm) (hrow f hfm) (fun i hi => ⟨exact_ofRow _ _ _ (hD i hi), le_refl 1⟩) (mergeClosed_exactN pol _ _)
    have hl1 : Live F (MR.dataOf files) e1 (pre ++ [f]).flatten.length :=
      ⟨hinv1, hlo1, by rw [hn1, hl.num]; simp⟩
    have hop : OpD F (MR.dataOf files) e (.fit f none) :=
      ⟨rfl, fun r0 h0 => hrow f hfm r0 (List.mem_of_mem_head? h0), fun _ i hi _ => hD i hi⟩
    have hseg : SegOK pol F (MR.dataOf files) e [Op.fit f none] (pre ++ [f]).flatten.length :=
      ⟨e1, runStrict_single pol e e1 _ h1, ⟨hop, trivial⟩, hl1⟩
    exact hseg.append pol (fun e' hl' => fits_ok F files hne hrow rest (pre ++ [f]) e' (by simp [hf]) hl')

theorem refines_ok (F : Nat) (files : List (List Row)) (hpos : 0 < files.flatten.length)
    (hrow : ∀ f ∈ files, ∀ r ∈ f, r.length = F) (n : Nat) :
    ∀ (k : Nat) (e : Est), Live F (MR.dataOf files) e files.flatten.length →
      SegOK pol F (MR.dataOf files) e (List.replicate k (.refine (n : Int) files.flatten 0 true)) files.flatten.length
  | 0, e, hl => ⟨e, rfl, trivial, hl⟩
  | k + 1, e, hl => by
    have hdata : ∀ r ∈ files.flatten, r.length = F := by
      intro r hr
      obtain ⟨f, hf, hrf⟩ := List.mem_flatten.mp hr
      exact hrow f hf r hrf
    obtain ⟨e1, h1, _, hinv1, hn1, hlo1⟩ := refine_ok pol hpol F (ExactN (MR.dataOf files)) (exactN_asUnit _) e hl.inv
      hl.lo (by rw [hl.num]; exact hpos) n files.flatten true hdata (by rw [hl.num])
      (by
        intro id r hr
        have := MR.dataOf_get files id r hr
        subst this
        exact ⟨exact_ofBuffer_singleton _ id, le_refl 1⟩)
      (mergeClosed_exactN pol _ _)
    have hop : OpD F (MR.dataOf files) e (.refine (n : Int) files.flatten 0 true) :=
      ⟨hdata, fun id r _ hr => (MR.dataOf_get files id r (by simpa using hr)).symm⟩
    have hseg : SegOK pol F (MR.dataOf files) e [Op.refine (n : Int) files.flatten 0 true] files.flatten.length :=
      ⟨e1, runStrict_single pol e e1 _ h1, ⟨hop, trivial⟩, ⟨hinv1, hlo1, by rw [hn1, hl.num]⟩⟩
    rw [List.replicate_succ]
    exact hseg.append pol (a := [_]) (fun e' hl' => refines_ok F files hpos hrow n k e' hl')

theorem reclusters_ok (F : Nat) (D : Nat → Row) (N : Nat) (hpos : 0 < N) (perms : List (Option (List Nat))) :
    ∀ (js : List Nat) (e : Est), Live F D e N →
      SegOK pol F D e (js.map (fun j => Op.recluster 1 0 [perms.getD j none] false)) N
  | [], e, hl => ⟨e, rfl, trivial, hl⟩
  | j :: js, e, hl => by
    obtain ⟨e1, h1, _, hinv1, hn1, hlo1⟩ := recluster1_ok pol hpol F (ExactN D) (exactN_asUnit _) e hl.inv
      (by rw [hl.num]; exact hpos) 0 [perms.getD j none] (mergeClosed_exactN pol _ _)
    have hseg : SegOK pol F D e [Op.recluster 1 0 [perms.getD j none] false] N :=
      ⟨e1, runStrict_single pol e e1 _ h1, ⟨trivial, trivial⟩, ⟨hinv1, hlo1, by rw [hn1, hl.num]⟩⟩
    rw [List.map_cons]
    exact hseg.append pol (a := [_]) (fun e' hl' => reclusters_ok F D N hpos perms js e' hl')

omit hpol in
theorem setMerge_seg (F : Nat) (D : Nat → Row) (N : Nat) (o : RunOpts) (hrc : (Crit.ofName? o.refineCrit).isSome)
    (e : Est) (hl : Live F D e N) : SegOK pol F D e [setMergeOp o] N := by
  obtain ⟨c, hc⟩ := Option.isSome_iff_exists.mp hrc
  obtain ⟨m, hm⟩ := setMerge_name_ok e o.refineCrit c hc (some o.tol) (some (fadd o.thr o.chg))
  refine ⟨_, runStrict_single pol e _ _ hm, ⟨?_, trivial⟩, ⟨cfg_inv F _ e hl.inv _ hl.inv.bf, hl.lo, hl.num⟩⟩
  intro b' hb'
  simp at hb'

/-- the refinement section (possibly empty) -/
theorem refineSection_ok (F : Nat) (files : List (List Row)) (hpos : 0 < files.flatten.length)
    (hrow : ∀ f ∈ files, ∀ r ∈ f, r.length = F) (o : RunOpts) (hrc : (Crit.ofName? o.refineCrit).isSome)
    (perms : List (Option (List Nat))) (e : Est) (hl : Live F (MR.dataOf files) e files.flatten.length) :
    SegOK pol F (MR.dataOf files) e (refineSection o files perms) files.flatten.length := by
  unfold refineSection
  split
  · rw [List.append_assoc]
    refine (setMerge_seg pol F _ _ o hrc e hl).append pol (fun e1 hl1 => ?_)
    refine (refines_ok pol hpol F files hpos hrow _ _ e1 hl1).append pol (fun e2 hl2 => ?_)
    exact reclusters_ok pol hpol F _ _ hpos perms _ e2 hl2
  · exact ⟨e, rfl, trivial, hl⟩

end BB.Cli

namespace BB.Cli
open BB
variable (pol : Cfg → Policy)

/-- the documented domain of `bb run`: known criterion names, a branching factor of at least 2, at
least one input file, no empty file, all fingerprints of the same length `F` -/
structure RunDom (o : RunOpts) (files : List (List Row)) (F : Nat) : Prop where
  crit : (Crit.ofName? o.crit).isSome
  refineCrit : (Crit.ofName? o.refineCrit).isSome
  bf : 2 ≤ o.bf
  atLeastOne : files ≠ []
  nonempty : ∀ f ∈ files, f ≠ []
  width : ∀ f ∈ files, ∀ r ∈ f, r.length = F

theorem flatten_pos (files : List (List Row)) (h0 : files ≠ []) (hne : ∀ f ∈ files, f ≠ []) :
    0 < files.flatten.length := by
  obtain ⟨f, fs, rfl⟩ := List.exists_cons_of_ne_nil h0
  have := List.length_pos_of_ne_nil (hne f (by simp))
  simp only [List.flatten_cons, List.length_append]
  omega

/-- **the whole command**: on its domain `bb run` completes; the state it reports from is the API
history `construct` + `runPlan`, the history is consistent with the labelling "label `i` = row `i`
of the concatenated files", and the state holds exactly the labels `0 .. N-1` in exact clusters -/
theorem cliRun_spec (hpol : ∀ cfg, (pol cfg).Valid) (o : RunOpts) (files : List (List Row))
    (perms : List (Option (List Nat))) (F : Nat) (hd : RunDom o files F) :
    ∃ e0 e, construct o.thr o.bf (some (.name o.crit)) (some o.tol) = .ok e0 ∧
      cliRun pol o files perms = .ok e ∧ e = runWith pol e0 (runPlan o files perms) ∧
      RunD pol F (MR.dataOf files) e0 (runPlan o files perms) ∧
      EInv F (ExactN (MR.dataOf files)) e ∧ e.numFitted = files.flatten.length := by
  obtain ⟨c, hc⟩ := Option.isSome_iff_exists.mp hd.crit
  obtain ⟨m, hm⟩ := construct_name_ok o.thr o.bf o.crit c hc (some o.tol)
  have hpos := flatten_pos files hd.atLeastOne hd.nonempty
  have hl0 : Live F (MR.dataOf files) (init { thr := o.thr, bf := o.bf, merge := m }) ([] : List (List Row)).flatten.length :=
    ⟨init_inv F _ _ hd.bf, rfl, rfl⟩
  have hseg : SegOK pol F (MR.dataOf files) (init { thr := o.thr, bf := o.bf, merge := m })
      (fitOps files ++ refineSection o files perms) files.flatten.length :=
    (fits_ok pol hpol F files hd.nonempty hd.width files [] _ rfl hl0).append pol
      (fun e1 hl1 => refineSection_ok pol hpol F files hpos hd.width o hd.refineCrit perms e1 hl1)
  obtain ⟨e1, r1, d1, l1⟩ := hseg
  have hi1 := l1.inv.isInit_of_pos (by rw [l1.num]; exact hpos)
  have herr := delInternal_noerr e1 hi1 l1.lo
  have hfin : stepWith pol e1 .delInternal = ((delInternal e1).1, none) := by
    show delInternal e1 = _
    rw [← herr]
  have r2 := runStrict_single pol e1 _ _ hfin
  have hrun := runStrict_append pol _ _ _ _ _ r1 r2
  refine ⟨_, (delInternal e1).1, hm, ?_, ?_, ?_, delInternal_inv F _ e1 l1.inv, ?_⟩
  · simp only [cliRun, hm]
    exact hrun
  · exact (runStrict_runWith pol _ _ _ hrun).symm
  · refine runD_append pol F _ _ _ _ d1 ?_
    exact ⟨trivial, trivial⟩
  · rw [(delInternal_cfg e1).2, l1.num]

end BB.Cli

namespace BB.Cli

/-! ### a concrete option set (non-vacuity examples of BBProps/C15.lean) -/

def exampleOpts : RunOpts :=
  { bf := 50, thr := 13/20, chg := 0, tol := 1/20, crit := "diameter", refineCrit := "tolerance-diameter",
    refineNum := 0, refineRounds := some 2, reclusterRounds := 2, saveCentroids := true, saveTree := false,
    overwrite := true }

def exampleFiles : List (List Row) :=
  [[[true, false, true], [true, true, false]], [[false, false, true]], [[true, true, true], [false, true, false]]]

end BB.Cli
