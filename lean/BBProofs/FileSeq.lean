/-
Helpers for C16 (`BBModel/FileSeq.lean`): batching, ranges, fingerprints of a SMILES list,
the shared-memory branch, names of part files, the file-sequence index.
-/
import BBModel.FileSeq
import BBProofs.Names
import BBProofs.OpsAux
import BBProofs.Multiround

namespace BB.Files
open BB BB.MR

/-! ### `batched` -/

theorem batchedAux_fuel2 {α : Type} (n : Nat) (hn : 0 < n) :
    ∀ (fuel fuel' : Nat) (xs : List α), xs.length ≤ fuel → xs.length ≤ fuel' →
      batchedAux n fuel xs = batchedAux n fuel' xs := by
  intro fuel
  induction fuel with
  | zero =>
    intro fuel' xs h _
    have : xs = [] := List.length_eq_zero_iff.mp (by omega)
    subst this
    cases fuel' <;> rfl
  | succ fuel ih =>
    intro fuel' xs h h'
    cases xs with
    | nil => cases fuel' <;> rfl
    | cons x t =>
      have hd : (List.drop n (x :: t)).length ≤ t.length := by
        simp only [List.length_drop, List.length_cons]; omega
      simp only [List.length_cons] at h h'
      cases fuel' with
      | zero => omega
      | succ fuel' =>
        simp only [batchedAux, List.isEmpty_cons, Bool.false_eq_true, if_false]
        rw [ih fuel' _ (by omega) (by omega)]

theorem batchedAux_fuel {α : Type} (n : Nat) (hn : 0 < n) (fuel : Nat) (xs : List α)
    (h : xs.length ≤ fuel) : batchedAux n fuel xs = batchedAux n xs.length xs :=
  batchedAux_fuel2 n hn fuel xs.length xs h (Nat.le_refl _)

@[simp] theorem batched_nil {α : Type} (n : Nat) : batched n ([] : List α) = [] := by
  unfold batched; split <;> rfl

theorem batched_zero {α : Type} (xs : List α) : batched 0 xs = [] := by simp [batched]

theorem batched_of_ne_nil {α : Type} {n : Nat} (hn : 0 < n) {xs : List α} (hx : xs ≠ []) :
    batched n xs = xs.take n :: batched n (xs.drop n) := by
  cases xs with
  | nil => exact absurd rfl hx
  | cons x t =>
    have hd : (List.drop n (x :: t)).length ≤ t.length := by
      simp only [List.length_drop, List.length_cons]; omega
    unfold batched
    rw [if_neg (by omega), if_neg (by omega)]
    simp only [List.length_cons, batchedAux, List.isEmpty_cons, Bool.false_eq_true, if_false]
    rw [batchedAux_fuel n hn _ _ hd]

/-- induction along the batches -/
theorem batched_induct {α : Type} (n : Nat) (hn : 0 < n) (P : List α → Prop) (nil : P [])
    (step : ∀ xs, xs ≠ [] → P (xs.drop n) → P xs) : ∀ xs, P xs := by
  intro xs
  induction h : xs.length using Nat.strong_induction_on generalizing xs with
  | _ k ih =>
    cases xs with
    | nil => exact nil
    | cons x t =>
      apply step _ (by simp)
      apply ih (List.drop n (x :: t)).length _ _ rfl
      subst h
      simp only [List.length_drop, List.length_cons]; omega

theorem batched_flatten {α : Type} {n : Nat} (hn : 0 < n) (xs : List α) : (batched n xs).flatten = xs := by
  induction xs using batched_induct n hn with
  | nil => simp
  | step xs hx ih => rw [batched_of_ne_nil hn hx, List.flatten_cons, ih, List.take_append_drop]

theorem batched_mem {α : Type} {n : Nat} (hn : 0 < n) (xs : List α) :
    ∀ b ∈ batched n xs, b ≠ [] ∧ b.length ≤ n := by
  induction xs using batched_induct n hn with
  | nil => simp
  | step xs hx ih =>
    rw [batched_of_ne_nil hn hx]
    intro b hb
    rcases List.mem_cons.mp hb with rfl | hb
    · refine ⟨?_, by simp only [List.length_take]; omega⟩
      intro h
      have := congrArg List.length h
      simp only [List.length_take, List.length_nil] at this
      have : 0 < xs.length := List.length_pos_iff.mpr hx
      omega
    · exact ih b hb

theorem batched_eq_nil_iff {α : Type} {n : Nat} (hn : 0 < n) (xs : List α) : batched n xs = [] ↔ xs = [] := by
  constructor
  · intro h
    by_contra hx
    rw [batched_of_ne_nil hn hx] at h
    exact List.cons_ne_nil _ _ h
  · rintro rfl; simp

theorem batched_dropLast {α : Type} {n : Nat} (hn : 0 < n) (xs : List α) :
    ∀ b ∈ (batched n xs).dropLast, b.length = n := by
  induction xs using batched_induct n hn with
  | nil => simp
  | step xs hx ih =>
    rw [batched_of_ne_nil hn hx]
    by_cases hd : xs.drop n = []
    · rw [hd]; simp
    · have hne : batched n (xs.drop n) ≠ [] := fun h => hd ((batched_eq_nil_iff hn _).mp h)
      rw [List.dropLast_cons_of_ne_nil hne]
      intro b hb
      rcases List.mem_cons.mp hb with rfl | hb
      · have : 0 < (xs.drop n).length := List.length_pos_iff.mpr hd
        simp only [List.length_drop] at this
        simp only [List.length_take]; omega
      · exact ih b hb

theorem ceilDiv_of_le {a b : Nat} (ha : 0 < a) (hab : a ≤ b) : ceilDiv a b = 1 := by
  unfold ceilDiv
  apply Nat.div_eq_of_lt_le <;> omega

theorem ceilDiv_of_gt {a b : Nat} (hb : 0 < b) (hab : b < a) : ceilDiv a b = ceilDiv (a - b) b + 1 := by
  unfold ceilDiv
  rw [← Nat.add_div_right _ hb]
  congr 1; omega

theorem ceilDiv_zero (n : Nat) : ceilDiv 0 n = 0 := by
  unfold ceilDiv
  rcases Nat.eq_zero_or_pos n with rfl | hn
  · simp
  · exact Nat.div_eq_of_lt (by omega)

theorem batched_length {α : Type} {n : Nat} (hn : 0 < n) (xs : List α) :
    (batched n xs).length = ceilDiv xs.length n := by
  induction xs using batched_induct n hn with
  | nil => simp [ceilDiv_zero]
  | step xs hx ih =>
    rw [batched_of_ne_nil hn hx, List.length_cons, ih, List.length_drop]
    have hpos : 0 < xs.length := List.length_pos_iff.mpr hx
    by_cases hle : xs.length ≤ n
    · rw [ceilDiv_of_le hpos hle, show xs.length - n = 0 by omega, ceilDiv_zero]
    · rw [ceilDiv_of_gt (a := xs.length) hn (by omega)]

/-! ### ranges -/

theorem rangesFrom_map_snd {α : Type} (s : Nat) (bs : List (List α)) : (rangesFrom s bs).map (·.2) = bs := by
  induction bs generalizing s with
  | nil => rfl
  | cons b bs ih => simp [rangesFrom, ih]

theorem rangesFrom_length {α : Type} (s : Nat) (bs : List (List α)) : (rangesFrom s bs).length = bs.length := by
  rw [← List.length_map (f := (·.2)), rangesFrom_map_snd]

theorem rangesFrom_getElem {α : Type} (s : Nat) (bs : List (List α)) (i : Nat) (h : i < (rangesFrom s bs).length) :
    (rangesFrom s bs)[i] = ((s + (bs.take i).flatten.length, s + (bs.take (i + 1)).flatten.length),
      bs[i]'(by rw [rangesFrom_length] at h; exact h)) := by
  induction bs generalizing s i with
  | nil => simp [rangesFrom] at h
  | cons b bs ih =>
    cases i with
    | zero => simp [rangesFrom]
    | succ i =>
      simp only [rangesFrom, List.getElem_cons_succ, List.take_succ_cons, List.flatten_cons, List.length_append]
      rw [ih]
      simp only [Nat.add_assoc]

/-! ### the fingerprints of a list of SMILES -/

theorem filter_zipIdx_map {α β : Type} (g : α → β) (P : Nat → Bool) (Q : α → Bool) :
    ∀ (l : List α) (k : Nat), (∀ i (h : i < l.length), P (k + i) = Q l[i]) →
      (((l.map g).zipIdx k).filter (fun p => P p.2)).map (·.1) = (l.filter Q).map g := by
  intro l
  induction l with
  | nil => intros; rfl
  | cons a l ih =>
    intro k h
    have h0 : P k = Q a := h 0 (by simp)
    have ih' := ih (k + 1) (fun i hi => by
      have := h (i + 1) (by simp; omega)
      simpa [Nat.add_assoc, Nat.add_comm 1 i] using this)
    simp only [List.map_cons, List.zipIdx_cons, List.filter_cons, h0]
    cases Q a <;> simp [ih']

theorem mem_invalidIdxs {fp : String → Option Row} {smiles : List String} {i : Nat} :
    i ∈ invalidIdxs fp smiles ↔ ∃ s, smiles[i]? = some s ∧ fp s = none := by
  unfold invalidIdxs
  simp only [List.mem_map, List.mem_filter, List.mem_zipIdx_iff_getElem?, Option.isNone_iff_eq_none]
  constructor
  · rintro ⟨⟨s, j⟩, ⟨h1, h2⟩, rfl⟩
    exact ⟨s, h1, h2⟩
  · rintro ⟨s, h1, h2⟩
    exact ⟨(s, i), ⟨h1, h2⟩, rfl⟩

theorem invalidIdxs_sorted (fp : String → Option Row) (smiles : List String) :
    (invalidIdxs fp smiles).Pairwise (· < ·) := by
  unfold invalidIdxs
  have hs : ((smiles.zipIdx.filter (fun p => (fp p.1).isNone)).map (·.2)).Sublist (smiles.zipIdx.map (·.2)) :=
    List.filter_sublist.map _
  have : smiles.zipIdx.map (·.2) = List.range' 0 smiles.length := List.zipIdx_map_snd 0 smiles
  rw [this] at hs
  exact List.Pairwise.sublist hs (List.pairwise_lt_range' 1)

theorem filter_isSome_map_slot (fp : String → Option Row) (l : List String) :
    (l.filter (fun s => (fp s).isSome)).map (slot fp) = l.filterMap fp := by
  induction l with
  | nil => rfl
  | cons s l ih =>
    simp only [List.filter_cons, List.filterMap_cons]
    cases h : fp s <;> simp [ih, slot, h]

theorem fpsFromSmiles_fst (fp : String → Option Row) (smiles : List String) :
    (fpsFromSmiles fp smiles).1 = smiles.filterMap fp := by
  unfold fpsFromSmiles deleteIdxs
  simp only
  rw [filter_zipIdx_map (slot fp) (fun i => !(invalidIdxs fp smiles).contains i) (fun s => (fp s).isSome) smiles 0,
    filter_isSome_map_slot]
  intro i h
  simp only [Nat.zero_add]
  cases hc : (invalidIdxs fp smiles).contains i
  · have : i ∉ invalidIdxs fp smiles := by simpa using hc
    rw [mem_invalidIdxs] at this
    cases hf : fp smiles[i] with
    | none => exact absurd ⟨smiles[i], by simp [h], hf⟩ this
    | some r => rfl
  · have : i ∈ invalidIdxs fp smiles := by simpa using hc
    obtain ⟨s, h1, h2⟩ := mem_invalidIdxs.mp this
    have : smiles[i] = s := by
      rw [List.getElem?_eq_getElem h] at h1; exact Option.some.inj h1
    rw [this, h2]; rfl

theorem fpsFromSmiles_snd (fp : String → Option Row) (smiles : List String) :
    (fpsFromSmiles fp smiles).2 = invalidIdxs fp smiles := rfl

theorem map_filterMap_flatten {α β : Type} (f : α → Option β) (bs : List (List α)) :
    (bs.map (List.filterMap f)).flatten = bs.flatten.filterMap f := by
  induction bs with
  | nil => rfl
  | cons b bs ih => rw [List.map_cons, List.flatten_cons, List.flatten_cons, List.filterMap_append, ih]

/-! ### part files -/

theorem partFiles_map_snd (fp : String → Option Row) (smiles : List String) (per : Nat) (digits : Option Nat)
    (out : String) :
    (partFiles fp smiles per digits out).map (·.2) = (batched per smiles).map (List.filterMap fp) := by
  unfold partFiles idxBatches createFile
  simp only [List.map_map]
  have : ((fun x : String × List Row => x.2) ∘ (fun input : Nat × List String =>
      (partName out digits input.1, (fpsFromSmiles fp input.2).1)) ∘ fun p : List String × Nat => (p.2, p.1))
      = (List.filterMap fp) ∘ Prod.fst := by
    funext p; exact fpsFromSmiles_fst fp p.1
  rw [this, ← List.map_map, List.zipIdx_map_fst]

theorem partFiles_map_fst (fp : String → Option Row) (smiles : List String) (per : Nat) (digits : Option Nat)
    (out : String) :
    (partFiles fp smiles per digits out).map (·.1) = (List.range' 0 (batched per smiles).length).map (partName out digits) := by
  unfold partFiles idxBatches createFile
  simp only [List.map_map]
  have : ((fun x : String × List Row => x.1) ∘ (fun input : Nat × List String =>
      (partName out digits input.1, (fpsFromSmiles fp input.2).1)) ∘ fun p : List String × Nat => (p.2, p.1))
      = (partName out digits) ∘ Prod.snd := by
    funext p; rfl
  rw [this, ← List.map_map, List.zipIdx_map_snd]

theorem str_le_of_lt {a b : String} (h : a < b) : a ≤ b := by
  rw [str_le_iff]; exact String.lt_asymm h

/-- names `pre ++ zfill d i ++ post` are ordered like the numbers below `10 ^ d` -/
theorem zfill_name_lt (pre post : String) (d i j : Nat) (h : i < j) (hj : j < 10 ^ d) :
    pre ++ zfill d i ++ post < pre ++ zfill d j ++ post := by
  have hz : 0 < d := by
    rcases Nat.eq_zero_or_pos d with rfl | hz
    · simp at hj; omega
    · exact hz
  rw [str_lt_iff]
  simp only [String.toList_append, List.append_assoc]
  rw [append_lt_append_left_iff, append_lt_append_right_iff]
  · exact (str_lt_iff _ _).mp (zfill_lt i j d h hj)
  · rw [String.length_toList, String.length_toList, zfill_length d i hz (by omega), zfill_length d j hz hj]

theorem range'_map_pairwise_lt (f : Nat → String) (n : Nat)
    (hf : ∀ i j, i < j → j < n → f i < f j) : ((List.range' 0 n).map f).Pairwise (· < ·) := by
  rw [List.pairwise_map]
  refine List.Pairwise.imp_of_mem ?_ (List.pairwise_lt_range' (s := 0) (n := n) 1)
  intro a b _ hb hab
  have : b < n := by simpa using (List.mem_range'_1.mp hb).2
  exact hf a b hab this

theorem partName_pairwise (out : String) (d n : Nat) (hn : n ≤ 10 ^ d) :
    ((List.range' 0 n).map (partName out (some d))).Pairwise (· < ·) := by
  apply range'_map_pairwise_lt
  intro i j hij hj
  have := zfill_name_lt (out ++ ".") "" d i j hij (by omega)
  simpa [partName, String.append_assoc] using this

theorem mergeFiles_of_pairwise {α : Type} (files : List (String × List α))
    (h : (files.map (·.1)).Pairwise (· < ·)) : mergeFiles files = (files.map (·.2)).flatten := by
  unfold mergeFiles
  rw [List.mergeSort_of_pairwise]
  · rw [List.flatMap_def]
  · rw [List.pairwise_map] at h
    exact h.imp (fun hab => by simpa using str_le_of_lt hab)

theorem splitFile_map_snd {α : Type} (rows : List α) (per digits : Nat) (stem : String) :
    (splitFile rows per digits stem).map (·.2) = batched per rows := by
  unfold splitFile
  simp only [List.map_map]
  exact List.zipIdx_map_fst 0 _

theorem splitFile_map_fst {α : Type} (rows : List α) (per digits : Nat) (stem : String) :
    (splitFile rows per digits stem).map (·.1)
      = (List.range' 0 (batched per rows).length).map (fun i => stem ++ "." ++ zfill digits i ++ ".npy") := by
  unfold splitFile
  simp only [List.map_map]
  rw [← List.zipIdx_map_snd 0 (batched per rows), List.map_map]
  rfl

/-! ### the shared-memory branch -/

theorem lt_of_getElem?_some {α : Type} {l : List α} {i : Nat} {a : α} (h : l[i]? = some a) : i < l.length :=
  (List.getElem?_eq_some_iff.mp h).1

/-- the element writes of one task -/
def writesOf (task : (Nat × Nat) × List String) : List (Nat × String) :=
  (List.range' task.1.1 (task.1.2 - task.1.1)).zip task.2

/-- one iteration of the filler's loop -/
def write (fp : String → Option Row) (st : Shm) (w : Nat × String) : Shm :=
  match fp w.2 with
  | none => { st with mask := st.mask.set w.1 true }
  | some row => { st with fps := st.fps.set w.1 row }

theorem fillRange_eq (fp : String → Option Row) (st : Shm) (task : (Nat × Nat) × List String) :
    fillRange fp st task = (writesOf task).foldl (write fp) st := rfl

theorem foldl_fillRange (fp : String → Option Row) (tasks : List ((Nat × Nat) × List String)) (st : Shm) :
    tasks.foldl (fillRange fp) st = (tasks.flatMap writesOf).foldl (write fp) st := by
  rw [List.foldl_flatMap]; rfl

/-- cell `i` is still as allocated -/
def CellInit (st : Shm) (i : Nat) : Prop := st.fps[i]? = some [] ∧ st.mask[i]? = some false

/-- cell `i` holds what `smiles[i]` determines -/
def CellFinal (fp : String → Option Row) (smiles : List String) (st : Shm) (i : Nat) : Prop :=
  ∃ s, smiles[i]? = some s ∧ st.fps[i]? = some (slot fp s) ∧ st.mask[i]? = some (fp s).isNone

def ShmInv (fp : String → Option Row) (smiles : List String) (st : Shm) : Prop :=
  ∀ i, i < smiles.length → CellInit st i ∨ CellFinal fp smiles st i

theorem write_spec (fp : String → Option Row) (smiles : List String) (st : Shm) (w : Nat × String)
    (hw : smiles[w.1]? = some w.2) (hinv : ShmInv fp smiles st) :
    ShmInv fp smiles (write fp st w) ∧
      (∀ i, CellFinal fp smiles st i → CellFinal fp smiles (write fp st w) i) ∧
      CellFinal fp smiles (write fp st w) w.1 := by
  obtain ⟨j, s⟩ := w
  simp only at hw
  have hj : j < smiles.length := lt_of_getElem?_some hw
  -- the written cell becomes final
  have hfin : CellFinal fp smiles (write fp st (j, s)) j := by
    refine ⟨s, hw, ?_⟩
    unfold write
    rcases hinv j hj with ⟨h1, h2⟩ | ⟨s', hs', h1, h2⟩
    · have hlen : j < st.mask.length := lt_of_getElem?_some h2
      have hlen' : j < st.fps.length := lt_of_getElem?_some h1
      cases hf : fp s with
      | none => simp [slot, hf, h1, hlen]
      | some row => simp [slot, hf, h2, hlen']
    · have : s' = s := by rw [hs'] at hw; exact Option.some.inj hw
      subst this
      have hlen : j < st.mask.length := lt_of_getElem?_some h2
      have hlen' : j < st.fps.length := lt_of_getElem?_some h1
      cases hf : fp s' with
      | none => simp [slot, hf, hlen] at h1 ⊢; exact h1
      | some row => simp [slot, hf, hlen'] at h2 ⊢; exact h2
  -- other cells are untouched
  have hother : ∀ i, i ≠ j → (write fp st (j, s)).fps[i]? = st.fps[i]? ∧ (write fp st (j, s)).mask[i]? = st.mask[i]? := by
    intro i hij
    unfold write
    cases hf : fp s with
    | none => simp [Ne.symm hij]
    | some row => simp [Ne.symm hij]
  have hkeep : ∀ i, CellFinal fp smiles st i → CellFinal fp smiles (write fp st (j, s)) i := by
    intro i hi
    by_cases hij : i = j
    · subst hij; exact hfin
    · obtain ⟨s', a, b, c⟩ := hi
      obtain ⟨e1, e2⟩ := hother i hij
      exact ⟨s', a, by rw [e1]; exact b, by rw [e2]; exact c⟩
  refine ⟨?_, hkeep, hfin⟩
  intro i hi
  by_cases hij : i = j
  · subst hij; exact Or.inr hfin
  · obtain ⟨e1, e2⟩ := hother i hij
    rcases hinv i hi with ⟨a, b⟩ | h
    · exact Or.inl ⟨by rw [e1]; exact a, by rw [e2]; exact b⟩
    · exact Or.inr (hkeep i h)

theorem writes_spec (fp : String → Option Row) (smiles : List String) (W : List (Nat × String))
    (hW : ∀ w ∈ W, smiles[w.1]? = some w.2) :
    ∀ st, ShmInv fp smiles st →
      ShmInv fp smiles (W.foldl (write fp) st) ∧
      (∀ i, CellFinal fp smiles st i → CellFinal fp smiles (W.foldl (write fp) st) i) ∧
      (∀ w ∈ W, CellFinal fp smiles (W.foldl (write fp) st) w.1) := by
  induction W with
  | nil => intro st h; exact ⟨h, fun _ h => h, by simp⟩
  | cons w W ih =>
    intro st hinv
    obtain ⟨a, b, c⟩ := write_spec fp smiles st w (hW w (by simp)) hinv
    obtain ⟨a', b', c'⟩ := ih (fun w hw => hW w (List.mem_cons_of_mem _ hw)) (write fp st w) a
    simp only [List.foldl_cons]
    refine ⟨a', fun i hi => b' i (b i hi), ?_⟩
    intro w' hw'
    rcases List.mem_cons.mp hw' with rfl | hw'
    · exact b' _ c
    · exact c' w' hw'

theorem deleteMask_map (fp : String → Option Row) (l : List String) :
    deleteMask (l.map (slot fp)) (l.map (fun s => (fp s).isNone)) = l.filterMap fp := by
  unfold deleteMask
  induction l with
  | nil => rfl
  | cons s l ih =>
    simp only [List.map_cons, List.zip_cons_cons, List.filter_cons, List.filterMap_cons]
    cases h : fp s <;> simp [ih, slot, h]

theorem nonzero_map_aux (fp : String → Option Row) (l : List String) (k : Nat) :
    (((l.map (fun s => (fp s).isNone)).zipIdx k).filter (·.1)).map (·.2)
      = ((l.zipIdx k).filter (fun p => (fp p.1).isNone)).map (·.2) := by
  induction l generalizing k with
  | nil => rfl
  | cons s l ih =>
    simp only [List.map_cons, List.zipIdx_cons, List.filter_cons]
    cases (fp s).isNone <;> simp [ih]

theorem nonzero_map (fp : String → Option Row) (l : List String) :
    nonzero (l.map (fun s => (fp s).isNone)) = invalidIdxs fp l := nonzero_map_aux fp l 0

/-- any execution of element writes that agree with the SMILES list and cover it -/
theorem runWrites (fp : String → Option Row) (smiles : List String) (W : List (Nat × String))
    (hW : ∀ w ∈ W, smiles[w.1]? = some w.2) (hcov : ∀ i, i < smiles.length → ∃ w ∈ W, w.1 = i) :
    let st := W.foldl (write fp) { fps := List.replicate smiles.length [], mask := List.replicate smiles.length false }
    st.fps = smiles.map (slot fp) ∧ st.mask = smiles.map (fun s => (fp s).isNone) := by
  intro st
  have h0 : ShmInv fp smiles { fps := List.replicate smiles.length [], mask := List.replicate smiles.length false } := by
    intro i hi
    exact Or.inl ⟨by simp [hi], by simp [hi]⟩
  obtain ⟨_, _, hc⟩ := writes_spec fp smiles W hW _ h0
  have hfin : ∀ i, i < smiles.length → CellFinal fp smiles st i := by
    intro i hi
    obtain ⟨w, hw, rfl⟩ := hcov i hi
    exact hc w hw
  have hlen1 : st.fps.length = smiles.length := by
    have : ∀ (W : List (Nat × String)) (s : Shm), (W.foldl (write fp) s).fps.length = s.fps.length := by
      intro W
      induction W with
      | nil => intro s; rfl
      | cons w W ih =>
        intro s
        rw [List.foldl_cons, ih]
        unfold write
        cases fp w.2 <;> simp
    rw [this]; simp
  have hlen2 : st.mask.length = smiles.length := by
    have : ∀ (W : List (Nat × String)) (s : Shm), (W.foldl (write fp) s).mask.length = s.mask.length := by
      intro W
      induction W with
      | nil => intro s; rfl
      | cons w W ih =>
        intro s
        rw [List.foldl_cons, ih]
        unfold write
        cases fp w.2 <;> simp
    rw [this]; simp
  constructor
  · apply List.ext_getElem?
    intro i
    by_cases hi : i < smiles.length
    · obtain ⟨s, h1, h2, _⟩ := hfin i hi
      rw [h2, List.getElem?_map, h1]; rfl
    · rw [List.getElem?_eq_none (by omega), List.getElem?_eq_none (by simp; omega)]
  · apply List.ext_getElem?
    intro i
    by_cases hi : i < smiles.length
    · obtain ⟨s, h1, _, h3⟩ := hfin i hi
      rw [h3, List.getElem?_map, h1]; rfl
    · rw [List.getElem?_eq_none (by omega), List.getElem?_eq_none (by simp; omega)]

theorem writesOf_rangesFrom (s : Nat) (bs : List (List String)) :
    (rangesFrom s bs).flatMap writesOf = (List.range' s bs.flatten.length).zip bs.flatten := by
  induction bs generalizing s with
  | nil => simp [rangesFrom]
  | cons b bs ih =>
    simp only [rangesFrom, List.flatMap_cons, List.flatten_cons, List.length_append, ih]
    have : writesOf ((s, s + b.length), b) = (List.range' s b.length).zip b := by
      simp [writesOf]
    rw [this, ← List.range'_append (s := s) (m := b.length) (n := bs.flatten.length) (step := 1), Nat.one_mul,
      List.zip_append (by simp)]

theorem mem_range'_zip {l : List String} {w : Nat × String} :
    w ∈ (List.range' 0 l.length).zip l ↔ l[w.1]? = some w.2 := by
  obtain ⟨i, s⟩ := w
  rw [List.mem_iff_getElem]
  constructor
  · rintro ⟨k, hk, h⟩
    simp only [List.getElem_zip, List.getElem_range', Prod.mk.injEq] at h
    obtain ⟨rfl, rfl⟩ := h
    simp only [List.length_zip, List.length_range', Nat.min_self] at hk
    simp [hk]
  · intro h
    have hi : i < l.length := lt_of_getElem?_some h
    refine ⟨i, by simp [hi], ?_⟩
    rw [List.getElem?_eq_getElem hi] at h
    simp [Option.some.inj h]

/-- the shared-memory branch for ANY order in which the pool executes the tasks -/
theorem runTasks_perm (fp : String → Option Row) (smiles : List String) (per : Nat) (hper : 0 < per)
    (tasks : List ((Nat × Nat) × List String)) (hp : tasks.Perm (rangeBatches per smiles)) :
    runTasks fp smiles.length tasks = fpsFromSmiles fp smiles := by
  have hmem : ∀ w, w ∈ tasks.flatMap writesOf ↔ smiles[w.1]? = some w.2 := by
    intro w
    have : w ∈ tasks.flatMap writesOf ↔ w ∈ (rangeBatches per smiles).flatMap writesOf := by
      simp only [List.mem_flatMap]
      constructor
      · rintro ⟨t, ht, hw⟩; exact ⟨t, hp.mem_iff.mp ht, hw⟩
      · rintro ⟨t, ht, hw⟩; exact ⟨t, hp.mem_iff.mpr ht, hw⟩
    rw [this, rangeBatches, writesOf_rangesFrom, batched_flatten hper, mem_range'_zip]
  have key := runWrites fp smiles (tasks.flatMap writesOf) (fun w hw => (hmem w).mp hw)
    (fun i hi => ⟨(i, smiles[i]), (hmem _).mpr (by simp [hi]), rfl⟩)
  simp only at key
  unfold runTasks
  simp only
  rw [foldl_fillRange, key.1, key.2, deleteMask_map, nonzero_map]
  exact Prod.ext (fpsFromSmiles_fst fp smiles).symm rfl

/-! ### the file-sequence index -/

/-- the requested indices that fall into `[a, b)` -/
def win (idxs : List Nat) (a b : Nat) : List Nat :=
  idxs.filter (fun x => decide (x < b) && decide (a ≤ x))

/-- the value of `local_file_idxs` -/
def windows (idxs : List Nat) : Nat → List (List Row) → List (List Nat)
  | _, [] => []
  | r, f :: fs => (win idxs r (r + f.length)).map (· - r) :: windows idxs (r + f.length) fs

/-- number of requested indices below `r` -/
def cnt (idxs : List Nat) (r : Nat) : Nat := (idxs.filter (fun x => decide (x < r))).length

theorem win_self (idxs : List Nat) (r : Nat) : win idxs r r = [] :=
  List.filter_eq_nil_iff.mpr (fun x _ => by simp)

theorem sorted_drop_cnt {idxs : List Nat} (hs : idxs.Pairwise (· ≤ ·)) (r : Nat) :
    idxs.drop (cnt idxs r) = idxs.filter (fun x => decide (r ≤ x)) := by
  unfold cnt
  induction idxs with
  | nil => rfl
  | cons a l ih =>
    obtain ⟨h1, h2⟩ := List.pairwise_cons.mp hs
    by_cases ha : a < r
    · simp only [List.filter_cons, ha, decide_true, if_true, List.length_cons, List.drop_succ_cons,
        show ¬ r ≤ a by omega, decide_false, Bool.false_eq_true, if_false]
      exact ih h2
    · have e1 : l.filter (fun x => decide (x < r)) = [] :=
        List.filter_eq_nil_iff.mpr (fun x hx => by have := h1 x hx; simp; omega)
      have e2 : l.filter (fun x => decide (r ≤ x)) = l :=
        List.filter_eq_self.mpr (fun x hx => by have := h1 x hx; simp; omega)
      simp [ha, show r ≤ a by omega, e1, e2]

theorem cnt_add_win (idxs : List Nat) {a b : Nat} (hab : a ≤ b) :
    cnt idxs a + (win idxs a b).length = cnt idxs b := by
  unfold cnt win
  induction idxs with
  | nil => rfl
  | cons x l ih =>
    simp only [List.filter_cons]
    by_cases h1 : x < a
    · simp only [h1, show x < b by omega, show ¬ a ≤ x by omega, decide_true, decide_false, if_true,
        Bool.and_false, Bool.false_eq_true, if_false, List.length_cons]
      omega
    · by_cases h2 : x < b
      · simp only [h1, h2, show a ≤ x by omega, decide_true, decide_false, if_true, Bool.and_true,
          Bool.false_eq_true, if_false, List.length_cons]
        omega
      · simp only [h1, h2, decide_false, Bool.false_and, Bool.false_eq_true, if_false]
        exact ih

theorem win_length_add (idxs : List Nat) {a b c : Nat} (hab : a ≤ b) (hbc : b ≤ c) :
    (win idxs a b).length + (win idxs b c).length = (win idxs a c).length := by
  have h1 := cnt_add_win idxs hab
  have h2 := cnt_add_win idxs hbc
  have h3 := cnt_add_win idxs (Nat.le_trans hab hbc)
  omega

theorem win_append {idxs : List Nat} (hs : idxs.Pairwise (· ≤ ·)) {a b c : Nat} (hab : a ≤ b) (hbc : b ≤ c) :
    win idxs a b ++ win idxs b c = win idxs a c := by
  unfold win
  induction idxs with
  | nil => rfl
  | cons x l ih =>
    obtain ⟨h1, h2⟩ := List.pairwise_cons.mp hs
    have ih := ih h2
    simp only [List.filter_cons]
    by_cases hxa : a ≤ x
    · by_cases hxb : x < b
      · simp only [hxa, hxb, show x < c by omega, show ¬ b ≤ x by omega, decide_true, decide_false,
          Bool.and_true, Bool.and_false, if_true, Bool.false_eq_true, if_false, List.cons_append, ih]
      · by_cases hxc : x < c
        · have e : l.filter (fun y => decide (y < b) && decide (a ≤ y)) = [] :=
            List.filter_eq_nil_iff.mpr (fun y hy => by have := h1 y hy; simp; omega)
          rw [e] at ih
          simp only [hxa, hxb, hxc, show b ≤ x by omega, decide_true, decide_false, Bool.and_true,
            if_true, Bool.false_eq_true, if_false, e, List.nil_append]
          rw [← ih]; rfl
        · simp only [hxb, hxc, decide_false, Bool.false_and, Bool.false_eq_true, if_false, ih]
    · simp only [hxa, show ¬ b ≤ x by omega, decide_false, Bool.and_false, Bool.false_eq_true, if_false, ih]

theorem seqStep_eq {idxs : List Nat} (hs : idxs.Pairwise (· ≤ ·)) (st : SeqSt) (f : List Row)
    (hc : st.consumed = cnt idxs st.running) :
    seqStep idxs st f = { localIdxs := st.localIdxs ++ [(win idxs st.running (st.running + f.length)).map (· - st.running)],
                          consumed := cnt idxs (st.running + f.length),
                          running := st.running + f.length } := by
  unfold seqStep
  simp only
  have e : (idxs.drop st.consumed).filter (fun x => decide (x < st.running + f.length))
      = win idxs st.running (st.running + f.length) := by
    rw [hc, sorted_drop_cnt hs, List.filter_filter]; rfl
  rw [e, hc, cnt_add_win idxs (Nat.le_add_right _ _)]

theorem foldl_seqStep {idxs : List Nat} (hs : idxs.Pairwise (· ≤ ·)) (fs : List (List Row)) :
    ∀ st : SeqSt, st.consumed = cnt idxs st.running →
      fs.foldl (seqStep idxs) st = { localIdxs := st.localIdxs ++ windows idxs st.running fs,
                                     consumed := cnt idxs (st.running + fs.flatten.length),
                                     running := st.running + fs.flatten.length } := by
  induction fs with
  | nil => intro st hc; simp [windows, ← hc]
  | cons f fs ih =>
    intro st hc
    rw [List.foldl_cons, seqStep_eq hs st f hc, ih _ rfl]
    simp [windows, Nat.add_assoc]

theorem windows_length_sum (idxs : List Nat) (fs : List (List Row)) (r : Nat) :
    ((windows idxs r fs).map List.length).sum = (win idxs r (r + fs.flatten.length)).length := by
  induction fs generalizing r with
  | nil => simp [windows, win_self]
  | cons f fs ih =>
    simp only [windows, List.map_cons, List.sum_cons, List.length_map, ih, List.flatten_cons, List.length_append]
    rw [win_length_add idxs (Nat.le_add_right _ _) (Nat.le_add_right _ _), Nat.add_assoc]

theorem takeRows_win (idxs : List Nat) (f : List Row) (r : Nat) :
    takeRows f ((win idxs r (r + f.length)).map (· - r))
      = .ok ((win idxs r (r + f.length)).map (fun i => f.getD (i - r) [])) := by
  unfold takeRows
  rw [if_pos]
  · simp [List.map_map, Function.comp_def]
  · simp only [List.all_eq_true, List.mem_map, decide_eq_true_eq]
    rintro j ⟨i, hi, rfl⟩
    simp only [win, List.mem_filter, Bool.and_eq_true, decide_eq_true_eq] at hi
    omega

theorem gather_windows {idxs : List Nat} (hs : idxs.Pairwise (· ≤ ·)) (fs : List (List Row)) (r : Nat) :
    gather fs (windows idxs r fs)
      = .ok ((win idxs r (r + fs.flatten.length)).map (fun i => fs.flatten.getD (i - r) [])) := by
  induction fs generalizing r with
  | nil =>
    simp [gather, win_self]
  | cons f fs ih =>
    simp only [windows, gather, takeRows_win, ih]
    simp only [List.flatten_cons, List.length_append]
    rw [← Nat.add_assoc, ← win_append hs (Nat.le_add_right r f.length) (Nat.le_add_right (r + f.length) fs.flatten.length),
      List.map_append]
    congr 2
    · apply List.map_congr_left
      intro i hi
      simp only [win, List.mem_filter, Bool.and_eq_true, decide_eq_true_eq] at hi
      rw [List.getD_eq_getElem?_getD, List.getD_eq_getElem?_getD, List.getElem?_append_left (by omega)]
    · apply List.map_congr_left
      intro i hi
      simp only [win, List.mem_filter, Bool.and_eq_true, decide_eq_true_eq] at hi
      rw [List.getD_eq_getElem?_getD, List.getD_eq_getElem?_getD, List.getElem?_append_right (by omega)]
      congr 2; omega

theorem mergeSort_le_eq_iff (idxs : List Nat) :
    idxs.mergeSort (fun a b => decide (a ≤ b)) = idxs ↔ idxs.Pairwise (· ≤ ·) := by
  constructor
  · intro h
    have := List.pairwise_mergeSort (le := fun a b : Nat => decide (a ≤ b))
      (fun a b c h1 h2 => by simp at *; omega) (fun a b => by simp; omega) idxs
    rw [h] at this
    exact this.imp (by simp)
  · intro h
    exact List.mergeSort_of_pairwise (h.imp (by simp))

theorem fileSeqIndex_sorted (files : List (List Row)) {idxs : List Nat} (hs : idxs.Pairwise (· ≤ ·)) :
    fileSeqIndex files idxs =
      if idxs.length != (win idxs 0 files.flatten.length).length then .error .value
      else .ok ((win idxs 0 files.flatten.length).map (fun i => files.flatten.getD i [])) := by
  unfold fileSeqIndex
  rw [(mergeSort_le_eq_iff idxs).mpr hs]
  simp only [bne_self_eq_false, Bool.false_eq_true, if_false]
  rw [foldl_seqStep hs files _ (by simp [cnt])]
  simp only [List.nil_append, windows_length_sum, Nat.zero_add, gather_windows hs]
  simp

theorem win_zero_eq_self {idxs : List Nat} {n : Nat} (h : ∀ i ∈ idxs, i < n) : win idxs 0 n = idxs := by
  unfold win
  exact List.filter_eq_self.mpr (fun x hx => by simp [h x hx])

theorem win_zero_length_lt {idxs : List Nat} {n : Nat} (h : ∃ i ∈ idxs, n ≤ i) :
    (win idxs 0 n).length < idxs.length := by
  unfold win
  rw [List.length_filter_lt_length_iff_exists]
  obtain ⟨i, hi, hn⟩ := h
  exact ⟨i, hi, by simp; omega⟩

/-! ### `parse_num_per_batch` -/

theorem le_mul_ceilDiv (a b : Nat) (hb : 0 < b) : a ≤ b * ceilDiv a b := by
  unfold ceilDiv
  have h1 := Nat.div_add_mod (a + b - 1) b
  have h2 := Nat.mod_lt (a + b - 1) hb
  omega

theorem ceilDiv_ceilDiv_le (a b : Nat) (hq : 0 < ceilDiv a b) : ceilDiv a (ceilDiv a b) ≤ b := by
  have hb : 0 < b := by
    rcases Nat.eq_zero_or_pos b with rfl | hb
    · simp [ceilDiv] at hq
    · exact hb
  have h := le_mul_ceilDiv a b hb
  generalize ceilDiv a b = q at *
  unfold ceilDiv
  apply Nat.lt_succ_iff.mp
  rw [Nat.div_lt_iff_lt_mul hq, Nat.succ_mul]
  omega

theorem batched_length_le_parts {α : Type} (xs : List α) (p : Nat) :
    (batched (ceilDiv xs.length p) xs).length ≤ p := by
  rcases Nat.eq_zero_or_pos (ceilDiv xs.length p) with h | h
  · rw [h, batched_zero]; simp
  · rw [batched_length h]; exact ceilDiv_ceilDiv_le _ _ h

theorem batched_length_le_ceilDiv {α : Type} (xs : List α) (m : Nat) :
    (batched m xs).length ≤ ceilDiv xs.length m := by
  rcases Nat.eq_zero_or_pos m with rfl | h
  · rw [batched_zero]; simp
  · rw [batched_length h]

end BB.Files
