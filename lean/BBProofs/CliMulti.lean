/-
Totality of the multi-round workflow on its documented domain: every task of every round
succeeds (BBProofs/Multiround.lean proves what a successful run produces; here success itself).
-/
import BBProofs.Cli

namespace BB.MR
open BB

variable (pol : BB.Cfg → Policy)

/-! ### small facts about states -/

theorem full_of_F {st : TreeSt} {F : Nat} (h : st.F? = some F) : st.isInit = true ∧ st.isLeavesOnly = false := by
  cases st with
  | uninit => simp [TreeSt.F?] at h
  | leavesOnly F' ls => simp [TreeSt.F?] at h
  | full hh F' root chain next => exact ⟨rfl, rfl⟩

theorem isInit_of_ids {st : TreeSt} (h : idsOf st.lclusM ≠ 0) : st.isInit = true := by
  cases st with
  | uninit => exact absurd (by simp [TreeSt.lclusM]) h
  | leavesOnly F' ls => rfl
  | full hh F' root chain next => rfl

theorem delInternal_total (e : Est) (hi : e.st.isInit = true) (hlo : e.st.isLeavesOnly = false) :
    ∃ e', delInternal e = (e', none) := by
  have := delInternal_noerr e hi hlo
  exact ⟨(delInternal e).1, by rw [← this]⟩

theorem mkEst_total (bf : Nat) (thr : Rat) (crit : String) (tol : Option Rat) (h : (Crit.ofName? crit).isSome) :
    ∃ e0, mkEst bf thr crit tol = .ok e0 := by
  obtain ⟨c, hc⟩ := Option.isSome_iff_exists.mp h
  obtain ⟨m, hm⟩ := construct_name_ok thr bf crit c hc tol
  exact ⟨_, hm⟩

/-- the widths of all clusters reachable by merging -/
theorem MC.width {acc : Clu → Clu → Prop} {A B : Multiset Clu} (h : MC acc A B) (F : Nat)
    (hA : ∀ c ∈ A, c.ls.length = F) : ∀ c ∈ B, c.ls.length = F :=
  MC.forall (fun c => c.ls.length = F) (fun c s hc hs _ => merge_ls_length c s F hc hs) h hA

/-! ### round 1: one input file -/

/-- `fit` of a well-formed non-empty file with explicit labels on a fresh estimator -/
theorem fit_labels_total (P : Policy) (hP : P.Valid) (e0 : Est) (hst : e0.st = .uninit) (hbf : 1 ≤ e0.cfg.bf)
    (F : Nat) (rows : List Row) (hne : rows ≠ []) (hlen : ∀ r ∈ rows, r.length = F) (labels : List Nat) :
    ∃ e1, fit P e0 rows (some labels) = (e1, none) := by
  obtain ⟨r0, rest, rfl⟩ := List.exists_cons_of_ne_nil hne
  have hlo : e0.st.isLeavesOnly = false := by rw [hst]; rfl
  have hFF : (e0.st.F?).getD r0.length = F := by rw [hst]; simpa [TreeSt.F?] using hlen r0 (by simp)
  obtain ⟨st', h1, _⟩ := fitRows_spec P hP e0.cfg.bf hbf F (labels.zip (r0 :: rest)) e0.st e0.numFitted
    (by rw [hst]; trivial) hlo
  have hgp : goodPrefix F (labels.zip (r0 :: rest)) = labels.zip (r0 :: rest) :=
    goodPrefix_all F _ (fun p hp => hlen _ (List.of_mem_zip hp).2)
  rw [hgp] at h1
  rw [fit_eq P e0 r0 rest (some labels) hlo]
  simp only [hFF, h1]
  exact ⟨{ e0 with st := st', numFitted := e0.numFitted + (labels.zip (r0 :: rest)).length }, by simp⟩

theorem single_width (r : Row) (id : Nat) : (single r id).ls.length = r.length := by
  simp [single, Clu.ofBuffer, rowToNat]

/-- `_InitialRound.__call__` succeeds on a non-empty file of well-formed rows, for every refinement mode -/
theorem initialGroups_total (hpol : ∀ cfg, (pol cfg).Valid) (c : Cfg) (hbf : 1 ≤ c.bf)
    (hic : (Crit.ofName? c.initCrit).isSome) (hmc : (Crit.ofName? c.midCrit).isSome)
    (F : Nat) (rows : List Row) (hne : rows ≠ []) (hlen : ∀ r ∈ rows, r.length = F) (start : Nat) :
    ∃ groups, initialGroups pol c rows start = .ok groups := by
  obtain ⟨e0, he0⟩ := mkEst_total c.bf c.thr c.initCrit none hic
  obtain ⟨hst0, _, hbf0⟩ := mkEst_ok he0
  obtain ⟨e1, hfit⟩ := fit_labels_total (pol e0.cfg) (hpol _) e0 hst0 (by rw [hbf0]; exact hbf) F rows hne hlen
    (List.range' start rows.length)
  obtain ⟨hc1, ok1, lo1, mc1⟩ := fit_fresh_ok (pol e0.cfg) (hpol _) e0 e1 hst0 (by rw [hbf0]; exact hbf) rows _ hfit
  have hids1 : idsOf e1.st.lclusM = ((List.range' start rows.length : List Nat) : Multiset Nat) := by
    rw [mc1.ids, idsOf_ofRow, List.map_fst_zip (by simp)]
  have hpos : 0 < rows.length := List.length_pos_of_ne_nil hne
  have hnz : ((List.range' start rows.length : List Nat) : Multiset Nat) ≠ 0 := by
    intro h
    have h0 := congrArg Multiset.card h
    simp only [Multiset.coe_card, List.length_range', Multiset.card_zero] at h0
    omega
  have hw1 : ∀ u ∈ e1.st.lclusM, u.ls.length = F := by
    apply MC.width mc1 F
    intro u hu
    simp only [Multiset.mem_coe, List.mem_map] at hu
    obtain ⟨p, hp, rfl⟩ := hu
    simp [Clu.ofRow, rowToNat, hlen _ (List.of_mem_zip hp).2]
  obtain ⟨e1', hdel⟩ := delInternal_total e1 (isInit_of_ids (by rw [hids1]; exact hnz)) lo1
  obtain ⟨hc1', ok1', hl1'⟩ := delInternal_ok e1 e1' ok1 hdel
  have hsorted := sortedClus_coe e1'.st ok1'
  -- the split of the largest cluster finds its rows in the file
  obtain ⟨groups1, hg1⟩ := refineGroups_total e1'.st.sortedClus 1 rows start false (by
    intro u hu id hid
    have hm : u ∈ e1.st.lclusM := by rw [← hl1', ← hsorted]; exact hu
    have := mem_idsOf hm hid
    rw [hids1] at this
    have := List.mem_range'_1.mp (by simpa using this)
    omega)
  unfold initialGroups
  simp only [he0, hfit, hdel]
  cases hmode : c.mode with
  | none => exact ⟨_, rfl⟩
  | split => exact ⟨_, hg1⟩
  | full =>
    simp only
    rw [hg1]
    simp only
    obtain ⟨cm, hcm⟩ := Option.isSome_iff_exists.mp hmc
    obtain ⟨m, hm⟩ := setMerge_name_ok e1'.reset c.midCrit cm hcm (some c.tol) (some (fadd c.thr c.thrChange))
    rw [hm]
    simp only
    -- the groups to refit
    obtain ⟨hne1, singles, hflat, _, hsing⟩ := refineGroups_spec _ _ _ _ _ _ hg1
    have hx1 := extracted_split (fun i => rows.getD (i - start) []) (fun _ => True) (qok_true _) e1'.st ok1' rows start
      (by intro i hi; simp [List.getD_eq_getElem?_getD, hi]) groups1 hg1
    have hlen1 : ∀ g ∈ groups1, ∀ u ∈ g.2, u.ls.length = F := by
      intro g hg u hu
      have := mem_flat hg hu
      rw [flat, hflat] at this
      rcases Multiset.mem_add.mp this with h | h
      · apply hw1
        rw [← hl1', ← hsorted]
        exact List.mem_of_mem_drop h
      · obtain ⟨id, r, _, hr, rfl⟩ := hsing u h
        rw [single_width]
        exact hlen r (List.mem_of_getElem? hr)
    obtain ⟨e3, h3, _, ok3, lo3, _, _, mc3⟩ := refitGroups_spec pol hpol F groups1
      { e1'.reset with cfg := { thr := (some (fadd c.thr c.thrChange)).getD e1'.reset.cfg.thr, bf := e1'.reset.cfg.bf, merge := m } }
      (by show 1 ≤ e1'.cfg.bf; rw [hc1', hc1, hbf0]; exact hbf) trivial rfl
      (by intro F' h; simp [Est.reset, TreeSt.F?] at h) hne1 hlen1
    rw [h3]
    simp only
    have hids3 : idsOf e3.st.lclusM ≠ 0 := by
      rw [mc3.ids]
      simp only [Est.reset, TreeSt.lclusM, zero_add]
      rw [idsOf_map_asUnit]
      have := hx1.ids
      rw [flat] at this
      rw [this, hl1', hids1]
      exact hnz
    obtain ⟨e4, hdel4⟩ := delInternal_total e3 (isInit_of_ids hids3) lo3
    rw [hdel4]
    exact ⟨_, rfl⟩

/-! ### no task saves an empty group -/

theorem allGroups_nonempty (e : Est) : ∀ g ∈ allGroups e, g.2 ≠ [] := (groupByW_spec _).2.1

theorem refineGroupsSorted_eq (bfs : List Clu) (allRows : List Row) :
    refineGroupsSorted bfs allRows = refineGroups bfs 1 allRows 0 true := by
  simp only [refineGroupsSorted, refineGroups, Nat.one_ne_zero, ↓reduceIte]
  cases List.mapM (fun c => explode allRows 0 (c.ids.mergeSort (· ≤ ·))) (List.take 1 bfs) <;> rfl

theorem initialGroups_nonempty (c : Cfg) (rows : List Row) (start : Nat) (groups : List (W × List Clu))
    (h : initialGroups pol c rows start = .ok groups) : ∀ g ∈ groups, g.2 ≠ [] := by
  unfold initialGroups at h
  split at h
  · cases h
  · split at h
    · cases h
    · split at h
      · cases h
      · split at h
        · cases h; exact allGroups_nonempty _
        · exact (refineGroups_spec _ _ _ _ _ _ h).1
        · split at h
          · cases h
          · split at h
            · cases h
            · split at h
              · cases h
              · split at h
                · cases h
                · cases h; exact allGroups_nonempty _

theorem mergingGroups_nonempty (c : Cfg) (allRows : List Row) (fs : FS) (pairs : List (String × String))
    (groups : List (W × List Clu)) (h : mergingGroups pol c allRows fs pairs = .ok groups) :
    ∀ g ∈ groups, g.2 ≠ [] := by
  unfold mergingGroups at h
  split at h
  · cases h
  · split at h
    · rw [refineGroupsSorted_eq] at h
      exact (refineGroups_spec _ _ _ _ _ _ h).1
    · cases h; exact allGroups_nonempty _

/-! ### reading back what a round saved -/

theorem qok_exactN (D : Nat → Row) : QOK D (ExactN D) :=
  ⟨fun c s hc hs => ⟨exact_merge D c s hc.1 hs.1, by have : (c.merge s).n = c.n + s.n := rfl; have := hc.2; omega⟩,
   exactN_asUnit D, fun i => ⟨exact_ofRow D _ _ rfl, le_refl 1⟩, fun i => ⟨exact_ofBuffer_singleton D i, le_refl 1⟩⟩

theorem unitsOf_saved_total (w : W) : ∀ (cs : List Clu), (∀ c ∈ cs, c.ids.length = c.n) →
    unitsOf (.bufs w (cs.map (fun c => (c.ls, c.n)))) (.idxs (cs.map (·.ids)))
      = .ok (cs.map (fun c => Clu.ofBuffer w c.ls c.n c.ids))
  | [], _ => rfl
  | c :: cs, h => by
    have ih := unitsOf_saved_total w cs (fun x hx => h x (by simp [hx]))
    simp only [unitsOf] at ih
    simp only [unitsOf, List.map_cons, List.zip_cons_cons, List.mapM_cons, h c (by simp), ↓reduceIte, ih]
    rfl

theorem pairUnits_total {r : Nat} {fs : FS} {es : List Entry} (h : DirInv r fs es)
    (hw : ∀ e ∈ es, ∀ c ∈ e.cs, c.w = e.w) (hn : ∀ e ∈ es, ∀ c ∈ e.cs, c.ids.length = c.n)
    (e : Entry) (he : e ∈ es) : pairUnits fs (e.pair r) = .ok (e.cs.map Clu.asUnit) := by
  simp only [pairUnits, Entry.pair, h.rdB e he, h.rdI e he, Entry.bufs, Entry.idxs]
  rw [unitsOf_saved_total e.w e.cs (hn e he)]
  congr 1
  apply List.map_congr_left
  intro c hc
  rw [Clu.asUnit, hw e he c hc]

/-- the entries a round may read: well-keyed, counts right, no empty group, one width -/
structure Readable (F r : Nat) (fs : FS) (es : List Entry) : Prop where
  dir : DirInv r fs es
  keyed : ∀ e ∈ es, ∀ c ∈ e.cs, c.w = e.w
  cnt : ∀ e ∈ es, ∀ c ∈ e.cs, c.ids.length = c.n
  ne : ∀ e ∈ es, e.cs ≠ []
  width : ∀ e ∈ es, ∀ c ∈ e.cs, c.ls.length = F

theorem fitPairs_total (hpol : ∀ cfg, (pol cfg).Valid) {F r : Nat} {fs : FS} {es : List Entry}
    (hr : Readable F r fs es) :
    ∀ (pairs : List (String × String)) (e : Est), (∀ p ∈ pairs, ∃ en ∈ es, p = en.pair r) → 1 ≤ e.cfg.bf →
      e.st.OK → e.st.isLeavesOnly = false → (∀ F', e.st.F? = some F' → F' = F) →
      ∃ e', fitPairs pol fs e pairs = .ok e' ∧ e'.st.isLeavesOnly = false ∧
        (e.st.F? = some F ∨ pairs ≠ [] → e'.st.F? = some F)
  | [], e, _, _, _, hlo, _ => ⟨e, rfl, hlo, fun h => by
      rcases h with h | h
      · exact h
      · exact absurd rfl h⟩
  | p :: rest, e, hp, hbf, hok, hlo, hF => by
    obtain ⟨en, hen, rfl⟩ := hp p (by simp)
    have hus := pairUnits_total hr.dir hr.keyed hr.cnt en hen
    obtain ⟨e1, h1, hcfg1, hok1, hlo1, hF1, _⟩ := fitBuffers_spec (pol e.cfg) (hpol _) F e (en.cs.map Clu.asUnit)
      hbf hok hlo hF (by
        intro h0
        exact hr.ne en hen (List.map_eq_nil_iff.mp h0))
      (by
        intro u hu
        obtain ⟨c, hc, rfl⟩ := List.mem_map.mp hu
        exact hr.width en hen c hc)
    obtain ⟨e', h', hlo', hF'⟩ := fitPairs_total hpol hr rest e1 (fun q hq => hp q (List.mem_cons_of_mem _ hq))
      (by rw [hcfg1]; exact hbf) hok1 hlo1 (by intro F' h; rw [hF1] at h; exact (Option.some.inj h).symm)
    refine ⟨e', ?_, hlo', fun _ => hF' (Or.inl hF1)⟩
    simp only [fitPairs, hus, h1, h']

theorem mergedEst_total (hpol : ∀ cfg, (pol cfg).Valid) {F r : Nat} {fs : FS} {es : List Entry}
    (hr : Readable F r fs es) (bf : Nat) (hbf : 1 ≤ bf) (thr : Rat) (crit : String)
    (hc : (Crit.ofName? crit).isSome) (tol : Rat) (pairs : List (String × String))
    (hp : ∀ p ∈ pairs, ∃ en ∈ es, p = en.pair r) (hne : pairs ≠ []) :
    ∃ e2, mergedEst pol bf thr crit tol fs pairs = .ok e2 := by
  obtain ⟨e0, he0⟩ := mkEst_total bf thr crit (some tol) hc
  obtain ⟨hst0, _, hbf0⟩ := mkEst_ok he0
  obtain ⟨e1, h1, hlo1, hF1⟩ := fitPairs_total pol hpol hr pairs e0 hp (by rw [hbf0]; exact hbf)
    (by rw [hst0]; trivial) (by rw [hst0]; rfl) (by intro F' h; rw [hst0] at h; simp [TreeSt.F?] at h)
  obtain ⟨e2, h2⟩ := delInternal_total e1 (full_of_F (hF1 (Or.inr hne))).1 hlo1
  exact ⟨e2, by simp only [mergedEst, he0, h1, h2]⟩

/-! ### the tasks of the later rounds -/

theorem mem_idsOf_iff {M : Multiset Clu} {i : Nat} : i ∈ idsOf M ↔ ∃ c ∈ M, i ∈ c.ids := by
  induction M using Multiset.induction_on with
  | empty => simp
  | cons a M ih =>
    rw [← Multiset.singleton_add, idsOf_add, idsOf_singleton, Multiset.mem_add, ih]
    simp

theorem mergingGroups_total (hpol : ∀ cfg, (pol cfg).Valid) {F r : Nat} {fs : FS} {es : List Entry}
    (hr : Readable F r fs es) (N : Nat) (hids : ∀ e ∈ es, ∀ c ∈ e.cs, ∀ id ∈ c.ids, id < N)
    (c : Cfg) (hbf : 1 ≤ c.bf) (hmc : (Crit.ofName? c.midCrit).isSome) (allRows : List Row)
    (hN : N ≤ allRows.length) (pairs : List (String × String))
    (hp : ∀ p ∈ pairs, ∃ en ∈ es, p = en.pair r) (hne : pairs ≠ []) :
    ∃ groups, mergingGroups pol c allRows fs pairs = .ok groups := by
  obtain ⟨e2, he2⟩ := mergedEst_total pol hpol hr c.bf hbf (fadd c.thr c.thrChange) c.midCrit hmc c.tol pairs hp hne
  obtain ⟨uss, hall, ok2, mc2⟩ := mergedEst_spec pol hpol c.bf hbf _ _ _ fs pairs e2 he2
  simp only [mergingGroups, he2]
  split
  · rw [refineGroupsSorted_eq]
    apply refineGroups_total
    intro u hu id hid
    refine ⟨Nat.zero_le _, ?_⟩
    have hm : u ∈ e2.st.lclusM := (mem_of_coe_eq (sortedClus_coe _ ok2) u).mp hu
    have h1 := mem_idsOf hm hid
    rw [mc2.ids] at h1
    obtain ⟨u', hu', hid'⟩ := mem_idsOf_iff.mp h1
    obtain ⟨p, hpp, us, hus, huu⟩ := readback_mem fs hall u' hu'
    obtain ⟨en, hen, rfl⟩ := hp p hpp
    rw [pairUnits_total hr.dir hr.keyed hr.cnt en hen] at hus
    cases hus
    obtain ⟨c0, hc0, rfl⟩ := List.mem_map.mp huu
    have := hids en hen c0 hc0 id hid'
    omega
  · exact ⟨_, rfl⟩

theorem finalClus_total (hpol : ∀ cfg, (pol cfg).Valid) {F r : Nat} {fs : FS} {es : List Entry}
    (hr : Readable F r fs es) (c : Cfg) (hbf : 1 ≤ c.bf) (hfc : (Crit.ofName? c.finalCrit).isSome)
    (pairs : List (String × String)) (hp : ∀ p ∈ pairs, ∃ en ∈ es, p = en.pair r) (hne : pairs ≠ []) :
    ∃ cl, finalClus pol c fs pairs = .ok cl := by
  obtain ⟨e2, he2⟩ := mergedEst_total pol hpol hr c.bf hbf (fadd c.thr c.thrChange) c.finalCrit hfc c.tol pairs hp hne
  exact ⟨e2.st.sortedClus, by simp only [finalClus, he2]⟩

/-! ### rounds -/

theorem execRound_total : ∀ (ts : List (Except Err Writes)) (fs : FS), (∀ t ∈ ts, ∃ ws, t = .ok ws) →
    ∃ fs', execRound fs ts = .ok fs'
  | [], fs, _ => ⟨fs, rfl⟩
  | t :: ts, fs, h => by
    obtain ⟨ws, rfl⟩ := h t (by simp)
    rw [execRound_cons_ok]
    exact execRound_total ts _ (fun t' ht' => h t' (List.mem_cons_of_mem _ ht'))

theorem runTasks_total (fs : FS) (tasks : List (Except Err Writes)) (h : ∀ t ∈ tasks, ∃ ws, t = .ok ws)
    (order : List Nat) (hp : order.Perm (List.range tasks.length)) : ∃ fs', runTasks fs tasks order = .ok fs' := by
  unfold runTasks
  apply execRound_total
  intro t ht
  obtain ⟨i, hi, rfl⟩ := List.mem_map.mp ht
  have hlt : i < tasks.length := by simpa using hp.mem_iff.mp hi
  apply h
  rw [List.getD_eq_getElem?_getD, List.getElem?_eq_getElem hlt]
  exact List.getElem_mem _

theorem chunk_ne_nil {α : Type} (k : Nat) (l : List α) : ∀ b ∈ chunk k l, b ≠ [] := by
  fun_induction chunk k l with
  | case1 => simp
  | case2 x xs hk => simp
  | case3 x xs hk ih =>
    intro b hb
    rcases List.mem_cons.mp hb with rfl | hb
    · cases k with
      | zero => exact absurd rfl hk
      | succ k => simp
    · exact ih b hb

/-! ### the round invariant, with "no empty group" -/

/-- what a round hands to the next one -/
structure Good (D : Nat → Row) (N r : Nat) (fs : FS) (es : List Entry) : Prop where
  dir : DirInv r fs es
  esok : EsOK (ExactN D) N es
  ne : ∀ e ∈ es, e.cs ≠ []

section
variable (hpol : ∀ cfg, (pol cfg).Valid) (D : Nat → Row)
include hpol

/-- `round1_step` (BBProofs/Multiround.lean) together with: no saved group is empty -/
theorem round1_good (c : Cfg) (hbf : 1 ≤ c.bf) (files : List (List Row)) (hD : D = dataOf files)
    (fs fs' : FS) (hwf : fs.WF) (hno : NoRoundFrom 1 fs)
    (h : execRound fs (initTasks pol c files) = .ok fs') :
    ∃ es, Good D (files.map List.length).sum 1 fs' es := by
  have hQ := qok_exactN D
  rw [initTasks_eq, fileStarts_eq] at h
  set z := (toString files.length).length with hz
  obtain ⟨ys, h1, h2, hdir⟩ := labelled_round_dir z (repr_length_pos _) 1
    (fun x : (List Row × Nat) × Nat => initialGroups pol c x.1.1 x.1.2)
    (fun x gs hx => initialGroups_groupsOK pol hpol c hbf _ _ gs hx)
    ((files.zip (startsFrom 0 files)).zipIdx) (pairwise_zipIdx_ne _)
    (by
      intro x hx
      obtain ⟨a, i⟩ := x
      have := (List.mem_zipIdx' hx).1
      have h10 : files.length < 10 ^ z := lt_pow_repr_length files.length
      have hlen : (files.zip (startsFrom 0 files)).length = files.length := by simp [startsFrom_length]
      simp only
      omega)
    fs fs' hwf hno h
  have hspec : ∀ y ∈ ys, GroupsOK y.2 ∧
      idsOf (flat y.2) = ((List.range' y.1.1.2 y.1.1.1.length : List Nat) : Multiset Nat) ∧
      ∀ g ∈ y.2, ∀ u ∈ g.2, ExactN D u := by
    intro y hy
    have hmem : y.1.1 ∈ files.zip (startsFrom 0 files) := by
      have : y.1 ∈ (files.zip (startsFrom 0 files)).zipIdx := by rw [← h1]; exact List.mem_map_of_mem hy
      have := List.mem_map_of_mem (f := Prod.fst) this
      rwa [List.zipIdx_map_fst] at this
    apply initialGroups_spec pol hpol D _ hQ c hbf y.1.1.1 y.1.1.2 _ y.2 (h2 y hy)
    intro i hi
    have := starts_data files [] y.1.1 (by simpa using hmem) i hi
    rw [hD]
    exact dataOf_get files _ _ (by simpa using this)
  refine ⟨esOf z ys, hdir, ⟨?_, ?_, ?_⟩, ?_⟩
  · intro e he c hc
    obtain ⟨y, hy, g, hg, rfl⟩ := mem_esOf he
    exact (hspec y hy).1.keyed g hg c hc
  · intro e he c hc
    obtain ⟨y, hy, g, hg, rfl⟩ := mem_esOf he
    exact (hspec y hy).2.2 g hg c hc
  · rw [esOf_cs]
    have e1 : ys.map (fun y => idsOf (flat y.2))
        = ys.map (fun y => ((List.range' y.1.1.2 y.1.1.1.length : List Nat) : Multiset Nat)) :=
      List.map_congr_left (fun y hy => (hspec y hy).2.1)
    have e2 : ys.map (fun y => ((List.range' y.1.1.2 y.1.1.1.length : List Nat) : Multiset Nat))
        = (files.zip (startsFrom 0 files)).map (fun p => ((List.range' p.2 p.1.length : List Nat) : Multiset Nat)) := by
      have : ys.map (fun y => y.1.1) = files.zip (startsFrom 0 files) := by
        rw [← List.zipIdx_map_fst 0 (files.zip (startsFrom 0 files)), ← h1, List.map_map]; rfl
      rw [← this, List.map_map]; rfl
    rw [e1, e2, starts_ranges, List.range_eq_range']
  · intro e he
    obtain ⟨y, hy, g, hg, rfl⟩ := mem_esOf he
    exact initialGroups_nonempty pol c _ _ _ (h2 y hy) g hg

/-- `mid_step` together with: no saved group is empty -/
theorem mid_good (c : Cfg) (hbf : 1 ≤ c.bf) (allRows : List Row) (hD : ∀ id r, allRows[id]? = some r → D id = r)
    (N r : Nat) (fs fs' : FS) (es : List Entry) (hg : Good D N r fs es)
    (h : execRound fs (midTasks pol c allRows (r + 1) fs) = .ok fs') :
    ∃ es', Good D N (r + 1) fs' es' := by
  have hQ := qok_exactN D
  have hdir := hg.dir
  have hes := hg.esok
  rw [midTasks_eq] at h
  set pairs := prevPairs fs (r + 1) with hpairs
  set z := (toString ((pairs.length + c.binSize - 1) / c.binSize)).length with hz
  obtain ⟨ys, h1, h2, hdir'⟩ := labelled_round_dir z (repr_length_pos _) (r + 1)
    (fun x : List (String × String) × Nat => mergingGroups pol c allRows fs (sortBatch x.1))
    (fun x gs hx => mergingGroups_groupsOK pol hpol c hbf allRows fs _ gs hx)
    ((chunk c.binSize pairs).zipIdx) (pairwise_zipIdx_ne _)
    (by
      intro x hx
      obtain ⟨a, i⟩ := x
      exact chunk_index_lt c.binSize pairs i (List.mem_zipIdx' hx).1)
    fs fs' hdir.wf hdir.fut h
  have hchunks : ys.map (fun y => y.1.1) = chunk c.binSize pairs := by
    rw [← List.zipIdx_map_fst 0 (chunk c.binSize pairs), ← h1, List.map_map]; rfl
  have hsub : ∀ y ∈ ys, ∀ p ∈ sortBatch y.1.1, p ∈ pairs := by
    intro y hy p hp
    have : y.1.1 ∈ chunk c.binSize pairs := by rw [← hchunks]; exact List.mem_map_of_mem (f := fun y => y.1.1) hy
    exact chunk_mem this ((sortBatch_perm _).mem_iff.mp hp)
  have hspec : ∀ y ∈ ys, ∃ uss : List (List Clu),
      List.Forall₂ (fun p us => pairUnits fs p = .ok us) (sortBatch y.1.1) uss ∧
      Extracted (ExactN D) ((uss.flatten : List Clu) : Multiset Clu) y.2 :=
    fun y hy => mergingGroups_spec pol hpol D _ hQ c hbf allRows hD fs _ y.2 (h2 y hy)
  have hall : ∀ p ∈ pairs, ∃ us, pairUnits fs p = .ok us := by
    intro p hp
    rw [← chunk_flatten c.binSize pairs, ← hchunks] at hp
    obtain ⟨ch, hch, hpch⟩ := List.mem_flatten.mp hp
    obtain ⟨y, hy, rfl⟩ := List.mem_map.mp hch
    obtain ⟨uss, hf, _⟩ := hspec y hy
    exact readback_all fs hf p ((sortBatch_perm _).mem_iff.mpr hpch)
  have hq : ∀ y ∈ ys, ∀ uss : List (List Clu),
      List.Forall₂ (fun p us => pairUnits fs p = .ok us) (sortBatch y.1.1) uss → ∀ u ∈ uss.flatten, ExactN D u := by
    intro y hy uss hf u hu
    obtain ⟨p, hp, us, hus, huu⟩ := readback_mem fs hf u hu
    exact prevPairs_q hQ hdir hes (hsub y hy p hp) hus u huu
  refine ⟨esOf z ys, hdir', ⟨?_, ?_, ?_⟩, ?_⟩
  · intro e he c hc
    obtain ⟨y, hy, g, hg, rfl⟩ := mem_esOf he
    obtain ⟨uss, _, hx⟩ := hspec y hy
    exact hx.ok.keyed g hg c hc
  · intro e he c hc
    obtain ⟨y, hy, g, hg, rfl⟩ := mem_esOf he
    obtain ⟨uss, hf, hx⟩ := hspec y hy
    exact hx.q (fun u hu => hq y hy uss hf u hu) g hg c hc
  · rw [esOf_cs]
    have e1 : ys.map (fun y => idsOf (flat y.2)) = ys.map (fun y => (y.1.1.map (pairIds fs)).sum) := by
      apply List.map_congr_left
      intro y hy
      obtain ⟨uss, hf, hx⟩ := hspec y hy
      rw [hx.ids, readback_ids fs hf]
      exact ((sortBatch_perm y.1.1).map _).sum_eq
    have e2 : ys.map (fun y => (y.1.1.map (pairIds fs)).sum)
        = (chunk c.binSize pairs).map (fun ch => (ch.map (pairIds fs)).sum) := by
      rw [← hchunks, List.map_map]; rfl
    rw [e1, e2, sum_map_sum_flatten, chunk_flatten, prevPairs_ids hdir hes.keyed hall]
    exact hes.ids
  · intro e he
    obtain ⟨y, hy, g, hg, rfl⟩ := mem_esOf he
    exact mergingGroups_nonempty pol c _ _ _ _ (h2 y hy) g hg

end

/-! ### from the invariant to the next round's success -/

theorem Good.id_lt {D : Nat → Row} {N r : Nat} {fs : FS} {es : List Entry} (hg : Good D N r fs es)
    {e : Entry} (he : e ∈ es) {c : Clu} (hc : c ∈ e.cs) {id : Nat} (hid : id ∈ c.ids) : id < N := by
  have hm : c ∈ ((es.flatMap (·.cs) : List Clu) : Multiset Clu) := List.mem_flatMap.mpr ⟨e, he, hc⟩
  have := mem_idsOf hm hid
  rw [hg.esok.ids] at this
  simpa using this

theorem Good.readable {D : Nat → Row} {N r : Nat} {fs : FS} {es : List Entry} (hg : Good D N r fs es)
    (F : Nat) (hDw : ∀ i, i < N → (D i).length = F) : Readable F r fs es where
  dir := hg.dir
  keyed := hg.esok.keyed
  cnt := fun e he c hc => (hg.esok.q e he c hc).1.n_eq.symm
  ne := hg.ne
  width := by
    intro e he c hc
    have hx := hg.esok.q e he c hc
    rw [hx.1.ls_eq]
    apply colSum_length
    · intro r hr
      obtain ⟨id, hid, rfl⟩ := List.mem_map.mp hr
      exact hDw id (hg.id_lt he hc hid)
    · intro h0
      have : c.ids.length = 0 := by simpa using congrArg List.length h0
      have := hx.1.n_eq
      have := hx.2
      omega

theorem Good.pairs {D : Nat → Row} {N r : Nat} {fs : FS} {es : List Entry} (hg : Good D N r fs es) (hN : 0 < N) :
    (∀ p ∈ prevPairs fs (r + 1), ∃ en ∈ es, p = en.pair r) ∧ prevPairs fs (r + 1) ≠ [] := by
  obtain ⟨qs, hp, hq⟩ := prevPairs_of_dirInv hg.dir
  rw [hq]
  constructor
  · intro p hpp
    obtain ⟨e, he, rfl⟩ := List.mem_map.mp hpp
    exact ⟨e, hp.mem_iff.mp he, rfl⟩
  · intro h0
    have hqs : qs = [] := List.map_eq_nil_iff.mp h0
    have hes : es = [] := by
      have := hp.length_eq
      rw [hqs] at this
      exact List.length_eq_zero_iff.mp this.symm
    have := hg.esok.ids
    rw [hes] at this
    have := congrArg Multiset.card this
    simp at this
    omega

/-- the documented domain of the multi-round workflow -/
structure MRDom (c : Cfg) (files : List (List Row)) (F : Nat) : Prop where
  initCrit : (Crit.ofName? c.initCrit).isSome
  midCrit : (Crit.ofName? c.midCrit).isSome
  finalCrit : (Crit.ofName? c.finalCrit).isSome
  bf : 1 ≤ c.bf
  atLeastOne : files ≠ []
  nonempty : ∀ f ∈ files, f ≠ []
  width : ∀ f ∈ files, ∀ r ∈ f, r.length = F

theorem dataOf_width (files : List (List Row)) (F : Nat) (hw : ∀ f ∈ files, ∀ r ∈ f, r.length = F) (i : Nat)
    (hi : i < files.flatten.length) : (dataOf files i).length = F := by
  have : dataOf files i = files.flatten[i] := by
    simp [dataOf, List.getD_eq_getElem?_getD, List.getElem?_eq_getElem hi]
  rw [this]
  obtain ⟨f, hf, hr⟩ := List.mem_flatten.mp (List.getElem_mem hi)
  exact hw f hf _ hr

section
variable (hpol : ∀ cfg, (pol cfg).Valid)
include hpol

theorem round1_total (c : Cfg) (files : List (List Row)) (F : Nat) (hd : MRDom c files F)
    (sched : Nat → List Nat → List Nat) (fs : FS) :
    ∃ fs1, runTasks fs (initTasks pol c files) (orderOf sched 1 (initTasks pol c files).length) = .ok fs1 := by
  apply runTasks_total _ _ _ _ (orderOf_perm sched 1 _)
  rw [initTasks_eq]
  intro t ht
  obtain ⟨x, hx, rfl⟩ := List.mem_map.mp ht
  have hmem : x.1 ∈ files.zip _ := (List.mem_zipIdx' hx).2 ▸ List.getElem_mem _
  have hf : x.1.1 ∈ files := (List.of_mem_zip (show (x.1.1, x.1.2) ∈ _ from hmem)).1
  obtain ⟨gs, hgs⟩ := initialGroups_total pol hpol c hd.bf hd.initCrit hd.midCrit F x.1.1 (hd.nonempty _ hf)
    (hd.width _ hf) x.1.2
  simp only [initialTask, hgs, Except.map]
  exact ⟨_, rfl⟩

theorem mid_total (c : Cfg) (F : Nat) (hbf : 1 ≤ c.bf) (hmc : (Crit.ofName? c.midCrit).isSome)
    (D : Nat → Row) (N : Nat) (hN : 0 < N) (hDw : ∀ i, i < N → (D i).length = F) (allRows : List Row)
    (hNr : N ≤ allRows.length) (sched : Nat → List Nat → List Nat) (r : Nat) (fs : FS) (es : List Entry)
    (hg : Good D N r fs es) :
    ∃ fs1, runTasks fs (midTasks pol c allRows (r + 1) fs)
      (orderOf sched (r + 1) (midTasks pol c allRows (r + 1) fs).length) = .ok fs1 := by
  apply runTasks_total _ _ _ _ (orderOf_perm sched (r + 1) _)
  rw [midTasks_eq]
  intro t ht
  obtain ⟨x, hx, rfl⟩ := List.mem_map.mp ht
  have hch : x.1 ∈ chunk c.binSize (prevPairs fs (r + 1)) := (List.mem_zipIdx' hx).2 ▸ List.getElem_mem _
  obtain ⟨hp, _⟩ := hg.pairs hN
  obtain ⟨gs, hgs⟩ := mergingGroups_total pol hpol (hg.readable F hDw) N (fun e he c hc id hid => hg.id_lt he hc hid)
    c hbf hmc allRows hNr (sortBatch x.1)
    (fun p hpp => hp p (chunk_mem hch ((sortBatch_perm _).mem_iff.mp hpp)))
    (by
      intro h0
      have := (sortBatch_perm x.1).length_eq
      rw [h0] at this
      exact chunk_ne_nil _ _ _ hch (List.length_eq_zero_iff.mp this.symm))
  simp only [mergingTask, hgs, Except.map]
  exact ⟨_, rfl⟩

theorem midRounds_total (c : Cfg) (F : Nat) (hbf : 1 ≤ c.bf) (hmc : (Crit.ofName? c.midCrit).isSome)
    (D : Nat → Row) (N : Nat) (hN : 0 < N) (hDw : ∀ i, i < N → (D i).length = F) (allRows : List Row)
    (hNr : N ≤ allRows.length) (hD : ∀ id r, allRows[id]? = some r → D id = r)
    (sched : Nat → List Nat → List Nat) :
    ∀ (k r : Nat) (fs : FS) (es : List Entry), Good D N r fs es →
      ∃ fs' es', midRounds pol c allRows sched k (r + 1) fs = .ok fs' ∧ Good D N (r + k) fs' es'
  | 0, r, fs, es, hg => ⟨fs, es, rfl, hg⟩
  | k + 1, r, fs, es, hg => by
    obtain ⟨fs1, h1⟩ := mid_total pol hpol c F hbf hmc D N hN hDw allRows hNr sched r fs es hg
    have h1' := runTasks_ok fs fs1 _ (midTasks_disjoint pol c allRows (r + 1) fs) _ (orderOf_perm sched (r + 1) _) h1
    obtain ⟨es1, hg1⟩ := mid_good pol hpol D c hbf allRows hD N r fs fs1 es hg h1'
    obtain ⟨fs', es', h2, hg'⟩ := midRounds_total c F hbf hmc D N hN hDw allRows hNr hD sched k (r + 1) fs1 es1 hg1
    refine ⟨fs', es', ?_, by rw [show r + (k + 1) = r + 1 + k by omega]; exact hg'⟩
    rw [midRounds_succ, h1]
    exact h2

/-- **totality of the multi-round workflow**: on its domain (known criterion names, at least one
input file, no empty file, one fingerprint width) the run completes, for every refinement mode,
bin size, number of midsection rounds, schedule and initial directory content -/
theorem multiround_total (c : Cfg) (files : List (List Row)) (F : Nat) (hd : MRDom c files F)
    (sched : Nat → List Nat → List Nat) (fs0 : FS) : ∃ fs, multiround pol c files sched fs0 = .ok fs := by
  have hlen : (files.map List.length).sum = files.flatten.length := by rw [List.length_flatten]
  have hN : 0 < (files.map List.length).sum := by
    rw [hlen]; exact BB.Cli.flatten_pos files hd.atLeastOne hd.nonempty
  have hDw : ∀ i, i < (files.map List.length).sum → (dataOf files i).length = F :=
    fun i hi => dataOf_width files F hd.width i (by rw [← hlen]; exact hi)
  have hDall : ∀ id r, files.flatten[id]? = some r → dataOf files id = r := dataOf_get files
  obtain ⟨fs1, h1⟩ := round1_total pol hpol c files F hd sched (purge fs0)
  have h1' := runTasks_ok _ fs1 _ (initTasks_disjoint pol c files) _ (orderOf_perm sched 1 _) h1
  obtain ⟨es1, hg1⟩ := round1_good pol hpol (dataOf files) c hd.bf files rfl (purge fs0) fs1
    (WF_purge fs0) (purge_noRound fs0) h1'
  obtain ⟨fs2, es2, h2, hg2⟩ := midRounds_total pol hpol c F hd.bf hd.midCrit (dataOf files) _ hN hDw files.flatten
    (by rw [hlen]) hDall sched c.nMidRounds 1 fs1 es1 hg1
  obtain ⟨hp, hpne⟩ := hg2.pairs hN
  obtain ⟨cl, hcl⟩ := finalClus_total pol hpol (hg2.readable F hDw) c hd.bf hd.finalCrit _ hp hpne
  rw [multiround_eq, h1]
  simp only [bind, Except.bind]
  rw [h2]
  simp only
  rw [show c.nMidRounds + 2 = 1 + c.nMidRounds + 1 by omega]
  simp only [finalTask, hcl, Except.map]
  exact ⟨_, rfl⟩

end

end BB.MR

namespace BB.Cli
open BB

/-- the documented domain of `bb multiround`: known criterion names, a known `--initial-refine`, no
more midsection processes than initial ones, branching factor ≥ 2, at least one input file, no empty
file, all fingerprints of one length -/
structure MultiDom (o : MultiOpts) (files : List (List Row)) (F : Nat) : Prop where
  initCrit : (Crit.ofName? o.initCrit).isSome
  midCrit : (Crit.ofName? o.midCrit).isSome
  mode : (parseMode o.initialRefine).isSome
  procs : ∀ m, o.midPs = some m → m ≤ o.ps
  bf : 2 ≤ o.bf
  atLeastOne : files ≠ []
  nonempty : ∀ f ∈ files, f ≠ []
  width : ∀ f ∈ files, ∀ r ∈ f, r.length = F

theorem MultiDom.mr {o : MultiOpts} {files : List (List Row)} {F : Nat} (h : MultiDom o files F) :
    MR.MRDom (toMRCfg o) files F :=
  ⟨h.initCrit, h.midCrit, h.midCrit, by have := h.bf; show 1 ≤ o.bf; omega, h.atLeastOne, h.nonempty, h.width⟩

theorem MultiDom.args {o : MultiOpts} {files : List (List Row)} {F : Nat} (h : MultiDom o files F) :
    multiArgsOk o = true := by
  unfold multiArgsOk
  rw [h.mode, Bool.and_true]
  cases hm : o.midPs with
  | none => rfl
  | some m => simpa using h.procs m hm

/-- a concrete option set (non-vacuity examples of BBProps/C15.lean) -/
def exampleMulti : MultiOpts :=
  { bf := 50, thr := 13/20, midChg := 0, tol := 1/20, initCrit := "diameter", midCrit := "tolerance-diameter",
    initialRefine := "full", splitAfterMid := true, binSize := 2, nMidRounds := 2, ps := 4, midPs := some 2,
    saveCentroids := true, saveTree := false, cleanup := true, overwrite := true }

end BB.Cli
