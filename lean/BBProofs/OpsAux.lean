/-
Estimator core, part 4a: list facts about the extraction pipeline of
`recluster_inplace` / `refine_inplace` (stable sort, shuffle, grouping by width) and about
labelling the rows of a `fit` call.
-/
import BBProofs.Fit
import Mathlib.Data.List.Perm.Basic

namespace BB

theorem sortClus_perm (cs : List Clu) : (sortClus cs).Perm cs := List.mergeSort_perm _ _

theorem map_getD_range {α : Type} (xs : List α) (d : α) :
    (List.range xs.length).map (fun i => xs.getD i d) = xs := by
  apply List.ext_getElem
  · simp
  · intro i h1 h2
    simp only [List.getElem_map, List.getElem_range]
    simp only [List.length_map, List.length_range] at h1
    simp [List.getD_eq_getElem?_getD, List.getElem?_eq_getElem h1]

theorem applyPerm_perm {α : Type} [Inhabited α] (xs : List α) (p : List Nat) : (applyPerm xs p).Perm xs := by
  unfold applyPerm
  split
  · rename_i h
    have hp : p.Perm (List.range xs.length) := List.isPerm_iff.mp h
    have := hp.map (fun i => xs.getD i default)
    rw [map_getD_range] at this
    exact this
  · exact List.Perm.refl _

/-- one step of `_prepare_bf_to_buffer_dicts` -/
def groupStep (acc : List (W × List Clu)) (c : Clu) : List (W × List Clu) :=
  if acc.any (fun g => g.1 == c.w) then acc.map (fun g => if g.1 == c.w then (g.1, g.2 ++ [c]) else g)
  else acc ++ [(c.w, [c])]

theorem groupByW_eq (cs : List Clu) : groupByW cs = cs.foldl groupStep [] := rfl

/-- group keys are distinct, so a cluster is appended to exactly one group -/
theorem groupStep_spec (acc : List (W × List Clu)) (c : Clu) (hnd : (acc.map (·.1)).Nodup)
    (hne : ∀ g ∈ acc, g.2 ≠ []) :
    ((groupStep acc c).map (·.1)).Nodup ∧ (∀ g ∈ groupStep acc c, g.2 ≠ []) ∧
    (((groupStep acc c).flatMap (·.2) : List Clu) : Multiset Clu) = ((acc.flatMap (·.2) : List Clu) : Multiset Clu) + {c} := by
  unfold groupStep
  split
  · rename_i hany
    refine ⟨?_, ?_, ?_⟩
    · have : (acc.map (fun g => if g.1 == c.w then (g.1, g.2 ++ [c]) else g)).map (·.1) = acc.map (·.1) := by
        rw [List.map_map]; apply List.map_congr_left; intro g _; simp only [Function.comp]; split <;> rfl
      rw [this]; exact hnd
    · intro g hg
      simp only [List.mem_map] at hg
      obtain ⟨g0, hg0, rfl⟩ := hg
      split
      · simp
      · exact hne g0 hg0
    · clear hne
      induction acc with
      | nil => simp at hany
      | cons a acc ih =>
        simp only [List.map_cons, List.nodup_cons, List.mem_map, not_exists, not_and] at hnd
        simp only [List.map_cons, List.flatMap_cons, ← Multiset.coe_add]
        by_cases ha : (a.1 == c.w) = true
        · -- appended here; the tail has no matching key
          have htail : acc.map (fun g => if g.1 == c.w then (g.1, g.2 ++ [c]) else g) = acc := by
            conv_rhs => rw [← List.map_id acc]
            apply List.map_congr_left
            intro g hg
            simp only [id]
            have : g.1 ≠ a.1 := fun he => hnd.1 g hg he
            have hw : a.1 = c.w := by simpa using ha
            have : (g.1 == c.w) = false := by rw [← hw]; simpa using this
            simp [this]
          rw [htail]
          simp only [ha, ↓reduceIte]
          rw [show ({c} : Multiset Clu) = (([c] : List Clu) : Multiset Clu) from rfl, ← Multiset.coe_add a.2 [c]]
          abel
        · have ha' : (a.1 == c.w) = false := by simpa using ha
          have hany' : acc.any (fun g => g.1 == c.w) = true := by
            simpa [List.any_cons, ha'] using hany
          simp only [ha', Bool.false_eq_true, ↓reduceIte]
          rw [ih hnd.2 hany', add_assoc]
  · rename_i hany
    refine ⟨?_, ?_, ?_⟩
    · rw [List.map_append, List.nodup_append]
      refine ⟨hnd, by simp, ?_⟩
      intro a ha b hb
      simp only [List.map_cons, List.map_nil, List.mem_singleton] at hb
      subst hb
      intro he
      apply hany
      simp only [List.any_eq_true]
      simp only [List.mem_map] at ha
      obtain ⟨g, hg, rfl⟩ := ha
      exact ⟨g, hg, by simp [he]⟩
    · intro g hg
      rcases List.mem_append.mp hg with hg | hg
      · exact hne g hg
      · simp only [List.mem_singleton] at hg; subst hg; simp
    · simp only [List.flatMap_append, List.flatMap_cons, List.flatMap_nil, List.append_nil, ← Multiset.coe_add]
      rfl

theorem groupByW_spec (cs : List Clu) :
    ((groupByW cs).map (·.1)).Nodup ∧ (∀ g ∈ groupByW cs, g.2 ≠ []) ∧
    ((((groupByW cs).flatMap (·.2)) : List Clu) : Multiset Clu) = (cs : Multiset Clu) := by
  rw [groupByW_eq]
  have key : ∀ (cs : List Clu) (acc : List (W × List Clu)), (acc.map (·.1)).Nodup → (∀ g ∈ acc, g.2 ≠ []) →
      ((cs.foldl groupStep acc).map (·.1)).Nodup ∧ (∀ g ∈ cs.foldl groupStep acc, g.2 ≠ []) ∧
      ((((cs.foldl groupStep acc).flatMap (·.2)) : List Clu) : Multiset Clu)
        = ((acc.flatMap (·.2) : List Clu) : Multiset Clu) + (cs : Multiset Clu) := by
    intro cs
    induction cs with
    | nil => intro acc h1 h2; exact ⟨h1, h2, by simp⟩
    | cons c cs ih =>
      intro acc h1 h2
      obtain ⟨a1, a2, a3⟩ := groupStep_spec acc c h1 h2
      obtain ⟨b1, b2, b3⟩ := ih (groupStep acc c) a1 a2
      refine ⟨b1, b2, ?_⟩
      rw [List.foldl_cons, b3, a3, add_assoc]
      congr 1
  obtain ⟨h1, h2, h3⟩ := key cs [] (by simp) (by simp)
  exact ⟨h1, h2, by simpa using h3⟩

end BB
