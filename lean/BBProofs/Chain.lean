/-
Tree core, part 2: the leaf chain.  The estimator reads its results through a linked
list of leaves that is maintained separately from the tree; here: the multiset of leaf
ids of a tree, how an insertion changes it, and that reading the leaves through a chain
that lists exactly those ids (once each) yields exactly the leaves of the tree.
-/
import BBProofs.TreeBasic

namespace BB

/-- ids of the leaf nodes of a tree -/
def leafIdsM : (h : Nat) → Tree h → Multiset Nat
  | 0, (l : LeafN) => {l.id}
  | h+1, (t : InnerN (Tree h)) => (t.ents.map (fun (e : Clu × Tree h) => leafIdsM h e.2)).sum

def evNew : Option (Nat × Nat) → Multiset Nat
  | none => 0
  | some e => {e.1}

theorem leavesOf_ids : ∀ (h : Nat) (t : Tree h),
    (((leavesOf h t).map (·.id) : List Nat) : Multiset Nat) = leafIdsM h t
  | 0, (l : LeafN) => by simp [leavesOf, leafIdsM]
  | h+1, (t : InnerN (Tree h)) => by
    simp only [leavesOf, leafIdsM]
    induction t.ents with
    | nil => simp
    | cons e es ih =>
      simp only [List.flatMap_cons, List.map_append, List.map_cons, List.sum_cons, ← Multiset.coe_add]
      rw [leavesOf_ids h e.2, ih]

theorem leavesOf_subs : ∀ (h : Nat) (t : Tree h),
    (((leavesOf h t).flatMap (·.subs) : List Clu) : Multiset Clu) = lclus h t
  | 0, (l : LeafN) => by simp [leavesOf, lclus]
  | h+1, (t : InnerN (Tree h)) => by
    simp only [leavesOf, lclus]
    induction t.ents with
    | nil => simp
    | cons e es ih =>
      simp only [List.flatMap_cons, List.flatMap_append, List.map_cons, List.sum_cons, ← Multiset.coe_add]
      rw [leavesOf_subs h e.2, ih]

variable (P : Policy)

theorem insertLeaf_id (l : LeafN) (s : Clu) (next : Nat) :
    (insertLeaf P l s next).node.id = l.id ∧ (insertLeaf P l s next).ev = none ∧
      (insertLeaf P l s next).next = next := by
  unfold insertLeaf
  split
  · simp
  · simp only
    split
    · simp
    · split <;> simp

/-- how `_split_node` changes leaf ids: a leaf split creates one fresh id, placed before the old one -/
theorem splitNode_ids : ∀ (h : Nat) (t : Tree h) (next : Nat),
    leafIdsM h (splitNode P h t next).t1 + leafIdsM h (splitNode P h t next).t2
        = leafIdsM h t + evNew (splitNode P h t next).ev ∧
    (splitNode P h t next).next = next + Multiset.card (evNew (splitNode P h t next).ev) ∧
    (∀ e, (splitNode P h t next).ev = some e → e.1 = next ∧ e.2 ∈ leafIdsM h t)
  | 0, (l : LeafN), next => by
    simp only [splitNode, leafIdsM, evNew, Multiset.card_singleton, true_and]
    refine ⟨add_comm _ _, ?_⟩
    intro e he
    simp only [Option.some.injEq] at he
    subst he
    simp
  | h+1, (t : InnerN (Tree h)), next => by
    simp only [splitNode, leafIdsM, evNew, add_zero, Multiset.card_zero, true_and]
    refine ⟨splitBy_sum (fun (e : Clu × Tree h) => leafIdsM h e.2) _ _, ?_⟩
    intro e he; simp at he

/-- effect of an insertion on the leaf ids -/
structure InsIds (old : Multiset Nat) (next : Nat) (new : Multiset Nat) (ev : Option (Nat × Nat)) (next' : Nat) : Prop where
  ids : new = old + evNew ev
  nxt : next' = next + Multiset.card (evNew ev)
  fresh : ∀ e, ev = some e → e.1 = next ∧ e.2 ∈ old

theorem leafIdsM_inner_split (h : Nat) (t : InnerN (Tree h)) (i : Nat) (c : Clu) (child : Tree h)
    (hc : t.ents[i]? = some (c, child)) :
    leafIdsM (h+1) t = ((t.ents.eraseIdx i).map (fun (e : Clu × Tree h) => leafIdsM h e.2)).sum + leafIdsM h child := by
  simp only [leafIdsM]
  exact sum_eraseIdx (fun (e : Clu × Tree h) => leafIdsM h e.2) _ _ _ hc

theorem evNew_or (a b : Option (Nat × Nat)) (h : b = none ∨ a = none) :
    evNew (a.or b) = evNew b + evNew a := by
  cases a <;> cases b <;> simp_all [evNew]

theorem evOr_some (a b : Option (Nat × Nat)) (e : Nat × Nat)
    (h : a.or b = some e) : a = some e ∨ (a = none ∧ b = some e) := by
  cases a with
  | none => right; exact ⟨rfl, by simpa using h⟩
  | some x => left; simpa using h

theorem ins_ids (hP : P.Valid) : ∀ (h : Nat) (t : Tree h) (s : Clu) (next : Nat), Shape h t →
    InsIds (leafIdsM h t) next (leafIdsM h (ins P h t s next).node) (ins P h t s next).ev (ins P h t s next).next
  | 0, (l : LeafN), s, next, _ => by
    obtain ⟨h1, h2, h3⟩ := insertLeaf_id P l s next
    simp only [ins]
    refine ⟨?_, ?_, ?_⟩
    · simp [leafIdsM, h1, h2, evNew]
    · simp [h2, h3, evNew]
    · intro e he; rw [h2] at he; simp at he
  | h+1, (t : InnerN (Tree h)), s, next, hs => by
    obtain ⟨c, child, hsome, hmem⟩ := Shape.route_some P hP t hs s.cent
    have hchild : Shape h child := hs.2.2.2 _ hmem
    have ih := ins_ids hP h child s next hchild
    have hsub : ∀ x, x ∈ leafIdsM h child → x ∈ leafIdsM (h+1) t := by
      intro x hx
      rw [leafIdsM_inner_split h t _ c child hsome]
      exact Multiset.mem_add.mpr (Or.inr hx)
    rw [leafIdsM_inner_split h t _ c child hsome]
    simp only [ins, hsome]
    split
    · -- the child was split
      have hsp := splitNode_ids P h (ins P h child s next).node (ins P h child s next).next
      -- at most one of the two events exists
      have hone : (ins P h child s next).ev = none ∨
          (splitNode P h (ins P h child s next).node (ins P h child s next).next).ev = none := by
        cases h with
        | zero => left; simp only [ins]; exact (insertLeaf_id P _ s next).2.1
        | succ k => right; simp [splitNode]
      refine ⟨?_, ?_, ?_⟩
      · simp only [leafIdsM, List.map_append, List.sum_append, List.map_cons, List.map_nil, List.sum_cons,
          List.sum_nil, add_zero]
        rw [sum_set_eraseIdx (fun (e : Clu × Tree h) => leafIdsM h e.2) _ _ _ _ hsome, add_assoc]
        simp only
        rw [hsp.1, ih.ids, evNew_or _ _ hone]
        simp only [add_assoc]
      · simp only
        rw [hsp.2.1, evNew_or _ _ hone, Multiset.card_add, ih.nxt, add_assoc]
      · intro e he
        simp only at he
        rcases evOr_some _ _ e he with hse | ⟨_, hre⟩
        · rcases hone with h0 | h0
          · have hn : (ins P h child s next).next = next := by
              have := ih.nxt; rw [h0] at this; simpa [evNew] using this
            have hid : leafIdsM h (ins P h child s next).node = leafIdsM h child := by
              have := ih.ids; rw [h0] at this; simpa [evNew] using this
            obtain ⟨h1, h2⟩ := hsp.2.2 e hse
            rw [hn] at h1; rw [hid] at h2
            exact ⟨h1, by rw [← leafIdsM_inner_split h t _ c child hsome]; exact hsub _ h2⟩
          · rw [h0] at hse; simp at hse
        · obtain ⟨h1, h2⟩ := ih.fresh e hre
          exact ⟨h1, by rw [← leafIdsM_inner_split h t _ c child hsome]; exact hsub _ h2⟩
    · refine ⟨?_, ih.nxt, ?_⟩
      · simp only [leafIdsM]
        rw [sum_set_eraseIdx (fun (e : Clu × Tree h) => leafIdsM h e.2) _ _ _ _ hsome, ih.ids, add_assoc]
      · intro e he
        obtain ⟨h1, h2⟩ := ih.fresh e he
        exact ⟨h1, by rw [← leafIdsM_inner_split h t _ c child hsome]; exact hsub _ h2⟩

/-! ### reading leaves through the chain -/

theorem findLeaf_self (ls : List LeafN) (hn : (ls.map (·.id)).Nodup) (l : LeafN) (hl : l ∈ ls) :
    findLeaf ls l.id = some l := by
  induction ls with
  | nil => simp at hl
  | cons a ls ih =>
    simp only [List.map_cons, List.nodup_cons, List.mem_map, not_exists, not_and] at hn
    simp only [findLeaf, List.find?_cons]
    rcases List.mem_cons.mp hl with h | h
    · subst h; simp
    · have hne : a.id ≠ l.id := fun he => hn.1 l h he.symm
      have : (a.id == l.id) = false := by simpa using hne
      simp only [this]
      exact ih hn.2 h

/-- a chain that lists the leaf ids of the tree, each once, reads exactly the tree's leaves -/
theorem chain_reads (ls : List LeafN) (chain : List Nat)
    (hp : (chain : Multiset Nat) = ((ls.map (·.id) : List Nat) : Multiset Nat)) (hn : chain.Nodup) :
    (chain.filterMap (findLeaf ls)).Perm ls := by
  have hperm : chain.Perm (ls.map (·.id)) := Multiset.coe_eq_coe.mp hp
  have hn' : (ls.map (·.id)).Nodup := hperm.nodup_iff.mp hn
  have h1 : (chain.filterMap (findLeaf ls)).Perm ((ls.map (·.id)).filterMap (findLeaf ls)) :=
    hperm.filterMap _
  have h2 : (ls.map (·.id)).filterMap (findLeaf ls) = ls := by
    rw [List.filterMap_map]
    have : ∀ l ∈ ls, (findLeaf ls ∘ fun x => x.id) l = some l := fun l hl => findLeaf_self ls hn' l hl
    rw [List.filterMap_congr this]
    simp
  rw [h2] at h1
  exact h1

theorem chainInsert_coe (chain : List Nat) (ev : Option (Nat × Nat)) :
    ((chainInsert chain ev : List Nat) : Multiset Nat) = (chain : Multiset Nat) + evNew ev := by
  cases ev with
  | none => simp [chainInsert, evNew]
  | some e =>
    obtain ⟨new, before⟩ := e
    induction chain with
    | nil => simp [chainInsert, evNew]
    | cons x xs ih =>
      simp only [chainInsert]
      split
      · simp only [evNew]
        rw [← Multiset.cons_coe, ← Multiset.singleton_add, add_comm]
      · rw [← Multiset.cons_coe, ih, ← Multiset.cons_coe, Multiset.cons_add]

end BB
