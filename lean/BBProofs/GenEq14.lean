/-
GenEq14 — the scikit-learn wrapper (`bblean/sklearn.py`, class `BitBirch`), methods `fit`, `partial_fit`, `fit_predict` as
translated on this run: when `labels_` is recomputed and what `fit_predict` returns.  Calls of untranslated methods of the
object itself are log entries (`super().fit` = 10, `get_assignments` = 11) and their results inputs (`fit_get_assignments`
is the result of the call made inside `fit`, `fit_predict_get_assignments` of the one made inside `fit_predict`, …);
`compute_labels` and the stacked centroids of the sorted leaf entries are inputs.
-/
import BBProofs.GenEq

namespace BB
open PV

theorem arange_one (n : Nat) : PV.arange (PV.int 1) (PV.int ((n : Int) + 1)) = PV.arr .big (List.range' 1 n) := by
  simp [PV.arange]

/-- `fit`: one `super().fit`, then — only when `compute_labels` — one `get_assignments` whose result becomes `labels_`;
the centres are the stacked centroids, their labels `1 … n` -/
theorem gen_sk_fit (expf : Rat → Rat) (w : W) (cs log : List Nat) (b : Bool) (l0 c0 sl0 nf0 X y p nfe ga : PV) :
    BBGen.SkBitBirch_fit expf l0 c0 sl0 nf0 (arr .big log) X y p nfe (arr w cs) ga (bool b)
      = [str "self", if b then ga else l0, arr w cs, arr .big (List.range' 1 cs.length), int cs.length,
         arr .big (log ++ [10] ++ (if b then [11] else []))] := by
  unfold BBGen.SkBitBirch_fit
  cases b <;> simp [PV.listAppend, PV.len, arange_one]

/-- `fit_predict`: whatever `compute_labels` is, exactly one `get_assignments` call is made, after the `super().fit` of THIS
call, and its result is both the value returned and the new `labels_` -/
theorem gen_sk_fit_predict (expf : Rat → Rat) (w : W) (cs log : List Nat) (b : Bool) (l0 c0 sl0 nf0 X y p nfe gaFit gaFp : PV) :
    BBGen.SkBitBirch_fit_predict expf l0 c0 sl0 nf0 (arr .big log) X y p nfe (arr w cs) gaFit gaFp (bool b)
      = [if b then gaFit else gaFp, if b then gaFit else gaFp, arr w cs, arr .big (List.range' 1 cs.length), int cs.length,
         arr .big (log ++ [10, 11])] := by
  unfold BBGen.SkBitBirch_fit_predict
  rw [gen_sk_fit]
  cases b <;> simp [PV.listAppend, PV.not, PV.truthy]

/-- `partial_fit`: without data a `ValueError` and nothing is called or changed; with data `fit`, and — only when
`compute_labels` — `labels_` ends as the result of the LAST `get_assignments` call -/
theorem gen_sk_partial_fit (expf : Rat → Rat) (w : W) (cs log : List Nat) (b : Bool) (l0 c0 sl0 nf0 y p nfe gaFit gaPf : PV) :
    BBGen.SkBitBirch_partial_fit expf l0 c0 sl0 nf0 (arr .big log) PV.pynone y p nfe (arr w cs) gaFit gaPf (bool b)
      = [err "ValueError", l0, c0, sl0, nf0, arr .big log] ∧
    ∀ xs : List Nat, BBGen.SkBitBirch_partial_fit expf l0 c0 sl0 nf0 (arr .big log) (arr .u8 xs) y p nfe (arr w cs) gaFit gaPf (bool b)
      = [str "self", if b then gaPf else l0, arr w cs, arr .big (List.range' 1 cs.length), int cs.length,
         arr .big (log ++ [10] ++ (if b then [11, 11] else []))] := by
  constructor
  · simp [BBGen.SkBitBirch_partial_fit, PV.isNone]
  · intro xs
    unfold BBGen.SkBitBirch_partial_fit
    rw [gen_sk_fit]
    cases b <;> simp [PV.listAppend, PV.isNone]

end BB
