/-
GenEq — the *generated* model (BBGen/Gen.lean, written by tools/py2lean.py from the Python
sources on every run) computes what the hand-written model computes.

Each theorem relates one translated Python function, applied to values of the algebra
PyNum.lean that represent its real arguments (arrays of unsigned sums, Python ints, floats),
to the definition of BBModel that the property theorems are about.  Hypotheses name exactly
what the relation needs: sums bounded by the count, counts below 2^53 (exact int → float64
conversion), and non-zero float denominators (`x/0` is outside both models).
When the Python source changes, Gen.lean changes, and these proofs are re-checked against the
new text; if one no longer closes, the proof gate reports which (harness/checklib.py).
-/
import BBGen.Gen
import BBProofs.PyNum
import BBProofs.Isim
import BBModel.Merges
import BBModel.MemPages
import Mathlib.Tactic.Ring
import Mathlib.Tactic.Linarith

namespace BB
open PV

theorem gen_min_safe_uint (expf : Rat → Rat) (n : Nat) :
    BBGen.min_safe_uint expf (PV.int n) =
      match minSafe? n with
      | some w => PV.dtype (some w)
      | none => PV.err "ValueError" := by
  unfold BBGen.min_safe_uint
  simp only [PV.minScalarType]
  have : ¬ ((n : Int) < 0) := by omega
  simp only [this, if_false, Int.toNat_natCast]
  cases h : minSafe? n <;> simp [PV.hasobject, PV.ite, PV.truthy]

/-- the float denominator of `isimFromSum` -/
def isimDen (ls : List Nat) (n : Nat) : Rat :=
  let S := u64 ls.sum
  let Q := u64 (ls.map (fun k => k * k)).sum
  let a := ofNat (u64 (Q + 2 ^ 64 - S)) / 2
  fsub (fadd a (ofNat (u64 (n * S)))) (ofNat Q)

/-- what the Python function returns, as a value of the algebra -/
def isimPV (ls : List Nat) (n : Nat) : PV :=
  if n < 2 then PV.flt none
  else if u64 ls.sum = 0 then PV.int 1
  else PV.flt (isimFromSum ls n)

theorem map_wrap_u64 (ls : List Nat) (h : ∀ k ∈ ls, k < 2 ^ 64) : ls.map (wrap .u64) = ls := by
  induction ls with
  | nil => rfl
  | cons a t ih =>
    simp only [List.map_cons, List.cons.injEq]
    refine ⟨?_, ih (fun k hk => h k (List.mem_cons_of_mem _ hk))⟩
    have := h a (List.mem_cons_self)
    simp only [wrap, W.bits]
    exact Nat.mod_eq_of_lt this

theorem zipWith_mul_self (ls : List Nat) : List.zipWith (· * ·) ls ls = ls.map (fun k => k * k) := by
  induction ls with
  | nil => rfl
  | cons a t ih => simp

theorem rnd_two : rnd 2 = 2 := by
  have := rnd_natCast_of_lt 2 (by norm_num)
  simpa using this

theorem wrapInt_sub_u64 (Q S : Nat) (hQ : Q < 2 ^ 64) (hS : S < 2 ^ 64) :
    wrapInt .u64 ((Q : Int) - S) = u64 (Q + 2 ^ 64 - S) := by
  simp only [wrapInt, W.bits, u64]
  norm_num at hQ hS ⊢
  omega

theorem wrapInt_mul_u64 (n S : Nat) : wrapInt .u64 ((n : Int) * S) = u64 (n * S) := by
  simp only [wrapInt, W.bits, u64]
  have : ((n : Int) * S) = ((n * S : Nat) : Int) := by push_cast; ring
  rw [this]
  norm_num
  omega

theorem gen_isim (expf : Rat → Rat) (w : W) (ls : List Nat) (n : Nat)
    (hls : ∀ k ∈ ls, k < 2 ^ 64) (hn : n < 2 ^ 64) (hden : isimDen ls n ≠ 0) :
    BBGen.jt_isim_from_sum expf (PV.arr w ls) (PV.int n) = isimPV ls n := by
  unfold BBGen.jt_isim_from_sum isimPV
  by_cases h2 : n < 2
  · have : ((n : Int) < 2) := by omega
    simp [h2, PV.nan, this]
  · have h2' : ¬ ((n : Int) < 2) := by omega
    simp only [lt_int_int, h2', decide_false, ite_bool, Bool.false_eq_true, if_false, h2,
      PV.astype, map_wrap_u64 ls hls, PV.npSum, PV.npDot, if_true, zipWith_mul_self]
    have hww : wmax W.u64 W.u64 = W.u64 := rfl
    rw [hww]
    have hS : ls.sum % 2 ^ 64 = u64 ls.sum := rfl
    have hQ : wrap .u64 (ls.map (fun k => k * k)).sum = u64 (ls.map (fun k => k * k)).sum := rfl
    rw [hS, hQ]
    by_cases h0 : u64 ls.sum = 0
    · simp [h0]
    · have h0' : ¬ ((u64 ls.sum : Int) = 0) := by exact_mod_cast h0
      simp only [eq_uns_int, h0', decide_false, ite_bool, Bool.false_eq_true, if_false, h0]
      have hSlt : u64 ls.sum < 2 ^ 64 := Nat.mod_lt _ (by norm_num)
      have hQlt : u64 (ls.map (fun k => k * k)).sum < 2 ^ 64 := Nat.mod_lt _ (by norm_num)
      rw [sub_uns_uns, hww, wrapInt_sub_u64 _ _ hQlt hSlt]
      rw [truediv_uns_int _ _ 2 (by rw [show ((2:Int):Rat) = 2 by norm_num, rnd_two]; norm_num)]
      rw [mul_int_uns _ _ _ (by omega) (by simpa [W.bits] using (by exact_mod_cast hn : (n:Int) < 2 ^ 64)),
        wrapInt_mul_u64]
      simp only [add_flt_uns, sub_flt_uns, fop]
      have hA : ∀ d : Nat, fdiv (rnd (d : Rat)) (rnd ((2 : Int) : Rat)) = ofNat d / 2 := by
        intro d
        rw [show ((2:Int):Rat) = 2 by norm_num, rnd_two]
        unfold fdiv ofNat
        rw [rnd_half, rnd_idem]
      rw [hA]
      have hD : fsub (fadd (ofNat (u64 (u64 (ls.map (fun k => k * k)).sum + 2 ^ 64 - u64 ls.sum)) / 2)
            (rnd ((u64 (n * u64 ls.sum) : Nat) : Rat))) (rnd ((u64 (ls.map (fun k => k * k)).sum : Nat) : Rat))
          = isimDen ls n := rfl
      rw [hD, truediv_flt_flt _ _ hden]
      unfold isimFromSum
      simp only [h2, if_false, h0]
      rfl


/-- `isimDen` does not matter when the function returns early -/
theorem gen_isim' (expf : Rat → Rat) (w : W) (ls : List Nat) (n : Nat)
    (hls : ∀ k ∈ ls, k < 2 ^ 64) (hn : n < 2 ^ 64) (hden : 2 ≤ n → u64 ls.sum ≠ 0 → isimDen ls n ≠ 0) :
    BBGen.jt_isim_from_sum expf (PV.arr w ls) (PV.int n) = isimPV ls n := by
  by_cases h2 : 2 ≤ n
  · by_cases h0 : u64 ls.sum = 0
    · unfold BBGen.jt_isim_from_sum isimPV
      have h2' : ¬ ((n : Int) < 2) := by omega
      have h2'' : ¬ (n < 2) := by omega
      simp only [lt_int_int, h2', decide_false, ite_bool, Bool.false_eq_true, if_false, h2'',
        PV.astype, map_wrap_u64 ls hls, PV.npSum]
      have hS : ls.sum % 2 ^ 64 = u64 ls.sum := rfl
      rw [hS, h0]
      simp
    · exact gen_isim expf w ls n hls hn (hden h2 h0)
  · unfold BBGen.jt_isim_from_sum isimPV
    have : ((n : Int) < 2) := by omega
    have h2'' : (n < 2) := by omega
    simp [h2'', PV.nan, this]



theorem rnd_natCast_lt {a : Nat} (h : a < 2 ^ 53) : rnd (a : Rat) = a := rnd_natCast_of_lt a h

theorem half_exact (n : Nat) (hn : n < 2 ^ 53) :
    fmul (rnd ((n : Int) : Rat)) ((1 : Rat) / 2) = (n : Rat) / 2 := by
  have : ((n : Int) : Rat) = (n : Rat) := by norm_num
  rw [this, rnd_natCast_lt hn]
  unfold fmul
  rw [show (n : Rat) * (1 / 2) = (n : Rat) / 2 by ring, rnd_half, rnd_natCast_lt hn]

theorem gen_centroid_unpacked (expf : Rat → Rat) (w : W) (ls : List Nat) (n : Nat)
    (hk : ∀ k ∈ ls, k ≤ n) (hn : n < 2 ^ 53) :
    BBGen.centroid_from_sum expf (PV.arr w ls) (PV.int n) (PV.bool false)
      = PV.arr .u8 (rowToNat (centroidFromSum ls n)) := by
  unfold BBGen.centroid_from_sum centroidFromSum
  by_cases h1 : n ≤ 1
  · have h1' : ((n : Int) ≤ 1) := by omega
    simp only [le_int_int, h1', decide_true, ite_bool, if_true, PV.astype, h1, Bool.false_eq_true, if_false]
    congr 1
    simp only [rowToNat, List.map_map]
    apply List.map_congr_left
    intro k hkm
    have := hk k hkm
    have hk1 : k ≤ 1 := by omega
    obtain rfl | rfl : k = 0 ∨ k = 1 := by omega
    all_goals simp [wrap, W.bits]
  · have h1' : ¬ ((n : Int) ≤ 1) := by omega
    simp only [le_int_int, h1', decide_false, ite_bool, Bool.false_eq_true, if_false, h1,
      mul_int_flt, fop, half_exact n hn]
    simp only [PV.ge, PV.rel, PV.toNum, PV.viewU8, rowToNat, List.map_map]
    congr 1
    apply List.map_congr_left
    intro k hkm
    have hkn := hk k hkm
    have hk53 : k < 2 ^ 53 := by omega
    simp only [Function.comp, PV.cmpNum, Num.toF, rnd_natCast_lt hk53, PV.ordSat]
    by_cases hc : n ≤ 2 * k
    · have : ¬ ((k : Rat) < (n : Rat) / 2) := by
        rw [not_lt, div_le_iff₀ (by norm_num)]
        exact_mod_cast (by omega : n ≤ k * 2)
      by_cases he : (k : Rat) = (n : Rat) / 2 <;> simp [this, he, hc]
    · have : ((k : Rat) < (n : Rat) / 2) := by
        rw [lt_div_iff₀ (by norm_num)]
        exact_mod_cast (by omega : k * 2 < n)
      simp [this, hc]


theorem zipWith_wrap_eq (A B : List Nat) (hl : A.length = B.length) :
    List.zipWith (fun x y => wrap .u64 (x + y)) A B = (addLs A B).map u64 := by
  induction A generalizing B with
  | nil => cases B <;> simp_all [addLs]
  | cons a A ih =>
    cases B with
    | nil => simp at hl
    | cons b B =>
      simp only [List.zipWith_cons_cons, addLs, List.map_cons, List.cons.injEq]
      exact ⟨rfl, ih B (by simpa using hl)⟩

/-- the list `new_ls_1` of `jt_isim_radius_compl_from_sum` -/
def ls1 (ls : List Nat) (n : Nat) : List Nat := (addLs ls (rowToNat (centroidFromSum ls n))).map u64

theorem ls1_lt (ls : List Nat) (n : Nat) : ∀ k ∈ ls1 ls n, k < 2 ^ 64 := by
  intro k hk
  simp only [ls1, List.mem_map] at hk
  obtain ⟨a, _, rfl⟩ := hk
  exact Nat.mod_lt _ (by norm_num)

theorem gen_centroid_length (ls : List Nat) (n : Nat) : (rowToNat (centroidFromSum ls n)).length = ls.length := by
  unfold centroidFromSum rowToNat
  split <;> simp

@[simp] theorem sub_flt_int (x : Option Rat) (i : Int) :
    PV.sub (PV.flt x) (PV.int i) = PV.flt (PV.fop fsub x (some (rnd i))) :=
  PV.arith_flt_l _ _ x _ _ rfl (by intro e h; cases h)

theorem fdiv_two (z : Rat) : fdiv (rnd z) (rnd ((2 : Int) : Rat)) = rnd z / 2 := by
  rw [show ((2:Int):Rat) = 2 by norm_num, rnd_two]
  unfold fdiv
  rw [rnd_half, rnd_idem]

theorem fmul_one_ofNat (m : Nat) : fmul 1 (ofNat m) = rnd (m : Rat) := by
  unfold fmul ofNat; rw [one_mul, rnd_idem]

theorem rnd_int_nat (m : Nat) : rnd (((m : Nat) : Int) : Rat) = rnd (m : Rat) := by
  congr 1

theorem truediv_fsub_two (a b : Rat) :
    PV.truediv (PV.flt (some (fsub a b))) (PV.int 2) = PV.flt (some (fsub a b / 2)) := by
  rw [PV.truediv_flt_int _ _ (by rw [show ((2:Int):Rat) = 2 by norm_num, rnd_two]; norm_num)]
  unfold fsub
  rw [fdiv_two]

theorem gen_radius (expf : Rat → Rat) (w : W) (ls : List Nat) (n : Nat)
    (hk : ∀ k ∈ ls, k ≤ n) (hn : n + 1 < 2 ^ 53)
    (hden : 2 ≤ n → u64 ls.sum ≠ 0 → isimDen ls n ≠ 0)
    (hden1 : 2 ≤ n + 1 → u64 (ls1 ls n).sum ≠ 0 → isimDen (ls1 ls n) (n + 1) ≠ 0) :
    BBGen.jt_isim_radius_compl_from_sum expf (PV.arr w ls) (PV.int n) = PV.flt (radiusCompl ls n) := by
  have hls : ∀ k ∈ ls, k < 2 ^ 64 := fun k h => by have := hk k h; omega
  unfold BBGen.jt_isim_radius_compl_from_sum
  simp only [gen_centroid_unpacked expf w ls n hk (by omega), PV.npAdd, gen_centroid_length, if_true,
    zipWith_wrap_eq ls _ (gen_centroid_length ls n).symm, add_int_int]
  have hcast : ((n : Int) + 1) = ((n + 1 : Nat) : Int) := by push_cast; ring
  rw [hcast, gen_isim' expf w ls n hls (by omega) hden]
  have h1 := gen_isim' expf .u64 (ls1 ls n) (n + 1) (ls1_lt ls n) (by omega) hden1
  unfold ls1 at h1
  rw [h1]
  unfold radiusCompl isimPV
  by_cases h2 : n < 2
  · have hj : isimFromSum ls n = none := isim_none ls n h2
    simp only [h2, if_true, hj]
    split_ifs <;> simp [PV.fop]
  · have h2b : ¬ (n + 1 < 2) := by omega
    have hsub : PV.sub (PV.int n) (PV.int 1) = PV.int ((n - 1 : Nat) : Int) := by
      simp only [sub_int_int]; congr 1; omega
    simp only [h2, h2b, if_false, hsub]
    have hr1 : rnd (((n + 1 : Nat) : Int) : Rat) = ((n + 1 : Nat) : Rat) := by
      rw [show (((n + 1 : Nat) : Int) : Rat) = ((n + 1 : Nat) : Rat) by norm_num]
      exact rnd_natCast_lt hn
    have hr2 : rnd (((n - 1 : Nat) : Int) : Rat) = ((n - 1 : Nat) : Rat) := by
      rw [show (((n - 1 : Nat) : Int) : Rat) = ((n - 1 : Nat) : Rat) by norm_num]
      exact rnd_natCast_lt (by omega)
    have ho1 : ofNat (n + 1) = ((n + 1 : Nat) : Rat) := rnd_natCast_lt hn
    have ho2 : ofNat (n - 1) = ((n - 1 : Nat) : Rat) := rnd_natCast_lt (by omega)
    by_cases h0 : u64 ls.sum = 0 <;>
    by_cases h1 : u64 ((addLs ls (rowToNat (centroidFromSum ls n))).map u64).sum = 0
    · have hj : isimFromSum ls n = some 1 := by simp [isimFromSum, h2, h0]
      have hj1 : isimFromSum ((addLs ls (rowToNat (centroidFromSum ls n))).map u64) (n + 1) = some 1 := by
        simp [isimFromSum, h2b, h1]
      simp only [h0, h1, if_true, hj, hj1, mul_int_int, sub_int_int, one_mul]
      have e2 : ((n + 1 : Nat) : Int) - ((n - 1 : Nat) : Int) = 2 := by omega
      rw [e2]
      simp only [PV.truediv, PV.toNum]
      rw [fmul_one_ofNat, fmul_one_ofNat, rnd_natCast_lt hn, rnd_natCast_lt (by omega : n - 1 < 2 ^ 53)]
      have e3 : ((n + 1 : Nat) : Rat) - ((n - 1 : Nat) : Rat) = 2 := by
        have : ((n - 1 : Nat) : Rat) = (n : Rat) - 1 := by
          rw [Nat.cast_sub (by omega)]; norm_num
        rw [this]; push_cast; ring
      unfold fsub
      rw [e3, rnd_two]
      norm_num
      exact rnd_one
    · obtain ⟨j1, hj1⟩ := Option.isSome_iff_exists.mp (isim_isSome ((addLs ls (rowToNat (centroidFromSum ls n))).map u64) (n + 1) (by omega))
      have hj : isimFromSum ls n = some 1 := by simp [isimFromSum, h2, h0]
      simp only [h0, h1, if_true, if_false, hj, hj1, mul_int_int, one_mul, mul_flt_int, PV.fop, sub_flt_int]
      rw [truediv_fsub_two, fmul_one_ofNat, rnd_int_nat, rnd_int_nat]
      rfl
    · obtain ⟨j, hj⟩ := Option.isSome_iff_exists.mp (isim_isSome ls n (by omega))
      have hj1 : isimFromSum ((addLs ls (rowToNat (centroidFromSum ls n))).map u64) (n + 1) = some 1 := by
        simp [isimFromSum, h2b, h1]
      simp only [h0, h1, if_true, if_false, hj, hj1, mul_int_int, one_mul, mul_flt_int, PV.fop, sub_int_flt]
      rw [truediv_fsub_two, fmul_one_ofNat, rnd_int_nat, rnd_int_nat]
      rfl
    · obtain ⟨j, hj⟩ := Option.isSome_iff_exists.mp (isim_isSome ls n (by omega))
      obtain ⟨j1, hj1⟩ := Option.isSome_iff_exists.mp (isim_isSome ((addLs ls (rowToNat (centroidFromSum ls n))).map u64) (n + 1) (by omega))
      simp only [h0, h1, if_false, hj, hj1, mul_flt_int, PV.fop, sub_flt_flt]
      rw [truediv_fsub_two, rnd_int_nat, rnd_int_nat]
      rfl


/-! ### merge criteria -/

/-- a summary the tree can produce: sums bounded by the count, count below 2^53, and the float
denominators of its two iSIM evaluations non-zero (no `x/0`) -/
structure SumOk (s : Summary) : Prop where
  le : ∀ k ∈ s.ls, k ≤ s.n
  small : s.n + 1 < 2 ^ 53
  den : 2 ≤ s.n → u64 s.ls.sum ≠ 0 → isimDen s.ls s.n ≠ 0
  den1 : 2 ≤ s.n + 1 → u64 (ls1 s.ls s.n).sum ≠ 0 → isimDen (ls1 s.ls s.n) (s.n + 1) ≠ 0

theorem gen_isim_ok (expf : Rat → Rat) (w : W) (s : Summary) (h : SumOk s) :
    BBGen.jt_isim_from_sum expf (PV.arr w s.ls) (PV.int s.n) = isimPV s.ls s.n :=
  gen_isim' expf w s.ls s.n (fun k hk => by have := h.le k hk; have := h.small; omega)
    (by have := h.small; omega) h.den

theorem gen_radius_ok (expf : Rat → Rat) (w : W) (s : Summary) (h : SumOk s) :
    BBGen.jt_isim_radius_compl_from_sum expf (PV.arr w s.ls) (PV.int s.n) = PV.flt (radiusCompl s.ls s.n) :=
  gen_radius expf w s.ls s.n h.le h.small h.den h.den1

theorem fcmp_ge (x : Option Rat) (t : Rat) :
    PV.fcmp (fun p q => decide (q ≤ p)) x (some t) = geOpt x t := by
  cases x <;> rfl

theorem fcmp_lt (x : Option Rat) (t : Rat) :
    PV.fcmp (fun p q => decide (p < q)) x (some t) = ltOpt x t := by
  cases x <;> rfl

theorem isimPV_lt (ls : List Nat) (n : Nat) (t : Rat) :
    PV.lt (isimPV ls n) (PV.flt (some t)) = PV.bool (ltOpt (isimFromSum ls n) t) := by
  unfold isimPV
  by_cases h2 : n < 2
  · simp [h2, isim_none ls n h2, PV.lt_flt_flt, PV.fcmp, ltOpt]
  · by_cases h0 : u64 ls.sum = 0
    · have hj : isimFromSum ls n = some 1 := by simp [isimFromSum, h2, h0]
      simp only [h2, if_false, h0, if_true, hj, ltOpt]
      simp [PV.lt, PV.rel, PV.toNum, PV.cmpNum, Num.toF, PV.ordSat, rnd_one]
      by_cases h : (1 : Rat) < t
      · simp [h]
      · by_cases h' : (1 : Rat) = t <;> simp [h, h']
    · simp only [h2, if_false, h0, PV.lt_flt_flt, fcmp_lt]

theorem isimPV_ge (ls : List Nat) (n : Nat) (y : Option Rat) :
    PV.ge (isimPV ls n) (PV.flt y) = PV.ge (PV.flt (isimFromSum ls n)) (PV.flt y) := by
  unfold isimPV
  by_cases h2 : n < 2
  · simp [h2, isim_none ls n h2]
  · by_cases h0 : u64 ls.sum = 0
    · have hj : isimFromSum ls n = some 1 := by simp [isimFromSum, h2, h0]
      simp only [h2, if_false, h0, if_true, hj]
      simp [PV.ge, PV.rel, PV.toNum, PV.cmpNum, Num.toF, rnd_one]
    · simp only [h2, if_false, h0]

theorem isimPV_sub (ls : List Nat) (n : Nat) (y : Option Rat) :
    PV.sub (isimPV ls n) (PV.flt y) = PV.flt (PV.fop fsub (isimFromSum ls n) y) := by
  unfold isimPV
  by_cases h2 : n < 2
  · simp [h2, isim_none ls n h2]
  · by_cases h0 : u64 ls.sum = 0
    · have hj : isimFromSum ls n = some 1 := by simp [isimFromSum, h2, h0]
      simp only [h2, if_false, h0, if_true, hj, sub_int_flt]
      simp [rnd_one]
    · simp only [h2, if_false, h0, sub_flt_flt]


/-- Python's `1e-3` -/
def decay0 : Rat := 1152921504606847 / 1152921504606846976

/-- the exp table the code uses, as a function of `np.exp` -/
def tabOf (expf : Rat → Rat) : ExpTab :=
  { E := fun n => expf (fmul (-decay0) (rnd (n : Rat))), off := expf (fmul (-decay0) (rnd 1000)) }

theorem gen_slack (expf : Rat → Rat) (tol : Rat) (n : Nat) :
    PV.max2 (PV.mul (PV.flt (some tol))
        (PV.sub (PV.exp expf (PV.mul (PV.neg (PV.flt (some decay0))) (PV.int n)))
          (PV.flt (some (tabOf expf).off))))
      (PV.flt (some ((0 : Rat) / 1)))
    = PV.flt (some (slack (tabOf expf) tol n)) := by
  simp only [PV.neg, Option.map, mul_flt_int, PV.fop, PV.exp, PV.toNum, Num.toF, sub_flt_flt, mul_flt_flt,
    PV.max2, PV.gt_flt_flt, PV.fcmp, ite_bool, slack, tabOf]
  have e : rnd (((n : Nat) : Int) : Rat) = rnd (n : Rat) := rfl
  rw [e]
  norm_num
  split_ifs with h
  · rw [max_eq_right (le_of_lt h)]
  · rw [max_eq_left (not_lt.mp h)]

theorem gen_accept_radius (expf : Rat → Rat) (w : W) (thr : Rat) (new : Summary) (hn : SumOk new)
    (a b c d : PV) (X : ExpTab) (tol : Rat) (old nom : Summary) :
    BBGen.RadiusMerge_call expf (PV.flt (some thr)) (PV.arr w new.ls) (PV.int new.n) a b c d
      = PV.bool (accept ⟨.radius, tol⟩ X thr new old nom) := by
  unfold BBGen.RadiusMerge_call
  rw [gen_radius_ok expf w new hn, PV.ge_flt_flt, fcmp_ge]
  rfl

theorem gen_accept_diameter (expf : Rat → Rat) (w : W) (thr : Rat) (new : Summary) (hn : SumOk new)
    (a b c d : PV) (X : ExpTab) (tol : Rat) (old nom : Summary) :
    BBGen.DiameterMerge_call expf (PV.flt (some thr)) (PV.arr w new.ls) (PV.int new.n) a b c d
      = PV.bool (accept ⟨.diameter, tol⟩ X thr new old nom) := by
  unfold BBGen.DiameterMerge_call
  rw [gen_isim_ok expf w new hn, isimPV_ge, PV.ge_flt_flt, fcmp_ge]
  rfl

theorem gen_accept_tolDiameter (expf : Rat → Rat) (w w' : W) (thr tol : Rat) (new old : Summary)
    (hn : SumOk new) (ho : SumOk old) (b d : PV) (nom : Summary) :
    BBGen.ToleranceDiameterMerge_call expf (PV.flt (some decay0)) (PV.flt (some (tabOf expf).off))
        (PV.flt (some tol)) (PV.flt (some thr)) (PV.arr w new.ls) (PV.int new.n) (PV.arr w' old.ls) b
        (PV.int old.n) d
      = PV.bool (accept ⟨.tolDiameter, tol⟩ (tabOf expf) thr new old nom) := by
  unfold BBGen.ToleranceDiameterMerge_call
  simp only [gen_isim_ok expf w new hn, gen_isim_ok expf w' old ho, isimPV_lt, gen_slack, isimPV_sub,
    isimPV_ge, PV.ge_flt_flt, eq_int_int, ite_bool, accept]
  by_cases h1 : ltOpt (isimFromSum new.ls new.n) thr = true
  · simp [h1]
  · simp only [h1, Bool.false_eq_true, if_false]
    by_cases h2 : old.n = 1
    · have : ((old.n : Int) = 1) := by omega
      simp [h2, this]
    · have : ¬ ((old.n : Int) = 1) := by omega
      simp only [h2, this, decide_false, Bool.false_eq_true, if_false]
      cases isimFromSum new.ls new.n <;> cases isimFromSum old.ls old.n <;> simp [PV.fop, PV.fcmp]


theorem gen_accept_tolRadius (expf : Rat → Rat) (w w' : W) (thr tol : Rat) (new old : Summary)
    (hn : SumOk new) (ho : SumOk old) (b d : PV) (nom : Summary) :
    BBGen.ToleranceRadiusMerge_call expf (PV.flt (some decay0)) (PV.flt (some (tabOf expf).off))
        (PV.flt (some tol)) (PV.flt (some thr)) (PV.arr w new.ls) (PV.int new.n) (PV.arr w' old.ls) b
        (PV.int old.n) d
      = PV.bool (accept ⟨.tolRadius, tol⟩ (tabOf expf) thr new old nom) := by
  unfold BBGen.ToleranceRadiusMerge_call
  simp only [gen_radius_ok expf w new hn, gen_radius_ok expf w' old ho, PV.lt_flt_flt, fcmp_lt, gen_slack,
    sub_flt_flt, PV.ge_flt_flt, eq_int_int, ite_bool, accept]
  by_cases h1 : ltOpt (radiusCompl new.ls new.n) thr = true
  · simp [h1]
  · simp only [h1, Bool.false_eq_true, if_false]
    by_cases h2 : old.n = 1
    · simp [h2]
    · have : ¬ ((old.n : Int) = 1) := by omega
      simp only [h2, this, decide_false, Bool.false_eq_true, if_false]
      cases radiusCompl new.ls new.n <;> cases radiusCompl old.ls old.n <;> simp [PV.fop, PV.fcmp]

theorem gen_accept_never (expf : Rat → Rat) (a b c d e f g h i j : PV) (X : ExpTab) (tol thr : Rat)
    (new old nom : Summary) :
    BBGen.NeverMerge_call expf a b c d e f g h i j = PV.bool (accept ⟨.never, tol⟩ X thr new old nom) := rfl

/-- the two shapes `jt_isim_from_sum` returns for a value `j` of the model -/
def IsimVal (v : PV) (j : Option Rat) : Prop := v = PV.flt j ∨ (v = PV.int 1 ∧ j = some 1)

theorem isimPV_val (ls : List Nat) (n : Nat) : IsimVal (isimPV ls n) (isimFromSum ls n) := by
  unfold isimPV IsimVal
  by_cases h2 : n < 2
  · simp [h2, isim_none ls n h2]
  · by_cases h0 : u64 ls.sum = 0
    · have hj : isimFromSum ls n = some 1 := by simp [isimFromSum, h2, h0]
      simp [h2, h0, hj]
    · simp [h2, h0]

theorem legacy_expr (x y : PV) (jx jy : Option Rat) (hx : IsimVal x jx) (hy : IsimVal y jy)
    (N O : Nat) (hN : N < 2 ^ 53) (hO : O < 2 ^ 53) (hO1 : 1 ≤ O) (tol : Rat) :
    PV.ge (PV.truediv (PV.sub (PV.mul x (PV.int N)) (PV.mul y (PV.sub (PV.int O) (PV.int 1)))) (PV.int 2))
        (PV.sub y (PV.flt (some tol)))
      = PV.bool (match jx, jy with
          | some nd, some od =>
            decide (fsub od tol ≤ fsub (fmul nd (ofNat N)) (fmul od (ofNat (O - 1))) / 2)
          | _, _ => false) := by
  have hsub : PV.sub (PV.int O) (PV.int 1) = PV.int ((O - 1 : Nat) : Int) := by
    simp only [sub_int_int]; congr 1; omega
  have hrN : rnd (((N : Nat) : Int) : Rat) = ofNat N := rfl
  have hrO : rnd (((O - 1 : Nat) : Int) : Rat) = ofNat (O - 1) := rfl
  rw [hsub]
  rcases hx with rfl | ⟨rfl, rfl⟩ <;> rcases hy with rfl | ⟨rfl, rfl⟩
  · cases jx <;> cases jy <;>
      simp only [mul_flt_int, PV.fop, sub_flt_flt, truediv_nan_int, PV.ge_flt_flt, PV.fcmp, hrN, hrO]
    rw [truediv_fsub_two]; simp [PV.ge_flt_flt, PV.fcmp]
  · cases jx <;>
      simp only [mul_flt_int, mul_int_int, one_mul, PV.fop, sub_flt_int, sub_int_flt, truediv_nan_int,
        PV.ge_flt_flt, PV.fcmp, hrN, hrO, rnd_one]
    rw [truediv_fsub_two, fmul_one_ofNat]; simp [PV.ge_flt_flt, PV.fcmp]; rfl
  · cases jy <;>
      simp only [mul_flt_int, mul_int_int, one_mul, PV.fop, sub_flt_int, sub_int_flt, sub_flt_flt,
        truediv_nan_int, PV.ge_flt_flt, PV.fcmp, hrN, hrO, rnd_one]
    rw [truediv_fsub_two, fmul_one_ofNat]; simp [PV.ge_flt_flt, PV.fcmp]; rfl
  · simp only [mul_int_int, one_mul, sub_int_int, sub_int_flt, PV.fop]
    have hz : PV.truediv (PV.int ((N : Int) - ((O - 1 : Nat) : Int))) (PV.int 2)
        = PV.flt (some (fsub (fmul 1 (ofNat N)) (fmul 1 (ofNat (O - 1))) / 2)) := by
      simp only [PV.truediv, PV.toNum]
      norm_num
      rw [fmul_one_ofNat, fmul_one_ofNat, rnd_natCast_lt hN, rnd_natCast_lt (by omega : O - 1 < 2 ^ 53)]
      unfold fsub
      rw [rnd_half]
    rw [hz, PV.ge_flt_flt]
    simp [PV.fcmp, rnd_one]


theorem gen_accept_tolLegacy (expf : Rat → Rat) (w w' : W) (thr tol : Rat) (new old nom : Summary)
    (hn : SumOk new) (ho : SumOk old) (hO : 1 ≤ old.n) (b : PV) :
    BBGen.ToleranceMerge_call expf (PV.flt (some tol)) (PV.flt (some thr)) (PV.arr w new.ls)
        (PV.int new.n) (PV.arr w' old.ls) b (PV.int old.n) (PV.int nom.n)
      = PV.bool (accept ⟨.tolLegacy, tol⟩ (tabOf expf) thr new old nom) := by
  unfold BBGen.ToleranceMerge_call
  simp only [gen_isim_ok expf w new hn, gen_isim_ok expf w' old ho, isimPV_lt, eq_int_int, ne_int_int,
    ite_bool, accept]
  by_cases h1 : ltOpt (isimFromSum new.ls new.n) thr = true
  · simp [h1]
  · simp only [h1, Bool.false_eq_true, if_false]
    by_cases h2 : old.n = 1 ∨ nom.n ≠ 1
    · have : (decide ((old.n : Int) = 1) || decide ((nom.n : Int) ≠ 1)) = true := by
        rcases h2 with h | h
        · have : ((old.n : Int) = 1) := by omega
          simp [this]
        · have : ((nom.n : Int) ≠ 1) := by omega
          simp [this]
      simp only [or_bool_bool, this, ite_bool, if_true, h2]
    · have ha : ¬ ((old.n : Int) = 1) := by omega
      have hb : ¬ ((nom.n : Int) ≠ 1) := by omega
      have : (decide ((old.n : Int) = 1) || decide ((nom.n : Int) ≠ 1)) = false := by
        simp [ha, hb]
      simp only [or_bool_bool, this, ite_bool, Bool.false_eq_true, if_false, h2]
      rw [legacy_expr _ _ _ _ (isimPV_val new.ls new.n) (isimPV_val old.ls old.n) new.n old.n
        (by have := hn.small; omega) (by have := ho.small; omega) hO tol]
      cases isimFromSum new.ls new.n <;> cases isimFromSum old.ls old.n <;> rfl

/-- the object `get_merge_accept_fn(name, tol)` returns: class name and its attributes (decay, offset, tolerance) -/
def objOf (expf : Rat → Rat) (m : MergeFn) : PV :=
  match m.crit with
  | .radius => PV.obj "RadiusMerge" PV.pynone PV.pynone PV.pynone
  | .diameter => PV.obj "DiameterMerge" PV.pynone PV.pynone PV.pynone
  | .tolLegacy => PV.obj "ToleranceMerge" (PV.flt (some m.tol)) PV.pynone PV.pynone
  | .tolDiameter => PV.obj "ToleranceDiameterMerge" (PV.flt (some decay0)) (PV.flt (some (tabOf expf).off)) (PV.flt (some m.tol))
  | .tolRadius => PV.obj "ToleranceRadiusMerge" (PV.flt (some decay0)) (PV.flt (some (tabOf expf).off)) (PV.flt (some m.tol))
  | .never => PV.obj "NeverMerge" (PV.flt (some decay0)) (PV.flt (some (tabOf expf).off)) (PV.flt (some m.tol))

theorem gen_init_tol (expf : Rat → Rat) (tol : Rat) :
    BBGen.ToleranceDiameterMerge_init expf (PV.flt (some tol)) (PV.int 1000)
        (PV.flt (some ((1152921504606847 : Rat) / 1152921504606846976))) (PV.bool true)
      = [PV.flt (some decay0), PV.flt (some (tabOf expf).off), PV.flt (some tol)] := by
  unfold BBGen.ToleranceDiameterMerge_init
  simp [PV.not, PV.truthy, PV.neg, PV.exp, PV.toNum, Num.toF, PV.fop, tabOf, decay0]

/-- `get_merge_accept_fn` is the model's dispatch: a known name gives the object of that criterion
with the given tolerance, an unknown one raises `ValueError` -/
theorem gen_dispatch (expf : Rat → Rat) (name : String) (tol : Rat) :
    BBGen.get_merge_accept_fn expf (PV.str name) (PV.flt (some tol)) =
      match getMergeFn name tol with
      | some m => objOf expf m
      | none => PV.err "ValueError" := by
  unfold BBGen.get_merge_accept_fn getMergeFn
  simp only [eq_str_str, ite_bool, gen_init_tol, BBGen.ToleranceMerge_init, PV.mkObj, List.getD_cons_zero,
    List.getD_cons_succ, List.getD_nil]
  by_cases h1 : name = "radius"
  · subst h1; rfl
  by_cases h2 : name = "diameter"
  · subst h2; rfl
  by_cases h3 : name = "tolerance-legacy"
  · subst h3; rfl
  by_cases h4 : name = "tolerance-diameter"
  · subst h4; rfl
  by_cases h5 : name = "tolerance-radius"
  · subst h5; rfl
  by_cases h6 : name = "never-merge"
  · subst h6; rfl
  have : Crit.ofName? name = none := by
    unfold Crit.ofName?
    split <;> simp_all
  simp [h1, h2, h3, h4, h5, h6, this]


/-- **the generated merge criteria are the model's**: for every criterion, tolerance and threshold,
calling the object that the generated `get_merge_accept_fn` builds, on summaries the tree can
produce, returns exactly the model's `accept` (with the exp table read off `np.exp`) -/
theorem gen_accept (expf : Rat → Rat) (m : MergeFn) (thr : Rat) (new old nom : Summary)
    (w w' w'' : W) (hn : SumOk new) (ho : SumOk old) (hO : 1 ≤ old.n) :
    BBGen.MergeAcceptFunction_call expf (objOf expf m) (PV.flt (some thr)) (PV.arr w new.ls) (PV.int new.n)
        (PV.arr w' old.ls) (PV.arr w'' nom.ls) (PV.int old.n) (PV.int nom.n)
      = PV.bool (accept m (tabOf expf) thr new old nom) := by
  obtain ⟨c, tol⟩ := m
  cases c
  · exact gen_accept_radius expf w thr new hn (PV.arr w' old.ls) (PV.arr w'' nom.ls) (PV.int old.n)
      (PV.int nom.n) (tabOf expf) tol old nom
  · exact gen_accept_diameter expf w thr new hn (PV.arr w' old.ls) (PV.arr w'' nom.ls) (PV.int old.n)
      (PV.int nom.n) (tabOf expf) tol old nom
  · exact gen_accept_tolDiameter expf w w' thr tol new old hn ho (PV.arr w'' nom.ls) (PV.int nom.n) nom
  · exact gen_accept_tolRadius expf w w' thr tol new old hn ho (PV.arr w'' nom.ls) (PV.int nom.n) nom
  · exact gen_accept_tolLegacy expf w w' thr tol new old nom hn ho hO (PV.arr w'' nom.ls)
  · rfl

/-! ### the page-release manager -/

/-- the model parameters of a memory-mapped input: data address, header size, elements per row,
itemsize, `mmap.PAGESIZE`, rows -/
def pagesOf (data off ncols itemsize ps nrows : Nat) : Pages.Params :=
  ⟨data - off, off, ncols, itemsize, ps * 512, nrows⟩

theorem gen_pages_init (expf : Rat → Rat) (data off ncols ps : Nat) (hc : 0 < ncols)
    (hP : ps * 512 < 2 ^ 53) (hb : off ≤ data) (itemsize nrows : Nat) :
    BBGen._ArrayMemPagesManager_from_bb_input expf PV.pynone (PV.int data) (PV.bool true) (PV.int 2)
        (PV.int off) (PV.int ncols) (PV.int ps)
      = if (pagesOf data off ncols itemsize ps nrows).canRelease then
          [PV.bool true, PV.int ((pagesOf data off ncols itemsize ps nrows).P : Nat),
            PV.int ((pagesOf data off ncols itemsize ps nrows).iters : Nat),
            PV.int ((pagesOf data off ncols itemsize ps nrows).base : Nat)]
        else [PV.bool false, PV.int ((pagesOf data off ncols itemsize ps nrows).P : Nat), PV.int 0, PV.int 0] := by
  generalize hp : pagesOf data off ncols itemsize ps nrows = p
  have hp1 : p.base = data - off := by rw [← hp]; rfl
  have hp2 : p.offset = off := by rw [← hp]; rfl
  have hp3 : p.ncols = ncols := by rw [← hp]; rfl
  have hp4 : p.P = ps * 512 := by rw [← hp]; rfl
  unfold BBGen._ArrayMemPagesManager_from_bb_input
  have hc' : ¬ ((ncols : Int) = 0) := by omega
  simp only [mul_int_int, eq_int_int, PV.mod, PV.toNum, hc', if_false, lt_int_int, and_bool_bool,
    Bool.true_and, decide_true, iteL_bool, PV.isNone, not_bool, Bool.not_true, Bool.false_eq_true]
  have hmod : Int.fmod ((ps : Int) * 512) ncols = (((ps * 512) % ncols : Nat) : Int) := by
    rw [Int.fmod_eq_emod_of_nonneg _ (by omega)]; push_cast; rfl
  have hcan : (decide (Int.fmod ((ps : Int) * 512) ncols = 0) && decide ((off : Int) < ncols)) = p.canRelease := by
    rw [hmod]
    simp only [Pages.Params.canRelease, hp2, hp3, hp4]
    have : (ncols != 0) = true := by simp; omega
    rw [this, Bool.true_and]
    congr 1
    · by_cases h : ps * 512 % ncols = 0
      · have : (((ps * 512 % ncols : Nat) : Int) = 0) := by omega
        rw [decide_eq_true this]; simp [h]
      · have : ¬ (((ps * 512 % ncols : Nat) : Int) = 0) := by omega
        rw [decide_eq_false this]; simp [h]
    · have : ((off : Int) < ncols) ↔ off < ncols := by omega
      by_cases h : off < ncols <;> simp [h]
  rw [hcan]
  by_cases hr : p.canRelease = true
  · simp only [hr, if_true]
    have hdvd : (ps * 512) % ncols = 0 := by
      simp only [Pages.Params.canRelease, hp2, hp3, hp4] at hr
      simp at hr; exact hr.1.2
    obtain ⟨q, hq⟩ := Nat.dvd_of_mod_eq_zero hdvd
    have hq53 : q < 2 ^ 53 := by
      have : q ≤ ncols * q := Nat.le_mul_of_pos_left q hc
      omega
    have hdiv : PV.toInt (PV.truediv (PV.int ((ps : Int) * 512)) (PV.int ncols)) = PV.int (q : Nat) := by
      simp only [PV.truediv, PV.toNum, hc', if_false]
      have e1 : (((ps : Int) * 512 : Int) : Rat) / ((ncols : Int) : Rat) = (q : Rat) := by
        have : ((ps : Int) * 512) = ((ncols * q : Nat) : Int) := by rw [← hq]; push_cast; ring
        rw [this]; push_cast
        field_simp
      rw [e1, rnd_natCast_lt hq53]
      simp [PV.toInt]
    have hit : p.iters = q := by
      simp only [Pages.Params.iters, hp3, hp4, hq]
      exact Nat.mul_div_cancel_left q hc
    rw [hdiv, hit]
    simp only [sub_int_int, hp1, hp4]
    have e1 : ((ps : Int) * 512) = ((ps * 512 : Nat) : Int) := by push_cast; ring
    have e2 : ((data : Int) - off) = ((data - off : Nat) : Int) := by omega
    rw [e1, e2]
  · simp only [hr, Bool.false_eq_true, if_false, hp4]
    have e1 : ((ps : Int) * 512) = ((ps * 512 : Nat) : Int) := by push_cast; ring
    rw [e1]

theorem gen_pages_should (expf : Rat → Rat) (a b c : PV) (iters k : Nat) (hi : 0 < iters) :
    BBGen._ArrayMemPagesManager_should_release_curr_page expf a b (PV.int iters) c (PV.int k)
      = PV.bool (k % iters == 0) := by
  unfold BBGen._ArrayMemPagesManager_should_release_curr_page
  have hc' : ¬ ((iters : Int) = 0) := by omega
  simp only [PV.mod, PV.toNum, hc', if_false, eq_int_int]
  rw [Int.fmod_eq_emod_of_nonneg _ (by omega)]
  congr 1
  have : ((k : Int) % (iters : Int)) = ((k % iters : Nat) : Int) := by push_cast; rfl
  by_cases h : k % iters = 0
  · have : ((k : Int) % (iters : Int)) = 0 := by omega
    simp [h, this]
  · have : ¬ ((k : Int) % (iters : Int)) = 0 := by omega
    simp [h, this]

theorem gen_pages_release (expf : Rat → Rat) (can : PV) (P iters addr : Nat) :
    BBGen._ArrayMemPagesManager_release_curr_page_and_update_addr expf can (PV.int P) (PV.int iters) (PV.int addr)
      = [PV.str "_madvise_dontneed", PV.int addr, PV.int P, can, PV.int P, PV.int iters, PV.int ((addr + P : Nat))] := by
  unfold BBGen._ArrayMemPagesManager_release_curr_page_and_update_addr
  simp

/-! ### denominators in the exact regime -/

/-- in the exact regime the float denominator is the exact positive integer `denSum` -/
theorem isimDen_exact (hr : IsRounding rnd) (ks : List Nat) (n : Nat) (hn : 2 ≤ n)
    (hk : ∀ k ∈ ks, k ≤ n) (hS : 0 < ks.sum) (hb : n * ks.sum < 2 ^ 52) :
    isimDen ks n = (denSum ks n : ℚ) := by
  obtain ⟨h1, h2, h3, _, h5⟩ := isim_no_wrap ks n hk (by omega)
  unfold isimDen
  simp only [h1, h2, h3, h5]
  have e1 := two_pairSum ks
  have e2 := denSum_add_sqSum ks n hk
  have e3 := sqSum_le ks n hk
  have hQS : sqSum ks - ks.sum = 2 * pairSum ks := by omega
  have ha : ofNat (sqSum ks - ks.sum) / 2 = (pairSum ks : ℚ) := by
    rw [hQS, ofNat_exact hr _ (by omega)]
    push_cast
    ring
  have hnS : ofNat (n * ks.sum) = ((n * ks.sum : Nat) : ℚ) := ofNat_exact hr _ (by omega)
  have hQ : ofNat (sqSum ks) = (sqSum ks : ℚ) := ofNat_exact hr _ (by omega)
  have hadd : fadd (pairSum ks : ℚ) ((n * ks.sum : Nat) : ℚ)
      = ((pairSum ks + n * ks.sum : Nat) : ℚ) := by
    unfold fadd
    rw [← Nat.cast_add]
    exact hr.fix_nat _ (by omega)
  have hsub : fsub ((pairSum ks + n * ks.sum : Nat) : ℚ) (sqSum ks : ℚ)
      = (denSum ks n : ℚ) := by
    unfold fsub
    have : ((pairSum ks + n * ks.sum : Nat) : ℚ) - (sqSum ks : ℚ) = (denSum ks n : ℚ) := by
      rw [← e2]; push_cast; ring
    rw [this]
    exact hr.fix_nat _ (by omega)
  unfold sqSum at ha hQ hsub
  rw [ha, hnS, hQ, hadd, hsub]

theorem isimDen_ne_zero (ks : List Nat) (n : Nat) (hn : 2 ≤ n)
    (hk : ∀ k ∈ ks, k ≤ n) (hS : 0 < ks.sum) (hb : n * ks.sum < 2 ^ 52) : isimDen ks n ≠ 0 := by
  rw [isimDen_exact rnd_isRounding ks n hn hk hS hb]
  have := isim_den_pos ks n hn hk hS
  unfold denSum
  exact_mod_cast (by omega : (ks.map (fun k => k * (k - 1) / 2 + k * (n - k))).sum ≠ 0)

theorem gen_centroid_packed (expf : Rat → Rat) (w : W) (ls : List Nat) (n : Nat)
    (hk : ∀ k ∈ ls, k ≤ n) (hn : n < 2 ^ 53) :
    BBGen.centroid_from_sum expf (PV.arr w ls) (PV.int n) (PV.bool true)
      = PV.arr .u8 (pack (centroidFromSum ls n)) := by
  have h := gen_centroid_unpacked expf w ls n hk hn
  unfold BBGen.centroid_from_sum at h ⊢
  have hp : ∀ r : Row, PV.packbits (PV.arr .u8 (rowToNat r)) = PV.arr .u8 (pack r) := by
    intro r
    simp only [PV.packbits, rowToNat, List.map_map]
    congr 2
    conv_rhs => rw [← List.map_id r]
    apply List.map_congr_left
    intro b _
    cases b <;> simp
  by_cases h1 : n ≤ 1
  · have h1' : ((n : Int) ≤ 1) := by omega
    simp only [le_int_int, h1', decide_true, ite_bool, if_true, Bool.false_eq_true, if_false] at h ⊢
    rw [h, hp]
  · have h1' : ¬ ((n : Int) ≤ 1) := by omega
    simp only [le_int_int, h1', decide_false, ite_bool, if_true, Bool.false_eq_true, if_false] at h ⊢
    rw [h, hp]

/-! ### the row loop around the page manager -/

/-- the row loop of `BitBirch.fit` around the manager (bitbirch.py: `arr_idx += 1; if mmanager.can_release
and mmanager.should_release_curr_page(arr_idx): mmanager.release_curr_page_and_update_addr()`), with
the manager's three methods as translated from `_memory.py`.  This loop is the one hand-written
piece; it returns the `_madvise_dontneed(addr, len)` calls together with the row count at the call. -/
def codeLoop (expf : Rat → Rat) : (fuel k : Nat) → (mgr : List PV) → List (List PV)
  | 0, _, _ => []
  | fuel + 1, k, [can, P, iters, addr] =>
    let k' := k + 1
    if PV.truthy (PV.and can (BBGen._ArrayMemPagesManager_should_release_curr_page expf can P iters addr (PV.int k'))) then
      match BBGen._ArrayMemPagesManager_release_curr_page_and_update_addr expf can P iters addr with
      | [_, a, l, can', P', iters', addr'] => [a, l, PV.int k'] :: codeLoop expf fuel k' [can', P', iters', addr']
      | _ => []
    else codeLoop expf fuel k' [can, P, iters, addr]
  | _ + 1, _, _ => []

def relPV (r : Pages.Release) : List PV := [PV.int r.addr, PV.int r.len, PV.int r.afterRow]

theorem codeLoop_true (expf : Rat → Rat) (p : Pages.Params) (hi : 0 < p.iters) :
    ∀ (fuel k addr : Nat),
      codeLoop expf fuel k [PV.bool true, PV.int p.P, PV.int p.iters, PV.int addr]
        = (Pages.loop p fuel k addr).map relPV := by
  intro fuel
  induction fuel with
  | zero => intro k addr; rfl
  | succ f ih =>
    intro k addr
    unfold codeLoop Pages.loop
    simp only [gen_pages_should expf _ _ _ p.iters (k + 1) hi, and_bool_bool, Bool.true_and, PV.truthy,
      gen_pages_release]
    by_cases h : (k + 1) % p.iters == 0
    · simp only [h, if_true, List.map_cons, relPV]
      rw [ih]
    · simp only [h, Bool.false_eq_true, if_false]
      rw [ih]

theorem codeLoop_false (expf : Rat → Rat) (P iters addr : PV) :
    ∀ (fuel k : Nat), codeLoop expf fuel k [PV.bool false, P, iters, addr] = [] := by
  intro fuel
  induction fuel with
  | zero => intro k; rfl
  | succ f ih =>
    intro k
    unfold codeLoop
    simp [PV.and, PV.truthy, ih]

/-- code: for a memory-mapped 2-D input the `madvise` calls made while `nrows` rows are consumed are
exactly the model's `Pages.releases` -/
theorem gen_pages (expf : Rat → Rat) (data off ncols ps itemsize nrows : Nat) (hc : 0 < ncols)
    (hps : 0 < ps) (hP : ps * 512 < 2 ^ 53) (hb : off ≤ data) :
    codeLoop expf nrows 0 (BBGen._ArrayMemPagesManager_from_bb_input expf PV.pynone (PV.int data)
        (PV.bool true) (PV.int 2) (PV.int off) (PV.int ncols) (PV.int ps))
      = (Pages.releases (pagesOf data off ncols itemsize ps nrows)).map relPV := by
  rw [gen_pages_init expf data off ncols ps hc hP hb itemsize nrows]
  generalize hp : pagesOf data off ncols itemsize ps nrows = p
  have hp3 : p.ncols = ncols := by rw [← hp]; rfl
  have hp4 : p.P = ps * 512 := by rw [← hp]; rfl
  have hp5 : p.nrows = nrows := by rw [← hp]; rfl
  unfold Pages.releases
  by_cases hr : p.canRelease = true
  · simp only [hr, if_true]
    have hi : 0 < p.iters := by
      simp only [Pages.Params.canRelease, hp3, hp4] at hr
      simp at hr
      simp only [Pages.Params.iters, hp3, hp4]
      obtain ⟨q, hq⟩ := Nat.dvd_of_mod_eq_zero hr.1.2
      rw [hq, Nat.mul_div_cancel_left q hc]
      rcases Nat.eq_zero_or_pos q with h0 | h0
      · subst h0; omega
      · exact h0
    rw [hp5]
    exact codeLoop_true expf p hi nrows 0 p.base
  · simp only [hr, Bool.false_eq_true, if_false]
    exact codeLoop_false expf _ _ _ nrows 0

/-! ### pointwise sums -/

theorem wrap_add_wrap (w : W) (x y : Nat) : wrap w (wrap w x + y) = wrap w (x + y) := by
  cases w <;> simp [wrap, W.bits, Nat.add_mod]

theorem addLs_eq_zipWith (a b : List Nat) (h : a.length = b.length) :
    addLs a b = List.zipWith (· + ·) a b := by
  induction a generalizing b with
  | nil => cases b <;> simp_all [addLs]
  | cons x a ih =>
    cases b with
    | nil => simp at h
    | cons y b =>
      simp only [addLs, List.zipWith_cons_cons, List.cons.injEq, true_and]
      exact ih b (by simpa using h)

theorem zipWith_wrap_add (w : W) (a b : List Nat) (h : a.length = b.length) :
    List.zipWith (fun x y => wrap w (x + y)) (a.map (wrap w)) b = (addLs a b).map (wrap w) := by
  rw [addLs_eq_zipWith a b h]
  induction a generalizing b with
  | nil => cases b <;> simp
  | cons x a ih =>
    cases b with
    | nil => simp at h
    | cons y b =>
      simp only [List.map_cons, List.zipWith_cons_cons, List.cons.injEq]
      exact ⟨wrap_add_wrap w x y, ih b (by simpa using h)⟩

theorem addLs_le (a b : List Nat) (h : a.length = b.length) (n m : Nat) (ha : ∀ k ∈ a, k ≤ n) (hb : ∀ k ∈ b, k ≤ m) :
    ∀ k ∈ addLs a b, k ≤ n + m := by
  induction a generalizing b with
  | nil => cases b <;> simp_all [addLs]
  | cons x a ih =>
    cases b with
    | nil => simp at h
    | cons y b =>
      intro k hk
      simp only [addLs, List.mem_cons] at hk
      rcases hk with rfl | hk
      · have := ha x (List.mem_cons_self); have := hb y (List.mem_cons_self); omega
      · exact ih b (by simpa using h) (fun k hk => ha k (List.mem_cons_of_mem _ hk))
          (fun k hk => hb k (List.mem_cons_of_mem _ hk)) k hk

theorem addLs_length_eq (a b : List Nat) (h : a.length = b.length) : (addLs a b).length = a.length := by
  rw [addLs_eq_zipWith a b h]; simp [h]

end BB
