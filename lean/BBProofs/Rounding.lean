/-
The interface through which property theorems use floating-point rounding: everything
they need from `BB.rnd` is bundled in `IsRounding`; `BBProofs/Fl.lean` proves
`rnd_isRounding : IsRounding rnd` for the executable definition.
-/
import BBModel.Fl
import Mathlib.Order.Monotone.Basic
import Mathlib.Algebra.Order.Field.Rat

namespace BB

structure IsRounding (r : ℚ → ℚ) : Prop where
  mono : Monotone r
  zero : r 0 = 0
  neg : ∀ x, r (-x) = - r x
  fix_nat : ∀ n : ℕ, n < 2^53 → r n = n
  idem : ∀ x, r (r x) = r x
  half : ∀ x, r (x / 2) = r x / 2

end BB
