/-
Estimator core, part 3: the `fit` and `_fit_buffers` loops in terms of the merge closure.
-/
import BBProofs.Closure

namespace BB
variable (P : Policy)

/-- `acc` of a policy -/
def Policy.acc (P : Policy) : Clu → Clu → Prop := fun c s => P.accept c s = true

theorem fitUnits_spec (hP : P.Valid) (bf : Nat) (hbf : 1 ≤ bf) (F : Nat) :
    ∀ (units : List Clu) (st : TreeSt) (k : Nat), st.OK → st.isLeavesOnly = false →
    ∃ st', fitUnits P bf F st k units = (st', k + ((units.map (·.ids.length)).sum), none) ∧ st'.OK ∧
      st'.isLeavesOnly = false ∧ (units ≠ [] → st'.F? = some ((st.F?).getD F)) ∧
      (units = [] → st' = st) ∧
      MC P.acc (st.lclusM + (units : Multiset Clu)) st'.lclusM
  | [], st, k, hok, hlo => ⟨st, by simp [fitUnits], hok, hlo, by simp, by simp, by simpa using MC.refl _⟩
  | u :: us, st, k, hok, hlo => by
    obtain ⟨st1, h1, hok1, hlo1, hF1, hprov⟩ := insertUnit_spec P hP bf hbf F st u hok hlo
    obtain ⟨st2, h2, hok2, hlo2, hF2, _, hmc⟩ := fitUnits_spec hP bf hbf F us st1 (k + u.ids.length) hok1 hlo1
    refine ⟨st2, ?_, hok2, hlo2, ?_, by simp, ?_⟩
    · simp only [fitUnits, h1, h2, List.map_cons, List.sum_cons, add_assoc]
    · intro _
      by_cases hus : us = []
      · subst hus
        simp only [fitUnits] at h2
        have : st2 = st1 := by injection h2 with h2 _; exact h2.symm
        rw [this, hF1]
      · rw [hF2 hus, hF1]; simp
    · have e : st.lclusM + ((u :: us : List Clu) : Multiset Clu) = (st.lclusM + {u}) + (us : Multiset Clu) := by
        rw [← Multiset.cons_coe, ← Multiset.singleton_add, add_assoc]
      rw [e]
      exact ((MC.of_prov P hprov).frame _).trans hmc

/-- the rows a `fit` call accepts: everything before the first row of the wrong length -/
def goodPrefix (F : Nat) (rows : List (Nat × Row)) : List (Nat × Row) := rows.takeWhile (fun p => rowOk F p.2)

theorem fitRows_spec (hP : P.Valid) (bf : Nat) (hbf : 1 ≤ bf) (F : Nat) :
    ∀ (rows : List (Nat × Row)) (st : TreeSt) (k : Nat), st.OK → st.isLeavesOnly = false →
    ∃ st', fitRows P bf F st k rows = (st', k + (goodPrefix F rows).length,
        if (goodPrefix F rows).length = rows.length then none else some Err.value) ∧ st'.OK ∧
      st'.isLeavesOnly = false ∧ (goodPrefix F rows ≠ [] → st'.F? = some ((st.F?).getD F)) ∧
      (goodPrefix F rows = [] → st' = st) ∧
      MC P.acc (st.lclusM + (((goodPrefix F rows).map (fun p => Clu.ofRow p.2 p.1) : List Clu) : Multiset Clu)) st'.lclusM
  | [], st, k, hok, hlo => ⟨st, by simp [fitRows, goodPrefix], hok, hlo, by simp [goodPrefix], by simp,
      by simpa [goodPrefix] using MC.refl _⟩
  | (lab, r) :: rest, st, k, hok, hlo => by
    by_cases hr : rowOk F r = true
    · obtain ⟨st1, h1, hok1, hlo1, hF1, hprov⟩ := insertUnit_spec P hP bf hbf F st (Clu.ofRow r lab) hok hlo
      obtain ⟨st2, h2, hok2, hlo2, hF2, hnil2, hmc⟩ := fitRows_spec hP bf hbf F rest st1 (k + 1) hok1 hlo1
      have hg : goodPrefix F ((lab, r) :: rest) = (lab, r) :: goodPrefix F rest := by
        simp [goodPrefix, List.takeWhile_cons, hr]
      refine ⟨st2, ?_, hok2, hlo2, ?_, by simp [hg], ?_⟩
      · simp only [fitRows, hr, Bool.not_true, Bool.false_eq_true, ↓reduceIte, h1, h2, hg, List.length_cons]
        have e1 : k + 1 + (goodPrefix F rest).length = k + ((goodPrefix F rest).length + 1) := by omega
        rw [e1]
        congr 2
        simp only [Nat.add_right_cancel_iff]
      · intro _
        by_cases hus : goodPrefix F rest = []
        · rw [hnil2 hus, hF1]
        · rw [hF2 hus, hF1]; simp
      · rw [hg]
        simp only [List.map_cons]
        have e : st.lclusM + ((Clu.ofRow r lab :: (goodPrefix F rest).map (fun p => Clu.ofRow p.2 p.1) : List Clu) : Multiset Clu)
            = (st.lclusM + {Clu.ofRow r lab}) + (((goodPrefix F rest).map (fun p => Clu.ofRow p.2 p.1) : List Clu) : Multiset Clu) := by
          rw [← Multiset.cons_coe, ← Multiset.singleton_add, add_assoc]
        rw [e]
        exact ((MC.of_prov P hprov).frame _).trans hmc
    · have hg : goodPrefix F ((lab, r) :: rest) = [] := by
        simp [goodPrefix, List.takeWhile_cons, hr]
      refine ⟨st, ?_, hok, hlo, by simp [hg], by simp, ?_⟩
      · simp only [fitRows, hr, hg]
        simp
      · rw [hg]; simpa using MC.refl _

end BB
