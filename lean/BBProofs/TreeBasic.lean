/-
Tree core, part 1: list/multiset helpers, the leaf-cluster multiset of a tree, policy
validity, the structural `Shape` invariant, and the *provenance* ("unit") lemma:
inserting a sub-cluster `s` either adds `s` as a new leaf cluster or replaces exactly one
leaf cluster `c` that the policy accepted by `c.merge s`; nothing else changes.
-/
import BBModel.Estimator
import Mathlib.Data.Multiset.Basic
import Mathlib.Data.Multiset.Bind
import Mathlib.Algebra.BigOperators.Group.Multiset.Basic
import Mathlib.Tactic.Abel
import Mathlib.Tactic.Linarith

namespace BB

/-! ### list helpers -/

theorem sum_set {α M : Type} [AddCommMonoid M] (g : α → M) (l : List α) (i : Nat) (c x : α)
    (hc : l[i]? = some c) : ((l.set i x).map g).sum + g c = (l.map g).sum + g x := by
  induction l generalizing i with
  | nil => simp at hc
  | cons a l ih =>
    cases i with
    | zero =>
      simp only [List.getElem?_cons_zero, Option.some.injEq] at hc
      subst hc
      simp only [List.set_cons_zero, List.map_cons, List.sum_cons]
      abel
    | succ i =>
      simp only [List.getElem?_cons_succ] at hc
      simp only [List.set_cons_succ, List.map_cons, List.sum_cons]
      rw [add_assoc, ih i hc]; abel

theorem splitBy_sum {α M : Type} [AddCommMonoid M] (g : α → M) (m : List Bool) (xs : List α) :
    ((splitBy m xs).1.map g).sum + ((splitBy m xs).2.map g).sum = (xs.map g).sum := by
  induction xs generalizing m with
  | nil => cases m <;> simp [splitBy]
  | cons x xs ih =>
    cases m with
    | nil => simp [splitBy]
    | cons b m =>
      simp only [splitBy]
      have := ih m
      cases b <;> simp only [List.map_cons, List.sum_cons, ← this] <;> simp <;> abel

theorem splitBy_perm {α : Type} (m : List Bool) (xs : List α) :
    ((splitBy m xs).1 ++ (splitBy m xs).2).Perm xs := by
  induction xs generalizing m with
  | nil => cases m <;> simp [splitBy]
  | cons x xs ih =>
    cases m with
    | nil => simp [splitBy]
    | cons b m =>
      simp only [splitBy]
      have := ih m
      cases b
      · simp only [Bool.false_eq_true, ↓reduceIte]
        exact (List.perm_middle).trans (List.Perm.cons x this)
      · simp only [↓reduceIte, List.cons_append]
        exact List.Perm.cons x this

theorem splitBy_length {α : Type} (m : List Bool) (xs : List α) :
    (splitBy m xs).1.length + (splitBy m xs).2.length = xs.length := by
  have := (splitBy_perm m xs).length_eq
  simpa using this

theorem mem_splitBy {α : Type} (m : List Bool) (xs : List α) (x : α) :
    x ∈ (splitBy m xs).1 ∨ x ∈ (splitBy m xs).2 ↔ x ∈ xs := by
  rw [← List.mem_append]; exact (splitBy_perm m xs).mem_iff

/-- a `true` in the (length-matching) mask puts something in the first part -/
theorem splitBy_fst_ne_nil {α : Type} (m : List Bool) (xs : List α) (hl : m.length = xs.length)
    (ht : true ∈ m) : (splitBy m xs).1 ≠ [] := by
  induction xs generalizing m with
  | nil => cases m <;> simp_all
  | cons x xs ih =>
    cases m with
    | nil => simp at ht
    | cons b m =>
      simp only [splitBy]
      cases b
      · simp only [Bool.false_eq_true, ↓reduceIte]
        apply ih m (by simpa using hl)
        simpa using ht
      · simp

theorem splitBy_snd_ne_nil {α : Type} (m : List Bool) (xs : List α) (hl : m.length = xs.length)
    (hf : false ∈ m) : (splitBy m xs).2 ≠ [] := by
  induction xs generalizing m with
  | nil => cases m <;> simp_all
  | cons x xs ih =>
    cases m with
    | nil => simp at hf
    | cons b m =>
      simp only [splitBy]
      cases b
      · simp
      · simp only [↓reduceIte]
        apply ih m (by simpa using hl)
        simpa using hf

/-! ### policies -/

/-- what every theorem about the tree needs from the three decisions -/
structure Policy.Valid (P : Policy) : Prop where
  route_lt : ∀ cache c, cache ≠ [] → P.route cache c < cache.length
  mask_len : ∀ cache, (P.mask cache).length = cache.length
  mask_true : ∀ cache, 2 ≤ cache.length → true ∈ P.mask cache
  mask_false : ∀ cache, 2 ≤ cache.length → false ∈ P.mask cache

/-! ### leaf clusters of a tree -/

/-- the multiset of leaf sub-clusters -/
def lclus : (h : Nat) → Tree h → Multiset Clu
  | 0, (l : LeafN) => (l.subs : Multiset Clu)
  | h+1, (t : InnerN (Tree h)) => (t.ents.map (fun e => lclus h e.2)).sum

/-- structural invariant: caches as long as the entry lists, capacities ≥ 1, inner nodes non-empty -/
def Shape : (h : Nat) → Tree h → Prop
  | 0, (l : LeafN) => l.cache.length = l.subs.length ∧ 1 ≤ l.cap
  | h+1, (t : InnerN (Tree h)) =>
    t.cache.length = t.ents.length ∧ 1 ≤ t.cap ∧ t.ents ≠ [] ∧ ∀ e ∈ t.ents, Shape h e.2

/-- number of entries of a node -/
def nEnts : (h : Nat) → Tree h → Nat
  | 0, (l : LeafN) => l.subs.length
  | _+1, (t : InnerN _) => t.ents.length

def capOf : (h : Nat) → Tree h → Nat
  | 0, (l : LeafN) => l.cap
  | _+1, (t : InnerN _) => t.cap

end BB

namespace BB

theorem sum_eraseIdx {α M : Type} [AddCommMonoid M] (g : α → M) (l : List α) (i : Nat) (c : α)
    (hc : l[i]? = some c) : (l.map g).sum = ((l.eraseIdx i).map g).sum + g c := by
  induction l generalizing i with
  | nil => simp at hc
  | cons a l ih =>
    cases i with
    | zero =>
      simp only [List.getElem?_cons_zero, Option.some.injEq] at hc
      subst hc
      simp only [List.eraseIdx_cons_zero, List.map_cons, List.sum_cons]; abel
    | succ i =>
      simp only [List.getElem?_cons_succ] at hc
      simp only [List.eraseIdx_cons_succ, List.map_cons, List.sum_cons]
      rw [ih i hc]; abel

theorem sum_set_eraseIdx {α M : Type} [AddCommMonoid M] (g : α → M) (l : List α) (i : Nat) (c x : α)
    (hc : l[i]? = some c) : ((l.set i x).map g).sum = ((l.eraseIdx i).map g).sum + g x := by
  induction l generalizing i with
  | nil => simp at hc
  | cons a l ih =>
    cases i with
    | zero => simp only [List.set_cons_zero, List.eraseIdx_cons_zero, List.map_cons, List.sum_cons]; abel
    | succ i =>
      simp only [List.getElem?_cons_succ] at hc
      simp only [List.set_cons_succ, List.eraseIdx_cons_succ, List.map_cons, List.sum_cons]
      rw [ih i hc]; abel

theorem coe_eq_sum_singletons {α : Type} (l : List α) :
    (l : Multiset α) = (l.map (fun x => ({x} : Multiset α))).sum := by
  induction l with
  | nil => simp
  | cons a l ih =>
    simp only [List.map_cons, List.sum_cons, ← ih]
    rfl

variable (P : Policy)

/-- the provenance relation between the leaf clusters before and after inserting `s` -/
def ProvOf (old : Multiset Clu) (s : Clu) (new : Multiset Clu) : Prop :=
  new = old + {s} ∨ ∃ rest c, old = rest + {c} ∧ P.accept c s = true ∧ new = rest + {c.merge s}

theorem ProvOf.add_left {old new : Multiset Clu} {s : Clu} (R : Multiset Clu)
    (h : ProvOf P old s new) : ProvOf P (R + old) s (R + new) := by
  rcases h with h | ⟨rest, c, h1, h2, h3⟩
  · left; rw [h, add_assoc]
  · right; exact ⟨R + rest, c, by rw [h1, add_assoc], h2, by rw [h3, add_assoc]⟩

theorem lclus_splitNode : ∀ (h : Nat) (t : Tree h) (next : Nat),
    lclus h (splitNode P h t next).t1 + lclus h (splitNode P h t next).t2 = lclus h t
  | 0, (l : LeafN), next => by
    simp only [splitNode, lclus]
    rw [Multiset.coe_add]
    exact Multiset.coe_eq_coe.mpr (splitBy_perm _ _)
  | h+1, (t : InnerN (Tree h)), next => by
    simp only [splitNode, lclus]
    exact splitBy_sum (fun (e : Clu × Tree h) => lclus h e.2) _ _

theorem lclus_insertLeaf (hP : P.Valid) (l : LeafN) (s : Clu) (next : Nat)
    (hs : l.cache.length = l.subs.length) :
    ProvOf P (l.subs : Multiset Clu) s ((insertLeaf P l s next).node.subs : Multiset Clu) := by
  unfold insertLeaf
  split
  · rename_i he
    left
    have : l.subs = [] := by simpa using he
    simp [this]
  · rename_i he
    have hne : l.subs ≠ [] := by simpa using he
    have hc : l.cache ≠ [] := by
      intro h0; rw [h0] at hs; exact hne (List.length_eq_zero_iff.mp hs.symm)
    have hi := hP.route_lt l.cache s.cent hc
    rw [hs] at hi
    simp only
    split
    · rename_i hnone
      rw [List.getElem?_eq_none_iff] at hnone
      omega
    · rename_i c hsome
      split
      · rename_i hacc
        right
        refine ⟨((l.subs.eraseIdx (P.route l.cache s.cent) : List Clu) : Multiset Clu), c, ?_, hacc, ?_⟩
        · rw [coe_eq_sum_singletons l.subs, sum_eraseIdx _ _ _ _ hsome, ← coe_eq_sum_singletons]
        · simp only
          rw [coe_eq_sum_singletons (l.subs.set _ _), sum_set_eraseIdx _ _ _ _ _ hsome,
            ← coe_eq_sum_singletons]
      · left
        simp only
        rw [← Multiset.coe_add]
        rfl

/-- the leaf clusters of an inner node, split at entry `i` -/
theorem lclus_inner_split (h : Nat) (t : InnerN (Tree h)) (i : Nat) (c : Clu) (child : Tree h)
    (hc : t.ents[i]? = some (c, child)) :
    lclus (h+1) t = ((t.ents.eraseIdx i).map (fun e => lclus h e.2)).sum + lclus h child := by
  simp only [lclus]
  exact sum_eraseIdx (fun (e : Clu × Tree h) => lclus h e.2) _ _ _ hc

theorem Shape.route_some (hP : P.Valid) {h : Nat} (t : InnerN (Tree h)) (hs : Shape (h+1) t) (cent : Row) :
    ∃ c child, t.ents[P.route t.cache cent]? = some (c, child) ∧ (c, child) ∈ t.ents := by
  obtain ⟨hl, _, hne, _⟩ := hs
  have hc : t.cache ≠ [] := by
    intro h0; rw [h0] at hl; exact hne (List.length_eq_zero_iff.mp hl.symm)
  have hi := hP.route_lt t.cache cent hc
  rw [hl] at hi
  refine ⟨(t.ents[P.route t.cache cent]).1, (t.ents[P.route t.cache cent]).2, ?_, ?_⟩
  · simp [List.getElem?_eq_getElem hi]
  · exact List.getElem_mem hi

/-- **provenance / unit lemma**: an insertion adds `s` as a new leaf cluster or merges it
into exactly one accepted leaf cluster; every other leaf cluster is untouched -/
theorem ins_prov (hP : P.Valid) : ∀ (h : Nat) (t : Tree h) (s : Clu) (next : Nat), Shape h t →
    ProvOf P (lclus h t) s (lclus h (ins P h t s next).node)
  | 0, (l : LeafN), s, next, hs => by
    simp only [ins, lclus]
    exact lclus_insertLeaf P hP l s next hs.1
  | h+1, (t : InnerN (Tree h)), s, next, hs => by
    obtain ⟨c, child, hsome, hmem⟩ := Shape.route_some P hP t hs s.cent
    have hchild : Shape h child := hs.2.2.2 _ hmem
    have ih := ins_prov hP h child s next hchild
    rw [lclus_inner_split h t _ c child hsome]
    simp only [ins, hsome]
    split
    · -- the child was split
      simp only [lclus, List.map_append, List.sum_append, List.map_cons, List.map_nil, List.sum_cons,
        List.sum_nil, add_zero]
      rw [sum_set_eraseIdx (fun (e : Clu × Tree h) => lclus h e.2) _ _ _ _ hsome, add_assoc]
      simp only
      rw [lclus_splitNode]
      exact ih.add_left P _
    · simp only [lclus]
      rw [sum_set_eraseIdx (fun (e : Clu × Tree h) => lclus h e.2) _ _ _ _ hsome]
      exact ih.add_left P _

end BB

namespace BB
variable (P : Policy)

theorem splitNode_shape (hP : P.Valid) : ∀ (h : Nat) (t : Tree h) (next : Nat), Shape h t → 2 ≤ nEnts h t →
    Shape h (splitNode P h t next).t1 ∧ Shape h (splitNode P h t next).t2
  | 0, (l : LeafN), next, hs, _ => by
    simp only [splitNode, Shape, List.length_map, true_and]
    exact ⟨hs.2, hs.2⟩
  | h+1, (t : InnerN (Tree h)), next, hs, h2 => by
    obtain ⟨hl, hcap, _, hall⟩ := hs
    simp only [nEnts] at h2
    have hm : (P.mask t.cache).length = t.ents.length := by rw [hP.mask_len, hl]
    have h2' : 2 ≤ t.cache.length := by rw [hl]; exact h2
    simp only [splitNode, Shape, List.length_map, true_and]
    refine ⟨⟨hcap, splitBy_fst_ne_nil _ _ hm (hP.mask_true _ h2'), ?_⟩,
            ⟨hcap, splitBy_snd_ne_nil _ _ hm (hP.mask_false _ h2'), ?_⟩⟩
    · intro e he; exact hall e ((mem_splitBy _ _ e).mp (Or.inl he))
    · intro e he; exact hall e ((mem_splitBy _ _ e).mp (Or.inr he))

theorem insertLeaf_shape (l : LeafN) (s : Clu) (next : Nat) (hs : Shape 0 l) :
    Shape 0 (insertLeaf P l s next).node ∧
      ((insertLeaf P l s next).over = true → 2 ≤ nEnts 0 (insertLeaf P l s next).node) := by
  obtain ⟨hl, hcap⟩ := hs
  unfold insertLeaf
  split
  · simp [Shape, hcap]
  · simp only
    split
    · simp [Shape, hl, hcap]
    · split
      · simp [Shape, hl, hcap]
      · simp only [Shape, List.length_append, hl, List.length_cons, List.length_nil, zero_add, true_and,
          decide_eq_true_eq, nEnts]
        exact ⟨hcap, fun h => by omega⟩

theorem ins_shape (hP : P.Valid) : ∀ (h : Nat) (t : Tree h) (s : Clu) (next : Nat), Shape h t →
    Shape h (ins P h t s next).node ∧ ((ins P h t s next).over = true → 2 ≤ nEnts h (ins P h t s next).node)
  | 0, (l : LeafN), s, next, hs => by
    simp only [ins]
    exact insertLeaf_shape P l s next hs
  | h+1, (t : InnerN (Tree h)), s, next, hs => by
    obtain ⟨c, child, hsome, hmem⟩ := Shape.route_some P hP t hs s.cent
    obtain ⟨hl, hcap, hne, hall⟩ := hs
    have ih := ins_shape hP h child s next (hall _ hmem)
    simp only [ins, hsome]
    split
    · rename_i hover
      have hsp := splitNode_shape P hP h _ (ins P h child s next).next ih.1 (ih.2 hover)
      refine ⟨⟨by simp [hl], hcap, by simp, ?_⟩, ?_⟩
      · intro e he
        simp only [List.mem_append, List.mem_singleton] at he
        rcases he with he | he
        · rcases List.mem_or_eq_of_mem_set he with he | he
          · exact hall e he
          · subst he; exact hsp.1
        · subst he; exact hsp.2
      · simp only [decide_eq_true_eq, nEnts]
        intro h; omega
    · refine ⟨⟨by simp [hl], hcap, ?_, ?_⟩, by simp⟩
      · intro h0
        have := congrArg List.length h0
        simp only [List.length_set, List.length_nil] at this
        exact hne (List.length_eq_zero_iff.mp this)
      · intro e he
        rcases List.mem_or_eq_of_mem_set he with he | he
        · exact hall e he
        · subst he; exact ih.1

end BB
