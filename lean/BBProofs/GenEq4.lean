/-
GenEq4 — the configuration logic of the estimator, as translated from `bitbirch.py` on this run
(`BitBirch.__init__` up to the first statement that does not concern `threshold`, `branching_factor`,
`_merge_accept_fn`; the `tolerance` and `merge_criterion` properties; `set_merge`), computes the model's
`selectMerge` / `construct` / `setMerge`.

Merge-function objects are `PV.obj "<class>" a b c`; `objOf expf m` is the object of the model's `m`.
Only the three followed attributes of the estimator are represented: `[threshold, branching_factor, fn]`,
preceded by the status of the call (`pynone`, or `err "ValueError"` with the state left behind).
-/
import BBProofs.GenEq3
import BBModel.Estimator

namespace BB
open PV

/-- the `criterion` argument -/
def critPV (expf : Rat → Rat) : Option CritArg → PV
  | none => PV.pynone
  | some (.name s) => PV.str s
  | some (.obj m) => objOf expf m

def optRatPV : Option Rat → PV
  | none => PV.pynone
  | some t => PV.flt (some t)

def optNatPV : Option Nat → PV
  | none => PV.pynone
  | some n => PV.int n

theorem objOf_norm (expf : Rat → Rat) (m : MergeFn) : objOf expf m.norm = objOf expf m := by
  obtain ⟨c, t⟩ := m
  cases c <;> simp [MergeFn.norm, Crit.hasTol, objOf]

theorem isinstance_objOf (expf : Rat → Rat) (m : MergeFn) :
    BBGen.MergeAcceptFunction_isinstance (objOf expf m) = PV.bool true := by
  obtain ⟨c, t⟩ := m
  cases c <;> rfl

theorem isinstance_str (s : String) : BBGen.MergeAcceptFunction_isinstance (PV.str s) = PV.bool false := rfl
theorem isinstance_none : BBGen.MergeAcceptFunction_isinstance PV.pynone = PV.bool false := rfl

/-- code: the `tolerance` property is the model's `tolerance?` -/
theorem gen_tolerance (expf : Rat → Rat) (a b : PV) (m : MergeFn) :
    BBGen.BitBirch_tolerance expf a b (objOf expf m) = optRatPV m.tolerance? := by
  obtain ⟨c, t⟩ := m
  cases c <;> simp [BBGen.BitBirch_tolerance, objOf, BBGen.MergeAcceptFunction_hasattr,
    BBGen.MergeAcceptFunction_getattr, MergeFn.tolerance?, Crit.hasTol, optRatPV]

/-- code: the `merge_criterion` property is the criterion's name -/
theorem gen_merge_criterion (expf : Rat → Rat) (a b : PV) (m : MergeFn) :
    BBGen.BitBirch_merge_criterion expf a b (objOf expf m) = PV.str m.crit.name := by
  obtain ⟨c, t⟩ := m
  cases c <;> rfl


@[simp] theorem isNone_flt (x : Option Rat) : PV.isNone (PV.flt x) = PV.bool false := rfl
@[simp] theorem isNone_int (i : Int) : PV.isNone (PV.int i) = PV.bool false := rfl
@[simp] theorem isNone_str (s : String) : PV.isNone (PV.str s) = PV.bool false := rfl
@[simp] theorem isNone_obj (c : String) (x y z : PV) : PV.isNone (PV.obj c x y z) = PV.bool false := rfl
@[simp] theorem isNone_none : PV.isNone PV.pynone = PV.bool true := rfl
@[simp] theorem isNone_optRat (t : Option Rat) : PV.isNone (optRatPV t) = PV.bool t.isNone := by cases t <;> rfl
@[simp] theorem isNone_optNat (t : Option Nat) : PV.isNone (optNatPV t) = PV.bool t.isNone := by cases t <;> rfl
@[simp] theorem isNone_objOf (expf : Rat → Rat) (m : MergeFn) : PV.isNone (objOf expf m) = PV.bool false := by
  obtain ⟨c, t⟩ := m; cases c <;> rfl
@[simp] theorem guardL_objOf (expf : Rat → Rat) (m : MergeFn) (st k : List PV) : PV.guardL (objOf expf m) st k = k := by
  obtain ⟨c, t⟩ := m; cases c <;> rfl
@[simp] theorem guardL_optRat_some (t : Rat) (st k : List PV) : PV.guardL (optRatPV (some t)) st k = k := rfl
@[simp] theorem guardL_optNat_some (n : Nat) (st k : List PV) : PV.guardL (optNatPV (some n)) st k = k := rfl

/-- the tail of `set_merge`: `if threshold is not None: …; if branching_factor is not None: …` -/
theorem set_tail (thr0 : Rat) (bf0 : Nat) (fn : PV) (thr : Option Rat) (bf : Option Nat) :
    PV.iteLS (PV.not (PV.isNone (optRatPV thr))) [PV.flt (some thr0), PV.int bf0, fn]
      (let v_ := optRatPV thr
       PV.guardL v_ [PV.flt (some thr0), PV.int bf0, fn]
        (let self_threshold := v_
         PV.iteLS (PV.not (PV.isNone (optNatPV bf))) [self_threshold, PV.int bf0, fn]
          (let v_ := optNatPV bf
           PV.guardL v_ [self_threshold, PV.int bf0, fn] [PV.pynone, self_threshold, v_, fn])
          [PV.pynone, self_threshold, PV.int bf0, fn]))
      (PV.iteLS (PV.not (PV.isNone (optNatPV bf))) [PV.flt (some thr0), PV.int bf0, fn]
        (let v_ := optNatPV bf
         PV.guardL v_ [PV.flt (some thr0), PV.int bf0, fn] [PV.pynone, PV.flt (some thr0), v_, fn])
        [PV.pynone, PV.flt (some thr0), PV.int bf0, fn])
      = [PV.pynone, PV.flt (some (thr.getD thr0)), PV.int ((bf.getD bf0 : Nat)), fn] := by
  cases thr <;> cases bf <;> simp [optRatPV, optNatPV]


/-- the state of the estimator's configuration -/
def cfgState (expf : Rat → Rat) (thr : Rat) (bf : Nat) (m : MergeFn) : List PV :=
  [PV.flt (some thr), PV.int bf, objOf expf m]

theorem hasattr_tol_objOf (expf : Rat → Rat) (m : MergeFn) :
    BBGen.MergeAcceptFunction_hasattr (objOf expf m) "tolerance" = PV.bool m.crit.hasTol := by
  obtain ⟨c, t⟩ := m; cases c <;> rfl

theorem setattr_tol_objOf (expf : Rat → Rat) (m : MergeFn) (t : Rat) (h : m.crit.hasTol = true) :
    BBGen.MergeAcceptFunction_setattr (objOf expf m) "tolerance" (PV.flt (some t)) = objOf expf { m with tol := t } := by
  obtain ⟨c, t0⟩ := m; cases c <;> simp_all [Crit.hasTol, objOf, BBGen.MergeAcceptFunction_setattr]

/-- **`set_merge` is the model's `setMerge`** (global `set_merge` never used): on success the status is `None` and the
three attributes are the model's new configuration; on failure the status is `ValueError` and the attributes are
exactly the ones the estimator had -/
theorem gen_set_merge (expf : Rat → Rat) (thr0 : Rat) (bf0 : Nat) (m0 : MergeFn)
    (crit : Option CritArg) (tol thr : Option Rat) (bf : Option Nat) :
    BBGen.BitBirch_set_merge expf (PV.flt (some thr0)) (PV.int bf0) (objOf expf m0)
        (critPV expf crit) (optRatPV tol) (optRatPV thr) (optNatPV bf) PV.pynone
      = match selectMerge (some m0) crit tol with
        | .error _ => PV.err "ValueError" :: cfgState expf thr0 bf0 m0
        | .ok m => PV.pynone :: cfgState expf (thr.getD thr0) (bf.getD bf0) m := by
  unfold BBGen.BitBirch_set_merge selectMerge cfgState
  simp only [isNone_none, not_bool, Bool.not_true, iteLS_bool, Bool.false_eq_true, if_false, guardL_objOf]
  rcases crit with _ | (s | m')
  · -- no criterion
    simp only [critPV, isinstance_none, iteLS_bool, Bool.false_eq_true, if_false, isNone_none, not_bool, Bool.not_true]
    cases tol with
    | none =>
      cases thr <;> cases bf <;> simp [optRatPV, optNatPV]
    | some t =>
      simp only [isNone_optRat, Option.isNone_some, not_bool, Bool.not_false, iteLS_bool, if_true, hasattr_tol_objOf]
      by_cases h : m0.crit.hasTol = true
      · simp only [h, Bool.not_true, Bool.false_eq_true, if_false, optRatPV, setattr_tol_objOf expf m0 t h,
          guardL_objOf, if_true]
        cases thr <;> cases bf <;> simp [optRatPV, optNatPV]
      · have h' : m0.crit.hasTol = false := by simpa using h
        simp [h']
  · -- criterion by name
    simp only [critPV, isinstance_str, iteLS_bool, Bool.false_eq_true, if_false, isNone_str, not_bool, Bool.not_false, if_true,
      isNone_optRat, gen_tolerance]
    cases hname : Crit.ofName? s with
    | none =>
      have hd : ∀ t : Rat, BBGen.get_merge_accept_fn expf (PV.str s) (PV.flt (some t)) = PV.err "ValueError" := by
        intro t; rw [gen_dispatch]; unfold getMergeFn; rw [hname]; rfl
      cases tol with
      | none =>
        cases hcur : m0.tolerance? <;>
          simp [optRatPV, hd]
      | some t => simp [optRatPV, hd]
    | some c =>
      have hd : ∀ t : Rat, BBGen.get_merge_accept_fn expf (PV.str s) (PV.flt (some t)) = objOf expf ⟨c, t⟩ := by
        intro t; rw [gen_dispatch]; unfold getMergeFn; rw [hname]; rfl
      have hb : (some m0 : Option MergeFn).bind MergeFn.tolerance? = m0.tolerance? := rfl
      have e : PV.flt (some ((3602879701896397 : Rat) / 72057594037927936)) = PV.flt (some defaultTol) := rfl
      rw [hb]
      cases tol with
      | none =>
        cases hcur : m0.tolerance? with
        | none =>
          cases thr <;> cases bf <;>
            simp [optRatPV, optNatPV, e, hd, tolChoice, objOf_norm]
        | some t0 =>
          cases thr <;> cases bf <;>
            simp [optRatPV, optNatPV, hd, tolChoice, objOf_norm]
      | some t =>
        cases thr <;> cases bf <;>
          simp [optRatPV, optNatPV, hd, tolChoice, objOf_norm]
  · -- criterion as an object
    simp only [critPV, isinstance_objOf, iteLS_bool, if_true, isNone_optRat, not_bool]
    cases tol with
    | none =>
      simp only [Option.isNone_none, Bool.not_true, Bool.false_eq_true, if_false, guardL_objOf, Option.isSome_none, objOf_norm]
      cases thr <;> cases bf <;> simp [optRatPV, optNatPV]
    | some t => simp


/-- **the constructor's configuration part is the model's `construct`**: `None` and the configured attributes, or
`ValueError` (the merge function not yet assigned) -/
theorem gen_init (expf : Rat → Rat) (thr : Rat) (bf : Nat) (crit : Option CritArg) (tol : Option Rat) :
    BBGen.BitBirch_init expf (PV.flt (some thr)) (PV.int bf) (critPV expf crit) (optRatPV tol) PV.pynone
      = match selectMerge none (some (crit.getD (.name "diameter"))) tol with
        | .error _ => [PV.err "ValueError", PV.flt (some thr), PV.int bf, PV.pynone]
        | .ok m => PV.pynone :: cfgState expf thr bf m := by
  unfold BBGen.BitBirch_init selectMerge cfgState
  have e : PV.flt (some ((3602879701896397 : Rat) / 72057594037927936)) = PV.flt (some defaultTol) := rfl
  have hdisp : ∀ (s : String) (t : Rat), BBGen.get_merge_accept_fn expf (PV.str s) (PV.flt (some t)) =
      match Crit.ofName? s with
      | some c => objOf expf ⟨c, t⟩
      | none => PV.err "ValueError" := by
    intro s t; rw [gen_dispatch]; unfold getMergeFn; cases Crit.ofName? s <;> rfl
  rcases crit with _ | (s | m')
  · -- default criterion "diameter"
    have hd : Crit.ofName? "diameter" = some .diameter := rfl
    cases tol <;>
      simp [critPV, optRatPV, isinstance_str, e, hdisp, hd, tolChoice, objOf_norm]
  · cases hname : Crit.ofName? s <;> cases tol <;>
      simp [critPV, optRatPV, isinstance_str, e, hdisp, hname, tolChoice, objOf_norm]
  · cases tol <;>
      simp [critPV, optRatPV, isinstance_objOf, objOf_norm]

end BB
