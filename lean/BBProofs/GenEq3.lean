/-
GenEq3 — the side conditions of GenEq.lean (`SumOk`: non-zero float denominators) discharged for every
summary the tree can hold, on the whole no-wrap range `n·Σk < 2^64`; and the error bound of C11 for the
generated `jt_isim_from_sum`.
-/
import BBProofs.GenEq
import BBProofs.IsimErr

namespace BB
open PV

/-- the float denominator is positive on the whole no-wrap range (same estimate as in `isim_ulp`) -/
theorem isimDen_pos (ks : List Nat) (n : Nat) (hn : 2 ≤ n) (hk : ∀ k ∈ ks, k ≤ n) (hS : 0 < ks.sum)
    (hb : n * ks.sum < 2 ^ 64) : 0 < isimDen ks n := by
  obtain ⟨h1, h2, h3, _, h5⟩ := isim_no_wrap ks n hk hb
  unfold isimDen
  simp only [h1, h2, h3, h5]
  have e1 := two_pairSum ks
  have e2 := denSum_add_sqSum ks n hk
  have e3 := sqSum_le ks n hk
  have e5 : 0 < denSum ks n := isim_den_pos ks n hn hk hS
  have hQS : sqSum ks - ks.sum = 2 * pairSum ks := by omega
  have hQD : sqSum ks ≤ 4 * denSum ks n := by
    have e4 : 2 * ks.sum ≤ n * ks.sum := Nat.mul_le_mul_right _ hn
    omega
  have hP : (0:ℚ) ≤ (pairSum ks : ℚ) := Nat.cast_nonneg _
  have hQ : (0:ℚ) ≤ (sqSum ks : ℚ) := Nat.cast_nonneg _
  have hN : (0:ℚ) ≤ ((n * ks.sum : ℕ) : ℚ) := Nat.cast_nonneg _
  have hD : (0:ℚ) < (denSum ks n : ℚ) := by exact_mod_cast e5
  have hQD' : (sqSum ks : ℚ) ≤ 4 * (denSum ks n : ℚ) := by exact_mod_cast hQD
  have hDN : (denSum ks n : ℚ) + (sqSum ks : ℚ) = (pairSum ks : ℚ) + ((n * ks.sum : ℕ) : ℚ) := by
    exact_mod_cast e2
  have ha_eq : ofNat (sqSum ks - ks.sum) / 2 = rnd (pairSum ks : ℚ) := by
    unfold ofNat
    rw [hQS, ← rnd_half]
    congr 1
    push_cast
    ring
  unfold sqSum at ha_eq
  rw [ha_eq]
  unfold ofNat fsub fadd
  have ha := isimErr_rnd_two_sided hP
  have hn' := isimErr_rnd_two_sided hN
  have hq := isimErr_rnd_two_sided hQ
  have ha0 : 0 ≤ rnd (pairSum ks : ℚ) := rnd_nonneg hP
  have hn0 : 0 ≤ rnd ((n * ks.sum : ℕ) : ℚ) := rnd_nonneg hN
  have ht := isimErr_rnd_two_sided (add_nonneg ha0 hn0)
  have hw := isimErr_sub hQD' hDN ha hn' hq ht
  have hw0 : 0 < rnd (rnd (pairSum ks : ℚ) + rnd ((n * ks.sum : ℕ) : ℚ)) - rnd (sqSum ks : ℚ) :=
    lt_of_lt_of_le (mul_pos (by norm_num) hD) hw.1
  unfold sqSum at hw0
  exact rnd_pos hw0


theorem isimDen_ne (ks : List Nat) (n : Nat) (hk : ∀ k ∈ ks, k ≤ n) (hb : n * ks.sum < 2 ^ 64) :
    2 ≤ n → u64 ks.sum ≠ 0 → isimDen ks n ≠ 0 := by
  intro hn h0
  have hS : 0 < ks.sum := by
    rcases Nat.eq_zero_or_pos ks.sum with h | h
    · exact absurd (by rw [h]; rfl) h0
    · exact h
  exact ne_of_gt (isimDen_pos ks n hn hk hS hb)

theorem sum_addLs_le (a b : List Nat) (h : a.length = b.length) : (addLs a b).sum = a.sum + b.sum := by
  induction a generalizing b with
  | nil => cases b <;> simp_all [addLs]
  | cons x a ih =>
    cases b with
    | nil => simp at h
    | cons y b =>
      simp only [addLs, List.sum_cons, ih b (by simpa using h)]
      omega

theorem rowToNat_sum_le (r : Row) : (rowToNat r).sum ≤ r.length := by
  induction r with
  | nil => simp [rowToNat]
  | cons b r ih =>
    simp only [rowToNat, List.map_cons, List.sum_cons, List.length_cons] at ih ⊢
    cases b <;> simp <;> omega

/-- entries of `new_ls_1` are bounded by `n + 1` and it is not changed by the uint64 cast -/
theorem ls1_facts (ls : List Nat) (n : Nat) (hk : ∀ k ∈ ls, k ≤ n) (hn : n + 1 < 2 ^ 53) :
    (∀ k ∈ ls1 ls n, k ≤ n + 1) ∧ (ls1 ls n).sum ≤ ls.sum + ls.length := by
  have hlen := gen_centroid_length ls n
  have hc1 : ∀ k ∈ rowToNat (centroidFromSum ls n), k ≤ 1 := by
    intro k hkm
    simp only [rowToNat, List.mem_map] at hkm
    obtain ⟨b, _, rfl⟩ := hkm
    cases b <;> simp
  have hadd := addLs_le ls (rowToNat (centroidFromSum ls n)) hlen.symm n 1 hk hc1
  have hid : (addLs ls (rowToNat (centroidFromSum ls n))).map u64 = addLs ls (rowToNat (centroidFromSum ls n)) := by
    conv_rhs => rw [← List.map_id (addLs ls (rowToNat (centroidFromSum ls n)))]
    apply List.map_congr_left
    intro k hkm
    have := hadd k hkm
    simp only [u64, id]
    exact Nat.mod_eq_of_lt (by omega)
  unfold ls1
  rw [hid]
  refine ⟨hadd, ?_⟩
  rw [sum_addLs_le _ _ hlen.symm]
  have := rowToNat_sum_le (centroidFromSum ls n)
  have hl2 : (centroidFromSum ls n).length = ls.length := by
    have := gen_centroid_length ls n
    simpa [rowToNat] using this
  omega

/-- **every summary the tree can hold satisfies the side conditions of GenEq**: sums bounded by the count, the count
below 2^53 − 1, and no uint64 wrap-around in the two iSIM evaluations -/
theorem sumOk_of_consistent (s : Summary) (hk : ∀ k ∈ s.ls, k ≤ s.n) (hn : s.n + 1 < 2 ^ 53)
    (hb : (s.n + 1) * (s.ls.sum + s.ls.length) < 2 ^ 64) : SumOk s := by
  obtain ⟨h1, h2⟩ := ls1_facts s.ls s.n hk hn
  refine ⟨hk, hn, isimDen_ne s.ls s.n hk ?_, isimDen_ne (ls1 s.ls s.n) (s.n + 1) h1 ?_⟩
  · calc s.n * s.ls.sum ≤ (s.n + 1) * (s.ls.sum + s.ls.length) := Nat.mul_le_mul (by omega) (by omega)
      _ < 2 ^ 64 := hb
  · calc (s.n + 1) * (ls1 s.ls s.n).sum ≤ (s.n + 1) * (s.ls.sum + s.ls.length) := Nat.mul_le_mul_left _ h2
      _ < 2 ^ 64 := hb

/-- the generated `jt_isim_from_sum` is within 18 units of 2^-53 (relative) of the exact rational definition on the
whole no-wrap range -/
theorem gen_isim_ulp (expf : Rat → Rat) (w : W) (ks : List Nat) (n : Nat) (hn : 2 ≤ n) (hk : ∀ k ∈ ks, k ≤ n)
    (hS : 0 < ks.sum) (hb : n * ks.sum < 2 ^ 64) :
    ∃ v, BBGen.jt_isim_from_sum expf (PV.arr w ks) (PV.int n) = PV.flt (some v) ∧
      |v - exactIsim ks n| ≤ 18 * 2 ^ (-53 : ℤ) * exactIsim ks n ∧ 0 ≤ v := by
  obtain ⟨v, hv, herr, h0⟩ := isim_ulp ks n hn hk hS hb
  have hn64 : n < 2 ^ 64 := by
    have : n * 1 ≤ n * ks.sum := Nat.mul_le_mul_left n hS
    omega
  have hls : ∀ k ∈ ks, k < 2 ^ 64 := fun k h => by have := hk k h; omega
  refine ⟨v, ?_, herr, h0⟩
  rw [gen_isim' expf w ks n hls hn64 (isimDen_ne ks n hk hb)]
  obtain ⟨h1, _⟩ := isim_no_wrap ks n hk hb
  unfold isimPV
  have : ¬ n < 2 := by omega
  have h0' : ¬ u64 ks.sum = 0 := by rw [h1]; omega
  simp only [this, if_false, h0', hv]

end BB
