/-
GenEq13 — `_BFNode.insert_bf_subcluster`, as translated on this run: the five cases of the insertion step of the model
(`BB.insertLeaf`, `BB.ins` in `BBModel/Tree.lean`), by what happens to the entry list, the centroid cache, the call log and
the returned "this node must be split" flag.

Sub-clusters are handles and buffer rows centroid tokens (GenEq8).  What the code asks of other objects is an input and a log
entry: `np.argmax(_jt_sim_arr_vec_packed(…))` (the routing decision `closest_idx`), `closest.child` (`None` at a leaf, else
a node token), `closest.merge_subcluster(…)` (code 1, result `merge_was_successful`), the recursive
`child.insert_bf_subcluster(…)` (code 2, result `child_must_be_split`), `_split_node(child)` (code 3, results two fresh
handles), `closest.update(nominee)` (code 4); centroids read after such a call are inputs.
The branching factor is `len(buf) - 1`.
-/
import BBProofs.GenEq8
import BBModel.Tree

namespace BB
open PV

theorem getAt_nat (w : W) (xs : List Nat) (i : Nat) (h : i < xs.length) :
    PV.getAt (arr w xs) (int i) = int xs[i] := by
  have h0 : ¬ ((i : Int) < 0) := by omega
  simp [PV.getAt, h0, h]

theorem gt_int_int (a b : Int) : PV.gt (PV.int a) (PV.int b) = PV.bool (decide (b < a)) := by
  simp [PV.gt, PV.rel, PV.toNum, PV.cmpNum, PV.ordSat, ordGt_int]

theorem bf_eq (expf : Rat → Rat) (subs buf : List Nat) (log : PV) :
    BBGen._BFNode_branching_factor expf (arr .big subs) (arr .big buf) log = int ((buf.length : Int) - 1) := by
  simp [BBGen._BFNode_branching_factor, PV.len]

/-- (1) an empty node takes the nominee as its only entry; never over-full -/
theorem gen_insert_empty (expf : Rat → Rat) (buf log : List Nat) (h c : Nat) (hb : 0 < buf.length)
    (fn thr x1 x2 x3 x4 x5 x6 x7 x8 x9 x10 x11 : PV) :
    BBGen._BFNode_insert_bf_subcluster expf (arr .big []) (arr .big buf) (arr .big log) (int h) fn thr
        x1 x2 x3 x4 x5 x6 x7 x8 x9 x10 x11 (int c)
      = [bool false, arr .big [h], arr .big (buf.set 0 c), arr .big log] := by
  unfold BBGen._BFNode_insert_bf_subcluster
  have := gen_node_append expf [] buf (arr .big log) h c (by simpa using hb)
  simp [PV.not, PV.truthy, this]

/-- (2) leaf, the closest entry accepts the nominee: entries unchanged, its cache row becomes the merged centroid -/
theorem gen_insert_leaf_merge (expf : Rat → Rat) (subs buf log : List Nat) (h c i cNew : Nat)
    (hne : subs ≠ []) (hi : i < subs.length) (hlen : subs.length < buf.length)
    (fn thr x1 x2 x7 x8 x9 x10 x11 : PV) :
    BBGen._BFNode_insert_bf_subcluster expf (arr .big subs) (arr .big buf) (arr .big log) (int h) fn thr
        x1 x2 (int i) pynone (int cNew) (bool true) x7 x8 x9 x10 x11 (int c)
      = [bool false, arr .big subs, arr .big (buf.set i cNew), arr .big (log ++ [1, subs[i], h])] := by
  unfold BBGen._BFNode_insert_bf_subcluster
  have hemp : subs.isEmpty = false := by cases subs <;> simp_all
  have hib : i < buf.length := by omega
  simp [PV.not, PV.truthy, hemp, getAt_nat _ _ _ hi, PV.isNone, PV.listAppend, setAt_nat _ _ _ _ hib]

/-- (3) leaf, the closest entry refuses: the nominee is appended; the node is over-full iff it now has more than
`branching_factor` entries -/
theorem gen_insert_leaf_append (expf : Rat → Rat) (subs buf log : List Nat) (h c i : Nat)
    (hne : subs ≠ []) (hi : i < subs.length) (hlen : subs.length < buf.length)
    (fn thr x1 x2 x5 x7 x8 x9 x10 x11 : PV) :
    BBGen._BFNode_insert_bf_subcluster expf (arr .big subs) (arr .big buf) (arr .big log) (int h) fn thr
        x1 x2 (int i) pynone x5 (bool false) x7 x8 x9 x10 x11 (int c)
      = [bool (decide (buf.length - 1 < subs.length + 1)), arr .big (subs ++ [h]), arr .big (buf.set subs.length c),
         arr .big (log ++ [1, subs[i], h])] := by
  unfold BBGen._BFNode_insert_bf_subcluster
  have hemp : subs.isEmpty = false := by cases subs <;> simp_all
  have := gen_node_append expf subs buf (arr .big (log ++ [1, subs[i], h])) h c hlen
  simp [PV.not, PV.truthy, hemp, getAt_nat _ _ _ hi, PV.isNone, PV.listAppend, this, bf_eq, PV.len, gt_int_int]
  omega

/-- (4) inner node, the child reported that it must be split: `_split_node` is asked for the two halves, the tracking entry is
replaced in place by the first and the second is appended (GenEq8); over-full iff more than `branching_factor` entries -/
theorem gen_insert_inner_split (expf : Rat → Rat) (subs buf log : List Nat) (h i tok h1 h2 c1 c2 : Nat)
    (hne : subs ≠ []) (hi : i < subs.length) (hlen : subs.length < buf.length) (hfirst : subs.idxOf? subs[i] = some i)
    (fn thr x1 x5 x6 x11 xc : PV) :
    BBGen._BFNode_insert_bf_subcluster expf (arr .big subs) (arr .big buf) (arr .big log) (int h) fn thr
        x1 (bool true) (int i) (int tok) x5 x6 (int h1) (int c1) (int h2) (int c2) x11 xc
      = [bool (decide (buf.length - 1 < subs.length + 1)), arr .big (subs.set i h1 ++ [h2]),
         arr .big ((buf.set i c1).set subs.length c2), arr .big (log ++ [2, tok, h, 3, tok])] := by
  unfold BBGen._BFNode_insert_bf_subcluster
  have hemp : subs.isEmpty = false := by cases subs <;> simp_all
  have := gen_node_split_update expf subs buf (arr .big (log ++ [2, tok, h, 3, tok])) subs[i] h1 h2 c1 c2 i hlen hfirst
  simp [PV.not, PV.truthy, hemp, getAt_nat _ _ _ hi, PV.isNone, PV.listAppend, this, bf_eq, PV.len, gt_int_int]
  omega

/-- (5) inner node, the child absorbed the nominee: the tracking entry is updated with it, its cache row refreshed; entries
unchanged; never over-full -/
theorem gen_insert_inner_update (expf : Rat → Rat) (subs buf log : List Nat) (h i tok cUpd : Nat)
    (hne : subs ≠ []) (hi : i < subs.length) (hlen : subs.length < buf.length)
    (fn thr x5 x6 x7 x8 x9 x10 x11 xc : PV) :
    BBGen._BFNode_insert_bf_subcluster expf (arr .big subs) (arr .big buf) (arr .big log) (int h) fn thr
        (int cUpd) (bool false) (int i) (int tok) x5 x6 x7 x8 x9 x10 x11 xc
      = [bool false, arr .big subs, arr .big (buf.set i cUpd), arr .big (log ++ [2, tok, h, 4, subs[i], h])] := by
  unfold BBGen._BFNode_insert_bf_subcluster
  have hemp : subs.isEmpty = false := by cases subs <;> simp_all
  have hib : i < buf.length := by omega
  simp [PV.not, PV.truthy, hemp, getAt_nat _ _ _ hi, PV.isNone, PV.listAppend, setAt_nat _ _ _ _ hib]

/-! ### against the model's leaf step -/

/-- the number of entries and the over-full flag of the model's `insertLeaf` are those of the code's cases (1)–(3), with the
routing decision `i = P.route …` and the acceptance `P.accept …` as the inputs `closest_idx`, `merge_was_successful`, and
`cap = branching_factor = len(buf) - 1` -/
theorem insertLeaf_cases (P : Policy) (l : LeafN) (s : Clu) (next : Nat) :
    let r := insertLeaf P l s next
    (l.subs = [] → r.node.subs.length = 1 ∧ r.over = false) ∧
    (∀ c, l.subs ≠ [] → l.subs[P.route l.cache s.cent]? = some c → P.accept c s = true →
        r.node.subs.length = l.subs.length ∧ r.over = false) ∧
    (∀ c, l.subs ≠ [] → l.subs[P.route l.cache s.cent]? = some c → P.accept c s = false →
        r.node.subs.length = l.subs.length + 1 ∧ r.over = decide (l.cap < l.subs.length + 1)) := by
  intro r
  refine ⟨?_, ?_, ?_⟩
  · intro h
    simp [r, insertLeaf, h]
  · intro c hne hc ha
    have hemp : l.subs.isEmpty = false := by cases hs : l.subs <;> simp_all
    simp [r, insertLeaf, hemp, hc, ha]
  · intro c hne hc ha
    have hemp : l.subs.isEmpty = false := by cases hs : l.subs <;> simp_all
    simp [r, insertLeaf, hemp, hc, ha]

/-- the number of entries and the over-full flag of the model's inner-node step `ins (h+1)`: with the routed entry `i` and the
result `r` of the recursive insertion into its child — entries +1 and `over = (cap < entries + 1)` when the child came back
over-full (it is split), unchanged and not over-full otherwise -/
theorem ins_cases (P : Policy) (h : Nat) (t : InnerN (Tree h)) (s : Clu) (next : Nat) (c : Clu) (child : Tree h)
    (hc : t.ents[P.route t.cache s.cent]? = some (c, child)) :
    let r := ins P (h + 1) t s next
    let rc := ins P h child s next
    (rc.over = true → (r.node : InnerN (Tree h)).ents.length = t.ents.length + 1 ∧ r.over = decide (t.cap < t.ents.length + 1)) ∧
    (rc.over = false → (r.node : InnerN (Tree h)).ents.length = t.ents.length ∧ r.over = false) := by
  intro r rc
  constructor
  · intro ho
    simp only [r, ins, hc]
    simp only [rc] at ho
    simp [ho]
  · intro ho
    simp only [r, ins, hc]
    simp only [rc] at ho
    simp [ho]

end BB
