/-
Proofs about the executable binary64 rounding model `BB.rnd` (BBModel/Fl.lean).

Strategy: a specification-level rounding `rndPosS` (round to the grid of spacing
`2^(Int.log 2 x - 52)`, nearest, ties to even) is shown monotone etc.; then the executable
`rndPos p q` is shown equal to `rndPosS (p/q)`, and all properties are transported.
-/
import Mathlib.Algebra.Order.Floor.Ring
import Mathlib.Algebra.Order.Field.Basic
import Mathlib.Data.Rat.Floor
import Mathlib.Algebra.Order.Field.Power
import Mathlib.Data.Int.Log
import Mathlib.Data.Nat.Log
import Mathlib.Tactic.Linarith
import Mathlib.Tactic.Ring
import Mathlib.Tactic.Positivity
import Mathlib.Tactic.FieldSimp
import BBModel.Fl
import BBProofs.Rounding

namespace BB
/-- round x to a multiple of u (u>0), nearest, ties to even multiple -/
def rgrid (u x : ℚ) : ℚ :=
  let k := ⌊x / u⌋
  let r := x / u - k
  if r < 1/2 then k * u
  else if r > 1/2 then (k + 1) * u
  else if k % 2 = 0 then k * u else (k + 1) * u
theorem rgrid_lower (u x : ℚ) (hu : 0 < u) : (⌊x / u⌋ : ℚ) * u ≤ rgrid u x := by
  unfold rgrid; simp only; split_ifs <;> nlinarith
theorem rgrid_upper (u x : ℚ) (hu : 0 < u) : rgrid u x ≤ (⌊x / u⌋ + 1 : ℚ) * u := by
  unfold rgrid; simp only; split_ifs <;> nlinarith
theorem rgrid_mono (u : ℚ) (hu : 0 < u) {x y : ℚ} (h : x ≤ y) : rgrid u x ≤ rgrid u y := by
  have hxy : x / u ≤ y / u := div_le_div_of_nonneg_right h hu.le
  have hk : ⌊x / u⌋ ≤ ⌊y / u⌋ := Int.floor_le_floor hxy
  rcases hk.lt_or_eq with hlt | heq
  · have h1 := rgrid_upper u x hu
    have h2 := rgrid_lower u y hu
    have : (⌊x / u⌋ + 1 : ℚ) ≤ ⌊y / u⌋ := by exact_mod_cast hlt
    nlinarith
  · unfold rgrid; simp only; rw [heq]
    have hr : x / u - ⌊y / u⌋ ≤ y / u - ⌊y / u⌋ := by linarith
    split_ifs <;> nlinarith
theorem rgrid_fix (u : ℚ) (hu : 0 < u) (m : ℤ) : rgrid u (m * u) = m * u := by
  unfold rgrid
  have h1 : (m : ℚ) * u / u = m := by field_simp
  simp only [h1, Int.floor_intCast, sub_self]; norm_num
noncomputable def rndPosS (x : ℚ) : ℚ := rgrid ((2:ℚ) ^ (Int.log 2 x - 52)) x
theorem rndPosS_bounds {x : ℚ} (hx : 0 < x) :
    (2:ℚ) ^ (Int.log 2 x) ≤ rndPosS x ∧ rndPosS x ≤ (2:ℚ) ^ (Int.log 2 x + 1) := by
  set e := Int.log 2 x with he
  have hu : (0:ℚ) < 2 ^ (e - 52) := by positivity
  have hlo : (2:ℚ) ^ e ≤ x := Int.zpow_log_le_self (by norm_num) hx
  have hhi : x < (2:ℚ) ^ (e + 1) := Int.lt_zpow_succ_log_self (by norm_num) x
  have g1 : (2:ℚ) ^ e = ((2^52 : ℤ) : ℚ) * 2 ^ (e - 52) := by
    rw [zpow_sub₀ (by norm_num : (2:ℚ) ≠ 0)]; push_cast; field_simp
  have g2 : (2:ℚ) ^ (e + 1) = ((2^53 : ℤ) : ℚ) * 2 ^ (e - 52) := by
    rw [zpow_sub₀ (by norm_num : (2:ℚ) ≠ 0), zpow_add₀ (by norm_num : (2:ℚ) ≠ 0)]
    push_cast; field_simp; ring
  constructor
  · have := rgrid_mono _ hu hlo;    rwa [g1, rgrid_fix _ hu, ← g1] at this
  · have := rgrid_mono _ hu hhi.le; rwa [g2, rgrid_fix _ hu, ← g2] at this
theorem rndPosS_mono {x y : ℚ} (hx : 0 < x) (h : x ≤ y) : rndPosS x ≤ rndPosS y := by
  have hy : 0 < y := lt_of_lt_of_le hx h
  have hle : Int.log 2 x ≤ Int.log 2 y := Int.log_mono_right hx h
  rcases hle.lt_or_eq with hlt | heq
  · have h1 := (rndPosS_bounds hx).2
    have h2 := (rndPosS_bounds hy).1
    have : (2:ℚ) ^ (Int.log 2 x + 1) ≤ 2 ^ (Int.log 2 y) :=
      zpow_le_zpow_right₀ (by norm_num) (by omega)
    linarith
  · unfold rndPosS; rw [heq]; exact rgrid_mono _ (by positivity) h

/-- the binade computed by `ilog2Rat` is the right one -/
theorem ilog2Rat_spec (p q : Nat) (hp : 0 < p) (hq : 0 < q) :
    (2:ℚ) ^ (ilog2Rat p q) ≤ (p:ℚ) / q ∧ (p:ℚ) / q < (2:ℚ) ^ (ilog2Rat p q + 1) := by
  have hp' : (0:ℚ) < p := by exact_mod_cast hp
  have hq' : (0:ℚ) < q := by exact_mod_cast hq
  -- bit-length facts
  have lp1 : 2 ^ Nat.log2 p ≤ p := Nat.log2_self_le (by omega)
  have lp2 : p < 2 ^ (Nat.log2 p + 1) := Nat.lt_log2_self
  have lq1 : 2 ^ Nat.log2 q ≤ q := Nat.log2_self_le (by omega)
  have lq2 : q < 2 ^ (Nat.log2 q + 1) := Nat.lt_log2_self
  have Lp1 : (2:ℚ) ^ (Nat.log2 p : ℤ) ≤ p := by rw [zpow_natCast]; exact_mod_cast lp1
  have Lp2 : (p:ℚ) < (2:ℚ) ^ ((Nat.log2 p : ℤ) + 1) := by
    have : ((Nat.log2 p : ℤ) + 1) = ((Nat.log2 p + 1 : ℕ) : ℤ) := by push_cast; ring
    rw [this, zpow_natCast]; exact_mod_cast lp2
  have Lq1 : (2:ℚ) ^ (Nat.log2 q : ℤ) ≤ q := by rw [zpow_natCast]; exact_mod_cast lq1
  have Lq2 : (q:ℚ) < (2:ℚ) ^ ((Nat.log2 q : ℤ) + 1) := by
    have : ((Nat.log2 q : ℤ) + 1) = ((Nat.log2 q + 1 : ℕ) : ℤ) := by push_cast; ring
    rw [this, zpow_natCast]; exact_mod_cast lq2
  set a : ℤ := (Nat.log2 p : ℤ)
  set b : ℤ := (Nat.log2 q : ℤ)
  -- 2^(a-b-1) < p/q < 2^(a-b+1)
  have two_ne : (2:ℚ) ≠ 0 := by norm_num
  have lower : (2:ℚ) ^ (a - b - 1) < (p:ℚ) / q := by
    rw [lt_div_iff₀ hq']
    have : (2:ℚ) ^ (a - b - 1) * 2 ^ (b + 1) = 2 ^ a := by rw [← zpow_add₀ two_ne]; congr 1; ring
    calc (2:ℚ) ^ (a - b - 1) * q < 2 ^ (a - b - 1) * 2 ^ (b + 1) := by
          apply mul_lt_mul_of_pos_left Lq2; positivity
      _ = 2 ^ a := this
      _ ≤ p := Lp1
  have upper : (p:ℚ) / q < (2:ℚ) ^ (a - b + 1) := by
    rw [div_lt_iff₀ hq']
    have : (2:ℚ) ^ (a - b + 1) * 2 ^ b = 2 ^ (a + 1) := by rw [← zpow_add₀ two_ne]; congr 1; ring
    calc (p:ℚ) < 2 ^ (a + 1) := Lp2
      _ = 2 ^ (a - b + 1) * 2 ^ b := this.symm
      _ ≤ 2 ^ (a - b + 1) * q := by apply mul_le_mul_of_nonneg_left Lq1; positivity
  -- the decision `ge` is exactly `2^(a-b) ≤ p/q`
  have key : (ilog2Rat p q = a - b ∧ (2:ℚ) ^ (a - b) ≤ (p:ℚ) / q) ∨
             (ilog2Rat p q = a - b - 1 ∧ (p:ℚ) / q < (2:ℚ) ^ (a - b)) := by
    have hdef : ilog2Rat p q =
        if (if a - b ≥ 0 then decide (p ≥ q * 2 ^ (a - b).toNat) else decide (p * 2 ^ (-(a - b)).toNat ≥ q)) = true
        then a - b else a - b - 1 := rfl
    rw [hdef]
    by_cases h0 : (a - b) ≥ 0
    · simp only [h0, if_true]
      have hz : ((a - b).toNat : ℤ) = a - b := Int.toNat_of_nonneg h0
      by_cases hge : p ≥ q * 2 ^ (a - b).toNat
      · left
        simp only [hge, decide_true, if_true, true_and]
        rw [le_div_iff₀ hq', ← hz, zpow_natCast]
        have : ((q * 2 ^ (a - b).toNat : ℕ) : ℚ) ≤ p := by exact_mod_cast hge
        push_cast at this; linarith
      · right
        simp only [hge, decide_false, Bool.false_eq_true, if_false, true_and]
        rw [div_lt_iff₀ hq', ← hz, zpow_natCast]
        have : (p : ℚ) < ((q * 2 ^ (a - b).toNat : ℕ) : ℚ) := by exact_mod_cast (not_le.mp hge)
        push_cast at this; linarith
    · simp only [h0, if_false]
      have hneg : 0 ≤ -(a - b) := by omega
      have hz : ((-(a - b)).toNat : ℤ) = -(a - b) := Int.toNat_of_nonneg hneg
      have hpow : (2:ℚ) ^ (a - b) = 1 / 2 ^ ((-(a - b)).toNat) := by
        rw [← zpow_natCast, hz, zpow_neg]; simp
      by_cases hge : p * 2 ^ (-(a - b)).toNat ≥ q
      · left
        simp only [hge, decide_true, if_true, true_and]
        rw [hpow, le_div_iff₀ hq']
        have : (q:ℚ) ≤ ((p * 2 ^ (-(a - b)).toNat : ℕ) : ℚ) := by exact_mod_cast hge
        push_cast at this
        have h2 : (0:ℚ) < 2 ^ (-(a - b)).toNat := by positivity
        rw [div_mul_eq_mul_div, div_le_iff₀ h2]; linarith
      · right
        simp only [hge, decide_false, Bool.false_eq_true, if_false, true_and]
        rw [hpow, div_lt_iff₀ hq']
        have : ((p * 2 ^ (-(a - b)).toNat : ℕ) : ℚ) < q := by exact_mod_cast (not_le.mp hge)
        push_cast at this
        have h2 : (0:ℚ) < 2 ^ (-(a - b)).toNat := by positivity
        rw [div_mul_eq_mul_div, lt_div_iff₀ h2]; linarith
  rcases key with ⟨he, hle⟩ | ⟨he, hlt⟩
  · rw [he]; exact ⟨hle, upper⟩
  · rw [he]; refine ⟨lower.le, ?_⟩
    have : a - b - 1 + 1 = a - b := by ring
    rw [this]; exact hlt

/-- hence it equals Mathlib's `Int.log 2` -/
theorem ilog2Rat_eq_log (p q : Nat) (hp : 0 < p) (hq : 0 < q) :
    ilog2Rat p q = Int.log 2 ((p:ℚ) / q) := by
  have hx : (0:ℚ) < (p:ℚ) / q := by positivity
  obtain ⟨h1, h2⟩ := ilog2Rat_spec p q hp hq
  have a1 : ilog2Rat p q ≤ Int.log 2 ((p:ℚ) / q) := (Int.zpow_le_iff_le_log (by norm_num) hx).mp h1
  have a2 : Int.log 2 ((p:ℚ) / q) < ilog2Rat p q + 1 := (Int.lt_zpow_iff_log_lt (by norm_num) hx).mp h2
  omega

/-! ### Link from the executable `rndPos` to the specification `rndPosS` -/

theorem rgrid_unfold (u x : ℚ) (k : ℤ) (hk : ⌊x / u⌋ = k) :
    rgrid u x = if x / u - k < 1/2 then k * u
      else if x / u - k > 1/2 then (k + 1) * u
      else if k % 2 = 0 then k * u else (k + 1) * u := by
  subst hk; rfl

/-- the quotient/remainder test on naturals computes `rgrid` -/
theorem rgrid_natdiv (u x : ℚ) (n d : ℕ) (hd : 0 < d) (h : x / u = (n:ℚ) / d) :
    rgrid u x =
      ((if 2 * (n % d) > d then n / d + 1
        else if 2 * (n % d) = d then (if (n / d) % 2 = 1 then n / d + 1 else n / d)
        else n / d : ℕ) : ℚ) * u := by
  have hd' : (0:ℚ) < d := by exact_mod_cast hd
  have hfl : ⌊x / u⌋ = ((n / d : ℕ) : ℤ) := by
    rw [h, Rat.floor_natCast_div_natCast]; rfl
  have hdm : (n : ℚ) = (d:ℚ) * ((n / d : ℕ) : ℚ) + ((n % d : ℕ) : ℚ) := by
    exact_mod_cast (Nat.div_add_mod n d).symm
  have hfr : x / u - (((n / d : ℕ) : ℤ) : ℚ) = ((n % d : ℕ) : ℚ) / d := by
    rw [h, Int.cast_natCast, hdm]; field_simp; ring
  rw [rgrid_unfold u x _ hfl, hfr]
  generalize n / d = k
  generalize n % d = r
  have hk2 : ((k : ℤ) % 2 = 0) ↔ ¬ (k % 2 = 1) := by omega
  obtain hc | hc | hc := lt_trichotomy (2 * r) d
  · have hc' : ((2 * r : ℕ) : ℚ) < d := by exact_mod_cast hc
    push_cast at hc'
    have h1 : (r : ℚ) / d < 1 / 2 := by rw [div_lt_iff₀ hd']; linarith
    rw [if_pos h1, if_neg (show ¬ (2 * r > d) by omega), if_neg (show ¬ (2 * r = d) by omega),
      Int.cast_natCast]
  · have hc' : ((2 * r : ℕ) : ℚ) = d := by exact_mod_cast hc
    push_cast at hc'
    have h0 : (r : ℚ) / d = 1 / 2 := by rw [div_eq_iff hd'.ne']; linarith
    rw [h0, if_neg (lt_irrefl _), if_neg (lt_irrefl _), if_neg (show ¬ (2 * r > d) by omega),
      if_pos hc]
    by_cases hp : k % 2 = 1
    · rw [if_neg (show ¬ ((k:ℤ) % 2 = 0) by omega), if_pos hp]; push_cast; ring
    · rw [if_pos (show (k:ℤ) % 2 = 0 by omega), if_neg hp]; push_cast; ring
  · have hc' : (d : ℚ) < ((2 * r : ℕ) : ℚ) := by exact_mod_cast hc
    push_cast at hc'
    have h1 : (r : ℚ) / d > 1 / 2 := by rw [gt_iff_lt, lt_div_iff₀ hd']; linarith
    rw [if_neg (not_lt.mpr h1.le), if_pos h1, if_pos hc]; push_cast; ring

theorem mkRat_natCast (K n : ℕ) : mkRat (K : ℤ) n = (K : ℚ) / n := by
  rw [Rat.mkRat_eq_div, Int.cast_natCast]

/-- `rndPos` with the binade as a parameter -/
def rndPosE (e : ℤ) (p q : ℕ) : ℚ :=
  let s : Int := 52 - e
  let num : Nat := if s ≥ 0 then p * 2 ^ s.toNat else p
  let den : Nat := if s ≥ 0 then q else q * 2 ^ (-s).toNat
  let k := num / den
  let r := num % den
  let k' := if 2 * r > den then k + 1
            else if 2 * r = den then (if k % 2 = 1 then k + 1 else k) else k
  if s ≥ 0 then mkRat k' (2 ^ s.toNat) else ((k' * 2 ^ (-s).toNat : Nat) : Rat)

theorem rndPos_eq_rndPosE (p q : ℕ) : rndPos p q = rndPosE (ilog2Rat p q) p q := rfl

theorem rndPosE_eq (e : ℤ) (p q : ℕ) (hq : 0 < q) :
    rndPosE e p q = rgrid ((2:ℚ) ^ (e - 52)) ((p:ℚ) / q) := by
  have hq' : (0:ℚ) < q := by exact_mod_cast hq
  have two_ne : (2:ℚ) ≠ 0 := by norm_num
  unfold rndPosE
  by_cases hs : 52 - e ≥ 0
  · simp only [hs, if_true]
    have hz : ((52 - e).toNat : ℤ) = 52 - e := Int.toNat_of_nonneg hs
    have hu : (2:ℚ) ^ (e - 52) = 1 / 2 ^ (52 - e).toNat := by
      rw [← zpow_natCast, hz, one_div, ← zpow_neg]; congr 1; ring
    have hx : (p:ℚ) / q / (2:ℚ) ^ (e - 52) = ((p * 2 ^ (52 - e).toNat : ℕ) : ℚ) / q := by
      rw [hu]; push_cast; field_simp
    rw [rgrid_natdiv _ _ _ q hq hx, mkRat_natCast, hu, Nat.cast_pow, Nat.cast_ofNat, mul_one_div]
  · simp only [hs, if_false]
    have hneg : 0 ≤ -(52 - e) := by omega
    have hz : ((-(52 - e)).toNat : ℤ) = -(52 - e) := Int.toNat_of_nonneg hneg
    have hu : (2:ℚ) ^ (e - 52) = 2 ^ (-(52 - e)).toNat := by
      rw [← zpow_natCast, hz]; congr 1; ring
    have hx : (p:ℚ) / q / (2:ℚ) ^ (e - 52) = (p : ℚ) / ((q * 2 ^ (-(52 - e)).toNat : ℕ) : ℚ) := by
      rw [hu]; push_cast; field_simp
    have hd : 0 < q * 2 ^ (-(52 - e)).toNat := by positivity
    rw [rgrid_natdiv _ _ _ _ hd hx, hu, Nat.cast_mul, Nat.cast_pow, Nat.cast_ofNat]

/-- the executable positive rounding is the specification rounding -/
theorem rndPos_eq (p q : ℕ) (hp : 0 < p) (hq : 0 < q) : rndPos p q = rndPosS ((p:ℚ) / q) := by
  rw [rndPos_eq_rndPosE, rndPosE_eq _ _ _ hq, ilog2Rat_eq_log p q hp hq]; rfl

/-! ### `rnd` in terms of the specification -/

theorem rnd_zero : rnd 0 = 0 := rfl

theorem rnd_of_pos {x : ℚ} (hx : 0 < x) : rnd x = rndPosS x := by
  have hn : 0 < x.num := Rat.num_pos.mpr hx
  have hc : ((x.num.toNat : ℕ) : ℚ) = ((x.num : ℤ) : ℚ) := by
    rw [← Int.cast_natCast, Int.toNat_of_nonneg hn.le]
  unfold rnd
  rw [if_neg hn.ne', if_pos hn, rndPos_eq _ _ (by omega) x.den_pos, hc, Rat.num_div_den]

theorem rnd_neg (x : ℚ) : rnd (-x) = - rnd x := by
  unfold rnd
  rw [Rat.neg_num, Rat.neg_den]
  rcases lt_trichotomy x.num 0 with h | h | h
  · have h1 : ¬ (-x.num = 0) := by omega
    have h2 : -x.num > 0 := by omega
    have h3 : ¬ (x.num = 0) := by omega
    have h4 : ¬ (x.num > 0) := by omega
    rw [if_neg h1, if_pos h2, if_neg h3, if_neg h4, neg_neg]
  · have h1 : -x.num = 0 := by omega
    rw [if_pos h1, if_pos h, neg_zero]
  · have h1 : ¬ (-x.num = 0) := by omega
    have h2 : ¬ (-x.num > 0) := by omega
    have h3 : ¬ (x.num = 0) := by omega
    rw [if_neg h1, if_neg h2, if_neg h3, if_pos h, neg_neg]

theorem rnd_pos {x : ℚ} (hx : 0 < x) : 0 < rnd x := by
  rw [rnd_of_pos hx]
  exact lt_of_lt_of_le (by positivity) (rndPosS_bounds hx).1

theorem rnd_nonneg {x : ℚ} (h : 0 ≤ x) : 0 ≤ rnd x := by
  rcases h.lt_or_eq with h | h
  · exact (rnd_pos h).le
  · rw [← h, rnd_zero]

theorem rnd_nonpos {x : ℚ} (h : x ≤ 0) : rnd x ≤ 0 := by
  have := rnd_nonneg (neg_nonneg.mpr h)
  rw [rnd_neg] at this; linarith

theorem rnd_mono_of_pos {x y : ℚ} (hx : 0 < x) (h : x ≤ y) : rnd x ≤ rnd y := by
  rw [rnd_of_pos hx, rnd_of_pos (lt_of_lt_of_le hx h)]; exact rndPosS_mono hx h

/-- rounding is monotone -/
theorem rnd_mono {x y : ℚ} (h : x ≤ y) : rnd x ≤ rnd y := by
  rcases lt_or_ge 0 x with hx | hx
  · exact rnd_mono_of_pos hx h
  · rcases le_or_gt 0 y with hy | hy
    · exact le_trans (rnd_nonpos hx) (rnd_nonneg hy)
    · have h1 : rnd (-y) ≤ rnd (-x) := rnd_mono_of_pos (neg_pos.mpr hy) (neg_le_neg h)
      rw [rnd_neg, rnd_neg] at h1; linarith

theorem rnd_monotone : Monotone rnd := fun _ _ h => rnd_mono h

/-! ### Fixed points: 53-bit dyadic rationals -/

theorem rndPosS_dyadic (m e : ℤ) (hm0 : 0 < m) (hm : m < 2 ^ 53) :
    rndPosS ((m:ℚ) * 2 ^ e) = (m:ℚ) * 2 ^ e := by
  have two_ne : (2:ℚ) ≠ 0 := by norm_num
  have hm0' : (0:ℚ) < m := by exact_mod_cast hm0
  have hm' : (m:ℚ) < 2 ^ (53:ℤ) := by
    have : (m:ℚ) < (2:ℚ) ^ (53:ℕ) := by exact_mod_cast hm
    rw [zpow_ofNat]; exact this
  have hx : (0:ℚ) < (m:ℚ) * 2 ^ e := by positivity
  have hlt : (m:ℚ) * 2 ^ e < (2:ℚ) ^ (53 + e) := by
    rw [zpow_add₀ two_ne]
    exact mul_lt_mul_of_pos_right hm' (by positivity)
  have hlog : Int.log 2 ((m:ℚ) * 2 ^ e) < 53 + e :=
    (Int.lt_zpow_iff_log_lt (by norm_num) hx).mp (by exact_mod_cast hlt)
  unfold rndPosS
  set e' := Int.log 2 ((m:ℚ) * 2 ^ e) with he'
  have ht : ((e - e' + 52).toNat : ℤ) = e - e' + 52 := Int.toNat_of_nonneg (by omega)
  have hu : (0:ℚ) < 2 ^ (e' - 52) := by positivity
  have hsplit : (m:ℚ) * 2 ^ e = ((m * 2 ^ (e - e' + 52).toNat : ℤ) : ℚ) * 2 ^ (e' - 52) := by
    push_cast
    rw [mul_assoc, ← zpow_natCast, ht, ← zpow_add₀ two_ne]
    congr 2; ring
  rw [hsplit, rgrid_fix _ hu]

theorem rnd_dyadic_of_pos (m e : ℤ) (hm0 : 0 < m) (hm : m < 2 ^ 53) :
    rnd ((m:ℚ) * 2 ^ e) = (m:ℚ) * 2 ^ e := by
  have hm0' : (0:ℚ) < m := by exact_mod_cast hm0
  rw [rnd_of_pos (by positivity), rndPosS_dyadic m e hm0 hm]

/-- `rnd` fixes every rational `m * 2^e` with `|m| < 2^53` -/
theorem rnd_dyadic (m e : ℤ) (hm : |m| < 2 ^ 53) : rnd ((m:ℚ) * 2 ^ e) = (m:ℚ) * 2 ^ e := by
  rw [abs_lt] at hm
  rcases lt_trichotomy m 0 with h | h | h
  · have := rnd_dyadic_of_pos (-m) e (by omega) (by omega)
    rw [Int.cast_neg, neg_mul, rnd_neg] at this
    exact neg_injective this
  · subst h; simp [rnd_zero]
  · exact rnd_dyadic_of_pos m e h hm.2

theorem rnd_intCast_of_lt (z : ℤ) (h : |z| < 2 ^ 53) : rnd (z : ℚ) = z := by
  simpa using rnd_dyadic z 0 h

theorem rnd_natCast_of_lt (n : ℕ) (h : n < 2 ^ 53) : rnd (n : ℚ) = n := by
  have := rnd_intCast_of_lt (n : ℤ) (by rw [abs_of_nonneg (by positivity)]; exact_mod_cast h)
  simpa using this

theorem rnd_one : rnd 1 = 1 := by
  simpa using rnd_natCast_of_lt 1 (by norm_num)

theorem rnd_le_one {x : ℚ} (h : x ≤ 1) : rnd x ≤ 1 := by
  have := rnd_mono h; rwa [rnd_one] at this

/-- also at the binade boundary `|m| = 2^53` -/
theorem rnd_dyadic_le (m e : ℤ) (hm : |m| ≤ 2 ^ 53) : rnd ((m:ℚ) * 2 ^ e) = (m:ℚ) * 2 ^ e := by
  have two_ne : (2:ℚ) ≠ 0 := by norm_num
  rcases hm.lt_or_eq with h | h
  · exact rnd_dyadic m e h
  · have key : rnd ((2:ℚ) ^ (53:ℕ) * 2 ^ e) = (2:ℚ) ^ (53:ℕ) * 2 ^ e := by
      have h1 : (2:ℚ) ^ (53:ℕ) * 2 ^ e = ((1:ℤ):ℚ) * 2 ^ (53 + e) := by
        rw [zpow_add₀ two_ne]; norm_num
      rw [h1]; exact rnd_dyadic 1 _ (by norm_num)
    rcases abs_choice m with h' | h'
    · rw [h'] at h; subst h; push_cast; exact key
    · rw [h'] at h
      have hm' : m = -(2 ^ 53) := by omega
      subst hm'
      rw [Int.cast_neg, Int.cast_pow, Int.cast_ofNat, neg_mul, rnd_neg, key]

/-! ### Idempotence -/

theorem rgrid_mem (u x : ℚ) : ∃ m : ℤ, rgrid u x = m * u := by
  unfold rgrid; simp only
  split_ifs
  · exact ⟨_, rfl⟩
  · exact ⟨⌊x / u⌋ + 1, by push_cast; rfl⟩
  · exact ⟨_, rfl⟩
  · exact ⟨⌊x / u⌋ + 1, by push_cast; rfl⟩

theorem rndPosS_mem {x : ℚ} (hx : 0 < x) :
    ∃ m : ℤ, 0 < m ∧ m ≤ 2 ^ 53 ∧ rndPosS x = (m:ℚ) * 2 ^ (Int.log 2 x - 52) := by
  obtain ⟨h1, h2⟩ := rndPosS_bounds hx
  obtain ⟨m, hm⟩ : ∃ m : ℤ, rndPosS x = m * 2 ^ (Int.log 2 x - 52) := rgrid_mem _ _
  set e := Int.log 2 x
  have hu : (0:ℚ) < 2 ^ (e - 52) := by positivity
  have g2 : (2:ℚ) ^ (e + 1) = ((2^53 : ℤ) : ℚ) * 2 ^ (e - 52) := by
    rw [zpow_sub₀ (by norm_num : (2:ℚ) ≠ 0), zpow_add₀ (by norm_num : (2:ℚ) ≠ 0)]
    push_cast; field_simp; ring
  refine ⟨m, ?_, ?_, hm⟩
  · have : (0:ℚ) < m * 2 ^ (e - 52) := by
      rw [← hm]; exact lt_of_lt_of_le (by positivity) h1
    have : (0:ℚ) < m := by
      by_contra hneg
      have hneg := not_lt.mp hneg
      nlinarith
    exact_mod_cast this
  · rw [hm, g2] at h2
    have : (m:ℚ) ≤ ((2^53 : ℤ) : ℚ) := le_of_mul_le_mul_right h2 hu
    exact_mod_cast this

theorem rnd_idem_of_pos {x : ℚ} (hx : 0 < x) : rnd (rnd x) = rnd x := by
  obtain ⟨m, hm0, hm, h⟩ := rndPosS_mem hx
  rw [rnd_of_pos hx, h]
  exact rnd_dyadic_le m _ (by rw [abs_of_pos hm0]; exact hm)

/-- rounding is idempotent -/
theorem rnd_idem (x : ℚ) : rnd (rnd x) = rnd x := by
  rcases lt_trichotomy x 0 with h | h | h
  · have := rnd_idem_of_pos (neg_pos.mpr h)
    rw [rnd_neg, rnd_neg] at this
    exact neg_injective this
  · subst h; rw [rnd_zero, rnd_zero]
  · exact rnd_idem_of_pos h

/-! ### Halving commutes with rounding (unbounded exponent) -/

theorem log2_eq_of_bounds {x : ℚ} {e : ℤ} (hx : 0 < x) (h1 : (2:ℚ) ^ e ≤ x)
    (h2 : x < (2:ℚ) ^ (e + 1)) : Int.log 2 x = e := by
  have a1 : e ≤ Int.log 2 x := (Int.zpow_le_iff_le_log (by norm_num) hx).mp h1
  have a2 : Int.log 2 x < e + 1 := (Int.lt_zpow_iff_log_lt (by norm_num) hx).mp h2
  omega

theorem log2_half {x : ℚ} (hx : 0 < x) : Int.log 2 (x / 2) = Int.log 2 x - 1 := by
  have two_ne : (2:ℚ) ≠ 0 := by norm_num
  have hlo : (2:ℚ) ^ (Int.log 2 x) ≤ x := Int.zpow_log_le_self (by norm_num) hx
  have hhi : x < (2:ℚ) ^ (Int.log 2 x + 1) := Int.lt_zpow_succ_log_self (by norm_num) x
  apply log2_eq_of_bounds (by positivity)
  · rw [zpow_sub_one₀ two_ne, ← div_eq_mul_inv]
    exact div_le_div_of_nonneg_right hlo (by norm_num)
  · rw [sub_add_cancel]
    rw [zpow_add_one₀ two_ne] at hhi
    rw [div_lt_iff₀ (by norm_num : (0:ℚ) < 2)]; exact hhi

theorem rgrid_half (u x : ℚ) : rgrid (u / 2) (x / 2) = rgrid u x / 2 := by
  have h : x / 2 / (u / 2) = x / u := div_div_div_cancel_right₀ (by norm_num) x u
  unfold rgrid; simp only [h]
  split_ifs <;> ring

theorem rndPosS_half {x : ℚ} (hx : 0 < x) : rndPosS (x / 2) = rndPosS x / 2 := by
  have two_ne : (2:ℚ) ≠ 0 := by norm_num
  unfold rndPosS
  rw [log2_half hx, ← rgrid_half]
  congr 1
  rw [show Int.log 2 x - 1 - 52 = Int.log 2 x - 52 - 1 by ring, zpow_sub_one₀ two_ne,
    ← div_eq_mul_inv]

theorem rnd_half_of_pos {x : ℚ} (hx : 0 < x) : rnd (x / 2) = rnd x / 2 := by
  rw [rnd_of_pos hx, rnd_of_pos (by positivity), rndPosS_half hx]

/-- halving commutes with rounding -/
theorem rnd_half (x : ℚ) : rnd (x / 2) = rnd x / 2 := by
  rcases lt_trichotomy x 0 with h | h | h
  · have := rnd_half_of_pos (neg_pos.mpr h)
    rw [neg_div, rnd_neg, rnd_neg, neg_div] at this
    exact neg_injective this
  · subst h; rw [zero_div, rnd_zero, zero_div]
  · exact rnd_half_of_pos h

/-! ### Relative error -/

theorem rgrid_err (u x : ℚ) (hu : 0 < u) : |rgrid u x - x| ≤ u / 2 := by
  have hx : x = (x / u) * u := by field_simp
  have h1 : (⌊x / u⌋ : ℚ) ≤ x / u := Int.floor_le _
  have h2 : x / u < ⌊x / u⌋ + 1 := Int.lt_floor_add_one _
  rw [abs_le]
  unfold rgrid; simp only
  split_ifs <;> constructor <;> nlinarith

theorem rndPosS_err {x : ℚ} (hx : 0 < x) : |rndPosS x - x| ≤ (2:ℚ) ^ (-53 : ℤ) * x := by
  have two_ne : (2:ℚ) ≠ 0 := by norm_num
  have hlo : (2:ℚ) ^ (Int.log 2 x) ≤ x := Int.zpow_log_le_self (by norm_num) hx
  have h := rgrid_err ((2:ℚ) ^ (Int.log 2 x - 52)) x (by positivity)
  have hu : (2:ℚ) ^ (Int.log 2 x - 52) / 2 = (2:ℚ) ^ (-53 : ℤ) * 2 ^ (Int.log 2 x) := by
    rw [div_eq_mul_inv, ← zpow_sub_one₀ two_ne, ← zpow_add₀ two_ne]; congr 1; ring
  rw [hu] at h
  exact le_trans h (mul_le_mul_of_nonneg_left hlo (by positivity))

/-- relative error of one rounding is at most 2^-53 -/
theorem rnd_relErr (x : ℚ) : |rnd x - x| ≤ (2:ℚ) ^ (-53 : ℤ) * |x| := by
  rcases lt_trichotomy x 0 with h | h | h
  · have := rndPosS_err (neg_pos.mpr h)
    rw [← rnd_of_pos (neg_pos.mpr h), rnd_neg] at this
    rw [abs_of_neg h, ← abs_neg]
    convert this using 2; ring
  · subst h; simp [rnd_zero]
  · rw [abs_of_pos h, rnd_of_pos h]; exact rndPosS_err h

/-! ### Bundled statement -/

theorem rnd_isRounding : IsRounding rnd where
  mono := rnd_monotone
  zero := rnd_zero
  neg := rnd_neg
  fix_nat := rnd_natCast_of_lt
  idem := rnd_idem
  half := rnd_half

end BB

