/-
Estimator core, part 4c: histories in which `fit` may carry explicit labels
(`fit(X, reinsert_indices=ls)`).  The labels are arbitrary numbers, duplicates allowed, so
the leaf clusters no longer hold `0 .. numFitted-1`; instead the invariant `LInv` says that
they hold exactly a given multiset `L` of labels and that `numFitted` is its cardinality.
`labelsOf` accumulates, through the model's own step function, the labels actually
inserted along a history.
-/
import BBProofs.Ops

namespace BB

/-- the invariant of an estimator state for feature count `F` whose leaf clusters hold
exactly the labels `L` (as a multiset: arbitrary numbers, duplicates allowed) -/
structure LInv (F : Nat) (L : Multiset Nat) (e : Est) : Prop where
  bf : 2 ≤ e.cfg.bf
  ok : e.st.OK
  fF : ∀ F', e.st.F? = some F' → F' = F
  lsLen : ∀ c ∈ e.st.lclusM, c.ls.length = F
  part : idsOf e.st.lclusM = L
  cnt : e.numFitted = Multiset.card L

/-- state-independent well-formedness of an operation for feature count `F`, labels free:
`Op.WF` of C01 without the demand `labels = none` (no condition at all on the labels) -/
def Op.WFL (F : Nat) : Op → Prop
  | .fit rows _ => ∀ r0, rows.head? = some r0 → r0.length = F
  | .refine _ data _ _ => ∀ r ∈ data, r.length = F
  | .setMerge _ _ _ b => ∀ b', b = some b' → 2 ≤ b'
  | .setBf b => 2 ≤ b
  | _ => True

variable (pol : Cfg → Policy)

/-- the labels one operation inserts in the state it meets: a `fit` inserts the labels of
the rows before the one it stopped at (their number is read off the model: the increase of
`numFitted`), every other operation inserts nothing -/
def opLabels (e : Est) : Op → List Nat
  | .fit rows labels =>
    let k := (stepWith pol e (.fit rows labels)).1.numFitted - e.numFitted
    match labels with
    | none => List.range' e.numFitted k
    | some ls => ls.take k
  | _ => []

/-- the labels held after one operation: `reset` forgets them, everything else keeps them
and adds what it inserts -/
def stepLabels (L : List Nat) (e : Est) : Op → List Nat
  | .reset => []
  | op => L ++ opLabels pol e op

/-- `labelsOf` with an accumulator -/
def labelsAcc : List Nat → Est → List Op → List Nat
  | L, _, [] => L
  | L, e, op :: ops => labelsAcc (stepLabels pol L e op) (stepWith pol e op).1 ops

/-- the labels inserted along a history since the last `reset`, in insertion order -/
def labelsOf (e : Est) (ops : List Op) : List Nat := labelsAcc pol [] e ops

/-! ### preservation -/

theorem init_linv (F : Nat) (cfg : Cfg) (h : 2 ≤ cfg.bf) : LInv F 0 (init cfg) :=
  ⟨h, trivial, by intro F' h; simp [init, TreeSt.F?] at h, by simp [init, TreeSt.lclusM],
    by simp [init, TreeSt.lclusM], by simp [init]⟩

theorem reset_linv (F : Nat) (e : Est) (h : 2 ≤ e.cfg.bf) : LInv F 0 e.reset :=
  ⟨h, trivial, by intro F' h; simp [Est.reset, TreeSt.F?] at h, by simp [Est.reset, TreeSt.lclusM],
    by simp [Est.reset, TreeSt.lclusM], by simp [Est.reset]⟩

theorem cfg_linv (F : Nat) (L : Multiset Nat) (e : Est) (h : LInv F L e) (cfg' : Cfg) (hbf : 2 ≤ cfg'.bf) :
    LInv F L { e with cfg := cfg' } :=
  ⟨hbf, h.ok, h.fF, h.lsLen, h.part, h.cnt⟩

theorem delInternal_linv (F : Nat) (L : Multiset Nat) (e : Est) (h : LInv F L e) :
    LInv F L (delInternal e).1 := by
  unfold delInternal
  cases hst : e.st with
  | uninit => simpa using h
  | leavesOnly F' ls => simpa using h
  | full hh F' root chain next =>
    cases hh with
    | zero => simpa using h
    | succ k =>
      have hcoe := TreeSt.leafClus_coe e.st h.ok
      have hl : (TreeSt.leavesOnly F' e.st.leaves).lclusM = e.st.lclusM := by
        rw [← hcoe]; rfl
      simp only
      rw [← hst]
      exact ⟨h.bf, trivial, by intro F'' h'; simp [TreeSt.F?] at h', by simpa [hl] using h.lsLen,
        by simpa [hl] using h.part, h.cnt⟩

/-- rebuilding the tree from groups whose units carry exactly the labels `L` -/
theorem rebuild_linv (hpol : ∀ cfg, (pol cfg).Valid) (F : Nat) (e0 : Est)
    (hst : e0.st = .uninit) (hnf : e0.numFitted = 0) (hbf : 2 ≤ e0.cfg.bf) (L : Multiset Nat)
    (gs : List (W × List Clu))
    (hne : ∀ g ∈ gs, g.2 ≠ []) (hlen : ∀ g ∈ gs, ∀ u ∈ g.2, u.ls.length = F)
    (hids : idsOf ((gs.flatMap (·.2) : List Clu) : Multiset Clu) = L) :
    ∃ e', refitGroups pol e0 gs = (e', none) ∧ e'.cfg = e0.cfg ∧ LInv F L e' := by
  obtain ⟨e', h1, hcfg, hok, _, hF, hn, hmc⟩ :=
    refitGroups_spec pol hpol F gs e0 (by omega) (by rw [hst]; trivial) (by rw [hst]; rfl)
      (by intro F' h; simp [hst, TreeSt.F?] at h) hne hlen
  have hz : e0.st.lclusM = 0 := by rw [hst]; rfl
  rw [hz, zero_add] at hmc
  have hidsE : idsOf e'.st.lclusM = L := by
    rw [hmc.ids, idsOf_map_asUnit, hids]
  have hnum : e'.numFitted = Multiset.card L := by
    have h2 := card_idsOf ((gs.flatMap (·.2) : List Clu) : Multiset Clu)
    rw [hids] at h2
    simp only [Multiset.map_coe, Multiset.sum_coe] at h2
    rw [hn, hnf, h2]; simp
  refine ⟨e', h1, hcfg, ⟨by rw [hcfg]; exact hbf, hok, hF, ?_, hidsE, hnum⟩⟩
  apply MC.forall (fun c => c.ls.length = F) (fun c s hc hs _ => merge_ls_length c s F hc hs) hmc
  intro c hc
  simp only [Multiset.mem_coe, List.mem_map, List.mem_flatMap] at hc
  obtain ⟨u, ⟨g, hg, hu⟩, rfl⟩ := hc
  exact hlen g hg u hu

/-- a prefix of `ls.zip rows` carries a prefix of `ls` -/
theorem prefix_zip_labels : ∀ (p : List (Nat × Row)) (ls : List Nat) (rows : List Row),
    p <+: ls.zip rows → p.map (·.1) = ls.take p.length
  | [], _, _, _ => by simp
  | a :: p, [], _, h => by simp at h
  | a :: p, _ :: _, [], h => by simp at h
  | a :: p, l :: ls, r :: rows, h => by
    rw [List.zip_cons_cons, List.cons_prefix_cons] at h
    obtain ⟨rfl, h⟩ := h
    simp [prefix_zip_labels p ls rows h]

theorem fit_linv_same (F : Nat) (L : Multiset Nat) (e : Est) (hinv : LInv F L e)
    (rows : List Row) (labels : Option (List Nat)) (he : (fit (pol e.cfg) e rows labels).1 = e) :
    LInv F (L + (opLabels pol e (.fit rows labels) : List Nat)) (fit (pol e.cfg) e rows labels).1 := by
  have : opLabels pol e (.fit rows labels) = [] := by
    simp only [opLabels, stepWith, he, Nat.sub_self]
    cases labels <;> simp
  rw [this, he]
  simpa using hinv

/-- the labelled rows of a `fit` call, as the model builds them (`zip` truncates to the
shorter list) -/
def fitLabelled (e : Est) (rows : List Row) : Option (List Nat) → List (Nat × Row)
  | none => (List.range' e.numFitted rows.length).zip rows
  | some ls => ls.zip rows

/-- a `fit` call on an estimator that still has its internal nodes inserts the rows before
the first malformed one, counts them, and `opLabels` is exactly their labels -/
theorem fit_spec (hpol : ∀ cfg, (pol cfg).Valid) (F : Nat) (L : Multiset Nat) (e : Est) (hinv : LInv F L e)
    (r0 : Row) (rest : List Row) (labels : Option (List Nat)) (h0 : r0.length = F)
    (hlo : e.st.isLeavesOnly = false) :
    ∃ st', fit (pol e.cfg) e (r0 :: rest) labels =
        ({ e with st := st',
                  numFitted := e.numFitted + (goodPrefix F (fitLabelled e (r0 :: rest) labels)).length },
          if (goodPrefix F (fitLabelled e (r0 :: rest) labels)).length
              = (fitLabelled e (r0 :: rest) labels).length then none else some Err.value) ∧
      opLabels pol e (.fit (r0 :: rest) labels) = (goodPrefix F (fitLabelled e (r0 :: rest) labels)).map (·.1) ∧
      st'.OK ∧ (∀ F', st'.F? = some F' → F' = F) ∧
      MC (pol e.cfg).acc (e.st.lclusM +
        (((goodPrefix F (fitLabelled e (r0 :: rest) labels)).map (fun p => Clu.ofRow p.2 p.1) : List Clu) :
          Multiset Clu)) st'.lclusM := by
  have hFF : (e.st.F?).getD r0.length = F := by
    cases h : e.st.F? with
    | none => simpa using h0
    | some F' => simpa using hinv.fF F' h
  have hFF2 : (e.st.F?).getD F = F := by
    cases h : e.st.F? with
    | none => rfl
    | some F2 => simpa using hinv.fF F2 h
  have hfst : ∀ p, p <+: fitLabelled e (r0 :: rest) labels → p.map (·.1) = (match labels with
      | none => List.range' e.numFitted p.length
      | some ls => ls.take p.length) := by
    intro p hp
    cases labels with
    | none => exact prefix_zip_range' _ _ _ hp
    | some ls => exact prefix_zip_labels _ _ _ hp
  obtain ⟨st', h1, hok', _, hF', hnil', hmc⟩ :=
    fitRows_spec (pol e.cfg) (hpol _) e.cfg.bf (by have := hinv.bf; omega) F
      (fitLabelled e (r0 :: rest) labels) e.st e.numFitted hinv.ok hlo
  have hfit : fit (pol e.cfg) e (r0 :: rest) labels =
      ({ e with st := st',
                numFitted := e.numFitted + (goodPrefix F (fitLabelled e (r0 :: rest) labels)).length },
        if (goodPrefix F (fitLabelled e (r0 :: rest) labels)).length
            = (fitLabelled e (r0 :: rest) labels).length then none else some Err.value) := by
    rw [fit_eq _ _ _ _ _ hlo]
    cases labels <;> (simp only [fitLabelled] at h1; simp only [hFF, h1, fitLabelled])
  refine ⟨st', hfit, ?_, hok', ?_, hmc⟩
  · have hpre : goodPrefix F (fitLabelled e (r0 :: rest) labels) <+: fitLabelled e (r0 :: rest) labels :=
      List.takeWhile_prefix _
    rw [hfst _ hpre]
    cases labels <;> simp only [opLabels, stepWith, hfit, Nat.add_sub_cancel_left]
  · intro F' hF''
    by_cases hg : goodPrefix F (fitLabelled e (r0 :: rest) labels) = []
    · rw [hnil' hg] at hF''; exact hinv.fF F' hF''
    · rw [hF' hg, hFF2] at hF''
      exact (Option.some.inj hF'').symm

/-- `fit`, with or without explicit labels, adds exactly `opLabels` -/
theorem fit_linv (hpol : ∀ cfg, (pol cfg).Valid) (F : Nat) (L : Multiset Nat) (e : Est) (hinv : LInv F L e)
    (rows : List Row) (labels : Option (List Nat)) (h0 : ∀ r0, rows.head? = some r0 → r0.length = F) :
    LInv F (L + (opLabels pol e (.fit rows labels) : List Nat)) (fit (pol e.cfg) e rows labels).1 := by
  have hnil := fit_linv_same pol F L e hinv rows labels
  cases rows with
  | nil => exact hnil rfl
  | cons r0 rest =>
    by_cases hlo : e.st.isLeavesOnly = true
    · exact hnil (fit_leavesOnly _ _ _ _ hlo)
    · clear hnil
      have hlo : e.st.isLeavesOnly = false := by simpa using hlo
      obtain ⟨st', hfit, hlabs, hok', hF', hmc⟩ := fit_spec pol hpol F L e hinv r0 rest labels (h0 r0 rfl) hlo
      rw [hlabs, hfit]
      set good := goodPrefix F (fitLabelled e (r0 :: rest) labels) with hgood
      have hgoodOK : ∀ p ∈ good, rowOk F p.2 = true := fun p hp =>
        List.mem_takeWhile_imp (p := fun q : Nat × Row => rowOk F q.2) hp
      refine ⟨hinv.bf, hok', hF', ?_, ?_, ?_⟩
      · apply MC.forall (fun c => c.ls.length = F) (fun c s hc hs _ => merge_ls_length c s F hc hs) hmc
        intro c hc
        rcases Multiset.mem_add.mp hc with hc | hc
        · exact hinv.lsLen c hc
        · simp only [Multiset.mem_coe, List.mem_map] at hc
          obtain ⟨p, hp, rfl⟩ := hc
          have hr : p.2.length = F := by simpa [rowOk] using hgoodOK p hp
          simp [Clu.ofRow, rowToNat, hr]
      · simp only
        rw [hmc.ids, idsOf_add, hinv.part, idsOf_ofRow]
      · simp only [Multiset.card_add, Multiset.coe_card, List.length_map]
        rw [hinv.cnt]

/-- a `fit` with explicit labels whose rows are all well-formed inserts the labels zipped
with the rows: all of `ls` when there are at least as many rows as labels -/
theorem opLabels_fit_all (hpol : ∀ cfg, (pol cfg).Valid) (F : Nat) (L : Multiset Nat) (e : Est)
    (hinv : LInv F L e) (rows : List Row) (ls : List Nat) (hrows : ∀ r ∈ rows, r.length = F)
    (hlo : e.st.isLeavesOnly = false) :
    opLabels pol e (.fit rows (some ls)) = ls.take rows.length := by
  cases rows with
  | nil =>
    have : (fit (pol e.cfg) e [] (some ls)).1 = e := rfl
    simp [opLabels, stepWith, this]
  | cons r0 rest =>
    obtain ⟨_, _, hlabs, _⟩ := fit_spec pol hpol F L e hinv r0 rest (some ls) (hrows r0 (by simp)) hlo
    rw [hlabs]
    have hall : goodPrefix F (fitLabelled e (r0 :: rest) (some ls)) = fitLabelled e (r0 :: rest) (some ls) := by
      apply List.takeWhile_eq_self_iff.mpr
      intro p hp
      have := (List.of_mem_zip hp).2
      simpa [rowOk] using hrows _ this
    rw [hall]
    have := prefix_zip_labels (fitLabelled e (r0 :: rest) (some ls)) ls (r0 :: rest) (List.prefix_refl _)
    rw [this]
    simp [fitLabelled, List.length_zip, List.take_take, Nat.min_comm]

/-- one full re-insertion of all leaf clusters (in any order, grouped by width) -/
theorem reinsert_linv (hpol : ∀ cfg, (pol cfg).Valid) (F : Nat) (L : Multiset Nat) (e : Est)
    (hinv : LInv F L e) (cfg' : Cfg) (hbf : 2 ≤ cfg'.bf)
    (bfs' : List Clu) (hb : (bfs' : Multiset Clu) = e.st.lclusM) :
    ∃ e', refitGroups pol { cfg := cfg', st := .uninit, numFitted := 0 } (groupByW bfs') = (e', none) ∧
      e'.cfg = cfg' ∧ LInv F L e' := by
  obtain ⟨_, hne, hflat⟩ := groupByW_spec bfs'
  have hmem : ∀ g ∈ groupByW bfs', ∀ u ∈ g.2, u ∈ e.st.lclusM := by
    intro g hg u hu
    rw [← hb, ← hflat]
    exact List.mem_flatMap.mpr ⟨g, hg, hu⟩
  exact rebuild_linv pol hpol F { cfg := cfg', st := .uninit, numFitted := 0 } rfl rfl hbf L (groupByW bfs') hne
    (fun g hg u hu => hinv.lsLen u (hmem g hg u hu))
    (by rw [hflat, hb]; exact hinv.part)

theorem reclusterLoop_linv (hpol : ∀ cfg, (pol cfg).Valid) (F : Nat) (L : Multiset Nat)
    (extra : Rat) (stop : Bool) :
    ∀ (k : Nat) (perms : List (Option (List Nat))) (before : Nat) (e : Est), LInv F L e →
    LInv F L (reclusterLoop pol extra stop k perms before e).1
  | 0, _, _, e, hinv => by simpa [reclusterLoop] using hinv
  | k+1, perms, before, e, hinv => by
    unfold reclusterLoop
    simp only
    split
    · exact hinv
    · have hperm : ((shuffled e.st.sortedClus perms.head? : List Clu) : Multiset Clu) = e.st.lclusM := by
        rw [← sortedClus_coe e.st hinv.ok]
        unfold shuffled
        split
        · exact Multiset.coe_eq_coe.mpr (applyPerm_perm _ _)
        · rfl
      obtain ⟨e3, h3, _, hinv3⟩ := reinsert_linv pol hpol F L e hinv
        { e.cfg with thr := fadd e.cfg.thr extra } hinv.bf _ hperm
      have hstart : ({ (e.reset) with cfg := { e.reset.cfg with thr := fadd e.reset.cfg.thr extra } } : Est)
          = { cfg := { e.cfg with thr := fadd e.cfg.thr extra }, st := .uninit, numFitted := 0 } := rfl
      rw [hstart, h3]
      simp only
      exact reclusterLoop_linv hpol F L extra stop k perms.tail _ e3 hinv3

theorem recluster_linv (hpol : ∀ cfg, (pol cfg).Valid) (F : Nat) (L : Multiset Nat) (e : Est)
    (hinv : LInv F L e) (iters : Nat) (extra : Rat) (perms : List (Option (List Nat))) (stop : Bool) :
    LInv F L (recluster pol e iters extra perms stop).1 := by
  unfold recluster
  split
  · exact hinv
  · exact reclusterLoop_linv pol hpol F L extra stop iters perms 0 e hinv

/-- `refine_inplace` keeps the labels, whatever they are (given data rows of the tree's width):
an exploded cluster is replaced by singletons carrying the same labels, or the call fails
(label below `initial_mol` or beyond the data) before anything but the internal nodes changed -/
theorem refine_linv (hpol : ∀ cfg, (pol cfg).Valid) (F : Nat) (L : Multiset Nat) (e : Est)
    (hinv : LInv F L e) (n : Int) (data : List Row) (im : Nat) (srt : Bool)
    (hdata : ∀ r ∈ data, r.length = F) :
    LInv F L (refine pol e n data im srt).1 := by
  unfold refine
  split
  · exact hinv
  · have hinv0 := delInternal_linv F L e hinv
    generalize hdi : delInternal e = di at hinv0
    obtain ⟨e0, x⟩ := di
    simp only at hinv0
    cases x with
    | some x => exact hinv0
    | none =>
      simp only
      split
      · exact hinv0
      · split
        · exact hinv0
        · rename_i groups hg
          obtain ⟨hne, singles, hflat, hids, hsing⟩ := refineGroups_spec _ _ _ _ _ _ hg
          have hsorted := sortedClus_coe e0.st hinv0.ok
          have hmemdrop : ∀ u ∈ e0.st.sortedClus.drop n.toNat, u ∈ e0.st.lclusM := fun u hu => by
            rw [← hsorted]; exact List.mem_of_mem_drop hu
          have hmem : ∀ g ∈ groups, ∀ u ∈ g.2, u ∈ e0.st.lclusM ∨ u ∈ singles := by
            intro g hg' u hu
            have : u ∈ ((groups.flatMap (·.2) : List Clu) : Multiset Clu) := List.mem_flatMap.mpr ⟨g, hg', hu⟩
            rw [hflat] at this
            rcases Multiset.mem_add.mp this with h | h
            · exact Or.inl (hmemdrop u h)
            · exact Or.inr h
          have hsl : ∀ u ∈ singles, u.ls.length = F := by
            intro u hu
            obtain ⟨id, r, hle, hr, rfl⟩ := hsing u hu
            have : r ∈ data := List.mem_of_getElem? hr
            simp [single, Clu.ofBuffer, rowToNat, hdata r this]
          obtain ⟨e', h1, _, hinv'⟩ := rebuild_linv pol hpol F e0.reset rfl rfl hinv0.bf L groups hne
            (fun g hg' u hu => by
              rcases hmem g hg' u hu with h | h
              · exact hinv0.lsLen u h
              · exact hsl u h)
            (by
              rw [hflat, idsOf_add, hids, ← idsOf_add, add_comm, Multiset.coe_add, List.take_append_drop,
                hsorted]
              exact hinv0.part)
          rw [h1]
          exact hinv'

/-- every operation turns the labels `L` into `stepLabels L` -/
theorem step_linv (hpol : ∀ cfg, (pol cfg).Valid) (F : Nat) (L : List Nat) (e : Est)
    (hinv : LInv F (L : Multiset Nat) e) (op : Op) (hop : op.WFL F) :
    LInv F (stepLabels pol L e op : List Nat) (stepWith pol e op).1 := by
  have hL : ((L ++ [] : List Nat) : Multiset Nat) = (L : Multiset Nat) := by simp
  cases op with
  | fit rows labels =>
    simp only [stepLabels, ← Multiset.coe_add]
    exact fit_linv pol hpol F L e hinv rows labels hop
  | refine n data im srt =>
    simp only [stepLabels, opLabels, hL]
    exact refine_linv pol hpol F L e hinv n data im srt hop
  | recluster it extra perms stop =>
    simp only [stepLabels, opLabels, hL]
    exact recluster_linv pol hpol F L e hinv it extra perms stop
  | setMerge c t th b =>
    simp only [stepLabels, opLabels, hL, stepWith, setMerge]
    split
    · exact hinv
    · apply cfg_linv F L e hinv
      simp only
      cases b with
      | none => simpa using hinv.bf
      | some b' => simpa using hop b' rfl
  | setThr t =>
    simp only [stepLabels, opLabels, hL]
    exact cfg_linv F L e hinv _ hinv.bf
  | setBf b =>
    simp only [stepLabels, opLabels, hL]
    exact cfg_linv F L e hinv _ hop
  | delInternal =>
    simp only [stepLabels, opLabels, hL]
    exact delInternal_linv F L e hinv
  | reset => exact reset_linv F e hinv.bf

theorem run_linv (hpol : ∀ cfg, (pol cfg).Valid) (F : Nat) : ∀ (ops : List Op) (L : List Nat) (e : Est),
    LInv F (L : Multiset Nat) e → (∀ op ∈ ops, op.WFL F) →
    LInv F (labelsAcc pol L e ops : List Nat) (runWith pol e ops)
  | [], _, _, hinv, _ => hinv
  | op :: ops, L, e, hinv, hwf => by
    simp only [runWith, List.foldl_cons, labelsAcc]
    exact run_linv hpol F ops _ _ (step_linv pol hpol F L e hinv op (hwf op (by simp)))
      (fun o ho => hwf o (List.mem_cons_of_mem _ ho))

/-- what the estimator reports, as a multiset of labels, under the invariant -/
theorem clusters_labels (F : Nat) (L : Multiset Nat) (e : Est) (hinv : LInv F L e) (sort : Bool) :
    (((e.clusters sort).flatten : List Nat) : Multiset Nat) = L := by
  have hl : ((if sort then e.st.sortedClus else e.st.leafClus : List Clu) : Multiset Clu) = e.st.lclusM := by
    cases sort
    · simpa using TreeSt.leafClus_coe e.st hinv.ok
    · simpa using sortedClus_coe e.st hinv.ok
  have hflat : ∀ l : List Clu, (((l.map (·.ids)).flatten : List Nat) : Multiset Nat) = idsOf (l : Multiset Clu) := by
    intro l
    induction l with
    | nil => rfl
    | cons a l ih =>
      rw [List.map_cons, List.flatten_cons, ← Multiset.coe_add, ih, ← Multiset.cons_coe, ← Multiset.singleton_add,
        idsOf_add, idsOf_singleton]
  unfold Est.clusters
  rw [hflat, hl, hinv.part]

/-! ### implicit labels: the accumulated labels are `0 .. numFitted-1`, in this order -/

theorem labelsAcc_range (hpol : ∀ cfg, (pol cfg).Valid) (F : Nat) : ∀ (ops : List Op) (e : Est),
    LInv F (List.range e.numFitted : List Nat) e → (∀ op ∈ ops, op.WFL F) →
    (∀ rows labels, Op.fit rows labels ∈ ops → labels = none) →
    labelsAcc pol (List.range e.numFitted) e ops = List.range (runWith pol e ops).numFitted
  | [], _, _, _, _ => rfl
  | op :: ops, e, hinv, hwf, hnone => by
    simp only [runWith, List.foldl_cons, labelsAcc]
    have hstep := step_linv pol hpol F _ e hinv op (hwf op (by simp))
    have hcnt := hstep.cnt
    have key : stepLabels pol (List.range e.numFitted) e op = List.range (stepWith pol e op).1.numFitted := by
      have hother : stepLabels pol (List.range e.numFitted) e op = List.range e.numFitted →
          stepLabels pol (List.range e.numFitted) e op = List.range (stepWith pol e op).1.numFitted := by
        intro h
        rw [h] at hcnt
        rw [h, hcnt]; simp
      cases op with
      | fit rows labels =>
        obtain rfl := hnone rows labels (by simp)
        simp only [stepLabels, opLabels] at hcnt ⊢
        simp only [Multiset.coe_card, List.length_append, List.length_range, List.length_range'] at hcnt
        have hle : e.numFitted ≤ (stepWith pol e (.fit rows none)).1.numFitted := by omega
        obtain ⟨k, hk⟩ := Nat.exists_eq_add_of_le hle
        rw [hk, Nat.add_sub_cancel_left, List.range_add, List.range'_eq_map_range]
      | reset => rfl
      | refine n data im srt => exact hother (by simp [stepLabels, opLabels])
      | recluster it extra perms stop => exact hother (by simp [stepLabels, opLabels])
      | setMerge c t th b => exact hother (by simp [stepLabels, opLabels])
      | setThr t => exact hother (by simp [stepLabels, opLabels])
      | setBf b => exact hother (by simp [stepLabels, opLabels])
      | delInternal => exact hother (by simp [stepLabels, opLabels])
    rw [key]
    apply labelsAcc_range hpol F ops _ _ (fun o ho => hwf o (List.mem_cons_of_mem _ ho))
      (fun r l h => hnone r l (List.mem_cons_of_mem _ h))
    rw [← key]; exact hstep

/-! ### unfolding `labelsOf` along a history -/

theorem runWith_append (e : Est) (ops ops' : List Op) :
    runWith pol e (ops ++ ops') = runWith pol (runWith pol e ops) ops' := by
  simp [runWith, List.foldl_append]

theorem labelsAcc_append : ∀ (ops ops' : List Op) (L : List Nat) (e : Est),
    labelsAcc pol L e (ops ++ ops') = labelsAcc pol (labelsAcc pol L e ops) (runWith pol e ops) ops'
  | [], _, _, _ => rfl
  | op :: ops, ops', L, e => by
    simp only [List.cons_append, labelsAcc, runWith, List.foldl_cons]
    exact labelsAcc_append ops ops' _ _

/-- one more operation at the end of a history -/
theorem labelsOf_snoc (e : Est) (ops : List Op) (op : Op) :
    labelsOf pol e (ops ++ [op]) = stepLabels pol (labelsOf pol e ops) (runWith pol e ops) op := by
  simp only [labelsOf, labelsAcc_append, labelsAcc]

/-- a history is the history since the last `reset` -/
theorem labelsOf_reset (e : Est) (ops ops' : List Op) :
    labelsOf pol e (ops ++ .reset :: ops') = labelsOf pol (init (runWith pol e ops).cfg) ops' := by
  simp only [labelsOf, labelsAcc_append, labelsAcc, stepLabels]
  rfl

end BB
