/-
Estimator core, part 2: merge closure.  Whatever the tree does with a batch of
sub-clusters, the resulting leaf clusters are obtained from (old leaf clusters + the
batch) by a sequence of *accepted pairwise merges*: nothing is dropped, duplicated or
taken apart.  All output-level properties (partition, exact summaries, threshold bound,
coarsening) are consequences of this one fact.
-/
import BBProofs.StateInv

namespace BB

/-- `N` arises from `M` by accepted pairwise merges -/
inductive MC (acc : Clu → Clu → Prop) : Multiset Clu → Multiset Clu → Prop
  | refl (M : Multiset Clu) : MC acc M M
  | step {M rest : Multiset Clu} {c s : Clu} :
      MC acc M (rest + {c} + {s}) → acc c s → MC acc M (rest + {c.merge s})

namespace MC
variable {acc : Clu → Clu → Prop}

theorem trans {A B C : Multiset Clu} (h1 : MC acc A B) (h2 : MC acc B C) : MC acc A C := by
  induction h2 with
  | refl => exact h1
  | step _ ha ih => exact MC.step ih ha

theorem frame {A B : Multiset Clu} (R : Multiset Clu) (h : MC acc A B) : MC acc (A + R) (B + R) := by
  induction h with
  | refl => exact MC.refl _
  | @step rest c s _ ha ih =>
    have e1 : rest + {c} + {s} + R = (rest + R) + {c} + {s} := by abel
    have e2 : rest + {c.merge s} + R = (rest + R) + {c.merge s} := by abel
    rw [e2]
    rw [e1] at ih
    exact MC.step ih ha

theorem mono {acc' : Clu → Clu → Prop} (hsub : ∀ c s, acc c s → acc' c s) {A B : Multiset Clu}
    (h : MC acc A B) : MC acc' A B := by
  induction h with
  | refl => exact MC.refl _
  | step _ ha ih => exact MC.step ih (hsub _ _ ha)

end MC

theorem MC.of_prov (P : Policy) {old new : Multiset Clu} {s : Clu} (h : ProvOf P old s new) :
    MC (fun c s => P.accept c s = true) (old + {s}) new := by
  rcases h with h | ⟨rest, c, h1, h2, h3⟩
  · rw [h]; exact MC.refl _
  · rw [h1, h3]
    exact MC.step (MC.refl _) h2

/-- all member labels of a multiset of clusters -/
def idsOf (M : Multiset Clu) : Multiset Nat := (M.map (fun c => (c.ids : Multiset Nat))).sum

@[simp] theorem idsOf_zero : idsOf 0 = 0 := by simp [idsOf]
@[simp] theorem idsOf_add (A B : Multiset Clu) : idsOf (A + B) = idsOf A + idsOf B := by simp [idsOf]
@[simp] theorem idsOf_singleton (c : Clu) : idsOf {c} = (c.ids : Multiset Nat) := by simp [idsOf]

theorem Clu.merge_ids (c s : Clu) : (c.merge s).ids = c.ids ++ s.ids := rfl
theorem Clu.update_ids (c s : Clu) : (c.update s).ids = c.ids ++ s.ids := rfl

/-- merges neither lose nor invent labels -/
theorem MC.ids {acc : Clu → Clu → Prop} {A B : Multiset Clu} (h : MC acc A B) : idsOf B = idsOf A := by
  induction h with
  | refl => rfl
  | step _ _ ih =>
    rw [← ih]
    simp only [idsOf_add, idsOf_singleton, Clu.merge_ids, ← Multiset.coe_add, add_assoc]

/-- a predicate closed under accepted merges holds for every resulting cluster -/
theorem MC.forall {acc : Clu → Clu → Prop} (Q : Clu → Prop)
    (hm : ∀ c s, Q c → Q s → acc c s → Q (c.merge s)) {A B : Multiset Clu} (h : MC acc A B)
    (hA : ∀ c ∈ A, Q c) : ∀ c ∈ B, Q c := by
  induction h with
  | refl => exact hA
  | @step rest c s _ ha ih =>
    intro x hx
    rcases Multiset.mem_add.mp hx with hx | hx
    · exact ih x (by simp [hx])
    · rw [Multiset.mem_singleton] at hx
      subst hx
      exact hm c s (ih c (by simp)) (ih s (by simp)) ha

/-- merges only coarsen: every starting cluster's members end up together in one cluster -/
theorem MC.coarsens {acc : Clu → Clu → Prop} {A B : Multiset Clu} (h : MC acc A B) :
    ∀ a ∈ A, ∃ b ∈ B, ∀ i ∈ a.ids, i ∈ b.ids := by
  induction h with
  | refl => intro a ha; exact ⟨a, ha, fun i hi => hi⟩
  | @step rest c s _ _ ih =>
    intro a ha
    obtain ⟨b, hb, hsub⟩ := ih a ha
    rcases Multiset.mem_add.mp hb with hb | hb
    · rcases Multiset.mem_add.mp hb with hb | hb
      · exact ⟨b, by simp [hb], hsub⟩
      · rw [Multiset.mem_singleton] at hb; subst hb
        exact ⟨b.merge s, by simp, fun i hi => by rw [Clu.merge_ids]; exact List.mem_append_left _ (hsub i hi)⟩
    · rw [Multiset.mem_singleton] at hb; subst hb
      exact ⟨c.merge b, by simp, fun i hi => by rw [Clu.merge_ids]; exact List.mem_append_right _ (hsub i hi)⟩

end BB
