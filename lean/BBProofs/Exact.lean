/-
Exactness of cluster summaries: a summary `(n, w, ls, ids, cent)` is *exact* for a data map
when its count, per-bit sums, centroid and counter width are the ones determined by the
fingerprints of its members.  Every operation of the tree (`ofRow`, `empty`, `merge`,
`update`, `trackOf`, `asUnit`, `explode`) preserves it, and in particular the wrap-around
arithmetic in the narrowest counter width `minSafe n` never wraps.
-/
import BBModel.Estimator
import BBProofs.Bits

namespace BB

/-! ### counter widths -/

theorem minSafe?_eq_some (n : Nat) (h : n < 2^64) : minSafe? n = some (minSafe n) := by
  unfold minSafe minSafe?
  split_ifs <;> rfl

theorem minSafe_eq_u8 (n : Nat) (h : n < 2^8) : minSafe n = .u8 := by
  unfold minSafe; rw [if_pos h]

theorem minSafe_eq_u16 (n : Nat) (h1 : 2^8 ≤ n) (h : n < 2^16) : minSafe n = .u16 := by
  unfold minSafe; rw [if_neg (by omega), if_pos h]

theorem minSafe_eq_u32 (n : Nat) (h1 : 2^16 ≤ n) (h : n < 2^32) : minSafe n = .u32 := by
  unfold minSafe; rw [if_neg (by omega), if_neg (by omega), if_pos h]

theorem minSafe_eq_u64 (n : Nat) (h1 : 2^32 ≤ n) (h : n < 2^64) : minSafe n = .u64 := by
  unfold minSafe
  rw [if_neg (by omega), if_neg (by omega), if_neg (by omega), if_pos h]

theorem minSafe_eq_big (n : Nat) (h : 2^64 ≤ n) : minSafe n = .big := by
  unfold minSafe
  rw [if_neg (by omega), if_neg (by omega), if_neg (by omega), if_neg (by omega)]

/-- the model's unbounded counter stands exactly for the `ValueError` range of `min_safe_uint` -/
theorem minSafe_ne_big_iff (n : Nat) : minSafe n ≠ .big ↔ n < 2^64 := by
  constructor
  · intro h
    by_contra hn
    exact h (minSafe_eq_big n (by omega))
  · intro h
    unfold minSafe
    split_ifs <;> simp

/-- the four ranges of `min_safe_uint` (below the bigint range) -/
theorem minSafe_eq_iff (n : Nat) (h : n < 2^64) :
    (minSafe n = .u8 ↔ n < 2^8) ∧
    (minSafe n = .u16 ↔ 2^8 ≤ n ∧ n < 2^16) ∧
    (minSafe n = .u32 ↔ 2^16 ≤ n ∧ n < 2^32) ∧
    (minSafe n = .u64 ↔ 2^32 ≤ n) := by
  by_cases h8 : n < 2^8
  · rw [minSafe_eq_u8 n h8]; simp; omega
  · by_cases h16 : n < 2^16
    · rw [minSafe_eq_u16 n (by omega) h16]; simp; omega
    · by_cases h32 : n < 2^32
      · rw [minSafe_eq_u32 n (by omega) h32]; simp; omega
      · rw [minSafe_eq_u64 n (by omega) h]; simp; omega

/-- the chosen width holds the value -/
theorem minSafe_bits_lt (n : Nat) (h : n < 2^64) : n < 2 ^ (minSafe n).bits := by
  by_cases h8 : n < 2^8
  · rw [minSafe_eq_u8 n h8]; exact h8
  · by_cases h16 : n < 2^16
    · rw [minSafe_eq_u16 n (by omega) h16]; exact h16
    · by_cases h32 : n < 2^32
      · rw [minSafe_eq_u32 n (by omega) h32]; exact h32
      · rw [minSafe_eq_u64 n (by omega) h]; exact h

/-- ... and it is the narrowest of the four NumPy widths that does -/
theorem minSafe_narrowest (n : Nat) (h : n < 2^64) (w : W) (hw : n < 2 ^ w.bits) :
    (minSafe n).bits ≤ w.bits := by
  by_cases h8 : n < 2^8
  · rw [minSafe_eq_u8 n h8]; cases w <;> simp [W.bits] at hw ⊢
  · by_cases h16 : n < 2^16
    · rw [minSafe_eq_u16 n (by omega) h16]
      cases w <;> simp [W.bits] at hw ⊢; omega
    · by_cases h32 : n < 2^32
      · rw [minSafe_eq_u32 n (by omega) h32]
        cases w <;> simp [W.bits] at hw ⊢ <;> omega
      · rw [minSafe_eq_u64 n (by omega) h]
        cases w <;> simp [W.bits] at hw ⊢ <;> omega

theorem minSafe_bits_mono {m n : Nat} (hmn : m ≤ n) (h : n < 2^64) :
    (minSafe m).bits ≤ (minSafe n).bits :=
  minSafe_narrowest m (by omega) (minSafe n) (lt_of_le_of_lt hmn (minSafe_bits_lt n h))

theorem wrap_big (x : Nat) : wrap .big x = x := rfl

theorem wrap_eq_mod (w : W) (hw : w ≠ .big) (x : Nat) : wrap w x = x % 2 ^ w.bits := by
  cases w <;> first | rfl | exact absurd rfl hw

theorem wrap_wrap (w : W) (x : Nat) : wrap w (wrap w x) = wrap w x := by
  cases w <;> simp [wrap]

/-- no wrap-around: a value bounded by the count survives the cast to `minSafe count`
(for counts ≥ 2^64 the model's counter is unbounded) -/
theorem wrap_of_le (n x : Nat) (hx : x ≤ n) : wrap (minSafe n) x = x := by
  by_cases h : n < 2^64
  · rw [wrap_eq_mod _ ((minSafe_ne_big_iff n).mpr h)]
    exact Nat.mod_eq_of_lt (lt_of_le_of_lt hx (minSafe_bits_lt n h))
  · rw [minSafe_eq_big n (by omega)]; rfl

theorem map_wrap_of_le (n : Nat) (l : List Nat) (hl : ∀ x ∈ l, x ≤ n) :
    l.map (wrap (minSafe n)) = l := by
  induction l with
  | nil => rfl
  | cons x l ih =>
    rw [List.map_cons, wrap_of_le n x (hl x (by simp)), ih (fun y hy => hl y (by simp [hy]))]

/-! ### the invariant -/

/-- `data` maps a label to the fingerprint fitted under it. A summary is exact for its members. -/
structure Exact (data : Nat → Row) (c : Clu) : Prop where
  n_eq : c.n = c.ids.length
  ls_eq : c.ls = colSum (c.ids.map data)
  cent_eq : c.cent = centroidFromSum c.ls c.n
  w_eq : c.w = minSafe c.n

theorem mem_colSum_le (rows : List Row) : ∀ x ∈ colSum rows, x ≤ rows.length := by
  intro x hx
  obtain ⟨i, hi, rfl⟩ := List.mem_iff_getElem.mp hx
  have := colSum_getD_le rows i
  simpa [List.getD_eq_getElem?_getD, List.getElem?_eq_getElem hi] using this

/-- each per-bit sum is at most the count -/
theorem exact_sum_le (data : Nat → Row) (c : Clu) (h : Exact data c) : ∀ x ∈ c.ls, x ≤ c.n := by
  intro x hx
  rw [h.ls_eq] at hx
  have := mem_colSum_le _ x hx
  rwa [List.length_map, ← h.n_eq] at this

theorem centroidFromSum_rowToNat_one (r : Row) : centroidFromSum (rowToNat r) 1 = r := by
  unfold centroidFromSum rowToNat
  rw [if_pos (le_refl 1), List.map_map]
  conv_rhs => rw [← List.map_id r]
  apply List.map_congr_left
  intro b _
  cases b <;> simp

theorem centroidFromSum_nil (n : Nat) : centroidFromSum [] n = [] := by
  unfold centroidFromSum; split <;> rfl

theorem exact_ofRow (data : Nat → Row) (r : Row) (label : Nat) (h : data label = r) :
    Exact data (Clu.ofRow r label) where
  n_eq := rfl
  ls_eq := by
    show rowToNat r = colSum ([label].map data)
    rw [List.map_singleton, colSum_singleton, h]
  cent_eq := (centroidFromSum_rowToNat_one r).symm
  w_eq := rfl

theorem exact_empty (data : Nat → Row) : Exact data Clu.empty where
  n_eq := rfl
  ls_eq := rfl
  cent_eq := (centroidFromSum_nil 0).symm
  w_eq := rfl

/-! ### merge and update: the wrapped sums are the unbounded sums -/

/-- the unbounded sum of two exact summaries is the column sum of the joint members, hence
bounded by the joint count -/
theorem exact_addLs (data : Nat → Row) (c s : Clu) (hc : Exact data c) (hs : Exact data s) :
    addLs c.ls s.ls = colSum ((c.ids ++ s.ids).map data) := by
  rw [List.map_append, colSum_append, ← hc.ls_eq, ← hs.ls_eq]

theorem exact_addLs_le (data : Nat → Row) (c s : Clu) (hc : Exact data c) (hs : Exact data s) :
    ∀ x ∈ addLs c.ls s.ls, x ≤ c.n + s.n := by
  intro x hx
  rw [exact_addLs data c s hc hs] at hx
  have := mem_colSum_le _ x hx
  rwa [List.length_map, List.length_append, ← hc.n_eq, ← hs.n_eq] at this

theorem mergedSummary_exact (data : Nat → Row) (c s : Clu) (hc : Exact data c) (hs : Exact data s) :
    (c.mergedSummary s).ls = addLs c.ls s.ls ∧ (c.mergedSummary s).n = c.n + s.n :=
  ⟨map_wrap_of_le _ _ (exact_addLs_le data c s hc hs), rfl⟩

theorem merge_ids (c s : Clu) : (c.merge s).ids = c.ids ++ s.ids := rfl

theorem merge_n (c s : Clu) : (c.merge s).n = c.n + s.n := rfl

theorem merge_w (c s : Clu) : (c.merge s).w = minSafe (c.n + s.n) := rfl

theorem merge_unbounded (data : Nat → Row) (c s : Clu) (hc : Exact data c) (hs : Exact data s) :
    (c.merge s).ls = addLs c.ls s.ls ∧ (c.merge s).n = c.n + s.n := by
  refine ⟨?_, rfl⟩
  show ((c.mergedSummary s).ls).map (wrap (minSafe (c.n + s.n))) = _
  rw [(mergedSummary_exact data c s hc hs).1]
  exact map_wrap_of_le _ _ (exact_addLs_le data c s hc hs)

theorem merge_cent (data : Nat → Row) (c s : Clu) (hc : Exact data c) (hs : Exact data s) :
    (c.merge s).cent = centroidFromSum (addLs c.ls s.ls) (c.n + s.n) := by
  show centroidFromSum (c.mergedSummary s).ls (c.n + s.n) = _
  rw [(mergedSummary_exact data c s hc hs).1]

theorem exact_merge (data : Nat → Row) (c s : Clu) (hc : Exact data c) (hs : Exact data s) : Exact data (c.merge s) where
  n_eq := by
    rw [merge_ids, merge_n, List.length_append, ← hc.n_eq, ← hs.n_eq]
  ls_eq := by
    rw [(merge_unbounded data c s hc hs).1, merge_ids, exact_addLs data c s hc hs]
  cent_eq := by
    rw [merge_cent data c s hc hs, (merge_unbounded data c s hc hs).1, merge_n]
  w_eq := rfl

theorem update_ids (c s : Clu) : (c.update s).ids = c.ids ++ s.ids := rfl

theorem update_n (c s : Clu) : (c.update s).n = c.n + s.n := rfl

theorem update_w (c s : Clu) : (c.update s).w = minSafe (c.n + s.n) := rfl

theorem update_unbounded (data : Nat → Row) (c s : Clu) (hc : Exact data c) (hs : Exact data s) :
    (c.update s).ls = addLs c.ls s.ls ∧ (c.update s).n = c.n + s.n :=
  ⟨map_wrap_of_le _ _ (exact_addLs_le data c s hc hs), rfl⟩

theorem exact_update (data : Nat → Row) (c s : Clu) (hc : Exact data c) (hs : Exact data s) : Exact data (c.update s) where
  n_eq := by
    rw [update_ids, update_n, List.length_append, ← hc.n_eq, ← hs.n_eq]
  ls_eq := by
    rw [(update_unbounded data c s hc hs).1, update_ids, exact_addLs data c s hc hs]
  cent_eq := rfl
  w_eq := rfl

/-- on exact summaries `update` and `merge` build the same entry -/
theorem update_eq_merge (data : Nat → Row) (c s : Clu) (hc : Exact data c) (hs : Exact data s) : c.update s = c.merge s := by
  have hu := exact_update data c s hc hs
  have hm := exact_merge data c s hc hs
  have e1 : (c.update s).ls = (c.merge s).ls := by
    rw [(update_unbounded data c s hc hs).1, (merge_unbounded data c s hc hs).1]
  have e2 : (c.update s).cent = (c.merge s).cent := by
    rw [hu.cent_eq, hm.cent_eq, e1]; rfl
  have : ∀ a b : Clu, a.n = b.n → a.w = b.w → a.ls = b.ls → a.ids = b.ids → a.cent = b.cent →
      a = b := by
    intro a b h1 h2 h3 h4 h5; cases a; cases b; simp_all
  exact this _ _ rfl rfl e1 rfl e2

/-! ### the tracking entry of a split -/

theorem exact_foldl_update (data : Nat → Row) (cs : List Clu) :
    ∀ (c0 : Clu), Exact data c0 → (∀ c ∈ cs, Exact data c) →
      Exact data (cs.foldl Clu.update c0) ∧
      (cs.foldl Clu.update c0).ids = c0.ids ++ (cs.map (·.ids)).flatten ∧
      (cs.foldl Clu.update c0).n = c0.n + (cs.map (·.n)).sum := by
  induction cs with
  | nil => intro c0 h0 _; simp [h0]
  | cons c cs ih =>
    intro c0 h0 h
    have hc : Exact data c := h c (by simp)
    have h1 : Exact data (c0.update c) := exact_update data c0 c h0 hc
    obtain ⟨a, b, d⟩ := ih (c0.update c) h1 (fun x hx => h x (by simp [hx]))
    refine ⟨a, ?_, ?_⟩
    · rw [List.foldl_cons, b, update_ids]; simp
    · rw [List.foldl_cons, d, update_n]; simp; omega

theorem exact_trackOf (data : Nat → Row) (cs : List Clu) (h : ∀ c ∈ cs, Exact data c) :
    Exact data (trackOf cs) ∧ (trackOf cs).ids = (cs.map (·.ids)).flatten ∧
      (trackOf cs).n = (cs.map (·.n)).sum := by
  have := exact_foldl_update data cs Clu.empty (exact_empty data) h
  unfold trackOf
  refine ⟨this.1, ?_, ?_⟩
  · rw [this.2.1]; rfl
  · rw [this.2.2]; show 0 + _ = _; omega

/-! ### re-wrapping as `_fit_buffers` units, and exploding into singletons -/

theorem asUnit_eq (data : Nat → Row) (c : Clu) (h : Exact data c) : c.asUnit = c := by
  unfold Clu.asUnit Clu.ofBuffer
  rw [← h.cent_eq]

theorem exact_asUnit (data : Nat → Row) (c : Clu) (h : Exact data c) : Exact data c.asUnit := by
  rw [asUnit_eq data c h]; exact h

theorem exact_ofBuffer_singleton (data : Nat → Row) (id : Nat) :
    Exact data (Clu.ofBuffer .u8 (rowToNat (data id)) 1 [id]) where
  n_eq := rfl
  ls_eq := by
    show rowToNat (data id) = colSum ([id].map data)
    rw [List.map_singleton, colSum_singleton]
  cent_eq := rfl
  w_eq := rfl

theorem exact_explode (data : Nat → Row) (rows : List Row) (im : Nat) (ids : List Nat)
    (us : List Clu) (hd : ∀ id ∈ ids, im ≤ id ∧ rows[id - im]? = some (data id))
    (h : explode rows im ids = some us) :
    (∀ u ∈ us, Exact data u) ∧ us.map (·.ids) = ids.map (fun i => [i]) := by
  unfold explode at h
  induction ids generalizing us with
  | nil =>
    simp at h; subst h; simp
  | cons id ids ih =>
    obtain ⟨h1, h2⟩ := hd id (by simp)
    rw [List.mapM_cons, if_neg (by omega), h2] at h
    simp only [Option.map_some, Option.bind_eq_bind, Option.bind_some] at h
    cases hrest : List.mapM (fun id =>
        if id < im then none
        else (rows[id - im]?).map (fun r => Clu.ofBuffer .u8 (rowToNat r) 1 [id])) ids with
    | none => rw [hrest] at h; simp at h
    | some us' =>
      rw [hrest] at h
      simp at h
      subst h
      obtain ⟨a, b⟩ := ih us' (fun x hx => hd x (by simp [hx])) hrest
      refine ⟨?_, ?_⟩
      · intro u hu
        rcases List.mem_cons.mp hu with rfl | hu
        · exact exact_ofBuffer_singleton data id
        · exact a u hu
      · rw [List.map_cons, List.map_cons, b]; rfl

theorem explode_isSome (data : Nat → Row) (rows : List Row) (im : Nat) (ids : List Nat)
    (hd : ∀ id ∈ ids, im ≤ id ∧ rows[id - im]? = some (data id)) :
    (explode rows im ids).isSome := by
  unfold explode
  induction ids with
  | nil => simp
  | cons id ids ih =>
    obtain ⟨h1, h2⟩ := hd id (by simp)
    have := ih (fun x hx => hd x (by simp [hx]))
    obtain ⟨us', hus⟩ := Option.isSome_iff_exists.mp this
    rw [List.mapM_cons, if_neg (by omega), h2, hus]
    simp

/-! ### the centroid of an exact summary is the majority vote of its members -/

theorem exact_centroid_majority (data : Nat → Row) (c : Clu) (h : Exact data c) (h2 : 2 ≤ c.n)
    (i : Nat) :
    c.cent.getD i false =
      decide (c.n ≤ 2 * ((c.ids.map data).filter (fun r => r.getD i false)).length) := by
  have hl : (c.ids.map data).length = c.n := by rw [List.length_map, h.n_eq]
  rw [h.cent_eq, h.ls_eq, ← hl]
  exact centroid_majority' (c.ids.map data) (by omega) i

end BB

