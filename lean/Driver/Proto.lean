/-
Line-protocol helpers: parsing and canonical printing.  One command per line in, one
answer per line out; floats cross the boundary as exact rationals `num/den`, rows as hex
of the packed bytes.
-/
import BBModel

namespace BB.Proto

def hexDigit (c : Char) : Option Nat :=
  if '0' ≤ c ∧ c ≤ '9' then some (c.toNat - '0'.toNat)
  else if 'a' ≤ c ∧ c ≤ 'f' then some (c.toNat - 'a'.toNat + 10)
  else none

def hexToBytes (s : String) : Option (List Nat) :=
  let rec go : List Char → Option (List Nat)
    | [] => some []
    | [_] => none
    | a :: b :: rest => do
      let x ← hexDigit a
      let y ← hexDigit b
      let r ← go rest
      pure ((16 * x + y) :: r)
  go s.toList

def hexChar (n : Nat) : Char := if n < 10 then Char.ofNat (48 + n) else Char.ofNat (87 + n)

def bytesToHex (bs : List Nat) : String :=
  String.ofList (bs.flatMap (fun b => [hexChar (b / 16), hexChar (b % 16)]))

def rowToHex (r : Row) : String := bytesToHex (pack r)

/-- `hex` or `hex:len` (explicit length for malformed rows) -/
def parseRow (F : Nat) (s : String) : Option Row :=
  match s.splitOn ":" with
  | [h] => (hexToBytes h).map (fun b => unpack b F)
  | [h, l] => do
    let b ← hexToBytes h
    let n ← l.toNat?
    pure (unpack b n)
  | _ => none

def splitList (sep : String) (s : String) : List String :=
  if s == "" || s == "-" then [] else s.splitOn sep

def parseRows (F : Nat) (s : String) : Option (List Row) := (splitList "," s).mapM (parseRow F)

def parseNats (sep : String) (s : String) : Option (List Nat) := (splitList sep s).mapM String.toNat?

def parseRat (s : String) : Option Rat :=
  match s.splitOn "/" with
  | [a] => a.toInt?.map (fun (i : Int) => (i : Rat))
  | [a, b] => do
    let n ← a.toInt?
    let d ← b.toNat?
    if d = 0 then none else pure (mkRat n d)
  | _ => none

def parseOptRat (s : String) : Option (Option Rat) :=
  if s == "-" then some none else (parseRat s).map some

def showRat (r : Rat) : String := s!"{r.num}/{r.den}"

def showOptRat : Option Rat → String
  | none => "nan"
  | some r => showRat r

def showNats (sep : String) (l : List Nat) : String := sep.intercalate (l.map toString)

/-- key=value arguments of a command line -/
def kv (args : List String) (k : String) : Option String :=
  args.findSome? (fun a =>
    match a.splitOn "=" with
    | key :: rest => if key == k then some ("=".intercalate rest) else none
    | _ => none)

def kvD (args : List String) (k : String) (d : String) : String := (kv args k).getD d

end BB.Proto
