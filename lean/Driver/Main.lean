/-
`bbdriver`: executes protocol commands on the model and prints canonical answers.
-/
import BBModel
import BBGen.Gen
import Driver.Proto
import Std.Data.HashMap

open BB BB.Proto

structure DState where
  expTab : Std.HashMap Nat Rat := {}
  off : Rat := 0
  est : Option Est := none
  /-- a missing exp-table entry was needed -/
  expMiss : Bool := false
  /-- `np.exp` as a table argument ↦ value, for the generated functions (command GENEXP) -/
  expF : List (Rat × Rat) := []

def DState.X (d : DState) : ExpTab :=
  { E := fun n => (d.expTab.get? n).getD (-1), off := d.off }

/-- `np.exp` for the generated code: table lookup, `-1` for a missing entry -/
def DState.expf (d : DState) (x : Rat) : Rat :=
  match d.expF.find? (fun p => p.1 == x) with
  | some p => p.2
  | none => -1

def wOfName : String → Option W
  | "u8" => some .u8 | "u16" => some .u16 | "u32" => some .u32 | "u64" => some .u64 | "big" => some .big | _ => none

def wTag : W → String
  | .u8 => "u8" | .u16 => "u16" | .u32 => "u32" | .u64 => "u64" | .big => "big"

/-- PV literals of the line protocol: `i:-3  b:1  f:3/4  f:nan  u:u64:7  a:u8:1,2,3  ba:1,0  s:radius  none  dt:u8  dt:object` -/
def parsePV0 (t : String) : Option PV :=
  match t.splitOn ":" with
  | ["none"] => some .pynone
  | ["i", v] => v.toInt?.map PV.int
  | ["b", v] => some (PV.bool (v == "1"))
  | ["f", "nan"] => some (PV.flt none)
  | ["f", v] => (parseRat v).map (fun r => PV.flt (some r))
  | ["u", w, v] => do pure (PV.uns (← wOfName w) (← v.toNat?))
  | ["a", w, v] => do pure (PV.arr (← wOfName w) (← parseNats "," v))
  | ["ba", v] => (parseNats "," v).map (fun l => PV.barr (l.map (· != 0)))
  | ["s", v] => some (PV.str (v.replace "\\n" "\n"))
  | ["dt", "object"] => some (PV.dtype none)
  | ["dt", w] => (wOfName w).map (fun x => PV.dtype (some x))
  | _ => none

/-- objects cross the protocol as `o|Class|attr|attr|attr` (attributes are never objects themselves) -/
def parsePV (t : String) : Option PV :=
  match t.splitOn "|" with
  | ["o", cls, a, b, c] => do pure (PV.obj cls (← parsePV0 a) (← parsePV0 b) (← parsePV0 c))
  | _ => parsePV0 t

def showPV : PV → String
  | .int i => s!"i:{i}"
  | .bool b => if b then "b:1" else "b:0"
  | .flt none => "f:nan"
  | .flt (some r) => s!"f:{showRat r}"
  | .uns w n => s!"u:{wTag w}:{n}"
  | .arr w xs => s!"a:{wTag w}:{if xs.isEmpty then "-" else showNats "," xs}"
  | .barr bs => s!"ba:{if bs.isEmpty then "-" else showNats "," (bs.map (fun b => if b then 1 else 0))}"
  | .str v => s!"s:{v.replace "\n" "\\n"}"
  | .dtype none => "dt:object"
  | .dtype (some w) => s!"dt:{wTag w}"
  | .pynone => "none"
  | .err e => s!"err:{e}"
  | .obj c x y z => s!"o|{c}|{showPV x}|{showPV y}|{showPV z}"

def showErr : Option Err → String
  | none => "ok"
  | some e => s!"err:{e.name}"

def showClu (c : Clu) : String :=
  s!"n={c.n} w={c.w.name} ls={showNats "." c.ls} ids={showNats "." c.ids} cent={rowToHex c.cent}"

def showCache (c : List Row) : String := ",".intercalate (c.map rowToHex)

def showTree : (h : Nat) → Tree h → String
  | 0, (l : LeafN) =>
    let ents := ";".intercalate (l.subs.map (fun c => s!"({showClu c})"))
    s!"(leaf cap={l.cap} ents=[{ents}] cache=[{showCache l.cache}])"
  | h+1, (t : InnerN (Tree h)) =>
    let ents := ";".intercalate (t.ents.map (fun e => s!"({showClu e.1} child={showTree h e.2})"))
    s!"(inner cap={t.cap} ents=[{ents}] cache=[{showCache t.cache}])"

/-- (leaf id, path from the root) for every leaf -/
def leafPaths : (h : Nat) → Tree h → List Nat → List (Nat × List Nat)
  | 0, (l : LeafN), path => [(l.id, path)]
  | h+1, (t : InnerN (Tree h)), path =>
    t.ents.zipIdx.flatMap (fun (e, i) => leafPaths h e.2 (path ++ [i]))

def showLeafOnly (l : LeafN) : String :=
  let ents := ";".intercalate (l.subs.map (fun c => s!"({showClu c})"))
  s!"(leaf cap={l.cap} ents=[{ents}] cache=[{showCache l.cache}])"

def showSt : TreeSt → String
  | .uninit => "uninit"
  | .full h F root chain _ =>
    let paths := leafPaths h root []
    let ch := chain.map (fun id =>
      match paths.find? (fun p => p.1 == id) with
      | some p => showNats "." p.2
      | none => "?")
    s!"full h={h} F={F} chain=[{"|".intercalate ch}] root={showTree h root}"
  | .leavesOnly _ ls => s!"leaves=[{";".intercalate (ls.map showLeafOnly)}]"

def showCfg (c : Cfg) : String :=
  s!"crit={c.merge.crit.name} tol={showOptRat c.merge.tolerance?} thr={showRat c.thr} bf={c.bf}"

def showOut (e : Est) : String :=
  let srt := e.st.sortedClus
  let uns := e.st.leafClus
  let ids (cs : List Clu) := ";".intercalate (cs.map (fun c => showNats "." c.ids))
  let metaS := ";".intercalate (srt.map (fun c => s!"{c.n}:{c.w.name}:{showNats "." c.ls}:{rowToHex c.cent}"))
  let asg := match assignments (srt.map (·.ids)) e.numFitted with
    | .ok a => showNats "." a
    | .error x => s!"err:{x.name}"
  s!"n={e.numFitted} init={e.st.isInit} sorted=[{ids srt}] unsorted=[{ids uns}] meta=[{metaS}] assign=[{asg}] {showCfg e.cfg}"

def parseCritArg (s : String) : Option (Option CritArg) :=
  if s == "-" then some none
  else match s.splitOn ":" with
    | ["obj", name, tol] => do
      let c ← Crit.ofName? name
      let t ← parseRat tol
      pure (some (.obj { crit := c, tol := t }))
    | [name] => some (some (.name name))
    | _ => none

def parsePerms (s : String) : Option (List (Option (List Nat))) :=
  (splitList ";" s).mapM (fun p => if p == "_" then some none else (parseNats "." p).map some)

def parseSummary (args : List String) (pre : String) : Option Summary := do
  let n ← (← kv args (pre ++ "n")).toNat?
  let ls ← parseNats "," (← kv args (pre ++ "ls"))
  pure ⟨ls, n⟩

def showRats (l : List Rat) : String := ",".intercalate (l.map showRat)

/-- apply an estimator operation -/
def doOp (d : DState) (op : Op) : DState × String :=
  match d.est with
  | none => (d, "err:no-estimator")
  | some e =>
    let (e', err) := step d.X e op
    ({ d with est := some e' }, showErr err)

def handle (d : DState) (line : String) : DState × String :=
  match (line.trimAscii.toString.splitOn " ").filter (· != "") with
  | [] => (d, "")
  | cmd :: args =>
    let bad := (d, "bad-op")
    match cmd with
    | "EXP" =>
      match (kv args "off").bind parseRat, (splitList "," (kvD args "tab" "-")).mapM (fun p =>
          match p.splitOn ":" with
          | [n, r] => do pure ((← n.toNat?), (← parseRat r))
          | _ => none) with
      | some off, some tab => ({ d with expTab := Std.HashMap.ofList tab, off := off }, "ok")
      | _, _ => bad
    | "NEW" =>
      match (kv args "thr").bind parseRat, (kv args "bf").bind String.toNat?,
            (kv args "crit").bind parseCritArg, (kv args "tol").bind parseOptRat with
      | some thr, some bf, some crit, some tol =>
        match construct thr bf crit tol with
        | .ok e => ({ d with est := some e }, "ok")
        | .error x => (d, s!"err:{x.name}")
      | _, _, _, _ => bad
    | "FIT" =>
      match (kv args "F").bind String.toNat? with
      | none => bad
      | some F =>
        match parseRows F (kvD args "rows" "-") with
        | none => bad
        | some rows =>
          let lab := kvD args "labels" "-"
          match (if lab == "-" then some none else (parseNats "," lab).map some) with
          | none => bad
          | some labels => doOp d (.fit rows labels)
    | "REFINE" =>
      match (kv args "F").bind String.toNat?, (kv args "n").bind String.toInt?,
            (kv args "im").bind String.toNat? with
      | some F, some n, some im =>
        match parseRows F (kvD args "rows" "-") with
        | none => bad
        | some rows => doOp d (.refine n rows im (kvD args "srt" "0" == "1"))
      | _, _, _ => bad
    | "RECLUSTER" =>
      match (kv args "it").bind String.toNat?, (kv args "extra").bind parseRat,
            parsePerms (kvD args "perms" "-"), kv args "stop" with
      | some it, some extra, some perms, some stop => doOp d (.recluster it extra perms (stop == "1"))
      | _, _, _, _ => bad
    | "SETMERGE" =>
      match (kv args "crit").bind parseCritArg, (kv args "tol").bind parseOptRat,
            (kv args "thr").bind parseOptRat, kv args "bf" with
      | some crit, some tol, some thr, some bf =>
        match (if bf == "-" then some none else bf.toNat?.map some) with
        | none => bad
        | some bf => doOp d (.setMerge crit tol thr bf)
      | _, _, _, _ => bad
    | "SETTHR" =>
      match (kv args "thr").bind parseRat with
      | some t => doOp d (.setThr t)
      | none => bad
    | "SETBF" =>
      match (kv args "bf").bind String.toNat? with
      | some b => doOp d (.setBf b)
      | none => bad
    | "DELINT" => doOp d .delInternal
    | "RESET" => doOp d .reset
    | "OUT" =>
      match d.est with
      | none => (d, "err:no-estimator")
      | some e => (d, showOut e)
    | "TREE" =>
      match d.est with
      | none => (d, "err:no-estimator")
      | some e => (d, showSt e.st)
    -- primitives ------------------------------------------------------------
    | "RND" =>
      match (kv args "x").bind parseRat with
      | some x => (d, showRat (rnd x))
      | none => bad
    | "FOP" =>
      match kv args "op", (kv args "a").bind parseRat, (kv args "b").bind parseRat with
      | some "add", some a, some b => (d, showRat (fadd a b))
      | some "sub", some a, some b => (d, showRat (fsub a b))
      | some "mul", some a, some b => (d, showRat (fmul a b))
      | some "div", some a, some b => if b == 0 then bad else (d, showRat (fdiv a b))
      | _, _, _ => bad
    | "ISIM" =>
      match (kv args "n").bind String.toNat?, (kv args "ks").bind (parseNats ",") with
      | some n, some ks => (d, showOptRat (isimFromSum ks n))
      | _, _ => bad
    | "RC" =>
      match (kv args "n").bind String.toNat?, (kv args "ks").bind (parseNats ",") with
      | some n, some ks => (d, showOptRat (radiusCompl ks n))
      | _, _ => bad
    | "CENT" =>
      match (kv args "n").bind String.toNat?, (kv args "ks").bind (parseNats ",") with
      | some n, some ks => (d, rowToHex (centroidFromSum ks n))
      | _, _ => bad
    | "JT" =>
      match (kv args "F").bind String.toNat? with
      | none => bad
      | some F =>
        match (kv args "a").bind (parseRow F), (kv args "b").bind (parseRow F) with
        | some a, some b => (d, s!"{showRat (jtBits a b)} {showRat (jtPacked (pack a) (pack b))}")
        | _, _ => bad
    | "ARRVEC" =>
      match (kv args "F").bind String.toNat? with
      | none => bad
      | some F =>
        match parseRows F (kvD args "rows" "-"), (kv args "y").bind (parseRow F) with
        | some rows, some y => (d, showRats (jtArrVec rows y))
        | _, _ => bad
    | "PACK" =>
      -- bits=0110... → hex of packbits, and the unpack of it again
      match kv args "bits" with
      | some bs =>
        let r : Row := bs.toList.map (· == '1')
        let p := pack r
        let u := unpack p r.length
        (d, s!"{bytesToHex p} {String.ofList (u.map (fun b => if b then '1' else '0'))} {popBytes p} {popc r}")
      | none => bad
    | "POPW" =>
      match (kv args "bytes").bind hexToBytes with
      | some b => (d, s!"{popBytes b} {popWords b}")
      | none => bad
    | "ISIMROWS" =>
      match (kv args "F").bind String.toNat? with
      | none => bad
      | some F =>
        match parseRows F (kvD args "rows" "-") with
        | some rows =>
          let ls := colSum rows
          let n := rows.length
          (d, s!"{showOptRat (isimRows rows)} {showOptRat (diameterFromSum ls n)} {showOptRat (radiusFromSum ls n)} {showOptRat (radiusCompl ls n)} {rowToHex (centroidFromSum ls n)}")
        | none => bad
    | "COMPL" =>
      match (kv args "F").bind String.toNat? with
      | none => bad
      | some F =>
        match parseRows F (kvD args "rows" "-") with
        | some rows => (d, s!"{",".intercalate ((complIsim rows).map showOptRat)} {medoidIdx rows}")
        | none => bad
    | "DISSIM" =>
      match (kv args "F").bind String.toNat? with
      | none => bad
      | some F =>
        match parseRows F (kvD args "rows" "-") with
        | some rows =>
          let (i1, i2, s1, s2) := mostDissimilar rows
          (d, s!"{i1} {i2} {showRats s1} {showRats s2}")
        | none => bad
    | "GENEXP" =>
      -- GENEXP tab=x1num/x1den=y1num/y1den;...   (np.exp on the arguments the real call used)
      match (splitList ";" (kvD args "tab" "-")).mapM (fun p =>
          match p.splitOn "=" with
          | [x, y] => do pure ((← parseRat x), (← parseRat y))
          | _ => none) with
      | some tab => ({ d with expF := tab }, "ok")
      | none => bad
    | "GEN" =>
      -- GEN <function> <PV> <PV> ...  -> the generated function of that name on those values
      match args with
      | fn :: rest =>
        match rest.mapM parsePV with
        | some vs =>
          match BBGen.dispatch d.expf fn vs with
          | some out => (d, " ".intercalate (out.map showPV))
          | none => (d, "err:no-such-generated-function")
        | none => bad
      | [] => bad
    | "ACCEPT" =>
      match (kv args "crit").bind Crit.ofName?, (kv args "tol").bind parseRat, (kv args "thr").bind parseRat,
            parseSummary args "old", parseSummary args "nom" with
      | some c, some tol, some thr, some old, some nom =>
        let m : MergeFn := { crit := c, tol := tol }
        let oc : Clu := { n := old.n, w := minSafe old.n, ls := old.ls, ids := [], cent := [] }
        let nc : Clu := { n := nom.n, w := minSafe nom.n, ls := nom.ls, ids := [], cent := [] }
        let new := oc.mergedSummary nc
        let a := accept m d.X thr new old nom
        (d, s!"{a} stat={showOptRat (stat c new)} slack={showRat (slack d.X tol old.n)}")
      | _, _, _, _, _ => bad
    | "MON" =>
      -- MON proto=rename|truncate samples=3,5 sched=TTFFT  -> terminal states of the completed readers
      match kv args "proto", (kv args "samples").bind (parseNats ","), kv args "sched" with
      | some proto, some samples, some sched =>
        let p : BB.Mon.Proto := if proto == "truncate" then .truncate else .rename
        let sc := sched.toList.filterMap (fun c => if c == 'T' then some true else if c == 'F' then some false else none)
        let out := BB.Mon.run p samples sc
        let showR : BB.Mon.RState → String
          | .done none => "none"
          | .done (some v) => toString v
          | .error => "error"
          | .wrong => "wrong"
          | _ => "?"
        let fin := match BB.Mon.finalValue (BB.Mon.runFS p samples sc) with
          | none => "absent"
          | some (.full v) => toString v
          | some .empty => "empty"
          | some .part => "part"
        (d, s!"{",".intercalate (out.map showR)} final={fin}")
      | _, _, _ => bad
    | "MR" =>
      -- multi-round workflow on a fresh directory
      match (kv args "F").bind String.toNat?, (kv args "bf").bind String.toNat?, (kv args "thr").bind parseRat,
            (kv args "chg").bind parseRat, (kv args "tol").bind parseRat, (kv args "bin").bind String.toNat?,
            (kv args "mids").bind String.toNat? with
      | some F, some bf, some thr, some chg, some tol, some bin, some mids =>
        let files? := (splitList "|" (kvD args "files" "-")).mapM (fun f => parseRows F f)
        let mode : BB.MR.RefineMode := match kvD args "mode" "none" with
          | "split" => .split | "full" => .full | _ => .none
        let sched : Nat → List Nat → List Nat := fun r idxs =>
          let entries := (splitList ";" (kvD args "sched" "-")).filterMap (fun e =>
            match e.splitOn ":" with
            | [rr, p] => match rr.toNat?, parseNats "." p with
              | some rr, some p => some (rr, p)
              | _, _ => none
            | _ => none)
          match entries.find? (fun e => e.1 == r) with
          | some e => if e.2.isPerm idxs then e.2 else idxs
          | none => idxs
        match files? with
        | none => bad
        | some files =>
          let c : BB.MR.Cfg := { bf := bf, thr := thr, thrChange := chg, tol := tol, initCrit := kvD args "init" "diameter", midCrit := kvD args "mid" "diameter", finalCrit := kvD args "final" "diameter", mode := mode, splitAfterMid := kvD args "split" "0" == "1", binSize := bin, nMidRounds := mids, saveCentroids := kvD args "cent" "1" == "1", cleanup := kvD args "cleanup" "1" == "1" }
          match BB.MR.multiround (refPolicy d.X) c files sched [] with
          | .error x => (d, s!"err:{x.name}")
          | .ok fs =>
            let showC : BB.MR.Content → String
              | .bufs w rows => s!"bufs:{w.name}:" ++ ",".intercalate (rows.map (fun r => showNats "." r.1 ++ "#" ++ toString r.2))
              | .idxs ids => "idxs:" ++ ",".intercalate (ids.map (showNats "."))
              | .clusters cs => "clusters:" ++ ";".intercalate (cs.map (showNats "."))
              | .centroids cs => "centroids:" ++ ",".intercalate (cs.map rowToHex)
              | .other t => s!"other:{t}"
            (d, "ok " ++ " ".intercalate (fs.map (fun f => s!"{f.1}={showC f.2}")))
      | _, _, _, _, _, _, _ => bad
    | "PAGES" =>
      match (kv args "base").bind String.toNat?, (kv args "offset").bind String.toNat?, (kv args "ncols").bind String.toNat?,
            (kv args "itemsize").bind String.toNat?, (kv args "P").bind String.toNat?, (kv args "nrows").bind String.toNat? with
      | some base, some offset, some ncols, some itemsize, some P, some nrows =>
        let p : BB.Pages.Params := { base := base, offset := offset, ncols := ncols, itemsize := itemsize, P := P, nrows := nrows }
        let rs := BB.Pages.releases p
        (d, s!"can={p.canRelease} " ++ ",".intercalate (rs.map (fun r => toString r.addr ++ ":" ++ toString r.len ++ ":" ++ toString r.afterRow)))
      | _, _, _, _, _, _ => bad
    | "SK" =>
      -- labels / centres of the current estimator, predictions and distances for query rows
      match d.est, (kv args "F").bind String.toNat? with
      | some e, some F =>
        match parseRows F (kvD args "rows" "-") with
        | none => bad
        | some X =>
          let centers := skCenters e
          let lab := match skLabels e with
            | .ok a => showNats "." a
            | .error x => "err:" ++ x.name
          let pred := showNats "." (skPredict centers X)
          let tr := ";".intercalate ((skTransform centers X).map showRats)
          (d, "labels=[" ++ lab ++ "] centers=[" ++ ",".intercalate (centers.map rowToHex) ++ "] predict=[" ++ pred ++ "] transform=[" ++ tr ++ "]")
      | _, _ => bad
    | "CXX" =>
      -- the transcription of csrc/similarity.cpp (BBModel/Kernels.lean) on raw packed bytes
      let flag (k : String) : Bool := kvD args k "0" == "1"
      let rows? : Option (List (List Nat)) := (splitList "," (kvD args "rows" "-")).mapM hexToBytes
      let nf? : Option (Option Nat) :=
        let s := kvD args "nf" "-"
        if s == "-" then some none else s.toNat?.map some
      let showFault : BB.Cxx.Fault → String
        | .throws => "err"
        | .oob => "undef"
      match kv args "op" with
      | some "popcount" =>
        match rows? with
        | some rows => (d, showNats " " (BB.Cxx.popcount2d (flag "aligned") rows))
        | none => bad
      | some "unpack" =>
        match rows?, nf? with
        | some rows, some nf =>
          match BB.Cxx.unpack2d rows nf with
          | .ok out => (d, ",".intercalate (out.map bytesToHex))
          | .error f => (d, showFault f)
        | _, _ => bad
      | some "centroid" =>
        match (kv args "n").bind String.toInt?, (kv args "ks").bind (parseNats ",") with
        | some n, some ks =>
          match BB.Cxx.centroidFromSum ks n (flag "pack") with
          | .ok out => (d, bytesToHex out)
          | .error f => (d, showFault f)
        | _, _ => bad
      | some "isim" =>
        match (kv args "n").bind String.toInt?, (kv args "ks").bind (parseNats ",") with
        | some n, some ks => (d, showOptRat (BB.Cxx.isimFromSum ks n))
        | _, _ => bad
      | some "arrvec" =>
        match rows?, (kv args "y").bind hexToBytes with
        | some rows, some y =>
          match BB.Cxx.arrVec (flag "aligned") rows y with
          | .ok out => (d, showRats out)
          | .error f => (d, showFault f)
        | _, _ => bad
      | some "dissim" =>
        match rows?, nf? with
        | some rows, some nf =>
          match BB.Cxx.mostDissimilar (flag "aligned") rows nf with
          | .ok (i1, i2, s1, s2) => (d, s!"{i1} {i2} {showRats s1} {showRats s2}")
          | .error f => (d, showFault f)
        | _, _ => bad
      | _ => bad
    | "ANALYSIS" =>
      -- ANALYSIS F=8 top=2|- min=0 fps=hex,hex clusters=0.1.2;3.4
      let top? : Option (Option Nat) :=
        match kvD args "top" "-" with
        | "-" => some none
        | t => t.toNat?.map some
      match (kv args "F").bind String.toNat?, top?, (kvD args "min" "0").toNat?,
            (splitList ";" (kvD args "clusters" "-")).mapM (parseNats ".") with
      | some F, some top, some m, some clusters =>
        match parseRows F (kvD args "fps" "-") with
        | some fps =>
          let a := BB.Metrics.clusterAnalysis clusters fps top m
          (d, s!"sizes={showNats "," a.sizes} isims={",".intercalate (a.isims.map showOptRat)} total={a.total} clusters={a.numClusters} singletons={a.singletons}")
        | none => bad
      | _, _, _, _ => bad
    | "INDICES" =>
      -- INDICES F=8 clusters=hex,hex|hex|hex,hex,hex
      match (kv args "F").bind String.toNat? with
      | none => bad
      | some F =>
        match (splitList "|" (kvD args "clusters" "-")).mapM (parseRows F) with
        | some cl =>
          (d, s!"chi={showRat (BB.Metrics.chi cl)} dbi={showRat (BB.Metrics.dbi cl)} dunn={showOptRat (BB.Metrics.dunn cl)}")
        | none => bad
    | "NUMABOVE" =>
      match (kv args "k").bind String.toNat?,
            (splitList ";" (kvD args "clusters" "-")).mapM (parseNats ".") with
      | some k, some clusters => (d, s!"{BB.Metrics.numAbove clusters k}")
      | _, _ => bad
    | "FILESEQ" =>
      -- FILESEQ F=8 files=01,02|03| idxs=0,2  (files separated by `|`, empty segment = empty file,
      -- `files=-` = no file at all)  ->  ok <hexrow,...> | err:ValueError
      match (kv args "F").bind String.toNat? with
      | none => bad
      | some F =>
        let fstr := kvD args "files" "-"
        let files? : Option (List (List Row)) :=
          if fstr == "-" then some [] else (fstr.splitOn "|").mapM (fun f => parseRows F f)
        match files?, parseNats "," (kvD args "idxs" "-") with
        | some files, some idxs =>
          match BB.Files.fileSeqIndex files idxs with
          | .ok rows => (d, if rows.isEmpty then "ok" else "ok " ++ ",".intercalate (rows.map rowToHex))
          | .error x => (d, s!"err:{x.name}")
        | _, _ => bad
    | "BATCHED" =>
      -- BATCHED n=3 len=7  ->  3,3,1 0-3,3-6,6-7   (`- -` when there is no batch)
      match (kv args "n").bind String.toNat?, (kv args "len").bind String.toNat? with
      | some n, some len =>
        let rb := BB.Files.rangeBatches n (List.range len)
        if rb.isEmpty then (d, "- -")
        else
          (d, showNats "," (rb.map (fun r => r.2.length)) ++ " " ++
            ",".intercalate (rb.map (fun r => s!"{r.1.1}-{r.1.2}")))
      | _, _ => bad
    | "SPLITMERGE" =>
      -- SPLITMERGE n=25 per=2 digits=2  ->  x.00.npy,x.01.npy,... true
      -- (rows are their indices; the flag: merging the parts in sorted-name order restores 0..n-1)
      match (kv args "n").bind String.toNat?, (kv args "per").bind String.toNat?,
            (kv args "digits").bind String.toNat? with
      | some n, some per, some digits =>
        let rows := List.range n
        let parts := BB.Files.splitFile rows per digits "x"
        let names := if parts.isEmpty then "-" else ",".intercalate (parts.map (·.1))
        (d, s!"{names} {BB.Files.mergeFiles parts == rows}")
      | _, _, _ => bad
    | "PARTS" =>
      -- PARTS per=2 digits=1 valid=01101 name=fps  ->  fps.0=1,fps.1=2,fps.2= invalid=0,3 single=1.2 merged=1.2
      -- SMILES i is the string `i`, valid iff bit i is 1; its fingerprint is shown as `i`
      match (kv args "per").bind String.toNat?, kv args "valid" with
      | some per, some valid =>
        let dstr := kvD args "digits" "-"
        let digits? : Option (Option Nat) := if dstr == "-" then some none else dstr.toNat?.map some
        match digits? with
        | none => bad
        | some digits =>
          let bits := valid.toList.map (· == '1')
          let smiles := (List.range bits.length).map toString
          let fp : String → Option Row := fun s =>
            match s.toNat? with
            | some i => if bits.getD i false then some (List.replicate (i + 1) true) else none
            | none => none
          let showRows (rs : List Row) : String := showNats "." (rs.map (fun r => r.length - 1))
          let parts := BB.Files.partFiles fp smiles per digits (kvD args "name" "fps")
          let single := BB.Files.singleFile fp smiles per
          let ps := if parts.isEmpty then "-" else ",".intercalate (parts.map (fun f => s!"{f.1}={showRows f.2}"))
          (d, s!"{ps} invalid={showNats "," single.2} single={showRows single.1} merged={showRows (BB.Files.mergeFiles parts)}")
      | _, _ => bad
    | "CLIPLAN" =>
      -- the API history of `bb run` for the given options and file lengths (rows are dummies)
      match (kv args "bf").bind String.toNat?, (kv args "thr").bind parseRat, (kv args "chg").bind parseRat,
            (kv args "tol").bind parseRat, (kv args "rnum").bind String.toNat?, (kv args "crounds").bind String.toNat?,
            (kv args "lens").bind (parseNats ",") with
      | some bf, some thr, some chg, some tol, some rnum, some crounds, some lens =>
        let rr := kvD args "rrounds" "-"
        match (if rr == "-" then some none else rr.toNat?.map some) with
        | none => bad
        | some rrounds =>
          let o : BB.Cli.RunOpts := { bf := bf, thr := thr, chg := chg, tol := tol, crit := kvD args "crit" "diameter", refineCrit := kvD args "rcrit" "tolerance-diameter", refineNum := rnum, refineRounds := rrounds, reclusterRounds := crounds, saveCentroids := kvD args "cent" "1" == "1", saveTree := kvD args "tree" "0" == "1", overwrite := kvD args "overwrite" "0" == "1" }
          (d, BB.Cli.showPlan (BB.Cli.runPlan o (lens.map (fun n => List.replicate n [])) []))
      | _, _, _, _, _, _, _ => bad
    | "MINSAFE" =>
      match (kv args "n").bind String.toNat? with
      | some n => (d, match minSafe? n with | some w => w.name | none => "err:ValueError")
      | none => bad
    | _ => bad

partial def loop (h : IO.FS.Stream) (out : IO.FS.Stream) (d : DState) : IO Unit := do
  let line ← h.getLine
  if line.isEmpty then return ()
  let (d', ans) := handle d line
  out.putStrLn ans
  out.flush
  loop h out d'

def main : IO Unit := do
  loop (← IO.getStdin) (← IO.getStdout) {}
