/-
C19 — cluster analysis (`bblean/analysis.py`) and clustering-quality indices
(`bblean/metrics.py`).

`cluster_analysis` reports on the longest prefix of the cluster list that has at most `top`
clusters, all of size ≥ `min_size`; sizes, iSIMs and the global counts are what they should
be, do not depend on the order of the ids inside a cluster, on how the fingerprints are
stored (array / file / sequence of files, packed / unpacked).  The CHI, DBI and Dunn indices
(exact combination of the float-valued similarities) do not depend on the order of the rows
inside the clusters; CHI and DBI do not depend on the order of the clusters; Dunn does not
either when no cluster is a singleton, and DOES when one is (NaN handling of `max`).
-/
import BBProofs.Metrics

namespace BB

open BB.Metrics

/-! ### `cluster_analysis` -/

/-- **C19 (selection)**: the reported clusters are a prefix of the cluster list, at most `top`
of them, all of size ≥ `min_size`, and every prefix with these two properties is a prefix of
the reported one: it is the longest such prefix. -/
theorem C19_analysis_select (clusters : List (List Nat)) (top : Option Nat) (m : Nat) :
    selectClusters clusters top m <+: clusters ∧
    (∀ t, top = some t → (selectClusters clusters top m).length ≤ t) ∧
    (∀ c ∈ selectClusters clusters top m, m ≤ c.length) ∧
    ∀ n, (∀ t, top = some t → n ≤ t) → (∀ c ∈ clusters.take n, m ≤ c.length) →
      clusters.take n <+: selectClusters clusters top m := by
  rw [selectClusters_eq]
  refine ⟨(List.takeWhile_prefix _).trans (List.take_prefix _ _), ?_, ?_, ?_⟩
  · intro t ht
    subst ht
    refine le_trans (List.takeWhile_prefix _).length_le ?_
    simp only [topBound, Option.getD_some, List.length_take]
    omega
  · intro c hc
    simpa using mem_takeWhile_imp' _ _ c hc
  · intro n hn hall
    have hle : List.take n clusters = List.take n (List.take (topBound top clusters) clusters) := by
      rw [List.take_take]
      cases top with
      | none =>
        simp only [topBound, Option.getD_none]
        by_cases h : n ≤ clusters.length
        · rw [Nat.min_eq_left h]
        · rw [Nat.min_eq_right (by omega), List.take_of_length_le (by omega),
            List.take_of_length_le (le_refl _)]
      | some t =>
        simp only [topBound, Option.getD_some]
        rw [Nat.min_eq_left (hn t rfl)]
    rw [hle]
    apply take_prefix_takeWhile
    intro x hx
    rw [← hle] at hx
    simpa using hall x hx

/-- **C19 (analysis)**: sizes, iSIMs (computed from the members' fingerprints, whatever the
order `ids` in which the members of the cluster are listed — Python uses `sorted(c)`), total
number of fingerprints, number of clusters, singletons, clusters above a size. -/
theorem C19_analysis (clusters : List (List Nat)) (fps : List Row) (top : Option Nat) (m : Nat) :
    let A := clusterAnalysis clusters fps top m
    let sel := selectClusters clusters top m
    A.sizes = sel.map List.length ∧
    A.isims.length = sel.length ∧
    (∀ (i : Nat) (hi : i < sel.length) (ids : List Nat), ids.Perm sel[i] →
      A.isims[i]? =
        some (isimFromSum (colSum (ids.map (fun j => fps.getD j []))) sel[i].length)) ∧
    A.total = clusters.flatten.length ∧
    A.numClusters = clusters.length ∧
    A.singletons = (clusters.filter (fun c => c.length = 1)).length ∧
    ∀ k, numAbove clusters k = (clusters.filter (fun c => k < c.length)).length := by
  intro A sel
  refine ⟨rfl, by simp [A, sel, clusterAnalysis, clusterAnalysisP], ?_, ?_, by
    simp [A, clusterAnalysis, clusterAnalysisP], ?_, ?_⟩
  · intro i hi ids hp
    simp only [A, clusterAnalysis, clusterAnalysisP]
    rw [List.getElem?_map, List.getElem?_eq_getElem hi]
    simp only [Option.map_some, isimRows]
    rw [colSum_fetch _ _ ids hp, length_fetch]
    rfl
  · simp only [A, clusterAnalysis, clusterAnalysisP]
    rw [foldl_add_nat, List.length_flatten]; simp
  · simp only [A, clusterAnalysis, clusterAnalysisP]
    rw [countIf_eq, List.countP_map, List.countP_eq_length_filter]
    congr 1
  · intro k
    unfold numAbove
    rw [countIf_eq, List.countP_map, List.countP_eq_length_filter]
    rfl

/-- **C19 (provider)**: the analysis depends on the fingerprints only through the rows of the
selected clusters' members (`fps_provider[i]`) … -/
theorem C19_provider (clusters : List (List Nat)) (get get' : Nat → Row) (top : Option Nat)
    (m : Nat) (h : ∀ c ∈ selectClusters clusters top m, ∀ i ∈ c, get i = get' i) :
    clusterAnalysisP clusters get top m = clusterAnalysisP clusters get' top m := by
  unfold clusterAnalysisP
  simp only [Analysis.mk.injEq, true_and, and_true]
  apply List.map_congr_left
  intro c hc
  unfold fetch
  congr 1
  apply List.map_congr_left
  intro i hi
  exact h c hc i ((sortIds_perm c).mem_iff.mp hi)

/-- … so an array and a sequence of files with the same concatenation give the same analysis
(indexing a file sequence is indexing the concatenation of its files) … -/
theorem C19_provider_files (clusters : List (List Nat)) (files : List (List Row)) (fps : List Row)
    (top : Option Nat) (m : Nat) (h : files.flatten = fps) :
    clusterAnalysis clusters files.flatten top m = clusterAnalysis clusters fps top m := by
  rw [h]

/-- … also when the files hold packed fingerprints: unpacking file by file or unpacking the
concatenation is the same. -/
theorem C19_provider_files_packed (clusters : List (List Nat)) (files : List (List (List Nat)))
    (pfps : List (List Nat)) (F : Nat) (top : Option Nat) (m : Nat) (h : files.flatten = pfps) :
    clusterAnalysis clusters (files.map (fun f => f.map (fun b => unpack b F))).flatten top m
      = clusterAnalysisPacked clusters pfps F top m := by
  unfold clusterAnalysisPacked
  rw [← h, List.map_flatten]

/-! ### packed input -/

/-- **C19 (packed)**: packing the fingerprints and analysing with `input_is_packed=True,
n_features=F` gives the same analysis as the unpacked fingerprints, for every `F` (multiple
of 8 or not) -/
theorem C19_packed (clusters : List (List Nat)) (fps : List Row) (F : Nat) (top : Option Nat)
    (m : Nat) (hF : ∀ r ∈ fps, r.length = F) :
    clusterAnalysisPacked clusters (fps.map pack) F top m = clusterAnalysis clusters fps top m := by
  unfold clusterAnalysisPacked
  congr 1
  rw [List.map_map]
  conv_rhs => rw [← List.map_id fps]
  apply List.map_congr_left
  intro r hr
  simp only [Function.comp, id]
  rw [← hF r hr, unpack_pack]

/-- the same for the three indices (Dunn on packed input computes the clusters' iSIMs on all
`8 * bytes` bits, ignoring `n_features`: the zero padding does not change them) -/
theorem C19_packed_indices (clusters : List (List Row)) (F : Nat)
    (hF : ∀ c ∈ clusters, ∀ r ∈ c, r.length = F) :
    chiPacked F (clusters.map (fun c => c.map pack)) = chi clusters ∧
    dbiPacked F (clusters.map (fun c => c.map pack)) = dbi clusters ∧
    dunnPacked F (clusters.map (fun c => c.map pack)) = dunn clusters := by
  unfold chiPacked dbiPacked dunnPacked dunn
  rw [unpackClusters_pack F clusters hF, List.map_map]
  refine ⟨rfl, rfl, ?_⟩
  congr 1
  apply List.map_congr_left
  intro c _
  exact isimRows_unpack_full c

/-- Python evaluates the similarities of CHI and DBI on *packed* rows and *packed* centroids;
for non-empty clusters of rows of one length these are the similarities of the model -/
theorem C19_packed_jt (c c' : List Row) (F : Nat) (hF : ∀ r ∈ c, r.length = F)
    (hF' : ∀ r ∈ c', r.length = F) (hne : c ≠ []) (hne' : c' ≠ []) :
    (∀ r ∈ c, jtPacked (pack r) (pack (centroidOf c)) = jtBits r (centroidOf c)) ∧
    jtPacked (pack (centroidOf c)) (pack (centroidOf c'))
      = jtBits (centroidOf c) (centroidOf c') :=
  jtPacked_centroid c c' F hF hF' hne hne'

/-! ### order of the rows, order of the clusters -/

/-- **C19 (rows)**: permuting the rows inside the clusters changes none of the indices -/
theorem C19_perm_rows (clusters clusters' : List (List Row))
    (h : List.Forall₂ List.Perm clusters clusters') :
    chi clusters = chi clusters' ∧ dbi clusters = dbi clusters' ∧
      dunn clusters = dunn clusters' :=
  ⟨chi_perm_rows h, dbi_perm_rows h, dunn_perm_rows h⟩

/-- **C19 (clusters)**: permuting the clusters changes neither CHI nor DBI, and not the Dunn
index either provided every cluster has at least two members -/
theorem C19_perm_clusters (clusters clusters' : List (List Row)) (h : clusters.Perm clusters') :
    chi clusters = chi clusters' ∧ dbi clusters = dbi clusters' ∧
      ((∀ c ∈ clusters, 2 ≤ c.length) → dunn clusters = dunn clusters') :=
  ⟨chi_perm_clusters h, dbi_perm_clusters h, dunn_perm_clusters h⟩

/-- **C19 (Dunn, NaN)**: with a singleton cluster the Dunn index depends on the order of the
clusters: `D = [nan, 0.5]` has `max(D) = nan` and the index is NaN, `D = [0.5, nan]` has
`max(D) = 0.5` and the index is `0.8` (the float nearest to it).  The other two indices agree
on the two orders. -/
theorem C19_dunn_nan_witness :
    let A : List (List Row) := [[[true, false]], [[true, true], [true, false]]]
    let B : List (List Row) := [[[true, true], [true, false]], [[true, false]]]
    A.Perm B ∧ dunn A = none ∧ dunn B = some (3602879701896397 / 4503599627370496) := by
  intro A B
  refine ⟨List.Perm.swap _ _ _, ?_, ?_⟩ <;> decide +kernel

/-- in general: a cluster with fewer than two members in FIRST position makes the Dunn index
NaN, whatever the other clusters are -/
theorem C19_dunn_nan_first (c : List Row) (cs : List (List Row)) (h : c.length < 2) :
    dunn (c :: cs) = none :=
  dunn_nan_first c cs h

/-- six fingerprints of three bits in clusters `{0,2,4}`, `{1,3}`, `{5}`; `top=2, min_size=2` -/
example :
    clusterAnalysis [[4, 0, 2], [1, 3], [5]]
      [[true, true, false], [true, false, false], [true, true, true], [false, false, true],
       [false, true, false], [true, true, true]] (some 2) 2
    = { sizes := [3, 2], isims := [some (1 / 2), some 0], total := 6, numClusters := 3,
        singletons := 1 } := by
  decide +kernel

example : numAbove [[4, 0, 2], [1, 3], [5]] 1 = 2 := by decide

example : selectClusters [[4, 0, 2], [1, 3], [5], [6, 7]] none 2 = [[4, 0, 2], [1, 3]] := by decide

end BB
