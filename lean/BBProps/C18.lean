/-
C18 — the scikit-learn wrapper (`bblean/sklearn.py`).

`labels_` (what `fit` / `fit_predict` expose) gives every fingerprint the 1-based rank of its
cluster in the size-sorted report and is refused rather than returned with unlabeled
entries; the report is sorted by size, largest first, stably; `predict` returns the label of
a nearest centroid in boolean Jaccard distance, the first one on ties; `transform` is the
matrix of those distances.
-/
import BBProofs.Assign
import BBProps.C01
import BBProofs.GenEq14

namespace BB

/-! ### `get_assignments` -/

/-- **C18 (assignment)**: when the clusters partition `0 .. n-1`, `get_assignments` succeeds
and every fingerprint gets the 1-based rank of its cluster in the given list -/
theorem C18_assign (clusters : List (List Nat)) (n : Nat)
    (h : clusters.flatten.Perm (List.range n)) :
    ∃ a, assignments clusters n = .ok a ∧ a.length = n ∧
      ∀ (i : Nat) (hi : i < clusters.length) (j : Nat), j ∈ clusters[i] → a[j]? = some (i + 1) := by
  have hnd : clusters.flatten.Nodup := h.nodup_iff.mpr List.nodup_range
  have hlt : ∀ c ∈ clusters, ∀ id ∈ c, id < (List.replicate n 0).length := fun c hc id hid => by
    have : id ∈ List.range n := h.mem_iff.mp (List.mem_flatten.mpr ⟨c, hc, hid⟩)
    simpa using this
  obtain ⟨a, e, len, _, rank⟩ := assignFold_ok clusters 0 (List.replicate n 0) hlt
  have rank' : ∀ (i : Nat) (hi : i < clusters.length) (j : Nat), j ∈ clusters[i] →
      a[j]? = some (i + 1) := fun i hi j hj => by simpa using rank hnd i hi j hj
  have hno : a.any (· == 0) = false := by
    rw [List.any_eq_false]
    intro x hx
    obtain ⟨j, hj, rfl⟩ := List.getElem_of_mem hx
    have hjn : j ∈ clusters.flatten := h.mem_iff.mpr (by simpa [len] using hj)
    obtain ⟨c, hc, hjc⟩ := List.mem_flatten.mp hjn
    obtain ⟨i, hi, rfl⟩ := List.getElem_of_mem hc
    have := rank' i hi j hjc
    rw [List.getElem?_eq_getElem hj] at this
    simp [Option.some.inj this]
  refine ⟨a, ?_, by simpa using len, rank'⟩
  rw [assignments_eq, e]
  simp only [hno]
  rfl

/-- the labels of a valid assignment are cluster ranks `1 .. k` -/
theorem C18_assign_range (clusters : List (List Nat)) (n : Nat)
    (h : clusters.flatten.Perm (List.range n)) (a : List Nat) (ha : assignments clusters n = .ok a)
    (j : Nat) (hj : j < n) :
    ∃ v, a[j]? = some v ∧ 1 ≤ v ∧ v ≤ clusters.length ∧ j ∈ clusters[v - 1]! := by
  obtain ⟨a', e, _, rank⟩ := C18_assign clusters n h
  rw [e] at ha
  cases ha
  have hjn : j ∈ clusters.flatten := h.mem_iff.mpr (by simpa using hj)
  obtain ⟨c, hc, hjc⟩ := List.mem_flatten.mp hjn
  obtain ⟨i, hi, rfl⟩ := List.getElem_of_mem hc
  refine ⟨i + 1, rank i hi j hjc, by omega, by omega, ?_⟩
  simpa [hi] using hjc

/-- **C18 (refusal)**: a fingerprint that is in no cluster makes `get_assignments` fail with
a `ValueError` instead of returning a vector with an unlabeled entry -/
theorem C18_refuse (clusters : List (List Nat)) (n : Nat)
    (hlt : ∀ c ∈ clusters, ∀ id ∈ c, id < n) (j : Nat) (hj : j < n)
    (hmiss : ∀ c ∈ clusters, j ∉ c) :
    assignments clusters n = .error .value := by
  obtain ⟨a, e, len, keep, _⟩ := assignFold_ok clusters 0 (List.replicate n 0)
    (fun c hc id hid => by simpa using hlt c hc id hid)
  have hget : a[j]? = some 0 := by
    rw [keep j hmiss]; simp [hj]
  have hany : a.any (· == 0) = true := by
    rw [List.any_eq_true]
    exact ⟨0, List.mem_of_getElem? hget, rfl⟩
  rw [assignments_eq, e]
  simp only [hany]
  rfl

/-- an id that is not below `n` makes `get_assignments` fail with an `IndexError` -/
theorem C18_refuse_index (clusters : List (List Nat)) (n : Nat)
    (hbad : ∃ c ∈ clusters, ∃ id ∈ c, n ≤ id) :
    assignments clusters n = .error .index := by
  rw [assignments_eq, assignFold_bad clusters 0 (List.replicate n 0) (by simpa using hbad)]

/-- `get_assignments` never returns a vector with an entry 0 ("unlabeled") -/
theorem C18_no_unlabeled (clusters : List (List Nat)) (n : Nat) (a : List Nat)
    (ha : assignments clusters n = .ok a) : 0 ∉ a := by
  rw [assignments_eq] at ha
  split at ha
  · cases ha
  · split at ha
    · cases ha
    · next a' _ hany =>
      cases ha
      intro h0
      exact hany (List.any_eq_true.mpr ⟨0, h0, rfl⟩)

/-! ### the order of the report -/

/-- **C18 (order)**: the sorted report is a permutation of the leaf clusters, sizes are
non-increasing, and the sort is stable: for every size, the clusters of that size appear in
leaf order; more generally a sublist that is already in non-increasing order keeps its order -/
theorem C18_order (cs : List Clu) :
    (sortClus cs).Perm cs ∧
    ((sortClus cs).map (·.n)).Pairwise (· ≥ ·) ∧
    (∀ k, (sortClus cs).filter (fun c => c.n == k) = cs.filter (fun c => c.n == k)) ∧
    (∀ ys : List Clu, ys.Pairwise (fun a b => b.n ≤ a.n) → ys.Sublist cs → ys.Sublist (sortClus cs)) := by
  refine ⟨sortClus_perm cs, ?_, ?_, fun ys hp hs => sortClus_sublist hp hs⟩
  · rw [List.pairwise_map]
    exact sortClus_pairwise cs
  · intro k
    have hsub : (cs.filter (fun c => c.n == k)).Sublist (sortClus cs) := by
      apply sortClus_sublist _ List.filter_sublist
      rw [List.pairwise_iff_forall_sublist]
      intro a b hab
      have ha : a ∈ cs.filter (fun c => c.n == k) := hab.subset (by simp)
      have hb : b ∈ cs.filter (fun c => c.n == k) := hab.subset (by simp)
      simp only [List.mem_filter, beq_iff_eq] at ha hb
      omega
    have hsub2 := hsub.filter (fun c => c.n == k)
    rw [List.filter_filter] at hsub2
    simp only [Bool.and_self] at hsub2
    have hlen : ((sortClus cs).filter (fun c => c.n == k)).length =
        (cs.filter (fun c => c.n == k)).length := ((sortClus_perm cs).filter _).length_eq
    exact (hsub2.eq_of_length hlen.symm).symm

/-- two clusters of the leaf order that need no swap (the earlier one is at least as large)
keep their relative order -/
theorem C18_order_pair (cs : List Clu) (a b : Clu) (hab : b.n ≤ a.n) (h : [a, b].Sublist cs) :
    [a, b].Sublist (sortClus cs) :=
  (C18_order cs).2.2.2 [a, b] (by simpa using hab) h

/-- the centres and the label sets of the wrapper are listed in the same (sorted) order -/
theorem C18_centers_aligned (e : Est) :
    skCenters e = e.st.sortedClus.map (·.cent) ∧ e.clusters true = e.st.sortedClus.map (·.ids) ∧
    (skCenters e).length = (e.clusters true).length := by
  refine ⟨rfl, rfl, ?_⟩
  simp [skCenters, Est.clusters]

/-! ### `labels_` -/

/-- **C18 (labels)**: on every reachable state the labels exposed by `fit` / `fit_predict`
are defined (never refused), one per fitted fingerprint, and the label of a fingerprint is
the 1-based rank of its cluster in the sorted report -/
theorem C18_labels (X : ExpTab) (cfg : Cfg) (hbf : 2 ≤ cfg.bf) (F : Nat) (ops : List Op)
    (hwf : ∀ op ∈ ops, op.WF F) :
    ∃ a, skLabels (run X (init cfg) ops) = .ok a ∧
      a.length = (run X (init cfg) ops).numFitted ∧
      ∀ (i : Nat) (hi : i < ((run X (init cfg) ops).clusters true).length) (j : Nat),
        j ∈ ((run X (init cfg) ops).clusters true)[i] → a[j]? = some (i + 1) :=
  C18_assign _ _ (C01_partition X cfg hbf F ops hwf true)

/-! ### the Jaccard distance, `predict`, `transform` -/

theorem C18_dist_range (a b : Row) : 0 ≤ jaccardDist a b ∧ jaccardDist a b ≤ 1 := by
  unfold jaccardDist
  simp only []
  split
  · exact ⟨le_refl _, by norm_num⟩
  · next hu =>
    have hpos : (0 : ℚ) < (popc (orRow a b) : ℚ) := by exact_mod_cast Nat.pos_of_ne_zero hu
    have hle : ((popc (xorRow a b) : ℕ) : ℚ) ≤ (popc (orRow a b) : ℚ) := by
      exact_mod_cast popc_xorRow_le_orRow a b
    constructor
    · exact rnd_nonneg (div_nonneg (by positivity) hpos.le)
    · exact rnd_le_one ((div_le_one hpos).mpr hle)

theorem C18_dist_self (a : Row) : jaccardDist a a = 0 := by
  unfold jaccardDist
  simp only [popc_xorRow_self]
  split
  · rfl
  · simp [fdiv, rnd_zero]

/-- **C18 (predict)**: the predicted label is the label `1 .. k` of a nearest centre, the
first one when several centres are at the minimal distance -/
theorem C18_predict (centers : List Row) (hc : centers ≠ []) (x : Row) :
    ∃ (p : Nat) (h1 : 1 ≤ p) (hk : p ≤ centers.length), skPredict centers [x] = [p] ∧
      (∀ (j : Nat) (hj : j < centers.length),
        jaccardDist x (centers[p - 1]'(by omega)) ≤ jaccardDist x centers[j]) ∧
      (∀ (j : Nat) (hj : j < p - 1),
        jaccardDist x (centers[p - 1]'(by omega)) < jaccardDist x (centers[j]'(by omega))) := by
  have hne : centers.map (jaccardDist x) ≠ [] := by simpa using hc
  have hlt := argminFirst_lt (centers.map (jaccardDist x)) hne
  have hlt' : argminFirst (centers.map (jaccardDist x)) < centers.length := by simpa using hlt
  refine ⟨1 + argminFirst (centers.map (jaccardDist x)), by omega, by omega, rfl, ?_, ?_⟩
  · intro j hj
    have := argminFirst_min (centers.map (jaccardDist x)) j (by simpa using hj)
    simpa using this
  · intro j hj
    have := argminFirst_first (centers.map (jaccardDist x)) j (by omega)
    simpa using this

/-- `predict` works row by row -/
theorem C18_predict_rows (centers : List Row) (X : List Row) :
    (skPredict centers X).length = X.length ∧
    ∀ (r : Nat) (hr : r < X.length),
      skPredict centers [X[r]] = [(skPredict centers X)[r]'(by simpa [skPredict] using hr)] := by
  refine ⟨by simp [skPredict], fun r hr => ?_⟩
  simp [skPredict]

/-- **C18 (transform)**: one row per query, one column per centre, entry `(r, c)` is the
Jaccard distance between query `r` and centre `c` -/
theorem C18_transform (centers : List Row) (X : List Row) :
    (skTransform centers X).length = X.length ∧
    (∀ row ∈ skTransform centers X, row.length = centers.length) ∧
    ∀ (r : Nat) (hr : r < X.length) (c : Nat) (hc : c < centers.length),
      (skTransform centers X)[r]?.bind (·[c]?) = some (jaccardDist X[r] centers[c]) := by
  refine ⟨by simp [skTransform], ?_, ?_⟩
  · intro row hrow
    simp only [skTransform, List.mem_map] at hrow
    obtain ⟨x, _, rfl⟩ := hrow
    simp
  · intro r hr c hc
    simp [skTransform, hr, hc]

/-! Concrete instances: the wrapper's labels for clusters `{2, 0}` and `{1}`, a refusal, and
a prediction with a tie (the first of two equidistant centres wins). -/
example : assignments [[2, 0], [1]] 3 = .ok [1, 2, 1] := by decide
example : assignments [[2, 0]] 3 = .error .value := by decide
example : assignments [[2, 0], [3]] 3 = .error .index := by decide
example : xorRow [true, true, false] [true, false, true] = [false, true, true] := by decide
example : skPredict [[true, false, false], [true, true, false], [true, true, false]]
    [[true, true, false], [false, false, false]] = [2, 1] := by decide +kernel

/-! ### the code: the scikit-learn wrapper (`bblean/sklearn.py`) as translated from `/repo` on this run -/

/-- code: `fit_predict` returns — and stores in `labels_` — the assignments computed by the ONE `get_assignments` call made
after the `super().fit` of this very call, whether `compute_labels` is on (the call is made inside `fit`) or off (it is made
by `fit_predict` itself): never a vector kept from an earlier call -/
theorem C18_code_fit_predict_fresh (expf : Rat → Rat) (w : W) (cs log : List Nat) (b : Bool)
    (l0 c0 sl0 nf0 X y p nfe gaFit gaFp : PV) :
    BBGen.SkBitBirch_fit_predict expf l0 c0 sl0 nf0 (PV.arr .big log) X y p nfe (PV.arr w cs) gaFit gaFp (PV.bool b)
      = [if b then gaFit else gaFp, if b then gaFit else gaFp, PV.arr w cs, PV.arr .big (List.range' 1 cs.length),
         PV.int cs.length, PV.arr .big (log ++ [10, 11])] :=
  gen_sk_fit_predict expf w cs log b l0 c0 sl0 nf0 X y p nfe gaFit gaFp

/-- code: `fit` — the centres are the stacked centroids of the sorted leaf entries, their labels `1 … n` in that order, and
`labels_` is recomputed (after the base-class fit) exactly when `compute_labels` is on -/
theorem C18_code_fit (expf : Rat → Rat) (w : W) (cs log : List Nat) (b : Bool) (l0 c0 sl0 nf0 X y p nfe ga : PV) :
    BBGen.SkBitBirch_fit expf l0 c0 sl0 nf0 (PV.arr .big log) X y p nfe (PV.arr w cs) ga (PV.bool b)
      = [PV.str "self", if b then ga else l0, PV.arr w cs, PV.arr .big (List.range' 1 cs.length), PV.int cs.length,
         PV.arr .big (log ++ [10] ++ (if b then [11] else []))] :=
  gen_sk_fit expf w cs log b l0 c0 sl0 nf0 X y p nfe ga

/-- code: `partial_fit` without data raises and changes nothing; with data `labels_` ends as the LAST assignments computed -/
theorem C18_code_partial_fit (expf : Rat → Rat) (w : W) (cs log : List Nat) (b : Bool) (l0 c0 sl0 nf0 y p nfe gaFit gaPf : PV) :
    BBGen.SkBitBirch_partial_fit expf l0 c0 sl0 nf0 (PV.arr .big log) PV.pynone y p nfe (PV.arr w cs) gaFit gaPf (PV.bool b)
      = [PV.err "ValueError", l0, c0, sl0, nf0, PV.arr .big log] ∧
    ∀ xs : List Nat, BBGen.SkBitBirch_partial_fit expf l0 c0 sl0 nf0 (PV.arr .big log) (PV.arr .u8 xs) y p nfe (PV.arr w cs) gaFit gaPf (PV.bool b)
      = [PV.str "self", if b then gaPf else l0, PV.arr w cs, PV.arr .big (List.range' 1 cs.length), PV.int cs.length,
         PV.arr .big (log ++ [10] ++ (if b then [11, 11] else []))] :=
  gen_sk_partial_fit expf w cs log b l0 c0 sl0 nf0 y p nfe gaFit gaPf

end BB
