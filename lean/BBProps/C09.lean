/-
C09 — re-insertion only coarsens clusters.

Re-clustering never separates fingerprints that were in one cluster; refinement separates
only members of the `n` largest clusters it was asked to break up; every other cluster
re-enters the tree as an indivisible unit.
-/
import BBProps.C01
import BBProofs.Coarsen

namespace BB

/-- list form: every member list of `A` is contained in one member list of `B` -/
def CoarsensL (A B : List (List Nat)) : Prop := ∀ a ∈ A, ∃ b ∈ B, ∀ i ∈ a, i ∈ b

theorem coarsensL_of (A : List Clu) (B : List Clu) (h : Coarsens (A : Multiset Clu) (B : Multiset Clu)) :
    CoarsensL (A.map (·.ids)) (B.map (·.ids)) := by
  intro a ha
  obtain ⟨c, hc, rfl⟩ := List.mem_map.mp ha
  obtain ⟨b, hb, hsub⟩ := h c (Multiset.mem_coe.mpr hc)
  exact ⟨b.ids, List.mem_map_of_mem (Multiset.mem_coe.mp hb), hsub⟩

/-- **C09 (recluster)**: for every reachable state and every iteration count, threshold increment,
shuffle and early-stop flag, each cluster before is contained in one cluster after -/
theorem C09_recluster (X : ExpTab) (cfg : Cfg) (hbf : 2 ≤ cfg.bf) (F : Nat) (ops : List Op)
    (hwf : ∀ op ∈ ops, op.WF F) (iters : Nat) (extra : Rat) (perms : List (Option (List Nat))) (stop : Bool) :
    CoarsensL ((run X (init cfg) ops).clusters true)
      ((step X (run X (init cfg) ops) (.recluster iters extra perms stop)).1.clusters true) := by
  have hinv := C01_invariant (refPolicy X) (refPolicy_valid X) cfg hbf F ops hwf
  have hinv' : EInv F (fun _ => True) (step X (run X (init cfg) ops) (.recluster iters extra perms stop)).1 :=
    step_inv (refPolicy X) (refPolicy_valid X) F _ (fun _ _ => trivial) _ hinv _ (fun _ _ _ _ _ _ _ _ => trivial)
  have hc := recluster_coarsens (refPolicy X) (refPolicy_valid X) F _ hinv iters extra perms stop
  apply coarsensL_of
  simp only [if_true]
  have e1 := sortedClus_coe _ hinv.ok
  have e2 := sortedClus_coe _ hinv'.ok
  simp only [run] at e1 e2 ⊢
  rw [e1, e2]
  exact hc

/-- **C09 (refine)**: every cluster except the `n` largest (in report order) is contained in one
cluster after the refinement; together with C01 the exploded ones are merely redistributed -/
theorem C09_refine (X : ExpTab) (cfg : Cfg) (hbf : 2 ≤ cfg.bf) (F : Nat) (ops : List Op)
    (hwf : ∀ op ∈ ops, op.WF F) (n : Int) (data : List Row) (im : Nat) (srt : Bool) (hdata : ∀ r ∈ data, r.length = F) :
    CoarsensL (((run X (init cfg) ops).clusters true).drop n.toNat)
      ((step X (run X (init cfg) ops) (.refine n data im srt)).1.clusters true) := by
  have hinv := C01_invariant (refPolicy X) (refPolicy_valid X) cfg hbf F ops hwf
  have hinv' : EInv F (fun _ => True) (step X (run X (init cfg) ops) (.refine n data im srt)).1 :=
    step_inv (refPolicy X) (refPolicy_valid X) F _ (fun _ _ => trivial) _ hinv _
      ⟨hdata, fun _ _ _ _ => trivial, fun _ _ _ _ _ => trivial⟩
  have hc := refine_coarsens (refPolicy X) (refPolicy_valid X) F _ hinv n data im srt hdata
  have : ((run X (init cfg) ops).clusters true).drop n.toNat
      = ((run X (init cfg) ops).st.sortedClus.drop n.toNat).map (·.ids) := by
    simp [Est.clusters, List.map_drop]
  rw [this]
  apply coarsensL_of
  simp only [if_true]
  have e2 := sortedClus_coe _ hinv'.ok
  simp only [run] at e2 ⊢
  rw [e2]
  exact hc

/-- the general fact behind both (and behind the multi-round workflow): whatever is inserted
as a batch of units, each unit's members stay together -/
theorem C09_units {acc : Clu → Clu → Prop} (units : List Clu) (N : Multiset Clu)
    (h : MC acc ((units.map Clu.asUnit : List Clu) : Multiset Clu) N) :
    ∀ u ∈ units, ∃ b ∈ N, ∀ i ∈ u.ids, i ∈ b.ids :=
  fun u hu => coarsens_of_units units N h u (Multiset.mem_coe.mpr hu)

/-! Non-vacuity: the relation on a concrete pair of clusterings. -/
example : CoarsensL [[0, 2], [1]] [[1, 0, 2]] := by
  intro a ha
  refine ⟨[1, 0, 2], by simp, ?_⟩
  simp only [List.mem_cons, List.not_mem_nil, or_false] at ha
  rcases ha with rfl | rfl <;> simp

end BB
