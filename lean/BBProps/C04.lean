/-
C04 — clustering is a pure function of the ordered fingerprints and parameters.

The model is a function, so "the same result on repeated runs / in another process" holds of
the model by construction; that the *code* has no hidden input (RNG, hash order, time,
addresses, representation of the rows) is what the correspondence establishes (PARTIAL).
Proved here: cutting one fit call into consecutive calls changes nothing; packing is
invertible for every feature count (so packed and unpacked input denote the same rows); and
the page-release counter machine only ever releases memory inside the mapped file, behind
the read cursor, in whole page steps, never twice.
-/
import BBProps.C01
import BBProofs.Chunking
import BBProofs.Bits
import BBProofs.MemPages
import BBProofs.GenEq

namespace BB

/-- **chunking**: for every reachable state, fitting `xs ++ ys` in one call equals fitting `xs`
and then `ys` (labels continue), for any cut — provided the first chunk has no malformed row
(a malformed row makes a fit stop there, which a cut after it would not reproduce) -/
theorem C04_chunking (X : ExpTab) (cfg : Cfg) (hbf : 2 ≤ cfg.bf) (F : Nat) (ops : List Op)
    (hwf : ∀ op ∈ ops, op.WF F) (xs ys : List Row) (hx : xs ≠ []) (hall : ∀ r ∈ xs, r.length = F) :
    run X (init cfg) (ops ++ [.fit xs none, .fit ys none]) = run X (init cfg) (ops ++ [.fit (xs ++ ys) none]) := by
  have hinv := C01_invariant (refPolicy X) (refPolicy_valid X) cfg hbf F ops hwf
  simp only [run, runWith, List.foldl_append, List.foldl_cons, List.foldl_nil, stepWith]
  have hcfg : ∀ (e : Est) (rows : List Row), (fit (refPolicy X e.cfg) e rows none).1.cfg = e.cfg := by
    intro e rows
    unfold fit
    cases rows with
    | nil => rfl
    | cons r rs => cases e.st <;> rfl
  rw [hcfg]
  apply fit_chunking (refPolicy X) (refPolicy_valid X) _ (by have := hinv.bf; omega) hinv.ok xs ys F _ hall hx
  intro r0 hr0
  have hlen : r0.length = F := hall r0 (List.mem_of_mem_head? hr0)
  cases h : (runWith (refPolicy X) (init cfg) ops).st.F? with
  | none => simp only [runWith] at h; simp [h, hlen]
  | some F' => have := hinv.fF F' h; simp only [runWith] at h; simp [h, this]

/-- packed and unpacked input denote the same fingerprints, for every feature count -/
theorem C04_packed (r : Row) : unpack (pack r) r.length = r := unpack_pack r

/-- **page release**: every released range starts at or after the start of the mapping, has
length exactly one release step, is step-aligned relative to the file start, ends at or before
the end of the bytes already consumed (behind the read cursor) and inside the file -/
theorem C04_pages (p : Pages.Params) (hc : p.canRelease = true) (hi : 1 ≤ p.itemsize) (hP : 0 < p.P) :
    ∀ r ∈ Pages.releases p, p.base ≤ r.addr ∧ r.len = p.P ∧ (r.addr - p.base) % p.P = 0 ∧
      r.addr + r.len ≤ p.base + p.offset + r.afterRow * p.rowBytes ∧ r.afterRow ≤ p.nrows ∧
      r.addr + r.len ≤ p.base + p.fileSize :=
  Pages.releases_safe p hc hi hP

/-- no byte is released twice: the released ranges are pairwise disjoint and ascending -/
theorem C04_pages_disjoint (p : Pages.Params) (hc : p.canRelease = true) :
    (Pages.releases p).Pairwise (fun a b => a.addr + a.len ≤ b.addr) :=
  Pages.releases_pairwise p hc

/-- nothing is released when the manager is not in its safe configuration -/
theorem C04_pages_none (p : Pages.Params) (h : p.canRelease = false) : Pages.releases p = [] :=
  Pages.releases_none p h

/-! Non-vacuity: 20 000 packed 2048-bit rows give two releases. -/
example : (Pages.releases { base := 4096, offset := 128, ncols := 256, itemsize := 1, P := 2097152, nrows := 20000 }).length = 2 := by
  rw [Pages.releases_length _ (by decide)]
  decide

/-! ## The same for the code itself

`BBGen.*` is the Lean text `tools/py2lean.py` wrote from the Python sources on this run; `PV` is the
Python / NumPy value algebra of `BBModel/PyNum.lean` (see `BBProofs/GenEq.lean`). -/

/-- code: the `_madvise_dontneed` calls that the translated `_ArrayMemPagesManager` makes inside the row
loop of `fit` over a memory-mapped 2-D array are exactly the model's `Pages.releases` (to which
`C04_pages`, `C04_pages_disjoint`, `C04_pages_none` apply) -/
theorem C04_code_pages (expf : Rat → Rat) (data off ncols ps itemsize nrows : Nat) (hc : 0 < ncols)
    (hps : 0 < ps) (hP : ps * 512 < 2 ^ 53) (hb : off ≤ data) :
    codeLoop expf nrows 0 (BBGen._ArrayMemPagesManager_from_bb_input expf PV.pynone (PV.int data)
        (PV.bool true) (PV.int 2) (PV.int off) (PV.int ncols) (PV.int ps))
      = (Pages.releases (pagesOf data off ncols itemsize ps nrows)).map relPV :=
  gen_pages expf data off ncols ps itemsize nrows hc hps hP hb

/-- code: the manager built by `from_bb_input` is the model's (`can_release`, step, rows per step, start) -/
theorem C04_code_pages_init (expf : Rat → Rat) (data off ncols ps : Nat) (hc : 0 < ncols)
    (hP : ps * 512 < 2 ^ 53) (hb : off ≤ data) (itemsize nrows : Nat) :
    BBGen._ArrayMemPagesManager_from_bb_input expf PV.pynone (PV.int data) (PV.bool true) (PV.int 2)
        (PV.int off) (PV.int ncols) (PV.int ps)
      = if (pagesOf data off ncols itemsize ps nrows).canRelease then
          [PV.bool true, PV.int ((pagesOf data off ncols itemsize ps nrows).P : Nat),
            PV.int ((pagesOf data off ncols itemsize ps nrows).iters : Nat),
            PV.int ((pagesOf data off ncols itemsize ps nrows).base : Nat)]
        else [PV.bool false, PV.int ((pagesOf data off ncols itemsize ps nrows).P : Nat), PV.int 0, PV.int 0] :=
  gen_pages_init expf data off ncols ps hc hP hb itemsize nrows

/-! Non-vacuity: 256-byte rows, a 128-byte header, 4 KiB pages: 8192 rows per release. -/
example : (pagesOf 1000128 128 256 1 4096 20000).canRelease = true ∧ (pagesOf 1000128 128 256 1 4096 20000).iters = 8192 := by
  decide


/-- code: **every `madvise` call the translated manager makes is safe** — it starts at or after the start of the mapping,
covers exactly one release step, ends behind the read cursor (the rows consumed when it is made) and inside the file.
(`data`: address of the array data, `off`: header size, `ps`: `mmap.PAGESIZE`) -/
theorem C04_code_pages_safe (expf : Rat → Rat) (data off ncols ps itemsize nrows : Nat) (hc : 0 < ncols)
    (hps : 0 < ps) (hP : ps * 512 < 2 ^ 53) (hb : off ≤ data) (hi : 1 ≤ itemsize) :
    ∀ call ∈ codeLoop expf nrows 0 (BBGen._ArrayMemPagesManager_from_bb_input expf PV.pynone (PV.int data)
        (PV.bool true) (PV.int 2) (PV.int off) (PV.int ncols) (PV.int ps)),
      ∃ addr len afterRow : Nat, call = [PV.int addr, PV.int len, PV.int afterRow] ∧
        data - off ≤ addr ∧ len = ps * 512 ∧
        addr + len ≤ (data - off) + off + afterRow * (ncols * itemsize) ∧ afterRow ≤ nrows ∧
        addr + len ≤ (data - off) + (off + nrows * (ncols * itemsize)) := by
  intro call hcall
  rw [gen_pages expf data off ncols ps itemsize nrows hc hps hP hb] at hcall
  obtain ⟨r, hr, rfl⟩ := List.mem_map.mp hcall
  have hcan : (pagesOf data off ncols itemsize ps nrows).canRelease = true := by
    by_contra hne
    have : (pagesOf data off ncols itemsize ps nrows).canRelease = false := by simpa using hne
    rw [C04_pages_none _ this] at hr
    exact absurd hr (by simp)
  have h := C04_pages (pagesOf data off ncols itemsize ps nrows) hcan hi (by simp [pagesOf]; omega) r hr
  refine ⟨r.addr, r.len, r.afterRow, rfl, ?_⟩
  have e1 : (pagesOf data off ncols itemsize ps nrows).base = data - off := rfl
  have e2 : (pagesOf data off ncols itemsize ps nrows).P = ps * 512 := rfl
  have e3 : (pagesOf data off ncols itemsize ps nrows).offset = off := rfl
  have e4 : (pagesOf data off ncols itemsize ps nrows).rowBytes = ncols * itemsize := rfl
  have e5 : (pagesOf data off ncols itemsize ps nrows).nrows = nrows := rfl
  have e6 : (pagesOf data off ncols itemsize ps nrows).fileSize = off + nrows * (ncols * itemsize) := rfl
  rw [e1, e2, e3, e4, e5, e6] at h
  exact ⟨h.1, h.2.1, h.2.2.2.1, h.2.2.2.2.1, h.2.2.2.2.2⟩

end BB
