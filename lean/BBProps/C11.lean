/-
C11 — iSIM statistics are exact.

`isimFromSum` transcribes `jt_isim_from_sum` with the rounding points of the NumPy code
(uint64 sums and products mod 2^64, float64 conversion, one addition, one subtraction, one
division).  `exactIsim ks n = Σ C(k,2) / Σ [C(k,2) + k(n-k)]` over ℚ.

Proved: bit-exactness (= the correctly rounded exact rational) below `n·Σk < 2^52`, which covers
every clustering with `n²·F < 2^52`; absence of uint64 wrap-around below 2^64; an explicit
relative-error bound on the WHOLE no-wrap range `n·Σk < 2^64` (hence on the 2^63 range of the
property): `|v − exact| ≤ 18·2^-53·exact` (`C11_ulp`; forward error analysis, the subtraction
`(a + n·Σk) − Σk²` amplifies by at most `Σk² ≤ 4·denominator`), with `v = 0` when the exact value is 0,
`0 ≤ v` and `v ≤ 1 + 18·2^-53` (`C11_range_wide`); the value for empty fingerprints; the
two-fingerprint identity; invariance under row and column order at every magnitude; the defining
identities of the derived forms; complementary similarity.
NOT true above 2^52 (so not proved): plain equality with the rounded exact rational (the probe found
a one-ulp deviation near 2^60) — `C11_exact` stays the partial form of "equals the exact rational for
n·Σk < 2^63" and `C11_ulp` is the form that holds on the full range; and the upper end `v ≤ 1` of the
range clause — `C11_gt_one` is a kernel-checked input with `n·Σk ≈ 1.33·2^52`, exact value 1 and float
value `1 + 2^-52` (`C11_range` therefore keeps its 2^52 hypothesis).
-/
import BBProofs.Isim
import BBProofs.IsimErr
import BBProofs.Fl
import BBProofs.GenEq3

namespace BB

/-- NaN exactly for fewer than two objects -/
theorem C11_defined (ks : List Nat) (n : Nat) : (isimFromSum ks n = none ↔ n < 2) := by
  constructor
  · intro h
    by_contra hn
    have := isim_isSome ks n (by omega)
    rw [h] at this; simp at this
  · exact isim_none ks n

/-- all-empty fingerprints: 1 -/
theorem C11_empty (ks : List Nat) (n : Nat) (h : 2 ≤ n) (h0 : ks.sum = 0) : isimFromSum ks n = some 1 :=
  isim_empty ks n h h0

/-- below 2^64 no uint64 intermediate wraps: the float formula is evaluated on the true integers -/
theorem C11_no_wrap (ks : List Nat) (n : Nat) (hn : 2 ≤ n) (hk : ∀ k ∈ ks, k ≤ n) (hS : 0 < ks.sum)
    (hb : n * ks.sum < 2 ^ 64) :
    isimFromSum ks n = some (fdiv (ofNat (sqSum ks - ks.sum) / 2)
      (fsub (fadd (ofNat (sqSum ks - ks.sum) / 2) (ofNat (n * ks.sum))) (ofNat (sqSum ks)))) :=
  isimFromSum_of_no_wrap ks n hn hk hS hb

/-- **bit-exact**: the correctly rounded value of the exact rational definition (partial form of
the 2^63 claim: proved for `n·Σk < 2^52`) -/
theorem C11_exact (ks : List Nat) (n : Nat) (hn : 2 ≤ n) (hk : ∀ k ∈ ks, k ≤ n) (hS : 0 < ks.sum)
    (hb : n * ks.sum < 2 ^ 52) : isimFromSum ks n = some (rnd (exactIsim ks n)) :=
  isim_exact rnd_isRounding ks n hn hk hS hb

/-- the denominator of the definition is positive whenever some bit is set -/
theorem C11_den_pos (ks : List Nat) (n : Nat) (hn : 2 ≤ n) (hk : ∀ k ∈ ks, k ≤ n) (hS : 0 < ks.sum) :
    0 < (ks.map (fun k => k * (k - 1) / 2 + k * (n - k))).sum := isim_den_pos ks n hn hk hS

/-- the value lies in [0, 1] -/
theorem C11_range (ks : List Nat) (n : Nat) (hn : 2 ≤ n) (hk : ∀ k ∈ ks, k ≤ n) (hS : 0 < ks.sum)
    (hb : n * ks.sum < 2 ^ 52) : ∃ v, isimFromSum ks n = some v ∧ 0 ≤ v ∧ v ≤ 1 :=
  isim_le_one rnd_isRounding ks n hn hk hS hb

/-- between 2^52 and 2^64 the float formula is no longer bit-exact (a one-ulp deviation exists near
2^60) but stays within 18 units of `2^-53` (relative) of the exact rational definition; in particular
it is exactly 0 when the exact value is 0 -/
theorem C11_ulp (ks : List Nat) (n : Nat) (hn : 2 ≤ n) (hk : ∀ k ∈ ks, k ≤ n) (hS : 0 < ks.sum)
    (hb : n * ks.sum < 2 ^ 64) :
    ∃ v, isimFromSum ks n = some v ∧
      |v - exactIsim ks n| ≤ 18 * 2 ^ (-53 : ℤ) * exactIsim ks n ∧ 0 ≤ v :=
  isim_ulp ks n hn hk hS hb

/-- the same on the range `n·Σk < 2^63` stated by the property -/
theorem C11_ulp_63 (ks : List Nat) (n : Nat) (hn : 2 ≤ n) (hk : ∀ k ∈ ks, k ≤ n) (hS : 0 < ks.sum)
    (hb : n * ks.sum < 2 ^ 63) :
    ∃ v, isimFromSum ks n = some v ∧
      |v - exactIsim ks n| ≤ 18 * 2 ^ (-53 : ℤ) * exactIsim ks n ∧ 0 ≤ v :=
  isim_ulp ks n hn hk hS (by omega)

/-- exact value 0 (no column with two set bits): the float value is 0 -/
theorem C11_ulp_zero (ks : List Nat) (n : Nat) (hn : 2 ≤ n) (hk : ∀ k ∈ ks, k ≤ n) (hS : 0 < ks.sum)
    (hb : n * ks.sum < 2 ^ 64) (h0 : exactIsim ks n = 0) : isimFromSum ks n = some 0 := by
  obtain ⟨v, hv, herr, _⟩ := isim_ulp ks n hn hk hS hb
  rw [h0, mul_zero, sub_zero] at herr
  rw [hv, abs_eq_zero.mp (le_antisymm herr (abs_nonneg v))]

/-- the value lies in `[0, 1 + 18·2^-53]` on the whole no-wrap range -/
theorem C11_range_wide (ks : List Nat) (n : Nat) (hn : 2 ≤ n) (hk : ∀ k ∈ ks, k ≤ n) (hS : 0 < ks.sum)
    (hb : n * ks.sum < 2 ^ 64) :
    ∃ v, isimFromSum ks n = some v ∧ 0 ≤ v ∧ v ≤ 1 + 18 * 2 ^ (-53 : ℤ) :=
  isim_range_ulp ks n hn hk hS hb

/-- `v ≤ 1` FAILS above 2^52: one column, `k = n = 77490642` (all fingerprints identical, exact
iSIM 1, `n·Σk = n² < 2^53`), the float formula gives `1 + 2^-52 > 1` -/
theorem C11_gt_one :
    exactIsim [77490642] 77490642 = 1 ∧
    ∃ v, isimFromSum [77490642] 77490642 = some v ∧ 1 < v ∧ 77490642 * [77490642].sum < 2 ^ 53 :=
  ⟨isim_gt_one_witness.1, _, isim_gt_one_witness.2, by norm_num, by decide⟩

/-- for two fingerprints iSIM is their Tanimoto similarity -/
theorem C11_pair (a b : Row) (hl : a.length = b.length) (hu : 0 < popc a + popc b)
    (hb : 2 * (popc a + popc b) < 2 ^ 52) : isimRows [a, b] = some (jtBits a b) :=
  isimRows_pair rnd_isRounding a b hl hu hb

/-- invariance under the order of columns — at every magnitude -/
theorem C11_perm_cols (ks ks' : List Nat) (n : Nat) (h : ks.Perm ks') : isimFromSum ks n = isimFromSum ks' n :=
  isim_perm ks ks' n h

/-- invariance under the order of rows — at every magnitude -/
theorem C11_perm_rows (rows rows' : List Row) (h : rows.Perm rows') : isimRows rows = isimRows rows' :=
  isimRows_perm rows rows' h

/-- the from-fingerprints, diameter, radius and radius-complement forms are the from-sum forms on the
column sums (their defining identities) -/
theorem C11_wrappers (rows : List Row) :
    isimRows rows = isimFromSum (colSum rows) rows.length ∧
    diameterFromSum (colSum rows) rows.length = (isimFromSum (colSum rows) rows.length).map (fun j => fsub 1 j) ∧
    radiusFromSum (colSum rows) rows.length = (radiusCompl (colSum rows) rows.length).map (fun j => fsub 1 j) :=
  ⟨rfl, rfl, rfl⟩

/-- each complementary similarity is the iSIM of the set with that row removed -/
theorem C11_compl (rows : List Row) (F : Nat) (hF : ∀ r ∈ rows, r.length = F) (h3 : 3 ≤ rows.length)
    (i : Nat) (hi : i < rows.length) :
    (complIsim rows)[i]? = some (isimFromSum (colSum (rows.eraseIdx i)) (rows.length - 1)) :=
  complIsim_spec rows F hF h3 i hi

/-! Non-vacuity: three fingerprints over four bits. -/
example : isimFromSum [3, 2, 0, 1] 3 = some (rnd (exactIsim [3, 2, 0, 1] 3)) :=
  C11_exact [3, 2, 0, 1] 3 (by decide) (by decide) (by decide) (by decide)

example : ∃ v, isimFromSum [3, 2, 0, 1] 3 = some v ∧
    |v - exactIsim [3, 2, 0, 1] 3| ≤ 18 * 2 ^ (-53 : ℤ) * exactIsim [3, 2, 0, 1] 3 ∧ 0 ≤ v :=
  C11_ulp [3, 2, 0, 1] 3 (by decide) (by decide) (by decide) (by decide)

/-! ## The same for the code itself

`BBGen.*` is the Lean text `tools/py2lean.py` wrote from the Python sources on this run; `PV` is the
Python / NumPy value algebra of `BBModel/PyNum.lean` (see `BBProofs/GenEq.lean`). -/

open PV in
theorem C11_code_isim (expf : Rat → Rat) (w : W) (ks : List Nat) (n : Nat) (hn : 2 ≤ n)
    (hk : ∀ k ∈ ks, k ≤ n) (hS : 0 < ks.sum) (hb : n * ks.sum < 2 ^ 52) :
    BBGen.jt_isim_from_sum expf (PV.arr w ks) (PV.int n) = PV.flt (some (rnd (exactIsim ks n))) := by
  have hn52 : n < 2 ^ 52 := by
    have : n * 1 ≤ n * ks.sum := Nat.mul_le_mul_left n hS
    omega
  rw [gen_isim' expf w ks n (fun k h => by have := hk k h; omega) (by omega)
    (fun _ _ => isimDen_ne_zero ks n hn hk hS hb)]
  obtain ⟨h1, _⟩ := isim_no_wrap ks n hk (by omega)
  unfold isimPV
  have : ¬ n < 2 := by omega
  have h0 : ¬ u64 ks.sum = 0 := by rw [h1]; omega
  simp only [this, if_false, h0, C11_exact ks n hn hk hS hb]

open PV in
theorem C11_code_empty (expf : Rat → Rat) (w : W) (ks : List Nat) (n : Nat) (hn : 2 ≤ n) (hn' : n < 2 ^ 64)
    (h0 : ∀ k ∈ ks, k = 0) :
    BBGen.jt_isim_from_sum expf (PV.arr w ks) (PV.int n) = PV.int 1 := by
  have hs : ks.sum = 0 := List.sum_eq_zero h0
  rw [gen_isim' expf w ks n (fun k h => by rw [h0 k h]; norm_num) hn'
    (fun _ h => absurd (by rw [hs]; rfl) h)]
  unfold isimPV
  have : ¬ n < 2 := by omega
  simp [this, hs, u64]

open PV in
theorem C11_code_nan (expf : Rat → Rat) (w : W) (ks : List Nat) (n : Nat) (hn : n < 2)
    (hls : ∀ k ∈ ks, k < 2 ^ 64) :
    BBGen.jt_isim_from_sum expf (PV.arr w ks) (PV.int n) = PV.flt none := by
  rw [gen_isim' expf w ks n hls (by omega) (fun h => by omega)]
  simp [isimPV, hn]

open PV in
theorem C11_code_radius_compl (expf : Rat → Rat) (w : W) (s : Summary) (h : SumOk s) :
    BBGen.jt_isim_radius_compl_from_sum expf (PV.arr w s.ls) (PV.int s.n) = PV.flt (radiusCompl s.ls s.n) :=
  gen_radius_ok expf w s h

open PV in
theorem C11_code_diameter (expf : Rat → Rat) (w : W) (s : Summary) (h : SumOk s) :
    PV.toFlt (BBGen.jt_isim_diameter_from_sum expf (PV.arr w s.ls) (PV.int s.n)) = some (diameterFromSum s.ls s.n) := by
  unfold BBGen.jt_isim_diameter_from_sum
  rw [gen_isim_ok expf w s h]
  rcases isimPV_val s.ls s.n with hv | ⟨hv, hj⟩
  · rw [hv, sub_int_flt]
    cases hx : isimFromSum s.ls s.n <;> simp [diameterFromSum, hx, PV.fop, rnd_one]
  · rw [hv]
    simp [diameterFromSum, hj, fsub, rnd_zero]

open PV in
theorem C11_code_radius (expf : Rat → Rat) (w : W) (s : Summary) (h : SumOk s) :
    BBGen.jt_isim_radius_from_sum expf (PV.arr w s.ls) (PV.int s.n) = PV.flt (radiusFromSum s.ls s.n) := by
  unfold BBGen.jt_isim_radius_from_sum
  rw [gen_radius_ok expf w s h, sub_int_flt]
  cases hx : radiusCompl s.ls s.n <;> simp [radiusFromSum, hx, PV.fop, rnd_one]



/-- code: on the whole no-wrap range the translated `jt_isim_from_sum` returns a float within 18 units of 2^-53
(relative) of the exact rational definition -/
theorem C11_code_ulp (expf : Rat → Rat) (w : W) (ks : List Nat) (n : Nat) (hn : 2 ≤ n) (hk : ∀ k ∈ ks, k ≤ n)
    (hS : 0 < ks.sum) (hb : n * ks.sum < 2 ^ 64) :
    ∃ v, BBGen.jt_isim_from_sum expf (PV.arr w ks) (PV.int n) = PV.flt (some v) ∧
      |v - exactIsim ks n| ≤ 18 * 2 ^ (-53 : ℤ) * exactIsim ks n ∧ 0 ≤ v :=
  gen_isim_ulp expf w ks n hn hk hS hb

/-- code: every summary with sums bounded by the count, count below 2^53 − 1 and no uint64 wrap-around satisfies the side
conditions (`SumOk`) of the `*_code_*` theorems -/
theorem C11_code_side_conditions (s : Summary) (hk : ∀ k ∈ s.ls, k ≤ s.n) (hn : s.n + 1 < 2 ^ 53)
    (hb : (s.n + 1) * (s.ls.sum + s.ls.length) < 2 ^ 64) : SumOk s :=
  sumOk_of_consistent s hk hn hb

end BB
