/-
C01 — every fitted fingerprint ends in exactly one cluster.

After any history of fit / refine / recluster / set_merge / setters / delete_internal_nodes
/ reset (with any routing, split and merge decisions satisfying `Policy.Valid`, in
particular the code's own), the reported clusters partition the labels `0 .. numFitted-1`.
-/
import BBProofs.Ops
import BBProofs.RefPolicy

namespace BB

/-- state-independent well-formedness of an operation for feature count `F`: labels are
implicit, the first row of every `fit` and the data given to `refine` have `F` features
(any *other* row may be malformed: the fit then fails there and keeps the rows before it),
branching factors are at least 2 -/
def Op.WF (F : Nat) : Op → Prop
  | .fit rows labels => labels = none ∧ ∀ r0, rows.head? = some r0 → r0.length = F
  | .refine _ data _ _ => ∀ r ∈ data, r.length = F
  | .setMerge _ _ _ b => ∀ b', b = some b' → 2 ≤ b'
  | .setBf b => 2 ≤ b
  | _ => True

theorem runOK_of_wf (pol : Cfg → Policy) (F : Nat) : ∀ (ops : List Op) (e : Est),
    (∀ op ∈ ops, op.WF F) → RunOK pol F (fun _ => True) e ops
  | [], _, _ => trivial
  | op :: ops, e, h => by
    refine ⟨?_, runOK_of_wf pol F ops _ (fun o ho => h o (List.mem_cons_of_mem _ ho))⟩
    have hop := h op (by simp)
    cases op with
    | fit rows labels => exact ⟨hop.1, hop.2, fun _ _ _ _ => trivial, fun _ _ _ _ _ => trivial⟩
    | refine n data im srt => exact ⟨hop, fun _ _ _ _ => trivial, fun _ _ _ _ _ => trivial⟩
    | recluster it extra perms stop => exact fun _ _ _ _ _ _ _ _ => trivial
    | setMerge c t th b => exact hop
    | setBf b => exact hop
    | setThr t => trivial
    | delInternal => trivial
    | reset => trivial

/-- the invariant holds along every well-formed history, for every valid family of policies -/
theorem C01_invariant (pol : Cfg → Policy) (hpol : ∀ cfg, (pol cfg).Valid) (cfg : Cfg) (hbf : 2 ≤ cfg.bf)
    (F : Nat) (ops : List Op) (hwf : ∀ op ∈ ops, op.WF F) :
    EInv F (fun _ => True) (runWith pol (init cfg) ops) :=
  run_inv pol hpol F _ (fun _ _ => trivial) ops _ (init_inv F _ cfg hbf) (runOK_of_wf pol F ops _ hwf)

/-- **C01 (policy-generic)**: the reported clusters, sorted or in leaf order, are a permutation
of the labels `0 .. numFitted-1` — every label in exactly one cluster, none invented -/
theorem C01_partition_generic (pol : Cfg → Policy) (hpol : ∀ cfg, (pol cfg).Valid) (cfg : Cfg)
    (hbf : 2 ≤ cfg.bf) (F : Nat) (ops : List Op) (hwf : ∀ op ∈ ops, op.WF F) (sort : Bool) :
    ((runWith pol (init cfg) ops).clusters sort).flatten.Perm
      (List.range (runWith pol (init cfg) ops).numFitted) :=
  clusters_perm F _ _ (C01_invariant pol hpol cfg hbf F ops hwf) sort

/-- **C01** for the decisions the code takes (`refPolicy`), any exp table -/
theorem C01_partition (X : ExpTab) (cfg : Cfg) (hbf : 2 ≤ cfg.bf) (F : Nat) (ops : List Op)
    (hwf : ∀ op ∈ ops, op.WF F) (sort : Bool) :
    ((run X (init cfg) ops).clusters sort).flatten.Perm (List.range (run X (init cfg) ops).numFitted) :=
  C01_partition_generic (refPolicy X) (refPolicy_valid X) cfg hbf F ops hwf sort

/-- the reported number of fitted fingerprints equals the number of labels in the clusters -/
theorem C01_count (X : ExpTab) (cfg : Cfg) (hbf : 2 ≤ cfg.bf) (F : Nat) (ops : List Op)
    (hwf : ∀ op ∈ ops, op.WF F) (sort : Bool) :
    ((run X (init cfg) ops).clusters sort).flatten.length = (run X (init cfg) ops).numFitted := by
  have := (C01_partition X cfg hbf F ops hwf sort).length_eq
  simpa using this

/-- no label occurs twice, neither inside a cluster nor in two clusters -/
theorem C01_nodup (X : ExpTab) (cfg : Cfg) (hbf : 2 ≤ cfg.bf) (F : Nat) (ops : List Op)
    (hwf : ∀ op ∈ ops, op.WF F) (sort : Bool) :
    ((run X (init cfg) ops).clusters sort).flatten.Nodup :=
  (C01_partition X cfg hbf F ops hwf sort).nodup_iff.mpr List.nodup_range

/-- every label below `numFitted` is in some cluster, and nothing else is -/
theorem C01_mem (X : ExpTab) (cfg : Cfg) (hbf : 2 ≤ cfg.bf) (F : Nat) (ops : List Op)
    (hwf : ∀ op ∈ ops, op.WF F) (sort : Bool) (i : Nat) :
    (∃ c ∈ (run X (init cfg) ops).clusters sort, i ∈ c) ↔ i < (run X (init cfg) ops).numFitted := by
  have := (C01_partition X cfg hbf F ops hwf sort).mem_iff (a := i)
  simpa [List.mem_flatten] using this

/-- `reset` returns to the freshly constructed estimator (so a history is the history since the last reset) -/
theorem C01_reset (pol : Cfg → Policy) (e : Est) : (stepWith pol e .reset).1 = init e.cfg := rfl

/-! Non-vacuity: a concrete history with a failing fit, a refinement, a re-clustering, a
change of settings, deletion of internal nodes and a reset meets the hypotheses. -/
example : ∀ op ∈ ([.fit [[true, true, false], [true, false, false], [true], [false, true, true]] none,
      .refine 1 [[true, true, false], [true, false, false]] 0 true, .recluster 2 (1/20) [some [1, 0], none] true,
      .setMerge (some (.name "tolerance-diameter")) (some (1/10)) none (some 3), .delInternal, .reset,
      .fit [[false, false, true]] none] : List Op), op.WF 3 := by
  intro op hop
  simp only [List.mem_cons, List.not_mem_nil, or_false] at hop
  rcases hop with rfl | rfl | rfl | rfl | rfl | rfl | rfl <;> simp [Op.WF]

end BB
