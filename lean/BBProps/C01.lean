/-
C01 — every fitted fingerprint ends in exactly one cluster.

After any history of fit / refine / recluster / set_merge / setters / delete_internal_nodes
/ reset (with any routing, split and merge decisions satisfying `Policy.Valid`, in
particular the code's own), the reported clusters partition the labels `0 .. numFitted-1`.
-/
import BBProofs.Ops
import BBProofs.Labels
import BBProofs.RefPolicy
import BBProofs.GenEq2
import BBProofs.GenEq6

namespace BB

/-- state-independent well-formedness of an operation for feature count `F`: labels are
implicit, the first row of every `fit` and the data given to `refine` have `F` features
(any *other* row may be malformed: the fit then fails there and keeps the rows before it),
branching factors are at least 2 -/
def Op.WF (F : Nat) : Op → Prop
  | .fit rows labels => labels = none ∧ ∀ r0, rows.head? = some r0 → r0.length = F
  | .refine _ data _ _ => ∀ r ∈ data, r.length = F
  | .setMerge _ _ _ b => ∀ b', b = some b' → 2 ≤ b'
  | .setBf b => 2 ≤ b
  | _ => True

theorem runOK_of_wf (pol : Cfg → Policy) (F : Nat) : ∀ (ops : List Op) (e : Est),
    (∀ op ∈ ops, op.WF F) → RunOK pol F (fun _ => True) e ops
  | [], _, _ => trivial
  | op :: ops, e, h => by
    refine ⟨?_, runOK_of_wf pol F ops _ (fun o ho => h o (List.mem_cons_of_mem _ ho))⟩
    have hop := h op (by simp)
    cases op with
    | fit rows labels => exact ⟨hop.1, hop.2, fun _ _ _ _ => trivial, fun _ _ _ _ _ => trivial⟩
    | refine n data im srt => exact ⟨hop, fun _ _ _ _ => trivial, fun _ _ _ _ _ => trivial⟩
    | recluster it extra perms stop => exact fun _ _ _ _ _ _ _ _ => trivial
    | setMerge c t th b => exact hop
    | setBf b => exact hop
    | setThr t => trivial
    | delInternal => trivial
    | reset => trivial

/-- the invariant holds along every well-formed history, for every valid family of policies -/
theorem C01_invariant (pol : Cfg → Policy) (hpol : ∀ cfg, (pol cfg).Valid) (cfg : Cfg) (hbf : 2 ≤ cfg.bf)
    (F : Nat) (ops : List Op) (hwf : ∀ op ∈ ops, op.WF F) :
    EInv F (fun _ => True) (runWith pol (init cfg) ops) :=
  run_inv pol hpol F _ (fun _ _ => trivial) ops _ (init_inv F _ cfg hbf) (runOK_of_wf pol F ops _ hwf)

/-- **C01 (policy-generic)**: the reported clusters, sorted or in leaf order, are a permutation
of the labels `0 .. numFitted-1` — every label in exactly one cluster, none invented -/
theorem C01_partition_generic (pol : Cfg → Policy) (hpol : ∀ cfg, (pol cfg).Valid) (cfg : Cfg)
    (hbf : 2 ≤ cfg.bf) (F : Nat) (ops : List Op) (hwf : ∀ op ∈ ops, op.WF F) (sort : Bool) :
    ((runWith pol (init cfg) ops).clusters sort).flatten.Perm
      (List.range (runWith pol (init cfg) ops).numFitted) :=
  clusters_perm F _ _ (C01_invariant pol hpol cfg hbf F ops hwf) sort

/-- **C01** for the decisions the code takes (`refPolicy`), any exp table -/
theorem C01_partition (X : ExpTab) (cfg : Cfg) (hbf : 2 ≤ cfg.bf) (F : Nat) (ops : List Op)
    (hwf : ∀ op ∈ ops, op.WF F) (sort : Bool) :
    ((run X (init cfg) ops).clusters sort).flatten.Perm (List.range (run X (init cfg) ops).numFitted) :=
  C01_partition_generic (refPolicy X) (refPolicy_valid X) cfg hbf F ops hwf sort

/-- the reported number of fitted fingerprints equals the number of labels in the clusters -/
theorem C01_count (X : ExpTab) (cfg : Cfg) (hbf : 2 ≤ cfg.bf) (F : Nat) (ops : List Op)
    (hwf : ∀ op ∈ ops, op.WF F) (sort : Bool) :
    ((run X (init cfg) ops).clusters sort).flatten.length = (run X (init cfg) ops).numFitted := by
  have := (C01_partition X cfg hbf F ops hwf sort).length_eq
  simpa using this

/-- no label occurs twice, neither inside a cluster nor in two clusters -/
theorem C01_nodup (X : ExpTab) (cfg : Cfg) (hbf : 2 ≤ cfg.bf) (F : Nat) (ops : List Op)
    (hwf : ∀ op ∈ ops, op.WF F) (sort : Bool) :
    ((run X (init cfg) ops).clusters sort).flatten.Nodup :=
  (C01_partition X cfg hbf F ops hwf sort).nodup_iff.mpr List.nodup_range

/-- every label below `numFitted` is in some cluster, and nothing else is -/
theorem C01_mem (X : ExpTab) (cfg : Cfg) (hbf : 2 ≤ cfg.bf) (F : Nat) (ops : List Op)
    (hwf : ∀ op ∈ ops, op.WF F) (sort : Bool) (i : Nat) :
    (∃ c ∈ (run X (init cfg) ops).clusters sort, i ∈ c) ↔ i < (run X (init cfg) ops).numFitted := by
  have := (C01_partition X cfg hbf F ops hwf sort).mem_iff (a := i)
  simpa [List.mem_flatten] using this

/-- `reset` returns to the freshly constructed estimator (so a history is the history since the last reset) -/
theorem C01_reset (pol : Cfg → Policy) (e : Est) : (stepWith pol e .reset).1 = init e.cfg := rfl

/-! Non-vacuity: a concrete history with a failing fit, a refinement, a re-clustering, a
change of settings, deletion of internal nodes and a reset meets the hypotheses. -/
example : ∀ op ∈ ([.fit [[true, true, false], [true, false, false], [true], [false, true, true]] none,
      .refine 1 [[true, true, false], [true, false, false]] 0 true, .recluster 2 (1/20) [some [1, 0], none] true,
      .setMerge (some (.name "tolerance-diameter")) (some (1/10)) none (some 3), .delInternal, .reset,
      .fit [[false, false, true]] none] : List Op), op.WF 3 := by
  intro op hop
  simp only [List.mem_cons, List.not_mem_nil, or_false] at hop
  rcases hop with rfl | rfl | rfl | rfl | rfl | rfl | rfl <;> simp [Op.WF]

/-! ## C01 with explicit labels

`fit(X, reinsert_indices=ls)` inserts row `i` under the label `ls[i]`: an arbitrary number,
possibly a duplicate, possibly colliding with an implicit label.  The reported clusters then
hold exactly the labels that were inserted since the last reset — `labelsOf`, accumulated
through the model's own step function (`BBProofs/Labels.lean`): a `fit` contributes the labels
of the rows inserted before it stopped (`ls.zip rows` truncates to the shorter list), `reset`
forgets everything, every other operation contributes nothing.  `Op.WFL F` is `Op.WF F`
without the demand `labels = none`: NO side condition on the labels is needed. -/

/-- `Op.WF` = `Op.WFL` + "labels implicit" -/
theorem C01_wf_iff_wfl (F : Nat) (op : Op) :
    op.WF F ↔ op.WFL F ∧ ∀ rows labels, op = .fit rows labels → labels = none := by
  cases op <;> simp [Op.WF, Op.WFL, and_comm]

/-- the invariant with labels holds along every history, for every valid family of policies -/
theorem C01_labels_invariant (pol : Cfg → Policy) (hpol : ∀ cfg, (pol cfg).Valid) (cfg : Cfg) (hbf : 2 ≤ cfg.bf)
    (F : Nat) (ops : List Op) (hwf : ∀ op ∈ ops, op.WFL F) :
    LInv F (labelsOf pol (init cfg) ops : List Nat) (runWith pol (init cfg) ops) :=
  run_linv pol hpol F ops [] _ (init_linv F cfg hbf) hwf

/-- **C01 with labels (policy-generic)**: the reported clusters, sorted or in leaf order, hold
exactly the labels inserted since the last reset, with their multiplicities — none lost, none
invented, none duplicated.  No condition on the labels. -/
theorem C01_labels_generic (pol : Cfg → Policy) (hpol : ∀ cfg, (pol cfg).Valid) (cfg : Cfg)
    (hbf : 2 ≤ cfg.bf) (F : Nat) (ops : List Op) (hwf : ∀ op ∈ ops, op.WFL F) (sort : Bool) :
    ((((runWith pol (init cfg) ops).clusters sort).flatten : List Nat) : Multiset Nat)
      = (labelsOf pol (init cfg) ops : List Nat) :=
  clusters_labels F _ _ (C01_labels_invariant pol hpol cfg hbf F ops hwf) sort

/-- **C01 with labels** for the decisions the code takes (`refPolicy`), any exp table -/
theorem C01_labels (X : ExpTab) (cfg : Cfg) (hbf : 2 ≤ cfg.bf) (F : Nat) (ops : List Op)
    (hwf : ∀ op ∈ ops, op.WFL F) (sort : Bool) :
    ((((run X (init cfg) ops).clusters sort).flatten : List Nat) : Multiset Nat)
      = (labelsOf (refPolicy X) (init cfg) ops : List Nat) :=
  C01_labels_generic (refPolicy X) (refPolicy_valid X) cfg hbf F ops hwf sort

/-- the same as a permutation of lists -/
theorem C01_labels_perm (X : ExpTab) (cfg : Cfg) (hbf : 2 ≤ cfg.bf) (F : Nat) (ops : List Op)
    (hwf : ∀ op ∈ ops, op.WFL F) (sort : Bool) :
    ((run X (init cfg) ops).clusters sort).flatten.Perm (labelsOf (refPolicy X) (init cfg) ops) :=
  Multiset.coe_eq_coe.mp (C01_labels X cfg hbf F ops hwf sort)

/-- if the inserted labels are distinct, no label occurs twice in the report, neither inside
a cluster nor in two clusters -/
theorem C01_labels_nodup (X : ExpTab) (cfg : Cfg) (hbf : 2 ≤ cfg.bf) (F : Nat) (ops : List Op)
    (hwf : ∀ op ∈ ops, op.WFL F) (sort : Bool) (hnd : (labelsOf (refPolicy X) (init cfg) ops).Nodup) :
    ((run X (init cfg) ops).clusters sort).flatten.Nodup :=
  (C01_labels_perm X cfg hbf F ops hwf sort).nodup_iff.mpr hnd

/-- a label occurs in the report exactly as often as it was inserted -/
theorem C01_labels_count_eq (X : ExpTab) (cfg : Cfg) (hbf : 2 ≤ cfg.bf) (F : Nat) (ops : List Op)
    (hwf : ∀ op ∈ ops, op.WFL F) (sort : Bool) (i : Nat) :
    ((run X (init cfg) ops).clusters sort).flatten.count i = (labelsOf (refPolicy X) (init cfg) ops).count i :=
  (C01_labels_perm X cfg hbf F ops hwf sort).count_eq i

/-- a label is in some cluster iff it was inserted since the last reset -/
theorem C01_labels_mem (X : ExpTab) (cfg : Cfg) (hbf : 2 ≤ cfg.bf) (F : Nat) (ops : List Op)
    (hwf : ∀ op ∈ ops, op.WFL F) (sort : Bool) (i : Nat) :
    (∃ c ∈ (run X (init cfg) ops).clusters sort, i ∈ c) ↔ i ∈ labelsOf (refPolicy X) (init cfg) ops := by
  have := (C01_labels_perm X cfg hbf F ops hwf sort).mem_iff (a := i)
  simpa [List.mem_flatten] using this

/-- `numFitted` is the number of rows inserted since the last reset, whatever their labels
(also after `refine` and `recluster`, which recompute it), and it is the number of labels reported -/
theorem C01_labels_count (X : ExpTab) (cfg : Cfg) (hbf : 2 ≤ cfg.bf) (F : Nat) (ops : List Op)
    (hwf : ∀ op ∈ ops, op.WFL F) (sort : Bool) :
    (run X (init cfg) ops).numFitted = (labelsOf (refPolicy X) (init cfg) ops).length ∧
    ((run X (init cfg) ops).clusters sort).flatten.length = (run X (init cfg) ops).numFitted := by
  have h1 : (run X (init cfg) ops).numFitted = (labelsOf (refPolicy X) (init cfg) ops).length := by
    simpa [run] using (C01_labels_invariant (refPolicy X) (refPolicy_valid X) cfg hbf F ops hwf).cnt
  exact ⟨h1, by rw [h1]; exact (C01_labels_perm X cfg hbf F ops hwf sort).length_eq⟩

/-- with implicit labels everywhere (`Op.WF`) the inserted labels are `0 .. numFitted-1`, in
this order: `C01_partition` is the special case `labels = none` of `C01_labels` -/
theorem C01_labels_implicit (pol : Cfg → Policy) (hpol : ∀ cfg, (pol cfg).Valid) (cfg : Cfg)
    (hbf : 2 ≤ cfg.bf) (F : Nat) (ops : List Op) (hwf : ∀ op ∈ ops, op.WF F) :
    labelsOf pol (init cfg) ops = List.range (runWith pol (init cfg) ops).numFitted :=
  labelsAcc_range pol hpol F ops (init cfg) (init_linv F cfg hbf)
    (fun op h => ((C01_wf_iff_wfl F op).mp (hwf op h)).1)
    (fun rows labels h => ((C01_wf_iff_wfl F _).mp (hwf _ h)).2 rows labels rfl)

/-- `C01_partition_generic` again, from `C01_labels_generic` and `C01_labels_implicit` -/
example (pol : Cfg → Policy) (hpol : ∀ cfg, (pol cfg).Valid) (cfg : Cfg)
    (hbf : 2 ≤ cfg.bf) (F : Nat) (ops : List Op) (hwf : ∀ op ∈ ops, op.WF F) (sort : Bool) :
    ((runWith pol (init cfg) ops).clusters sort).flatten.Perm
      (List.range (runWith pol (init cfg) ops).numFitted) := by
  rw [← C01_labels_implicit pol hpol cfg hbf F ops hwf]
  exact Multiset.coe_eq_coe.mp (C01_labels_generic pol hpol cfg hbf F ops
    (fun op h => ((C01_wf_iff_wfl F op).mp (hwf op h)).1) sort)

/-- what a `fit` with explicit labels adds when all its rows are well-formed and the internal
nodes are still there: the labels zipped with the rows (all of `ls` when there are at least as
many rows as labels) -/
theorem C01_labels_fit (pol : Cfg → Policy) (hpol : ∀ cfg, (pol cfg).Valid) (cfg : Cfg)
    (hbf : 2 ≤ cfg.bf) (F : Nat) (ops : List Op) (hwf : ∀ op ∈ ops, op.WFL F)
    (rows : List Row) (ls : List Nat) (hrows : ∀ r ∈ rows, r.length = F)
    (hlo : (runWith pol (init cfg) ops).st.isLeavesOnly = false) :
    labelsOf pol (init cfg) (ops ++ [.fit rows (some ls)])
      = labelsOf pol (init cfg) ops ++ ls.take rows.length := by
  rw [labelsOf_snoc]
  simp only [stepLabels]
  rw [opLabels_fit_all pol hpol F _ _ (C01_labels_invariant pol hpol cfg hbf F ops hwf) rows ls hrows hlo]

/-- `reset` forgets the labels: a history is the history since the last reset -/
theorem C01_labels_reset (pol : Cfg → Policy) (cfg : Cfg) (ops ops' : List Op) :
    labelsOf pol (init cfg) (ops ++ .reset :: ops')
      = labelsOf pol (init (runWith pol (init cfg) ops).cfg) ops' :=
  labelsOf_reset pol _ ops ops'

/-! Explicit labels with a duplicate: three rows under the labels `5, 5, 9` (the two equal
rows merge), one more row under the implicit label `numFitted = 3`, then a fit whose second
row is malformed (only the label `7` goes in, `8` does not) and one with more rows than labels
(`zip` truncates: one row, label `3` again); the root has split (`bf = 2`), so
`delete_internal_nodes` is effective.  The report holds exactly these labels. -/
example :
    let X : ExpTab := { E := fun _ => 0, off := 0 }
    let cfg : Cfg := { thr := 13/20, bf := 2, merge := { crit := .diameter } }
    let ops : List Op :=
      [.fit [[true, true, false], [true, true, false], [false, false, true]] (some [5, 5, 9]),
       .fit [[false, true, true]] none,
       .fit [[true, true, false], [true], [true, false, false]] (some [7, 8, 8]),
       .fit [[false, false, true], [false, true, true]] (some [3]),
       .delInternal]
    (∀ op ∈ ops, op.WFL 3) ∧
    labelsOf (refPolicy X) (init cfg) ops = [5, 5, 9, 3, 7, 3] ∧
    (run X (init cfg) ops).clusters false = [[5, 5, 7], [9, 3], [3]] ∧
    (run X (init cfg) ops).numFitted = 6 := by
  intro X cfg ops
  refine ⟨?_, ?_, ?_, ?_⟩
  · intro op hop
    simp only [ops, List.mem_cons, List.not_mem_nil, or_false] at hop
    rcases hop with rfl | rfl | rfl | rfl | rfl <;> simp [Op.WFL]
  all_goals decide +kernel


/-! ## The same for the code itself (`_BFSubcluster.update` / `merge_subcluster`, translated on this run) -/

/-- code: `update` and an accepted `merge_subcluster` concatenate the two member lists (no label is lost, duplicated or
invented); a rejected merge leaves the member list alone -/
theorem C01_code_member_lists (expf : Rat → Rat) (m : MergeFn) (thr : Rat) (c s : Clu) (child scent schild : PV)
    (hc : CluOk c) (hs : CluOk s) (hlen : c.ls.length = s.ls.length) (hn : c.n + s.n < 2 ^ 53)
    (hnew : SumOk (c.mergedSummary s)) (hold : SumOk c.summary) (hO : 1 ≤ c.n) :
    (BBGen._BFSubcluster_update expf (bufOf c) (PV.arr .u8 (pack c.cent)) child (PV.arr .big c.ids)
        (bufOf s) scent schild (PV.arr .big s.ids)).getD 3 PV.pynone = PV.arr .big (c.ids ++ s.ids)
    ∧ (BBGen._BFSubcluster_merge_subcluster expf (bufOf c) (PV.arr .u8 (pack c.cent)) child (PV.arr .big c.ids)
        (bufOf s) scent schild (PV.arr .big s.ids) (PV.flt (some thr)) (objOf expf m)).getD 4 PV.pynone
      = PV.arr .big (if accept m (tabOf expf) thr (c.mergedSummary s) c.summary s.summary then c.ids ++ s.ids else c.ids) := by
  constructor
  · rw [gen_update expf c s child scent schild hc hs hlen hn]
    simp [stateOf, Clu.update]
  · rw [gen_merge_subcluster expf m thr c s child scent schild hc hs hlen hn hnew hold hO]
    by_cases ha : accept m (tabOf expf) thr (c.mergedSummary s) c.summary s.summary = true
    · simp [ha, stateOf, Clu.merge]
    · simp [ha, stateOf]


/-- code: a fitted fingerprint enters the tree as a singleton object carrying exactly its own label (count 1, the row as
sums and as centroid) -/
theorem C01_code_singleton (expf : Rat → Rat) (r : Row) (label : Nat) (wi : W) (nf : PV) (check : Bool) :
    BBGen._BFSubcluster_init expf (PV.arr .u8 (rowToNat r)) (PV.arr wi [label]) nf PV.pynone (PV.bool check)
      = PV.pynone :: stateOf (Clu.ofRow r label) PV.pynone :=
  gen_subcluster_init_row expf r label wi nf check

end BB
