/-
C12 — Tanimoto, centroid, medoid and bit-packing primitives are exact.
-/
import BBProofs.Bits
import BBProofs.Fl
import BBProofs.RefPolicy
import BBProofs.GenEq

namespace BB

theorem popc_orRow (a b : Row) (h : a.length = b.length) :
    popc (orRow a b) + popc (andRow a b) = popc a + popc b := by
  induction a generalizing b with
  | nil => cases b <;> simp_all [popc, orRow, andRow]
  | cons x a ih =>
    cases b with
    | nil => simp at h
    | cons y b =>
      have := ih b (by simpa using h)
      simp only [popc, orRow, andRow, List.zipWith_cons_cons, List.count_cons] at this ⊢
      cases x <;> cases y <;> simp <;> omega

/-- pairwise Tanimoto of packed fingerprints = |A∧B| / |A∨B| correctly rounded, whenever the union
is non-empty -/
theorem C12_jt (a b : Row) (h : a.length = b.length) (hu : 0 < popc (orRow a b)) :
    jtPacked (pack a) (pack b) = rnd ((popc (andRow a b) : ℚ) / (popc (orRow a b) : ℚ)) := by
  rw [jtPacked_pack a b h]
  have ho := popc_orRow a b h
  unfold jtBits jtCounts fdiv
  have : max (popc a + popc b - popc (andRow a b)) 1 = popc (orRow a b) := by omega
  rw [this]

/-- two empty fingerprints: 0 (a finite value in [0,1]) -/
theorem C12_jt_empty (a b : Row) (ha : popc a = 0) : jtBits a b = 0 :=
  jtBits_eq_zero_of_popc_eq_zero_left a b ha

/-- always within [0, 1] -/
theorem C12_jt_range (a b : Row) : 0 ≤ jtBits a b ∧ jtBits a b ≤ 1 :=
  ⟨jtBits_nonneg rnd_monotone rnd_zero a b, jtBits_le_one rnd_monotone rnd_one a b⟩

/-- symmetric -/
theorem C12_symm (a b : Row) : jtBits a b = jtBits b a := jtBits_comm a b

/-- the matrix form agrees with the pairwise form off the diagonal and is symmetric -/
theorem C12_matrix (rows : List Row) (i j : Nat) (hi : i < rows.length) (hj : j < rows.length) (hij : i ≠ j) :
    ((simMatrix rows).getD i []).getD j 0 = jtBits (rows.getD i []) (rows.getD j []) := by
  unfold simMatrix
  simp only [List.getD_eq_getElem?_getD, List.getElem?_map, List.getElem?_range hi, List.getElem?_range hj,
    Option.map_some, Option.getD_some, hij, if_false]
  split
  · exact jtBits_comm _ _
  · rfl

theorem C12_matrix_diag (rows : List Row) (i : Nat) (hi : i < rows.length) :
    ((simMatrix rows).getD i []).getD i 0 = 1 := by
  unfold simMatrix
  simp [List.getD_eq_getElem?_getD, List.getElem?_map, List.getElem?_range hi]

/-- popcount through the uint64 view = popcount over bytes (any byte count) -/
theorem C12_word_byte (bs : List Nat) (h : ∀ b ∈ bs, b < 256) : popWords bs = popBytes bs :=
  popWords_eq_popBytes' bs h

/-- the packed computation equals the computation on bits for every byte width -/
theorem C12_packed (a b : Row) (h : a.length = b.length) : jtPacked (pack a) (pack b) = jtBits a b :=
  jtPacked_pack a b h

/-- unpacking inverts packing for every feature count -/
theorem C12_unpack_pack (r : Row) : unpack (pack r) r.length = r := unpack_pack r

theorem C12_pack_unpack (bs : List Nat) (h : ∀ b ∈ bs, b < 256) : pack (unpack bs (8 * bs.length)) = bs :=
  pack_unpack bs h

theorem C12_pack_length (r : Row) : (pack r).length = (r.length + 7) / 8 := pack_length r

/-- the centroid is the per-bit majority with ties set -/
theorem C12_centroid (rows : List Row) (hn : 2 ≤ rows.length) (i : Nat) :
    (centroidFromSum (colSum rows) rows.length).getD i false =
      decide (rows.length ≤ 2 * (rows.filter (fun r => r.getD i false)).length) :=
  centroid_majority' rows hn i

/-- the medoid is a member minimising complementary similarity -/
theorem C12_medoid (rows : List Row) (h : 3 ≤ rows.length) (j : Nat) (hj : j < rows.length) :
    medoidIdx rows < rows.length ∧
    optVal ((complIsim rows).getD (medoidIdx rows) none) ≤ optVal ((complIsim rows).getD j none) := by
  have hlt := medoidIdx_lt rows (by omega)
  refine ⟨hlt, ?_⟩
  unfold medoidIdx at hlt ⊢
  have h3 : ¬ rows.length < 3 := by omega
  simp only [h3, if_false] at hlt ⊢
  have hlen : ((complIsim rows).map optVal).length = rows.length := by
    unfold complIsim; split <;> simp
  have hmin := argminFirst_min ((complIsim rows).map optVal) j (by rw [hlen]; exact hj)
  simp only [List.getElem_map] at hmin
  have hl2 : (complIsim rows).length = rows.length := by simpa using hlen
  rw [List.getD_eq_getElem?_getD, List.getD_eq_getElem?_getD,
    List.getElem?_eq_getElem (by rw [hl2]; exact hlt), List.getElem?_eq_getElem (by rw [hl2]; exact hj)]
  exact hmin

/-- the most-dissimilar search returns valid row indices together with the similarities to exactly
those rows -/
theorem C12_dissim (Y : List Row) (hne : Y ≠ []) :
    (mostDissimilar Y).1 < Y.length ∧ (mostDissimilar Y).2.1 < Y.length ∧
    (mostDissimilar Y).2.2.1 = Y.map (fun y => jtBits y (Y.getD (mostDissimilar Y).1 [])) ∧
    (mostDissimilar Y).2.2.2 = Y.map (fun y => jtBits y (Y.getD (mostDissimilar Y).2.1 [])) := by
  have h := mostDissimilar_spec' Y hne
  exact ⟨h.1, h.2.1, h.2.2.1, h.2.2.2.1⟩

/-! Non-vacuity. -/
example : jtPacked (pack [true, true, false, false, true, false, false, false, true])
    (pack [true, false, false, false, true, false, false, false, false]) = rnd (2 / 4) := by decide +kernel

/-! ## The same for the code itself

`BBGen.*` is the Lean text `tools/py2lean.py` wrote from the Python sources on this run; `PV` is the
Python / NumPy value algebra of `BBModel/PyNum.lean` (see `BBProofs/GenEq.lean`). -/

/-- code: `centroid_from_sum(ls, n, pack=False)` is the majority vote with ties set -/
theorem C12_code_centroid (expf : Rat → Rat) (w : W) (ls : List Nat) (n : Nat)
    (hk : ∀ k ∈ ls, k ≤ n) (hn : n < 2 ^ 53) :
    BBGen.centroid_from_sum expf (PV.arr w ls) (PV.int n) (PV.bool false)
      = PV.arr .u8 (rowToNat (centroidFromSum ls n)) := gen_centroid_unpacked expf w ls n hk hn

/-- code: `centroid_from_sum(ls, n)` (packed) is `np.packbits` of the same bits -/
theorem C12_code_centroid_packed (expf : Rat → Rat) (w : W) (ls : List Nat) (n : Nat)
    (hk : ∀ k ∈ ls, k ≤ n) (hn : n < 2 ^ 53) :
    BBGen.centroid_from_sum expf (PV.arr w ls) (PV.int n) (PV.bool true)
      = PV.arr .u8 (pack (centroidFromSum ls n)) := gen_centroid_packed expf w ls n hk hn


/-- code: bit `i` of the centroid the translated `centroid_from_sum` returns for `n ≥ 2` samples is set iff at least half of
the samples have it (`n ≤ 2·k_i`: ties set) -/
theorem C12_code_majority (expf : Rat → Rat) (w : W) (ls : List Nat) (n : Nat) (h2 : 2 ≤ n)
    (hk : ∀ k ∈ ls, k ≤ n) (hn : n < 2 ^ 53) :
    BBGen.centroid_from_sum expf (PV.arr w ls) (PV.int n) (PV.bool false)
      = PV.arr .u8 (ls.map (fun k => if n ≤ 2 * k then 1 else 0)) := by
  rw [gen_centroid_unpacked expf w ls n hk hn]
  have : ¬ n ≤ 1 := by omega
  simp [centroidFromSum, this, rowToNat, List.map_map, Function.comp]

end BB
