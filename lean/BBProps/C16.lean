/-
C16 — the fingerprint-file utilities preserve content and order.

`fp : String → Option Row` is an arbitrary fingerprint generator (`none` = invalid SMILES);
everything is for `skip_invalid = True`.

* `C16_batches`   — `batched` / `_iter_ranges_and_smiles_batches` / `_iter_idxs_and_smiles_batches`
* `C16_concat`    — `bb fps-from-smiles`: the part files, in list order and in sorted-name
                    order, and the single shared-memory file all hold exactly the fingerprints
                    of the valid SMILES in input order (= the in-process `fps_from_smiles`)
* `C16_concat_any_order` — the shared-memory result does not depend on the order in which the
                    pool executes the range tasks
* `C16_invalid`   — the reported invalid indices
* `C16_digits`    — the CLI's own choice of `digits` is wide enough
* `C16_split_merge`, `C16_shuffle` — `bb fps-split` / `fps-merge` / `fps-shuffle`
* `C16_fileseq`, `C16_fileseq_rows`, `C16_fileseq_err` — `_get_fingerprints_from_file_seq`
-/
import BBProofs.FileSeq
import BBProofs.GenEq11

namespace BB.Files
open BB BB.MR

/-- `batched n xs` cuts `xs` into consecutive non-empty pieces of length `n` (the last one
possibly shorter); the ranges of `rangeBatches` start at `0`, are consecutive, end at
`xs.length`, and range `i` is as long as batch `i`; `idxBatches` numbers the same batches -/
theorem C16_batches {α : Type} (n : Nat) (hn : 1 ≤ n) (xs : List α) :
    (batched n xs).flatten = xs ∧
    (∀ b ∈ batched n xs, b ≠ [] ∧ b.length ≤ n) ∧
    (∀ b ∈ (batched n xs).dropLast, b.length = n) ∧
    (rangeBatches n xs).map (·.2) = batched n xs ∧
    (∀ r ∈ rangeBatches n xs, r.1.2 = r.1.1 + r.2.length) ∧
    (∀ i (h : i + 1 < (rangeBatches n xs).length),
      (rangeBatches n xs)[i + 1].1.1 = (rangeBatches n xs)[i].1.2) ∧
    (∀ r, (rangeBatches n xs).head? = some r → r.1.1 = 0) ∧
    (∀ r, (rangeBatches n xs).getLast? = some r → r.1.2 = xs.length) ∧
    (idxBatches n xs).map (·.2) = batched n xs ∧
    (idxBatches n xs).map (·.1) = List.range (batched n xs).length := by
  refine ⟨batched_flatten hn xs, batched_mem hn xs, batched_dropLast hn xs, rangesFrom_map_snd 0 _,
    ?_, ?_, ?_, ?_, ?_, ?_⟩
  · intro r hr
    obtain ⟨i, hi, rfl⟩ := List.mem_iff_getElem.mp hr
    unfold rangeBatches at hi ⊢
    rw [rangesFrom_getElem]
    have hi' : i < (batched n xs).length := by rw [rangesFrom_length] at hi; exact hi
    simp only [List.take_add_one, List.getElem?_eq_getElem hi', Option.toList_some, List.flatten_append,
      List.length_append, List.flatten_cons, List.flatten_nil, List.append_nil]
    omega
  · intro i h
    unfold rangeBatches at h ⊢
    rw [rangesFrom_getElem, rangesFrom_getElem]
  · intro r hr
    unfold rangeBatches at hr
    rw [List.head?_eq_getElem?] at hr
    obtain ⟨h0, e⟩ := List.getElem?_eq_some_iff.mp hr
    rw [rangesFrom_getElem] at e
    rw [← e]; simp
  · intro r hr
    unfold rangeBatches at hr
    rw [List.getLast?_eq_getElem?] at hr
    obtain ⟨h0, e⟩ := List.getElem?_eq_some_iff.mp hr
    rw [rangesFrom_getElem] at e
    have e2 := congrArg (fun r => r.1.2) e
    simp only at e2
    rw [rangesFrom_length] at h0 e2
    have : (batched n xs).length - 1 + 1 = (batched n xs).length := by omega
    rw [← e2, this, List.take_length, batched_flatten hn]
    omega
  · unfold idxBatches
    simp only [List.map_map]
    exact List.zipIdx_map_fst 0 _
  · unfold idxBatches
    simp only [List.map_map]
    rw [List.range_eq_range', ← List.zipIdx_map_snd 0 (batched n xs)]
    rfl

/-- `bb fps-from-smiles --skip-invalid`, whatever `per ≥ 1` (number of parts) and `digits`:
(a) the part files concatenated in list (task) order are exactly the fingerprints of the valid
SMILES in input order, i.e. the result of the in-process `fps_from_smiles`;
(b) with `digits = some d` and at most `10 ^ d` batches the names are strictly increasing, so
list order is sorted-name order and `bb fps-merge` of the parts gives the same rows;
(c) the single-file shared-memory branch returns the same rows and the same invalid indices
as `fps_from_smiles`. -/
theorem C16_concat (fp : String → Option Row) (smiles : List String) (per : Nat) (hper : 1 ≤ per) :
    (∀ digits out, ((partFiles fp smiles per digits out).map (·.2)).flatten = (fpsFromSmiles fp smiles).1) ∧
    (fpsFromSmiles fp smiles).1 = smiles.filterMap fp ∧
    (∀ d out, (batched per smiles).length ≤ 10 ^ d →
      ((partFiles fp smiles per (some d) out).map (·.1)).Pairwise (· < ·) ∧
      mergeFiles (partFiles fp smiles per (some d) out) = (fpsFromSmiles fp smiles).1) ∧
    singleFile fp smiles per = fpsFromSmiles fp smiles := by
  have ha : ∀ digits out, ((partFiles fp smiles per digits out).map (·.2)).flatten = (fpsFromSmiles fp smiles).1 := by
    intro digits out
    rw [partFiles_map_snd, map_filterMap_flatten, batched_flatten hper, fpsFromSmiles_fst]
  refine ⟨ha, fpsFromSmiles_fst fp smiles, ?_, ?_⟩
  · intro d out hd
    have hp : ((partFiles fp smiles per (some d) out).map (·.1)).Pairwise (· < ·) := by
      rw [partFiles_map_fst]; exact partName_pairwise out d _ hd
    exact ⟨hp, by rw [mergeFiles_of_pairwise _ hp, ha]⟩
  · exact runTasks_perm fp smiles per hper _ (List.Perm.refl _)

/-- the shared-memory branch gives the result of `fps_from_smiles` for every order in which
the worker pool executes the range tasks -/
theorem C16_concat_any_order (fp : String → Option Row) (smiles : List String) (per : Nat) (hper : 1 ≤ per)
    (tasks : List ((Nat × Nat) × List String)) (hp : tasks.Perm (rangeBatches per smiles)) :
    runTasks fp smiles.length tasks = fpsFromSmiles fp smiles :=
  runTasks_perm fp smiles per hper tasks hp

/-- the invalid indices reported by `fps_from_smiles` (hence by the shared-memory branch) are
exactly the positions `i` with `fp smiles[i] = none`, in increasing order -/
theorem C16_invalid (fp : String → Option Row) (smiles : List String) :
    (fpsFromSmiles fp smiles).2.Pairwise (· < ·) ∧
    ∀ i, i ∈ (fpsFromSmiles fp smiles).2 ↔ ∃ h : i < smiles.length, fp smiles[i] = none := by
  refine ⟨invalidIdxs_sorted fp smiles, fun i => ?_⟩
  rw [fpsFromSmiles_snd, mem_invalidIdxs]
  constructor
  · rintro ⟨s, h1, h2⟩
    obtain ⟨h, e⟩ := List.getElem?_eq_some_iff.mp h1
    exact ⟨h, by rw [e]; exact h2⟩
  · rintro ⟨h, e⟩
    exact ⟨smiles[i], by simp [h], e⟩

/-- `parse_num_per_batch`: whenever a split is requested (`--num-parts` or `--max-fps-per-file`)
`digits = len(str(parts))`, and the number of batches of ANY input of `total` elements is at most
`parts ≤ 10 ^ digits` — the hypothesis of `C16_concat` (b) holds for the CLI's own choice -/
theorem C16_digits {α : Type} (total : Nat) (parts maxPer : Option Nat) (p per : Nat) (dg : Option Nat)
    (h : numPerBatch total parts maxPer = some (p, per, dg)) (hreq : parts.isSome ∨ maxPer.isSome)
    (xs : List α) (hx : xs.length = total) :
    dg = some (toString p).length ∧ (batched per xs).length ≤ p ∧ p ≤ 10 ^ (toString p).length := by
  subst hx
  have hp : p ≤ 10 ^ (toString p).length := Nat.le_of_lt (lt_pow_repr_length p)
  unfold numPerBatch at h
  cases parts with
  | some q =>
    cases maxPer with
    | some m => simp at h
    | none =>
      simp only [Option.some.injEq, Prod.mk.injEq] at h
      obtain ⟨rfl, rfl, rfl⟩ := h
      exact ⟨rfl, batched_length_le_parts xs _, hp⟩
  | none =>
    cases maxPer with
    | some m =>
      simp only [Option.some.injEq, Prod.mk.injEq] at h
      obtain ⟨rfl, rfl, rfl⟩ := h
      exact ⟨rfl, batched_length_le_ceilDiv xs _, hp⟩
    | none => simp at hreq

/-- both options given: `ValueError` -/
theorem C16_digits_exclusive (total p m : Nat) : numPerBatch total (some p) (some m) = none := rfl

/-- `bb fps-split` followed by `bb fps-merge` restores the rows -/
theorem C16_split_merge {α : Type} (rows : List α) (per digits : Nat) (stem : String) (hper : 1 ≤ per)
    (hd : (batched per rows).length ≤ 10 ^ digits) :
    mergeFiles (splitFile rows per digits stem) = rows := by
  have hp : ((splitFile rows per digits stem).map (·.1)).Pairwise (· < ·) := by
    rw [splitFile_map_fst]
    apply range'_map_pairwise_lt
    intro i j hij hj
    have := zfill_name_lt (stem ++ ".") ".npy" digits i j hij (by omega)
    simpa [String.append_assoc] using this
  rw [mergeFiles_of_pairwise _ hp, splitFile_map_snd, batched_flatten hper]

/-- `bb fps-shuffle` only permutes the rows -/
theorem C16_shuffle {α : Type} [Inhabited α] (perm : List Nat) (rows : List α) :
    (shuffleRows perm rows).Perm rows := applyPerm_perm rows perm

/-- sorted indices (repeats allowed, possibly none) below the total number of rows are
extracted from the concatenation of the files (empty files allowed) -/
theorem C16_fileseq (files : List (List Row)) (idxs : List Nat) (hs : idxs.Pairwise (· ≤ ·))
    (hb : ∀ i ∈ idxs, i < (files.map List.length).sum) :
    fileSeqIndex files idxs = .ok (idxs.map (fun i => files.flatten.getD i [])) := by
  rw [← List.length_flatten] at hb
  rw [fileSeqIndex_sorted files hs, win_zero_eq_self hb]
  simp

/-- the same, row by row: row `k` of the result is row `idxs[k]` of the concatenated files -/
theorem C16_fileseq_rows (files : List (List Row)) (idxs : List Nat) (hs : idxs.Pairwise (· ≤ ·))
    (hb : ∀ i ∈ idxs, i < (files.map List.length).sum) :
    ∃ out, fileSeqIndex files idxs = .ok out ∧ out.length = idxs.length ∧
      ∀ k (hk : k < idxs.length) (hk' : k < out.length) (hi : idxs[k] < files.flatten.length),
        out[k] = files.flatten[idxs[k]] := by
  refine ⟨_, C16_fileseq files idxs hs hb, by simp, ?_⟩
  intro k hk hk' hi
  simp [List.getD_eq_getElem?_getD, List.getElem?_eq_getElem hi]

/-- unsorted indices, or an index beyond the files: `ValueError` -/
theorem C16_fileseq_err (files : List (List Row)) (idxs : List Nat)
    (h : ¬ idxs.Pairwise (· ≤ ·) ∨ ∃ i ∈ idxs, (files.map List.length).sum ≤ i) :
    fileSeqIndex files idxs = .error .value := by
  by_cases hs : idxs.Pairwise (· ≤ ·)
  · rcases h with h | h
    · exact absurd hs h
    · rw [← List.length_flatten] at h
      have := win_zero_length_lt h
      rw [fileSeqIndex_sorted files hs, if_pos]
      simp only [bne_iff_ne, ne_eq]
      omega
  · unfold fileSeqIndex
    rw [if_pos]
    simp only [bne_iff_ne, ne_eq]
    exact fun e => hs ((mergeSort_le_eq_iff idxs).mp e)

/-! ### concrete values -/

example : batched 3 [0, 1, 2, 3, 4, 5, 6] = [[0, 1, 2], [3, 4, 5], [6]] := by decide
example : rangeBatches 3 ["a", "b", "c", "d", "e", "f", "g"]
    = [((0, 3), ["a", "b", "c"]), ((3, 6), ["d", "e", "f"]), ((6, 7), ["g"])] := by decide
example : numPerBatch 7 (some 3) none = some (3, 3, some 1) := by decide
example : numPerBatch 25 none (some 2) = some (13, 2, some 2) := by decide

/-- three files (the middle one empty), a repeated index -/
example : fileSeqIndex [[[true], [false]], [], [[true, true]]] [0, 2, 2]
    = .ok [[true], [true, true], [true, true]] :=
  C16_fileseq [[[true], [false]], [], [[true, true]]] [0, 2, 2] (by decide) (by decide)

example : fileSeqIndex [[[true], [false]], [], [[true, true]]] [2, 0] = .error .value :=
  C16_fileseq_err _ _ (Or.inl (by decide))

example : fileSeqIndex [[[true], [false]], [], [[true, true]]] [1, 3] = .error .value :=
  C16_fileseq_err _ _ (Or.inr ⟨3, by decide, by decide⟩)

/-- "C" and "N" are valid, "?" is not: two part files, one invalid index -/
example :
    let fp : String → Option Row := fun s => if s = "C" then some [true] else if s = "N" then some [false] else none
    ((partFiles fp ["C", "?", "N"] 2 (some 1) "fps").map (·.2)).flatten = [[true], [false]] ∧
    singleFile fp ["C", "?", "N"] 2 = ([[true], [false]], [1]) := by
  intro fp
  have h := C16_concat fp ["C", "?", "N"] 2 (by decide)
  have e : fpsFromSmiles fp ["C", "?", "N"] = ([[true], [false]], [1]) := by decide
  exact ⟨by rw [h.1, e], by rw [h.2.2.2, e]⟩

/-! ### the code: `parse_num_per_batch` (nested in `cli._fps_from_smiles`) as translated from `/repo` on this run -/

/-- code: the batch size, the number of parts and the pad width the command computes ARE the model's `numPerBatch`
(fewer than 2^53 SMILES; the float division `math.ceil(smiles_num / parts)` of the code is the exact ceiling there) -/
theorem C16_code_num_per_batch (expf : Rat → Rat) (total : Nat) (parts maxPer : Option Nat) (ht : total < 2 ^ 53)
    (hp : ∀ p, parts = some p → 0 < p) (hm : ∀ m, maxPer = some m → 0 < m) :
    BBGen.parse_num_per_batch expf (PV.int total) (onat parts) (onat maxPer)
      = match numPerBatch total parts maxPer with
        | none => [PV.err "ValueError"]
        | some (p, per, dg) => [PV.int p, PV.int per, onat dg] :=
  gen_num_per_batch expf total parts maxPer ht hp hm

/-- code: … hence, when a split is requested, what the code returns is `[p, per, len(str(p))]` with at most `p ≤ 10 ^ digits`
batches for ANY input of `total` elements — the zero-padded part names sort in part order (`C16_digits` for the code) -/
theorem C16_code_digits {α : Type} (expf : Rat → Rat) (total : Nat) (parts maxPer : Option Nat) (ht : total < 2 ^ 53)
    (hp : ∀ p, parts = some p → 0 < p) (hm : ∀ m, maxPer = some m → 0 < m) (hreq : parts.isSome ∨ maxPer.isSome)
    (hex : ¬ (parts.isSome ∧ maxPer.isSome)) (xs : List α) (hx : xs.length = total) :
    ∃ p per : Nat, BBGen.parse_num_per_batch expf (PV.int total) (onat parts) (onat maxPer)
        = [PV.int p, PV.int per, PV.int (toString p).length] ∧
      (batched per xs).length ≤ p ∧ p ≤ 10 ^ (toString p).length := by
  rw [gen_num_per_batch expf total parts maxPer ht hp hm]
  cases hn : numPerBatch total parts maxPer with
  | none =>
    exfalso
    cases parts <;> cases maxPer <;> simp_all [numPerBatch]
  | some r =>
    obtain ⟨p, per, dg⟩ := r
    obtain ⟨hdg, hb, hpw⟩ := C16_digits total parts maxPer p per dg hn hreq xs hx
    subst hdg
    exact ⟨p, per, rfl, hb, hpw⟩

/-- both options: the code raises `ValueError` (the command turns it into an abort) -/
theorem C16_code_exclusive (expf : Rat → Rat) (total p m : Nat) :
    BBGen.parse_num_per_batch expf (PV.int total) (PV.int p) (PV.int m) = [PV.err "ValueError"] := by
  simp [BBGen.parse_num_per_batch, PV.isNone]

/-- premises satisfiable: 17 SMILES in 9 parts — batches of 2, one digit -/
example : BBGen.parse_num_per_batch (fun x => x) (PV.int 17) (PV.int 9) PV.pynone = [PV.int 9, PV.int 2, PV.int 1] := by
  decide +kernel

end BB.Files
