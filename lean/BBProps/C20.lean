/-
C20 — memory monitoring never disturbs a run: the `max-rss.txt` protocol.

Model: `BBModel/Monitor.lean` (inode-level file system; writer effects of the pinned
"truncate in place" protocol and of the repaired "temp file + atomic rename" protocol;
the four-step reader `get_peak_memory_gib`; `run` executes an arbitrary schedule and
returns the results of all completed readers).  Invariant and its preservation:
`BBProofs/Monitor.lean`.

Assumptions about the kernel that the model builds in: `rename(2)` is atomic; a reader
that has opened an inode keeps reading that inode.  The `write` of the number is NOT
assumed atomic (an incomplete prefix may be visible).
-/
import BBProofs.Monitor
import BBProofs.GenEq7
import BBProofs.GenEq10

namespace BB.Mon

/-- Repaired protocol: for every sample sequence and every interleaving, every completed
read returns no value or a complete value that the writer really wrote; never an error,
never a wrong number. -/
theorem C20_reader (samples : List Nat) (sched : List Bool) :
    ∀ r ∈ run .rename samples sched,
      r = .done none ∨ ∃ v, r = .done (some v) ∧ v ∈ samples := by
  intro r hr
  rcases run_rename_ok samples sched r hr with h | ⟨v, h, hv⟩
  · exact Or.inl h
  · exact Or.inr ⟨v, h, maxima_subset 0 samples v hv⟩

/-- … more precisely, the value is one of the strict running maxima of the samples, i.e. a
value for which the writer performed an update. -/
theorem C20_reader_maxima (samples : List Nat) (sched : List Bool) :
    ∀ r ∈ run .rename samples sched,
      r = .done none ∨ ∃ v, r = .done (some v) ∧ v ∈ maxima 0 samples :=
  run_rename_ok samples sched

/-- Monotone reads: once a completed reader (the `i`-th) has returned a value, every reader
completed later (the `j`-th) returns a value — not `None` — that is at least as large. -/
theorem C20_reader_monotone (samples : List Nat) (sched : List Bool) (i j : Nat) (hij : i < j)
    (hj : j < (run .rename samples sched).length) (vi : Nat)
    (hi : (run .rename samples sched)[i]? = some (.done (some vi))) :
    ∃ vj, (run .rename samples sched)[j]? = some (.done (some vj)) ∧ vi ≤ vj := by
  have hil : i < (run .rename samples sched).length := Nat.lt_trans hij hj
  have hp := List.pairwise_iff_getElem.1 (run_rename_mono samples sched) i j hil hj hij vi
    (by rw [List.getElem?_eq_getElem hil] at hi; exact Option.some.inj hi)
  obtain ⟨vj, hvj, hle⟩ := hp
  exact ⟨vj, by rw [List.getElem?_eq_getElem hj, hvj], hle⟩

/-- The recorded peak never decreases: after every prefix of every execution the name
`max-rss.txt` is absent or names a completely written value, and along the execution
these values never decrease. -/
theorem C20_monotone (samples : List Nat) (sched : List Bool) (n : Nat) :
    (finalValue (runFS .rename samples (sched.take n)) = none ∨
      ∃ v, finalValue (runFS .rename samples (sched.take n)) = some (.full v) ∧ v ∈ samples) ∧
    ∀ m, n ≤ m → ∀ vn vm,
      finalValue (runFS .rename samples (sched.take n)) = some (.full vn) →
      finalValue (runFS .rename samples (sched.take m)) = some (.full vm) → vn ≤ vm := by
  constructor
  · obtain ⟨bn, _, _, hn, _⟩ := runFS_rename_prefix samples sched n n (Nat.le_refl _)
    rcases fin_finalValue hn with ⟨h, _⟩ | ⟨h, hp⟩
    · exact Or.inl h
    · exact Or.inr ⟨bn, h, maxima_subset 0 samples bn hp⟩
  · intro m hnm vn vm h1 h2
    obtain ⟨bn, bm, hle, hn, hm⟩ := runFS_rename_prefix samples sched n m hnm
    have e1 : bn = vn := by
      rcases fin_finalValue hn with ⟨h, _⟩ | ⟨h, _⟩
      · rw [h] at h1; cases h1
      · rw [h] at h1; cases h1; rfl
    have e2 : bm = vm := by
      rcases fin_finalValue hm with ⟨h, _⟩ | ⟨h, _⟩
      · rw [h] at h2; cases h2
      · rw [h] at h2; cases h2; rfl
    omega

/-- … and once the file is there it stays there. -/
theorem C20_monotone_present (samples : List Nat) (sched : List Bool) (n m : Nat) (hnm : n ≤ m)
    (h : finalValue (runFS .rename samples (sched.take n)) ≠ none) :
    finalValue (runFS .rename samples (sched.take m)) ≠ none := by
  obtain ⟨bn, bm, hle, hn, hm⟩ := runFS_rename_prefix samples sched n m hnm
  rcases fin_finalValue hn with ⟨h0, _⟩ | ⟨_, hp⟩
  · exact (h h0).elim
  · have : 0 < bn := maxima_gt 0 samples bn hp
    rcases fin_finalValue hm with ⟨_, hb⟩ | ⟨h1, _⟩
    · omega
    · rw [h1]; simp

/-- The values the writer writes are strictly increasing. -/
theorem C20_writes_increasing (samples : List Nat) : (maxima 0 samples).Pairwise (· < ·) :=
  maxima_pairwise 0 samples

/-- The pinned protocol is defective: a reader that runs right after `open(…, "w")` has
truncated the file reads `""` and `float("")` raises. -/
theorem C20_unfixed_witness : ∃ samples sched, (.error ∈ run .truncate samples sched) :=
  ⟨[1], [true, false, false, false, false], by decide⟩

/-- … and a reader that sees an incomplete prefix of the number returns a wrong value. -/
theorem C20_unfixed_witness_wrong : ∃ samples sched, (.wrong ∈ run .truncate samples sched) :=
  ⟨[1], [true, true, false, false, false, false], by decide⟩

/-- The defect does not need an empty directory: it recurs at every later update. -/
example : run .truncate [3, 5]
    [true, true, true, false, false, false, false, true, false, false, false, false]
    = [.done (some 3), .error] := by decide

/-- Non-vacuity of `C20_reader`: under the repaired protocol a reader runs to completion in
the middle of the second update (after its `openTmp`, `writePartial`) and returns the value
of the first; a later reader returns the second. -/
example : run .rename [3, 5]
    [true, true, true, true,          -- update 3 complete
     true, true,                      -- update 5: tmp opened, partially written
     false, false, false, false,      -- a complete read
     true, true,                      -- update 5: fully written, renamed
     false, false, false, false]      -- a complete read
    = [.done (some 3), .done (some 5)] := by decide

/-- A reader that opened the file before the rename and reads after it still gets the
complete old value (it holds the old inode). -/
example : run .rename [3, 5]
    [true, true, true, true, false, false, true, true, true, true, false, false]
    = [.done (some 3)] := by decide

/-- Before the first rename the reader returns `None`. -/
example : run .rename [3] [true, true, true, false, true, false, false, false, false]
    = [.done none, .done (some 3)] := by decide


/-! ### the code: the body of the daemon's loop as translated from `/repo` on this run (`BBGen.monitor_rss_process_loop`) -/

open BB in
/-- THE WRITER OF THE CODE IS THE MODEL'S WRITER.  The generated loop body, iterated from the generated initial maximum
over any finite sequence of iterations with non-negative float samples `ss`, does on `max-rss.txt` / `max-rss.txt.tmp`
exactly `writerOps .rename` (of the samples' ranks: the model's values are abstract naturals). -/
theorem C20_code_writer (expf : Rat → Rat) (st iv bg : PV) (parent : String)
    (its : List (PV × PV)) (ss : List Rat)
    (hs : List.Forall₂ (fun it s => PV.mul it.1 bg = PV.flt (some s)) its ss) (hpos : ∀ s ∈ ss, 0 ≤ s) :
    decodeEff (keyOf (rank (0 :: ss))) parent
        (monitorRun expf st iv bg (PV.str parent) (BBGen.monitor_rss_process_loop_init.headD PV.pynone) its)
      = writerOps .rename (ss.map (rank (0 :: ss))) :=
  gen_monitor_writer expf st iv bg parent its ss hs hpos

open BB in
/-- … hence every reader interleaved in any way with the file effects OF THE CODE returns no value or a complete value
that was written: never an error, never a truncated number. -/
theorem C20_code_reader (expf : Rat → Rat) (st iv bg : PV) (parent : String)
    (its : List (PV × PV)) (ss : List Rat)
    (hs : List.Forall₂ (fun it s => PV.mul it.1 bg = PV.flt (some s)) its ss) (hpos : ∀ s ∈ ss, 0 ≤ s)
    (sched : List Bool) :
    ∀ r ∈ (({ ops := decodeEff (keyOf (rank (0 :: ss))) parent
                (monitorRun expf st iv bg (PV.str parent) (BBGen.monitor_rss_process_loop_init.headD PV.pynone) its) } : St).exec
              sched).out,
      r = .done none ∨ ∃ v, r = .done (some v) ∧ v ∈ ss.map (rank (0 :: ss)) := by
  rw [C20_code_writer expf st iv bg parent its ss hs hpos]
  exact C20_reader (ss.map (rank (0 :: ss))) sched

open BB in
/-- one iteration whose sample does not exceed the running maximum (or is NaN) touches neither peak-file name -/
theorem C20_code_keep (expf : Rat → Rat) (m : Rat) (s : Option Rat) (st iv bg clk raw : PV) (parent : String) (k : PV → Nat)
    (hs : PV.mul raw bg = PV.flt s) (h : ∀ x, s = some x → x ≤ m) :
    decodeEff k parent
      (BBGen.monitor_rss_process_loop expf (PV.flt (some m)) st iv bg (PV.str parent) clk raw).dropLast = [] := by
  rw [gen_monitor_loop_keep expf m s st iv bg clk raw parent hs h, List.dropLast_concat]
  simpa [decodeEff] using decode_csv k parent (PV.flt s) (PV.sub clk st) []

open BB in
/-- code, the reader `get_peak_memory_gib`: the model reader's four steps in the model's order with the model's outcomes.
(1) no file: nothing is opened, `None` (`rstep`: `.start ↦ .done none`); (2) the file exists: open for reading, one read,
close, and the result is `float(text.strip())` (`.sawExists ↦ .opened ↦ .read ↦ parse`); (3) an empty text — what only a
truncating writer can expose — raises `ValueError` (`.read .empty ↦ .error`). -/
theorem C20_code_reader_steps (expf : Rat → Rat) (dir : String) (content : PV) :
    BBGen.get_peak_memory_gib expf (PV.str dir) content (PV.bool false) = [PV.pynone] ∧
    BBGen.get_peak_memory_gib expf (PV.str dir) content (PV.bool true)
      = [PV.str "open", PV.str (dir ++ "/" ++ "max-rss.txt"), PV.str "r",
         PV.str "read", PV.str (dir ++ "/" ++ "max-rss.txt"),
         PV.str "close", PV.str (dir ++ "/" ++ "max-rss.txt"),
         PV.floatOf (PV.strStrip content)] ∧
    PV.floatOf (PV.strStrip (PV.str "")) = PV.err "ValueError" ∧
    (∀ fs : FS, fs.final = none → rstep fs .start = .done none) ∧
    (∀ (fs : FS) i, fs.final = some i → rstep fs .start = .sawExists ∧ rstep fs .sawExists = .opened i) ∧
    rstep {} (.read .empty) = .error :=
  ⟨gen_reader_absent expf dir content, gen_reader_present expf dir content, floatOf_empty,
   fun fs h => by simp [rstep, h], fun fs i h => by simp [rstep, h], rfl⟩

open BB in
/-- premises satisfiable, conclusion non-trivial: three iterations with samples 3.0, 2.0, 5.0 — two updates -/
example : decodeEff (keyOf (rank [0, 3, 2, 5])) "d"
    (monitorRun (fun x => x) (PV.flt (some 0)) (PV.flt (some 1)) (PV.flt (some 1)) (PV.str "d")
      (BBGen.monitor_rss_process_loop_init.headD PV.pynone)
      [(PV.flt (some 3), PV.flt (some 1)), (PV.flt (some 2), PV.flt (some 2)), (PV.flt (some 5), PV.flt (some 3))])
    = [.openTmp, .writePartial, .writeFull 2, .renameTmp, .openTmp, .writePartial, .writeFull 3, .renameTmp] := by
  decide +kernel

end BB.Mon
