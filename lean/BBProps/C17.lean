/-
C17 — merge configuration is consistent and changes only when asked.

`selectMerge cur crit tol` is the decision logic shared by the constructor (`cur = none`)
and `set_merge` (`cur = some current`): which (criterion, tolerance) combinations are accepted
and which merge function results.  (This is the repaired logic; on the pinned code the
constructor rejected every merge-function object, `set_merge` rejected a tolerance for
`diameter`/`radius`, reset a chosen tolerance to 0.05 and mutated before failing.)
-/
import BBModel.Estimator
import Mathlib.Tactic.Linarith
import BBProofs.GenEq4

namespace BB

/-- constructor and `set_merge` accept exactly the same (criterion, tolerance) arguments, names and objects -/
theorem C17_accept_iff (e : Est) (thr : Rat) (bf : Nat) (a : CritArg) (tol : Option Rat) :
    (∃ e', construct thr bf (some a) tol = .ok e') ↔ (setMerge e (some a) tol none none).2 = none := by
  unfold construct setMerge
  cases a with
  | obj m =>
    cases tol <;> simp [selectMerge]
  | name s =>
    cases h : Crit.ofName? s <;> simp [selectMerge, h]

theorem construct_ok (thr : Rat) (bf : Nat) (a : CritArg) (tol : Option Rat) (e : Est)
    (h : construct thr bf (some a) tol = .ok e) :
    ∃ m, selectMerge none (some a) tol = .ok m ∧ e = init { thr := thr, bf := bf, merge := m } := by
  unfold construct at h
  simp only [Option.getD_some] at h
  cases hs : selectMerge none (some a) tol with
  | error x => rw [hs] at h; simp at h
  | ok m => rw [hs] at h; simp only [Except.ok.injEq] at h; exact ⟨m, rfl, h.symm⟩

theorem setMerge_ok (e e' : Est) (crit : Option CritArg) (tol thr : Option Rat) (bf : Option Nat)
    (h : setMerge e crit tol thr bf = (e', none)) :
    ∃ m, selectMerge (some e.cfg.merge) crit tol = .ok m ∧
      e' = { e with cfg := { thr := thr.getD e.cfg.thr, bf := bf.getD e.cfg.bf, merge := m } } := by
  unfold setMerge at h
  cases hs : selectMerge (some e.cfg.merge) crit tol with
  | error x => rw [hs] at h; simp at h
  | ok m => rw [hs] at h; simp only [Prod.mk.injEq, and_true] at h; exact ⟨m, rfl, h.symm⟩

theorem selectMerge_name (cur : Option MergeFn) (s : String) (tol : Option Rat) (m : MergeFn)
    (h : selectMerge cur (some (.name s)) tol = .ok m) :
    ∃ c, Crit.ofName? s = some c ∧
      m = MergeFn.norm { crit := c, tol := tolChoice tol (cur.bind MergeFn.tolerance?) } := by
  simp only [selectMerge] at h
  cases hc : Crit.ofName? s with
  | none => rw [hc] at h; simp at h
  | some c => rw [hc] at h; simp only [Except.ok.injEq] at h; exact ⟨c, rfl, h.symm⟩

theorem norm_no_tol (c : Crit) (t t' : Rat) (h : c.hasTol = false) :
    MergeFn.norm { crit := c, tol := t } = MergeFn.norm { crit := c, tol := t' } := by
  simp [MergeFn.norm, h]

/-- both routes yield the same merge function when the tolerance is given explicitly (or the
criterion carries none, or a merge-function object is passed) -/
theorem C17_same_fn (e e1 e2 : Est) (thr : Rat) (bf : Nat) (a : CritArg) (tol : Option Rat)
    (hexp : tol.isSome ∨ (∃ m, a = .obj m) ∨ (∃ s c, a = .name s ∧ Crit.ofName? s = some c ∧ c.hasTol = false))
    (h1 : construct thr bf (some a) tol = .ok e1) (h2 : setMerge e (some a) tol none none = (e2, none)) :
    e1.cfg.merge = e2.cfg.merge := by
  obtain ⟨m1, hm1, rfl⟩ := construct_ok thr bf a tol e1 h1
  obtain ⟨m2, hm2, rfl⟩ := setMerge_ok e e2 (some a) tol none none h2
  simp only [init]
  cases a with
  | obj m =>
    simp only [selectMerge] at hm1 hm2
    split at hm1
    · simp at hm1
    · rename_i hn
      simp only [hn] at hm2
      cases hm1; cases hm2; rfl
  | name s =>
    obtain ⟨c1, hc1, rfl⟩ := selectMerge_name none s tol m1 hm1
    obtain ⟨c2, hc2, rfl⟩ := selectMerge_name (some e.cfg.merge) s tol m2 hm2
    rw [hc1] at hc2
    cases hc2
    cases tol with
    | some t => simp [tolChoice]
    | none =>
      rcases hexp with h | ⟨m, h⟩ | ⟨s', c', h, hc', hno⟩
      · simp at h
      · cases h
      · cases h
        rw [hc1] at hc'
        cases hc'
        exact norm_no_tol _ _ _ hno

/-- `set_merge` changes exactly what it is given: threshold and branching factor only when passed,
the criterion only when passed, and a previously chosen tolerance survives a call without tolerance -/
theorem C17_frame (e e' : Est) (crit : Option CritArg) (tol thr : Option Rat) (bf : Option Nat)
    (h : setMerge e crit tol thr bf = (e', none)) :
    (thr = none → e'.cfg.thr = e.cfg.thr) ∧ (∀ t, thr = some t → e'.cfg.thr = t) ∧
    (bf = none → e'.cfg.bf = e.cfg.bf) ∧ (∀ b, bf = some b → e'.cfg.bf = b) ∧
    (crit = none → tol = none → e'.cfg.merge = e.cfg.merge) ∧
    (crit = none → e'.cfg.merge.crit = e.cfg.merge.crit) ∧
    (∀ t, tol = some t → e'.cfg.merge.crit.hasTol = true → e'.cfg.merge.tolerance? = some t) ∧
    (tol = none → ∀ t0, e.cfg.merge.tolerance? = some t0 → e'.cfg.merge.crit.hasTol = true →
      (∀ m, crit ≠ some (.obj m)) → e'.cfg.merge.tolerance? = some t0) ∧
    e'.st = e.st ∧ e'.numFitted = e.numFitted := by
  unfold setMerge at h
  split at h
  · simp at h
  · rename_i m hm
    simp only [Prod.mk.injEq, and_true] at h
    subst h
    refine ⟨fun h => by simp [h], fun t h => by simp [h], fun h => by simp [h], fun b h => by simp [h], ?_, ?_, ?_, ?_, rfl, rfl⟩
    · intro hc ht
      subst hc; subst ht
      simp only [selectMerge] at hm
      cases hm; rfl
    · intro hc
      subst hc
      cases tol with
      | none => simp only [selectMerge] at hm; cases hm; rfl
      | some t =>
        simp only [selectMerge] at hm
        split at hm
        · cases hm; rfl
        · simp at hm
    · intro t ht hhas
      subst ht
      simp only at hhas ⊢
      cases crit with
      | none =>
        simp only [selectMerge] at hm
        split at hm
        · cases hm; simp [MergeFn.tolerance?] at hhas ⊢; simp [hhas]
        · simp at hm
      | some a =>
        cases a with
        | obj m0 => simp [selectMerge] at hm
        | name s =>
          cases hc : Crit.ofName? s with
          | none => simp [selectMerge, hc] at hm
          | some c =>
            simp only [selectMerge, hc] at hm
            cases hm
            simp only [MergeFn.norm] at hhas ⊢
            split at hhas <;> simp_all [MergeFn.tolerance?, tolChoice]
    · intro ht t0 h0 hhas hnoobj
      subst ht
      simp only at hhas ⊢
      cases crit with
      | none => simp only [selectMerge] at hm; cases hm; exact h0
      | some a =>
        cases a with
        | obj m0 => exact absurd rfl (hnoobj m0)
        | name s =>
          cases hc : Crit.ofName? s with
          | none => simp [selectMerge, hc] at hm
          | some c =>
            simp only [selectMerge, hc, Option.bind_some, h0] at hm
            cases hm
            simp only [MergeFn.norm] at hhas ⊢
            split at hhas <;> simp_all [MergeFn.tolerance?, tolChoice]

/-- a `set_merge` that fails leaves the estimator exactly as it was -/
theorem C17_atomic (e e' : Est) (crit : Option CritArg) (tol thr : Option Rat) (bf : Option Nat) (x : Err)
    (h : setMerge e crit tol thr bf = (e', some x)) : e' = e := by
  unfold setMerge at h
  split at h
  · simp only [Prod.mk.injEq] at h; exact h.1.symm
  · simp at h

/-- `reset` discards all clustered data and keeps the whole merge configuration: the estimator is
the freshly constructed one -/
theorem C17_reset (pol : Cfg → Policy) (e : Est) :
    (stepWith pol e .reset).1 = init e.cfg ∧ (stepWith pol e .reset).1.cfg = e.cfg := ⟨rfl, rfl⟩

/-- the behaviour of an estimator depends on its history only through configuration and state:
after `reset`, any history behaves as on a freshly constructed estimator with that configuration -/
theorem C17_reset_fresh (pol : Cfg → Policy) (e : Est) (ops : List Op) :
    runWith pol (stepWith pol e .reset).1 ops = runWith pol (init e.cfg) ops := rfl

/-- what the constructor accepts -/
theorem C17_ctor (thr : Rat) (bf : Nat) (s : String) (tol : Option Rat) (m : MergeFn) :
    ((∃ e, construct thr bf (some (.name s)) tol = .ok e) ↔ (Crit.ofName? s).isSome) ∧
    ((∃ e, construct thr bf (some (.obj m)) tol = .ok e) ↔ tol = none) := by
  unfold construct
  constructor
  · cases h : Crit.ofName? s <;> simp [selectMerge, h]
  · cases tol <;> simp [selectMerge]

/-! Non-vacuity. -/
example : (setMerge (init { thr := 1/2, bf := 3, merge := { crit := .tolDiameter, tol := 1/5 } })
    (some (.name "tolerance-radius")) none (some (1/4)) none).1.cfg.merge.tolerance? = some (1/5) := by
  decide +kernel


/-! ## The same for the code itself

`BBGen.BitBirch_init` (the constructor up to the first statement that does not concern `threshold`,
`branching_factor`, `_merge_accept_fn`), `BBGen.BitBirch_set_merge`, `BBGen.BitBirch_tolerance` are the Lean text that
`tools/py2lean.py` wrote from `bblean/bitbirch.py` on this run.  A call returns its status (`None` or the exception)
followed by the three attributes; merge-function objects are `objOf expf m`; `_global_merge_accept` is `None`. -/

/-- code: `set_merge(criterion, tolerance=, threshold=, branching_factor=)` is the model's `setMerge` -/
theorem C17_code_set_merge (expf : Rat → Rat) (e : Est) (crit : Option CritArg) (tol thr : Option Rat) (bf : Option Nat) :
    BBGen.BitBirch_set_merge expf (PV.flt (some e.cfg.thr)) (PV.int e.cfg.bf) (objOf expf e.cfg.merge)
        (critPV expf crit) (optRatPV tol) (optRatPV thr) (optNatPV bf) PV.pynone
      = (match (setMerge e crit tol thr bf).2 with
         | none => PV.pynone
         | some _ => PV.err "ValueError")
        :: cfgState expf (setMerge e crit tol thr bf).1.cfg.thr (setMerge e crit tol thr bf).1.cfg.bf
             (setMerge e crit tol thr bf).1.cfg.merge := by
  rw [gen_set_merge]
  unfold setMerge
  cases selectMerge (some e.cfg.merge) crit tol <;> rfl

/-- code: the constructor is the model's `construct` -/
theorem C17_code_ctor (expf : Rat → Rat) (thr : Rat) (bf : Nat) (crit : Option CritArg) (tol : Option Rat) :
    BBGen.BitBirch_init expf (PV.flt (some thr)) (PV.int bf) (critPV expf crit) (optRatPV tol) PV.pynone
      = match construct thr bf crit tol with
        | .error _ => [PV.err "ValueError", PV.flt (some thr), PV.int bf, PV.pynone]
        | .ok e => PV.pynone :: cfgState expf e.cfg.thr e.cfg.bf e.cfg.merge := by
  rw [gen_init]
  unfold construct
  cases selectMerge none (some (crit.getD (.name "diameter"))) tol <;> rfl

/-- code: constructor and `set_merge` accept exactly the same (criterion, tolerance) arguments -/
theorem C17_code_accept_iff (expf : Rat → Rat) (e : Est) (thr : Rat) (bf : Nat) (a : CritArg) (tol : Option Rat) :
    (BBGen.BitBirch_init expf (PV.flt (some thr)) (PV.int bf) (critPV expf (some a)) (optRatPV tol) PV.pynone).head? = some PV.pynone
    ↔ (BBGen.BitBirch_set_merge expf (PV.flt (some e.cfg.thr)) (PV.int e.cfg.bf) (objOf expf e.cfg.merge)
        (critPV expf (some a)) (optRatPV tol) PV.pynone PV.pynone PV.pynone).head? = some PV.pynone := by
  have hs : BBGen.BitBirch_set_merge expf (PV.flt (some e.cfg.thr)) (PV.int e.cfg.bf) (objOf expf e.cfg.merge)
      (critPV expf (some a)) (optRatPV tol) PV.pynone PV.pynone PV.pynone = _ :=
    C17_code_set_merge expf e (some a) tol none none
  rw [C17_code_ctor, hs]
  have hm := C17_accept_iff e thr bf a tol
  cases hc : construct thr bf (some a) tol with
  | error x =>
    have : ¬ (setMerge e (some a) tol none none).2 = none := by
      rw [← hm]; rintro ⟨e', he'⟩; rw [hc] at he'; cases he'
    cases hsm : (setMerge e (some a) tol none none).2 with
    | none => exact absurd hsm this
    | some y => simp
  | ok e1 =>
    have : (setMerge e (some a) tol none none).2 = none := hm.mp ⟨e1, hc⟩
    simp [this]

/-- code: a `set_merge` that raises leaves the three attributes exactly as they were -/
theorem C17_code_atomic (expf : Rat → Rat) (e : Est) (crit : Option CritArg) (tol thr : Option Rat) (bf : Option Nat)
    (msg : String) (rest : List PV)
    (h : BBGen.BitBirch_set_merge expf (PV.flt (some e.cfg.thr)) (PV.int e.cfg.bf) (objOf expf e.cfg.merge)
        (critPV expf crit) (optRatPV tol) (optRatPV thr) (optNatPV bf) PV.pynone = PV.err msg :: rest) :
    rest = cfgState expf e.cfg.thr e.cfg.bf e.cfg.merge := by
  rw [C17_code_set_merge] at h
  cases hsm : (setMerge e crit tol thr bf).2 with
  | none => rw [hsm] at h; simp at h
  | some x =>
    have he : (setMerge e crit tol thr bf).1 = e :=
      C17_atomic e _ crit tol thr bf x (by rw [← hsm])
    rw [he] at h
    simp only [List.cons.injEq] at h
    exact h.2.symm

/-- code: the `tolerance` property reads the model's `tolerance?` -/
theorem C17_code_tolerance (expf : Rat → Rat) (a b : PV) (m : MergeFn) :
    BBGen.BitBirch_tolerance expf a b (objOf expf m) = optRatPV m.tolerance? := gen_tolerance expf a b m

/-- code: `BitBirch.reset` (as translated on this run; what it assigns outside the merge configuration — the root, the leaf
chain, the fitted count — is dropped by the translation) leaves threshold, branching factor and merge function exactly as
they were, whether or not a tree exists -/
theorem C17_code_reset_frame (expf : Rat → Rat) (thr bf fn root : PV) (hroot : ∀ e, root ≠ PV.err e) :
    BBGen.BitBirch_reset expf thr bf fn root = [thr, bf, fn] := by
  unfold BBGen.BitBirch_reset
  cases root <;> simp_all [PV.isNone, PV.not, PV.truthy, PV.iteL]

end BB
